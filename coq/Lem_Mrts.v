(* Lem_Mrts.v — C15 (minimum relevant time scale) and the SPIKE part of C07:
   the MRTS threshold is monotone / a no-op below every ISI, the pooled ISI
   lengths of the automatic threshold, range of the SPIKE profile. *)
From Coq Require Import List Bool Arith ZArith Reals Lra Lia Sorted Permutation.
Import ListNotations.
From PS Require Import Num RLemmas Valid ModelKernels ModelFuncs ModelAPI Spec SyncDefs.
From PS Require Import Lem_MinDist Lem_Isi Lem_IsiProps Lem_Spike Lem_Tau Lem_Sync Lem_Lists.
Local Open Scope R_scope.

Local Notation trainR := (@train R).

(* ------------------------------------------------------------------ *)
(* 0. small list helpers                                                *)

Lemma mr_Forall2_map_same {A B} (P : B -> B -> Prop) (f g : A -> B) l :
  (forall x, In x l -> P (f x) (g x)) -> Forall2 P (map f l) (map g l).
Proof.
  induction l as [|a l IH]; intros H; cbn [map]; constructor.
  - apply H; left; auto.
  - apply IH; intros; apply H; right; auto.
Qed.

Lemma mr_Forall_map {A B} (P : B -> Prop) (f : A -> B) l :
  (forall x, In x l -> P (f x)) -> Forall P (map f l).
Proof. intros H. rewrite Forall_forall. intros y Hy. apply in_map_iff in Hy as (x & <- & Hx). auto. Qed.

Lemma mr_Forall2_last {A B} (P : A -> B -> Prop) l l' d d' :
  Forall2 P l l' -> P d d' -> P (last l d) (last l' d').
Proof.
  intros H; revert d d'. induction H as [|a b l l' Hab H IH]; intros d d' Hd; [exact Hd|].
  destruct H as [|a2 b2 l l' H2 H]; [exact Hab|].
  change (P (last (a2 :: l) d) (last (b2 :: l') d')). apply IH; auto.
Qed.

Lemma mr_Forall2_eq {A} (l l' : list A) : Forall2 eq l l' -> l = l'.
Proof. induction 1; [reflexivity|subst; reflexivity]. Qed.

Lemma mr_pieces_snoc : forall (l : list R) a b,
  pieces (l ++ [a; b]) = pieces (l ++ [a]) ++ [(a, b)].
Proof.
  induction l as [|x l IH]; intros a b; [reflexivity|].
  destruct l as [|y l]; [reflexivity|].
  change ((x :: y :: l) ++ [a; b]) with (x :: y :: (l ++ [a; b])).
  change ((x :: y :: l) ++ [a]) with (x :: y :: (l ++ [a])).
  rewrite !pieces_cons2. change (y :: l ++ [a; b]) with ((y :: l) ++ [a; b]).
  rewrite IH. reflexivity.
Qed.

(* the pieces of a strictly sorted list: ordered ends, members of the list,
   and no element of the list strictly inside *)
Lemma mr_pieces_props : forall (bs : list R) p, ssorted bs -> In p (pieces bs) ->
  fst p < snd p /\ In (fst p) bs /\ In (snd p) bs /\
  forall z, In z bs -> z <= fst p \/ snd p <= z.
Proof.
  intros bs p S H. apply In_nth_error in H as [k H].
  destruct (@pieces_gap bs k p S H) as [H1 H2]. destruct (@pieces_nth bs k p H) as [H3 H4].
  repeat split; auto; eapply nth_error_In; eauto.
Qed.

(* every time between two members of a sorted list lies in one piece *)
Lemma mr_pieces_cover : forall (bs : list R) lo hi t, ssorted bs -> In lo bs -> In hi bs ->
  lo <= t < hi -> exists p, In p (pieces bs) /\ fst p <= t < snd p.
Proof.
  induction bs as [|a bs IH]; intros lo hi t S Hlo Hhi Ht; [destruct Hlo|].
  pose proof (ssorted_cons_inv _ _ S) as [S' F]. rewrite Forall_forall in F.
  destruct bs as [|b bs].
  - destruct Hlo as [<-|[]]. destruct Hhi as [<-|[]]. lra.
  - rewrite pieces_cons2. destruct (Rlt_dec t b) as [H|H].
    + exists (a, b). split; [left; auto|]. cbn [fst snd]. split; [|exact H].
      destruct Hlo as [<-|Hlo]; [lra|]. exfalso.
      destruct Hlo as [<-|Hlo]; [lra|].
      apply ssorted_cons_inv in S' as [_ F']. rewrite Forall_forall in F'. apply F' in Hlo. lra.
    + destruct (IH b hi t S') as (p & Hp & Hpt).
      * left; auto.
      * destruct Hhi as [<-|Hhi]; [|exact Hhi]. assert (a < b) by (apply F; left; auto). lra.
      * lra.
      * exists p. split; [right; exact Hp|exact Hpt].
Qed.

(* ------------------------------------------------------------------ *)
(* 1. prev_of / next_of                                                 *)

Lemma mr_prev_some : forall u t acc p, prev_of ROps t u acc = Some p ->
  (In p u /\ p <= t) \/ acc = Some p.
Proof.
  induction u as [|x r IH]; intros t acc p H; cbn [prev_of] in H; [right; exact H|].
  destruct (nleb ROps x t) eqn:E; [|right; exact H].
  apply IH in H as [[H1 H2]|H].
  - left; split; [right; exact H1|exact H2].
  - injection H as <-. left; split; [left; auto|apply nleb_true; exact E].
Qed.

Lemma mr_prev_in : forall u t p, prev_of ROps t u None = Some p -> In p u /\ p <= t.
Proof. intros u t p H. apply mr_prev_some in H as [H|H]; [exact H|discriminate]. Qed.

Lemma mr_next_in : forall u t f, next_of ROps t u = Some f -> In f u /\ t < f.
Proof.
  induction u as [|x r IH]; intros t f H; cbn [next_of nltb ROps] in H; [discriminate|].
  destruct (Rltb_spec t x) as [L|L].
  - injection H as <-. split; [left; auto|exact L].
  - apply IH in H as [H1 H2]. split; [right; exact H1|exact H2].
Qed.

Lemma mr_prev_ext : forall u t t' acc, (forall x, In x u -> (x <= t <-> x <= t')) ->
  prev_of ROps t u acc = prev_of ROps t' u acc.
Proof.
  induction u as [|x r IH]; intros t t' acc H; cbn [prev_of]; [reflexivity|].
  assert (Hx : x <= t <-> x <= t') by (apply H; left; auto).
  assert (E : nleb ROps x t = nleb ROps x t').
  { destruct (nleb ROps x t') eqn:E'.
    - apply nleb_true. apply Hx. apply nleb_true; exact E'.
    - apply nleb_false. apply nleb_false in E'. destruct (Rlt_dec t x) as [C|C]; auto.
      assert (x <= t') by (apply Hx; lra). lra. }
  rewrite E. destruct (nleb ROps x t'); [|reflexivity].
  apply IH. intros y Hy. apply H. right; exact Hy.
Qed.

Lemma mr_next_ext : forall u t t', (forall x, In x u -> (x <= t <-> x <= t')) ->
  next_of ROps t u = next_of ROps t' u.
Proof.
  induction u as [|x r IH]; intros t t' H; cbn [next_of nltb ROps]; [reflexivity|].
  assert (Hx : x <= t <-> x <= t') by (apply H; left; auto).
  destruct (Rltb_spec t x) as [L|L], (Rltb_spec t' x) as [L'|L']; try reflexivity.
  - exfalso. assert (x <= t) by (apply Hx; lra). lra.
  - exfalso. assert (x <= t') by (apply Hx; lra). lra.
  - apply IH. intros y Hy. apply H. right; exact Hy.
Qed.

(* the ISI length only depends on which spikes lie left of the time *)
Lemma mr_isi_len_at_ext : forall ts te u t t', (forall x, In x u -> (x <= t <-> x <= t')) ->
  isi_len_at ROps ts te u t = isi_len_at ROps ts te u t'.
Proof.
  intros ts te u t t' H. unfold isi_len_at.
  rewrite (mr_prev_ext u t t' None H), (mr_next_ext u t t' H). reflexivity.
Qed.

(* ------------------------------------------------------------------ *)
(* 2. isi_lengths = isi_lengths_spec   (item 6)                         *)

Lemma mr_two_last : forall (x0 x1 : R) r, exists l b a, x0 :: x1 :: r = l ++ [b; a].
Proof.
  intros x0 x1 r; revert x0 x1. induction r as [|x2 r IH]; intros x0 x1.
  - exists [], x0, x1. reflexivity.
  - destruct (IH x1 x2) as (l & b & a & E). exists (x0 :: l), b, a. rewrite E. reflexivity.
Qed.

Lemma mr_last_snoc : forall (l : list R) a d, last (l ++ [a]) d = a.
Proof. intros. apply last_last. Qed.

Lemma mr_ssorted_le_last : forall (l : list R) x d, ssorted l -> In x l -> x <= last l d.
Proof.
  induction l as [|a l IH]; intros x d S H; [destruct H|].
  apply ssorted_cons_inv in S as [S F]. rewrite Forall_forall in F.
  destruct l as [|b l]; [destruct H as [<-|[]]; cbn; lra|].
  change (last (a :: b :: l) d) with (last (b :: l) d).
  destruct H as [<-|H]; [|apply IH; auto].
  apply Rle_trans with b; [left; apply F; left; auto|apply IH; auto; left; auto].
Qed.

(* the middle part: the intervals between consecutive spikes *)
Lemma mr_mid_diffs : forall ts te f p a, ssorted (rev p ++ a :: f) ->
  map (fun q => isi_len_at ROps ts te (rev p ++ a :: f) (mid ROps q)) (pieces (a :: f)) = diffs ROps (a :: f).
Proof.
  induction f as [|b f IH]; intros p a S; [reflexivity|].
  rewrite pieces_cons2. cbn [map diffs]. f_equal.
  - assert (E : rev p ++ a :: b :: f = rev (a :: p) ++ b :: f)
      by (cbn [rev]; rewrite <- app_assoc; reflexivity).
    rewrite E in *. assert (Hab : a < b).
    { cbn [rev] in S. rewrite <- app_assoc in S. apply ssorted_app_inv in S as (_ & S & _).
      apply ssorted_cons_inv in S as [_ F]. inversion F; auto. }
    pose proof (mid_between a b Hab) as [M1 M2].
    rewrite (isi_len_at_cursor ts te (a :: p) (b :: f)); auto; cbn [lo hi]; lra.
  - assert (E : rev p ++ a :: b :: f = rev (a :: p) ++ b :: f)
      by (cbn [rev]; rewrite <- app_assoc; reflexivity).
    rewrite E in *. apply IH. exact S.
Qed.

(* the breakpoints of the one-train specification *)
Lemma mr_bs_one : forall ts te x0 r, valid ts te (x0 :: r) ->
  sort_unique ROps (ts :: (x0 :: r) ++ [te]) =
  (if Rltb ts x0 then [ts] else []) ++ (x0 :: r) ++ (if Rltb (last (x0 :: r) x0) te then [te] else []).
Proof.
  intros ts te x0 r (Hte & S & B). set (s := x0 :: r) in *.
  rewrite Forall_forall in B.
  assert (Hx0 : forall x, In x s -> x0 <= x).
  { intros x [<-|H]; [lra|]. apply ssorted_cons_inv in S as [_ F]. rewrite Forall_forall in F.
    left; apply F; auto. }
  assert (Hxl : forall x, In x s -> x <= last s x0) by (intros; apply mr_ssorted_le_last; auto).
  assert (Lin : In (last s x0) s).
  { destruct (@exists_last _ s) as (l & a & E); [discriminate|]. rewrite E, last_last.
    apply in_or_app; right; left; auto. }
  set (hs := if Rltb ts x0 then [ts] else []).
  set (tl := if Rltb (last s x0) te then [te] else []).
  assert (Srt : ssorted (hs ++ s ++ tl)).
  { assert (S2 : ssorted (s ++ tl)).
    { unfold tl. destruct (Rltb_spec (last s x0) te) as [L|L]; [|rewrite app_nil_r; exact S].
      apply ssorted_snoc; auto.
      - rewrite Forall_forall. intros x Hx. apply B in Hx. lra.
      - rewrite (last_nonempty_default s te x0) by discriminate. lra. }
    unfold hs. destruct (Rltb_spec ts x0) as [L|L]; [|exact S2].
    cbn [app]. apply ssorted_cons; auto. rewrite Forall_forall. intros x Hx.
    apply in_app_or in Hx as [Hx|Hx]; [apply Hx0 in Hx; lra|].
    unfold tl in Hx. destruct (Rltb (last s x0) te); [destruct Hx as [<-|[]]; lra|destruct Hx]. }
  rewrite <- (sort_unique_id _ Srt). apply sort_unique_ext. intros x.
  change (ts :: s ++ [te]) with ([ts] ++ s ++ [te]). rewrite !in_app_iff.
  unfold hs, tl. split.
  - intros [[<-|[]]|[H|[<-|[]]]].
    + destruct (Rltb_spec ts x0) as [L|L]; [left; left; auto|].
      right; left. assert (E : ts = x0) by (specialize (B x0 (or_introl eq_refl)); lra). rewrite E; left; auto.
    + right; left; exact H.
    + destruct (Rltb_spec (last s x0) te) as [L|L]; [right; right; left; auto|].
      right; left. assert (E : te = last s x0) by (specialize (B _ Lin); lra). rewrite E; exact Lin.
  - intros [H|[H|H]].
    + destruct (Rltb ts x0); [destruct H as [<-|[]]; left; left; auto|destruct H].
    + right; left; exact H.
    + destruct (Rltb (last s x0) te); [destruct H as [<-|[]]; right; right; left; auto|destruct H].
Qed.

Lemma mr_pieces_app1 : forall (l : list R) a d, l <> [] ->
  pieces (l ++ [a]) = pieces l ++ [(last l d, a)].
Proof.
  intros l a d H. destruct (@exists_last _ l H) as (l' & b & ->).
  rewrite last_last, <- app_assoc. cbn [app]. apply mr_pieces_snoc.
Qed.

Lemma mr_head_len : forall ts te x0 r, ssorted (x0 :: r) -> ts < x0 ->
  isi_len_at ROps ts te (x0 :: r) (mid ROps (ts, x0)) =
  match r with x1 :: _ => nmax ROps (x0 - ts) (x1 - x0) | [] => x0 - ts end.
Proof.
  intros ts te x0 r S H. pose proof (mid_between ts x0 H) as [M1 M2].
  change (x0 :: r) with (rev [] ++ x0 :: r).
  rewrite (isi_len_at_cursor ts te [] (x0 :: r)); auto; cbn [lo hi]; auto.
  destruct r; [reflexivity|]. rops. reflexivity.
Qed.

Lemma mr_tail_len : forall ts te x0 r, ssorted (x0 :: r) -> last (x0 :: r) x0 < te ->
  isi_len_at ROps ts te (x0 :: r) (mid ROps (last (x0 :: r) x0, te)) =
  match r with
  | _ :: _ => nmax ROps (te - last (x0 :: r) x0)
                (last (x0 :: r) x0 - nth (length (x0 :: r) - 2) (x0 :: r) x0)
  | [] => te - last (x0 :: r) x0
  end.
Proof.
  intros ts te x0 r S H. pose proof (mid_between _ _ H) as [M1 M2].
  destruct r as [|x1 r].
  - cbn [last] in *. change [x0] with (rev [x0] ++ []).
    rewrite (isi_len_at_cursor ts te [x0] []); auto; cbn [lo hi]; auto; lra.
  - destruct (mr_two_last x0 x1 r) as (l & b & a & E). rewrite E in *.
    assert (El : last (l ++ [b; a]) x0 = a).
    { change (l ++ [b; a]) with (l ++ [b] ++ [a]). rewrite app_assoc. apply last_last. }
    rewrite El in *.
    assert (En : nth (length (l ++ [b; a]) - 2) (l ++ [b; a]) x0 = b).
    { rewrite app_length. cbn [length]. replace (length l + 2 - 2)%nat with (length l) by lia.
      rewrite app_nth2 by lia. rewrite Nat.sub_diag. reflexivity. }
    rewrite En.
    assert (Er : l ++ [b; a] = rev (a :: b :: rev l) ++ []).
    { cbn [rev]. rewrite rev_involutive, app_nil_r, <- app_assoc. reflexivity. }
    rewrite Er at 1. rewrite (isi_len_at_cursor ts te (a :: b :: rev l) []); cbn [lo hi]; auto.
    + rops. reflexivity.
    + rewrite <- Er. exact S.
    + lra.
Qed.

Theorem isi_lengths_is_spec : forall ts te s, valid ts te s ->
  isi_lengths ROps s ts te = isi_lengths_spec ROps s ts te.
Proof.
  intros ts te [|x0 r] V; [reflexivity|].
  unfold isi_lengths_spec. rewrite (mr_bs_one ts te x0 r V).
  destruct V as (Hte & S & B). unfold isi_lengths. cbn [nltb ROps].
  set (g := fun q => isi_len_at ROps ts te (x0 :: r) (mid ROps q)).
  assert (Mid : map g (pieces (x0 :: r)) = diffs ROps (x0 :: r))
    by (apply (mr_mid_diffs ts te r [] x0); exact S).
  assert (Tl : map g (pieces ((x0 :: r) ++ (if Rltb (last (x0 :: r) x0) te then [te] else []))) =
               diffs ROps (x0 :: r) ++
               (if Rltb (last (x0 :: r) x0) te
                then [match r with
                      | _ :: _ => nmax ROps (te - last (x0 :: r) x0)
                                    (last (x0 :: r) x0 - nth (length (x0 :: r) - 2) (x0 :: r) x0)
                      | [] => te - last (x0 :: r) x0 end]
                else [])).
  { destruct (Rltb_spec (last (x0 :: r) x0) te) as [L|L].
    - rewrite (mr_pieces_app1 (x0 :: r) te x0) by discriminate.
      rewrite map_app, Mid. cbn [map]. unfold g at 1. rewrite mr_tail_len by auto. reflexivity.
    - rewrite !app_nil_r. exact Mid. }
  destruct (Rltb_spec ts x0) as [L|L].
  - cbn [app]. change (ts :: x0 :: r ++ ?t) with (ts :: (x0 :: r) ++ t).
    change (pieces (ts :: (x0 :: r) ++ ?t)) with ((ts, x0) :: pieces ((x0 :: r) ++ t)).
    cbn [map]. rewrite Tl. unfold g at 1. rewrite mr_head_len by auto. reflexivity.
  - cbn [app]. change (x0 :: r ++ ?t) with ((x0 :: r) ++ t). rewrite Tl. reflexivity.
Qed.

(* ------------------------------------------------------------------ *)
(* 3. the pooled lengths are positive, and there is at least one (item 7) *)

Lemma mr_bs_one_bounds : forall ts te s x, valid ts te s ->
  In x (sort_unique ROps (ts :: s ++ [te])) -> ts <= x <= te.
Proof.
  intros ts te s x (Hte & _ & B) H. apply (proj1 (sort_unique_In _ _)) in H.
  rewrite Forall_forall in B. destruct H as [<-|H]; [lra|].
  apply in_app_or in H. destruct H as [H|[<-|[]]]; [apply B; auto|lra].
Qed.

Theorem isi_lengths_pos : forall ts te s, valid ts te s ->
  Forall (fun x => 0 < x) (isi_lengths ROps s ts te) /\ (1 <= length (isi_lengths ROps s ts te))%nat.
Proof.
  intros ts te s V. split.
  - rewrite isi_lengths_is_spec by exact V. destruct s as [|x0 r].
    + destruct V as (Hte & _). cbn [isi_lengths_spec nsub ROps]. constructor; [lra|constructor].
    + unfold isi_lengths_spec. apply mr_Forall_map. intros p Hp.
      destruct (mr_pieces_props _ p (sort_unique_sorted _) Hp) as (H1 & H2 & H3 & _).
      apply (mr_bs_one_bounds ts te _ _ V) in H2. apply (mr_bs_one_bounds ts te _ _ V) in H3.
      pose proof (mid_between (fst p) (snd p) H1) as M. rewrite <- surjective_pairing in M.
      apply isi_len_at_pos_gen; [exact V|discriminate|lra].
  - destruct s as [|x0 r]; [cbn; lia|]. destruct V as (Hte & S & B).
    unfold isi_lengths. cbn [nltb ROps]. rewrite !app_length.
    destruct r as [|x1 r].
    + cbn [last]. destruct (Rltb_spec ts x0) as [L|L]; [cbn [length]; lia|].
      destruct (Rltb_spec x0 te) as [L'|L']; [cbn [length]; lia|lra].
    + cbn [diffs length]. lia.
Qed.

(* ------------------------------------------------------------------ *)
(* 4. the automatic threshold (item 8)                                  *)

Lemma mr_sumF_R : forall l, sumF ROps l = fold_right Rplus 0 l.
Proof. reflexivity. Qed.

Lemma mr_sumsq_nonneg : forall l, 0 <= sumF ROps (map (fun x => nmul ROps x x) l).
Proof.
  induction l as [|a l IH]; [cbn; lra|]. cbn [map]. rewrite fs_sumF_cons. cbn [nmul ROps] in *. nra.
Qed.

(* the pooled ISI lengths of all trains, on the first train's interval *)
Definition pool_of (t0 : trainR) (l : list trainR) : list R :=
  flat_map (fun t => isi_lengths ROps (tr_spikes t) (tr_start t0) (tr_end t0)) l.
Definition pool_spec (t0 : trainR) (l : list trainR) : list R :=
  flat_map (fun t => isi_lengths_spec ROps (tr_spikes t) (tr_start t0) (tr_end t0)) l.

Theorem default_thresh_sq_spec : forall t0 r,
  default_thresh_sq ROps (t0 :: r) =
    fold_right Rplus 0 (map (fun x => x * x) (pool_of t0 (t0 :: r))) / INR (length (pool_of t0 (t0 :: r)))
  /\ 0 <= default_thresh_sq ROps (t0 :: r).
Proof.
  intros t0 r. unfold default_thresh_sq. fold (pool_of t0 (t0 :: r)).
  rewrite nofnat_INR. cbn [ndiv ROps]. split; [reflexivity|].
  pose proof (mr_sumsq_nonneg (pool_of t0 (t0 :: r))) as Hs.
  pose proof (pos_INR (length (pool_of t0 (t0 :: r)))) as Hn.
  destruct Hn as [Hn|Hn].
  - apply Rdiv_nonneg; auto.
  - rewrite <- Hn. unfold Rdiv. rewrite Rinv_0. lra.
Qed.

Lemma pool_of_spec : forall t0 l,
  (forall t, In t l -> valid (tr_start t0) (tr_end t0) (tr_spikes t)) ->
  pool_of t0 l = pool_spec t0 l.
Proof.
  intros t0 l H. unfold pool_of, pool_spec. induction l as [|t l IH]; [reflexivity|].
  cbn [flat_map]. rewrite isi_lengths_is_spec by (apply H; left; auto).
  rewrite IH; [reflexivity|]. intros; apply H; right; auto.
Qed.

(* with every train valid on the first train's interval: pooled mean square of
   the specification's lengths, at least one interval per train, all positive *)
Corollary default_thresh_sq_valid : forall t0 r,
  (forall t, In t (t0 :: r) -> valid (tr_start t0) (tr_end t0) (tr_spikes t)) ->
  default_thresh_sq ROps (t0 :: r) =
    fold_right Rplus 0 (map (fun x => x * x) (pool_spec t0 (t0 :: r))) / INR (length (pool_spec t0 (t0 :: r)))
  /\ (length (t0 :: r) <= length (pool_spec t0 (t0 :: r)))%nat
  /\ Forall (fun x => 0 < x) (pool_spec t0 (t0 :: r))
  /\ 0 < default_thresh_sq ROps (t0 :: r).
Proof.
  intros t0 r H. destruct (default_thresh_sq_spec t0 r) as [E _].
  rewrite (pool_of_spec t0 (t0 :: r) H) in E.
  assert (Hlen : forall l, (forall t, In t l -> valid (tr_start t0) (tr_end t0) (tr_spikes t)) ->
            (length l <= length (pool_spec t0 l))%nat /\ Forall (fun x => 0 < x) (pool_spec t0 l)).
  { induction l as [|t l IH]; intros Hl; [split; [cbn; lia|constructor]|].
    destruct IH as [I1 I2]; [intros; apply Hl; right; auto|].
    unfold pool_spec in *. cbn [flat_map]. rewrite app_length.
    destruct (isi_lengths_pos _ _ _ (Hl t (or_introl eq_refl))) as [P1 P2].
    rewrite isi_lengths_is_spec in P1, P2 by (apply Hl; left; auto).
    split; [cbn [length]; lia|apply Forall_app; split; auto]. }
  destruct (Hlen (t0 :: r) H) as [L1 L2].
  repeat split; auto. rewrite E.
  set (pool := pool_spec t0 (t0 :: r)) in *.
  assert (Hn : 0 < INR (length pool)) by (apply lt_0_INR; cbn [length] in L1; lia).
  assert (Hs : 0 < fold_right Rplus 0 (map (fun x => x * x) pool)).
  { destruct pool as [|a pool]; [cbn in L1; lia|]. inversion L2 as [|? ? Ha Hp]; subst.
    cbn [map fold_right]. pose proof (mr_sumsq_nonneg pool) as Q. rewrite mr_sumF_R in Q.
    cbn [nmul ROps] in Q. nra. }
  unfold Rdiv. apply Rmult_lt_0_compat; auto. apply Rinv_0_lt_compat; auto.
Qed.

(* ------------------------------------------------------------------ *)
(* 5. the pieces of the bivariate profiles                              *)

Lemma mr_breaks_bounds : forall ts te s1 s2 x, ts < te -> In x (breaks ROps ts te s1 s2) -> ts <= x <= te.
Proof.
  intros ts te s1 s2 x Hte H. unfold breaks in H. destruct H as [<-|H]; [lra|].
  apply in_app_or in H. destruct H as [H|[<-|[]]]; [|lra].
  apply breaks_inside in H. lra.
Qed.

Lemma mr_in_breaks : forall ts te s1 s2 z, ts < te -> ts <= z <= te -> In z s1 \/ In z s2 ->
  In z (breaks ROps ts te s1 s2).
Proof.
  intros ts te s1 s2 z Hte B Hz. unfold breaks.
  destruct (Req_dec z ts) as [->|N1]; [left; auto|]. right. apply in_or_app.
  destruct (Req_dec z te) as [->|N2]; [right; left; auto|]. left.
  apply breaks_inside. split; [exact Hz|lra].
Qed.

Lemma mr_eff_in_breaks : forall ts te s s1 s2 z, valid ts te s -> (forall y, In y s -> In y s1 \/ In y s2) ->
  In z (eff ts te s) -> In z (breaks ROps ts te s1 s2).
Proof.
  intros ts te s s1 s2 z (Hte & _ & B) Hs Hz. destruct s as [|x r].
  - cbn [eff] in Hz. unfold breaks. destruct Hz as [<-|[<-|[]]]; [left; auto|].
    right. apply in_or_app. right; left; auto.
  - cbn [eff] in Hz. rewrite Forall_forall in B. apply mr_in_breaks; auto.
Qed.

(* facts about one piece of the merged breakpoints *)
Lemma mr_piece : forall ts te s1 s2 p, valid ts te s1 -> valid ts te s2 ->
  In p (pieces (breaks ROps ts te s1 s2)) ->
  ts <= fst p /\ fst p < snd p /\ snd p <= te /\ ts < mid ROps p < te /\ fst p < mid ROps p < snd p /\
  (forall x, In x (eff ts te s1) -> x <= fst p \/ snd p <= x) /\
  (forall x, In x (eff ts te s2) -> x <= fst p \/ snd p <= x).
Proof.
  intros ts te s1 s2 p V1 V2 Hp. assert (Hte : ts < te) by (destruct V1; auto).
  destruct (mr_pieces_props _ p (breaks_sorted ts te s1 s2 Hte) Hp) as (H1 & H2 & H3 & H4).
  apply mr_breaks_bounds in H2; auto. apply mr_breaks_bounds in H3; auto.
  pose proof (mid_between (fst p) (snd p) H1) as M. rewrite <- surjective_pairing in M.
  repeat split; try lra.
  - intros x Hx. apply H4. eapply mr_eff_in_breaks; [exact V1| |exact Hx]. auto.
  - intros x Hx. apply H4. eapply mr_eff_in_breaks; [exact V2| |exact Hx]. auto.
Qed.

(* every ISI length read inside the recording is one of the pooled lengths *)
Lemma mr_isi_len_in_lengths : forall ts te s tm, valid ts te s -> ts < tm < te ->
  In (isi_len_at ROps ts te (eff ts te s) tm) (isi_lengths_spec ROps s ts te).
Proof.
  intros ts te s tm V [T1 T2]. destruct s as [|x0 r].
  - cbn [eff isi_lengths_spec]. unfold isi_len_at. cbn [prev_of next_of].
    assert (E1 : nleb ROps ts tm = true) by (apply nleb_true; lra).
    assert (E2 : nleb ROps te tm = false) by (apply nleb_false; lra).
    rewrite E1, E2. cbn [nltb ROps].
    destruct (Rltb_spec tm ts); [lra|]. destruct (Rltb_spec tm te); [|lra]. left; reflexivity.
  - cbn [eff]. unfold isi_lengths_spec. set (s := x0 :: r) in *.
    set (bs := sort_unique ROps (ts :: s ++ [te])).
    assert (Sb : ssorted bs) by apply sort_unique_sorted.
    destruct (mr_pieces_cover bs ts te tm Sb) as (p & Hp & Hpt).
    + apply sort_unique_In. left; auto.
    + apply sort_unique_In. right. apply in_or_app. right; left; auto.
    + lra.
    + apply in_map_iff. exists p. split; [|exact Hp].
      destruct (mr_pieces_props bs p Sb Hp) as (H1 & _ & _ & H4).
      pose proof (mid_between (fst p) (snd p) H1) as M. rewrite <- surjective_pairing in M.
      apply mr_isi_len_at_ext. intros x Hx.
      assert (Hb : In x bs) by (apply sort_unique_In; right; apply in_or_app; left; exact Hx).
      destruct (H4 x Hb); split; intros; lra.
Qed.

Lemma mr_isi_len_pos : forall ts te s1 s2 p, valid ts te s1 -> valid ts te s2 ->
  In p (pieces (breaks ROps ts te s1 s2)) ->
  0 < isi_len_at ROps ts te (eff ts te s1) (mid ROps p) /\
  0 < isi_len_at ROps ts te (eff ts te s2) (mid ROps p).
Proof.
  intros ts te s1 s2 p V1 V2 Hp. destruct (mr_piece ts te s1 s2 p V1 V2 Hp) as (_ & _ & _ & M & _).
  split; apply isi_len_at_pos_gen; auto using eff_nonempty; apply eff_valid; auto.
Qed.

(* ------------------------------------------------------------------ *)
(* 6. ISI profile: an MRTS below every ISI changes nothing (item 3)     *)

Theorem isi_profile_mrts_noop_gen : forall s1 s2 ts te m, valid ts te s1 -> valid ts te s2 ->
  (forall p, In p (pieces (breaks ROps ts te s1 s2)) ->
     m <= Rmax (isi_len_at ROps ts te (eff ts te s1) (mid ROps p))
               (isi_len_at ROps ts te (eff ts te s2) (mid ROps p))) ->
  isi_profile_py ROps (eff ts te s1) (eff ts te s2) ts te m =
  isi_profile_py ROps (eff ts te s1) (eff ts te s2) ts te 0.
Proof.
  intros s1 s2 ts te m V1 V2 H. rewrite !isi_profile_spec by auto. unfold isi_spec. cbv zeta.
  f_equal. apply map_ext_in. intros p Hp.
  destruct (mr_isi_len_pos ts te s1 s2 p V1 V2 Hp) as [P1 P2].
  apply (isi_ratio_noop m); [lra|lra|]. apply H; exact Hp.
Qed.

Theorem isi_profile_mrts_noop : forall s1 s2 ts te m, valid ts te s1 -> valid ts te s2 -> 0 <= m ->
  Forall (fun x => m <= x) (isi_lengths_spec ROps s1 ts te) ->
  Forall (fun x => m <= x) (isi_lengths_spec ROps s2 ts te) ->
  isi_profile_py ROps (eff ts te s1) (eff ts te s2) ts te m =
  isi_profile_py ROps (eff ts te s1) (eff ts te s2) ts te 0.
Proof.
  intros s1 s2 ts te m V1 V2 _ H1 _. apply isi_profile_mrts_noop_gen; auto.
  intros p Hp. destruct (mr_piece ts te s1 s2 p V1 V2 Hp) as (_ & _ & _ & M & _).
  rewrite Forall_forall in H1.
  eapply Rle_trans; [apply H1, (mr_isi_len_in_lengths ts te s1 (mid ROps p) V1 M)|apply Rmax_l].
Qed.

(* ------------------------------------------------------------------ *)
(* 7. SPIKE profile: contributions                                      *)

Lemma mr_contrib_snd : forall ts te u w tm t,
  snd (contrib ROps ts te u w tm t) = isi_len_at ROps ts te u tm.
Proof.
  intros. unfold contrib.
  destruct (prev_of ROps tm u None), (next_of ROps tm u); reflexivity.
Qed.

(* [t] lies between the spikes of [u] around [tm] *)
Definition mr_between (u : list R) (tm t : R) : Prop :=
  (forall x, In x u -> x <= tm -> x <= t) /\ (forall x, In x u -> tm < x -> t <= x).

Lemma mr_contrib_nonneg : forall ts te u w tm t, mr_between u tm t ->
  0 <= fst (contrib ROps ts te u w tm t).
Proof.
  intros ts te u w tm t [B1 B2]. unfold contrib.
  destruct (prev_of ROps tm u None) as [p|] eqn:Ep, (next_of ROps tm u) as [f|] eqn:Ef; cbn [fst];
    try apply nearest_nonneg; [|cbn; lra].
  apply mr_prev_in in Ep as [Ip Lp]. apply mr_next_in in Ef as [If Lf].
  pose proof (B1 p Ip Lp). pose proof (B2 f If Lf).
  pose proof (nearest_nonneg (aux_of ROps ts te w) w p).
  pose proof (nearest_nonneg (aux_of ROps ts te w) w f).
  cbn [nadd nsub nmul ndiv ROps]. apply Rdiv_nonneg; [|lra].
  apply Rplus_le_le_0_compat; apply Rmult_le_pos; auto; lra.
Qed.

Lemma mr_piece_between : forall ts te s1 s2 p t, valid ts te s1 -> valid ts te s2 ->
  In p (pieces (breaks ROps ts te s1 s2)) -> fst p <= t <= snd p ->
  mr_between (eff ts te s1) (mid ROps p) t /\ mr_between (eff ts te s2) (mid ROps p) t.
Proof.
  intros ts te s1 s2 p t V1 V2 Hp Ht.
  destruct (mr_piece ts te s1 s2 p V1 V2 Hp) as (_ & _ & _ & _ & M & G1 & G2).
  split; split; intros x Hx Hm.
  - destruct (G1 x Hx); lra.
  - destruct (G1 x Hx); lra.
  - destruct (G2 x Hx); lra.
  - destruct (G2 x Hx); lra.
Qed.

(* the value of the specification at a piece end, as [dist_at_t] of positive
   ISI lengths and non-negative contributions *)
Lemma mr_spike_at_form : forall ts te s1 s2 m ri p t, valid ts te s1 -> valid ts te s2 ->
  In p (pieces (breaks ROps ts te s1 s2)) -> fst p <= t <= snd p ->
  exists c1 c2,
    spike_at ROps ts te m ri (eff ts te s1) (eff ts te s2) (mid ROps p) t =
      dist_at_t ROps (isi_len_at ROps ts te (eff ts te s1) (mid ROps p))
                     (isi_len_at ROps ts te (eff ts te s2) (mid ROps p)) c1 c2 m ri
    /\ 0 <= c1 /\ 0 <= c2
    /\ c1 = fst (contrib ROps ts te (eff ts te s1) (eff ts te s2) (mid ROps p) t)
    /\ c2 = fst (contrib ROps ts te (eff ts te s2) (eff ts te s1) (mid ROps p) t).
Proof.
  intros ts te s1 s2 m ri p t V1 V2 Hp Ht.
  destruct (mr_piece_between ts te s1 s2 p t V1 V2 Hp Ht) as [B1 B2].
  set (u1 := eff ts te s1) in *. set (u2 := eff ts te s2) in *. set (tm := mid ROps p) in *.
  exists (fst (contrib ROps ts te u1 u2 tm t)), (fst (contrib ROps ts te u2 u1 tm t)).
  split; [|repeat split; auto; apply mr_contrib_nonneg; auto].
  rewrite spike_at_eq_dist_at_t.
  rewrite <- (mr_contrib_snd ts te u1 u2 tm t), <- (mr_contrib_snd ts te u2 u1 tm t).
  destruct (contrib ROps ts te u1 u2 tm t), (contrib ROps ts te u2 u1 tm t). reflexivity.
Qed.

Lemma mr_ends : forall (p : R * R), fst p < snd p -> fst p <= fst p <= snd p /\ fst p <= snd p <= snd p.
Proof. intros; lra. Qed.

(* pointwise transport: a relation between the values at MRTS m and m' *)
Lemma mr_spike_rel : forall (Q : R -> R -> Prop) s1 s2 ts te m m' ri, valid ts te s1 -> valid ts te s2 ->
  (forall p t, In p (pieces (breaks ROps ts te s1 s2)) -> fst p <= t <= snd p ->
     Q (spike_at ROps ts te m ri (eff ts te s1) (eff ts te s2) (mid ROps p) t)
       (spike_at ROps ts te m' ri (eff ts te s1) (eff ts te s2) (mid ROps p) t)) ->
  fst (fst (spike_profile_py ROps (eff ts te s1) (eff ts te s2) ts te m ri)) =
  fst (fst (spike_profile_py ROps (eff ts te s1) (eff ts te s2) ts te m' ri)) /\
  Forall2 Q (snd (fst (spike_profile_py ROps (eff ts te s1) (eff ts te s2) ts te m ri)))
            (snd (fst (spike_profile_py ROps (eff ts te s1) (eff ts te s2) ts te m' ri))) /\
  Forall2 Q (snd (spike_profile_py ROps (eff ts te s1) (eff ts te s2) ts te m ri))
            (snd (spike_profile_py ROps (eff ts te s1) (eff ts te s2) ts te m' ri)).
Proof.
  intros Q s1 s2 ts te m m' ri V1 V2 H. rewrite !spike_profile_spec by auto.
  unfold spike_spec. cbv zeta. cbn [fst snd]. split; [reflexivity|].
  split; apply mr_Forall2_map_same; intros p Hp;
    destruct (mr_piece ts te s1 s2 p V1 V2 Hp) as (_ & Hlt & _); apply H; auto; lra.
Qed.

Lemma mr_spike_all : forall (Q : R -> Prop) s1 s2 ts te m ri, valid ts te s1 -> valid ts te s2 ->
  (forall p t, In p (pieces (breaks ROps ts te s1 s2)) -> fst p <= t <= snd p ->
     Q (spike_at ROps ts te m ri (eff ts te s1) (eff ts te s2) (mid ROps p) t)) ->
  Forall Q (snd (fst (spike_profile_py ROps (eff ts te s1) (eff ts te s2) ts te m ri))) /\
  Forall Q (snd (spike_profile_py ROps (eff ts te s1) (eff ts te s2) ts te m ri)).
Proof.
  intros Q s1 s2 ts te m ri V1 V2 H. rewrite !spike_profile_spec by auto.
  unfold spike_spec. cbv zeta. cbn [fst snd].
  split; apply mr_Forall_map; intros p Hp;
    destruct (mr_piece ts te s1 s2 p V1 V2 Hp) as (_ & Hlt & _); apply H; auto; lra.
Qed.

(* ------------------------------------------------------------------ *)
(* 8. SPIKE profile and MRTS (items 1, 2)                               *)

Theorem spike_profile_mrts_monotone : forall s1 s2 ts te m m' ri,
  valid ts te s1 -> valid ts te s2 -> 0 <= m -> m <= m' ->
  let P := fun mm => spike_profile_py ROps (eff ts te s1) (eff ts te s2) ts te mm ri in
  fst (fst (P m)) = fst (fst (P m')) /\
  Forall2 (fun y' y => y' <= y) (snd (fst (P m'))) (snd (fst (P m))) /\
  Forall2 (fun y' y => y' <= y) (snd (P m')) (snd (P m)).
Proof.
  intros s1 s2 ts te m m' ri V1 V2 Hm Hmm P. unfold P.
  destruct (mr_spike_rel (fun y' y => y' <= y) s1 s2 ts te m' m ri V1 V2) as (E & F1 & F2).
  - intros p t Hp Ht.
    destruct (mr_spike_at_form ts te s1 s2 m ri p t V1 V2 Hp Ht) as (c1 & c2 & E & C1 & C2 & D1 & D2).
    destruct (mr_spike_at_form ts te s1 s2 m' ri p t V1 V2 Hp Ht) as (c1' & c2' & E' & _ & _ & D1' & D2').
    subst c1' c2'. rewrite <- D1, <- D2 in E'. rewrite E, E'.
    destruct (mr_isi_len_pos ts te s1 s2 p V1 V2 Hp) as [P1 P2].
    apply dist_at_t_mono_m; auto.
  - repeat split; auto.
Qed.

Theorem spike_profile_mrts_noop_gen : forall s1 s2 ts te m ri, valid ts te s1 -> valid ts te s2 ->
  (forall p, In p (pieces (breaks ROps ts te s1 s2)) ->
     m <= (isi_len_at ROps ts te (eff ts te s1) (mid ROps p) +
           isi_len_at ROps ts te (eff ts te s2) (mid ROps p)) / 2) ->
  spike_profile_py ROps (eff ts te s1) (eff ts te s2) ts te m ri =
  spike_profile_py ROps (eff ts te s1) (eff ts te s2) ts te 0 ri.
Proof.
  intros s1 s2 ts te m ri V1 V2 H. rewrite !spike_profile_spec by auto.
  unfold spike_spec. cbv zeta.
  assert (K : forall p t, In p (pieces (breaks ROps ts te s1 s2)) -> fst p <= t <= snd p ->
            spike_at ROps ts te m ri (eff ts te s1) (eff ts te s2) (mid ROps p) t =
            spike_at ROps ts te 0 ri (eff ts te s1) (eff ts te s2) (mid ROps p) t).
  { intros p t Hp Ht.
    destruct (mr_spike_at_form ts te s1 s2 m ri p t V1 V2 Hp Ht) as (c1 & c2 & E & _ & _ & D1 & D2).
    destruct (mr_spike_at_form ts te s1 s2 0 ri p t V1 V2 Hp Ht) as (c1' & c2' & E' & _ & _ & D1' & D2').
    subst c1' c2'. rewrite <- D1, <- D2 in E'. rewrite E, E'.
    destruct (mr_isi_len_pos ts te s1 s2 p V1 V2 Hp) as [P1 P2].
    apply dist_at_t_noop; [lra|apply H; exact Hp]. }
  f_equal; [f_equal|]; apply map_ext_in; intros p Hp;
    destruct (mr_piece ts te s1 s2 p V1 V2 Hp) as (_ & Hlt & _); apply K; auto; lra.
Qed.

Theorem spike_profile_mrts_noop : forall s1 s2 ts te m ri, valid ts te s1 -> valid ts te s2 -> 0 <= m ->
  Forall (fun x => m <= x) (isi_lengths_spec ROps s1 ts te) ->
  Forall (fun x => m <= x) (isi_lengths_spec ROps s2 ts te) ->
  spike_profile_py ROps (eff ts te s1) (eff ts te s2) ts te m ri =
  spike_profile_py ROps (eff ts te s1) (eff ts te s2) ts te 0 ri.
Proof.
  intros s1 s2 ts te m ri V1 V2 _ H1 H2. apply spike_profile_mrts_noop_gen; auto.
  intros p Hp. destruct (mr_piece ts te s1 s2 p V1 V2 Hp) as (_ & _ & _ & M & _).
  rewrite Forall_forall in H1, H2.
  pose proof (H1 _ (mr_isi_len_in_lengths ts te s1 (mid ROps p) V1 M)).
  pose proof (H2 _ (mr_isi_len_in_lengths ts te s2 (mid ROps p) V2 M)). lra.
Qed.

(* ------------------------------------------------------------------ *)
(* 9. SPIKE profile: sign, and the self-distance (items 9, 10)          *)

Theorem spike_profile_nonneg : forall s1 s2 ts te m ri, valid ts te s1 -> valid ts te s2 -> 0 <= m ->
  Forall (fun y => 0 <= y) (snd (fst (spike_profile_py ROps (eff ts te s1) (eff ts te s2) ts te m ri))) /\
  Forall (fun y => 0 <= y) (snd (spike_profile_py ROps (eff ts te s1) (eff ts te s2) ts te m ri)).
Proof.
  intros s1 s2 ts te m ri V1 V2 Hm. apply mr_spike_all; auto. intros p t Hp Ht.
  destruct (mr_spike_at_form ts te s1 s2 m ri p t V1 V2 Hp Ht) as (c1 & c2 & E & C1 & C2 & _).
  rewrite E. destruct (mr_isi_len_pos ts te s1 s2 p V1 V2 Hp) as [P1 P2].
  apply dist_at_t_nonneg; auto.
Qed.

Lemma mr_contrib_self : forall ts te u tm t, fst (contrib ROps ts te u u tm t) = 0.
Proof.
  intros ts te u tm t. unfold contrib.
  destruct (prev_of ROps tm u None) as [p|] eqn:Ep, (next_of ROps tm u) as [f|] eqn:Ef; cbn [fst].
  - apply mr_prev_in in Ep as [Ip _]. apply mr_next_in in Ef as [If _].
    rewrite !nearest_zero_at_spike by auto. cbn [nadd nsub nmul ndiv ROps]. unfold Rdiv. ring.
  - apply mr_prev_in in Ep as [Ip _]. apply nearest_zero_at_spike; auto.
  - apply mr_next_in in Ef as [If _]. apply nearest_zero_at_spike; auto.
  - reflexivity.
Qed.

Theorem spike_profile_self_zero : forall s ts te m ri, valid ts te s ->
  Forall (fun y => y = 0) (snd (fst (spike_profile_py ROps (eff ts te s) (eff ts te s) ts te m ri))) /\
  Forall (fun y => y = 0) (snd (spike_profile_py ROps (eff ts te s) (eff ts te s) ts te m ri)).
Proof.
  intros s ts te m ri V. apply mr_spike_all; auto. intros p t _ _.
  apply spike_at_zero; apply mr_contrib_self.
Qed.

(* ------------------------------------------------------------------ *)
(* 10. SPIKE-Sync and MRTS (items 4, 5)                                 *)

Lemma mr_existsb_mono {A} (f g : A -> bool) l : (forall x, In x l -> f x = true -> g x = true) ->
  existsb f l = true -> existsb g l = true.
Proof.
  intros H E. apply existsb_exists in E as (x & Hx & Fx). apply existsb_exists.
  exists x. split; auto.
Qed.

Lemma mr_existsb_ext_in {A} (f g : A -> bool) l : (forall x, In x l -> f x = g x) ->
  existsb f l = existsb g l.
Proof.
  induction l as [|a l IH]; intros H; [reflexivity|]. cbn [existsb].
  rewrite (H a) by (left; auto). rewrite IH; [reflexivity|]. intros; apply H; right; auto.
Qed.

Definition mr_ev_le (e e' : R * R * R) : Prop :=
  e_t e = e_t e' /\ e_mp e = e_mp e' /\ e_y e <= e_y e'.

Lemma mr_framed_rel : forall (Q : R * R * R -> R * R * R -> Prop) ts te l l',
  (forall e e' t, Q e e' -> Q (t, snd (fst e), snd e) (t, snd (fst e'), snd e')) ->
  Q (ts, 1, 1) (ts, 1, 1) -> Q (te, 1, 1) (te, 1, 1) ->
  Forall2 Q l l' -> Forall2 Q (framed ROps ts te l) (framed ROps ts te l').
Proof.
  intros Q ts te l l' Hq Q1 Q2 H. destruct H as [|e e' l l' He H]; cbn [framed].
  - constructor; [exact Q1|constructor; [exact Q2|constructor]].
  - constructor; [apply Hq; exact He|].
    change (e :: l ++ ?x) with ((e :: l) ++ x). change (e' :: l' ++ ?x) with ((e' :: l') ++ x).
    apply Forall2_app; [constructor; auto|].
    constructor; [|constructor]. apply Hq.
    apply (mr_Forall2_last Q (e :: l) (e' :: l') e e'); [constructor; auto|exact He].
Qed.

Lemma mr_find_in {A} (f : A -> bool) l c : find f l = Some c -> In c l.
Proof. intros H. apply find_some in H. tauto. Qed.

(* the entries of the specification under a pointwise relation of the marks *)
Lemma mr_entries_rel : forall (Q : R * R * R -> R * R * R -> Prop) (v w : @ctx R -> list (@ctx R) -> R) s1 s2,
  (forall t y mp, Q (t, y, mp) (t, y, mp)) ->
  (forall c t, In c (contexts s1) -> Q (t, v c (contexts s2), 1) (t, w c (contexts s2), 1)) ->
  (forall c t, In c (contexts s2) -> Q (t, v c (contexts s1), 1) (t, w c (contexts s1), 1)) ->
  Forall2 Q (event_entries ROps v v 2 s1 s2) (event_entries ROps w w 2 s1 s2).
Proof.
  intros Q v w s1 s2 Qr H1 H2. unfold event_entries. apply mr_Forall2_map_same. intros t _.
  destruct (find (fun c => neqb ROps (c_cur c) t) (contexts s1)) as [c1|] eqn:F1,
           (find (fun c => neqb ROps (c_cur c) t) (contexts s2)) as [c2|] eqn:F2.
  - apply Qr.
  - apply H1. eapply mr_find_in; eauto.
  - apply H2. eapply mr_find_in; eauto.
  - apply Qr.
Qed.

Theorem sync_mrts_monotone : forall s1 s2 ts te mt m m', valid ts te s1 -> valid ts te s2 -> m <= m' ->
  Forall2 (fun e e' => e_t e = e_t e' /\ e_mp e = e_mp e' /\ e_y e <= e_y e')
    (coincidence_profile_gen ROps (get_tau ROps) s1 s2 ts te mt m)
    (coincidence_profile_gen ROps (get_tau ROps) s1 s2 ts te mt m').
Proof.
  intros s1 s2 ts te mt m m' V1 V2 Hmm. rewrite !sync_profile_spec by auto.
  unfold sync_spec. cbv zeta. set (lim := lim_of ROps ts te mt).
  fold mr_ev_le.
  assert (HP : forall c others, (if has_partner ROps lim m c others then n1 ROps else n0 ROps) <=
                               (if has_partner ROps lim m' c others then n1 ROps else n0 ROps)).
  { intros c others. destruct (has_partner ROps lim m c others) eqn:E.
    - unfold has_partner in *.
      rewrite (mr_existsb_mono (coinc ROps lim m c) (coinc ROps lim m' c) others); [cbn; lra| |exact E].
      intros d _. apply C15_sync_mono; exact Hmm.
    - destruct (has_partner ROps lim m' c others); cbn; lra. }
  apply mr_framed_rel.
  - intros e e' t (_ & E2 & E3). unfold mr_ev_le, e_t, e_mp, e_y in *. cbn [fst snd]. auto.
  - unfold mr_ev_le, e_t, e_mp, e_y. cbn [fst snd]. repeat split; lra.
  - unfold mr_ev_le, e_t, e_mp, e_y. cbn [fst snd]. repeat split; lra.
  - apply mr_entries_rel.
    + intros. unfold mr_ev_le, e_t, e_mp, e_y. cbn [fst snd]. repeat split; lra.
    + intros c t _. unfold mr_ev_le, e_t, e_mp, e_y. cbn [fst snd]. repeat split; auto.
    + intros c t _. unfold mr_ev_le, e_t, e_mp, e_y. cbn [fst snd]. repeat split; auto.
Qed.

(* the contexts of a train whose consecutive spikes are at least m apart *)
Lemma mr_ctx_gaps : forall m s prev d,
  (forall p x, prev = Some p -> hd_error s = Some x -> m <= x - p) ->
  Forall (fun g => m <= g) (diffs ROps s) ->
  In d (contexts_from prev s) -> gaps_ge m d.
Proof.
  intros m s. induction s as [|x r IH]; intros prev d Hp Hd Hin; [destruct Hin|].
  cbn [contexts_from] in Hin. destruct Hin as [<-|Hin].
  - split; cbn [c_prev c_cur c_next].
    + intros p E. apply (Hp p x E eq_refl).
    + intros n E. destruct r as [|n' r]; [discriminate|]. cbn in E. injection E as <-.
      cbn [diffs nsub ROps] in Hd. inversion Hd; auto.
  - apply (IH (Some x) d); auto.
    + intros p y E Hy. injection E as <-. destruct r as [|n' r]; [discriminate|].
      cbn in Hy. injection Hy as <-. cbn [diffs nsub ROps] in Hd. inversion Hd; auto.
    + destruct r as [|n' r]; [constructor|]. cbn [diffs] in Hd. inversion Hd; auto.
Qed.

Lemma mr_ctx_ok : forall m s d, ssorted s -> Forall (fun g => m <= g) (diffs ROps s) ->
  In d (contexts s) -> ctx_pos d /\ gaps_ge m d.
Proof.
  intros m s d S H Hin. split.
  - exact (fs_ctx_wfc s d S Hin).
  - apply (mr_ctx_gaps m s None d); auto. intros p x E; discriminate.
Qed.

Theorem sync_mrts_noop : forall s1 s2 ts te mt m, valid ts te s1 -> valid ts te s2 -> 0 <= m ->
  Forall (fun g => m <= g) (diffs ROps s1) -> Forall (fun g => m <= g) (diffs ROps s2) ->
  coincidence_profile_gen ROps (get_tau ROps) s1 s2 ts te mt m =
  coincidence_profile_gen ROps (get_tau ROps) s1 s2 ts te mt 0.
Proof.
  intros s1 s2 ts te mt m V1 V2 Hm G1 G2. rewrite !sync_profile_spec by auto.
  unfold sync_spec. cbv zeta. set (lim := lim_of ROps ts te mt).
  assert (Hl : 0 < lim) by (apply fs_lim_pos; destruct V1; auto).
  destruct V1 as (_ & S1 & _), V2 as (_ & S2 & _).
  assert (HP : forall sa sb c, ssorted sa -> ssorted sb ->
             Forall (fun g => m <= g) (diffs ROps sa) -> Forall (fun g => m <= g) (diffs ROps sb) ->
             In c (contexts sa) ->
             has_partner ROps lim m c (contexts sb) = has_partner ROps lim 0 c (contexts sb)).
  { intros sa sb c Sa Sb Ga Gb Hc. unfold has_partner. apply mr_existsb_ext_in. intros d Hd.
    destruct (mr_ctx_ok m sa c Sa Ga Hc) as [Pc Gc]. destruct (mr_ctx_ok m sb d Sb Gb Hd) as [Pd Gd].
    unfold coinc. rewrite (tau_spec_noop lim m c d); auto. }
  f_equal. apply mr_Forall2_eq. apply mr_entries_rel.
  - reflexivity.
  - intros c t Hc. rewrite (HP s1 s2 c); auto.
  - intros c t Hc. rewrite (HP s2 s1 c); auto.
Qed.

(* ------------------------------------------------------------------ *)
(* 11. SPIKE profile: values are at most 1 (item 11)                    *)

(* the arithmetic core: two overlapping intervals [P1,F1], [P2,F2]; s1 is
   bounded by the distance from an end of the first interval to BOTH ends of
   the second one, s2 symmetrically *)
Lemma mr_core_t : forall t P1 F1 P2 F2 s1 s2, P1 <= t <= F1 -> P2 <= t <= F2 ->
  ((s1 <= Rabs (P1 - P2) /\ s1 <= Rabs (P1 - F2)) \/ (s1 <= Rabs (F1 - F2) /\ s1 <= Rabs (F1 - P2))) ->
  ((s2 <= Rabs (P2 - P1) /\ s2 <= Rabs (P2 - F1)) \/ (s2 <= Rabs (F2 - F1) /\ s2 <= Rabs (F2 - P1))) ->
  s1 + s2 <= (F1 - P1) + (F2 - P2) /\
  s1 * (F2 - P2) + s2 * (F1 - P1) <= ((F1 - P1) + (F2 - P2)) ^ 2 / 2.
Proof.
  intros t P1 F1 P2 F2 s1 s2 [H1 H2] [H3 H4] B1 B2.
  rewrite (Rabs_left1 (P1 - F2)), (Rabs_right (F1 - P2)) in B1 by lra.
  rewrite (Rabs_left1 (P2 - F1)), (Rabs_right (F2 - P1)) in B2 by lra.
  rewrite (Rabs_minus_sym P2 P1), (Rabs_minus_sym F2 F1) in B2.
  revert B1 B2. unfold Rabs.
  destruct (Rcase_abs (P1 - P2)) as [C1|C1], (Rcase_abs (F1 - F2)) as [C2|C2];
  intros [[B1 B1']|[B1 B1']] [[B2 B2']|[B2 B2']]; (split; [lra|]).
  all: try nra.
  all: set (a := F1 - P1) in *; set (b := F2 - P2) in *;
    assert (Ha : 0 <= a) by (unfold a; lra); assert (Hb : 0 <= b) by (unfold b; lra);
    assert (S1 : s1 <= a) by (unfold a; lra); assert (S2 : s2 <= b) by (unfold b; lra);
    pose proof (Rmult_le_compat_r b s1 a Hb S1); pose proof (Rmult_le_compat_r a s2 b Ha S2);
    pose proof (pow2_ge_0 (a - b)); nra.
Qed.

(* the spikes around [tm], an auxiliary spike standing in at the edges *)
Definition mr_vP (ts te : R) (u : list R) (tm : R) : R :=
  match prev_of ROps tm u None with Some p => p | None => fst (aux_of ROps ts te u) end.
Definition mr_vF (ts te : R) (u : list R) (tm : R) : R :=
  match next_of ROps tm u with Some f => f | None => snd (aux_of ROps ts te u) end.

Lemma mr_isi_virtual : forall ts te u tm, ssorted u -> u <> [] ->
  isi_len_at ROps ts te u tm = mr_vF ts te u tm - mr_vP ts te u tm.
Proof.
  intros ts te u tm S Hne. destruct (split_at u tm) as (p & f & E & Pp & Hh). subst u.
  assert (L : lo p tm) by (destruct p; [exact I|inversion Pp; auto]).
  rewrite (isi_len_at_cursor ts te p f tm) by auto.
  unfold mr_vP, mr_vF. rewrite prev_rev, next_rev by auto. rewrite prev_hi, next_hi by auto.
  destruct p as [|a p'], f as [|y f'].
  - exfalso; apply Hne; reflexivity.
  - cbn [rev app]. rewrite aux_fst_isi. lra.
  - rewrite (aux_snd_isi ts te (rev (a :: p') ++ []) a p').
    + lra.
    + rewrite app_nil_r. apply rev_involutive.
  - reflexivity.
Qed.

Lemma mr_vP_elem : forall ts te u tm,
  mr_vP ts te u tm = fst (aux_of ROps ts te u) \/ In (mr_vP ts te u tm) u \/
  mr_vP ts te u tm = snd (aux_of ROps ts te u).
Proof.
  intros. unfold mr_vP. destruct (prev_of ROps tm u None) eqn:E; [|left; reflexivity].
  right; left. apply mr_prev_in in E. tauto.
Qed.

Lemma mr_vF_elem : forall ts te u tm,
  mr_vF ts te u tm = fst (aux_of ROps ts te u) \/ In (mr_vF ts te u tm) u \/
  mr_vF ts te u tm = snd (aux_of ROps ts te u).
Proof.
  intros. unfold mr_vF. destruct (next_of ROps tm u) eqn:E; [|right; right; reflexivity].
  right; left. apply mr_next_in in E. tauto.
Qed.

Lemma mr_v_around : forall ts te u tm t, mr_between u tm t -> ts <= t <= te ->
  mr_vP ts te u tm <= t <= mr_vF ts te u tm.
Proof.
  intros ts te u tm t [B1 B2] Ht. destruct (aux_of_outside ts te u) as [A0 A1].
  unfold mr_vP, mr_vF. split.
  - destruct (prev_of ROps tm u None) eqn:E; [|lra]. apply mr_prev_in in E as [I1 I2]. auto.
  - destruct (next_of ROps tm u) eqn:E; [|lra]. apply mr_next_in in E as [I1 I2]. auto.
Qed.

Lemma mr_nearest_le : forall ts te w x c,
  c = fst (aux_of ROps ts te w) \/ In c w \/ c = snd (aux_of ROps ts te w) ->
  nearest ROps (aux_of ROps ts te w) w x <= Rabs (x - c).
Proof.
  intros ts te w x c H. rewrite (surjective_pairing (aux_of ROps ts te w)).
  apply nearest_le_elem. exact H.
Qed.

(* a contribution is bounded by the distance from the previous (or from the
   following) spike of its own train to both spikes around [tm] of the other *)
Lemma mr_contrib_bnd : forall ts te u w tm t, mr_between u tm t ->
  let c := fst (contrib ROps ts te u w tm t) in
  (c <= Rabs (mr_vP ts te u tm - mr_vP ts te w tm) /\ c <= Rabs (mr_vP ts te u tm - mr_vF ts te w tm)) \/
  (c <= Rabs (mr_vF ts te u tm - mr_vF ts te w tm) /\ c <= Rabs (mr_vF ts te u tm - mr_vP ts te w tm)).
Proof.
  intros ts te u w tm t [B1 B2] c. subst c.
  pose proof (fun x => mr_nearest_le ts te w x _ (mr_vP_elem ts te w tm)) as NP.
  pose proof (fun x => mr_nearest_le ts te w x _ (mr_vF_elem ts te w tm)) as NF.
  set (Pw := mr_vP ts te w tm) in *. set (Fw := mr_vF ts te w tm) in *.
  unfold contrib, mr_vP, mr_vF.
  destruct (prev_of ROps tm u None) as [p|] eqn:Ep, (next_of ROps tm u) as [f|] eqn:Ef; cbn [fst].
  - apply mr_prev_in in Ep as [Ip Lp]. apply mr_next_in in Ef as [If Lf].
    pose proof (B1 p Ip Lp) as Tp. pose proof (B2 f If Lf) as Tf.
    set (np := nearest ROps (aux_of ROps ts te w) w p) in *.
    set (nf := nearest ROps (aux_of ROps ts te w) w f) in *.
    cbn [nadd nsub nmul ndiv ROps].
    assert (Hfp : 0 < f - p) by lra.
    destruct (Rle_dec np nf) as [C|C].
    + right. assert (K : (np * (f - t) + nf * (t - p)) / (f - p) <= nf).
      { apply Rmult_le_reg_r with (f - p); [exact Hfp|]. unfold Rdiv.
        rewrite Rmult_assoc, Rinv_l by lra. nra. }
      split; eapply Rle_trans; [exact K|apply NF|exact K|apply NP].
    + left. assert (K : (np * (f - t) + nf * (t - p)) / (f - p) <= np).
      { apply Rmult_le_reg_r with (f - p); [exact Hfp|]. unfold Rdiv.
        rewrite Rmult_assoc, Rinv_l by lra. nra. }
      split; eapply Rle_trans; [exact K|apply NP|exact K|apply NF].
  - left. split; [apply NP|apply NF].
  - right. split; [apply NF|apply NP].
  - left. cbn [n0 ROps]. split; apply Rabs_pos.
Qed.

Theorem spike_profile_le1 : forall s1 s2 ts te m ri, valid ts te s1 -> valid ts te s2 -> 0 <= m ->
  Forall (fun y => y <= 1) (snd (fst (spike_profile_py ROps (eff ts te s1) (eff ts te s2) ts te m ri))) /\
  Forall (fun y => y <= 1) (snd (spike_profile_py ROps (eff ts te s1) (eff ts te s2) ts te m ri)).
Proof.
  intros s1 s2 ts te m ri V1 V2 Hm. apply mr_spike_all; auto. intros p t Hp Ht.
  destruct (mr_spike_at_form ts te s1 s2 m ri p t V1 V2 Hp Ht) as (c1 & c2 & E & C1 & C2 & D1 & D2).
  rewrite E. destruct (mr_isi_len_pos ts te s1 s2 p V1 V2 Hp) as [P1 P2].
  destruct (mr_piece_between ts te s1 s2 p t V1 V2 Hp Ht) as [B1 B2].
  destruct (mr_piece ts te s1 s2 p V1 V2 Hp) as (T1 & _ & T2 & _).
  assert (Ht' : ts <= t <= te) by lra.
  pose proof (eff_valid V1) as (_ & S1 & _). pose proof (eff_valid V2) as (_ & S2 & _).
  set (u1 := eff ts te s1) in *. set (u2 := eff ts te s2) in *. set (tm := mid ROps p) in *.
  pose proof (mr_contrib_bnd ts te u1 u2 tm t B1) as K1. cbv zeta in K1. rewrite <- D1 in K1.
  pose proof (mr_contrib_bnd ts te u2 u1 tm t B2) as K2. cbv zeta in K2. rewrite <- D2 in K2.
  destruct (mr_core_t t _ _ _ _ c1 c2 (mr_v_around ts te u1 tm t B1 Ht') (mr_v_around ts te u2 tm t B2 Ht') K1 K2)
    as [R1 R2].
  rewrite <- (mr_isi_virtual ts te u1 tm S1 (eff_nonempty ts te s1)) in R1, R2.
  rewrite <- (mr_isi_virtual ts te u2 tm S2 (eff_nonempty ts te s2)) in R1, R2.
  set (i1 := isi_len_at ROps ts te u1 tm) in *. set (i2 := isi_len_at ROps ts te u2 tm) in *.
  apply Rle_trans with (dist_at_t ROps i1 i2 c1 c2 0 ri).
  - apply dist_at_t_mono_m; auto; lra.
  - destruct ri.
    + rewrite dist_at_t_plain_true by auto.
      apply Rmult_le_reg_r with (i1 + i2); [lra|]. unfold Rdiv.
      rewrite Rmult_assoc, Rinv_l by lra. lra.
    + rewrite dist_at_t_plain_false by auto.
      assert (Hd : 0 < 2 * ((i1 + i2) / 2) ^ 2) by nra.
      apply Rmult_le_reg_r with (2 * ((i1 + i2) / 2) ^ 2); [exact Hd|]. unfold Rdiv at 1.
      rewrite Rmult_assoc, Rinv_l by lra. nra.
Qed.

Print Assumptions isi_lengths_is_spec.
Print Assumptions isi_lengths_pos.
Print Assumptions default_thresh_sq_valid.
Print Assumptions isi_profile_mrts_noop.
Print Assumptions spike_profile_mrts_noop.
Print Assumptions spike_profile_mrts_monotone.
Print Assumptions sync_mrts_monotone.
Print Assumptions sync_mrts_noop.
Print Assumptions spike_profile_nonneg.
Print Assumptions spike_profile_self_zero.
Print Assumptions spike_profile_le1.
