(* ModelIO.v — model of the text I/O and the small generators of pyspike
   (spikes.py: spike_train_from_string, load_spike_trains_from_txt,
   save_spike_trains_to_txt, generate_poisson_spikes; psth.py; the edge
   parsing of the SpikeTrain constructor).

   Characters are [nat] codes, a string is a [list nat], a file is a list of
   lines WITHOUT the trailing newline.  Number formatting / parsing is not
   modelled: a spike train on the text side is the list of its already
   formatted tokens.  Numbers are polymorphic over [NumOps F].
   No proofs in this file. *)

From Coq Require Import List Bool ZArith Arith.
Import ListNotations.
From PS Require Import Num ModelKernels ModelFuncs ModelAPI.

(* ------------------------------------------------------------------ *)
(* strings                                                             *)

Definition is_empty {A : Type} (l : list A) : bool :=
  match l with [] => true | _ => false end.

(* Python: s.startswith(p).  "".startswith("#") = False, s.startswith("") = True *)
Fixpoint starts_with (p s : list nat) : bool :=
  match p with
  | [] => true
  | a :: p' =>
      match s with
      | [] => false
      | b :: s' => Nat.eqb a b && starts_with p' s'
      end
  end.

(* Python: sep.join(toks) *)
Fixpoint join (sep : list nat) (toks : list (list nat)) : list nat :=
  match toks with
  | [] => []
  | t :: r =>
      match r with
      | [] => t
      | _ :: _ => t ++ sep ++ join sep r
      end
  end.

(* left-to-right scan.  [skip] = characters of the current separator
   occurrence still to be dropped, [cur] = current token, reversed. *)
Fixpoint split_go (sep : list nat) (skip : nat) (cur : list nat) (s : list nat)
  : list (list nat) :=
  match s with
  | [] => [rev cur]
  | c :: r =>
      match skip with
      | S k => split_go sep k cur r
      | O =>
          if starts_with sep s
          then rev cur :: split_go sep (length sep - 1) [] r
          else split_go sep 0 (c :: cur) r
      end
  end.

(* token level model of np.fromstring(line, sep=sep): split at every
   occurrence of the separator string *)
Definition split (sep : list nat) (s : list nat) : list (list nat) :=
  match s with
  | [] => []
  | _ :: _ =>
      match sep with
      | [] => [s]
      | _ :: _ => split_go sep 0 [] s
      end
  end.

(* ------------------------------------------------------------------ *)
(* save_spike_trains_to_txt / load_spike_trains_from_txt               *)

(* one line per train; the tokens are the formatted spike times *)
Definition save_lines (sep : list nat) (trains : list (list (list nat)))
  : list (list nat) :=
  map (join sep) trains.

(* what one line of the file contributes to the list of trains *)
Definition load_line (sep comment : list nat) (ignore_empty : bool)
           (line : list nat) : list (list (list nat)) :=
  if starts_with comment line then []
  else if negb (is_empty line) then [split sep line]      (* len(line) > 1 *)
  else if ignore_empty then [] else [[]].

Definition load_lines (sep comment : list nat) (ignore_empty : bool)
           (lines : list (list nat)) : list (list (list nat)) :=
  flat_map (load_line sep comment ignore_empty) lines.

(* ------------------------------------------------------------------ *)
(* numbers                                                             *)

Section IONum.
  Context {F : Type} (o : NumOps F).

  Local Notation "a + b" := (nadd o a b).
  Local Notation "a - b" := (nsub o a b).
  Local Notation "a * b" := (nmul o a b).
  Local Notation "a / b" := (ndiv o a b).
  Local Notation "a <? b" := (nltb o a b).

  (* SpikeTrain.__init__: edges is a pair (T0, T1) or a scalar T1 with T0 = 0 *)
  Definition edges_of (e : F + F * F) : F * F :=
    match e with
    | inl T => (n0 o, T)
    | inr p => p
    end.

  (* np.linspace(ts, te, n+1): step = (te - ts)/n, points ts + k*step *)
  Definition psth_edges (ts te : F) (n : nat) : list F :=
    let step := (te - ts) / nofnat o n in
    map (fun k => ts + nofnat o k * step) (seq 0 (S n)).

  (* psth: np.histogram(all spikes, np.linspace(ts, te, n+1)) *)
  Definition psth_counts (ts te : F) (n : nat) (xs : list F) : list F :=
    hist_counts o (psth_edges ts te n) xs.

  (* np.cumsum, running sum started at [acc] *)
  Fixpoint cumsum (acc : F) (l : list F) : list F :=
    match l with
    | [] => []
    | d :: r => let a := acc + d in a :: cumsum a r
    end.

  (* T_start + np.cumsum(intervals) *)
  Definition poisson_cumsums (t0 : F) (draws : list F) : list F :=
    map (fun c => t0 + c) (cumsum (n0 o) draws).

  (* spikes[spikes < T_end] *)
  Definition poisson_spikes (t0 t1 : F) (draws : list F) : list F :=
    filter (fun x => x <? t1) (poisson_cumsums t0 draws).

End IONum.
