(* Val.v / Dispatch.v — a small untyped value language and a numbered dispatcher over
   the Q-instance of the model, so that the OCaml driver only has to parse and
   print [val]s.  The routine numbers are mirrored in harness/routines.py. *)

From Coq Require Import List Bool ZArith QArith Arith.
Import ListNotations.
From PS Require Import Num ModelKernels ModelFuncs ModelAPI Heap.

Inductive val : Type :=
| VQ (q : Q)
| VN (n : nat)
| VB (b : bool)
| VL (l : list val)
| VE (e : err)
| VNone.

Definition asQ (v : val) : option Q := match v with VQ q => Some q | _ => None end.
Definition asN (v : val) : option nat := match v with VN n => Some n | _ => None end.

Fixpoint all_some {A} (l : list (option A)) : option (list A) :=
  match l with
  | [] => Some []
  | Some a :: r => match all_some r with Some r' => Some (a :: r') | None => None end
  | None :: _ => None
  end.

Definition asQs (v : val) : option (list Q) :=
  match v with VL l => all_some (map asQ l) | _ => None end.
Definition asQss (v : val) : option (list (list Q)) :=
  match v with VL l => all_some (map asQs l) | _ => None end.
Definition asNs (v : val) : option (list nat) :=
  match v with VL l => all_some (map asN l) | _ => None end.
Definition asBs (v : val) : option (list bool) :=
  match v with VL l => all_some (map (fun x => match x with VB b => Some b | _ => None end) l) | _ => None end.

Definition asTrain (v : val) : option (list Q * Q * Q) :=
  match v with
  | VL [s; VQ ts; VQ te] => match asQs s with Some l => Some (l, ts, te) | None => None end
  | _ => None
  end.
Definition asTrains (v : val) : option (list (list Q * Q * Q)) :=
  match v with VL l => all_some (map asTrain l) | _ => None end.

Definition asIdx (v : val) : option (option (list nat)) :=
  match v with
  | VNone => Some None
  | _ => match asNs v with Some l => Some (Some l) | None => None end
  end.

Definition asIv (v : val) : option (option (Q * Q)) :=
  match v with
  | VNone => Some None
  | VL [VQ a; VQ b] => Some (Some (a, b))
  | _ => None
  end.

Definition asPair (v : val) : option (Q * Q) :=
  match v with VL [VQ a; VQ b] => Some (a, b) | _ => None end.

Definition asIvspec (v : val) : option (@ivspec Q) :=
  match v with
  | VNone => Some (@IvNone Q)
  | VL [VQ a; VQ b] => Some (IvOne a b)
  | VL l => match all_some (map asPair l) with Some ps => Some (IvMany ps) | None => None end
  | _ => None
  end.

Definition asCtx (v : val) : option (option (@ctx Q)) :=
  match v with
  | VNone => Some None
  | VL [p; VQ c; n] =>
      let f x := match x with VQ q => Some q | _ => None end in
      Some (Some (mkCtx (f p) c (f n)))
  | _ => None
  end.

Definition asEntries (x y mp : val) : option (list (Q * Q * Q)) :=
  match asQs x, asQs y, asQs mp with
  | Some xs, Some ys, Some ms =>
      if (length xs =? length ys)%nat && (length xs =? length ms)%nat
      then Some (combine (combine xs ys) ms) else None
  | _, _, _ => None
  end.

Definition encQs (l : list Q) : val := VL (map VQ l).
Definition encPwc (f : list Q * list Q) : val := VL [encQs (fst f); encQs (snd f)].
Definition encPwl (f : list Q * list Q * list Q) : val :=
  VL [encQs (fst (fst f)); encQs (snd (fst f)); encQs (snd f)].
Definition encDf (f : list (Q * Q * Q)) : val :=
  VL [encQs (map (fun e => fst (fst e)) f); encQs (map (fun e => snd (fst e)) f);
      encQs (map (fun e => snd e) f)].
Definition encRes {A} (enc : A -> val) (r : res A) : val :=
  match r with Ok a => enc a | Err e => VE e end.
Definition encTrain (t : list Q * Q * Q) : val :=
  VL [encQs (fst (fst t)); VQ (snd (fst t)); VQ (snd t)].
Definition encMatrix (m : list (list Q)) : val := VL (map encQs m).
Definition encPairQ (p : Q * Q) : val := VL [VQ (fst p); VQ (snd p)].


(* strings = lists of character codes *)
Definition asStrs (v : val) : option (list (list nat)) :=
  match v with VL l => all_some (map asNs l) | _ => None end.
Definition asStrsL (v : val) : option (list (list (list nat))) :=
  match v with VL l => all_some (map asStrs l) | _ => None end.
Definition encStr (s : list nat) : val := VL (map VN s).

Definition asPwc (v : val) : option (list Q * list Q) :=
  match v with
  | VL [x; y] => match asQs x, asQs y with Some a, Some b => Some (a, b) | _, _ => None end
  | _ => None
  end.
Definition asPwcs (v : val) : option (list (list Q * list Q)) :=
  match v with VL l => all_some (map asPwc l) | _ => None end.

(* ops: (#0 i j) add, (#1 i c) mul, (#2 i) copy *)
Definition asOp (v : val) : option (@op Q) :=
  match v with
  | VL [VN 0; VN i; VN j] => Some (OAdd i j)
  | VL [VN 1; VN i; VQ c] => Some (OMul i c)
  | VL [VN 2; VN i] => Some (OCopy i)
  | _ => None
  end.
Definition asOps (v : val) : option (list (@op Q)) :=
  match v with VL l => all_some (map asOp l) | _ => None end.
