(* Lem_API5.v — the MATRIX entry points of ModelAPI.v (isi_distance_matrix,
   spike_distance_matrix, spike_sync_matrix, all through matrix_gen) and the automatic
   threshold default_thresh_sq.
   (A) matrix_gen with a total pair function returns the square table of the pair values;
   (B) for trains valid on one common recording the three matrices are square, symmetric,
       have the diagonal 0 / 0 / 1, entries in [0,1], and are invariant under a time shift,
       a positive time scaling and (whole recording) time reversal of every train;
   (C) default_thresh_sq is shift invariant, scales with k^2, and is mirror invariant.
   rc = false, both backends, idx = None or Some ix with check_indices.  R instance. *)
From Coq Require Import List Bool Arith ZArith Reals Lra Lia Sorted Permutation.
Import ListNotations.
From PS Require Import Num RLemmas Valid ModelKernels ModelFuncs ModelAPI Spec SyncDefs.
From PS Require Import Lem_API Lem_API2 Lem_API3 Lem_API4.
From PS Require Lem_Lists Lem_Order Lem_WF Lem_Transform Lem_Transform2 Lem_Multi Lem_Mrts.
Local Open Scope R_scope.
Import Lem_Transform.

Local Notation trainR := (@train R).

(* ------------------------------------------------------------------ *)
(* 0. collecting a list of results                                      *)

Definition collect {A} (g : nat -> res A) (js : list nat) : res (list A) :=
  fold_right (fun j acc => rbind (g j) (fun e => rmap (cons e) acc)) (Ok []) js.

Lemma collect_cons {A} (g : nat -> res A) j js :
  collect g (j :: js) = rbind (g j) (fun e => rmap (cons e) (collect g js)).
Proof. reflexivity. Qed.

Lemma collect_ok {A} (g : nat -> res A) (h : nat -> A) js :
  (forall j, In j js -> g j = Ok (h j)) -> collect g js = Ok (map h js).
Proof.
  induction js as [|j js IH]; intros H; [reflexivity|].
  rewrite collect_cons, (H j (or_introl eq_refl)). cbn [rbind map].
  rewrite IH by (intros j' Hj'; apply H; right; exact Hj'). reflexivity.
Qed.

Lemma collect_ext {A} (g g' : nat -> res A) js :
  (forall j, In j js -> g j = g' j) -> collect g js = collect g' js.
Proof.
  induction js as [|j js IH]; intros H; [reflexivity|].
  rewrite !collect_cons, (H j (or_introl eq_refl)).
  rewrite IH by (intros j' Hj'; apply H; right; exact Hj'). reflexivity.
Qed.

Lemma nth_map_seq {A} (F : nat -> A) n i d : (i < n)%nat -> nth i (map F (seq 0 n)) d = F i.
Proof.
  intros H. rewrite nth_indep with (d' := F 0%nat) by (rewrite map_length, seq_length; exact H).
  rewrite map_nth, seq_nth by exact H. reflexivity.
Qed.

(* ------------------------------------------------------------------ *)
(* 1. (A) the table computed by matrix_gen                              *)

(* the admissible index selections: all trains, or a list of positions below the length *)
Definition idx_ok (n : nat) (idx : option (list nat)) : Prop :=
  match idx with None => True | Some ix => check_indices n ix = true end.

(* the selected positions, and the number of rows / columns of the matrix *)
Definition ixs (l : list trainR) (idx : option (list nat)) : list nat := indices_or_all (length l) idx.
Definition msize (l : list trainR) (idx : option (list nat)) : nat := length (ixs l idx).

(* the train at row / column p *)
Definition sel (l : list trainR) (idx : option (list nat)) (p : nat) : trainR :=
  nth_train ROps l (nth p (ixs l idx) 0%nat).

(* entry (i, j) of a matrix given as a list of rows *)
Definition ent (M : list (list R)) (i j : nat) : R := nth j (nth i M []) 0.

Definition ment (f : trainR -> trainR -> R) (diag : R) (sym : R -> R) (l : list trainR)
           (idx : option (list nat)) (i j : nat) : R :=
  if (i =? j)%nat then diag
  else if (i <? j)%nat then f (sel l idx i) (sel l idx j)
       else sym (f (sel l idx j) (sel l idx i)).

Definition mat_of (f : trainR -> trainR -> R) (diag : R) (sym : R -> R) (l : list trainR)
           (idx : option (list nat)) : list (list R) :=
  map (fun i => map (fun j => ment f diag sym l idx i j) (seq 0 (msize l idx))) (seq 0 (msize l idx)).

Lemma idx_ok_check l idx : idx_ok (length l) idx -> check_indices (length l) (ixs l idx) = true.
Proof.
  destruct idx as [ix|]; cbn [idx_ok ixs indices_or_all]; [auto|].
  intros _. apply Lem_Multi.check_indices_seq.
Qed.

Lemma msize_none l : msize l None = length l.
Proof. unfold msize, ixs. cbn [indices_or_all]. apply seq_length. Qed.

Lemma msize_some l ix : msize l (Some ix) = length ix.
Proof. reflexivity. Qed.

Lemma sel_none l p : (p < length l)%nat -> sel l None p = nth_train ROps l p.
Proof. intros H. unfold sel, ixs. cbn [indices_or_all]. rewrite seq_nth by exact H. reflexivity. Qed.

Lemma sel_lt l idx p : idx_ok (length l) idx -> (p < msize l idx)%nat ->
  (nth p (ixs l idx) 0 < length l)%nat.
Proof.
  intros H Hp. apply idx_ok_check in H. unfold check_indices in H.
  rewrite forallb_forall in H. apply Nat.ltb_lt. apply H. apply nth_In. exact Hp.
Qed.

Lemma sel_In l idx p : idx_ok (length l) idx -> (p < msize l idx)%nat -> In (sel l idx p) l.
Proof. intros H Hp. apply nth_train_In. apply (sel_lt l idx p H Hp). Qed.

Lemma sel_vtrain ts te l idx p : Forall (vtrain ts te) l -> idx_ok (length l) idx ->
  (p < msize l idx)%nat -> vtrain ts te (sel l idx p).
Proof. intros HF H Hp. apply (Forall_In_v ts te l _ HF). apply sel_In; assumption. Qed.

Lemma sel_map (g : trainR -> trainR) l idx p : idx_ok (length l) idx -> (p < msize l idx)%nat ->
  sel (map g l) idx p = g (sel l idx p).
Proof.
  intros H Hp. unfold sel, ixs. rewrite map_length. apply nth_train_map.
  apply (sel_lt l idx p H Hp).
Qed.

(* the code of matrix_gen as two nested [collect]s *)
Definition gent (bi : trainR -> trainR -> res R) (diag : R) (sym : R -> R) (l : list trainR)
           (idx : option (list nat)) (i j : nat) : res R :=
  if (i =? j)%nat then Ok diag
  else if (i <? j)%nat then bi (sel l idx i) (sel l idx j)
       else rmap sym (bi (sel l idx j) (sel l idx i)).

Lemma matrix_gen_collect eps bi diag sym (l : list trainR) idx :
  matrix_gen ROps eps bi diag sym false l idx
  = if negb (check_indices (length l) (ixs l idx)) then Err AssertionError
    else collect (fun i => collect (gent bi diag sym l idx i) (seq 0 (msize l idx)))
                 (seq 0 (msize l idx)).
Proof. reflexivity. Qed.

(* (A) *)
Theorem matrix_gen_table : forall eps bi diag sym (l : list trainR) idx f,
  idx_ok (length l) idx ->
  (forall a b, In a l -> In b l -> bi a b = Ok (f a b)) ->
  matrix_gen ROps eps bi diag sym false l idx = Ok (mat_of f diag sym l idx).
Proof.
  intros eps bi diag sym l idx f Hix Hbi.
  rewrite matrix_gen_collect, (idx_ok_check l idx Hix). cbn [negb]. unfold mat_of.
  apply collect_ok. intros i Hi. apply in_seq in Hi.
  apply collect_ok. intros j Hj. apply in_seq in Hj.
  unfold gent, ment.
  destruct (i =? j)%nat; [reflexivity|].
  destruct (i <? j)%nat.
  - apply Hbi; apply sel_In; auto; lia.
  - rewrite Hbi by (apply sel_In; auto; lia). reflexivity.
Qed.

Lemma mat_of_length f diag sym l idx : length (mat_of f diag sym l idx) = msize l idx.
Proof. unfold mat_of. rewrite map_length, seq_length. reflexivity. Qed.

Lemma mat_of_rows f diag sym l idx :
  Forall (fun r => length r = msize l idx) (mat_of f diag sym l idx).
Proof.
  unfold mat_of. apply Forall_forall. intros r Hr. apply in_map_iff in Hr as (i & <- & _).
  rewrite map_length, seq_length. reflexivity.
Qed.

Lemma mat_of_ent f diag sym l idx i j : (i < msize l idx)%nat -> (j < msize l idx)%nat ->
  ent (mat_of f diag sym l idx) i j = ment f diag sym l idx i j.
Proof.
  intros Hi Hj. unfold ent, mat_of. rewrite nth_map_seq by exact Hi.
  rewrite nth_map_seq by exact Hj. reflexivity.
Qed.

(* a square matrix of size n *)
Definition square (n : nat) (M : list (list R)) : Prop :=
  length M = n /\ Forall (fun r => length r = n) M.

Lemma square_row n M i : square n M -> (i < n)%nat -> length (nth i M []) = n.
Proof.
  intros [HL HR] Hi. rewrite Forall_forall in HR. apply HR. apply nth_In. lia.
Qed.

(* (A) as requested: all trains, the entries in terms of [nth_train] *)
Theorem matrix_gen_all : forall eps bi diag sym (l : list trainR) f,
  (forall a b, In a l -> In b l -> bi a b = Ok (f a b)) ->
  exists M, matrix_gen ROps eps bi diag sym false l None = Ok M /\
    length M = length l /\
    (forall i, (i < length l)%nat -> length (nth i M []) = length l) /\
    (forall i j, (i < length l)%nat -> (j < length l)%nat ->
       nth j (nth i M []) 0
       = if (i =? j)%nat then diag
         else if (i <? j)%nat then f (nth_train ROps l i) (nth_train ROps l j)
              else sym (f (nth_train ROps l j) (nth_train ROps l i))).
Proof.
  intros eps bi diag sym l f Hbi. exists (mat_of f diag sym l None).
  split; [apply matrix_gen_table; [exact I | exact Hbi]|].
  assert (SQ : square (length l) (mat_of f diag sym l None)).
  { rewrite <- (msize_none l). split; [apply mat_of_length | apply mat_of_rows]. }
  split; [apply SQ|]. split; [intros i Hi; apply (square_row _ _ i SQ Hi)|].
  intros i j Hi Hj. fold (ent (mat_of f diag sym l None) i j).
  rewrite mat_of_ent by (rewrite msize_none; assumption).
  unfold ment. rewrite !sel_none by assumption. reflexivity.
Qed.

(* the same when the pair function is only known to succeed *)
Corollary matrix_gen_all_ok : forall eps bi diag sym (l : list trainR),
  (forall a b, In a l -> In b l -> exists d, bi a b = Ok d) ->
  exists M, matrix_gen ROps eps bi diag sym false l None = Ok M /\
    length M = length l /\
    (forall i, (i < length l)%nat -> length (nth i M []) = length l) /\
    (forall i j, (i < length l)%nat -> (j < length l)%nat ->
       if (i =? j)%nat then nth j (nth i M []) 0 = diag
       else if (i <? j)%nat
            then bi (nth_train ROps l i) (nth_train ROps l j) = Ok (nth j (nth i M []) 0)
            else rmap sym (bi (nth_train ROps l j) (nth_train ROps l i)) = Ok (nth j (nth i M []) 0)).
Proof.
  intros eps bi diag sym l Hbi.
  set (f := fun a b => Lem_Multi.valOf (bi a b)).
  assert (Hf : forall a b, In a l -> In b l -> bi a b = Ok (f a b)).
  { intros a b Ha Hb. destruct (Hbi a b Ha Hb) as (d & E). unfold f. rewrite E. reflexivity. }
  destruct (matrix_gen_all eps bi diag sym l f Hf) as (M & E & HL & HR & HE).
  exists M. split; [exact E|]. split; [exact HL|]. split; [exact HR|].
  intros i j Hi Hj. rewrite (HE i j Hi Hj).
  destruct (i =? j)%nat; [reflexivity|].
  destruct (i <? j)%nat.
  - apply Hf; apply nth_train_In; assumption.
  - rewrite Hf by (apply nth_train_In; assumption). reflexivity.
Qed.

(* a transformation of the trains that leaves every pair value unchanged leaves the matrix
   unchanged (also when the index check fails: both sides are the same error) *)
Lemma matrix_gen_map eps (bi bi' : trainR -> trainR -> res R) diag sym (g : trainR -> trainR) l idx :
  (forall a b, In a l -> In b l -> bi' (g a) (g b) = bi a b) ->
  matrix_gen ROps eps bi' diag sym false (map g l) idx = matrix_gen ROps eps bi diag sym false l idx.
Proof.
  intros H. rewrite !matrix_gen_collect.
  assert (EI : ixs (map g l) idx = ixs l idx) by (unfold ixs; rewrite map_length; reflexivity).
  assert (EM : msize (map g l) idx = msize l idx) by (unfold msize; rewrite EI; reflexivity).
  rewrite EI, EM, map_length.
  destruct (check_indices (length l) (ixs l idx)) eqn:EC; cbn [negb]; [|reflexivity].
  assert (Hix : idx_ok (length l) idx).
  { destruct idx as [ix|]; [exact EC | exact I]. }
  apply collect_ext. intros i Hi. apply in_seq in Hi.
  apply collect_ext. intros j Hj. apply in_seq in Hj.
  unfold gent. rewrite !sel_map by (auto; lia).
  destruct (i =? j)%nat; [reflexivity|].
  destruct (i <? j)%nat; rewrite H by (apply sel_In; auto; lia); reflexivity.
Qed.

(* ------------------------------------------------------------------ *)
(* 2. (B1-B4) a symmetric pair function with values in [0,1]            *)

(* what is proved of each of the three matrices: n = number of selected trains *)
Definition dist_matrix (n : nat) (diag : R) (M : list (list R)) : Prop :=
  square n M /\
  (forall i j, (i < n)%nat -> (j < n)%nat -> ent M i j = ent M j i) /\
  (forall i, (i < n)%nat -> ent M i i = diag) /\
  (forall i j, (i < n)%nat -> (j < n)%nat -> 0 <= ent M i j <= 1).

Lemma matrix_gen_props eps (bi : trainR -> trainR -> res R) diag ts te (l : list trainR) idx :
  Forall (vtrain ts te) l -> idx_ok (length l) idx -> 0 <= diag <= 1 ->
  (forall a b, vtrain ts te a -> vtrain ts te b -> exists d, bi a b = Ok d /\ 0 <= d <= 1) ->
  (forall a b, vtrain ts te a -> vtrain ts te b -> bi a b = bi b a) ->
  exists M, matrix_gen ROps eps bi diag (fun x => x) false l idx = Ok M /\
    dist_matrix (msize l idx) diag M /\
    (forall i j, (i < j)%nat -> (j < msize l idx)%nat ->
       bi (sel l idx i) (sel l idx j) = Ok (ent M i j)).
Proof.
  intros HF Hix Hd Hbi Hsym.
  set (f := fun a b => Lem_Multi.valOf (bi a b)).
  assert (Hf : forall a b, vtrain ts te a -> vtrain ts te b -> bi a b = Ok (f a b) /\ 0 <= f a b <= 1).
  { intros a b Va Vb. destruct (Hbi a b Va Vb) as (d & E & Rg). unfold f. rewrite E. cbn. auto. }
  assert (Fs : forall a b, vtrain ts te a -> vtrain ts te b -> f a b = f b a).
  { intros a b Va Vb. unfold f. rewrite (Hsym a b Va Vb). reflexivity. }
  assert (V : forall p, (p < msize l idx)%nat -> vtrain ts te (sel l idx p)).
  { intros p Hp. apply (sel_vtrain ts te l idx p HF Hix Hp). }
  exists (mat_of f diag (fun x => x) l idx).
  split.
  { apply matrix_gen_table; [exact Hix|]. intros a b Ha Hb.
    apply (Hf a b (Forall_In_v ts te l a HF Ha) (Forall_In_v ts te l b HF Hb)). }
  split; [split; [split; [apply mat_of_length | apply mat_of_rows]|split; [|split]]|].
  - intros i j Hi Hj. rewrite !mat_of_ent by assumption. unfold ment.
    destruct (Nat.lt_trichotomy i j) as [L|[E|L]].
    + rewrite (proj2 (Nat.eqb_neq i j)), (proj2 (Nat.ltb_lt i j)) by lia.
      rewrite (proj2 (Nat.eqb_neq j i)), (proj2 (Nat.ltb_ge j i)) by lia. reflexivity.
    + subst j. reflexivity.
    + rewrite (proj2 (Nat.eqb_neq i j)), (proj2 (Nat.ltb_ge i j)) by lia.
      rewrite (proj2 (Nat.eqb_neq j i)), (proj2 (Nat.ltb_lt j i)) by lia. reflexivity.
  - intros i Hi. rewrite mat_of_ent by assumption. unfold ment. rewrite Nat.eqb_refl. reflexivity.
  - intros i j Hi Hj. rewrite mat_of_ent by assumption. unfold ment.
    destruct (i =? j)%nat; [exact Hd|].
    destruct (i <? j)%nat; apply Hf; apply V; assumption.
  - intros i j Hij Hj. rewrite mat_of_ent by lia. unfold ment.
    rewrite (proj2 (Nat.eqb_neq i j)), (proj2 (Nat.ltb_lt i j)) by lia.
    apply Hf; apply V; lia.
Qed.

(* B1-B4 for the ISI distance matrix *)
Theorem isi_matrix_props : forall eps cy m iv l idx ts te,
  Forall (vtrain ts te) l -> iv_ok ts te iv -> idx_ok (length l) idx ->
  exists M, isi_distance_matrix ROps eps cy false m iv l idx = Ok M /\
    dist_matrix (msize l idx) 0 M /\
    (forall i j, (i < j)%nat -> (j < msize l idx)%nat ->
       isi_distance_bi ROps eps cy false m iv (sel l idx i) (sel l idx j) = Ok (ent M i j)).
Proof.
  intros eps cy m iv l idx ts te HF Hiv Hix. unfold isi_distance_matrix.
  change (n0 ROps) with 0.
  apply (matrix_gen_props eps _ 0 ts te l idx HF Hix); [lra| |].
  - intros a b Va Vb.
    destruct (Lem_WF.isi_distance_bi_ok eps cy false m iv ts te a b (Lem_WF.rc_ok_false eps) Va Vb Hiv)
      as (v & E).
    exists v. split; [exact E|]. apply (isi_distance_range_iv eps cy m iv a b ts te v Va Vb Hiv E).
  - intros a b Va Vb. apply (isi_distance_symmetric eps cy m iv Va Vb).
Qed.

(* B1-B4 for the SPIKE distance matrix *)
Theorem spike_matrix_props : forall eps cy m ri iv l idx ts te,
  Forall (vtrain ts te) l -> iv_ok ts te iv -> 0 <= m -> idx_ok (length l) idx ->
  exists M, spike_distance_matrix ROps eps cy false m ri iv l idx = Ok M /\
    dist_matrix (msize l idx) 0 M /\
    (forall i j, (i < j)%nat -> (j < msize l idx)%nat ->
       spike_distance_bi ROps eps cy false m ri iv (sel l idx i) (sel l idx j) = Ok (ent M i j)).
Proof.
  intros eps cy m ri iv l idx ts te HF Hiv Hm Hix. unfold spike_distance_matrix.
  change (n0 ROps) with 0.
  apply (matrix_gen_props eps _ 0 ts te l idx HF Hix); [lra| |].
  - intros a b Va Vb.
    destruct (Lem_WF.spike_distance_bi_ok eps cy false m ri iv ts te a b (Lem_WF.rc_ok_false eps) Va Vb Hiv)
      as (v & E).
    exists v. split; [exact E|]. apply (spike_distance_range eps cy m ri iv a b ts te v Va Vb Hm Hiv E).
  - intros a b Va Vb. apply (spike_distance_symmetric eps cy m ri iv a b ts te Va Vb).
Qed.

(* B1-B4 for the SPIKE-Sync matrix (diagonal 1) *)
Theorem sync_matrix_props : forall eps cy mt m iv l idx ts te,
  Forall (vtrain ts te) l -> iv_ok ts te iv -> idx_ok (length l) idx ->
  exists M, spike_sync_matrix ROps eps cy false mt m iv l idx = Ok M /\
    dist_matrix (msize l idx) 1 M /\
    (forall i j, (i < j)%nat -> (j < msize l idx)%nat ->
       spike_sync_bi ROps eps cy false mt m iv (sel l idx i) (sel l idx j) = Ok (ent M i j)).
Proof.
  intros eps cy mt m iv l idx ts te HF Hiv Hix. unfold spike_sync_matrix.
  change (n1 ROps) with 1.
  apply (matrix_gen_props eps _ 1 ts te l idx HF Hix); [lra| |].
  - intros a b Va Vb.
    destruct (Lem_WF.spike_sync_bi_ok eps cy false mt m iv ts te a b (Lem_WF.rc_ok_false eps) Va Vb Hiv)
      as (v & E).
    exists v. split; [exact E|]. apply (sync_range eps cy mt m iv Va Vb E).
  - intros a b Va Vb. apply (sync_symmetric eps cy mt m iv Va Vb).
Qed.

(* ------------------------------------------------------------------ *)
(* 3. (B5) time shift, positive time scaling, time reversal             *)
(* every index selection [idx] (an inadmissible one gives the same error on both sides) *)

Theorem isi_matrix_shift : forall eps cy m iv c l idx ts te,
  Forall (vtrain ts te) l -> iv_ok ts te iv ->
  isi_distance_matrix ROps eps cy false m (shift_iv c iv) (map (shift_train c) l) idx
  = isi_distance_matrix ROps eps cy false m iv l idx.
Proof.
  intros eps cy m iv c l idx ts te HF Hiv. unfold isi_distance_matrix.
  apply matrix_gen_map. intros a b Ha Hb.
  apply (isi_distance_shift_iv eps cy m iv c a b ts te
           (Forall_In_v ts te l a HF Ha) (Forall_In_v ts te l b HF Hb) Hiv).
Qed.

Theorem spike_matrix_shift : forall eps cy m ri iv c l idx ts te,
  Forall (vtrain ts te) l -> iv_ok ts te iv ->
  spike_distance_matrix ROps eps cy false m ri (shift_iv c iv) (map (shift_train c) l) idx
  = spike_distance_matrix ROps eps cy false m ri iv l idx.
Proof.
  intros eps cy m ri iv c l idx ts te HF Hiv. unfold spike_distance_matrix.
  apply matrix_gen_map. intros a b Ha Hb.
  apply (spike_distance_shift_iv eps cy m ri iv c a b ts te
           (Forall_In_v ts te l a HF Ha) (Forall_In_v ts te l b HF Hb) Hiv).
Qed.

Theorem sync_matrix_shift : forall eps cy mt m iv c l idx ts te,
  Forall (vtrain ts te) l -> iv_ok ts te iv ->
  spike_sync_matrix ROps eps cy false mt m (shift_iv c iv) (map (shift_train c) l) idx
  = spike_sync_matrix ROps eps cy false mt m iv l idx.
Proof.
  intros eps cy mt m iv c l idx ts te HF Hiv. unfold spike_sync_matrix.
  apply matrix_gen_map. intros a b Ha Hb.
  apply (sync_value_shift eps cy mt m iv c a b ts te
           (Forall_In_v ts te l a HF Ha) (Forall_In_v ts te l b HF Hb) Hiv).
Qed.

Theorem isi_matrix_scale : forall eps cy m iv k l idx ts te, 0 < k ->
  Forall (vtrain ts te) l -> iv_ok ts te iv ->
  isi_distance_matrix ROps eps cy false (k * m) (scale_iv k iv) (map (scale_train k) l) idx
  = isi_distance_matrix ROps eps cy false m iv l idx.
Proof.
  intros eps cy m iv k l idx ts te Hk HF Hiv. unfold isi_distance_matrix.
  apply matrix_gen_map. intros a b Ha Hb.
  apply (isi_distance_scale_iv eps cy m iv k a b ts te Hk
           (Forall_In_v ts te l a HF Ha) (Forall_In_v ts te l b HF Hb) Hiv).
Qed.

Theorem spike_matrix_scale : forall eps cy m ri iv k l idx ts te, 0 < k ->
  Forall (vtrain ts te) l -> iv_ok ts te iv ->
  spike_distance_matrix ROps eps cy false (k * m) ri (scale_iv k iv) (map (scale_train k) l) idx
  = spike_distance_matrix ROps eps cy false m ri iv l idx.
Proof.
  intros eps cy m ri iv k l idx ts te Hk HF Hiv. unfold spike_distance_matrix.
  apply matrix_gen_map. intros a b Ha Hb.
  apply (spike_distance_scale_iv eps cy m ri iv k a b ts te Hk
           (Forall_In_v ts te l a HF Ha) (Forall_In_v ts te l b HF Hb) Hiv).
Qed.

Theorem sync_matrix_scale : forall eps cy mt m iv k l idx ts te, 0 < k ->
  Forall (vtrain ts te) l -> iv_ok ts te iv ->
  spike_sync_matrix ROps eps cy false (k * mt) (k * m) (scale_iv k iv) (map (scale_train k) l) idx
  = spike_sync_matrix ROps eps cy false mt m iv l idx.
Proof.
  intros eps cy mt m iv k l idx ts te Hk HF Hiv. unfold spike_sync_matrix.
  apply matrix_gen_map. intros a b Ha Hb.
  apply (sync_value_scale eps cy mt m iv k a b ts te Hk
           (Forall_In_v ts te l a HF Ha) (Forall_In_v ts te l b HF Hb) Hiv).
Qed.

(* time reversal about the recording (whole recording, iv = None) *)
Theorem isi_matrix_mirror : forall eps cy m l idx ts te, Forall (vtrain ts te) l ->
  isi_distance_matrix ROps eps cy false m None (map mirror_tr l) idx
  = isi_distance_matrix ROps eps cy false m None l idx.
Proof.
  intros eps cy m l idx ts te HF. unfold isi_distance_matrix.
  apply matrix_gen_map. intros a b Ha Hb.
  apply (isi_distance_mirror eps cy m a b ts te
           (Forall_In_v ts te l a HF Ha) (Forall_In_v ts te l b HF Hb)).
Qed.

Theorem spike_matrix_mirror : forall eps cy m ri l idx ts te, Forall (vtrain ts te) l ->
  spike_distance_matrix ROps eps cy false m ri None (map mirror_tr l) idx
  = spike_distance_matrix ROps eps cy false m ri None l idx.
Proof.
  intros eps cy m ri l idx ts te HF. unfold spike_distance_matrix.
  apply matrix_gen_map. intros a b Ha Hb.
  apply (spike_distance_mirror eps cy m ri a b ts te
           (Forall_In_v ts te l a HF Ha) (Forall_In_v ts te l b HF Hb)).
Qed.

Theorem sync_matrix_mirror : forall eps cy mt m l idx ts te, Forall (vtrain ts te) l ->
  spike_sync_matrix ROps eps cy false mt m None (map mirror_tr l) idx
  = spike_sync_matrix ROps eps cy false mt m None l idx.
Proof.
  intros eps cy mt m l idx ts te HF. unfold spike_sync_matrix.
  apply matrix_gen_map. intros a b Ha Hb.
  apply (sync_value_mirror eps cy mt m a b ts te
           (Forall_In_v ts te l a HF Ha) (Forall_In_v ts te l b HF Hb)).
Qed.

(* ------------------------------------------------------------------ *)
(* 4. (C) isi_lengths under an increasing affine map and under reversal  *)

Lemma diffs_cons2 (a b : R) r : diffs ROps (a :: b :: r) = (b - a) :: diffs ROps (b :: r).
Proof. reflexivity. Qed.

Lemma last_map_g (g : R -> R) : forall (s : list R) d, last (map g s) (g d) = g (last s d).
Proof.
  induction s as [|a s IH]; intros d; [reflexivity|].
  destruct s as [|b s]; [reflexivity|].
  change (last (map g (a :: b :: s)) (g d)) with (last (map g (b :: s)) (g d)).
  change (last (a :: b :: s) d) with (last (b :: s) d). apply IH.
Qed.

Lemma last_as_nth : forall (s : list R) d, last s d = nth (length s - 1) s d.
Proof.
  induction s as [|a s IH]; intros d; [reflexivity|].
  destruct s as [|b s]; [reflexivity|].
  change (last (a :: b :: s) d) with (last (b :: s) d). rewrite IH.
  cbn [length]. replace (S (S (length s)) - 1)%nat with (S (S (length s) - 1)) by lia.
  reflexivity.
Qed.

(* an increasing affine map of the time axis: slope k > 0 *)
Definition affine (k : R) (g : R -> R) : Prop := forall a b, g a - g b = k * (a - b).

Lemma affine_ltb k g a b : 0 < k -> affine k g -> Rltb (g a) (g b) = Rltb a b.
Proof.
  intros Hk Hg. pose proof (Hg a b) as E.
  destruct (Rltb_spec (g a) (g b)), (Rltb_spec a b); try reflexivity; nra.
Qed.

Lemma affine_max k g a b c d : 0 < k -> affine k g ->
  Rmax (g a - g b) (g c - g d) = k * Rmax (a - b) (c - d).
Proof. intros Hk Hg. rewrite (Hg a b), (Hg c d). apply Rmax_scale. exact Hk. Qed.

Lemma affine_sh c : affine 1 (sh c).
Proof. intros a b. unfold sh. ring. Qed.

Lemma affine_sc k : affine k (sc k).
Proof. intros a b. unfold sc. ring. Qed.

Lemma diffs_affine k g : affine k g -> forall s,
  diffs ROps (map g s) = map (Rmult k) (diffs ROps s).
Proof.
  intros Hg. induction s as [|a s IH]; [reflexivity|].
  destruct s as [|b s]; [reflexivity|].
  change (map g (a :: b :: s)) with (g a :: g b :: map g s).
  rewrite !diffs_cons2. cbn [map]. f_equal; [apply Hg | exact IH].
Qed.

Lemma isi_lengths_affine k g : 0 < k -> affine k g -> forall s ts te,
  isi_lengths ROps (map g s) (g ts) (g te) = map (Rmult k) (isi_lengths ROps s ts te).
Proof.
  intros Hk Hg s ts te. destruct s as [|x0 r].
  - cbn [map isi_lengths nsub ROps]. rewrite (Hg te ts). reflexivity.
  - change (map g (x0 :: r)) with (g x0 :: map g r).
    unfold isi_lengths. cbn [nltb nsub ROps].
    change (g x0 :: map g r) with (map g (x0 :: r)).
    rewrite last_map_g, map_length, map_nth, (diffs_affine k g Hg).
    set (xl := last (x0 :: r) x0). set (xl2 := nth (length (x0 :: r) - 2) (x0 :: r) x0).
    rewrite !(affine_ltb k g _ _ Hk Hg), !map_app. f_equal; [|f_equal].
    + destruct (Rltb ts x0); [|reflexivity]. cbn [map]. f_equal.
      destruct r as [|x1 r]; cbn [map]; rewrite ?R_nmax; [apply Hg | apply (affine_max k g _ _ _ _ Hk Hg)].
    + destruct (Rltb xl te); [|reflexivity]. cbn [map]. f_equal.
      destruct r as [|x1 r]; cbn [map]; rewrite ?R_nmax; [apply Hg | apply (affine_max k g _ _ _ _ Hk Hg)].
Qed.

Lemma map_Rmult_1 (l : list R) : map (Rmult 1) l = l.
Proof. rewrite <- (map_id l) at 2. apply map_ext. intros x. ring. Qed.

Lemma isi_lengths_shift c s ts te :
  isi_lengths ROps (map (sh c) s) (ts + c) (te + c) = isi_lengths ROps s ts te.
Proof.
  rewrite <- (map_Rmult_1 (isi_lengths ROps s ts te)).
  apply (isi_lengths_affine 1 (sh c) Rlt_0_1 (affine_sh c) s ts te).
Qed.

Lemma isi_lengths_scale k s ts te : 0 < k ->
  isi_lengths ROps (map (sc k) s) (k * ts) (k * te) = map (Rmult k) (isi_lengths ROps s ts te).
Proof. intros Hk. apply (isi_lengths_affine k (sc k) Hk (affine_sc k) s ts te). Qed.

(* isi_lengths of a list with two or more elements, by positions *)
Lemma isi_lengths_ge2 (s : list R) ts te : (2 <= length s)%nat ->
  isi_lengths ROps s ts te
  = (if Rltb ts (nth 0 s 0) then [Rmax (nth 0 s 0 - ts) (nth 1 s 0 - nth 0 s 0)] else [])
    ++ diffs ROps s
    ++ (if Rltb (nth (length s - 1) s 0) te
        then [Rmax (te - nth (length s - 1) s 0) (nth (length s - 1) s 0 - nth (length s - 2) s 0)]
        else []).
Proof.
  intros H2. destruct s as [|x0 [|x1 r]]; [cbn [length] in H2; lia | cbn [length] in H2; lia |].
  unfold isi_lengths. rewrite !R_nmax. cbn [nltb nsub ROps].
  rewrite (last_as_nth (x0 :: x1 :: r) x0).
  set (s := x0 :: x1 :: r) in *.
  rewrite (nth_indep s x0 0) by lia.
  rewrite (nth_indep s x0 0 (n := (length s - 2)%nat)) by lia.
  reflexivity.
Qed.

Lemma nth_mirror (g : R -> R) (s : list R) i : (i < length s)%nat ->
  nth i (rev (map g s)) 0 = g (nth (length s - S i) s 0).
Proof.
  intros Hi. rewrite rev_nth by (rewrite map_length; exact Hi). rewrite map_length.
  rewrite nth_indep with (d' := g 0) by (rewrite map_length; lia).
  apply map_nth.
Qed.

Lemma diffs_snoc2 : forall (l : list R) b a,
  diffs ROps (l ++ [b; a]) = diffs ROps (l ++ [b]) ++ [a - b].
Proof.
  induction l as [|x l IH]; intros b a; [reflexivity|].
  destruct l as [|y l]; [reflexivity|].
  change ((x :: y :: l) ++ [b; a]) with (x :: y :: (l ++ [b; a])).
  change ((x :: y :: l) ++ [b]) with (x :: y :: (l ++ [b])).
  rewrite !diffs_cons2.
  change (y :: l ++ [b; a]) with ((y :: l) ++ [b; a]).
  change (y :: l ++ [b]) with ((y :: l) ++ [b]). rewrite IH. reflexivity.
Qed.

Lemma diffs_mirror ts te : forall s : list R,
  diffs ROps (rev (map (mir ts te) s)) = rev (diffs ROps s).
Proof.
  induction s as [|a s IH]; [reflexivity|].
  destruct s as [|b s]; [reflexivity|].
  rewrite diffs_cons2. cbn [rev]. rewrite <- IH.
  change (map (mir ts te) (a :: b :: s)) with (mir ts te a :: map (mir ts te) (b :: s)).
  cbn [rev map]. rewrite <- app_assoc. cbn [app].
  rewrite diffs_snoc2. f_equal. f_equal. unfold mir. cbn [nsub ROps]. ring.
Qed.

(* time reversal about [ts, te] reverses the list of interval lengths (every list of reals) *)
Lemma isi_lengths_mirror (s : list R) ts te :
  isi_lengths ROps (mirror_train ts te s) ts te = rev (isi_lengths ROps s ts te).
Proof.
  unfold mirror_train.
  destruct s as [|x0 [|x1 r]].
  - reflexivity.
  - cbn [map rev app]. unfold isi_lengths. cbn [last diffs app nltb nsub ROps]. unfold mir.
    destruct (Rltb_spec ts (ts + te - x0)) as [A|A], (Rltb_spec (ts + te - x0) te) as [B|B],
             (Rltb_spec ts x0) as [C|C], (Rltb_spec x0 te) as [D|D]; try lra;
      cbn [app rev]; repeat (apply (f_equal2 (@cons R)); [ring|]); reflexivity.
  - set (s := x0 :: x1 :: r).
    assert (H2 : (2 <= length s)%nat) by (unfold s; cbn [length]; lia).
    assert (H2' : (2 <= length (rev (map (mir ts te) s)))%nat)
      by (rewrite rev_length, map_length; exact H2).
    rewrite (isi_lengths_ge2 _ ts te H2'), (isi_lengths_ge2 s ts te H2).
    rewrite rev_length, map_length, diffs_mirror.
    rewrite !nth_mirror by lia.
    replace (length s - S 0)%nat with (length s - 1)%nat by lia.
    replace (length s - 1 - 0)%nat with (length s - 1)%nat by lia.
    replace (length s - S 1)%nat with (length s - 2)%nat by lia.
    replace (length s - S (length s - 1))%nat with 0%nat by lia.
    replace (length s - S (length s - 2))%nat with 1%nat by lia.
    set (a0 := nth 0 s 0). set (a1 := nth 1 s 0).
    set (al := nth (length s - 1) s 0). set (al2 := nth (length s - 2) s 0).
    rewrite !rev_app_distr, <- app_assoc. unfold mir.
    f_equal; [|f_equal].
    + destruct (Rltb_spec ts (ts + te - al)) as [A|A], (Rltb_spec al te) as [B|B]; try lra;
        [|reflexivity].
      cbn [rev app]. f_equal. f_equal; ring.
    + destruct (Rltb_spec (ts + te - a0) te) as [A|A], (Rltb_spec ts a0) as [B|B]; try lra;
        [|reflexivity].
      cbn [rev app]. f_equal. f_equal; ring.
Qed.

(* ------------------------------------------------------------------ *)
(* 5. (C) the automatic threshold                                       *)

(* mean square of a pool of lengths *)
Definition msq (p : list R) : R := sumF ROps (map (fun x => x * x) p) / INR (length p).

Lemma default_thresh_sq_msq (t0 : trainR) r :
  default_thresh_sq ROps (t0 :: r) = msq (Lem_Mrts.pool_of t0 (t0 :: r)).
Proof. apply (proj1 (Lem_Mrts.default_thresh_sq_spec t0 r)). Qed.

Lemma flat_map_map' {A B C} (g : A -> B) (f : B -> list C) l :
  flat_map f (map g l) = flat_map (fun x => f (g x)) l.
Proof. induction l as [|a l IH]; [reflexivity|]. cbn [map flat_map]. rewrite IH. reflexivity. Qed.

Lemma flat_map_ext_In {A B} (f g : A -> list B) l :
  (forall x, In x l -> f x = g x) -> flat_map f l = flat_map g l.
Proof.
  induction l as [|a l IH]; intros H; [reflexivity|]. cbn [flat_map].
  rewrite (H a (or_introl eq_refl)), IH by (intros x Hx; apply H; right; exact Hx). reflexivity.
Qed.

Lemma flat_map_map_out {A B C} (h : B -> C) (f : A -> list B) l :
  flat_map (fun x => map h (f x)) l = map h (flat_map f l).
Proof.
  induction l as [|a l IH]; [reflexivity|]. cbn [flat_map]. rewrite map_app, IH. reflexivity.
Qed.

Lemma msq_scale k p : msq (map (Rmult k) p) = k * k * msq p.
Proof.
  unfold msq. rewrite map_length, map_map.
  assert (E : sumF ROps (map (fun x => k * x * (k * x)) p)
              = k * k * sumF ROps (map (fun x => x * x) p)).
  { induction p as [|a p IH]; cbn [map]; [rewrite Lem_Order.sumF_nil; ring|].
    rewrite !Lem_Order.sumF_cons, IH. ring. }
  rewrite E. unfold Rdiv. ring.
Qed.

(* pooling the reversed lists gives the same mean square *)
Lemma msq_flat_rev {A} (f : A -> list R) l :
  msq (flat_map (fun x => rev (f x)) l) = msq (flat_map f l).
Proof.
  unfold msq. f_equal.
  - induction l as [|a l IH]; [reflexivity|]. cbn [flat_map].
    rewrite !map_app, !Lem_Order.sumF_app, IH, map_rev, Lem_Order.sumF_rev. reflexivity.
  - f_equal. induction l as [|a l IH]; [reflexivity|]. cbn [flat_map].
    rewrite !app_length, IH, rev_length. reflexivity.
Qed.

(* shift: every list of trains *)
Theorem default_thresh_sq_shift_gen : forall c (l : list trainR),
  default_thresh_sq ROps (map (shift_train c) l) = default_thresh_sq ROps l.
Proof.
  intros c [|t0 r]; [reflexivity|].
  change (map (shift_train c) (t0 :: r)) with (shift_train c t0 :: map (shift_train c) r).
  rewrite !default_thresh_sq_msq. f_equal. unfold Lem_Mrts.pool_of.
  change (shift_train c t0 :: map (shift_train c) r) with (map (shift_train c) (t0 :: r)).
  rewrite flat_map_map'. apply flat_map_ext_In. intros t _.
  change (tr_spikes (shift_train c t)) with (map (sh c) (tr_spikes t)).
  change (tr_start (shift_train c t0)) with (tr_start t0 + c).
  change (tr_end (shift_train c t0)) with (tr_end t0 + c).
  apply isi_lengths_shift.
Qed.

(* positive scaling: every list of trains; the squared threshold scales with k^2 *)
Theorem default_thresh_sq_scale_gen : forall k (l : list trainR), 0 < k ->
  default_thresh_sq ROps (map (scale_train k) l) = k * k * default_thresh_sq ROps l.
Proof.
  intros k [|t0 r] Hk; [cbn [map default_thresh_sq n0 ROps]; ring|].
  change (map (scale_train k) (t0 :: r)) with (scale_train k t0 :: map (scale_train k) r).
  rewrite !default_thresh_sq_msq, <- msq_scale. f_equal. unfold Lem_Mrts.pool_of.
  change (scale_train k t0 :: map (scale_train k) r) with (map (scale_train k) (t0 :: r)).
  rewrite flat_map_map', <- flat_map_map_out. apply flat_map_ext_In. intros t _.
  change (tr_spikes (scale_train k t)) with (map (sc k) (tr_spikes t)).
  change (tr_start (scale_train k t0)) with (k * tr_start t0).
  change (tr_end (scale_train k t0)) with (k * tr_end t0).
  apply isi_lengths_scale. exact Hk.
Qed.

(* time reversal: the trains share the recording [ts, te] *)
Theorem default_thresh_sq_mirror : forall (l : list trainR) ts te, Forall (vtrain ts te) l ->
  default_thresh_sq ROps (map mirror_tr l) = default_thresh_sq ROps l.
Proof.
  intros [|t0 r] ts te HF; [reflexivity|].
  change (map mirror_tr (t0 :: r)) with (mirror_tr t0 :: map mirror_tr r).
  rewrite !default_thresh_sq_msq. unfold Lem_Mrts.pool_of.
  change (mirror_tr t0 :: map mirror_tr r) with (map mirror_tr (t0 :: r)).
  rewrite flat_map_map'.
  pose proof (Forall_In_v ts te _ t0 HF (or_introl eq_refl)) as (_ & Hs & He).
  change (tr_start (mirror_tr t0)) with (tr_start t0).
  change (tr_end (mirror_tr t0)) with (tr_end t0). rewrite Hs, He.
  rewrite <- msq_flat_rev. f_equal. apply flat_map_ext_In. intros t Ht.
  rewrite (spikes_mirror ts te t (Forall_In_v ts te _ t HF Ht)).
  rewrite isi_lengths_mirror. apply rev_involutive.
Qed.

(* the requested shapes *)
Theorem default_thresh_sq_shift : forall c (l : list trainR) ts te, Forall (vtrain ts te) l ->
  default_thresh_sq ROps (map (shift_train c) l) = default_thresh_sq ROps l.
Proof. intros c l ts te _. apply default_thresh_sq_shift_gen. Qed.

Theorem default_thresh_sq_scale : forall k (l : list trainR) ts te, 0 < k -> Forall (vtrain ts te) l ->
  default_thresh_sq ROps (map (scale_train k) l) = k * k * default_thresh_sq ROps l.
Proof. intros k l ts te Hk _. apply default_thresh_sq_scale_gen. exact Hk. Qed.

(* the automatic threshold itself (the caller takes the square root): it scales with k *)
Corollary default_thresh_scale : forall k (l : list trainR), 0 < k ->
  sqrt (default_thresh_sq ROps (map (scale_train k) l)) = k * sqrt (default_thresh_sq ROps l).
Proof.
  intros k l Hk. rewrite (default_thresh_sq_scale_gen k l Hk).
  assert (N : 0 <= default_thresh_sq ROps l).
  { destruct l as [|t0 r]; [cbn [default_thresh_sq n0 ROps]; lra|].
    apply (proj2 (Lem_Mrts.default_thresh_sq_spec t0 r)). }
  rewrite sqrt_mult by nra. rewrite sqrt_square by lra. reflexivity.
Qed.

(* ------------------------------------------------------------------ *)
(* 6. (B1-B4) for all trains, written out with [nth]                     *)

Definition dist_matrix_nth (n : nat) (diag : R) (M : list (list R)) : Prop :=
  length M = n /\
  (forall i, (i < n)%nat -> length (nth i M []) = n) /\
  (forall i j, (i < n)%nat -> (j < n)%nat -> nth j (nth i M []) 0 = nth i (nth j M []) 0) /\
  (forall i, (i < n)%nat -> nth i (nth i M []) 0 = diag) /\
  (forall i j, (i < n)%nat -> (j < n)%nat -> 0 <= nth j (nth i M []) 0 <= 1).

Lemma dist_matrix_unfold n diag M : dist_matrix n diag M -> dist_matrix_nth n diag M.
Proof.
  intros (SQ & HS & HD & HR). split; [apply SQ|].
  split; [intros i Hi; apply (square_row n M i SQ Hi)|].
  split; [exact HS|]. split; [exact HD | exact HR].
Qed.

Theorem isi_matrix_all : forall eps cy m iv l ts te,
  Forall (vtrain ts te) l -> iv_ok ts te iv ->
  exists M, isi_distance_matrix ROps eps cy false m iv l None = Ok M /\
    dist_matrix_nth (length l) 0 M /\
    (forall i j, (i < j)%nat -> (j < length l)%nat ->
       isi_distance_bi ROps eps cy false m iv (nth_train ROps l i) (nth_train ROps l j)
       = Ok (nth j (nth i M []) 0)).
Proof.
  intros eps cy m iv l ts te HF Hiv.
  destruct (isi_matrix_props eps cy m iv l None ts te HF Hiv I) as (M & E & D & P).
  rewrite msize_none in D, P. exists M. split; [exact E|].
  split; [apply dist_matrix_unfold; exact D|].
  intros i j Hij Hj. rewrite <- (sel_none l i), <- (sel_none l j) by lia. apply P; assumption.
Qed.

Theorem spike_matrix_all : forall eps cy m ri iv l ts te,
  Forall (vtrain ts te) l -> iv_ok ts te iv -> 0 <= m ->
  exists M, spike_distance_matrix ROps eps cy false m ri iv l None = Ok M /\
    dist_matrix_nth (length l) 0 M /\
    (forall i j, (i < j)%nat -> (j < length l)%nat ->
       spike_distance_bi ROps eps cy false m ri iv (nth_train ROps l i) (nth_train ROps l j)
       = Ok (nth j (nth i M []) 0)).
Proof.
  intros eps cy m ri iv l ts te HF Hiv Hm.
  destruct (spike_matrix_props eps cy m ri iv l None ts te HF Hiv Hm I) as (M & E & D & P).
  rewrite msize_none in D, P. exists M. split; [exact E|].
  split; [apply dist_matrix_unfold; exact D|].
  intros i j Hij Hj. rewrite <- (sel_none l i), <- (sel_none l j) by lia. apply P; assumption.
Qed.

Theorem sync_matrix_all : forall eps cy mt m iv l ts te,
  Forall (vtrain ts te) l -> iv_ok ts te iv ->
  exists M, spike_sync_matrix ROps eps cy false mt m iv l None = Ok M /\
    dist_matrix_nth (length l) 1 M /\
    (forall i j, (i < j)%nat -> (j < length l)%nat ->
       spike_sync_bi ROps eps cy false mt m iv (nth_train ROps l i) (nth_train ROps l j)
       = Ok (nth j (nth i M []) 0)).
Proof.
  intros eps cy mt m iv l ts te HF Hiv.
  destruct (sync_matrix_props eps cy mt m iv l None ts te HF Hiv I) as (M & E & D & P).
  rewrite msize_none in D, P. exists M. split; [exact E|].
  split; [apply dist_matrix_unfold; exact D|].
  intros i j Hij Hj. rewrite <- (sel_none l i), <- (sel_none l j) by lia. apply P; assumption.
Qed.

(* an inadmissible selection is rejected (the hypothesis [idx_ok] is needed for B1) *)
Theorem matrix_gen_bad_index : forall eps bi diag sym (l : list trainR) ix,
  check_indices (length l) ix = false ->
  matrix_gen ROps eps bi diag sym false l (Some ix) = Err AssertionError.
Proof.
  intros eps bi diag sym l ix H. rewrite matrix_gen_collect.
  unfold ixs. cbn [indices_or_all]. rewrite H. reflexivity.
Qed.

(* ------------------------------------------------------------------ *)
(* 7. (D) non-vacuity: the three valid trains of Lem_API4 on [0, 10]     *)

Example ex_matrix_hypotheses :
  Forall (vtrain 0 10) ex_l /\ iv_ok 0 10 (Some (1, 9)) /\ iv_ok 0 10 None /\ 0 <= 1 / 2 /\ 0 < 3 /\
  idx_ok (length ex_l) None /\ idx_ok (length ex_l) (Some [2; 0]%nat).
Proof.
  destruct ex_l_hypotheses as (HF & Hiv & _).
  split; [exact HF|]. split; [exact Hiv|]. split; [exact I|]. split; [lra|]. split; [lra|].
  split; [exact I | reflexivity].
Qed.

Example ex_matrix_instances :
  (exists M, isi_distance_matrix ROps (1 / 1000000) true false 0 (Some (1, 9)) ex_l None = Ok M /\
             dist_matrix_nth 3 0 M) /\
  (exists M, spike_distance_matrix ROps (1 / 1000000) false false (1 / 2) false (Some (1, 9)) ex_l
                                   (Some [2; 0]%nat) = Ok M /\ dist_matrix 2 0 M) /\
  (exists M, spike_sync_matrix ROps (1 / 1000000) true false 0 0 None ex_l None = Ok M /\
             dist_matrix_nth 3 1 M) /\
  isi_distance_matrix ROps (1 / 1000000) false false 0 (shift_iv 3 (Some (1, 9)))
                      (map (shift_train 3) ex_l) None
    = isi_distance_matrix ROps (1 / 1000000) false false 0 (Some (1, 9)) ex_l None /\
  spike_sync_matrix ROps (1 / 1000000) true false (3 * 0) (3 * 0) (scale_iv 3 (Some (1, 9)))
                    (map (scale_train 3) ex_l) (Some [2; 0]%nat)
    = spike_sync_matrix ROps (1 / 1000000) true false 0 0 (Some (1, 9)) ex_l (Some [2; 0]%nat) /\
  default_thresh_sq ROps (map (shift_train 3) ex_l) = default_thresh_sq ROps ex_l /\
  default_thresh_sq ROps (map (scale_train 3) ex_l) = 3 * 3 * default_thresh_sq ROps ex_l /\
  default_thresh_sq ROps (map mirror_tr ex_l) = default_thresh_sq ROps ex_l.
Proof.
  destruct ex_matrix_hypotheses as (HF & Hiv & HivN & Hm & H3 & HixN & Hix).
  split.
  { destruct (isi_matrix_all (1 / 1000000) true 0 (Some (1, 9)) ex_l 0 10 HF Hiv) as (M & E & D & _).
    exists M. split; [exact E | exact D]. }
  split.
  { destruct (spike_matrix_props (1 / 1000000) false (1 / 2) false (Some (1, 9)) ex_l (Some [2; 0]%nat)
                                 0 10 HF Hiv Hm Hix) as (M & E & D & _).
    exists M. split; [exact E | exact D]. }
  split.
  { destruct (sync_matrix_all (1 / 1000000) true 0 0 None ex_l 0 10 HF HivN) as (M & E & D & _).
    exists M. split; [exact E | exact D]. }
  split; [apply (isi_matrix_shift _ _ _ _ 3 ex_l None 0 10 HF Hiv)|].
  split; [apply (sync_matrix_scale _ _ _ _ _ 3 ex_l (Some [2; 0]%nat) 0 10 H3 HF Hiv)|].
  split; [apply (default_thresh_sq_shift 3 ex_l 0 10 HF)|].
  split; [apply (default_thresh_sq_scale 3 ex_l 0 10 H3 HF)|].
  apply (default_thresh_sq_mirror ex_l 0 10 HF).
Qed.

(* the same trains on the Q instance: the values are not trivial; the last two lines show
   that the common recording is needed for the mirror statement of the threshold (each
   train is reversed about its own edges, the pool uses the first train's edges) *)
From Coq Require Import QArith.
Local Close Scope Q_scope.
Local Open Scope R_scope.

Definition qx_mred (r : res (list (list Q))) : res (list (list Q)) := rmap (map (map Qred)) r.
Definition qx_l2 : list (list Q * Q * Q) := [([1], 0, 10); ([1], 0, 4)]%Q.

Example ex_matrix_Q :
  qx_mred (isi_distance_matrix QOps qx_eps true false 0%Q (Some (1, 9)%Q) qx_l None)
    = Ok [[0; 1 # 10; 29 # 160]; [1 # 10; 0; 1 # 5]; [29 # 160; 1 # 5; 0]]%Q /\
  qx_mred (isi_distance_matrix QOps qx_eps false false 0%Q (Some (1 + 3, 9 + 3)%Q)
                               (map (qx_shift 3) qx_l) None)
    = Ok [[0; 1 # 10; 29 # 160]; [1 # 10; 0; 1 # 5]; [29 # 160; 1 # 5; 0]]%Q /\
  qx_mred (spike_distance_matrix QOps qx_eps false false (1 # 2)%Q false (Some (1, 9)%Q) qx_l
                                 (Some [2; 0]%nat))
    = Ok [[0; 3418 # 11025]; [3418 # 11025; 0]]%Q /\
  qx_mred (spike_distance_matrix QOps qx_eps false false (3 * (1 # 2))%Q false (Some (3 * 1, 3 * 9)%Q)
                                 (map (qx_scale 3) qx_l) (Some [2; 0]%nat))
    = Ok [[0; 3418 # 11025]; [3418 # 11025; 0]]%Q /\
  qx_mred (spike_sync_matrix QOps qx_eps true false 0%Q 0%Q None qx_l None)
    = Ok [[1; 1 # 2; 0]; [1 # 2; 1; 2 # 5]; [0; 2 # 5; 1]]%Q /\
  qx_mred (spike_sync_matrix QOps qx_eps true false 0%Q 0%Q None (map qx_mirror qx_l) None)
    = Ok [[1; 1 # 2; 0]; [1 # 2; 1; 2 # 5]; [0; 2 # 5; 1]]%Q /\
  spike_sync_matrix QOps qx_eps true false 0%Q 0%Q None qx_l (Some [2; 3]%nat) = Err AssertionError /\
  Qred (default_thresh_sq QOps qx_l) = (96 # 5)%Q /\
  Qred (default_thresh_sq QOps (map (qx_shift 3) qx_l)) = (96 # 5)%Q /\
  Qred (default_thresh_sq QOps (map (qx_scale 3) qx_l)) = (864 # 5)%Q /\
  Qred (default_thresh_sq QOps (map qx_mirror qx_l)) = (96 # 5)%Q /\
  Qred (default_thresh_sq QOps qx_l2) = 41%Q /\
  Qred (default_thresh_sq QOps (map qx_mirror qx_l2)) = 35%Q.
Proof. vm_compute. repeat split. Qed.

(* ------------------------------------------------------------------ *)
Print Assumptions matrix_gen_table.
Print Assumptions matrix_gen_all.
Print Assumptions matrix_gen_all_ok.
Print Assumptions matrix_gen_map.
Print Assumptions matrix_gen_bad_index.
Print Assumptions isi_matrix_props.
Print Assumptions spike_matrix_props.
Print Assumptions sync_matrix_props.
Print Assumptions isi_matrix_all.
Print Assumptions spike_matrix_all.
Print Assumptions sync_matrix_all.
Print Assumptions isi_matrix_shift.
Print Assumptions spike_matrix_shift.
Print Assumptions sync_matrix_shift.
Print Assumptions isi_matrix_scale.
Print Assumptions spike_matrix_scale.
Print Assumptions sync_matrix_scale.
Print Assumptions isi_matrix_mirror.
Print Assumptions spike_matrix_mirror.
Print Assumptions sync_matrix_mirror.
Print Assumptions isi_lengths_affine.
Print Assumptions isi_lengths_mirror.
Print Assumptions default_thresh_sq_shift_gen.
Print Assumptions default_thresh_sq_scale_gen.
Print Assumptions default_thresh_sq_shift.
Print Assumptions default_thresh_sq_scale.
Print Assumptions default_thresh_scale.
Print Assumptions default_thresh_sq_mirror.
Print Assumptions ex_matrix_instances.
Print Assumptions ex_matrix_Q.
