(* Lem_MultiAPI2.v — properties C06 / C05 / C04 / C17, multivariate part, for the
   SPIKE distance, SPIKE-Sync, the directionality values and the filter:
   the multivariate SPIKE profile has the pointwise mean of the pair profiles as
   one-sided limits, the multivariate scalars are the averages of the
   multivariate profiles, the directionality values are means of the pairwise
   values, and the filter's count is the value of the multivariate SPIKE-Sync
   profile at the spike. *)

From Coq Require Import List Bool Arith ZArith Reals Lra Lia Sorted Permutation.
Import ListNotations.
From PS Require Import Num RLemmas Valid ModelKernels ModelFuncs ModelAPI Spec SyncDefs.
From PS Require Import Lem_Pwc Lem_Multi.
From PS Require Lem_Df Lem_Sync Lem_Tau Lem_Pwl Lem_History Lem_WF Lem_API Lem_MultiAPI Lem_Spike
                Lem_OrderSpec Lem_Lists.
Local Open Scope R_scope.

Local Notation trainR := (@train R).

(* ------------------------------------------------------------------ *)
(* 0. the train predicate                                               *)

Definition wtrain (ts te : R) (t : trainR) : Prop :=
  valid ts te (tr_spikes t) /\ tr_start t = ts /\ tr_end t = te.

Lemma wtrain_vtrain ts te t : wtrain ts te t <-> Lem_API.vtrain ts te t.
Proof. unfold wtrain, Lem_API.vtrain. tauto. Qed.
Lemma wtrain_mtrain ts te t : wtrain ts te t <-> Lem_MultiAPI.mtrain ts te t.
Proof. unfold wtrain, Lem_MultiAPI.mtrain. tauto. Qed.

Lemma wF_v ts te (l : list trainR) : Forall (wtrain ts te) l -> Forall (Lem_API.vtrain ts te) l.
Proof. intros H. exact H. Qed.
Lemma wF_m ts te (l : list trainR) : Forall (wtrain ts te) l -> Forall (Lem_MultiAPI.mtrain ts te) l.
Proof. intros H. exact H. Qed.

Lemma wtrain_pair ts te (l : list trainR) p : Forall (wtrain ts te) l ->
  In p (pairs_of (seq 0 (length l))) ->
  wtrain ts te (nth_train ROps l (fst p)) /\ wtrain ts te (nth_train ROps l (snd p)).
Proof. intros HF Hp. exact (Lem_MultiAPI.nth_train_in ts te l p HF Hp). Qed.

Lemma wtrain_lt ts te (l : list trainR) : (2 <= length l)%nat -> Forall (wtrain ts te) l -> ts < te.
Proof.
  intros H2 HF. destruct l as [|a l]; [cbn in H2; lia|]. inversion HF as [|? ? ((H & _) & _) _]. exact H.
Qed.

Lemma pairs_ne (l : list trainR) : (2 <= length l)%nat -> pairs_of (seq 0 (length l)) <> [].
Proof.
  intros H2 E. pose proof (pairs_of_seq_pos (length l) H2) as Hpos. rewrite E in Hpos. cbn in Hpos. lia.
Qed.

Lemma sumF_nil : sumF ROps [] = 0.
Proof. reflexivity. Qed.
Lemma sumF_one a : sumF ROps [a] = a.
Proof. unfold sumF; cbn [fold_right nadd n0 ROps]. lra. Qed.

(* ------------------------------------------------------------------ *)
(* 1. piecewise linear profiles on [ts, te]: limits and integrals       *)

Definition rv (f : list R * list R * list R) (t : R) : R :=
  optval (pwl_right ROps (fst (fst f)) (snd (fst f)) (snd f) t).
Definition lv (f : list R * list R * list R) (t : R) : R :=
  optval (pwl_left ROps (fst (fst f)) (snd (fst f)) (snd f) t).
Definition ov (f : list R * list R * list R) (a b : R) : R :=
  pwl_overlap ROps (fst (fst f)) (snd (fst f)) (snd f) a b.

Lemma good_right ts te f t : Lem_WF.good_pwl ts te f -> ts <= t < te ->
  pwl_right ROps (fst (fst f)) (snd (fst f)) (snd f) t = Some (rv f t).
Proof.
  destruct f as [[xs y1] y2]. intros (W & F0 & FL) Ht. cbn [fst snd] in *.
  destruct (Lem_History.pwl_right_some xs y1 y2 t W) as (v & E); [rewrite F0, FL; exact Ht|].
  unfold rv. cbn [fst snd]. rewrite E. reflexivity.
Qed.

Lemma good_left ts te f t : Lem_WF.good_pwl ts te f -> ts < t <= te ->
  pwl_left ROps (fst (fst f)) (snd (fst f)) (snd f) t = Some (lv f t).
Proof.
  destruct f as [[xs y1] y2]. intros (W & F0 & FL) Ht. cbn [fst snd] in *.
  destruct (Lem_History.pwl_left_some xs y1 y2 t W) as (v & E); [rewrite F0, FL; exact Ht|].
  unfold lv. cbn [fst snd]. rewrite E. reflexivity.
Qed.

(* one addition of the model: limits, integrals and breakpoints add up *)
Lemma pwl_add_sum ts te f g : Lem_WF.good_pwl ts te f -> Lem_WF.good_pwl ts te g ->
  exists h, pwl_add ROps f g = Ok h /\ Lem_WF.good_pwl ts te h /\
    (forall t, ts <= t < te -> rv h t = rv f t + rv g t) /\
    (forall t, ts < t <= te -> lv h t = lv f t + lv g t) /\
    (forall a b, ts <= a -> a <= b -> b <= te -> ov h a b = ov f a b + ov g a b) /\
    (forall x, In x (fst (fst h)) <-> In x (fst (fst f)) \/ In x (fst (fst g))).
Proof.
  intros Gf Gg. pose proof Gf as (Wf & F0 & FL). pose proof Gg as (Wg & G0 & GL).
  exists (pwl_add_spec ROps f g).
  destruct (Lem_History.pwl_add_spec_limits f g ts te Wf Wg F0 FL G0 GL) as (HB & H0 & HL & HR & HLf).
  split; [apply Lem_Pwl.pwl_add_eq_spec; auto; congruence|].
  split; [split; [apply Lem_Pwl.pwl_add_wf; auto; congruence|split; assumption]|].
  split; [|split; [|split]].
  - intros t Ht. unfold rv at 1.
    rewrite (HR t _ _ Ht (good_right ts te f t Gf Ht) (good_right ts te g t Gg Ht)). reflexivity.
  - intros t Ht. unfold lv at 1.
    rewrite (HLf t _ _ Ht (good_left ts te f t Gf Ht) (good_left ts te g t Gg Ht)). reflexivity.
  - intros a b Ha Hab Hb. unfold ov.
    apply (Lem_MultiAPI.pwl_overlap_add f g a b Wf Wg); try congruence; rewrite ?F0, ?FL; assumption.
  - intros x. rewrite HB, Lem_Pwc.sort_unique_In, in_app_iff. tauto.
Qed.

Section PwlDC.
  Variables ts te : R.
  Variable prof : nat * nat -> list R * list R * list R.

  (* the divide-and-conquer tree, by direct induction (no associativity needed) *)
  Lemma dc_pwl_sum : forall fuel ps,
    (forall p, In p ps -> Lem_WF.good_pwl ts te (prof p)) -> ps <> [] -> (length ps < fuel)%nat ->
    exists r, dc (pwl_add ROps) (fun p => Ok (prof p)) fuel ps = Ok r /\ Lem_WF.good_pwl ts te r /\
      (forall t, ts <= t < te -> rv r t = sumF ROps (map (fun p => rv (prof p) t) ps)) /\
      (forall t, ts < t <= te -> lv r t = sumF ROps (map (fun p => lv (prof p) t) ps)) /\
      (forall a b, ts <= a -> a <= b -> b <= te ->
         ov r a b = sumF ROps (map (fun p => ov (prof p) a b) ps)) /\
      (forall x, In x (fst (fst r)) <-> exists p, In p ps /\ In x (fst (fst (prof p)))).
  Proof.
    induction fuel as [|k IH]; intros ps Hg Hne Hlen; [lia|].
    destruct ps as [|p [|q r]]; [congruence| |].
    - exists (prof p). split; [reflexivity|]. split; [apply Hg; left; reflexivity|].
      split; [|split; [|split; [|]]].
      + intros t _. cbn [map]. rewrite sumF_one. reflexivity.
      + intros t _. cbn [map]. rewrite sumF_one. reflexivity.
      + intros a b _ _ _. cbn [map]. rewrite sumF_one. reflexivity.
      + intros x. split.
        * intros Hx. exists p. split; [left; reflexivity|exact Hx].
        * intros (p' & [<-|[]] & Hx). exact Hx.
    - set (ps := p :: q :: r) in *.
      assert (Hdc : dc (pwl_add ROps) (fun p => Ok (prof p)) (S k) ps =
                    rbind (dc (pwl_add ROps) (fun p => Ok (prof p)) k (firstn (Nat.div2 (length ps)) ps))
                      (fun d1 =>
                    rbind (dc (pwl_add ROps) (fun p => Ok (prof p)) k (skipn (Nat.div2 (length ps)) ps))
                      (fun d2 => pwl_add ROps d1 d2)))
        by reflexivity.
      rewrite Hdc. clear Hdc.
      assert (Hl2 : (2 <= length ps)%nat) by (unfold ps; cbn [length]; lia).
      destruct (div2_bounds (length ps) Hl2) as [Hh1 Hh2].
      set (h := Nat.div2 (length ps)) in *.
      assert (Lf : length (firstn h ps) = h) by (apply firstn_length_le; lia).
      assert (Ls : length (skipn h ps) = (length ps - h)%nat) by apply skipn_length.
      assert (Nf : firstn h ps <> []) by (intros E; rewrite E in Lf; change (0 = h)%nat in Lf; lia).
      assert (Ns : skipn h ps <> [])
        by (intros E; rewrite E in Ls; change (0 = length ps - h)%nat in Ls; lia).
      assert (If : forall x, In x (firstn h ps) -> Lem_WF.good_pwl ts te (prof x))
        by (intros x Hx; apply Hg; rewrite <- (firstn_skipn h ps); apply in_or_app; auto).
      assert (Is : forall x, In x (skipn h ps) -> Lem_WF.good_pwl ts te (prof x))
        by (intros x Hx; apply Hg; rewrite <- (firstn_skipn h ps); apply in_or_app; auto).
      destruct (IH _ If Nf) as (r1 & E1 & G1 & R1 & L1 & O1 & B1); [lia|].
      destruct (IH _ Is Ns) as (r2 & E2 & G2 & R2 & L2 & O2 & B2); [lia|].
      rewrite E1, E2. cbn [rbind].
      destruct (pwl_add_sum ts te r1 r2 G1 G2) as (r3 & E3 & G3 & R3 & L3 & O3 & B3).
      exists r3. split; [exact E3|]. split; [exact G3|].
      split; [|split; [|split; [|]]].
      + intros t Ht. rewrite (R3 t Ht), (R1 t Ht), (R2 t Ht).
        rewrite <- sumF_app, <- map_app, firstn_skipn. reflexivity.
      + intros t Ht. rewrite (L3 t Ht), (L1 t Ht), (L2 t Ht).
        rewrite <- sumF_app, <- map_app, firstn_skipn. reflexivity.
      + intros a b Ha Hab Hb. rewrite (O3 a b Ha Hab Hb), (O1 a b Ha Hab Hb), (O2 a b Ha Hab Hb).
        rewrite <- sumF_app, <- map_app, firstn_skipn. reflexivity.
      + intros x. rewrite B3, B1, B2. split.
        * intros [(p' & Hp & Hx)|(p' & Hp & Hx)]; exists p';
            (split; [rewrite <- (firstn_skipn h ps); apply in_or_app; auto|exact Hx]).
        * intros (p' & Hp & Hx). rewrite <- (firstn_skipn h ps) in Hp.
          apply in_app_or in Hp as [Hp|Hp]; [left|right]; eauto.
  Qed.
End PwlDC.

(* ------------------------------------------------------------------ *)
(* 2. the multivariate SPIKE profile                                    *)

Section SpikeMulti.
  Variables (eps : R) (cy : bool) (m : R) (ri : bool) (ts te : R).
  Variable l : list trainR.
  Hypothesis H2 : (2 <= length l)%nat.
  Hypothesis HF : Forall (wtrain ts te) l.

  Definition sprof (p : nat * nat) : list R * list R * list R :=
    spike_profile_bi ROps eps cy false m ri (nth_train ROps l (fst p)) (nth_train ROps l (snd p)).
  Definition spairs : list (nat * nat) := pairs_of (seq 0 (length l)).

  Lemma sprof_good p : In p spairs -> Lem_WF.good_pwl ts te (sprof p).
  Proof.
    intros Hp. destruct (wtrain_pair ts te l p HF Hp) as [Ma Mb].
    apply Lem_WF.spike_profile_bi_wf; [apply Lem_WF.rc_ok_false|exact Ma|exact Mb].
  Qed.

  Lemma spike_multi_struct : exists SP,
    spike_profile_multi ROps eps cy false m ri l None
      = Ok (pwl_mul ROps SP (1 / INR (length spairs))) /\
    Lem_WF.good_pwl ts te SP /\
    (forall t, ts <= t < te -> rv SP t = sumF ROps (map (fun p => rv (sprof p) t) spairs)) /\
    (forall t, ts < t <= te -> lv SP t = sumF ROps (map (fun p => lv (sprof p) t) spairs)) /\
    (forall a b, ts <= a -> a <= b -> b <= te ->
       ov SP a b = sumF ROps (map (fun p => ov (sprof p) a b) spairs)) /\
    (forall x, In x (fst (fst SP)) <-> exists p, In p spairs /\ In x (fst (fst (sprof p)))).
  Proof.
    destruct (dc_pwl_sum ts te sprof (S (length spairs)) spairs)
      as (S0 & ES & GS & RS & LS & OS & BS); auto using sprof_good.
    { apply pairs_ne; exact H2. }
    exists S0. split; [|exact (conj GS (conj RS (conj LS (conj OS BS))))].
    unfold spike_profile_multi, profile_multi_gen. cbn [indices_or_all].
    rewrite check_indices_seq. cbn [negb]. fold spairs.
    change (rmap (fun pn => pwl_mul ROps (fst pn) (ndiv ROps (n1 ROps) (nofnat ROps (snd pn))))
              (rmap (fun p => (p, length spairs))
                 (dc (pwl_add ROps) (fun p => Ok (sprof p)) (S (length spairs)) spairs))
            = Ok (pwl_mul ROps S0 (1 / INR (length spairs)))).
    rewrite ES. cbn [rmap fst snd]. rewrite nofnat_INR. reflexivity.
  Qed.
End SpikeMulti.

Definition pmean (g : nat * nat -> R) (n : nat) : R :=
  sumF ROps (map g (pairs_of (seq 0 n))) * (1 / INR (length (pairs_of (seq 0 n)))).

(* C06 for the SPIKE profile: one-sided limits are the means of the pair limits *)
Theorem spike_multi_profile_limits : forall eps cy m ri l ts te,
  (2 <= length l)%nat -> Forall (wtrain ts te) l ->
  exists P, spike_profile_multi ROps eps cy false m ri l None = Ok P /\ wf_pwl P /\
    nthF ROps (fst (fst P)) 0 = ts /\ lastF ROps (fst (fst P)) = te /\
    (forall t, ts <= t < te ->
       pwl_right ROps (fst (fst P)) (snd (fst P)) (snd P) t =
       Some (sumF ROps
               (map (fun p =>
                       let Q := spike_profile_bi ROps eps cy false m ri
                                  (nth_train ROps l (fst p)) (nth_train ROps l (snd p)) in
                       match pwl_right ROps (fst (fst Q)) (snd (fst Q)) (snd Q) t with
                       | Some v => v | None => 0 end)
                    (pairs_of (seq 0 (length l))))
             * (1 / INR (length (pairs_of (seq 0 (length l))))))) /\
    (forall t, ts < t <= te ->
       pwl_left ROps (fst (fst P)) (snd (fst P)) (snd P) t =
       Some (sumF ROps
               (map (fun p =>
                       let Q := spike_profile_bi ROps eps cy false m ri
                                  (nth_train ROps l (fst p)) (nth_train ROps l (snd p)) in
                       match pwl_left ROps (fst (fst Q)) (snd (fst Q)) (snd Q) t with
                       | Some v => v | None => 0 end)
                    (pairs_of (seq 0 (length l))))
             * (1 / INR (length (pairs_of (seq 0 (length l))))))).
Proof.
  intros eps cy m ri l ts te H2 HF.
  destruct (spike_multi_struct eps cy m ri ts te l H2 HF) as (SP & ES & GS & RS & LS & _ & _).
  set (c := 1 / INR (length (spairs l))) in *.
  exists (pwl_mul ROps SP c). split; [exact ES|].
  destruct (Lem_WF.good_pwl_mul ts te SP c GS) as (WP & P0 & PL).
  split; [exact WP|]. split; [exact P0|]. split; [exact PL|].
  split.
  - intros t Ht. destruct (Lem_Pwl.pwl_mul_pointwise SP c t) as [E _]. cbv zeta in E.
    rewrite E, (good_right ts te SP t GS Ht). cbn [option_map]. rewrite (RS t Ht).
    f_equal. unfold c, spairs. apply Rmult_comm.
  - intros t Ht. destruct (Lem_Pwl.pwl_mul_pointwise SP c t) as [_ E]. cbv zeta in E.
    rewrite E, (good_left ts te SP t GS Ht). cbn [option_map]. rewrite (LS t Ht).
    f_equal. unfold c, spairs. apply Rmult_comm.
Qed.

(* the breakpoints are the strictly increasing union of the pair breakpoints *)
Theorem spike_multi_breakpoints : forall eps cy m ri l ts te,
  (2 <= length l)%nat -> Forall (wtrain ts te) l ->
  exists P, spike_profile_multi ROps eps cy false m ri l None = Ok P /\
    fst (fst P) = sort_unique ROps
                    (concat (map (fun p => fst (fst (spike_profile_bi ROps eps cy false m ri
                                                      (nth_train ROps l (fst p))
                                                      (nth_train ROps l (snd p)))))
                                 (pairs_of (seq 0 (length l))))) /\
    ssorted (fst (fst P)).
Proof.
  intros eps cy m ri l ts te H2 HF.
  destruct (spike_multi_struct eps cy m ri ts te l H2 HF) as (SP & ES & GS & _ & _ & _ & BS).
  exists (pwl_mul ROps SP (1 / INR (length (spairs l)))). split; [exact ES|].
  assert (EB : fst (fst (pwl_mul ROps SP (1 / INR (length (spairs l))))) = fst (fst SP))
    by (destruct SP as [[xs y1] y2]; reflexivity).
  rewrite EB. destruct GS as (((Ss & _) & _) & _ & _).
  split; [|exact Ss]. symmetry. apply sort_unique_char; [exact Ss|].
  intros x. rewrite BS, in_concat. unfold spairs, sprof. split.
  - intros (p & Hp & Hx). eexists. split; [|exact Hx].
    apply in_map_iff. exists p. split; [reflexivity|exact Hp].
  - intros (xs & Hxs & Hx). apply in_map_iff in Hxs as (p & <- & Hp). exists p. auto.
Qed.

(* ------------------------------------------------------------------ *)
(* 3. the multivariate SPIKE distance is the average of the profile     *)

Definition iv_ok (ts te : R) (iv : option (R * R)) : Prop :=
  match iv with None => True | Some (a, b) => ts <= a /\ a < b /\ b <= te end.

Lemma iv_ok_wf ts te iv : iv_ok ts te iv <-> Lem_WF.iv_ok ts te iv.
Proof. destruct iv as [[a b]|]; cbn; tauto. Qed.

(* the bivariate scalar is the average of the bivariate profile on every code path *)
Lemma spike_bi_is_avrg eps cy m ri iv ts te a b : wtrain ts te a -> wtrain ts te b ->
  spike_distance_bi ROps eps cy false m ri iv a b
  = pwl_avrg ROps (spike_profile_bi ROps eps cy false m ri a b) (iv_of iv).
Proof.
  intros Ma Mb. unfold spike_distance_bi, prep2. cbv iota beta.
  destruct iv as [[x y]|]; destruct cy; try reflexivity.
  unfold spike_profile_bi, prep2. cbv iota beta. cbn [iv_of].
  pose proof (@Lem_API.sne_valid ts te a Ma) as Va. pose proof (@Lem_API.sne_nonempty ts te a Ma) as Na.
  pose proof (@Lem_API.sne_valid ts te b Mb) as Vb. pose proof (@Lem_API.sne_nonempty ts te b Mb) as Nb.
  destruct Ma as (_ & -> & ->). apply Lem_Spike.spike_distance_cy_avrg; auto.
Qed.

Theorem spike_multi_distance_is_profile_average : forall eps cy m ri iv l ts te,
  (2 <= length l)%nat -> Forall (wtrain ts te) l -> iv_ok ts te iv ->
  exists P, spike_profile_multi ROps eps cy false m ri l None = Ok P /\
    spike_distance_multi ROps eps cy false m ri iv l None = pwl_avrg ROps P (iv_of iv).
Proof.
  intros eps cy m ri iv l ts te H2 HF Hiv. apply iv_ok_wf in Hiv.
  destruct (spike_multi_struct eps cy m ri ts te l H2 HF) as (SP & ES & GS & _ & _ & OS & _).
  set (c := 1 / INR (length (spairs l))) in *.
  exists (pwl_mul ROps SP c). split; [exact ES|].
  pose proof (Lem_WF.good_pwl_mul ts te SP c GS) as GP.
  pose proof (wtrain_lt ts te l H2 HF) as Hlt.
  assert (B : ts <= Lem_WF.iv_lo ts iv /\ Lem_WF.iv_lo ts iv <= Lem_WF.iv_hi te iv
              /\ Lem_WF.iv_hi te iv <= te).
  { revert Hiv. destruct iv as [[x y]|]; cbn [iv_ok Lem_WF.iv_ok Lem_WF.iv_lo Lem_WF.iv_hi]; lra. }
  destruct B as (B1 & B2 & B3).
  rewrite (Lem_WF.pwl_avrg_ok ts te _ iv GP Hiv).
  pose proof (Lem_MultiAPI.pwl_overlap_mul SP c (Lem_WF.iv_lo ts iv) (Lem_WF.iv_hi te iv)) as EM.
  cbv zeta in EM. rewrite EM. fold (ov SP (Lem_WF.iv_lo ts iv) (Lem_WF.iv_hi te iv)).
  rewrite (OS _ _ B1 B2 B3).
  unfold spike_distance_multi.
  rewrite (Lem_MultiAPI.distance_multi_val eps _
             (fun p => ov (sprof eps cy m ri l p) (Lem_WF.iv_lo ts iv) (Lem_WF.iv_hi te iv)
                       / (Lem_WF.iv_hi te iv - Lem_WF.iv_lo ts iv))).
  - rewrite Lem_MultiAPI.sumF_map_div. f_equal. unfold c, spairs. unfold Rdiv. ring.
  - intros p Hp. destruct (wtrain_pair ts te l p HF Hp) as [Ma Mb].
    rewrite (spike_bi_is_avrg eps cy m ri iv ts te _ _ Ma Mb).
    apply Lem_WF.pwl_avrg_ok; [|exact Hiv].
    apply (sprof_good eps cy m ri ts te l HF p Hp).
Qed.

(* ------------------------------------------------------------------ *)
(* 4. SPIKE-Sync: the multivariate value is the ratio of the event sums
      of the multivariate profile                                       *)

Lemma spec_iv_of (f : list (R * R * R)) iv :
  df_integral_spec ROps f (iv_of iv) = df_integral_spec1 ROps f iv.
Proof. destruct iv as [[a b]|]; reflexivity. Qed.

Section DfInt.
  Variables ts te : R.
  Variable prof : nat * nat -> list (R * R * R).

  Lemma dc_df_int : forall fuel ps,
    (forall p, In p ps -> Lem_MultiAPI.gooddf ts te (prof p)) -> ps <> [] -> (length ps < fuel)%nat ->
    exists r, dc (df_add ROps) (fun p => Ok (prof p)) fuel ps = Ok r /\ Lem_MultiAPI.gooddf ts te r /\
      forall iv, df_integral_spec1 ROps r iv
        = (sumF ROps (map (fun p => fst (df_integral_spec1 ROps (prof p) iv)) ps),
           sumF ROps (map (fun p => snd (df_integral_spec1 ROps (prof p) iv)) ps)).
  Proof.
    induction fuel as [|k IH]; intros ps Hg Hne Hlen; [lia|].
    destruct ps as [|p [|q r]]; [congruence| |].
    - exists (prof p). split; [reflexivity|]. split; [apply Hg; left; reflexivity|].
      intros iv. cbn [map]. rewrite !sumF_one. destruct (df_integral_spec1 ROps (prof p) iv); reflexivity.
    - set (ps := p :: q :: r) in *.
      assert (Hdc : dc (df_add ROps) (fun p => Ok (prof p)) (S k) ps =
                    rbind (dc (df_add ROps) (fun p => Ok (prof p)) k (firstn (Nat.div2 (length ps)) ps))
                      (fun d1 =>
                    rbind (dc (df_add ROps) (fun p => Ok (prof p)) k (skipn (Nat.div2 (length ps)) ps))
                      (fun d2 => df_add ROps d1 d2)))
        by reflexivity.
      rewrite Hdc. clear Hdc.
      assert (Hl2 : (2 <= length ps)%nat) by (unfold ps; cbn [length]; lia).
      destruct (div2_bounds (length ps) Hl2) as [Hh1 Hh2].
      set (h := Nat.div2 (length ps)) in *.
      assert (Lf : length (firstn h ps) = h) by (apply firstn_length_le; lia).
      assert (Ls : length (skipn h ps) = (length ps - h)%nat) by apply skipn_length.
      assert (Nf : firstn h ps <> []) by (intros E; rewrite E in Lf; change (0 = h)%nat in Lf; lia).
      assert (Ns : skipn h ps <> [])
        by (intros E; rewrite E in Ls; change (0 = length ps - h)%nat in Ls; lia).
      assert (If : forall x, In x (firstn h ps) -> Lem_MultiAPI.gooddf ts te (prof x))
        by (intros x Hx; apply Hg; rewrite <- (firstn_skipn h ps); apply in_or_app; auto).
      assert (Is : forall x, In x (skipn h ps) -> Lem_MultiAPI.gooddf ts te (prof x))
        by (intros x Hx; apply Hg; rewrite <- (firstn_skipn h ps); apply in_or_app; auto).
      destruct (IH _ If Nf) as (r1 & E1 & G1 & S1); [lia|].
      destruct (IH _ Is Ns) as (r2 & E2 & G2 & S2); [lia|].
      rewrite E1, E2. cbn [rbind].
      destruct (Lem_MultiAPI.df_add_sum ts te r1 r2 G1 G2) as (r3 & E3 & G3 & _).
      exists r3. split; [exact E3|]. split; [exact G3|].
      intros iv. destruct G1 as (W1 & A1 & B1). destruct G2 as (W2 & A2 & B2).
      rewrite (Lem_Df.df_add_integral r1 r2 r3 iv W1 W2 (eq_trans A1 (eq_sym A2)) (eq_trans B1 (eq_sym B2)) E3).
      rewrite (S1 iv), (S2 iv). cbn [fst snd].
      rewrite <- !sumF_app, <- !map_app, firstn_skipn. reflexivity.
  Qed.
End DfInt.

(* the pooled fold of spike_sync_multi with values known on the pairs only *)
Lemma pair_fold_val (f : nat * nat -> res (R * R)) (val : nat * nat -> R * R) : forall ps a,
  (forall p, In p ps -> f p = Ok (val p)) ->
  fold_left (fun acc p =>
               rbind acc (fun a =>
               rmap (fun d => (nadd ROps (fst a) (fst d), nadd ROps (snd a) (snd d))) (f p)))
            ps (Ok a)
  = Ok (fst a + sumF ROps (map (fun p => fst (val p)) ps),
        snd a + sumF ROps (map (fun p => snd (val p)) ps)).
Proof.
  induction ps as [|p ps IH]; intros [c mm] H; cbn [fold_left map fst snd].
  - rewrite sumF_nil. f_equal; f_equal; lra.
  - cbn [rbind]. rewrite (H p) by (left; reflexivity). cbn [rmap fst snd]. rewrite IH.
    + cbn [fst snd]. rewrite !Lem_MultiAPI.sumF_cons1. cbn [nadd ROps]. f_equal; f_equal; lra.
    + intros q Hq. apply H. right; exact Hq.
Qed.

Theorem sync_multi_value_is_profile_ratio : forall eps cy mt m iv l ts te,
  (2 <= length l)%nat -> Forall (wtrain ts te) l -> iv_ok ts te iv ->
  exists P, spike_sync_profile_multi ROps eps cy false mt m l None = Ok P /\
    spike_sync_multi ROps eps cy false mt m iv l None
    = rmap (fun cm => if Reqb (snd cm) 0 then 1 else fst cm / snd cm)
           (df_integral ROps P (iv_of iv)).
Proof.
  intros eps cy mt m iv l ts te H2 HF Hiv.
  set (prof := fun p : nat * nat =>
                 spike_sync_profile_bi ROps eps cy false mt m
                   (nth_train ROps l (fst p)) (nth_train ROps l (snd p))).
  set (ps := pairs_of (seq 0 (length l))).
  assert (Hg : forall p, In p ps -> Lem_MultiAPI.gooddf ts te (prof p)).
  { intros p Hp. destruct (wtrain_pair ts te l p HF Hp) as [Ma Mb].
    apply Lem_MultiAPI.sync_bi_good; [exact Ma|exact Mb]. }
  destruct (dc_df_int ts te prof (S (length ps)) ps Hg) as (P & EP & GP & SP); auto.
  { apply pairs_ne; exact H2. }
  exists P. split.
  - unfold spike_sync_profile_multi, profile_multi_gen. cbn [indices_or_all].
    rewrite check_indices_seq. cbn [negb].
    change (rmap fst (rmap (fun p => (p, length ps))
                           (dc (df_add ROps) (fun p => Ok (prof p)) (S (length ps)) ps)) = Ok P).
    match goal with |- rmap fst (rmap _ ?d) = _ =>
      assert (EP' : d = Ok P) by exact EP; rewrite EP' end.
    reflexivity.
  - rewrite (Lem_WF.df_integral_ok ts te P iv GP Hiv), spec_iv_of, (SP iv).
    unfold spike_sync_multi. cbn [indices_or_all]. rewrite check_indices_seq. cbn [negb].
    fold ps.
    rewrite (pair_fold_val
               (fun p => spike_sync_values ROps eps cy mt m iv
                           (nth_train ROps l (fst p)) (nth_train ROps l (snd p)))
               (fun p => df_integral_spec1 ROps (prof p) iv)).
    + cbn [rmap fst snd n0 n1 neqb ndiv ROps]. rewrite !Rplus_0_l. reflexivity.
    + intros p Hp. destruct (wtrain_pair ts te l p HF Hp) as [Ma Mb].
      rewrite (@Lem_API.sync_values_are_profile_sums eps cy mt m iv _ _ ts te Ma Mb).
      fold (prof p). rewrite (Lem_WF.df_integral_ok ts te (prof p) iv (Hg p Hp) Hiv).
      rewrite spec_iv_of. reflexivity.
Qed.

(* ------------------------------------------------------------------ *)
(* 5. sums over the pairs that involve a fixed train                    *)

Ltac bsolve :=
  repeat match goal with
         | |- context [(?x <=? ?y)%nat] => destruct (Nat.leb_spec x y)
         | |- context [(?x <? ?y)%nat] => destruct (Nat.ltb_spec x y)
         end; cbn [andb negb]; try lia; try lra.

Lemma ind_sum (h : nat -> R) i : forall n b,
  sumF ROps (map (fun j => if (i =? j)%nat then h j else 0) (seq b n))
  = if ((b <=? i) && (i <? b + n))%nat then h i else 0.
Proof.
  induction n as [|n IH]; intros b.
  - cbn [seq map]. rewrite sumF_nil. bsolve.
  - cbn [seq map]. rewrite Lem_MultiAPI.sumF_cons1, IH.
    destruct (Nat.eqb_spec i b) as [->|N]; bsolve.
Qed.

Lemma sumF_map_zero_in {A} (g : A -> R) ks : (forall x, In x ks -> g x = 0) ->
  sumF ROps (map g ks) = 0.
Proof.
  induction ks as [|k ks IH]; intros H; cbn [map]; [reflexivity|].
  rewrite Lem_MultiAPI.sumF_cons1, IH, (H k); [lra|left; reflexivity|intros; apply H; right; assumption].
Qed.

Definition pval2 (g : nat -> nat -> R) (i : nat) (pq : nat * nat) : R :=
  (if (i =? fst pq)%nat then g (fst pq) (snd pq) else 0)
  + (if (i =? snd pq)%nat then g (snd pq) (fst pq) else 0).

Definition notb (i : nat) (j : nat) : bool := negb (j =? i)%nat.

Lemma pairs_row_sum (g : nat -> nat -> R) i : forall n a,
  sumF ROps (map (pval2 g i) (pairs_of (seq a n)))
  = if ((a <=? i) && (i <? a + n))%nat
    then sumF ROps (map (g i) (filter (notb i) (seq a n))) else 0.
Proof.
  induction n as [|n IH]; intros a.
  - cbn [seq pairs_of map filter]. rewrite sumF_nil. bsolve.
  - cbn [seq pairs_of]. rewrite map_app, sumF_app, IH, map_map.
    unfold pval2 at 1. cbn [fst snd filter]. unfold notb at 2.
    destruct (Nat.compare_spec i a) as [E|L|G].
    + subst i. rewrite Nat.eqb_refl. cbn [negb].
      rewrite (map_ext_in _ (g a)).
      2:{ intros j Hj. apply in_seq in Hj. destruct (Nat.eqb_spec a j); [lia|lra]. }
      rewrite Lem_Df.filter_all_true.
      2:{ apply Forall_forall. intros j Hj. apply in_seq in Hj. unfold notb.
          destruct (Nat.eqb_spec j a); [lia|reflexivity]. }
      bsolve.
    + rewrite sumF_map_zero_in.
      2:{ intros j Hj. apply in_seq in Hj.
          destruct (Nat.eqb_spec i a); [lia|]. destruct (Nat.eqb_spec i j); [lia|lra]. }
      bsolve.
    + rewrite (map_ext _ (fun j => if (i =? j)%nat then g j a else 0)).
      2:{ intros j. destruct (Nat.eqb_spec i a); [lia|]. lra. }
      rewrite (ind_sum (fun j => g j a)).
      destruct (Nat.eqb_spec a i); [lia|]. cbn [negb map]. rewrite Lem_MultiAPI.sumF_cons1.
      bsolve.
Qed.

Lemma pairs_row_sum0 (g : nat -> nat -> R) i n : (i < n)%nat ->
  sumF ROps (map (pval2 g i) (pairs_of (seq 0 n)))
  = sumF ROps (map (g i) (filter (notb i) (seq 0 n))).
Proof. intros Hi. rewrite pairs_row_sum. bsolve. Qed.

(* ------------------------------------------------------------------ *)
(* 6. directionality values (C04)                                       *)

Lemma add_at_length i (d : list R) ls : length (add_at ROps i d ls) = length ls.
Proof. unfold add_at. rewrite map_length, combine_length, seq_length. lia. Qed.

Lemma add_at_nth i (d : list R) ls j : (j < length ls)%nat ->
  nth j (add_at ROps i d ls) []
  = if (j =? i)%nat then map (fun q => fst q + snd q) (combine (nth j ls []) d) else nth j ls [].
Proof.
  intros Hj. unfold add_at.
  set (f := fun p : nat * list R =>
              if (fst p =? i)%nat then map (fun q => nadd ROps (fst q) (snd q)) (combine (snd p) d)
              else snd p).
  rewrite (nth_indep _ [] (f (0%nat, []))) by (rewrite map_length, combine_length, seq_length; lia).
  rewrite map_nth, combine_nth by (rewrite seq_length; reflexivity).
  rewrite seq_nth by exact Hj. unfold f. cbn [fst snd plus nadd ROps]. reflexivity.
Qed.

Section DirFold.
  Variable n : nat.
  Variable len : nat -> nat.
  Variable D : nat -> nat -> list R.
  Hypothesis HD : forall p q, (p < n)%nat -> (q < n)%nat -> length (D p q) = len p.

  Definition rows_ok (acc : list (list R)) : Prop :=
    length acc = n /\ forall i, (i < n)%nat -> length (nth i acc []) = len i.

  Definition dstep (acc : list (list R)) (pq : nat * nat) : list (list R) :=
    add_at ROps (snd pq) (D (snd pq) (fst pq)) (add_at ROps (fst pq) (D (fst pq) (snd pq)) acc).

  Definition dval (i k : nat) : nat * nat -> R := pval2 (fun a b => nth k (D a b) 0) i.

  Lemma add_at_ok acc p q : rows_ok acc -> (p < n)%nat -> (q < n)%nat ->
    rows_ok (add_at ROps p (D p q) acc) /\
    forall i k, (i < n)%nat -> (k < len i)%nat ->
      nth k (nth i (add_at ROps p (D p q) acc) []) 0
      = nth k (nth i acc []) 0 + (if (i =? p)%nat then nth k (D p q) 0 else 0).
  Proof.
    intros [La Lr] Hp Hq. split; [split|].
    - rewrite add_at_length. exact La.
    - intros i Hi. rewrite add_at_nth by lia. destruct (Nat.eqb_spec i p) as [->|N]; [|auto].
      rewrite map_length, combine_length, (Lr p Hp), (HD p q Hp Hq). lia.
    - intros i k Hi Hk. rewrite add_at_nth by lia. destruct (Nat.eqb_spec i p) as [->|N]; [|lra].
      apply (@Lem_API.nth_add_combine (nth p acc []) (D p q) k).
      + rewrite (Lr p Hp). exact Hk.
      + rewrite (HD p q Hp Hq). exact Hk.
  Qed.

  Lemma dstep_ok acc pq : rows_ok acc -> (fst pq < n)%nat -> (snd pq < n)%nat ->
    rows_ok (dstep acc pq) /\
    forall i k, (i < n)%nat -> (k < len i)%nat ->
      nth k (nth i (dstep acc pq) []) 0 = nth k (nth i acc []) 0 + dval i k pq.
  Proof.
    intros Ha Hp Hq. unfold dstep.
    destruct (add_at_ok acc (fst pq) (snd pq) Ha Hp Hq) as [Ha1 V1].
    destruct (add_at_ok _ (snd pq) (fst pq) Ha1 Hq Hp) as [Ha2 V2].
    split; [exact Ha2|]. intros i k Hi Hk. rewrite (V2 i k Hi Hk), (V1 i k Hi Hk).
    unfold dval, pval2. lra.
  Qed.

  Lemma dfold_ok : forall ps acc, (forall pq, In pq ps -> (fst pq < n)%nat /\ (snd pq < n)%nat) ->
    rows_ok acc ->
    rows_ok (fold_left dstep ps acc) /\
    forall i k, (i < n)%nat -> (k < len i)%nat ->
      nth k (nth i (fold_left dstep ps acc) []) 0
      = nth k (nth i acc []) 0 + sumF ROps (map (dval i k) ps).
  Proof.
    induction ps as [|pq ps IH]; intros acc Hps Ha; cbn [fold_left map].
    - split; [exact Ha|]. intros. rewrite sumF_nil. lra.
    - destruct (Hps pq (or_introl eq_refl)) as [Hp Hq].
      destruct (dstep_ok acc pq Ha Hp Hq) as [Ha1 V1].
      destruct (IH (dstep acc pq) (fun x Hx => Hps x (or_intror Hx)) Ha1) as [Ha2 V2].
      split; [exact Ha2|]. intros i k Hi Hk.
      rewrite (V2 i k Hi Hk), (V1 i k Hi Hk), Lem_MultiAPI.sumF_cons1. lra.
  Qed.
End DirFold.

Lemma nth_map_div (row : list R) c k : (k < length row)%nat ->
  nth k (map (fun v => v / c) row) 0 = nth k row 0 / c.
Proof.
  intros H. rewrite (nth_indep _ 0 (0 / c)) by (rewrite map_length; exact H).
  exact (map_nth (fun v => v / c) row 0 k).
Qed.

Lemma dir_spec_swap (s1 s2 : list R) ts te mt m :
  snd (dir_spec ROps s1 s2 ts te mt m) = fst (dir_spec ROps s2 s1 ts te mt m).
Proof. reflexivity. Qed.

Lemma dir_spec_fst_length (s1 s2 : list R) ts te mt m :
  length (fst (dir_spec ROps s1 s2 ts te mt m)) = length s1.
Proof.
  unfold dir_spec. cbv zeta. cbn [fst]. rewrite map_length. unfold contexts.
  apply Lem_API.contexts_from_length.
Qed.

Theorem directionality_values_mean : forall eps cy mt m l ts te,
  (2 <= length l)%nat -> Forall (wtrain ts te) l ->
  exists V, directionality_values ROps eps cy false mt m l None = Ok V /\
    length V = length l /\
    forall i, (i < length l)%nat ->
      length (nth i V []) = length (tr_spikes (nth_train ROps l i)) /\
      forall k, (k < length (tr_spikes (nth_train ROps l i)))%nat ->
        nth k (nth i V []) 0
        = sumF ROps
            (map (fun j => nth k (fst (dir_spec ROps (tr_spikes (nth_train ROps l i))
                                                  (tr_spikes (nth_train ROps l j)) ts te mt m)) 0)
                 (filter (fun j => negb (j =? i)%nat) (seq 0 (length l))))
          / INR (length l - 1).
Proof.
  intros eps cy mt m l ts te H2 HF.
  set (n := length l).
  set (sp := fun i => tr_spikes (nth_train ROps l i)).
  set (D := fun p q => fst (dir_spec ROps (sp p) (sp q) ts te mt m)).
  set (len := fun i => length (sp i)).
  assert (HD : forall p q, (p < n)%nat -> (q < n)%nat -> length (D p q) = len p).
  { intros p q _ _. unfold D, len. apply dir_spec_fst_length. }
  set (init := map (fun p => repeat 0 (len p)) (seq 0 n)).
  assert (Hinit : rows_ok n len init).
  { split; [unfold init; rewrite map_length, seq_length; reflexivity|].
    intros i Hi. unfold init. rewrite (nth_map_seq _ n i [] Hi). apply repeat_length. }
  assert (Hps : forall pq, In pq (pairs_of (seq 0 n)) -> (fst pq < n)%nat /\ (snd pq < n)%nat).
  { intros pq Hpq. apply in_pairs_seq; exact Hpq. }
  destruct (dfold_ok n len D HD (pairs_of (seq 0 n)) init Hps Hinit) as [[La Lr] VA].
  set (acc := fold_left (dstep D) (pairs_of (seq 0 n)) init) in *.
  exists (map (map (fun v => v / INR (n - 1))) acc).
  split; [|split].
  - unfold directionality_values. cbn [indices_or_all]. rewrite check_indices_seq. cbn [negb].
    rewrite seq_length. fold n. rewrite nofnat_INR. cbn [ndiv ROps]. do 2 f_equal.
    unfold acc.
    rewrite (map_ext_in _ (fun p => repeat 0 (len p))).
    2:{ intros p Hp. apply in_seq in Hp. rewrite seq_nth by lia. reflexivity. }
    fold init. apply Lem_Lists.fold_left_ext_in. intros a pq Hpq.
    destruct (Hps pq Hpq) as [Hp Hq]. rewrite !seq_nth by assumption. cbn [plus].
    assert (Ma : wtrain ts te (nth_train ROps l (fst pq))).
    { rewrite Forall_forall in HF. apply HF. unfold nth_train. apply nth_In. exact Hp. }
    assert (Mb : wtrain ts te (nth_train ROps l (snd pq))).
    { rewrite Forall_forall in HF. apply HF. unfold nth_train. apply nth_In. exact Hq. }
    destruct Ma as (Va & Sa & Ea). destruct Mb as (Vb & _ & _).
    rewrite Lem_API.gt_of_eq, Sa, Ea, (Lem_OrderSpec.dir_profile_spec _ _ ts te mt m Va Vb).
    reflexivity.
  - rewrite map_length. exact La.
  - intros i Hi. fold n in Hi. fold (sp i). fold (len i).
    assert (Erow : nth i (map (map (fun v => v / INR (n - 1))) acc) []
                   = map (fun v => v / INR (n - 1)) (nth i acc [])).
    { change (@nil R) with (map (fun v => v / INR (n - 1)) []) at 1. apply map_nth. }
    rewrite Erow. split; [rewrite map_length; apply Lr; exact Hi|].
    intros k Hk.
    rewrite nth_map_div by (rewrite (Lr i Hi); exact Hk). rewrite (VA i k Hi Hk).
    unfold dval. rewrite (pairs_row_sum0 _ i n Hi).
    assert (E0 : nth k (nth i init []) 0 = 0).
    { unfold init. rewrite (nth_map_seq _ n i [] Hi). apply nth_repeat. }
    rewrite E0, Rplus_0_l. reflexivity.
Qed.

(* ------------------------------------------------------------------ *)
(* 7. the filter's count is the value of the multivariate SPIKE-Sync
      profile at the spike (C17)                                        *)

Lemma in_pairs_seq_lt : forall n a p, In p (pairs_of (seq a n)) ->
  (a <= fst p /\ fst p < snd p /\ snd p < a + n)%nat.
Proof.
  induction n as [|n IH]; intros a p; cbn [seq pairs_of]; [intros []|].
  intros H. apply in_app_or in H as [H|H].
  - apply in_map_iff in H as (j & <- & Hj). apply in_seq in Hj. cbn [fst snd]. lia.
  - apply IH in H. lia.
Qed.

Lemma ctx_nth_cur : forall (s : list R) prev k d, (k < length s)%nat ->
  c_cur (nth k (contexts_from prev s) d) = nth k s 0.
Proof.
  induction s as [|x r IH]; intros prev k d Hk; [cbn [length] in Hk; lia|].
  destruct k as [|k]; cbn [contexts_from nth c_cur]; [reflexivity|].
  apply IH. cbn [length] in Hk. lia.
Qed.

Lemma find_ctx_nth : forall (s : list R) prev k d, ssorted s -> (k < length s)%nat ->
  find (fun c => neqb ROps (c_cur c) (nth k s 0)) (contexts_from prev s)
  = Some (nth k (contexts_from prev s) d).
Proof.
  induction s as [|x r IH]; intros prev k d Hs Hk; [cbn [length] in Hk; lia|].
  apply ssorted_cons_inv in Hs as [Hr Hx]. rewrite Forall_forall in Hx.
  destruct k as [|k]; cbn [contexts_from nth find c_cur neqb ROps].
  - rewrite Lem_Pwl.Reqb_t by reflexivity. reflexivity.
  - assert (Hk' : (k < length r)%nat) by (cbn [length] in Hk; lia).
    assert (x < nth k r 0) by (apply Hx, nth_In; exact Hk').
    rewrite Lem_Pwl.Reqb_f by lra. apply IH; assumption.
Qed.

(* event sums of an event list at a time *)
Lemma ev_entries_at (G : R -> R * R * R) (K : list R) x : ssorted K ->
  (forall t, Lem_Df.kx (G t) = t) ->
  sum_at ROps x (map G K) = if in_dec Req_EM_T x K then (Lem_Df.ey (G x), Lem_Df.em (G x)) else (0, 0).
Proof.
  intros HK HG. rewrite Lem_Df.sum_at_Sg.
  assert (EK : map Lem_Df.kx (map G K) = K).
  { rewrite map_map. rewrite <- (map_id K) at 2. apply map_ext. exact HG. }
  destruct (in_dec Req_EM_T x K) as [Hin|Hn].
  - assert (HI : In (G x) (map G K)) by (apply in_map; exact Hin).
    assert (HS : ssorted (map Lem_Df.kx (map G K))) by (rewrite EK; exact HK).
    pose proof (Lem_Df.Sg_self Lem_Df.ey _ (G x) HS HI) as E1.
    pose proof (Lem_Df.Sg_self Lem_Df.em _ (G x) HS HI) as E2.
    rewrite (HG x) in E1, E2. rewrite E1, E2. reflexivity.
  - rewrite !Lem_Df.Sg_notin by (rewrite EK; exact Hn). reflexivity.
Qed.

Lemma ev_at (v1 v2 : @ctx R -> list (@ctx R) -> R) vb (s1 s2 : list R) x :
  sum_at ROps x (event_entries ROps v1 v2 vb s1 s2)
  = if in_dec Req_EM_T x (sort_unique ROps (s1 ++ s2)) then
      match find (fun c => neqb ROps (c_cur c) x) (contexts s1),
            find (fun c => neqb ROps (c_cur c) x) (contexts s2) with
      | Some _, Some _ => (vb, 2)
      | Some c, None => (v1 c (contexts s2), 1)
      | None, Some c => (v2 c (contexts s1), 1)
      | None, None => (0, 1)
      end
    else (0, 0).
Proof.
  unfold event_entries. cbv zeta.
  rewrite ev_entries_at.
  - destruct (in_dec Req_EM_T x (sort_unique ROps (s1 ++ s2))); [|reflexivity].
    destruct (find _ (contexts s1)), (find _ (contexts s2)); reflexivity.
  - apply Lem_Pwc.sort_unique_sorted.
  - intros t. destruct (find _ (contexts s1)), (find _ (contexts s2)); reflexivity.
Qed.

Definition sv (ts te mt m : R) (c : @ctx R) (others : list (@ctx R)) : R :=
  if has_partner ROps (lim_of ROps ts te mt) m c others then 1 else 0.

Lemma ev_at_first ts te mt m vb (s1 s2 : list R) k d : ssorted s1 -> (k < length s1)%nat ->
  ~ In (nth k s1 0) s2 ->
  sum_at ROps (nth k s1 0) (event_entries ROps (sv ts te mt m) (sv ts te mt m) vb s1 s2)
  = (sv ts te mt m (nth k (contexts s1) d) (contexts s2), 1).
Proof.
  intros S1 Hk N2. rewrite ev_at.
  destruct (in_dec Req_EM_T _ _) as [_|Hn].
  - unfold contexts at 1. rewrite (find_ctx_nth s1 None k d S1 Hk).
    unfold contexts at 1. rewrite (Lem_Sync.fs_find_none _ s2 None N2). reflexivity.
  - exfalso. apply Hn. apply Lem_Pwc.sort_unique_In, in_or_app. left. apply nth_In. exact Hk.
Qed.

Lemma ev_at_second ts te mt m vb (s1 s2 : list R) k d : ssorted s2 -> (k < length s2)%nat ->
  ~ In (nth k s2 0) s1 ->
  sum_at ROps (nth k s2 0) (event_entries ROps (sv ts te mt m) (sv ts te mt m) vb s1 s2)
  = (sv ts te mt m (nth k (contexts s2) d) (contexts s1), 1).
Proof.
  intros S2 Hk N1. rewrite ev_at.
  destruct (in_dec Req_EM_T _ _) as [_|Hn].
  - unfold contexts at 1. rewrite (Lem_Sync.fs_find_none _ s1 None N1).
    unfold contexts at 1. rewrite (find_ctx_nth s2 None k d S2 Hk). reflexivity.
  - exfalso. apply Hn. apply Lem_Pwc.sort_unique_In, in_or_app. right. apply nth_In. exact Hk.
Qed.

Lemma ev_at_none v1 v2 vb (s1 s2 : list R) x : ~ In x s1 -> ~ In x s2 ->
  sum_at ROps x (event_entries ROps v1 v2 vb s1 s2) = (0, 0).
Proof.
  intros N1 N2. rewrite ev_at. destruct (in_dec Req_EM_T _ _) as [Hin|_]; [|reflexivity].
  exfalso. apply (proj1 (Lem_Pwc.sort_unique_In _ _)) in Hin. apply in_app_or in Hin as [H|H]; auto.
Qed.

Lemma sync_spec_interior (s1 s2 : list R) ts te mt m :
  interior_entries (sync_spec ROps s1 s2 ts te mt m)
  = event_entries ROps (sv ts te mt m) (sv ts te mt m) (n2 ROps) s1 s2.
Proof.
  change (sync_spec ROps s1 s2 ts te mt m)
    with (framed ROps ts te (event_entries ROps (sv ts te mt m) (sv ts te mt m) (n2 ROps) s1 s2)).
  destruct (Lem_MultiAPI.framed_shape ts te
              (event_entries ROps (sv ts te mt m) (sv ts te mt m) (n2 ROps) s1 s2))
    as (f0 & fl & E & _ & _).
  rewrite E. apply Lem_Df.interior_shape.
Qed.

(* the per-spike indicator of single_spec at a spike that is not shared *)
Lemma single_spec_nth ts te mt m (s1 s2 : list R) k d : (k < length s1)%nat ->
  ~ In (nth k s1 0) s2 ->
  nth k (single_spec ROps s1 s2 ts te mt m) 0 = sv ts te mt m (nth k (contexts s1) d) (contexts s2).
Proof.
  intros Hk N2. unfold single_spec. cbv zeta.
  set (f := fun c : @ctx R =>
              if has_partner ROps (lim_of ROps ts te mt) m c (contexts s2) || is_shared ROps c (contexts s2)
              then n1 ROps else n0 ROps).
  assert (Lc : length (contexts s1) = length s1) by apply Lem_API.contexts_from_length.
  rewrite (nth_indep _ 0 (f d)) by (rewrite map_length, Lc; exact Hk).
  rewrite map_nth. unfold f, sv.
  rewrite Lem_Sync.fs_is_shared_false.
  - rewrite orb_false_r. reflexivity.
  - unfold contexts. rewrite (ctx_nth_cur s1 None k d Hk). exact N2.
Qed.

(* index lists *)
Lemma map_nth_firstn {A} (d : A) : forall (l : list A) i, (i <= length l)%nat ->
  map (fun j => nth j l d) (seq 0 i) = firstn i l.
Proof.
  induction l as [|x r IH]; intros i Hi.
  - cbn [length] in Hi. replace i with 0%nat by lia. reflexivity.
  - destruct i as [|i]; [reflexivity|]. cbn [seq map nth firstn]. f_equal.
    rewrite <- seq_shift, map_map. apply IH. cbn [length] in Hi. lia.
Qed.

Lemma map_nth_skipn {A} (d : A) : forall (l : list A) a,
  map (fun j => nth j l d) (seq a (length l - a)) = skipn a l.
Proof.
  induction l as [|x r IH]; intros a.
  - destruct a; reflexivity.
  - destruct a as [|a].
    + cbn [length Nat.sub seq map nth skipn]. f_equal.
      rewrite <- seq_shift, map_map. apply (map_nth_seq r d).
    + cbn [length Nat.sub skipn]. rewrite <- seq_shift, map_map. apply IH.
Qed.

Lemma filter_notb_seq i n : (i < n)%nat ->
  filter (notb i) (seq 0 n) = seq 0 i ++ seq (S i) (n - S i).
Proof.
  intros Hi. replace n with (i + S (n - S i))%nat at 1 by lia.
  rewrite seq_app, filter_app. cbn [plus seq filter]. unfold notb at 2. rewrite Nat.eqb_refl. cbn [negb].
  rewrite !Lem_Df.filter_all_true; [reflexivity| |].
  - apply Forall_forall. intros j Hj. apply in_seq in Hj. unfold notb.
    destruct (Nat.eqb_spec j i); [lia|reflexivity].
  - apply Forall_forall. intros j Hj. apply in_seq in Hj. unfold notb.
    destruct (Nat.eqb_spec j i); [lia|reflexivity].
Qed.

Lemma others_seq {A} (d : A) (l : list A) i : (i < length l)%nat ->
  map (fun j => nth j l d) (filter (notb i) (seq 0 (length l))) = others l i.
Proof.
  intros Hi. rewrite (filter_notb_seq i (length l) Hi), map_app. unfold others. f_equal.
  - apply map_nth_firstn. lia.
  - apply map_nth_skipn.
Qed.

Lemma sumF_const1 {A} (ks : list A) : sumF ROps (map (fun _ => 1) ks) = INR (length ks).
Proof.
  induction ks as [|k ks IH]; [reflexivity|].
  cbn [map length]. rewrite Lem_MultiAPI.sumF_cons1, IH, S_INR. lra.
Qed.

Theorem filter_count_is_profile_value : forall eps cy mt m (l : list trainR) ts te i k,
  (2 <= length l)%nat -> Forall (wtrain ts te) l -> (i < length l)%nat ->
  let st := nth_train ROps l i in
  (k < length (tr_spikes st))%nat ->
  let x := nth k (tr_spikes st) 0 in
  (forall j, (j < length l)%nat -> j <> i -> ~ In x (tr_spikes (nth_train ROps l j))) ->
  let cnt := sumF ROps (map (fun t : trainR =>
                 nth k (single_spec ROps (tr_spikes st) (tr_spikes t) ts te mt m) 0) (others l i)) in
  exists P, spike_sync_profile_multi ROps eps cy false mt m l None = Ok P /\
    sum_at ROps x (interior_entries P) = (cnt, INR (length l - 1)).
Proof.
  intros eps cy mt m l ts te i k H2 HF Hi st Hk x Hx cnt.
  destruct (Lem_MultiAPI.sync_multi_events eps cy mt m l ts te H2 HF) as (P & EP & _ & _ & _ & SP).
  exists P. split; [exact EP|]. rewrite (SP x). clear SP EP P.
  set (n := length l) in *.
  set (sp := fun j => tr_spikes (nth_train ROps l j)).
  assert (Wt : forall j, (j < n)%nat -> wtrain ts te (nth_train ROps l j)).
  { intros j Hj. rewrite Forall_forall in HF. apply HF. unfold nth_train. apply nth_In. exact Hj. }
  assert (Si : ssorted (sp i)) by (destruct (Wt i Hi) as ((_ & S1 & _) & _); exact S1).
  set (d := mkCtx (@None R) 0 None).
  set (ci := nth k (contexts (sp i)) d).
  set (u := fun j => nth k (single_spec ROps (sp i) (sp j) ts te mt m) 0).
  (* the contribution of one pair *)
  assert (Pair : forall pq, In pq (pairs_of (seq 0 n)) ->
            sum_at ROps x (interior_entries (spike_sync_profile_bi ROps eps cy false mt m
                                  (nth_train ROps l (fst pq)) (nth_train ROps l (snd pq))))
            = (pval2 (fun _ b => u b) i pq, pval2 (fun _ _ => 1) i pq)).
  { intros pq Hpq. apply in_pairs_seq_lt in Hpq as (_ & Hlt & Hq). cbn [plus] in Hq.
    assert (Hp : (fst pq < n)%nat) by lia.
    rewrite (Lem_MultiAPI.sync_bi_spec eps cy mt m ts te _ _ (Wt _ Hp) (Wt _ Hq)).
    rewrite sync_spec_interior. fold (sp (fst pq)). fold (sp (snd pq)). unfold pval2.
    destruct (Nat.eqb_spec i (fst pq)) as [E1|N1].
    - destruct (Nat.eqb_spec i (snd pq)) as [E2|N2]; [lia|].
      rewrite <- E1. unfold x, st. fold (sp i).
      assert (Nx : ~ In (nth k (sp i) 0) (sp (snd pq))) by (apply (Hx (snd pq) Hq); lia).
      rewrite (ev_at_first ts te mt m (n2 ROps) (sp i) (sp (snd pq)) k d Si Hk Nx).
      unfold u. rewrite (single_spec_nth ts te mt m (sp i) (sp (snd pq)) k d Hk Nx).
      f_equal; lra.
    - destruct (Nat.eqb_spec i (snd pq)) as [E2|N2].
      + rewrite <- E2. unfold x, st. fold (sp i).
        assert (Nx : ~ In (nth k (sp i) 0) (sp (fst pq))) by (apply (Hx (fst pq) Hp); lia).
        rewrite (ev_at_second ts te mt m (n2 ROps) (sp (fst pq)) (sp i) k d Si Hk Nx).
        unfold u. rewrite (single_spec_nth ts te mt m (sp i) (sp (fst pq)) k d Hk Nx).
        f_equal; lra.
      + rewrite ev_at_none.
        * f_equal; lra.
        * apply (Hx (fst pq) Hp). lia.
        * apply (Hx (snd pq) Hq). lia. }
  rewrite (map_ext_in _ (pval2 (fun _ b => u b) i)) by (intros pq Hpq; rewrite (Pair pq Hpq); reflexivity).
  rewrite (map_ext_in (fun p => snd _) (pval2 (fun _ _ => 1) i))
    by (intros pq Hpq; rewrite (Pair pq Hpq); reflexivity).
  rewrite !(pairs_row_sum0 _ i n Hi). f_equal.
  - unfold cnt. rewrite <- (@others_seq trainR ([], 0, 0) l i Hi), map_map. reflexivity.
  - rewrite sumF_const1, (filter_notb_seq i n Hi), app_length, !seq_length. f_equal. lia.
Qed.

(* the filter keeps the spike iff value / multiplicity of the multivariate profile exceeds thr *)
Corollary filter_keep_iff_profile_value : forall eps cy mt m thr (l : list trainR) ts te i k d,
  (2 <= length l)%nat -> Forall (wtrain ts te) l -> (i < length l)%nat ->
  let st := nth_train ROps l i in
  (k < length (tr_spikes st))%nat ->
  let x := nth k (tr_spikes st) 0 in
  (forall j, (j < length l)%nat -> j <> i -> ~ In x (tr_spikes (nth_train ROps l j))) ->
  let kr := nth i (filter_by_spike_sync ROps eps cy false mt m thr l) d in
  exists P v mp, spike_sync_profile_multi ROps eps cy false mt m l None = Ok P /\
    sum_at ROps x (interior_entries P) = (v, mp) /\ mp = INR (length l - 1) /\ 0 < mp /\
    (In x (tr_spikes (fst kr)) <-> thr < v / mp) /\
    (In x (tr_spikes (snd kr)) <-> ~ thr < v / mp).
Proof.
  intros eps cy mt m thr l ts te i k d H2 HF Hi st Hk x Hx kr.
  destruct (filter_count_is_profile_value eps cy mt m l ts te i k H2 HF Hi Hk Hx) as (P & EP & SP).
  fold st in SP. fold x in SP.
  match type of SP with _ = (?c, _) => set (cnt := c) in * end.
  pose proof (@Lem_API.filter_keep_iff eps cy mt m thr l ts te i k d HF Hi Hk) as [K1 K2].
  fold st in K1, K2. fold x in K1, K2. fold cnt in K1, K2. fold kr in K1, K2.
  assert (Hpos : 0 < INR (length l - 1)) by (apply lt_0_INR; lia).
  set (M := INR (length l - 1)) in *.
  assert (Eq : thr * M < cnt <-> thr < cnt / M).
  { assert (E : cnt = cnt / M * M) by (field; lra). set (q := cnt / M) in *. rewrite E. split; intros; nra. }
  exists P, cnt, M. split; [exact EP|]. split; [exact SP|]. split; [reflexivity|]. split; [exact Hpos|].
  split; [rewrite K1; exact Eq|]. rewrite K2. split; intros H C; apply H, Eq, C.
Qed.

Print Assumptions spike_multi_profile_limits.
Print Assumptions spike_multi_breakpoints.
Print Assumptions spike_multi_distance_is_profile_average.
Print Assumptions sync_multi_value_is_profile_ratio.
Print Assumptions directionality_values_mean.
Print Assumptions filter_count_is_profile_value.
Print Assumptions filter_keep_iff_profile_value.
