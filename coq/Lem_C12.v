(* Lem_C12.v — the Cython-text variants of the scans equal the Python-text ones
   (the only textual difference inside the coincidence scans is the window routine). *)
From Coq Require Import List Bool Arith Reals Lra FunctionalExtensionality.
Import ListNotations.
From PS Require Import Num RLemmas Valid ModelKernels ModelFuncs ModelAPI Spec SyncDefs Lem_Tau Lem_Sync.
From PS Require Lem_Order.
Local Open Scope R_scope.

Lemma get_tau_cy_fun_eq : get_tau_cy ROps = get_tau ROps.
Proof.
  apply functional_extensionality; intro c1. apply functional_extensionality; intro c2.
  apply functional_extensionality; intro lim. apply functional_extensionality; intro m.
  apply get_tau_cy_eq.
Qed.

Lemma sync_profile_cy_eq s1 s2 ts te mt m :
  coincidence_profile_gen ROps (get_tau_cy ROps) s1 s2 ts te mt m = coincidence_profile_gen ROps (get_tau ROps) s1 s2 ts te mt m.
Proof. rewrite get_tau_cy_fun_eq; reflexivity. Qed.
Lemma single_cy_eq s1 s2 ts te mt m :
  coincidence_single_gen ROps (get_tau_cy ROps) s1 s2 ts te mt m = coincidence_single_gen ROps (get_tau ROps) s1 s2 ts te mt m.
Proof. rewrite get_tau_cy_fun_eq; reflexivity. Qed.
Lemma order_profile_cy_eq s1 s2 ts te mt m :
  order_profile_gen ROps (get_tau_cy ROps) s1 s2 ts te mt m = order_profile_gen ROps (get_tau ROps) s1 s2 ts te mt m.
Proof. rewrite get_tau_cy_fun_eq; reflexivity. Qed.
Lemma dir_profile_cy_eq s1 s2 ts te mt m :
  directionality_profile_gen ROps (get_tau_cy ROps) s1 s2 ts te mt m = directionality_profile_gen ROps (get_tau ROps) s1 s2 ts te mt m.
Proof. rewrite get_tau_cy_fun_eq; reflexivity. Qed.

(* single-pass directionality = sum of the first train's values, for valid trains *)
Lemma dir_value_is_sum s1 s2 ts te mt m : valid ts te s1 -> valid ts te s2 ->
  dir_value ROps (coinc_scan ROps (tau_fn ROps (get_tau_cy ROps) ts te mt m) s1 s2) 0
  = sumF ROps (fst (directionality_profile_gen ROps (get_tau ROps) s1 s2 ts te mt m)).
Proof.
  intros H1 H2. rewrite get_tau_cy_fun_eq. unfold directionality_profile_gen.
  apply Lem_Order.dir_value_fusion. apply scan_clean; assumption.
Qed.

Lemma coinc_value_cy_is_sums s1 s2 ts te mt m : valid ts te s1 -> valid ts te s2 ->
  coincidence_value_gen ROps (get_tau_cy ROps) s1 s2 ts te mt m =
  (sumF ROps (map (@e_y R) (interior_entries (coincidence_profile_gen ROps (get_tau ROps) s1 s2 ts te mt m))),
   sumF ROps (map (@e_mp R) (interior_entries (coincidence_profile_gen ROps (get_tau ROps) s1 s2 ts te mt m)))).
Proof.
  intros H1 H2. rewrite get_tau_cy_fun_eq. unfold coincidence_value_gen. apply coinc_value_fusion; assumption.
Qed.
