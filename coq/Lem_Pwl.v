(* Lem_Pwl.v — piecewise-linear functions (R instance): integral, evaluation,
   addition, scalar multiple, plottable data. *)
From Coq Require Import List Bool Arith ZArith Reals Lra Lia Sorted Permutation.
Import ListNotations.
From PS Require Import Num RLemmas Valid ModelKernels ModelFuncs ModelAPI Spec SyncDefs.
Local Open Scope R_scope.

(* ------------------------------------------------------------------ *)
(* 0. lists, strictly sorted lists, searchsorted                       *)

Lemma nthF_R l i : nthF ROps l i = nth i l 0.
Proof. reflexivity. Qed.
Lemma lastF_R l : lastF ROps l = last l 0.
Proof. reflexivity. Qed.

Lemma last_nth (l : list R) d : last l d = nth (length l - 1) l d.
Proof.
  induction l as [|x [|y r] IH]; auto.
  change (last (x :: y :: r) d) with (last (y :: r) d). rewrite IH.
  cbn [length]. replace (S (S (length r)) - 1)%nat with (S (length r - 0)) by lia.
  cbn [nth]. replace (S (length r) - 1)%nat with (length r - 0)%nat by lia. reflexivity.
Qed.

Lemma skipn_nth_cons (l : list R) k d : (k < length l)%nat ->
  skipn k l = nth k l d :: skipn (S k) l.
Proof.
  revert k; induction l as [|x r IH]; intros k Hk; cbn [length] in Hk; [lia|].
  destruct k as [|k]; [reflexivity|]. cbn [skipn nth]. rewrite (IH k) by lia. reflexivity.
Qed.

Lemma nth_skipn (l : list R) k i d : nth i (skipn k l) d = nth (k + i) l d.
Proof.
  revert k; induction l as [|x r IH]; intros k.
  - rewrite skipn_nil. destruct i, k; reflexivity.
  - destruct k as [|k]; [reflexivity|]. cbn [skipn]. rewrite IH. reflexivity.
Qed.

Lemma ssorted_head_le x l i : ssorted (x :: l) -> (i < length (x :: l))%nat ->
  x <= nth i (x :: l) 0.
Proof.
  intros S Hi. apply ssorted_cons_inv in S as [_ F]. destruct i as [|i]; cbn [nth]; [lra|].
  cbn [length] in Hi. rewrite Forall_forall in F. left. apply F. apply nth_In. lia.
Qed.

Lemma ssorted_head_lt x l i : ssorted (x :: l) -> (i < length l)%nat ->
  x < nth i l 0.
Proof.
  intros S Hi. apply ssorted_cons_inv in S as [_ F].
  rewrite Forall_forall in F. apply F. apply nth_In. lia.
Qed.

Lemma ssorted_nth_lt l : ssorted l -> forall i j, (i < j)%nat -> (j < length l)%nat ->
  nth i l 0 < nth j l 0.
Proof.
  induction l as [|x r IH]; intros S i j Hij Hj; cbn [length] in Hj; [lia|].
  destruct j as [|j]; [lia|]. destruct i as [|i]; cbn [nth].
  - apply ssorted_head_lt with (l := r); auto. lia.
  - apply ssorted_cons_inv in S as [S _]. apply IH; auto; lia.
Qed.

Lemma ssorted_nth_le l : ssorted l -> forall i j, (i <= j)%nat -> (j < length l)%nat ->
  nth i l 0 <= nth j l 0.
Proof.
  intros S i j Hij Hj. destruct (Nat.eq_dec i j) as [->|N]; [lra|].
  left. apply ssorted_nth_lt; auto. lia.
Qed.

Lemma ssorted_skipn l k : ssorted l -> ssorted (skipn k l).
Proof.
  revert k; induction l as [|x r IH]; intros k S; destruct k; auto.
  cbn [skipn]. apply IH. apply ssorted_cons_inv in S. tauto.
Qed.

Lemma count_le_cons a x r :
  count_le ROps a (x :: r) = if nleb ROps x a then S (count_le ROps a r) else count_le ROps a r.
Proof. unfold count_le. cbn [filter]. destruct (nleb ROps x a); reflexivity. Qed.
Lemma count_lt_cons a x r :
  count_lt ROps a (x :: r) = if Rltb x a then S (count_lt ROps a r) else count_lt ROps a r.
Proof. unfold count_lt. cbn [filter nltb ROps]. destruct (Rltb x a); reflexivity. Qed.

Lemma count_le_zero a r : Forall (fun y => a < y) r -> count_le ROps a r = 0%nat.
Proof.
  induction 1 as [|y r H _ IH]; [reflexivity|]. rewrite count_le_cons.
  destruct (nleb ROps y a) eqn:E; auto. apply nleb_true in E. lra.
Qed.
Lemma count_lt_zero a r : Forall (fun y => a <= y) r -> count_lt ROps a r = 0%nat.
Proof.
  induction 1 as [|y r H _ IH]; [reflexivity|]. rewrite count_lt_cons.
  destruct (Rltb_spec y a); auto. lra.
Qed.

Lemma count_le_iff xs a : ssorted xs -> forall i, (i < length xs)%nat ->
  ((i < count_le ROps a xs)%nat <-> nth i xs 0 <= a).
Proof.
  induction xs as [|x r IH]; intros S i Hi; cbn [length] in Hi; [lia|].
  rewrite count_le_cons. destruct (nleb ROps x a) eqn:E.
  - apply nleb_true in E. destruct i as [|i]; cbn [nth].
    + split; intros; [lra|lia].
    + apply ssorted_cons_inv in S as [S _]. rewrite <- (IH S i) by lia. lia.
  - apply nleb_false in E. rewrite count_le_zero.
    + pose proof (ssorted_head_le x r i S Hi). split; intros; [lia|lra].
    + apply ssorted_cons_inv in S as [_ F]. eapply Forall_impl; [|apply F]. cbn; intros; lra.
Qed.

Lemma count_lt_iff xs a : ssorted xs -> forall i, (i < length xs)%nat ->
  ((i < count_lt ROps a xs)%nat <-> nth i xs 0 < a).
Proof.
  induction xs as [|x r IH]; intros S i Hi; cbn [length] in Hi; [lia|].
  rewrite count_lt_cons. destruct (Rltb_spec x a) as [E|E].
  - destruct i as [|i]; cbn [nth].
    + split; intros; [lra|lia].
    + apply ssorted_cons_inv in S as [S _]. rewrite <- (IH S i) by lia. lia.
  - rewrite count_lt_zero.
    + pose proof (ssorted_head_le x r i S Hi). split; intros; [lia|lra].
    + apply ssorted_cons_inv in S as [_ F]. eapply Forall_impl; [|apply F]. cbn; intros; lra.
Qed.

Lemma filter_len_le {A} (p : A -> bool) l : (length (filter p l) <= length l)%nat.
Proof. induction l as [|x r IH]; cbn [filter length]; [lia|]. destruct (p x); cbn [length]; lia. Qed.
Lemma count_le_len a xs : (count_le ROps a xs <= length xs)%nat.
Proof. unfold count_le. apply filter_len_le. Qed.
Lemma count_lt_len a xs : (count_lt ROps a xs <= length xs)%nat.
Proof. unfold count_lt. apply filter_len_le. Qed.

(* position of t in a sorted array: xs[k] <= t < xs[k+1] *)
Lemma count_le_eq xs t k : ssorted xs -> (k < length xs)%nat -> nth k xs 0 <= t ->
  ((S k < length xs)%nat -> t < nth (S k) xs 0) -> count_le ROps t xs = S k.
Proof.
  intros Ss Hk H1 H2. pose proof (count_le_len t xs) as HL.
  assert (A : (k < count_le ROps t xs)%nat) by (apply count_le_iff; auto).
  destruct (Nat.lt_ge_cases (S k) (length xs)) as [L|L]; [|lia].
  assert (B : ~ (S k < count_le ROps t xs)%nat).
  { rewrite count_le_iff; auto. specialize (H2 L). lra. }
  lia.
Qed.
Lemma count_lt_eq xs t k : ssorted xs -> (k < length xs)%nat -> nth k xs 0 < t ->
  ((S k < length xs)%nat -> t <= nth (S k) xs 0) -> count_lt ROps t xs = S k.
Proof.
  intros Ss Hk H1 H2. pose proof (count_lt_len t xs) as HL.
  assert (A : (k < count_lt ROps t xs)%nat) by (apply count_lt_iff; auto).
  destruct (Nat.lt_ge_cases (S k) (length xs)) as [L|L]; [|lia].
  assert (B : ~ (S k < count_lt ROps t xs)%nat).
  { rewrite count_lt_iff; auto. specialize (H2 L). lra. }
  lia.
Qed.

(* ------------------------------------------------------------------ *)
(* 1. the overlap integral                                             *)

Ltac mm := unfold Rmax, Rmin in *;
  repeat match goal with
         | |- context [Rle_dec ?a ?b] => destruct (Rle_dec a b)
         | H : context [Rle_dec ?a ?b] |- _ => destruct (Rle_dec a b)
         end; try lra.

Lemma lin_R x0 x1 ya yb t : lin ROps x0 x1 ya yb t = ya + (yb - ya) * (t - x0) / (x1 - x0).
Proof. reflexivity. Qed.
Lemma interm_lin x0 x1 ya yb t : interm ROps x0 x1 ya yb t = lin ROps x0 x1 ya yb t.
Proof. reflexivity. Qed.
Lemma lin_left x0 x1 ya yb : lin ROps x0 x1 ya yb x0 = ya.
Proof. rewrite lin_R. unfold Rdiv. ring. Qed.
Lemma lin_right x0 x1 ya yb : x0 < x1 -> lin ROps x0 x1 ya yb x1 = yb.
Proof. intros. rewrite lin_R. field. lra. Qed.

(* exact integral of the line over [u,v] *)
Definition trap x0 x1 ya yb u v : R :=
  (lin ROps x0 x1 ya yb u + lin ROps x0 x1 ya yb v) / 2 * (v - u).
Definition clamp (x0 x1 t : R) : R := Rmax x0 (Rmin t x1).
Definition pc x0 x1 ya yb a b : R :=
  if Rltb (Rmax a x0) (Rmin b x1) then trap x0 x1 ya yb (Rmax a x0) (Rmin b x1) else 0.

Lemma overlap_cons x0 x1 r ya y1 yb y2 a b :
  pwl_overlap ROps (x0 :: x1 :: r) (ya :: y1) (yb :: y2) a b
  = pc x0 x1 ya yb a b + pwl_overlap ROps (x1 :: r) y1 y2 a b.
Proof. cbn [pwl_overlap]. rops. reflexivity. Qed.

Lemma overlap_nil1 xs y2 a b : pwl_overlap ROps xs [] y2 a b = 0.
Proof. destruct xs as [|? [|? ?]]; reflexivity. Qed.
Lemma overlap_nil2 xs y1 a b : pwl_overlap ROps xs y1 [] a b = 0.
Proof. destruct xs as [|? [|? ?]]; destruct y1; reflexivity. Qed.
Lemma overlap_single x y1 y2 a b : pwl_overlap ROps [x] y1 y2 a b = 0.
Proof. reflexivity. Qed.

Lemma trap_add x0 x1 ya yb u v w :
  trap x0 x1 ya yb u v + trap x0 x1 ya yb v w = trap x0 x1 ya yb u w.
Proof. unfold trap. rewrite !lin_R. unfold Rdiv. ring. Qed.
Lemma trap_same x0 x1 ya yb u : trap x0 x1 ya yb u u = 0.
Proof. unfold trap. unfold Rdiv. ring. Qed.

Lemma pc_clamp x0 x1 ya yb a b : x0 < x1 -> a <= b ->
  pc x0 x1 ya yb a b = trap x0 x1 ya yb (clamp x0 x1 a) (clamp x0 x1 b).
Proof.
  intros Hx Hab. unfold pc, clamp. destruct (Rltb_spec (Rmax a x0) (Rmin b x1)) as [H|H].
  - replace (Rmax x0 (Rmin a x1)) with (Rmax a x0) by mm.
    replace (Rmax x0 (Rmin b x1)) with (Rmin b x1) by mm. reflexivity.
  - replace (Rmax x0 (Rmin a x1)) with (Rmax x0 (Rmin b x1)) by mm.
    rewrite trap_same. reflexivity.
Qed.

Lemma pc_zero_r x0 x1 ya yb a b : b <= x0 -> pc x0 x1 ya yb a b = 0.
Proof. intros. unfold pc. destruct (Rltb_spec (Rmax a x0) (Rmin b x1)) as [H1|H1]; auto. mm. Qed.
Lemma pc_zero_l x0 x1 ya yb a b : x1 <= a -> pc x0 x1 ya yb a b = 0.
Proof. intros. unfold pc. destruct (Rltb_spec (Rmax a x0) (Rmin b x1)) as [H1|H1]; auto. mm. Qed.
Lemma pc_inside x0 x1 ya yb a b : x0 <= a -> a < b -> b <= x1 ->
  pc x0 x1 ya yb a b = trap x0 x1 ya yb a b.
Proof.
  intros. unfold pc. replace (Rmax a x0) with a by mm. replace (Rmin b x1) with b by mm.
  destruct (Rltb_spec a b); auto. lra.
Qed.

Theorem pwl_overlap_additive : forall xs y1s y2s a b c, ssorted xs -> a <= b -> b <= c ->
  pwl_overlap ROps xs y1s y2s a b + pwl_overlap ROps xs y1s y2s b c
  = pwl_overlap ROps xs y1s y2s a c.
Proof.
  induction xs as [|x0 xs IH]; intros y1s y2s a b c Ss Hab Hbc; [cbn; lra|].
  destruct xs as [|x1 r]; [cbn; lra|].
  destruct y1s as [|ya y1]; [rewrite !overlap_nil1; lra|].
  destruct y2s as [|yb y2]; [rewrite !overlap_nil2; lra|].
  rewrite !overlap_cons. pose proof Ss as Ss'. apply ssorted_cons_inv in Ss' as [S1 F1].
  assert (Hx : x0 < x1) by (inversion F1; auto).
  rewrite !pc_clamp by lra. rewrite <- (IH y1 y2 a b c S1 Hab Hbc).
  rewrite <- (trap_add x0 x1 ya yb (clamp x0 x1 a) (clamp x0 x1 b) (clamp x0 x1 c)). ring.
Qed.

Lemma overlap_zero_right xs y1 y2 a b : ssorted xs -> (forall x, In x xs -> b <= x) ->
  pwl_overlap ROps xs y1 y2 a b = 0.
Proof.
  revert y1 y2; induction xs as [|x0 xs IH]; intros y1 y2 Ss Hb; [reflexivity|].
  destruct xs as [|x1 r]; [reflexivity|].
  destruct y1 as [|ya y1]; [apply overlap_nil1|]. destruct y2 as [|yb y2]; [apply overlap_nil2|].
  rewrite overlap_cons, pc_zero_r by (apply Hb; left; auto).
  rewrite IH; [lra| apply ssorted_cons_inv in Ss; tauto | intros; apply Hb; right; auto].
Qed.

Lemma overlap_same xs y1 y2 a : ssorted xs -> pwl_overlap ROps xs y1 y2 a a = 0.
Proof.
  intros Ss. pose proof (pwl_overlap_additive xs y1 y2 a a a Ss). lra.
Qed.

(* pieces left of [a] do not contribute *)
Lemma overlap_skip k : forall xs y1 y2 a b, ssorted xs -> (k < length xs)%nat ->
  nth k xs 0 <= a ->
  pwl_overlap ROps xs y1 y2 a b = pwl_overlap ROps (skipn k xs) (skipn k y1) (skipn k y2) a b.
Proof.
  induction k as [|k IH]; intros xs y1 y2 a b Ss Hk Ha; [reflexivity|].
  destruct xs as [|x0 xs]; cbn [length] in Hk; [lia|].
  destruct xs as [|x1 r]; cbn [length] in Hk; [lia|].
  destruct y1 as [|ya y1]; [rewrite skipn_nil, !overlap_nil1; auto|].
  destruct y2 as [|yb y2]; [rewrite skipn_nil, !overlap_nil2; auto|].
  rewrite overlap_cons. cbn [skipn].
  change (nth (S k) (x0 :: x1 :: r) 0) with (nth k (x1 :: r) 0) in Ha.
  pose proof Ss as Ss'. apply ssorted_cons_inv in Ss' as [S1 _].
  rewrite pc_zero_l.
  - rewrite <- (IH (x1 :: r) y1 y2 a b S1 ltac:(cbn [length]; lia) Ha). ring.
  - pose proof (ssorted_head_le x1 r k S1). cbn [length] in H. specialize (H ltac:(lia)). lra.
Qed.

Lemma pc_full x0 x1 ya yb a b : a <= x0 -> x0 < x1 -> x1 <= b ->
  pc x0 x1 ya yb a b = (x1 - x0) * ((ya + yb) / 2).
Proof.
  intros. unfold pc. replace (Rmax a x0) with x0 by mm. replace (Rmin b x1) with x1 by mm.
  destruct (Rltb_spec x0 x1); [|lra]. unfold trap. rewrite lin_left, lin_right by lra. field.
Qed.

Lemma int_all_cons x0 x1 r ya y1 yb y2 :
  pwl_int_all ROps (x0 :: x1 :: r) (ya :: y1) (yb :: y2)
  = (x1 - x0) * ((ya + yb) / 2) + pwl_int_all ROps (x1 :: r) y1 y2.
Proof. cbn [pwl_int_all]. rops. reflexivity. Qed.
Lemma int_all_nil1 xs y2 : pwl_int_all ROps xs [] y2 = 0.
Proof. destruct xs as [|? [|? ?]]; reflexivity. Qed.
Lemma int_all_nil2 xs y1 : pwl_int_all ROps xs y1 [] = 0.
Proof. destruct xs as [|? [|? ?]]; destruct y1; reflexivity. Qed.

(* full pieces: [a] at or left of the first breakpoint, [b] a breakpoint *)
Lemma overlap_full : forall xs y1 y2 a e, ssorted xs -> (e < length xs)%nat ->
  (forall x, In x xs -> a <= x) ->
  pwl_overlap ROps xs y1 y2 a (nth e xs 0)
  = pwl_int_all ROps (firstn (S e) xs) (firstn e y1) (firstn e y2).
Proof.
  induction xs as [|x0 xs IH]; intros y1 y2 a e Ss He Ha; cbn [length] in He; [lia|].
  destruct xs as [|x1 r].
  { cbn [length] in He. destruct e; [|lia]. reflexivity. }
  pose proof Ss as Ss'. apply ssorted_cons_inv in Ss' as [S1 F1].
  assert (Hx : x0 < x1) by (inversion F1; auto).
  destruct e as [|e].
  { change (nth 0 (x0 :: x1 :: r) 0) with x0. rewrite overlap_zero_right; auto.
    intros x [<-|Hx']; [lra|]. rewrite Forall_forall in F1. left. auto. }
  change (nth (S e) (x0 :: x1 :: r) 0) with (nth e (x1 :: r) 0).
  change (firstn (S (S e)) (x0 :: x1 :: r)) with (x0 :: x1 :: firstn e r).
  destruct y1 as [|ya y1]; [rewrite overlap_nil1, int_all_nil1; auto|].
  destruct y2 as [|yb y2]; [rewrite overlap_nil2, int_all_nil2; auto|].
  cbn [firstn]. rewrite overlap_cons, int_all_cons.
  cbn [length] in He.
  rewrite pc_full; auto.
  - rewrite (IH y1 y2 a e S1); [reflexivity | cbn [length]; lia |].
    intros x Hx'. assert (a <= x0) by (apply Ha; left; auto).
    destruct Hx' as [<-|Hx']; [lra|]. rewrite Forall_forall in F1.
    assert (x0 < x) by (apply F1; right; auto). lra.
  - apply Ha; left; auto.
  - apply (ssorted_head_le x1 r e S1). cbn [length]; lia.
Qed.

Lemma wf_pwl_inv xs y1 y2 : wf_pwl (xs, y1, y2) ->
  ssorted xs /\ (2 <= length xs)%nat /\ length xs = S (length y1) /\ length y1 = length y2.
Proof. unfold wf_pwl, wf_x. cbn [fst snd]. tauto. Qed.

Lemma ssorted_head_min x l y : ssorted (x :: l) -> In y (x :: l) -> x <= y.
Proof.
  intros Ss [<-|H]; [lra|]. apply ssorted_cons_inv in Ss as [_ F].
  rewrite Forall_forall in F. left; auto.
Qed.

Lemma skipn_ge xs k x : ssorted xs -> (k < length xs)%nat -> In x (skipn k xs) -> nth k xs 0 <= x.
Proof.
  intros Ss Hk Hx. pose proof (ssorted_skipn xs k Ss) as S1.
  rewrite (skipn_nth_cons xs k 0 Hk) in *. eapply ssorted_head_min; eauto.
Qed.

Lemma nth0_min xs x : ssorted xs -> In x xs -> nth 0 xs 0 <= x.
Proof.
  intros Ss Hx. apply (skipn_ge xs 0 x Ss); auto. destruct xs; [destruct Hx | cbn; lia].
Qed.

Theorem pwl_integral_none : forall f, wf_pwl f ->
  pwl_integral ROps f None
  = Ok (pwl_overlap ROps (fst (fst f)) (snd (fst f)) (snd f)
          (nthF ROps (fst (fst f)) 0) (lastF ROps (fst (fst f)))).
Proof.
  intros [[xs y1] y2] W. apply wf_pwl_inv in W as (Ss & Hn & L1 & L2). cbn [fst snd].
  cbn [pwl_integral]. f_equal. rewrite lastF_R, nthF_R, last_nth.
  rewrite overlap_full; auto; [| lia | intros; apply nth0_min; auto].
  replace (S (length xs - 1)) with (length xs) by lia.
  rewrite firstn_all. replace (length xs - 1)%nat with (length y1) by lia.
  rewrite firstn_all. rewrite L2, firstn_all. reflexivity.
Qed.

(* both ends inside piece k *)
Lemma overlap_one xs y1 y2 k a b : ssorted xs -> (S k < length xs)%nat ->
  (k < length y1)%nat -> (k < length y2)%nat ->
  nth k xs 0 <= a -> a < b -> b <= nth (S k) xs 0 ->
  pwl_overlap ROps xs y1 y2 a b
  = trap (nth k xs 0) (nth (S k) xs 0) (nth k y1 0) (nth k y2 0) a b.
Proof.
  intros Ss Hk K1 K2 Ha Hab Hb. rewrite (overlap_skip k); auto; [|lia].
  pose proof (ssorted_skipn xs (S k) Ss) as S1.
  rewrite (skipn_nth_cons xs k 0) by lia. rewrite (skipn_nth_cons y1 k 0), (skipn_nth_cons y2 k 0) by lia.
  rewrite (skipn_nth_cons xs (S k) 0) in * by lia.
  rewrite overlap_cons, pc_inside by auto. rewrite overlap_zero_right; auto; [lra|].
  intros x Hx. pose proof (ssorted_head_min _ _ x S1 Hx). lra.
Qed.

Theorem pwl_integral_overlap : forall f a b, wf_pwl f ->
  nthF ROps (fst (fst f)) 0 <= a -> a < b -> b <= lastF ROps (fst (fst f)) ->
  pwl_integral ROps f (Some (a, b))
  = Ok (pwl_overlap ROps (fst (fst f)) (snd (fst f)) (snd f) a b).
Proof.
  intros [[xs y1] y2] a b W. apply wf_pwl_inv in W as (Ss & Hn & L1 & L2). cbn [fst snd].
  rewrite lastF_R, nthF_R, last_nth. intros Ha Hab Hb.
  pose proof (count_le_len a xs) as Hsl. pose proof (count_lt_len b xs) as Hcl.
  assert (Hs1 : (0 < count_le ROps a xs)%nat) by (apply count_le_iff; auto; lia).
  assert (Hs2 : (count_le ROps a xs < length xs)%nat).
  { assert (~ (length xs - 1 < count_le ROps a xs)%nat); [|lia].
    rewrite count_le_iff; auto; [lra|lia]. }
  assert (Hsa : nth (count_le ROps a xs - 1) xs 0 <= a) by (apply count_le_iff; auto; lia).
  assert (Hsb : a < nth (count_le ROps a xs) xs 0).
  { assert (~ (count_le ROps a xs < count_le ROps a xs)%nat) as N by lia.
    rewrite count_le_iff in N; auto; lra. }
  assert (Hc1 : (count_lt ROps b xs < length xs)%nat).
  { assert (~ (length xs - 1 < count_lt ROps b xs)%nat); [|lia].
    rewrite count_lt_iff; auto; [lra|lia]. }
  assert (Hc2 : (count_le ROps a xs <= count_lt ROps b xs)%nat).
  { assert (count_le ROps a xs - 1 < count_lt ROps b xs)%nat; [|lia].
    apply count_lt_iff; auto; [lia|lra]. }
  assert (Hcb : b <= nth (count_lt ROps b xs) xs 0).
  { assert (~ (count_lt ROps b xs < count_lt ROps b xs)%nat) as N by lia.
    rewrite count_lt_iff in N; auto; lra. }
  assert (Hca : nth (count_lt ROps b xs - 1) xs 0 < b) by (apply count_lt_iff; auto; lia).
  unfold pwl_integral. cbv zeta.
  destruct (count_le ROps a xs) as [|k] eqn:Es; [lia|].
  destruct (count_lt ROps b xs) as [|e] eqn:Ec; [lia|].
  replace (S k - 1)%nat with k in * by lia. replace (S e - 1)%nat with e in * by lia.
  replace (e + 1)%nat with (S e) by lia.
  destruct (Nat.ltb_spec 0 (S k)) as [_|]; [|lia].
  destruct (Nat.leb_spec (S e) (length xs)) as [_|]; [|lia]. cbn [andb negb].
  assert (Hkx : nth k xs 0 < nth (S k) xs 0) by (apply ssorted_nth_lt; auto; lia).
  rewrite !nthF_R. change (interm ROps) with (lin ROps).
  destruct (Nat.leb_spec (S e) (S k)) as [Q|Q].
  - assert (e = k) by lia. subst e. f_equal.
    rewrite (overlap_one xs y1 y2 k a b); auto; try lia.
  - f_equal. assert (Hex : nth e xs 0 < nth (S e) xs 0) by (apply ssorted_nth_lt; auto; lia).
    assert (Hke : nth (S k) xs 0 <= nth e xs 0) by (apply ssorted_nth_le; auto; lia).
    rewrite <- (pwl_overlap_additive xs y1 y2 a (nth (S k) xs 0) b) by (auto; lra).
    rewrite <- (pwl_overlap_additive xs y1 y2 (nth (S k) xs 0) (nth e xs 0) b) by (auto; lra).
    rewrite (overlap_one xs y1 y2 k a (nth (S k) xs 0)); auto; try lia; try lra.
    rewrite (overlap_one xs y1 y2 e (nth e xs 0) b); auto; try lia; try lra.
    rewrite (overlap_skip (S k) xs y1 y2 (nth (S k) xs 0) (nth e xs 0)); auto; try lra.
    assert (E : pwl_overlap ROps (skipn (S k) xs) (skipn (S k) y1) (skipn (S k) y2)
                  (nth (S k) xs 0) (nth e xs 0)
                = pwl_int_all ROps (slice xs (S k) (S e)) (slice y1 (S k) e) (slice y2 (S k) e)).
    { replace (nth e xs 0) with (nth (e - S k) (skipn (S k) xs) 0)
        by (rewrite nth_skipn; f_equal; lia).
      rewrite overlap_full.
      - unfold slice. replace (S e - S k)%nat with (S (e - S k)) by lia. reflexivity.
      - apply ssorted_skipn; auto.
      - rewrite skipn_length. lia.
      - intros x Hx. apply skipn_ge; auto. }
    rewrite E. unfold trap. rewrite lin_right, lin_left by lra.
    rops. unfold Rdiv. ring.
Qed.

Theorem pwl_avrg_one : forall f a b, wf_pwl f ->
  nthF ROps (fst (fst f)) 0 <= a -> a < b -> b <= lastF ROps (fst (fst f)) ->
  pwl_avrg ROps f (IvOne a b)
  = Ok (pwl_overlap ROps (fst (fst f)) (snd (fst f)) (snd f) a b / (b - a)).
Proof.
  intros f a b W Ha Hab Hb. unfold pwl_avrg, avrg_gen.
  rewrite pwl_integral_overlap; auto.
Qed.

(* ------------------------------------------------------------------ *)
(* 2. evaluation                                                       *)

Lemma pwl_right_cons x0 x1 r ya y1 yb y2 t :
  pwl_right ROps (x0 :: x1 :: r) (ya :: y1) (yb :: y2) t
  = if nleb ROps x0 t && Rltb t x1 then Some (lin ROps x0 x1 ya yb t)
    else pwl_right ROps (x1 :: r) y1 y2 t.
Proof. reflexivity. Qed.
Lemma pwl_left_cons x0 x1 r ya y1 yb y2 t :
  pwl_left ROps (x0 :: x1 :: r) (ya :: y1) (yb :: y2) t
  = if Rltb x0 t && nleb ROps t x1 then Some (lin ROps x0 x1 ya yb t)
    else pwl_left ROps (x1 :: r) y1 y2 t.
Proof. reflexivity. Qed.

Lemma nleb_t x y : x <= y -> nleb ROps x y = true.
Proof. apply nleb_true. Qed.
Lemma nleb_f x y : y < x -> nleb ROps x y = false.
Proof. apply nleb_false. Qed.
Lemma Rltb_t x y : x < y -> Rltb x y = true.
Proof. apply Rltb_true. Qed.
Lemma Rltb_f x y : y <= x -> Rltb x y = false.
Proof. apply Rltb_false. Qed.

Lemma pwl_right_at : forall xs y1 y2 k t, ssorted xs -> (S k < length xs)%nat ->
  (k < length y1)%nat -> (k < length y2)%nat -> nth k xs 0 <= t -> t < nth (S k) xs 0 ->
  pwl_right ROps xs y1 y2 t
  = Some (lin ROps (nth k xs 0) (nth (S k) xs 0) (nth k y1 0) (nth k y2 0) t).
Proof.
  induction xs as [|x0 xs IH]; intros y1 y2 k t Ss Hk K1 K2 H1 H2; cbn [length] in Hk; [lia|].
  destruct xs as [|x1 r]; cbn [length] in Hk; [lia|].
  destruct y1 as [|ya y1]; cbn [length] in K1; [lia|].
  destruct y2 as [|yb y2]; cbn [length] in K2; [lia|].
  rewrite pwl_right_cons. pose proof Ss as Ss'. apply ssorted_cons_inv in Ss' as [S1 _].
  destruct k as [|k].
  - cbn [nth] in *. rewrite nleb_t, Rltb_t by lra. reflexivity.
  - change (nth (S k) (x0 :: x1 :: r) 0) with (nth k (x1 :: r) 0) in *.
    change (nth (S (S k)) (x0 :: x1 :: r) 0) with (nth (S k) (x1 :: r) 0) in *.
    pose proof (ssorted_head_le x1 r k S1 ltac:(cbn [length]; lia)).
    rewrite (Rltb_f t x1) by lra. rewrite andb_false_r.
    rewrite (IH y1 y2 k t S1); auto; cbn [length]; lia.
Qed.

Lemma pwl_left_at : forall xs y1 y2 k t, ssorted xs -> (S k < length xs)%nat ->
  (k < length y1)%nat -> (k < length y2)%nat -> nth k xs 0 < t -> t <= nth (S k) xs 0 ->
  pwl_left ROps xs y1 y2 t
  = Some (lin ROps (nth k xs 0) (nth (S k) xs 0) (nth k y1 0) (nth k y2 0) t).
Proof.
  induction xs as [|x0 xs IH]; intros y1 y2 k t Ss Hk K1 K2 H1 H2; cbn [length] in Hk; [lia|].
  destruct xs as [|x1 r]; cbn [length] in Hk; [lia|].
  destruct y1 as [|ya y1]; cbn [length] in K1; [lia|].
  destruct y2 as [|yb y2]; cbn [length] in K2; [lia|].
  rewrite pwl_left_cons. pose proof Ss as Ss'. apply ssorted_cons_inv in Ss' as [S1 _].
  destruct k as [|k].
  - cbn [nth] in *. rewrite nleb_t, Rltb_t by lra. reflexivity.
  - change (nth (S k) (x0 :: x1 :: r) 0) with (nth k (x1 :: r) 0) in *.
    change (nth (S (S k)) (x0 :: x1 :: r) 0) with (nth (S k) (x1 :: r) 0) in *.
    pose proof (ssorted_head_le x1 r k S1 ltac:(cbn [length]; lia)).
    rewrite (nleb_f t x1) by lra. rewrite andb_false_r.
    rewrite (IH y1 y2 k t S1); auto; cbn [length]; lia.
Qed.

Lemma pwl_right_none_hi : forall xs y1 y2 t, (forall x, In x xs -> x <= t) ->
  pwl_right ROps xs y1 y2 t = None.
Proof.
  induction xs as [|x0 xs IH]; intros y1 y2 t H; [reflexivity|].
  destruct xs as [|x1 r]; [reflexivity|].
  destruct y1 as [|ya y1]; [reflexivity|]. destruct y2 as [|yb y2]; [reflexivity|].
  rewrite pwl_right_cons. rewrite (Rltb_f t x1) by (apply H; right; left; auto).
  rewrite andb_false_r. apply IH. intros; apply H; right; auto.
Qed.
Lemma pwl_left_none_lo : forall xs y1 y2 t, (forall x, In x xs -> t <= x) ->
  pwl_left ROps xs y1 y2 t = None.
Proof.
  induction xs as [|x0 xs IH]; intros y1 y2 t H; [reflexivity|].
  destruct xs as [|x1 r]; [reflexivity|].
  destruct y1 as [|ya y1]; [reflexivity|]. destruct y2 as [|yb y2]; [reflexivity|].
  rewrite pwl_left_cons. rewrite (Rltb_f x0 t) by (apply H; left; auto).
  rewrite andb_false_l. apply IH. intros; apply H; right; auto.
Qed.

Lemma nth_last_max xs x : ssorted xs -> In x xs -> x <= nth (length xs - 1) xs 0.
Proof.
  intros Ss Hx. destruct (In_nth xs x 0 Hx) as (i & Hi & <-). apply ssorted_nth_le; auto; lia.
Qed.

Lemma existsb_eq_in xs t : existsb (fun x => neqb ROps x t) xs = true <-> In t xs.
Proof.
  rewrite existsb_exists. cbn [neqb ROps]. split.
  - intros (x & Hx & E). apply Reqb_true in E. subst; auto.
  - intros H. exists t; split; auto. apply Reqb_true; auto.
Qed.

(* where t sits in the breakpoint array, with both searchsorted results *)
Lemma classify xs t : ssorted xs -> (2 <= length xs)%nat ->
  nth 0 xs 0 <= t -> t <= nth (length xs - 1) xs 0 ->
  (t = nth 0 xs 0 /\ count_le ROps t xs = 1%nat /\ count_lt ROps t xs = 0%nat)
  \/ (t = nth (length xs - 1) xs 0 /\ count_le ROps t xs = length xs
      /\ count_lt ROps t xs = (length xs - 1)%nat)
  \/ (exists k, (1 <= k)%nat /\ (S k < length xs)%nat /\ t = nth k xs 0
      /\ count_le ROps t xs = S k /\ count_lt ROps t xs = k)
  \/ (exists k, (S k < length xs)%nat /\ nth k xs 0 < t /\ t < nth (S k) xs 0
      /\ count_le ROps t xs = S k /\ count_lt ROps t xs = S k /\ ~ In t xs).
Proof.
  intros Ss Hn H0 Hl.
  assert (EQ : forall k, (k < length xs)%nat -> t = nth k xs 0 ->
               count_le ROps t xs = S k /\ count_lt ROps t xs = k).
  { intros k Hk E. split.
    - apply count_le_eq; auto; [lra|]. intros L. rewrite E. apply ssorted_nth_lt; auto.
    - destruct k as [|k].
      + assert (~ (0 < count_lt ROps t xs)%nat); [|lia]. rewrite count_lt_iff; auto. lra.
      + apply count_lt_eq; auto; try lia.
        * rewrite E. apply ssorted_nth_lt; auto.
        * intros; lra. }
  pose proof (count_le_len t xs) as Hsl.
  assert (Hs1 : (0 < count_le ROps t xs)%nat) by (apply count_le_iff; auto; lia).
  assert (Hsa : nth (count_le ROps t xs - 1) xs 0 <= t) by (apply count_le_iff; auto; lia).
  assert (Hsb : (count_le ROps t xs < length xs)%nat -> t < nth (count_le ROps t xs) xs 0).
  { intros L. assert (~ (count_le ROps t xs < count_le ROps t xs)%nat) as N by lia.
    rewrite count_le_iff in N; auto; lra. }
  destruct (count_le ROps t xs) as [|k] eqn:Es; [lia|].
  replace (S k - 1)%nat with k in * by lia.
  destruct (Req_dec t (nth k xs 0)) as [E|NE].
  - destruct (EQ k ltac:(lia) E) as [E1 E2].
    destruct k as [|k]; [left; auto|]. right.
    destruct (Nat.eq_dec (S k) (length xs - 1)) as [E3|N3].
    + left. rewrite <- E3. repeat split; auto. lia.
    + right; left. exists (S k). repeat split; auto; lia.
  - right; right; right. exists k.
    assert (L : (S k < length xs)%nat).
    { destruct (Nat.eq_dec (S k) (length xs)) as [E3|N3]; [|lia].
      replace (length xs - 1)%nat with k in Hl by lia. lra. }
    specialize (Hsb L). repeat split; auto; try lra.
    + apply count_lt_eq; auto; try lia; try lra.
    + intros Hin. destruct (In_nth xs t 0 Hin) as (j & Hj & Ej).
      destruct (Nat.le_gt_cases j k) as [Q|Q].
      * pose proof (ssorted_nth_le xs Ss j k Q ltac:(lia)). lra.
      * pose proof (ssorted_nth_le xs Ss (S k) j Q Hj). lra.
Qed.

Ltac natb :=
  repeat match goal with
         | |- context [Nat.eqb ?a ?b] => destruct (Nat.eqb_spec a b); try lia
         | |- context [Nat.ltb ?a ?b] => destruct (Nat.ltb_spec a b); try lia
         end.

Lemma Reqb_t x y : x = y -> Reqb x y = true.
Proof. apply Reqb_true. Qed.
Lemma Reqb_f x y : x <> y -> Reqb x y = false.
Proof. apply Reqb_false. Qed.

Theorem pwl_call_scalar_eval : forall f t, wf_pwl f ->
  nthF ROps (fst (fst f)) 0 <= t -> t <= lastF ROps (fst (fst f)) ->
  exists v, pwl_eval ROps f t = Some v /\ pwl_call_scalar ROps f t = Ok v.
Proof.
  intros [[xs y1] y2] t W. apply wf_pwl_inv in W as (Ss & Hn & L1 & L2). cbn [fst snd].
  rewrite lastF_R, nthF_R, last_nth. intros H0 Hl.
  unfold pwl_call_scalar, pwl_eval. cbn [fst snd]. cbv zeta.
  rewrite !nthF_R, !lastF_R, (last_nth xs). cbn [neqb ROps].
  rewrite (nleb_t (nth 0 xs 0) t), (nleb_t t (nth (length xs - 1) xs 0)) by lra. cbn [andb negb].
  assert (H01 : nth 0 xs 0 < nth (length xs - 1) xs 0) by (apply ssorted_nth_lt; auto; lia).
  destruct (classify xs t Ss Hn H0 Hl)
    as [(E & C1 & C2) | [(E & C1 & C2) | [(k & K1 & K2 & E & C1 & C2)
                                         | (k & K2 & E1 & E2 & C1 & C2 & NI)]]].
  - rewrite (Reqb_t _ _ E). exists (nth 0 y1 0). split; auto.
    rewrite pwl_left_none_lo by (intros; rewrite E; apply nth0_min; auto).
    rewrite (pwl_right_at xs y1 y2 0 t); auto; try lia; try lra.
    + rewrite E, lin_left. reflexivity.
    + rewrite E. apply ssorted_nth_lt; auto; lia.
  - rewrite (Reqb_f t (nth 0 xs 0)) by lra. rewrite (Reqb_t _ _ E).
    exists (last y2 0). split; auto.
    rewrite pwl_right_none_hi by (intros; rewrite E; apply nth_last_max; auto).
    assert (Hm : nth (length xs - 2) xs 0 < nth (length xs - 1) xs 0)
      by (apply ssorted_nth_lt; auto; lia).
    rewrite (pwl_left_at xs y1 y2 (length xs - 2) t); auto; try lia.
    + replace (S (length xs - 2)) with (length xs - 1)%nat by lia.
      rewrite E, lin_right by lra. cbn [eval_of]. rewrite (last_nth y2).
      replace (length y2 - 1)%nat with (length xs - 2)%nat by lia. reflexivity.
    + lra.
    + replace (S (length xs - 2)) with (length xs - 1)%nat by lia. lra.
  - assert (Hk0 : nth 0 xs 0 < nth k xs 0) by (apply ssorted_nth_lt; auto; lia).
    assert (Hkn : nth k xs 0 < nth (length xs - 1) xs 0) by (apply ssorted_nth_lt; auto; lia).
    rewrite (Reqb_f t (nth 0 xs 0)), (Reqb_f t (nth (length xs - 1) xs 0)) by lra.
    assert (X : existsb (fun x => Reqb x t) xs = true).
    { apply (existsb_eq_in xs t). rewrite E. apply nth_In. lia. }
    rewrite X, C1. destruct k as [|j]; [lia|].
    replace (S (S j) - 1)%nat with (S j) by lia. replace (S (S j) - 2)%nat with j by lia.
    assert (Hj : nth j xs 0 < nth (S j) xs 0) by (apply ssorted_nth_lt; auto; lia).
    assert (Hj' : nth (S j) xs 0 < nth (S (S j)) xs 0) by (apply ssorted_nth_lt; auto; lia).
    rewrite (pwl_left_at xs y1 y2 j t), (pwl_right_at xs y1 y2 (S j) t); auto; try lia; try lra.
    rewrite E, lin_right, lin_left by lra. cbn [eval_of].
    exists ((nth (S j) y1 0 + nth j y2 0) / 2). split; [f_equal|]; rops; auto. lra.
  - rewrite (Reqb_f t (nth 0 xs 0)).
    2:{ pose proof (ssorted_nth_le xs Ss 0 k ltac:(lia) ltac:(lia)). lra. }
    rewrite (Reqb_f t (nth (length xs - 1) xs 0)).
    2:{ pose proof (ssorted_nth_le xs Ss (S k) (length xs - 1) ltac:(lia) ltac:(lia)). lra. }
    destruct (existsb (fun x => Reqb x t) xs) eqn:X.
    { apply (existsb_eq_in xs t) in X. contradiction. }
    rewrite C1. replace (S k - 1)%nat with k by lia.
    rewrite (pwl_left_at xs y1 y2 k t), (pwl_right_at xs y1 y2 k t); auto; try lia; try lra.
    cbn [eval_of]. change (interm ROps) with (lin ROps).
    exists (lin ROps (nth k xs 0) (nth (S k) xs 0) (nth k y1 0) (nth k y2 0) t).
    split; auto. f_equal. rops. lra.
Qed.

Theorem pwl_call_paths_agree : forall f t, wf_pwl f ->
  pwl_call_seq1 ROps f t = pwl_call_scalar ROps f t.
Proof.
  intros [[xs y1] y2] t W. apply wf_pwl_inv in W as (Ss & Hn & L1 & L2).
  unfold pwl_call_seq1, pwl_call_scalar. cbv zeta.
  rewrite !nthF_R, !lastF_R, (last_nth xs). cbn [neqb ROps].
  destruct (nleb ROps (nth 0 xs 0) t) eqn:G1; [|reflexivity].
  destruct (nleb ROps t (nth (length xs - 1) xs 0)) eqn:G2; [|reflexivity].
  cbn [andb negb]. apply nleb_true in G1, G2.
  assert (H01 : nth 0 xs 0 < nth (length xs - 1) xs 0) by (apply ssorted_nth_lt; auto; lia).
  change (interm ROps) with (lin ROps).
  destruct (classify xs t Ss Hn G1 G2)
    as [(E & C1 & C2) | [(E & C1 & C2) | [(k & K1 & K2 & E & C1 & C2)
                                         | (k & K2 & E1 & E2 & C1 & C2 & NI)]]];
    rewrite C1, C2.
  - rewrite (Reqb_t _ _ E). change (1 =? 0)%nat with false. cbv iota. natb;
    cbn [negb andb Nat.sub]; rewrite E, lin_left; reflexivity.
  - rewrite (Reqb_f t (nth 0 xs 0)) by lra. rewrite (Reqb_t _ _ E).
    assert (Hm : nth (length xs - 2) xs 0 < nth (length xs - 1) xs 0)
      by (apply ssorted_nth_lt; auto; lia).
    natb; cbn [negb andb];
    replace (length xs - 1 - 1)%nat with (length xs - 2)%nat by lia;
    rewrite E, lin_right by lra; rewrite (last_nth y2);
    replace (length y2 - 1)%nat with (length xs - 2)%nat by lia; reflexivity.
  - assert (Hk0 : nth 0 xs 0 < nth k xs 0) by (apply ssorted_nth_lt; auto; lia).
    assert (Hkn : nth k xs 0 < nth (length xs - 1) xs 0) by (apply ssorted_nth_lt; auto; lia).
    rewrite (Reqb_f t (nth 0 xs 0)), (Reqb_f t (nth (length xs - 1) xs 0)) by lra.
    assert (X : existsb (fun x => Reqb x t) xs = true).
    { apply (existsb_eq_in xs t). rewrite E. apply nth_In. lia. }
    rewrite X. change (S k =? 0)%nat with false. cbv iota. natb; cbn [negb andb]; reflexivity.
  - rewrite (Reqb_f t (nth 0 xs 0)).
    2:{ pose proof (ssorted_nth_le xs Ss 0 k ltac:(lia) ltac:(lia)). lra. }
    rewrite (Reqb_f t (nth (length xs - 1) xs 0)).
    2:{ pose proof (ssorted_nth_le xs Ss (S k) (length xs - 1) ltac:(lia) ltac:(lia)). lra. }
    destruct (existsb (fun x => Reqb x t) xs) eqn:X.
    { apply (existsb_eq_in xs t) in X. contradiction. }
    change (S k =? 0)%nat with false. cbv iota. natb; cbn [negb andb]; reflexivity.
Qed.

(* ------------------------------------------------------------------ *)
(* 3. addition: the two-cursor merge against the declarative sum       *)

(* sort_unique is the unique strictly sorted list with the same members *)
Lemma pl_ssorted_ext : forall l1 l2, ssorted l1 -> ssorted l2 ->
  (forall x, In x l1 <-> In x l2) -> l1 = l2.
Proof.
  induction l1 as [|x1 r1 IH]; intros l2 S1 S2 E.
  - destruct l2 as [|x2 r2]; auto. exfalso. apply (E x2). left; auto.
  - destruct l2 as [|x2 r2].
    + exfalso. apply (E x1). left; auto.
    + apply ssorted_cons_inv in S1 as [S1 F1]. apply ssorted_cons_inv in S2 as [S2 F2].
      rewrite Forall_forall in F1, F2.
      assert (x1 = x2) as ->.
      { assert (A : In x1 (x2 :: r2)) by (apply E; left; auto).
        assert (B : In x2 (x1 :: r1)) by (apply E; left; auto).
        destruct A as [A|A]; auto. destruct B as [B|B]; auto.
        apply F2 in A. apply F1 in B. lra. }
      f_equal. apply IH; auto. intros x; split; intros H.
      * assert (A : In x (x2 :: r2)) by (apply E; right; auto).
        destruct A as [A|A]; auto. subst. apply F1 in H. lra.
      * assert (A : In x (x2 :: r1)) by (apply E; right; auto).
        destruct A as [A|A]; auto. subst. apply F2 in H. lra.
Qed.

Lemma pl_insert_u_in : forall a l x, In x (insert_u ROps a l) <-> x = a \/ In x l.
Proof.
  induction l as [|y r IH]; intros x; cbn [insert_u nltb neqb ROps].
  - cbn. intuition.
  - destruct (Rltb_spec a y) as [H|H].
    + cbn. intuition.
    + destruct (Reqb_spec a y) as [E|E].
      * subst. cbn. intuition.
      * cbn [In]. rewrite IH. intuition.
Qed.

Lemma pl_insert_u_sorted : forall a l, ssorted l -> ssorted (insert_u ROps a l).
Proof.
  induction l as [|y r IH]; intros Ss; cbn [insert_u nltb neqb ROps].
  - apply ssorted_cons; auto.
  - destruct (Rltb_spec a y) as [H|H].
    + apply ssorted_cons; auto. apply ssorted_cons_inv in Ss as [Ss F].
      constructor; auto. eapply Forall_impl; [|apply F]. cbn; intros; lra.
    + destruct (Reqb_spec a y) as [E|E]; auto.
      apply ssorted_cons_inv in Ss as [Ss F].
      apply ssorted_cons; auto. rewrite Forall_forall in *. intros x Hx.
      apply pl_insert_u_in in Hx. destruct Hx as [->|Hx]; auto. lra.
Qed.

Lemma pl_sort_unique_in : forall l x, In x (sort_unique ROps l) <-> In x l.
Proof.
  induction l as [|a l IH]; intros x; cbn [sort_unique fold_right]; [tauto|].
  fold (sort_unique ROps l). rewrite pl_insert_u_in, IH. cbn. intuition.
Qed.

Lemma pl_sort_unique_sorted : forall l, ssorted (sort_unique ROps l).
Proof.
  induction l as [|a l IH]; cbn [sort_unique fold_right]; [apply ssorted_nil|].
  apply pl_insert_u_sorted; auto.
Qed.

(* pieces as records *)
Notation LP := (@lpiece R).
Definition lp_xl (p : LP) : R := fst (fst (fst p)).
Definition fst3 (e : R * R * R) : R := fst (fst e).
Definition snd3 (e : R * R * R) : R := snd (fst e).

Lemma lp_at_R (p : LP) x :
  lp_at ROps p x = lp_ya p + (lp_yb p - lp_ya p) * (x - lp_xl p) / (lp_xr p - lp_xl p).
Proof. destruct p as [[[xl ya] yb] xr]. reflexivity. Qed.
Lemma lp_at_xl (p : LP) : lp_at ROps p (lp_xl p) = lp_ya p.
Proof. rewrite lp_at_R. unfold Rdiv. ring. Qed.
Lemma lp_at_xr (p : LP) : lp_xl p < lp_xr p -> lp_at ROps p (lp_xr p) = lp_yb p.
Proof. intros. rewrite lp_at_R. field. lra. Qed.

(* a chain of adjacent pieces *)
Fixpoint chain (c : LP) (r : list LP) : Prop :=
  lp_xl c < lp_xr c /\
  match r with [] => True | n :: r' => lp_xl n = lp_xr c /\ chain n r' end.
Fixpoint lastxr (c : LP) (r : list LP) : R :=
  match r with [] => lp_xr c | n :: r' => lastxr n r' end.
(* the right ends of all but the last piece *)
Fixpoint inner (c : LP) (r : list LP) : list R :=
  match r with [] => [] | n :: r' => lp_xr c :: inner n r' end.

Lemma chain_pos c r : chain c r -> lp_xl c < lp_xr c.
Proof. destruct r; cbn; tauto. Qed.
Lemma chain_lastxr : forall r c, chain c r -> lp_xr c <= lastxr c r.
Proof.
  induction r as [|n r IH]; intros c H; cbn [lastxr]; [lra|].
  destruct H as (H1 & H2 & H3). pose proof (IH n H3). pose proof (chain_pos n r H3). lra.
Qed.

Lemma inner_props : forall r c, chain c r ->
  ssorted (inner c r) /\ Forall (fun x => lp_xr c <= x /\ x < lastxr c r) (inner c r).
Proof.
  induction r as [|n r IH]; intros c H; cbn [inner lastxr].
  - split; [apply ssorted_nil | constructor].
  - destruct H as (H1 & H2 & H3). destruct (IH n H3) as [I1 I2].
    pose proof (chain_pos n r H3) as P. pose proof (chain_lastxr r n H3) as Q. split.
    + apply ssorted_cons; auto. eapply Forall_impl; [|apply I2]. cbn; intros; lra.
    + constructor; [lra|]. eapply Forall_impl; [|apply I2]. cbn; intros; lra.
Qed.

(* one-sided limits on chains *)
Fixpoint ch_right (P : list LP) (t : R) : option R :=
  match P with
  | [] => None
  | p :: r => if nleb ROps (lp_xl p) t && Rltb t (lp_xr p) then Some (lp_at ROps p t)
              else ch_right r t
  end.
Fixpoint ch_left (P : list LP) (t : R) : option R :=
  match P with
  | [] => None
  | p :: r => if Rltb (lp_xl p) t && nleb ROps t (lp_xr p) then Some (lp_at ROps p t)
              else ch_left r t
  end.

Lemma pwl_right_lpieces : forall xs y1 y2 t,
  pwl_right ROps xs y1 y2 t = ch_right (lpieces xs y1 y2) t.
Proof.
  induction xs as [|x0 xs IH]; intros y1 y2 t; [reflexivity|].
  destruct xs as [|x1 r]; [reflexivity|].
  destruct y1 as [|ya y1]; [reflexivity|]. destruct y2 as [|yb y2]; [reflexivity|].
  rewrite pwl_right_cons.
  change (lpieces (x0 :: x1 :: r) (ya :: y1) (yb :: y2))
    with ((x0, ya, yb, x1) :: lpieces (x1 :: r) y1 y2).
  cbn [ch_right]. rewrite <- IH. reflexivity.
Qed.
Lemma pwl_left_lpieces : forall xs y1 y2 t,
  pwl_left ROps xs y1 y2 t = ch_left (lpieces xs y1 y2) t.
Proof.
  induction xs as [|x0 xs IH]; intros y1 y2 t; [reflexivity|].
  destruct xs as [|x1 r]; [reflexivity|].
  destruct y1 as [|ya y1]; [reflexivity|]. destruct y2 as [|yb y2]; [reflexivity|].
  rewrite pwl_left_cons.
  change (lpieces (x0 :: x1 :: r) (ya :: y1) (yb :: y2))
    with ((x0, ya, yb, x1) :: lpieces (x1 :: r) y1 y2).
  cbn [ch_left]. rewrite <- IH. reflexivity.
Qed.

Lemma ch_left_head p r x : lp_xl p < x -> x <= lp_xr p -> ch_left (p :: r) x = Some (lp_at ROps p x).
Proof. intros. cbn [ch_left]. rewrite Rltb_t, nleb_t by lra. reflexivity. Qed.
Lemma ch_right_head p r x : lp_xl p <= x -> x < lp_xr p -> ch_right (p :: r) x = Some (lp_at ROps p x).
Proof. intros. cbn [ch_right]. rewrite Rltb_t, nleb_t by lra. reflexivity. Qed.
Lemma ch_left_skip p r x : lp_xr p < x -> ch_left (p :: r) x = ch_left r x.
Proof. intros. cbn [ch_left]. rewrite (nleb_f x) by lra. rewrite andb_false_r. reflexivity. Qed.
Lemma ch_right_skip p r x : lp_xr p <= x -> ch_right (p :: r) x = ch_right r x.
Proof. intros. cbn [ch_right]. rewrite (Rltb_f x) by lra. rewrite andb_false_r. reflexivity. Qed.

(* at the junction between c and n *)
Lemma ch_left_junction c n r : lp_xl c < lp_xr c ->
  ch_left (c :: n :: r) (lp_xr c) = Some (lp_yb c).
Proof. intros. rewrite ch_left_head by lra. rewrite lp_at_xr; auto. Qed.
Lemma ch_right_junction c n r : lp_xl n = lp_xr c -> lp_xl n < lp_xr n ->
  ch_right (c :: n :: r) (lp_xr c) = Some (lp_ya n).
Proof.
  intros E H. rewrite ch_right_skip by lra. rewrite ch_right_head by lra.
  rewrite <- E, lp_at_xl. reflexivity.
Qed.
