(* Lem_Pwl.v — piecewise-linear functions (R instance): integral, evaluation,
   addition, scalar multiple, plottable data. *)
From Coq Require Import List Bool Arith ZArith Reals Lra Lia Sorted Permutation.
Import ListNotations.
From PS Require Import Num RLemmas Valid ModelKernels ModelFuncs ModelAPI Spec SyncDefs.
Local Open Scope R_scope.

(* ------------------------------------------------------------------ *)
(* 0. lists, strictly sorted lists, searchsorted                       *)

Lemma nthF_R l i : nthF ROps l i = nth i l 0.
Proof. reflexivity. Qed.
Lemma lastF_R l : lastF ROps l = last l 0.
Proof. reflexivity. Qed.

Lemma last_nth (l : list R) d : last l d = nth (length l - 1) l d.
Proof.
  induction l as [|x [|y r] IH]; auto.
  change (last (x :: y :: r) d) with (last (y :: r) d). rewrite IH.
  cbn [length]. replace (S (S (length r)) - 1)%nat with (S (length r - 0)) by lia.
  cbn [nth]. replace (S (length r) - 1)%nat with (length r - 0)%nat by lia. reflexivity.
Qed.

Lemma skipn_nth_cons (l : list R) k d : (k < length l)%nat ->
  skipn k l = nth k l d :: skipn (S k) l.
Proof.
  revert k; induction l as [|x r IH]; intros k Hk; cbn [length] in Hk; [lia|].
  destruct k as [|k]; [reflexivity|]. cbn [skipn nth]. rewrite (IH k) by lia. reflexivity.
Qed.

Lemma nth_skipn (l : list R) k i d : nth i (skipn k l) d = nth (k + i) l d.
Proof.
  revert k; induction l as [|x r IH]; intros k.
  - rewrite skipn_nil. destruct i, k; reflexivity.
  - destruct k as [|k]; [reflexivity|]. cbn [skipn]. rewrite IH. reflexivity.
Qed.

Lemma ssorted_head_le x l i : ssorted (x :: l) -> (i < length (x :: l))%nat ->
  x <= nth i (x :: l) 0.
Proof.
  intros S Hi. apply ssorted_cons_inv in S as [_ F]. destruct i as [|i]; cbn [nth]; [lra|].
  cbn [length] in Hi. rewrite Forall_forall in F. left. apply F. apply nth_In. lia.
Qed.

Lemma ssorted_head_lt x l i : ssorted (x :: l) -> (i < length l)%nat ->
  x < nth i l 0.
Proof.
  intros S Hi. apply ssorted_cons_inv in S as [_ F].
  rewrite Forall_forall in F. apply F. apply nth_In. lia.
Qed.

Lemma ssorted_nth_lt l : ssorted l -> forall i j, (i < j)%nat -> (j < length l)%nat ->
  nth i l 0 < nth j l 0.
Proof.
  induction l as [|x r IH]; intros S i j Hij Hj; cbn [length] in Hj; [lia|].
  destruct j as [|j]; [lia|]. destruct i as [|i]; cbn [nth].
  - apply ssorted_head_lt with (l := r); auto. lia.
  - apply ssorted_cons_inv in S as [S _]. apply IH; auto; lia.
Qed.

Lemma ssorted_nth_le l : ssorted l -> forall i j, (i <= j)%nat -> (j < length l)%nat ->
  nth i l 0 <= nth j l 0.
Proof.
  intros S i j Hij Hj. destruct (Nat.eq_dec i j) as [->|N]; [lra|].
  left. apply ssorted_nth_lt; auto. lia.
Qed.

Lemma ssorted_skipn l k : ssorted l -> ssorted (skipn k l).
Proof.
  revert k; induction l as [|x r IH]; intros k S; destruct k; auto.
  cbn [skipn]. apply IH. apply ssorted_cons_inv in S. tauto.
Qed.

Lemma count_le_cons a x r :
  count_le ROps a (x :: r) = if nleb ROps x a then S (count_le ROps a r) else count_le ROps a r.
Proof. unfold count_le. cbn [filter]. destruct (nleb ROps x a); reflexivity. Qed.
Lemma count_lt_cons a x r :
  count_lt ROps a (x :: r) = if Rltb x a then S (count_lt ROps a r) else count_lt ROps a r.
Proof. unfold count_lt. cbn [filter nltb ROps]. destruct (Rltb x a); reflexivity. Qed.

Lemma count_le_zero a r : Forall (fun y => a < y) r -> count_le ROps a r = 0%nat.
Proof.
  induction 1 as [|y r H _ IH]; [reflexivity|]. rewrite count_le_cons.
  destruct (nleb ROps y a) eqn:E; auto. apply nleb_true in E. lra.
Qed.
Lemma count_lt_zero a r : Forall (fun y => a <= y) r -> count_lt ROps a r = 0%nat.
Proof.
  induction 1 as [|y r H _ IH]; [reflexivity|]. rewrite count_lt_cons.
  destruct (Rltb_spec y a); auto. lra.
Qed.

Lemma count_le_iff xs a : ssorted xs -> forall i, (i < length xs)%nat ->
  ((i < count_le ROps a xs)%nat <-> nth i xs 0 <= a).
Proof.
  induction xs as [|x r IH]; intros S i Hi; cbn [length] in Hi; [lia|].
  rewrite count_le_cons. destruct (nleb ROps x a) eqn:E.
  - apply nleb_true in E. destruct i as [|i]; cbn [nth].
    + split; intros; [lra|lia].
    + apply ssorted_cons_inv in S as [S _]. rewrite <- (IH S i) by lia. lia.
  - apply nleb_false in E. rewrite count_le_zero.
    + pose proof (ssorted_head_le x r i S Hi). split; intros; [lia|lra].
    + apply ssorted_cons_inv in S as [_ F]. eapply Forall_impl; [|apply F]. cbn; intros; lra.
Qed.

Lemma count_lt_iff xs a : ssorted xs -> forall i, (i < length xs)%nat ->
  ((i < count_lt ROps a xs)%nat <-> nth i xs 0 < a).
Proof.
  induction xs as [|x r IH]; intros S i Hi; cbn [length] in Hi; [lia|].
  rewrite count_lt_cons. destruct (Rltb_spec x a) as [E|E].
  - destruct i as [|i]; cbn [nth].
    + split; intros; [lra|lia].
    + apply ssorted_cons_inv in S as [S _]. rewrite <- (IH S i) by lia. lia.
  - rewrite count_lt_zero.
    + pose proof (ssorted_head_le x r i S Hi). split; intros; [lia|lra].
    + apply ssorted_cons_inv in S as [_ F]. eapply Forall_impl; [|apply F]. cbn; intros; lra.
Qed.

Lemma filter_len_le {A} (p : A -> bool) l : (length (filter p l) <= length l)%nat.
Proof. induction l as [|x r IH]; cbn [filter length]; [lia|]. destruct (p x); cbn [length]; lia. Qed.
Lemma count_le_len a xs : (count_le ROps a xs <= length xs)%nat.
Proof. unfold count_le. apply filter_len_le. Qed.
Lemma count_lt_len a xs : (count_lt ROps a xs <= length xs)%nat.
Proof. unfold count_lt. apply filter_len_le. Qed.

(* position of t in a sorted array: xs[k] <= t < xs[k+1] *)
Lemma count_le_eq xs t k : ssorted xs -> (k < length xs)%nat -> nth k xs 0 <= t ->
  ((S k < length xs)%nat -> t < nth (S k) xs 0) -> count_le ROps t xs = S k.
Proof.
  intros Ss Hk H1 H2. pose proof (count_le_len t xs) as HL.
  assert (A : (k < count_le ROps t xs)%nat) by (apply count_le_iff; auto).
  destruct (Nat.lt_ge_cases (S k) (length xs)) as [L|L]; [|lia].
  assert (B : ~ (S k < count_le ROps t xs)%nat).
  { rewrite count_le_iff; auto. specialize (H2 L). lra. }
  lia.
Qed.
Lemma count_lt_eq xs t k : ssorted xs -> (k < length xs)%nat -> nth k xs 0 < t ->
  ((S k < length xs)%nat -> t <= nth (S k) xs 0) -> count_lt ROps t xs = S k.
Proof.
  intros Ss Hk H1 H2. pose proof (count_lt_len t xs) as HL.
  assert (A : (k < count_lt ROps t xs)%nat) by (apply count_lt_iff; auto).
  destruct (Nat.lt_ge_cases (S k) (length xs)) as [L|L]; [|lia].
  assert (B : ~ (S k < count_lt ROps t xs)%nat).
  { rewrite count_lt_iff; auto. specialize (H2 L). lra. }
  lia.
Qed.

(* ------------------------------------------------------------------ *)
(* 1. the overlap integral                                             *)

Ltac mm := unfold Rmax, Rmin in *;
  repeat match goal with
         | |- context [Rle_dec ?a ?b] => destruct (Rle_dec a b)
         | H : context [Rle_dec ?a ?b] |- _ => destruct (Rle_dec a b)
         end; try lra.

Lemma lin_R x0 x1 ya yb t : lin ROps x0 x1 ya yb t = ya + (yb - ya) * (t - x0) / (x1 - x0).
Proof. reflexivity. Qed.
Lemma interm_lin x0 x1 ya yb t : interm ROps x0 x1 ya yb t = lin ROps x0 x1 ya yb t.
Proof. reflexivity. Qed.
Lemma lin_left x0 x1 ya yb : lin ROps x0 x1 ya yb x0 = ya.
Proof. rewrite lin_R. unfold Rdiv. ring. Qed.
Lemma lin_right x0 x1 ya yb : x0 < x1 -> lin ROps x0 x1 ya yb x1 = yb.
Proof. intros. rewrite lin_R. field. lra. Qed.

(* exact integral of the line over [u,v] *)
Definition trap x0 x1 ya yb u v : R :=
  (lin ROps x0 x1 ya yb u + lin ROps x0 x1 ya yb v) / 2 * (v - u).
Definition clamp (x0 x1 t : R) : R := Rmax x0 (Rmin t x1).
Definition pc x0 x1 ya yb a b : R :=
  if Rltb (Rmax a x0) (Rmin b x1) then trap x0 x1 ya yb (Rmax a x0) (Rmin b x1) else 0.

Lemma overlap_cons x0 x1 r ya y1 yb y2 a b :
  pwl_overlap ROps (x0 :: x1 :: r) (ya :: y1) (yb :: y2) a b
  = pc x0 x1 ya yb a b + pwl_overlap ROps (x1 :: r) y1 y2 a b.
Proof. cbn [pwl_overlap]. rops. reflexivity. Qed.

Lemma overlap_nil1 xs y2 a b : pwl_overlap ROps xs [] y2 a b = 0.
Proof. destruct xs as [|? [|? ?]]; reflexivity. Qed.
Lemma overlap_nil2 xs y1 a b : pwl_overlap ROps xs y1 [] a b = 0.
Proof. destruct xs as [|? [|? ?]]; destruct y1; reflexivity. Qed.
Lemma overlap_single x y1 y2 a b : pwl_overlap ROps [x] y1 y2 a b = 0.
Proof. reflexivity. Qed.

Lemma trap_add x0 x1 ya yb u v w :
  trap x0 x1 ya yb u v + trap x0 x1 ya yb v w = trap x0 x1 ya yb u w.
Proof. unfold trap. rewrite !lin_R. unfold Rdiv. ring. Qed.
Lemma trap_same x0 x1 ya yb u : trap x0 x1 ya yb u u = 0.
Proof. unfold trap. unfold Rdiv. ring. Qed.

Lemma pc_clamp x0 x1 ya yb a b : x0 < x1 -> a <= b ->
  pc x0 x1 ya yb a b = trap x0 x1 ya yb (clamp x0 x1 a) (clamp x0 x1 b).
Proof.
  intros Hx Hab. unfold pc, clamp. destruct (Rltb_spec (Rmax a x0) (Rmin b x1)) as [H|H].
  - replace (Rmax x0 (Rmin a x1)) with (Rmax a x0) by mm.
    replace (Rmax x0 (Rmin b x1)) with (Rmin b x1) by mm. reflexivity.
  - replace (Rmax x0 (Rmin a x1)) with (Rmax x0 (Rmin b x1)) by mm.
    rewrite trap_same. reflexivity.
Qed.

Lemma pc_zero_r x0 x1 ya yb a b : b <= x0 -> pc x0 x1 ya yb a b = 0.
Proof. intros. unfold pc. destruct (Rltb_spec (Rmax a x0) (Rmin b x1)) as [H1|H1]; auto. mm. Qed.
Lemma pc_zero_l x0 x1 ya yb a b : x1 <= a -> pc x0 x1 ya yb a b = 0.
Proof. intros. unfold pc. destruct (Rltb_spec (Rmax a x0) (Rmin b x1)) as [H1|H1]; auto. mm. Qed.
Lemma pc_inside x0 x1 ya yb a b : x0 <= a -> a < b -> b <= x1 ->
  pc x0 x1 ya yb a b = trap x0 x1 ya yb a b.
Proof.
  intros. unfold pc. replace (Rmax a x0) with a by mm. replace (Rmin b x1) with b by mm.
  destruct (Rltb_spec a b); auto. lra.
Qed.

Theorem pwl_overlap_additive : forall xs y1s y2s a b c, ssorted xs -> a <= b -> b <= c ->
  pwl_overlap ROps xs y1s y2s a b + pwl_overlap ROps xs y1s y2s b c
  = pwl_overlap ROps xs y1s y2s a c.
Proof.
  induction xs as [|x0 xs IH]; intros y1s y2s a b c Ss Hab Hbc; [cbn; lra|].
  destruct xs as [|x1 r]; [cbn; lra|].
  destruct y1s as [|ya y1]; [rewrite !overlap_nil1; lra|].
  destruct y2s as [|yb y2]; [rewrite !overlap_nil2; lra|].
  rewrite !overlap_cons. pose proof Ss as Ss'. apply ssorted_cons_inv in Ss' as [S1 F1].
  assert (Hx : x0 < x1) by (inversion F1; auto).
  rewrite !pc_clamp by lra. rewrite <- (IH y1 y2 a b c S1 Hab Hbc).
  rewrite <- (trap_add x0 x1 ya yb (clamp x0 x1 a) (clamp x0 x1 b) (clamp x0 x1 c)). ring.
Qed.

Lemma overlap_zero_right xs y1 y2 a b : ssorted xs -> (forall x, In x xs -> b <= x) ->
  pwl_overlap ROps xs y1 y2 a b = 0.
Proof.
  revert y1 y2; induction xs as [|x0 xs IH]; intros y1 y2 Ss Hb; [reflexivity|].
  destruct xs as [|x1 r]; [reflexivity|].
  destruct y1 as [|ya y1]; [apply overlap_nil1|]. destruct y2 as [|yb y2]; [apply overlap_nil2|].
  rewrite overlap_cons, pc_zero_r by (apply Hb; left; auto).
  rewrite IH; [lra| apply ssorted_cons_inv in Ss; tauto | intros; apply Hb; right; auto].
Qed.

Lemma overlap_same xs y1 y2 a : ssorted xs -> pwl_overlap ROps xs y1 y2 a a = 0.
Proof.
  intros Ss. pose proof (pwl_overlap_additive xs y1 y2 a a a Ss). lra.
Qed.

(* pieces left of [a] do not contribute *)
Lemma overlap_skip k : forall xs y1 y2 a b, ssorted xs -> (k < length xs)%nat ->
  nth k xs 0 <= a ->
  pwl_overlap ROps xs y1 y2 a b = pwl_overlap ROps (skipn k xs) (skipn k y1) (skipn k y2) a b.
Proof.
  induction k as [|k IH]; intros xs y1 y2 a b Ss Hk Ha; [reflexivity|].
  destruct xs as [|x0 xs]; cbn [length] in Hk; [lia|].
  destruct xs as [|x1 r]; cbn [length] in Hk; [lia|].
  destruct y1 as [|ya y1]; [rewrite skipn_nil, !overlap_nil1; auto|].
  destruct y2 as [|yb y2]; [rewrite skipn_nil, !overlap_nil2; auto|].
  rewrite overlap_cons. cbn [skipn].
  change (nth (S k) (x0 :: x1 :: r) 0) with (nth k (x1 :: r) 0) in Ha.
  pose proof Ss as Ss'. apply ssorted_cons_inv in Ss' as [S1 _].
  rewrite pc_zero_l.
  - rewrite <- (IH (x1 :: r) y1 y2 a b S1 ltac:(cbn [length]; lia) Ha). ring.
  - pose proof (ssorted_head_le x1 r k S1). cbn [length] in H. specialize (H ltac:(lia)). lra.
Qed.

Lemma pc_full x0 x1 ya yb a b : a <= x0 -> x0 < x1 -> x1 <= b ->
  pc x0 x1 ya yb a b = (x1 - x0) * ((ya + yb) / 2).
Proof.
  intros. unfold pc. replace (Rmax a x0) with x0 by mm. replace (Rmin b x1) with x1 by mm.
  destruct (Rltb_spec x0 x1); [|lra]. unfold trap. rewrite lin_left, lin_right by lra. field.
Qed.

Lemma int_all_cons x0 x1 r ya y1 yb y2 :
  pwl_int_all ROps (x0 :: x1 :: r) (ya :: y1) (yb :: y2)
  = (x1 - x0) * ((ya + yb) / 2) + pwl_int_all ROps (x1 :: r) y1 y2.
Proof. cbn [pwl_int_all]. rops. reflexivity. Qed.
Lemma int_all_nil1 xs y2 : pwl_int_all ROps xs [] y2 = 0.
Proof. destruct xs as [|? [|? ?]]; reflexivity. Qed.
Lemma int_all_nil2 xs y1 : pwl_int_all ROps xs y1 [] = 0.
Proof. destruct xs as [|? [|? ?]]; destruct y1; reflexivity. Qed.

(* full pieces: [a] at or left of the first breakpoint, [b] a breakpoint *)
Lemma overlap_full : forall xs y1 y2 a e, ssorted xs -> (e < length xs)%nat ->
  (forall x, In x xs -> a <= x) ->
  pwl_overlap ROps xs y1 y2 a (nth e xs 0)
  = pwl_int_all ROps (firstn (S e) xs) (firstn e y1) (firstn e y2).
Proof.
  induction xs as [|x0 xs IH]; intros y1 y2 a e Ss He Ha; cbn [length] in He; [lia|].
  destruct xs as [|x1 r].
  { cbn [length] in He. destruct e; [|lia]. reflexivity. }
  pose proof Ss as Ss'. apply ssorted_cons_inv in Ss' as [S1 F1].
  assert (Hx : x0 < x1) by (inversion F1; auto).
  destruct e as [|e].
  { change (nth 0 (x0 :: x1 :: r) 0) with x0. rewrite overlap_zero_right; auto.
    intros x [<-|Hx']; [lra|]. rewrite Forall_forall in F1. left. auto. }
  change (nth (S e) (x0 :: x1 :: r) 0) with (nth e (x1 :: r) 0).
  change (firstn (S (S e)) (x0 :: x1 :: r)) with (x0 :: x1 :: firstn e r).
  destruct y1 as [|ya y1]; [rewrite overlap_nil1, int_all_nil1; auto|].
  destruct y2 as [|yb y2]; [rewrite overlap_nil2, int_all_nil2; auto|].
  cbn [firstn]. rewrite overlap_cons, int_all_cons.
  cbn [length] in He.
  rewrite pc_full; auto.
  - rewrite (IH y1 y2 a e S1); [reflexivity | cbn [length]; lia |].
    intros x Hx'. assert (a <= x0) by (apply Ha; left; auto).
    destruct Hx' as [<-|Hx']; [lra|]. rewrite Forall_forall in F1.
    assert (x0 < x) by (apply F1; right; auto). lra.
  - apply Ha; left; auto.
  - apply (ssorted_head_le x1 r e S1). cbn [length]; lia.
Qed.

Lemma wf_pwl_inv xs y1 y2 : wf_pwl (xs, y1, y2) ->
  ssorted xs /\ (2 <= length xs)%nat /\ length xs = S (length y1) /\ length y1 = length y2.
Proof. unfold wf_pwl, wf_x. cbn [fst snd]. tauto. Qed.

Lemma ssorted_head_min x l y : ssorted (x :: l) -> In y (x :: l) -> x <= y.
Proof.
  intros Ss [<-|H]; [lra|]. apply ssorted_cons_inv in Ss as [_ F].
  rewrite Forall_forall in F. left; auto.
Qed.

Lemma skipn_ge xs k x : ssorted xs -> (k < length xs)%nat -> In x (skipn k xs) -> nth k xs 0 <= x.
Proof.
  intros Ss Hk Hx. pose proof (ssorted_skipn xs k Ss) as S1.
  rewrite (skipn_nth_cons xs k 0 Hk) in *. eapply ssorted_head_min; eauto.
Qed.

Lemma nth0_min xs x : ssorted xs -> In x xs -> nth 0 xs 0 <= x.
Proof.
  intros Ss Hx. apply (skipn_ge xs 0 x Ss); auto. destruct xs; [destruct Hx | cbn; lia].
Qed.

Theorem pwl_integral_none : forall f, wf_pwl f ->
  pwl_integral ROps f None
  = Ok (pwl_overlap ROps (fst (fst f)) (snd (fst f)) (snd f)
          (nthF ROps (fst (fst f)) 0) (lastF ROps (fst (fst f)))).
Proof.
  intros [[xs y1] y2] W. apply wf_pwl_inv in W as (Ss & Hn & L1 & L2). cbn [fst snd].
  cbn [pwl_integral]. f_equal. rewrite lastF_R, nthF_R, last_nth.
  rewrite overlap_full; auto; [| lia | intros; apply nth0_min; auto].
  replace (S (length xs - 1)) with (length xs) by lia.
  rewrite firstn_all. replace (length xs - 1)%nat with (length y1) by lia.
  rewrite firstn_all. rewrite L2, firstn_all. reflexivity.
Qed.

(* both ends inside piece k *)
Lemma overlap_one xs y1 y2 k a b : ssorted xs -> (S k < length xs)%nat ->
  (k < length y1)%nat -> (k < length y2)%nat ->
  nth k xs 0 <= a -> a < b -> b <= nth (S k) xs 0 ->
  pwl_overlap ROps xs y1 y2 a b
  = trap (nth k xs 0) (nth (S k) xs 0) (nth k y1 0) (nth k y2 0) a b.
Proof.
  intros Ss Hk K1 K2 Ha Hab Hb. rewrite (overlap_skip k); auto; [|lia].
  pose proof (ssorted_skipn xs (S k) Ss) as S1.
  rewrite (skipn_nth_cons xs k 0) by lia. rewrite (skipn_nth_cons y1 k 0), (skipn_nth_cons y2 k 0) by lia.
  rewrite (skipn_nth_cons xs (S k) 0) in * by lia.
  rewrite overlap_cons, pc_inside by auto. rewrite overlap_zero_right; auto; [lra|].
  intros x Hx. pose proof (ssorted_head_min _ _ x S1 Hx). lra.
Qed.

Theorem pwl_integral_overlap : forall f a b, wf_pwl f ->
  nthF ROps (fst (fst f)) 0 <= a -> a < b -> b <= lastF ROps (fst (fst f)) ->
  pwl_integral ROps f (Some (a, b))
  = Ok (pwl_overlap ROps (fst (fst f)) (snd (fst f)) (snd f) a b).
Proof.
  intros [[xs y1] y2] a b W. apply wf_pwl_inv in W as (Ss & Hn & L1 & L2). cbn [fst snd].
  rewrite lastF_R, nthF_R, last_nth. intros Ha Hab Hb.
  pose proof (count_le_len a xs) as Hsl. pose proof (count_lt_len b xs) as Hcl.
  assert (Hs1 : (0 < count_le ROps a xs)%nat) by (apply count_le_iff; auto; lia).
  assert (Hs2 : (count_le ROps a xs < length xs)%nat).
  { assert (~ (length xs - 1 < count_le ROps a xs)%nat); [|lia].
    rewrite count_le_iff; auto; [lra|lia]. }
  assert (Hsa : nth (count_le ROps a xs - 1) xs 0 <= a) by (apply count_le_iff; auto; lia).
  assert (Hsb : a < nth (count_le ROps a xs) xs 0).
  { assert (~ (count_le ROps a xs < count_le ROps a xs)%nat) as N by lia.
    rewrite count_le_iff in N; auto; lra. }
  assert (Hc1 : (count_lt ROps b xs < length xs)%nat).
  { assert (~ (length xs - 1 < count_lt ROps b xs)%nat); [|lia].
    rewrite count_lt_iff; auto; [lra|lia]. }
  assert (Hc2 : (count_le ROps a xs <= count_lt ROps b xs)%nat).
  { assert (count_le ROps a xs - 1 < count_lt ROps b xs)%nat; [|lia].
    apply count_lt_iff; auto; [lia|lra]. }
  assert (Hcb : b <= nth (count_lt ROps b xs) xs 0).
  { assert (~ (count_lt ROps b xs < count_lt ROps b xs)%nat) as N by lia.
    rewrite count_lt_iff in N; auto; lra. }
  assert (Hca : nth (count_lt ROps b xs - 1) xs 0 < b) by (apply count_lt_iff; auto; lia).
  unfold pwl_integral. cbv zeta.
  destruct (count_le ROps a xs) as [|k] eqn:Es; [lia|].
  destruct (count_lt ROps b xs) as [|e] eqn:Ec; [lia|].
  replace (S k - 1)%nat with k in * by lia. replace (S e - 1)%nat with e in * by lia.
  replace (e + 1)%nat with (S e) by lia.
  destruct (Nat.ltb_spec 0 (S k)) as [_|]; [|lia].
  destruct (Nat.leb_spec (S e) (length xs)) as [_|]; [|lia]. cbn [andb negb].
  assert (Hkx : nth k xs 0 < nth (S k) xs 0) by (apply ssorted_nth_lt; auto; lia).
  rewrite !nthF_R. change (interm ROps) with (lin ROps).
  destruct (Nat.leb_spec (S e) (S k)) as [Q|Q].
  - assert (e = k) by lia. subst e. f_equal.
    rewrite (overlap_one xs y1 y2 k a b); auto; try lia.
  - f_equal. assert (Hex : nth e xs 0 < nth (S e) xs 0) by (apply ssorted_nth_lt; auto; lia).
    assert (Hke : nth (S k) xs 0 <= nth e xs 0) by (apply ssorted_nth_le; auto; lia).
    rewrite <- (pwl_overlap_additive xs y1 y2 a (nth (S k) xs 0) b) by (auto; lra).
    rewrite <- (pwl_overlap_additive xs y1 y2 (nth (S k) xs 0) (nth e xs 0) b) by (auto; lra).
    rewrite (overlap_one xs y1 y2 k a (nth (S k) xs 0)); auto; try lia; try lra.
    rewrite (overlap_one xs y1 y2 e (nth e xs 0) b); auto; try lia; try lra.
    rewrite (overlap_skip (S k) xs y1 y2 (nth (S k) xs 0) (nth e xs 0)); auto; try lra.
    assert (E : pwl_overlap ROps (skipn (S k) xs) (skipn (S k) y1) (skipn (S k) y2)
                  (nth (S k) xs 0) (nth e xs 0)
                = pwl_int_all ROps (slice xs (S k) (S e)) (slice y1 (S k) e) (slice y2 (S k) e)).
    { replace (nth e xs 0) with (nth (e - S k) (skipn (S k) xs) 0)
        by (rewrite nth_skipn; f_equal; lia).
      rewrite overlap_full.
      - unfold slice. replace (S e - S k)%nat with (S (e - S k)) by lia. reflexivity.
      - apply ssorted_skipn; auto.
      - rewrite skipn_length. lia.
      - intros x Hx. apply skipn_ge; auto. }
    rewrite E. unfold trap. rewrite lin_right, lin_left by lra.
    rops. unfold Rdiv. ring.
Qed.

Theorem pwl_avrg_one : forall f a b, wf_pwl f ->
  nthF ROps (fst (fst f)) 0 <= a -> a < b -> b <= lastF ROps (fst (fst f)) ->
  pwl_avrg ROps f (IvOne a b)
  = Ok (pwl_overlap ROps (fst (fst f)) (snd (fst f)) (snd f) a b / (b - a)).
Proof.
  intros f a b W Ha Hab Hb. unfold pwl_avrg, avrg_gen.
  rewrite pwl_integral_overlap; auto.
Qed.

(* ------------------------------------------------------------------ *)
(* 2. evaluation                                                       *)

Lemma pwl_right_cons x0 x1 r ya y1 yb y2 t :
  pwl_right ROps (x0 :: x1 :: r) (ya :: y1) (yb :: y2) t
  = if nleb ROps x0 t && Rltb t x1 then Some (lin ROps x0 x1 ya yb t)
    else pwl_right ROps (x1 :: r) y1 y2 t.
Proof. reflexivity. Qed.
Lemma pwl_left_cons x0 x1 r ya y1 yb y2 t :
  pwl_left ROps (x0 :: x1 :: r) (ya :: y1) (yb :: y2) t
  = if Rltb x0 t && nleb ROps t x1 then Some (lin ROps x0 x1 ya yb t)
    else pwl_left ROps (x1 :: r) y1 y2 t.
Proof. reflexivity. Qed.

Lemma nleb_t x y : x <= y -> nleb ROps x y = true.
Proof. apply nleb_true. Qed.
Lemma nleb_f x y : y < x -> nleb ROps x y = false.
Proof. apply nleb_false. Qed.
Lemma Rltb_t x y : x < y -> Rltb x y = true.
Proof. apply Rltb_true. Qed.
Lemma Rltb_f x y : y <= x -> Rltb x y = false.
Proof. apply Rltb_false. Qed.

Lemma pwl_right_at : forall xs y1 y2 k t, ssorted xs -> (S k < length xs)%nat ->
  (k < length y1)%nat -> (k < length y2)%nat -> nth k xs 0 <= t -> t < nth (S k) xs 0 ->
  pwl_right ROps xs y1 y2 t
  = Some (lin ROps (nth k xs 0) (nth (S k) xs 0) (nth k y1 0) (nth k y2 0) t).
Proof.
  induction xs as [|x0 xs IH]; intros y1 y2 k t Ss Hk K1 K2 H1 H2; cbn [length] in Hk; [lia|].
  destruct xs as [|x1 r]; cbn [length] in Hk; [lia|].
  destruct y1 as [|ya y1]; cbn [length] in K1; [lia|].
  destruct y2 as [|yb y2]; cbn [length] in K2; [lia|].
  rewrite pwl_right_cons. pose proof Ss as Ss'. apply ssorted_cons_inv in Ss' as [S1 _].
  destruct k as [|k].
  - cbn [nth] in *. rewrite nleb_t, Rltb_t by lra. reflexivity.
  - change (nth (S k) (x0 :: x1 :: r) 0) with (nth k (x1 :: r) 0) in *.
    change (nth (S (S k)) (x0 :: x1 :: r) 0) with (nth (S k) (x1 :: r) 0) in *.
    pose proof (ssorted_head_le x1 r k S1 ltac:(cbn [length]; lia)).
    rewrite (Rltb_f t x1) by lra. rewrite andb_false_r.
    rewrite (IH y1 y2 k t S1); auto; cbn [length]; lia.
Qed.

Lemma pwl_left_at : forall xs y1 y2 k t, ssorted xs -> (S k < length xs)%nat ->
  (k < length y1)%nat -> (k < length y2)%nat -> nth k xs 0 < t -> t <= nth (S k) xs 0 ->
  pwl_left ROps xs y1 y2 t
  = Some (lin ROps (nth k xs 0) (nth (S k) xs 0) (nth k y1 0) (nth k y2 0) t).
Proof.
  induction xs as [|x0 xs IH]; intros y1 y2 k t Ss Hk K1 K2 H1 H2; cbn [length] in Hk; [lia|].
  destruct xs as [|x1 r]; cbn [length] in Hk; [lia|].
  destruct y1 as [|ya y1]; cbn [length] in K1; [lia|].
  destruct y2 as [|yb y2]; cbn [length] in K2; [lia|].
  rewrite pwl_left_cons. pose proof Ss as Ss'. apply ssorted_cons_inv in Ss' as [S1 _].
  destruct k as [|k].
  - cbn [nth] in *. rewrite nleb_t, Rltb_t by lra. reflexivity.
  - change (nth (S k) (x0 :: x1 :: r) 0) with (nth k (x1 :: r) 0) in *.
    change (nth (S (S k)) (x0 :: x1 :: r) 0) with (nth (S k) (x1 :: r) 0) in *.
    pose proof (ssorted_head_le x1 r k S1 ltac:(cbn [length]; lia)).
    rewrite (nleb_f t x1) by lra. rewrite andb_false_r.
    rewrite (IH y1 y2 k t S1); auto; cbn [length]; lia.
Qed.

Lemma pwl_right_none_hi : forall xs y1 y2 t, (forall x, In x xs -> x <= t) ->
  pwl_right ROps xs y1 y2 t = None.
Proof.
  induction xs as [|x0 xs IH]; intros y1 y2 t H; [reflexivity|].
  destruct xs as [|x1 r]; [reflexivity|].
  destruct y1 as [|ya y1]; [reflexivity|]. destruct y2 as [|yb y2]; [reflexivity|].
  rewrite pwl_right_cons. rewrite (Rltb_f t x1) by (apply H; right; left; auto).
  rewrite andb_false_r. apply IH. intros; apply H; right; auto.
Qed.
Lemma pwl_left_none_lo : forall xs y1 y2 t, (forall x, In x xs -> t <= x) ->
  pwl_left ROps xs y1 y2 t = None.
Proof.
  induction xs as [|x0 xs IH]; intros y1 y2 t H; [reflexivity|].
  destruct xs as [|x1 r]; [reflexivity|].
  destruct y1 as [|ya y1]; [reflexivity|]. destruct y2 as [|yb y2]; [reflexivity|].
  rewrite pwl_left_cons. rewrite (Rltb_f x0 t) by (apply H; left; auto).
  rewrite andb_false_l. apply IH. intros; apply H; right; auto.
Qed.

Lemma nth_last_max xs x : ssorted xs -> In x xs -> x <= nth (length xs - 1) xs 0.
Proof.
  intros Ss Hx. destruct (In_nth xs x 0 Hx) as (i & Hi & <-). apply ssorted_nth_le; auto; lia.
Qed.

Lemma existsb_eq_in xs t : existsb (fun x => neqb ROps x t) xs = true <-> In t xs.
Proof.
  rewrite existsb_exists. cbn [neqb ROps]. split.
  - intros (x & Hx & E). apply Reqb_true in E. subst; auto.
  - intros H. exists t; split; auto. apply Reqb_true; auto.
Qed.

(* where t sits in the breakpoint array, with both searchsorted results *)
Lemma classify xs t : ssorted xs -> (2 <= length xs)%nat ->
  nth 0 xs 0 <= t -> t <= nth (length xs - 1) xs 0 ->
  (t = nth 0 xs 0 /\ count_le ROps t xs = 1%nat /\ count_lt ROps t xs = 0%nat)
  \/ (t = nth (length xs - 1) xs 0 /\ count_le ROps t xs = length xs
      /\ count_lt ROps t xs = (length xs - 1)%nat)
  \/ (exists k, (1 <= k)%nat /\ (S k < length xs)%nat /\ t = nth k xs 0
      /\ count_le ROps t xs = S k /\ count_lt ROps t xs = k)
  \/ (exists k, (S k < length xs)%nat /\ nth k xs 0 < t /\ t < nth (S k) xs 0
      /\ count_le ROps t xs = S k /\ count_lt ROps t xs = S k /\ ~ In t xs).
Proof.
  intros Ss Hn H0 Hl.
  assert (EQ : forall k, (k < length xs)%nat -> t = nth k xs 0 ->
               count_le ROps t xs = S k /\ count_lt ROps t xs = k).
  { intros k Hk E. split.
    - apply count_le_eq; auto; [lra|]. intros L. rewrite E. apply ssorted_nth_lt; auto.
    - destruct k as [|k].
      + assert (~ (0 < count_lt ROps t xs)%nat); [|lia]. rewrite count_lt_iff; auto. lra.
      + apply count_lt_eq; auto; try lia.
        * rewrite E. apply ssorted_nth_lt; auto.
        * intros; lra. }
  pose proof (count_le_len t xs) as Hsl.
  assert (Hs1 : (0 < count_le ROps t xs)%nat) by (apply count_le_iff; auto; lia).
  assert (Hsa : nth (count_le ROps t xs - 1) xs 0 <= t) by (apply count_le_iff; auto; lia).
  assert (Hsb : (count_le ROps t xs < length xs)%nat -> t < nth (count_le ROps t xs) xs 0).
  { intros L. assert (~ (count_le ROps t xs < count_le ROps t xs)%nat) as N by lia.
    rewrite count_le_iff in N; auto; lra. }
  destruct (count_le ROps t xs) as [|k] eqn:Es; [lia|].
  replace (S k - 1)%nat with k in * by lia.
  destruct (Req_dec t (nth k xs 0)) as [E|NE].
  - destruct (EQ k ltac:(lia) E) as [E1 E2].
    destruct k as [|k]; [left; auto|]. right.
    destruct (Nat.eq_dec (S k) (length xs - 1)) as [E3|N3].
    + left. rewrite <- E3. repeat split; auto. lia.
    + right; left. exists (S k). repeat split; auto; lia.
  - right; right; right. exists k.
    assert (L : (S k < length xs)%nat).
    { destruct (Nat.eq_dec (S k) (length xs)) as [E3|N3]; [|lia].
      replace (length xs - 1)%nat with k in Hl by lia. lra. }
    specialize (Hsb L). repeat split; auto; try lra.
    + apply count_lt_eq; auto; try lia; try lra.
    + intros Hin. destruct (In_nth xs t 0 Hin) as (j & Hj & Ej).
      destruct (Nat.le_gt_cases j k) as [Q|Q].
      * pose proof (ssorted_nth_le xs Ss j k Q ltac:(lia)). lra.
      * pose proof (ssorted_nth_le xs Ss (S k) j Q Hj). lra.
Qed.

Ltac natb :=
  repeat match goal with
         | |- context [Nat.eqb ?a ?b] => destruct (Nat.eqb_spec a b); try lia
         | |- context [Nat.ltb ?a ?b] => destruct (Nat.ltb_spec a b); try lia
         end.

Lemma Reqb_t x y : x = y -> Reqb x y = true.
Proof. apply Reqb_true. Qed.
Lemma Reqb_f x y : x <> y -> Reqb x y = false.
Proof. apply Reqb_false. Qed.

Theorem pwl_call_scalar_eval : forall f t, wf_pwl f ->
  nthF ROps (fst (fst f)) 0 <= t -> t <= lastF ROps (fst (fst f)) ->
  exists v, pwl_eval ROps f t = Some v /\ pwl_call_scalar ROps f t = Ok v.
Proof.
  intros [[xs y1] y2] t W. apply wf_pwl_inv in W as (Ss & Hn & L1 & L2). cbn [fst snd].
  rewrite lastF_R, nthF_R, last_nth. intros H0 Hl.
  unfold pwl_call_scalar, pwl_eval. cbn [fst snd]. cbv zeta.
  rewrite !nthF_R, !lastF_R, (last_nth xs). cbn [neqb ROps].
  rewrite (nleb_t (nth 0 xs 0) t), (nleb_t t (nth (length xs - 1) xs 0)) by lra. cbn [andb negb].
  assert (H01 : nth 0 xs 0 < nth (length xs - 1) xs 0) by (apply ssorted_nth_lt; auto; lia).
  destruct (classify xs t Ss Hn H0 Hl)
    as [(E & C1 & C2) | [(E & C1 & C2) | [(k & K1 & K2 & E & C1 & C2)
                                         | (k & K2 & E1 & E2 & C1 & C2 & NI)]]].
  - rewrite (Reqb_t _ _ E). exists (nth 0 y1 0). split; auto.
    rewrite pwl_left_none_lo by (intros; rewrite E; apply nth0_min; auto).
    rewrite (pwl_right_at xs y1 y2 0 t); auto; try lia; try lra.
    + rewrite E, lin_left. reflexivity.
    + rewrite E. apply ssorted_nth_lt; auto; lia.
  - rewrite (Reqb_f t (nth 0 xs 0)) by lra. rewrite (Reqb_t _ _ E).
    exists (last y2 0). split; auto.
    rewrite pwl_right_none_hi by (intros; rewrite E; apply nth_last_max; auto).
    assert (Hm : nth (length xs - 2) xs 0 < nth (length xs - 1) xs 0)
      by (apply ssorted_nth_lt; auto; lia).
    rewrite (pwl_left_at xs y1 y2 (length xs - 2) t); auto; try lia.
    + replace (S (length xs - 2)) with (length xs - 1)%nat by lia.
      rewrite E, lin_right by lra. cbn [eval_of]. rewrite (last_nth y2).
      replace (length y2 - 1)%nat with (length xs - 2)%nat by lia. reflexivity.
    + lra.
    + replace (S (length xs - 2)) with (length xs - 1)%nat by lia. lra.
  - assert (Hk0 : nth 0 xs 0 < nth k xs 0) by (apply ssorted_nth_lt; auto; lia).
    assert (Hkn : nth k xs 0 < nth (length xs - 1) xs 0) by (apply ssorted_nth_lt; auto; lia).
    rewrite (Reqb_f t (nth 0 xs 0)), (Reqb_f t (nth (length xs - 1) xs 0)) by lra.
    assert (X : existsb (fun x => Reqb x t) xs = true).
    { apply (existsb_eq_in xs t). rewrite E. apply nth_In. lia. }
    rewrite X, C1. destruct k as [|j]; [lia|].
    replace (S (S j) - 1)%nat with (S j) by lia. replace (S (S j) - 2)%nat with j by lia.
    assert (Hj : nth j xs 0 < nth (S j) xs 0) by (apply ssorted_nth_lt; auto; lia).
    assert (Hj' : nth (S j) xs 0 < nth (S (S j)) xs 0) by (apply ssorted_nth_lt; auto; lia).
    rewrite (pwl_left_at xs y1 y2 j t), (pwl_right_at xs y1 y2 (S j) t); auto; try lia; try lra.
    rewrite E, lin_right, lin_left by lra. cbn [eval_of].
    exists ((nth (S j) y1 0 + nth j y2 0) / 2). split; [f_equal|]; rops; auto. lra.
  - rewrite (Reqb_f t (nth 0 xs 0)).
    2:{ pose proof (ssorted_nth_le xs Ss 0 k ltac:(lia) ltac:(lia)). lra. }
    rewrite (Reqb_f t (nth (length xs - 1) xs 0)).
    2:{ pose proof (ssorted_nth_le xs Ss (S k) (length xs - 1) ltac:(lia) ltac:(lia)). lra. }
    destruct (existsb (fun x => Reqb x t) xs) eqn:X.
    { apply (existsb_eq_in xs t) in X. contradiction. }
    rewrite C1. replace (S k - 1)%nat with k by lia.
    rewrite (pwl_left_at xs y1 y2 k t), (pwl_right_at xs y1 y2 k t); auto; try lia; try lra.
    cbn [eval_of]. change (interm ROps) with (lin ROps).
    exists (lin ROps (nth k xs 0) (nth (S k) xs 0) (nth k y1 0) (nth k y2 0) t).
    split; auto. f_equal. rops. lra.
Qed.

Theorem pwl_call_paths_agree : forall f t, wf_pwl f ->
  pwl_call_seq1 ROps f t = pwl_call_scalar ROps f t.
Proof.
  intros [[xs y1] y2] t W. apply wf_pwl_inv in W as (Ss & Hn & L1 & L2).
  unfold pwl_call_seq1, pwl_call_scalar. cbv zeta.
  rewrite !nthF_R, !lastF_R, (last_nth xs). cbn [neqb ROps].
  destruct (nleb ROps (nth 0 xs 0) t) eqn:G1; [|reflexivity].
  destruct (nleb ROps t (nth (length xs - 1) xs 0)) eqn:G2; [|reflexivity].
  cbn [andb negb]. apply nleb_true in G1, G2.
  assert (H01 : nth 0 xs 0 < nth (length xs - 1) xs 0) by (apply ssorted_nth_lt; auto; lia).
  change (interm ROps) with (lin ROps).
  destruct (classify xs t Ss Hn G1 G2)
    as [(E & C1 & C2) | [(E & C1 & C2) | [(k & K1 & K2 & E & C1 & C2)
                                         | (k & K2 & E1 & E2 & C1 & C2 & NI)]]];
    rewrite C1, C2.
  - rewrite (Reqb_t _ _ E). change (1 =? 0)%nat with false. cbv iota. natb;
    cbn [negb andb Nat.sub]; rewrite E, lin_left; reflexivity.
  - rewrite (Reqb_f t (nth 0 xs 0)) by lra. rewrite (Reqb_t _ _ E).
    assert (Hm : nth (length xs - 2) xs 0 < nth (length xs - 1) xs 0)
      by (apply ssorted_nth_lt; auto; lia).
    natb; cbn [negb andb];
    replace (length xs - 1 - 1)%nat with (length xs - 2)%nat by lia;
    rewrite E, lin_right by lra; rewrite (last_nth y2);
    replace (length y2 - 1)%nat with (length xs - 2)%nat by lia; reflexivity.
  - assert (Hk0 : nth 0 xs 0 < nth k xs 0) by (apply ssorted_nth_lt; auto; lia).
    assert (Hkn : nth k xs 0 < nth (length xs - 1) xs 0) by (apply ssorted_nth_lt; auto; lia).
    rewrite (Reqb_f t (nth 0 xs 0)), (Reqb_f t (nth (length xs - 1) xs 0)) by lra.
    assert (X : existsb (fun x => Reqb x t) xs = true).
    { apply (existsb_eq_in xs t). rewrite E. apply nth_In. lia. }
    rewrite X. change (S k =? 0)%nat with false. cbv iota. natb; cbn [negb andb]; reflexivity.
  - rewrite (Reqb_f t (nth 0 xs 0)).
    2:{ pose proof (ssorted_nth_le xs Ss 0 k ltac:(lia) ltac:(lia)). lra. }
    rewrite (Reqb_f t (nth (length xs - 1) xs 0)).
    2:{ pose proof (ssorted_nth_le xs Ss (S k) (length xs - 1) ltac:(lia) ltac:(lia)). lra. }
    destruct (existsb (fun x => Reqb x t) xs) eqn:X.
    { apply (existsb_eq_in xs t) in X. contradiction. }
    change (S k =? 0)%nat with false. cbv iota. natb; cbn [negb andb]; reflexivity.
Qed.

(* ------------------------------------------------------------------ *)
(* 3. addition: the two-cursor merge against the declarative sum       *)

(* sort_unique is the unique strictly sorted list with the same members *)
Lemma pl_ssorted_ext : forall l1 l2, ssorted l1 -> ssorted l2 ->
  (forall x, In x l1 <-> In x l2) -> l1 = l2.
Proof.
  induction l1 as [|x1 r1 IH]; intros l2 S1 S2 E.
  - destruct l2 as [|x2 r2]; auto. exfalso. apply (E x2). left; auto.
  - destruct l2 as [|x2 r2].
    + exfalso. apply (E x1). left; auto.
    + apply ssorted_cons_inv in S1 as [S1 F1]. apply ssorted_cons_inv in S2 as [S2 F2].
      rewrite Forall_forall in F1, F2.
      assert (x1 = x2) as ->.
      { assert (A : In x1 (x2 :: r2)) by (apply E; left; auto).
        assert (B : In x2 (x1 :: r1)) by (apply E; left; auto).
        destruct A as [A|A]; auto. destruct B as [B|B]; auto.
        apply F2 in A. apply F1 in B. lra. }
      f_equal. apply IH; auto. intros x; split; intros H.
      * assert (A : In x (x2 :: r2)) by (apply E; right; auto).
        destruct A as [A|A]; auto. subst. apply F1 in H. lra.
      * assert (A : In x (x2 :: r1)) by (apply E; right; auto).
        destruct A as [A|A]; auto. subst. apply F2 in H. lra.
Qed.

Lemma pl_insert_u_in : forall a l x, In x (insert_u ROps a l) <-> x = a \/ In x l.
Proof.
  induction l as [|y r IH]; intros x; cbn [insert_u nltb neqb ROps].
  - cbn. intuition.
  - destruct (Rltb_spec a y) as [H|H].
    + cbn. intuition.
    + destruct (Reqb_spec a y) as [E|E].
      * subst. cbn. intuition.
      * cbn [In]. rewrite IH. intuition.
Qed.

Lemma pl_insert_u_sorted : forall a l, ssorted l -> ssorted (insert_u ROps a l).
Proof.
  induction l as [|y r IH]; intros Ss; cbn [insert_u nltb neqb ROps].
  - apply ssorted_cons; auto.
  - destruct (Rltb_spec a y) as [H|H].
    + apply ssorted_cons; auto. apply ssorted_cons_inv in Ss as [Ss F].
      constructor; auto. eapply Forall_impl; [|apply F]. cbn; intros; lra.
    + destruct (Reqb_spec a y) as [E|E]; auto.
      apply ssorted_cons_inv in Ss as [Ss F].
      apply ssorted_cons; auto. rewrite Forall_forall in *. intros x Hx.
      apply pl_insert_u_in in Hx. destruct Hx as [->|Hx]; auto. lra.
Qed.

Lemma pl_sort_unique_in : forall l x, In x (sort_unique ROps l) <-> In x l.
Proof.
  induction l as [|a l IH]; intros x; cbn [sort_unique fold_right]; [tauto|].
  fold (sort_unique ROps l). rewrite pl_insert_u_in, IH. cbn. intuition.
Qed.

Lemma pl_sort_unique_sorted : forall l, ssorted (sort_unique ROps l).
Proof.
  induction l as [|a l IH]; cbn [sort_unique fold_right]; [apply ssorted_nil|].
  apply pl_insert_u_sorted; auto.
Qed.

(* pieces as records *)
Notation LP := (@lpiece R).
Definition lp_xl (p : LP) : R := fst (fst (fst p)).
Definition fst3 (e : R * R * R) : R := fst (fst e).
Definition snd3 (e : R * R * R) : R := snd (fst e).

Lemma lp_at_R (p : LP) x :
  lp_at ROps p x = lp_ya p + (lp_yb p - lp_ya p) * (x - lp_xl p) / (lp_xr p - lp_xl p).
Proof. destruct p as [[[xl ya] yb] xr]. reflexivity. Qed.
Lemma lp_at_xl (p : LP) : lp_at ROps p (lp_xl p) = lp_ya p.
Proof. rewrite lp_at_R. unfold Rdiv. ring. Qed.
Lemma lp_at_xr (p : LP) : lp_xl p < lp_xr p -> lp_at ROps p (lp_xr p) = lp_yb p.
Proof. intros. rewrite lp_at_R. field. lra. Qed.

(* a chain of adjacent pieces *)
Fixpoint chain (c : LP) (r : list LP) : Prop :=
  lp_xl c < lp_xr c /\
  match r with [] => True | n :: r' => lp_xl n = lp_xr c /\ chain n r' end.
Fixpoint lastxr (c : LP) (r : list LP) : R :=
  match r with [] => lp_xr c | n :: r' => lastxr n r' end.
(* the right ends of all but the last piece *)
Fixpoint inner (c : LP) (r : list LP) : list R :=
  match r with [] => [] | n :: r' => lp_xr c :: inner n r' end.

Lemma chain_pos c r : chain c r -> lp_xl c < lp_xr c.
Proof. destruct r; cbn; tauto. Qed.
Lemma chain_lastxr : forall r c, chain c r -> lp_xr c <= lastxr c r.
Proof.
  induction r as [|n r IH]; intros c H; cbn [lastxr]; [lra|].
  destruct H as (H1 & H2 & H3). pose proof (IH n H3). pose proof (chain_pos n r H3). lra.
Qed.

Lemma inner_props : forall r c, chain c r ->
  ssorted (inner c r) /\ Forall (fun x => lp_xr c <= x /\ x < lastxr c r) (inner c r).
Proof.
  induction r as [|n r IH]; intros c H; cbn [inner lastxr].
  - split; [apply ssorted_nil | constructor].
  - destruct H as (H1 & H2 & H3). destruct (IH n H3) as [I1 I2].
    pose proof (chain_pos n r H3) as P. pose proof (chain_lastxr r n H3) as Q. split.
    + apply ssorted_cons; auto. eapply Forall_impl; [|apply I2]. cbn; intros; lra.
    + constructor; [lra|]. eapply Forall_impl; [|apply I2]. cbn; intros; lra.
Qed.

(* one-sided limits on chains *)
Fixpoint ch_right (P : list LP) (t : R) : option R :=
  match P with
  | [] => None
  | p :: r => if nleb ROps (lp_xl p) t && Rltb t (lp_xr p) then Some (lp_at ROps p t)
              else ch_right r t
  end.
Fixpoint ch_left (P : list LP) (t : R) : option R :=
  match P with
  | [] => None
  | p :: r => if Rltb (lp_xl p) t && nleb ROps t (lp_xr p) then Some (lp_at ROps p t)
              else ch_left r t
  end.

Lemma pwl_right_lpieces : forall xs y1 y2 t,
  pwl_right ROps xs y1 y2 t = ch_right (lpieces xs y1 y2) t.
Proof.
  induction xs as [|x0 xs IH]; intros y1 y2 t; [reflexivity|].
  destruct xs as [|x1 r]; [reflexivity|].
  destruct y1 as [|ya y1]; [reflexivity|]. destruct y2 as [|yb y2]; [reflexivity|].
  rewrite pwl_right_cons.
  change (lpieces (x0 :: x1 :: r) (ya :: y1) (yb :: y2))
    with ((x0, ya, yb, x1) :: lpieces (x1 :: r) y1 y2).
  cbn [ch_right]. rewrite <- IH. reflexivity.
Qed.
Lemma pwl_left_lpieces : forall xs y1 y2 t,
  pwl_left ROps xs y1 y2 t = ch_left (lpieces xs y1 y2) t.
Proof.
  induction xs as [|x0 xs IH]; intros y1 y2 t; [reflexivity|].
  destruct xs as [|x1 r]; [reflexivity|].
  destruct y1 as [|ya y1]; [reflexivity|]. destruct y2 as [|yb y2]; [reflexivity|].
  rewrite pwl_left_cons.
  change (lpieces (x0 :: x1 :: r) (ya :: y1) (yb :: y2))
    with ((x0, ya, yb, x1) :: lpieces (x1 :: r) y1 y2).
  cbn [ch_left]. rewrite <- IH. reflexivity.
Qed.

Lemma ch_left_head p r x : lp_xl p < x -> x <= lp_xr p -> ch_left (p :: r) x = Some (lp_at ROps p x).
Proof. intros. cbn [ch_left]. rewrite Rltb_t, nleb_t by lra. reflexivity. Qed.
Lemma ch_right_head p r x : lp_xl p <= x -> x < lp_xr p -> ch_right (p :: r) x = Some (lp_at ROps p x).
Proof. intros. cbn [ch_right]. rewrite Rltb_t, nleb_t by lra. reflexivity. Qed.
Lemma ch_left_skip p r x : lp_xr p < x -> ch_left (p :: r) x = ch_left r x.
Proof. intros. cbn [ch_left]. rewrite (nleb_f x) by lra. rewrite andb_false_r. reflexivity. Qed.
Lemma ch_right_skip p r x : lp_xr p <= x -> ch_right (p :: r) x = ch_right r x.
Proof. intros. cbn [ch_right]. rewrite (Rltb_f x) by lra. rewrite andb_false_r. reflexivity. Qed.

(* at the junction between c and n *)
Lemma ch_left_junction c n r : lp_xl c < lp_xr c ->
  ch_left (c :: n :: r) (lp_xr c) = Some (lp_yb c).
Proof. intros. rewrite ch_left_head by lra. rewrite lp_at_xr; auto. Qed.
Lemma ch_right_junction c n r : lp_xl n = lp_xr c -> lp_xl n < lp_xr n ->
  ch_right (c :: n :: r) (lp_xr c) = Some (lp_ya n).
Proof.
  intros E H. rewrite ch_right_skip by lra. rewrite ch_right_head by lra.
  rewrite <- E, lp_at_xl. reflexivity.
Qed.

Lemma optsum_comm a b : optsum ROps a b = optsum ROps b a.
Proof. destruct a, b; cbn; lra. Qed.

(* an emitted event carries the sums of the left and of the right limits *)
Definition ev_ok (P1 P2 : list LP) (e : R * R * R) : Prop :=
  snd3 e = optsum ROps (ch_left P1 (fst3 e)) (ch_left P2 (fst3 e)) /\
  snd e = optsum ROps (ch_right P1 (fst3 e)) (ch_right P2 (fst3 e)).

Lemma ev_ok_comm P1 P2 e : ev_ok P1 P2 e -> ev_ok P2 P1 e.
Proof. unfold ev_ok. rewrite (optsum_comm (ch_left P1 _)), (optsum_comm (ch_right P1 _)). auto. Qed.
Lemma ev_ok_skip1 c P1 P2 e : lp_xr c < fst3 e -> ev_ok P1 P2 e -> ev_ok (c :: P1) P2 e.
Proof. unfold ev_ok. intros H. rewrite ch_left_skip, ch_right_skip by lra. auto. Qed.
Lemma ev_ok_skip2 c P1 P2 e : lp_xr c < fst3 e -> ev_ok P1 P2 e -> ev_ok P1 (c :: P2) e.
Proof. unfold ev_ok. intros H. rewrite ch_left_skip, ch_right_skip by lra. auto. Qed.

(* loop followed by the tail copy *)
Definition full (fuel : nat) (c1 : LP) (r1 : list LP) (c2 : LP) (r2 : list LP) : list (R * R * R) :=
  let '(out, (d1, s1, d2, s2)) := pwl_add_loop ROps fuel c1 r1 c2 r2 in
  out ++ match s1, s2 with
         | _ :: _, _ => pwl_add_tail ROps d1 s1 d2
         | [], _ :: _ => pwl_add_tail ROps d2 s2 d1
         | [], [] => []
         end.

Lemma full_nil1 fuel c1 c2 r2 :
  full fuel c1 [] c2 r2 = match r2 with [] => [] | _ :: _ => pwl_add_tail ROps c2 r2 c1 end.
Proof. destruct fuel, r2; reflexivity. Qed.
Lemma full_nil2 fuel c1 n1 r1 c2 :
  full fuel c1 (n1 :: r1) c2 [] = pwl_add_tail ROps c1 (n1 :: r1) c2.
Proof. destruct fuel; reflexivity. Qed.
Lemma full_step k c1 n1 r1 c2 n2 r2 :
  full (S k) c1 (n1 :: r1) c2 (n2 :: r2)
  = if Rltb (lp_xr c1) (lp_xr c2) then
      (lp_xr c1, lp_yb c1 + lp_at ROps c2 (lp_xr c1), lp_ya n1 + lp_at ROps c2 (lp_xr c1))
        :: full k n1 r1 c2 (n2 :: r2)
    else if Rltb (lp_xr c2) (lp_xr c1) then
      (lp_xr c2, lp_yb c2 + lp_at ROps c1 (lp_xr c2), lp_ya n2 + lp_at ROps c1 (lp_xr c2))
        :: full k c1 (n1 :: r1) n2 r2
    else
      (lp_xr c1, lp_yb c1 + lp_yb c2, lp_ya n1 + lp_ya n2) :: full k n1 r1 n2 r2.
Proof.
  unfold full. cbn [pwl_add_loop nltb nadd ROps].
  destruct (Rltb (lp_xr c1) (lp_xr c2)).
  - destruct (pwl_add_loop ROps k n1 r1 c2 (n2 :: r2)) as [out [[[d1 s1] d2] s2]]. reflexivity.
  - destruct (Rltb (lp_xr c2) (lp_xr c1)).
    + destruct (pwl_add_loop ROps k c1 (n1 :: r1) n2 r2) as [out [[[d1 s1] d2] s2]]. reflexivity.
    + destruct (pwl_add_loop ROps k n1 r1 n2 r2) as [out [[[d1 s1] d2] s2]]. reflexivity.
Qed.

(* the tail copy: [o] is the last piece of the exhausted operand *)
Lemma tail_ok : forall r c o, chain c r -> lp_xl o < lp_xr o -> lp_xl o < lp_xr c ->
  lastxr c r = lp_xr o ->
  Forall (ev_ok (c :: r) [o]) (pwl_add_tail ROps c r o)
  /\ map fst3 (pwl_add_tail ROps c r o) = inner c r.
Proof.
  induction r as [|n r IH]; intros c o Hc Ho Hoc Hl; cbn [pwl_add_tail inner].
  - split; [constructor | reflexivity].
  - cbn [lastxr] in Hl. destruct Hc as (H1 & H2 & H3).
    pose proof (chain_pos n r H3) as Pn. pose proof (chain_lastxr r n H3) as Qn.
    destruct (IH n o H3 Ho ltac:(lra) Hl) as [I1 I2]. split.
    + constructor.
      * unfold ev_ok, fst3, snd3. cbn [fst snd].
        rewrite ch_left_junction, ch_right_junction by auto.
        rewrite ch_left_head, ch_right_head by lra. cbn [optsum nadd ROps]. auto.
      * destruct (inner_props r n H3) as [_ B]. rewrite <- I2 in B. rewrite Forall_map in B.
        rewrite Forall_forall in *. intros e He. apply ev_ok_skip1; [|auto].
        destruct (B e He). lra.
    + cbn [map]. rewrite I2. reflexivity.
Qed.

Definition good (c1 : LP) (r1 : list LP) (c2 : LP) (r2 : list LP) (evs : list (R * R * R)) : Prop :=
  Forall (ev_ok (c1 :: r1) (c2 :: r2)) evs
  /\ ssorted (map fst3 evs)
  /\ Forall (fun x => lp_xl c1 < x /\ lp_xl c2 < x /\ x < lastxr c1 r1) (map fst3 evs)
  /\ (forall x, In x (map fst3 evs) <-> In x (inner c1 r1) \/ In x (inner c2 r2)).

Lemma good_tail1 c1 n1 r1 c2 : chain c1 (n1 :: r1) -> chain c2 [] ->
  lp_xl c1 < lp_xr c2 -> lp_xl c2 < lp_xr c1 -> lastxr c1 (n1 :: r1) = lp_xr c2 ->
  good c1 (n1 :: r1) c2 [] (pwl_add_tail ROps c1 (n1 :: r1) c2).
Proof.
  intros H1 H2 A B L. pose proof (chain_pos _ _ H1) as P1. pose proof (chain_pos _ _ H2) as P2.
  destruct (tail_ok (n1 :: r1) c1 c2 H1 P2 B L) as [T1 T2].
  destruct (inner_props _ _ H1) as [I1 I2].
  unfold good. rewrite T2. repeat split; auto.
  - eapply Forall_impl; [|apply I2]. cbn beta. intros x [Q1 Q2]. lra.
  - intros [H|H]; auto. destruct H.
Qed.

Lemma good_tail2 c1 c2 n2 r2 : chain c1 [] -> chain c2 (n2 :: r2) ->
  lp_xl c1 < lp_xr c2 -> lp_xl c2 < lp_xr c1 -> lp_xr c1 = lastxr c2 (n2 :: r2) ->
  good c1 [] c2 (n2 :: r2) (pwl_add_tail ROps c2 (n2 :: r2) c1).
Proof.
  intros H1 H2 A B L. pose proof (chain_pos _ _ H1) as P1. pose proof (chain_pos _ _ H2) as P2.
  destruct (tail_ok (n2 :: r2) c2 c1 H2 P1 A (eq_sym L)) as [T1 T2].
  destruct (inner_props _ _ H2) as [I1 I2].
  unfold good. rewrite T2. repeat split; auto.
  - eapply Forall_impl; [|apply T1]. intros e. apply ev_ok_comm.
  - eapply Forall_impl; [|apply I2]. cbn beta. cbn [lastxr]. intros x [Q1 Q2].
    change (lastxr n2 r2) with (lastxr c2 (n2 :: r2)) in Q2. lra.
  - intros [H|H]; auto. destruct H.
Qed.

Lemma full_good : forall fuel c1 r1 c2 r2, (length r1 + length r2 <= fuel)%nat ->
  chain c1 r1 -> chain c2 r2 -> lp_xl c1 < lp_xr c2 -> lp_xl c2 < lp_xr c1 ->
  lastxr c1 r1 = lastxr c2 r2 ->
  good c1 r1 c2 r2 (full fuel c1 r1 c2 r2).
Proof.
  induction fuel as [|k IH]; intros c1 r1 c2 r2 Hf H1 H2 A B L.
  - destruct r1, r2; cbn [length] in Hf; try lia. rewrite full_nil1.
    unfold good. cbn. repeat split; auto using ssorted_nil. tauto.
  - destruct r1 as [|n1 r1].
    { rewrite full_nil1. destruct r2 as [|n2 r2].
      - unfold good. cbn. repeat split; auto using ssorted_nil. tauto.
      - apply good_tail2; auto. }
    destruct r2 as [|n2 r2].
    { rewrite full_nil2. apply good_tail1; auto. }
    rewrite full_step. cbn [length] in Hf.
    pose proof H1 as (P1 & J1 & N1). pose proof H2 as (P2 & J2 & N2).
    pose proof (chain_pos _ _ N1) as Pn1. pose proof (chain_pos _ _ N2) as Pn2.
    pose proof (chain_lastxr _ _ N1) as Ql1. pose proof (chain_lastxr _ _ N2) as Ql2.
    cbn [lastxr] in L.
    destruct (Rltb_spec (lp_xr c1) (lp_xr c2)) as [C|C].
    { (* advance operand 1 *)
      destruct (IH n1 r1 c2 (n2 :: r2)) as (G1 & G2 & G3 & G4); auto;
        try (cbn [length]; lia); try lra.
      unfold good. cbn [map]. unfold fst3 at 1 3 5. cbn [fst]. repeat split.
      - constructor.
        + unfold ev_ok, fst3, snd3. cbn [fst snd].
          rewrite ch_left_junction, ch_right_junction by auto.
          rewrite ch_left_head, ch_right_head by lra. cbn [optsum nadd ROps]. split; lra.
        + rewrite Forall_map in G3. rewrite Forall_forall in *. intros e He.
          apply ev_ok_skip1; [|auto]. destruct (G3 e He). lra.
      - apply ssorted_cons; auto. eapply Forall_impl; [|apply G3]. cbn beta; intros; lra.
      - constructor.
        + cbn [lastxr]. lra.
        + eapply Forall_impl; [|apply G3]. cbn beta. cbn [lastxr]. intros; lra.
      - intros [<-|H]; [left; left; auto|]. apply G4 in H. cbn [inner]. cbn [In]. tauto.
      - cbn [inner]. cbn [In]. rewrite G4. cbn [inner]. cbn [In]. tauto. }
    destruct (Rltb_spec (lp_xr c2) (lp_xr c1)) as [D|D].
    { (* advance operand 2 *)
      destruct (IH c1 (n1 :: r1) n2 r2) as (G1 & G2 & G3 & G4); auto;
        try (cbn [length]; lia); try lra.
      unfold good. cbn [map]. unfold fst3 at 1 3 5. cbn [fst]. repeat split.
      - constructor.
        + unfold ev_ok, fst3, snd3. cbn [fst snd].
          rewrite (ch_left_junction c2), (ch_right_junction c2) by auto.
          rewrite ch_left_head, ch_right_head by lra. cbn [optsum nadd ROps]. split; lra.
        + rewrite Forall_map in G3. rewrite Forall_forall in *. intros e He.
          apply ev_ok_skip2; [|auto]. destruct (G3 e He). lra.
      - apply ssorted_cons; auto. eapply Forall_impl; [|apply G3]. cbn beta; intros; lra.
      - constructor.
        + cbn [lastxr]. lra.
        + eapply Forall_impl; [|apply G3]. cbn beta. cbn [lastxr]. intros; lra.
      - intros [<-|H]; [right; left; auto|]. apply G4 in H. cbn [inner]. cbn [In]. tauto.
      - cbn [inner]. cbn [In]. rewrite G4. cbn [inner]. cbn [In]. tauto. }
    (* both operands have a breakpoint here *)
    assert (E : lp_xr c2 = lp_xr c1) by lra.
    destruct (IH n1 r1 n2 r2) as (G1 & G2 & G3 & G4); auto; try lia; try lra.
    unfold good. cbn [map]. unfold fst3 at 1 3 5. cbn [fst]. repeat split.
    + constructor.
      * unfold ev_ok, fst3, snd3. cbn [fst snd].
        rewrite ch_left_junction, ch_right_junction by auto. rewrite <- E.
        rewrite ch_left_junction, ch_right_junction by auto. cbn [optsum nadd ROps]. split; lra.
      * rewrite Forall_map in G3. rewrite Forall_forall in *. intros e He.
        destruct (G3 e He) as (Q1 & Q2 & Q3).
        apply ev_ok_skip1; [lra|]. apply ev_ok_skip2; [lra|]. auto.
    + apply ssorted_cons; auto. eapply Forall_impl; [|apply G3]. cbn beta; intros; lra.
    + constructor.
      * cbn [lastxr]. lra.
      * eapply Forall_impl; [|apply G3]. cbn beta. cbn [lastxr]. intros; lra.
    + intros [<-|H]; [left; left; auto|]. apply G4 in H. cbn [inner]. cbn [In]. tauto.
    + cbn [inner]. cbn [In]. rewrite G4, E. tauto.
Qed.

(* the chain of a well-formed function *)
Lemma lpieces_props : forall xs y1 y2, ssorted xs -> (2 <= length xs)%nat ->
  length xs = S (length y1) -> length y1 = length y2 ->
  exists c r, lpieces xs y1 y2 = c :: r /\ chain c r /\ lp_xl c = nth 0 xs 0
              /\ lastxr c r = last xs 0 /\ xs = nth 0 xs 0 :: inner c r ++ [last xs 0]
              /\ lp_ya c = nth 0 y1 0.
Proof.
  induction xs as [|x0 xs IH]; intros y1 y2 Ss Hn L1 L2; cbn [length] in *; [lia|].
  destruct xs as [|x1 r]; cbn [length] in *; [lia|].
  destruct y1 as [|ya y1]; cbn [length] in *; [lia|].
  destruct y2 as [|yb y2]; cbn [length] in *; [lia|].
  pose proof Ss as Ss'. apply ssorted_cons_inv in Ss' as [S1 F1].
  assert (Hx : x0 < x1) by (inversion F1; auto).
  change (lpieces (x0 :: x1 :: r) (ya :: y1) (yb :: y2))
    with ((x0, ya, yb, x1) :: lpieces (x1 :: r) y1 y2).
  destruct r as [|x2 r].
  - exists (x0, ya, yb, x1), []. cbn [lpieces]. repeat split; auto.
  - destruct (IH y1 y2 S1 ltac:(cbn [length]; lia) ltac:(cbn [length] in *; lia) ltac:(lia))
      as (c & r' & E & C & X0 & XL & DEC & YA).
    exists (x0, ya, yb, x1), (c :: r'). rewrite E. cbn [nth] in *.
    change (last (x0 :: x1 :: x2 :: r) 0) with (last (x1 :: x2 :: r) 0).
    repeat split; auto.
    cbn [inner]. unfold lp_xr at 1. cbn [snd]. cbn [app]. rewrite <- DEC. reflexivity.
Qed.

Lemma pieces_fst : forall (l : list R) a b, map fst (pieces (a :: l ++ [b])) = a :: l.
Proof.
  induction l as [|x l IH]; intros a b; [reflexivity|].
  change (pieces (a :: (x :: l) ++ [b])) with ((a, x) :: pieces (x :: l ++ [b])).
  cbn [map fst]. rewrite IH. reflexivity.
Qed.
Lemma pieces_snd : forall (l : list R) a b, map snd (pieces (a :: l ++ [b])) = l ++ [b].
Proof.
  induction l as [|x l IH]; intros a b; [reflexivity|].
  change (pieces (a :: (x :: l) ++ [b])) with ((a, x) :: pieces (x :: l ++ [b])).
  cbn [map snd]. rewrite IH. reflexivity.
Qed.

Lemma pwl_left_last xs y1 y2 : ssorted xs -> (2 <= length xs)%nat ->
  length xs = S (length y1) -> length y1 = length y2 ->
  pwl_left ROps xs y1 y2 (last xs 0) = Some (last y2 0).
Proof.
  intros Ss Hn L1 L2. rewrite last_nth.
  assert (Hm : nth (length xs - 2) xs 0 < nth (length xs - 1) xs 0)
    by (apply ssorted_nth_lt; auto; lia).
  rewrite (pwl_left_at xs y1 y2 (length xs - 2)); auto; try lia.
  - replace (S (length xs - 2)) with (length xs - 1)%nat by lia.
    rewrite lin_right by lra. rewrite (last_nth y2).
    replace (length y2 - 1)%nat with (length xs - 2)%nat by lia. reflexivity.
  - replace (S (length xs - 2)) with (length xs - 1)%nat by lia. lra.
Qed.

(* shape of the model result *)
Lemma pwl_add_shape x1 y11 y12 x2 y21 y22 c1 r1 c2 r2 :
  lpieces x1 y11 y12 = c1 :: r1 -> lpieces x2 y21 y22 = c2 :: r2 ->
  nth 0 x1 0 = nth 0 x2 0 -> last x1 0 = last x2 0 ->
  pwl_add ROps (x1, y11, y12) (x2, y21, y22)
  = let evs := full (length x1 + length x2) c1 r1 c2 r2 in
    Ok (nth 0 x1 0 :: map fst3 evs ++ [last x1 0],
        (lp_ya c1 + lp_ya c2) :: map snd evs,
        map snd3 evs ++ [last y12 0 + last y22 0]).
Proof.
  intros E1 E2 H0 HL. unfold pwl_add. rewrite E1, E2.
  rewrite !nthF_R, !lastF_R. cbn [neqb ROps].
  rewrite (Reqb_t _ _ H0), (Reqb_t _ _ HL). cbn [negb]. unfold full.
  destruct (pwl_add_loop ROps (length x1 + length x2) c1 r1 c2 r2) as [out [[[d1 s1] d2] s2]].
  reflexivity.
Qed.

Lemma ev_ok_maps P1 P2 evs : Forall (ev_ok P1 P2) evs ->
  map snd evs = map (fun x => optsum ROps (ch_right P1 x) (ch_right P2 x)) (map fst3 evs)
  /\ map snd3 evs = map (fun x => optsum ROps (ch_left P1 x) (ch_left P2 x)) (map fst3 evs).
Proof.
  induction 1 as [|e evs [H1 H2] _ [I1 I2]]; [split; reflexivity|].
  cbn [map]. rewrite I1, I2, H1, H2. split; reflexivity.
Qed.

Lemma in_decomp (l : list R) a I b x : l = a :: I ++ [b] -> (In x l <-> a = x \/ In x I \/ b = x).
Proof. intros ->. cbn [In]. rewrite in_app_iff. cbn [In]. tauto. Qed.

Lemma ssorted_snoc l b : ssorted l -> Forall (fun x => x < b) l -> ssorted (l ++ [b]).
Proof.
  induction l as [|a l IH]; intros Ss F; cbn [app].
  - apply ssorted_cons; auto using ssorted_nil.
  - apply ssorted_cons_inv in Ss as [Ss Fa]. inversion F; subst. apply ssorted_cons; auto.
    apply Forall_app; split; auto.
Qed.

Theorem pwl_add_eq_spec : forall f g, wf_pwl f -> wf_pwl g ->
  nthF ROps (fst (fst f)) 0 = nthF ROps (fst (fst g)) 0 ->
  lastF ROps (fst (fst f)) = lastF ROps (fst (fst g)) ->
  pwl_add ROps f g = Ok (pwl_add_spec ROps f g).
Proof.
  intros [[x1 y11] y12] [[x2 y21] y22] W1 W2. cbn [fst snd]. rewrite !nthF_R, !lastF_R.
  intros H0 HL.
  apply wf_pwl_inv in W1 as (Ss1 & Hn1 & La1 & Lb1).
  apply wf_pwl_inv in W2 as (Ss2 & Hn2 & La2 & Lb2).
  destruct (lpieces_props x1 y11 y12 Ss1 Hn1 La1 Lb1) as (c1 & r1 & E1 & C1 & X1 & XL1 & D1 & YA1).
  destruct (lpieces_props x2 y21 y22 Ss2 Hn2 La2 Lb2) as (c2 & r2 & E2 & C2 & X2 & XL2 & D2 & YA2).
  rewrite (pwl_add_shape x1 y11 y12 x2 y21 y22 c1 r1 c2 r2 E1 E2 H0 HL). cbv zeta.
  pose proof (chain_pos _ _ C1) as P1. pose proof (chain_pos _ _ C2) as P2.
  assert (Hlen : (length r1 + length r2 <= length x1 + length x2)%nat).
  { assert (forall r c, length (inner c r) = length r) as IL
        by (induction r; intros; cbn [inner length]; auto).
    pose proof (f_equal (@length R) D1) as Q1. pose proof (f_equal (@length R) D2) as Q2.
    cbn [length] in Q1, Q2. rewrite app_length, IL in Q1, Q2. lia. }
  destruct (full_good (length x1 + length x2) c1 r1 c2 r2 Hlen C1 C2) as (G1 & G2 & G3 & G4);
    try lra.
  set (evs := full (length x1 + length x2) c1 r1 c2 r2) in *.
  assert (H0T : nth 0 x1 0 < last x1 0).
  { rewrite last_nth. apply ssorted_nth_lt; auto; lia. }
  (* the breakpoints *)
  assert (BS : sort_unique ROps (x1 ++ x2) = nth 0 x1 0 :: map fst3 evs ++ [last x1 0]).
  { apply pl_ssorted_ext.
    - apply pl_sort_unique_sorted.
    - apply ssorted_cons.
      + apply ssorted_snoc; auto. eapply Forall_impl; [|apply G3]. cbn beta; intros; lra.
      + apply Forall_app; split; [|constructor; auto].
        eapply Forall_impl; [|apply G3]. cbn beta; intros; lra.
    - intros x. rewrite pl_sort_unique_in, in_app_iff.
      rewrite <- H0, <- HL in D2.
      rewrite (in_decomp x1 _ _ _ x D1), (in_decomp x2 _ _ _ x D2).
      rewrite (in_decomp _ _ _ _ x eq_refl). rewrite G4. tauto. }
  destruct (ev_ok_maps _ _ _ G1) as [M1 M2].
  assert (A1 : ch_right (c1 :: r1) (nth 0 x1 0) = Some (lp_ya c1)).
  { rewrite <- X1. rewrite ch_right_head by lra. rewrite lp_at_xl. reflexivity. }
  assert (A2 : ch_right (c2 :: r2) (nth 0 x1 0) = Some (lp_ya c2)).
  { rewrite H0, <- X2. rewrite ch_right_head by lra. rewrite lp_at_xl. reflexivity. }
  pose proof (pwl_left_last x1 y11 y12 Ss1 Hn1 La1 Lb1) as B1.
  pose proof (pwl_left_last x2 y21 y22 Ss2 Hn2 La2 Lb2) as B2. rewrite <- HL in B2.
  unfold pwl_add_spec. rewrite BS.
  set (FR := fun x => optsum ROps (pwl_right ROps x1 y11 y12 x) (pwl_right ROps x2 y21 y22 x)).
  set (FL := fun x => optsum ROps (pwl_left ROps x1 y11 y12 x) (pwl_left ROps x2 y21 y22 x)).
  change (fun p : R * R => optsum ROps (pwl_right ROps x1 y11 y12 (fst p))
                             (pwl_right ROps x2 y21 y22 (fst p)))
    with (fun p : R * R => FR (fst p)).
  change (fun p : R * R => optsum ROps (pwl_left ROps x1 y11 y12 (snd p))
                             (pwl_left ROps x2 y21 y22 (snd p)))
    with (fun p : R * R => FL (snd p)).
  rewrite <- (map_map fst FR), <- (map_map snd FL). rewrite pieces_fst, pieces_snd.
  rewrite map_app. cbn [map].
  assert (Y0 : FR (nth 0 x1 0) = lp_ya c1 + lp_ya c2).
  { unfold FR. rewrite !pwl_right_lpieces, E1, E2, A1, A2. reflexivity. }
  assert (YT : FL (last x1 0) = last y12 0 + last y22 0).
  { unfold FL. rewrite B1, B2. reflexivity. }
  assert (Y1 : map FR (map fst3 evs) = map snd evs).
  { rewrite M1. apply map_ext. intros x. unfold FR.
    rewrite !pwl_right_lpieces, E1, E2. reflexivity. }
  assert (Y2 : map FL (map fst3 evs) = map snd3 evs).
  { rewrite M2. apply map_ext. intros x. unfold FL.
    rewrite !pwl_left_lpieces, E1, E2. reflexivity. }
  rewrite Y0, YT, Y1, Y2. reflexivity.
Qed.

(* ------------------------------------------------------------------ *)
(* 4. properties of the declarative sum                                *)

Lemma pieces_cons2 (a b : R) l : pieces (a :: b :: l) = (a, b) :: pieces (b :: l).
Proof. reflexivity. Qed.

Lemma pieces_length : forall l : list R, length (pieces l) = (length l - 1)%nat.
Proof.
  induction l as [|a l IH]; [reflexivity|]. destruct l as [|b l]; [reflexivity|].
  rewrite pieces_cons2. cbn [length] in *. lia.
Qed.

Lemma ssorted_two l a b : ssorted l -> In a l -> In b l -> a < b -> (2 <= length l)%nat.
Proof.
  intros Ss Ha Hb Hab. destruct l as [|x [|y r]]; cbn [length]; try lia.
  - destruct Ha.
  - destruct Ha as [<-|[]]. destruct Hb as [<-|[]]. lra.
Qed.

Lemma pwl_add_spec_wf : forall f g, wf_pwl f -> wf_pwl (pwl_add_spec ROps f g).
Proof.
  intros [[x1 y11] y12] [[x2 y21] y22] W1.
  apply wf_pwl_inv in W1 as (Ss1 & Hn1 & La1 & Lb1).
  unfold pwl_add_spec, wf_pwl, wf_x. cbn [fst snd]. rewrite !map_length, pieces_length.
  assert (L : (2 <= length (sort_unique ROps (x1 ++ x2)))%nat).
  { apply (ssorted_two _ (nth 0 x1 0) (nth 1 x1 0)).
    - apply pl_sort_unique_sorted.
    - apply pl_sort_unique_in, in_app_iff. left. apply nth_In. lia.
    - apply pl_sort_unique_in, in_app_iff. left. apply nth_In. lia.
    - apply ssorted_nth_lt; auto. }
  repeat split; auto using pl_sort_unique_sorted. lia.
Qed.

Theorem pwl_add_wf : forall f g, wf_pwl f -> wf_pwl g ->
  nthF ROps (fst (fst f)) 0 = nthF ROps (fst (fst g)) 0 ->
  lastF ROps (fst (fst f)) = lastF ROps (fst (fst g)) ->
  wf_pwl (pwl_add_spec ROps f g).
Proof. intros f g W1 _ _ _. apply pwl_add_spec_wf; auto. Qed.

Lemma pwl_add_spec_comm : forall f g, pwl_add_spec ROps f g = pwl_add_spec ROps g f.
Proof.
  intros [[x1 y11] y12] [[x2 y21] y22]. unfold pwl_add_spec.
  assert (E : sort_unique ROps (x1 ++ x2) = sort_unique ROps (x2 ++ x1)).
  { apply pl_ssorted_ext; auto using pl_sort_unique_sorted.
    intros x. rewrite !pl_sort_unique_in, !in_app_iff. tauto. }
  rewrite E. f_equal; [f_equal|]; apply map_ext; intros p; apply optsum_comm.
Qed.

Theorem pwl_add_comm : forall f g, wf_pwl f -> wf_pwl g ->
  nthF ROps (fst (fst f)) 0 = nthF ROps (fst (fst g)) 0 ->
  lastF ROps (fst (fst f)) = lastF ROps (fst (fst g)) ->
  pwl_add_spec ROps f g = pwl_add_spec ROps g f.
Proof. intros. apply pwl_add_spec_comm. Qed.

(* ------------------------------------------------------------------ *)
(* 5. scalar multiple                                                  *)

Lemma lin_mul a b ya yb c t : lin ROps a b (ya * c) (yb * c) t = c * lin ROps a b ya yb t.
Proof. rewrite !lin_R. unfold Rdiv. ring. Qed.

Lemma pwl_mul_right : forall xs y1 y2 c t,
  pwl_right ROps xs (map (fun y => y * c) y1) (map (fun y => y * c) y2) t
  = option_map (fun v => c * v) (pwl_right ROps xs y1 y2 t).
Proof.
  induction xs as [|x0 xs IH]; intros y1 y2 c t; [reflexivity|].
  destruct xs as [|x1 r]; [reflexivity|].
  destruct y1 as [|ya y1]; [reflexivity|]. destruct y2 as [|yb y2]; [destruct y1; reflexivity|].
  cbn [map]. rewrite !pwl_right_cons. destruct (nleb ROps x0 t && Rltb t x1).
  - cbn [option_map]. rewrite lin_mul. reflexivity.
  - apply IH.
Qed.
Lemma pwl_mul_left : forall xs y1 y2 c t,
  pwl_left ROps xs (map (fun y => y * c) y1) (map (fun y => y * c) y2) t
  = option_map (fun v => c * v) (pwl_left ROps xs y1 y2 t).
Proof.
  induction xs as [|x0 xs IH]; intros y1 y2 c t; [reflexivity|].
  destruct xs as [|x1 r]; [reflexivity|].
  destruct y1 as [|ya y1]; [reflexivity|]. destruct y2 as [|yb y2]; [destruct y1; reflexivity|].
  cbn [map]. rewrite !pwl_left_cons. destruct (Rltb x0 t && nleb ROps t x1).
  - cbn [option_map]. rewrite lin_mul. reflexivity.
  - apply IH.
Qed.

Theorem pwl_mul_pointwise : forall f c t,
  let h := pwl_mul ROps f c in
  pwl_right ROps (fst (fst h)) (snd (fst h)) (snd h) t
  = option_map (fun v => c * v) (pwl_right ROps (fst (fst f)) (snd (fst f)) (snd f) t)
  /\ pwl_left ROps (fst (fst h)) (snd (fst h)) (snd h) t
     = option_map (fun v => c * v) (pwl_left ROps (fst (fst f)) (snd (fst f)) (snd f) t).
Proof.
  intros [[xs y1] y2] c t. cbn [pwl_mul fst snd nmul ROps].
  split; [apply pwl_mul_right | apply pwl_mul_left].
Qed.

Corollary pwl_mul_eval : forall f c t,
  pwl_eval ROps (pwl_mul ROps f c) t = option_map (fun v => c * v) (pwl_eval ROps f t).
Proof.
  intros f c t. unfold pwl_eval. destruct (pwl_mul_pointwise f c t) as [E1 E2]. cbv zeta in *.
  rewrite E1, E2.
  destruct (pwl_left ROps (fst (fst f)) (snd (fst f)) (snd f) t),
           (pwl_right ROps (fst (fst f)) (snd (fst f)) (snd f) t); cbn [option_map eval_of]; auto.
  f_equal. rops. field.
Qed.

(* ------------------------------------------------------------------ *)
(* 6. plottable data                                                   *)

Lemma dup_length {A} (l : list A) : length (dup l) = (2 * length l)%nat.
Proof. induction l as [|a l IH]; cbn [dup length]; lia. Qed.
Lemma dup_app {A} (l1 l2 : list A) : dup (l1 ++ l2) = dup l1 ++ dup l2.
Proof. induction l1 as [|a l IH]; cbn [dup app]; [reflexivity|]. rewrite IH. reflexivity. Qed.
Lemma interleave_length {A} : forall l1 l2 : list A, length l1 = length l2 ->
  length (interleave l1 l2) = (2 * length l1)%nat.
Proof.
  induction l1 as [|a l1 IH]; intros [|b l2] H; cbn [length] in H; try lia; [reflexivity|].
  cbn [interleave length]. rewrite IH by lia. lia.
Qed.

(* x0, every interior breakpoint twice, xn *)
Lemma plot_x_shape (xs : list R) : (2 <= length xs)%nat ->
  plot_x xs = nth 0 xs 0 :: dup (removelast (tl xs)) ++ [last xs 0].
Proof.
  intros Hn. destruct xs as [|x0 r]; cbn [length] in Hn; [lia|].
  cbn [plot_x nth tl]. f_equal.
  assert (Hr : r <> []) by (destruct r; cbn [length] in Hn; [lia|discriminate]).
  rewrite (app_removelast_last 0 Hr) at 1. rewrite dup_app. cbn [dup].
  replace (last (x0 :: r) 0) with (last r 0) by (destruct r; [contradiction|reflexivity]).
  change (dup (removelast r) ++ [last r 0; last r 0])
    with (dup (removelast r) ++ [last r 0] ++ [last r 0]).
  rewrite app_assoc. rewrite removelast_app by discriminate. cbn [removelast].
  rewrite app_nil_r. reflexivity.
Qed.

Theorem pwl_plottable_spec : forall f, wf_pwl f ->
  let xs := fst (fst f) in let y1s := snd (fst f) in let y2s := snd f in
  pwl_plottable f
  = (nth 0 xs 0 :: dup (removelast (tl xs)) ++ [last xs 0], interleave y1s y2s)
  /\ length (fst (pwl_plottable f)) = (2 * length y1s)%nat
  /\ length (snd (pwl_plottable f)) = (2 * length y1s)%nat.
Proof.
  intros [[xs y1] y2] W. apply wf_pwl_inv in W as (Ss & Hn & L1 & L2). cbn [fst snd].
  unfold pwl_plottable. cbn [fst snd]. rewrite plot_x_shape by auto. repeat split.
  - cbn [length]. rewrite app_length, dup_length. cbn [length].
    assert (length (removelast (tl xs)) = (length xs - 2)%nat).
    { destruct xs as [|x0 r]; cbn [length] in *; [lia|]. cbn [tl].
      destruct r as [|x1 r] using rev_ind; cbn [length] in *; [lia|].
      rewrite removelast_last, app_length. cbn [length]. lia. }
    lia.
  - apply interleave_length; auto.
Qed.

(* ------------------------------------------------------------------ *)
(* 7. the integral of the sum                                          *)

Definition sumR (l : list R) : R := fold_right Rplus 0 l.

Lemma sumR_add {A} (f g : A -> R) l :
  sumR (map (fun p => f p + g p) l) = sumR (map f l) + sumR (map g l).
Proof. induction l as [|a l IH]; cbn [map sumR fold_right]; [lra|]. fold (sumR (map f l)) (sumR (map g l)) (sumR (map (fun p => f p + g p) l)). rewrite IH. lra. Qed.

Lemma int_all_pieces : forall (bs : list R) (F G : R * R -> R),
  pwl_int_all ROps bs (map F (pieces bs)) (map G (pieces bs))
  = sumR (map (fun p => (snd p - fst p) * ((F p + G p) / 2)) (pieces bs)).
Proof.
  induction bs as [|a bs IH]; intros F G; [reflexivity|].
  destruct bs as [|b l]; [reflexivity|].
  rewrite pieces_cons2. cbn [map]. rewrite int_all_cons, IH. reflexivity.
Qed.

Lemma int_all_overlap xs y1 y2 : wf_pwl (xs, y1, y2) ->
  pwl_int_all ROps xs y1 y2 = pwl_overlap ROps xs y1 y2 (nth 0 xs 0) (last xs 0).
Proof.
  intros W. pose proof (pwl_integral_none (xs, y1, y2) W) as H. cbn [fst snd pwl_integral] in H.
  injection H as H. exact H.
Qed.

Lemma ssorted_last_ge a l : ssorted (a :: l) -> a <= last (a :: l) 0.
Proof.
  intros Ss. rewrite last_nth. apply ssorted_head_le; auto. cbn [length]. lia.
Qed.

(* telescoping over a partition *)
Lemma overlap_pieces_sum xs y1 y2 : ssorted xs -> forall l a, ssorted (a :: l) ->
  sumR (map (fun p => pwl_overlap ROps xs y1 y2 (fst p) (snd p)) (pieces (a :: l)))
  = pwl_overlap ROps xs y1 y2 a (last (a :: l) 0).
Proof.
  intros Sx. induction l as [|b l IH]; intros a Ss.
  - cbn [pieces map sumR fold_right last]. rewrite overlap_same; auto.
  - rewrite pieces_cons2. cbn [map sumR fold_right fst snd].
    pose proof Ss as Ss'. apply ssorted_cons_inv in Ss' as [S1 F1].
    fold (sumR (map (fun p => pwl_overlap ROps xs y1 y2 (fst p) (snd p)) (pieces (b :: l)))).
    rewrite (IH b S1). change (last (a :: b :: l) 0) with (last (b :: l) 0).
    apply pwl_overlap_additive; auto.
    + inversion F1; subst; lra.
    + apply ssorted_last_ge; auto.
Qed.

Lemma pieces_in : forall bs a b, ssorted bs -> In (a, b) (pieces bs) ->
  a < b /\ In a bs /\ In b bs /\ (forall x, In x bs -> x <= a \/ b <= x).
Proof.
  induction bs as [|u bs IH]; intros a b Ss H; [destruct H|].
  destruct bs as [|v l]; [destruct H|]. rewrite pieces_cons2 in H.
  pose proof Ss as Ss'. apply ssorted_cons_inv in Ss' as [S1 F1].
  assert (Huv : u < v) by (inversion F1; auto).
  destruct H as [H|H].
  - injection H as E1 E2. subst u v. repeat split; auto; [left; auto | right; left; auto |].
    intros x [<-|Hx]; [left; lra|]. right. apply (ssorted_head_min b l); auto.
  - destruct (IH a b S1 H) as (I1 & I2 & I3 & I4). repeat split; auto; [right; auto | right; auto|].
    intros x [<-|Hx]; auto. left. pose proof (ssorted_head_min v l a S1 I2). lra.
Qed.

Lemma locate xs a : ssorted xs -> (2 <= length xs)%nat -> nth 0 xs 0 <= a -> a < last xs 0 ->
  exists k, (S k < length xs)%nat /\ nth k xs 0 <= a /\ a < nth (S k) xs 0.
Proof.
  intros Ss Hn Ha Hb. rewrite last_nth in Hb.
  pose proof (count_le_len a xs) as Hsl.
  assert (Hs1 : (0 < count_le ROps a xs)%nat) by (apply count_le_iff; auto; lia).
  assert (Hs2 : (count_le ROps a xs < length xs)%nat).
  { assert (~ (length xs - 1 < count_le ROps a xs)%nat); [|lia].
    rewrite count_le_iff; auto; [lra|lia]. }
  assert (Hsa : nth (count_le ROps a xs - 1) xs 0 <= a) by (apply count_le_iff; auto; lia).
  assert (Hsb : a < nth (count_le ROps a xs) xs 0).
  { assert (~ (count_le ROps a xs < count_le ROps a xs)%nat) as N by lia.
    rewrite count_le_iff in N; auto; lra. }
  exists (count_le ROps a xs - 1)%nat.
  replace (S (count_le ROps a xs - 1)) with (count_le ROps a xs) by lia. auto.
Qed.

(* a piece of a refinement lies inside one piece of the function *)
Lemma piece_overlap xs y1 y2 bs p : wf_pwl (xs, y1, y2) -> ssorted bs ->
  (forall x, In x xs -> In x bs) ->
  (forall x, In x bs -> nth 0 xs 0 <= x /\ x <= last xs 0) ->
  In p (pieces bs) ->
  exists r l, pwl_right ROps xs y1 y2 (fst p) = Some r /\ pwl_left ROps xs y1 y2 (snd p) = Some l
              /\ pwl_overlap ROps xs y1 y2 (fst p) (snd p) = (snd p - fst p) * ((r + l) / 2).
Proof.
  intros W Sb Sub Rng Hp. apply wf_pwl_inv in W as (Ss & Hn & L1 & L2).
  destruct p as [a b]. cbn [fst snd].
  destruct (pieces_in bs a b Sb Hp) as (Hab & Ia & Ib & Cons).
  destruct (Rng a Ia) as [A1 A2]. destruct (Rng b Ib) as [B1 B2].
  destruct (locate xs a Ss Hn A1 ltac:(lra)) as (k & K & Ka & Kb).
  assert (Hb : b <= nth (S k) xs 0).
  { destruct (Cons (nth (S k) xs 0)); [apply Sub, nth_In; lia | lra | auto]. }
  exists (lin ROps (nth k xs 0) (nth (S k) xs 0) (nth k y1 0) (nth k y2 0) a),
         (lin ROps (nth k xs 0) (nth (S k) xs 0) (nth k y1 0) (nth k y2 0) b).
  repeat split.
  - apply pwl_right_at; auto; lia.
  - apply pwl_left_at; auto; try lia; lra.
  - rewrite (overlap_one xs y1 y2 k a b); auto; try lia. unfold trap. unfold Rdiv. ring.
Qed.

Theorem pwl_add_integral : forall f g, wf_pwl f -> wf_pwl g ->
  nthF ROps (fst (fst f)) 0 = nthF ROps (fst (fst g)) 0 ->
  lastF ROps (fst (fst f)) = lastF ROps (fst (fst g)) ->
  let h := pwl_add_spec ROps f g in
  pwl_int_all ROps (fst (fst h)) (snd (fst h)) (snd h)
  = pwl_int_all ROps (fst (fst f)) (snd (fst f)) (snd f)
    + pwl_int_all ROps (fst (fst g)) (snd (fst g)) (snd g).
Proof.
  intros [[x1 y11] y12] [[x2 y21] y22] W1 W2. cbn [fst snd]. rewrite !nthF_R, !lastF_R.
  intros H0 HL. cbv zeta. unfold pwl_add_spec. cbn [fst snd].
  pose proof W1 as W1'. pose proof W2 as W2'.
  apply wf_pwl_inv in W1' as (Ss1 & Hn1 & La1 & Lb1).
  apply wf_pwl_inv in W2' as (Ss2 & Hn2 & La2 & Lb2).
  set (bs := sort_unique ROps (x1 ++ x2)).
  assert (Sb : ssorted bs) by apply pl_sort_unique_sorted.
  assert (Ib : forall x, In x bs <-> In x x1 \/ In x x2).
  { intros x. unfold bs. rewrite pl_sort_unique_in, in_app_iff. tauto. }
  assert (R1 : forall x, In x x1 -> nth 0 x1 0 <= x /\ x <= last x1 0).
  { intros x Hx. split; [apply nth0_min; auto | rewrite last_nth; apply nth_last_max; auto]. }
  assert (R2 : forall x, In x x2 -> nth 0 x1 0 <= x /\ x <= last x1 0).
  { intros x Hx. rewrite H0, HL.
    split; [apply nth0_min; auto | rewrite last_nth; apply nth_last_max; auto]. }
  assert (Rb : forall x, In x bs -> nth 0 x1 0 <= x /\ x <= last x1 0).
  { intros x Hx. apply Ib in Hx. destruct Hx; auto. }
  assert (I0 : In (nth 0 x1 0) bs) by (apply Ib; left; apply nth_In; lia).
  assert (IT : In (last x1 0) bs) by (apply Ib; left; rewrite last_nth; apply nth_In; lia).
  rewrite int_all_pieces.
  rewrite (map_ext_in _
    (fun p => pwl_overlap ROps x1 y11 y12 (fst p) (snd p)
              + pwl_overlap ROps x2 y21 y22 (fst p) (snd p))).
  2:{ intros p Hp.
      destruct (piece_overlap x1 y11 y12 bs p W1 Sb) as (r1 & l1 & A1 & B1 & C1); auto.
      { intros; apply Ib; auto. }
      destruct (piece_overlap x2 y21 y22 bs p W2 Sb) as (r2 & l2 & A2 & B2 & C2); auto.
      { intros; apply Ib; auto. }
      { rewrite <- H0, <- HL. auto. }
      rewrite A1, A2, B1, B2, C1, C2. cbn [optsum nadd ROps]. unfold Rdiv. ring. }
  rewrite sumR_add.
  destruct bs as [|a l] eqn:Eb; [destruct I0|].
  rewrite !overlap_pieces_sum; auto.
  assert (Ea : a = nth 0 x1 0).
  { pose proof (ssorted_head_min a l _ Sb I0). destruct (Rb a ltac:(left; auto)). lra. }
  assert (El : last (a :: l) 0 = last x1 0).
  { assert (In (last (a :: l) 0) (a :: l)).
    { rewrite last_nth. apply nth_In. cbn [length]. lia. }
    destruct (Rb _ H). pose proof (nth_last_max (a :: l) _ Sb IT) as Q.
    rewrite <- last_nth in Q. lra. }
  rewrite El, Ea. rewrite (int_all_overlap x1 y11 y12 W1), (int_all_overlap x2 y21 y22 W2).
  rewrite <- H0, <- HL. reflexivity.
Qed.

(* the model result of an addition integrates to the sum of the integrals *)
Corollary pwl_add_integral_model : forall f g h, wf_pwl f -> wf_pwl g ->
  nthF ROps (fst (fst f)) 0 = nthF ROps (fst (fst g)) 0 ->
  lastF ROps (fst (fst f)) = lastF ROps (fst (fst g)) ->
  pwl_add ROps f g = Ok h ->
  wf_pwl h /\
  pwl_int_all ROps (fst (fst h)) (snd (fst h)) (snd h)
  = pwl_int_all ROps (fst (fst f)) (snd (fst f)) (snd f)
    + pwl_int_all ROps (fst (fst g)) (snd (fst g)) (snd g).
Proof.
  intros f g h W1 W2 H0 HL E. rewrite pwl_add_eq_spec in E by auto. injection E as <-.
  split; [apply pwl_add_wf; auto | apply pwl_add_integral; auto].
Qed.

(* Q-instance checks of every statement (README item 7) were run with
   f = ([0;1#4;1],[1;2],[0;3]), g = ([0;1#2;3#4;1],[1;2;5],[0;3;7]),
   g' = ([0;1#8;1#4;3#8;1],[1;2;5;1],[0;3;7;2]); no statement had to be corrected. *)

Print Assumptions pwl_add_eq_spec.
Print Assumptions pwl_integral_overlap.
Print Assumptions pwl_integral_none.
Print Assumptions pwl_overlap_additive.
Print Assumptions pwl_call_scalar_eval.
Print Assumptions pwl_call_paths_agree.
Print Assumptions pwl_add_integral.
Print Assumptions pwl_plottable_spec.
