(* Lem_API10.v — MRTS = 'auto': the automatic threshold
     auto_thr l = sqrt (default_thresh_sq ROps l)   (default_thresh of the library)
   and the invariance of every 'auto' result under a time shift, a positive time scaling
   and the time reversal of all trains.
   (A) auto_thr is non-negative, shift invariant, scales with k, mirror invariant (common
       recording), and its square is default_thresh_sq (which is >= 0 for EVERY list);
       it is positive for a non-empty list of valid trains.
   (B) with the threshold recomputed from the transformed trains, the multivariate values
       (every idx), the three matrices, the four multivariate profiles and the pair values
       are those of the original trains (resp. their transformed image): composition of (A)
       with Lem_API2/3 (pairs), Lem_API7 (values), Lem_API5 (matrices), Lem_API6/8 (profiles).
   (C) default_thresh_sq pools over the list with the FIRST train's edges; for trains that
       share the edges it does not depend on the order of the list (Permutation).  With
       different edges it does (counterexample at the end).
   rc = false, both backends, R instance. *)
From Coq Require Import List Bool Arith ZArith Reals Lra Lia Sorted Permutation.
Import ListNotations.
From PS Require Import Num RLemmas Valid ModelKernels ModelFuncs ModelAPI Spec SyncDefs.
From PS Require Import Lem_API Lem_API2 Lem_API3 Lem_API4 Lem_API5 Lem_API6 Lem_API7 Lem_API8.
From PS Require ModelAuto Lem_Order Lem_Mrts Lem_Transform Lem_Multi.
Local Open Scope R_scope.

Local Notation trainR := (@train R).

(* ------------------------------------------------------------------ *)
(* 1. (A) the automatic threshold                                       *)

Definition auto_thr (l : list trainR) : R := sqrt (default_thresh_sq ROps l).

(* the pools of ModelAuto.v for rc = false are the pair / the whole list *)
Lemma auto_pool_bi_false eps (a b : trainR) : ModelAuto.auto_pool_bi ROps eps false a b = [a; b].
Proof. reflexivity. Qed.

Lemma auto_pool_multi_false eps (l : list trainR) idx : ModelAuto.auto_pool_multi ROps eps false l idx = l.
Proof. reflexivity. Qed.

(* a mean of squares (0 for the empty list; 0 / 0 = 0 cannot occur for a non-empty list of
   valid trains, but the statement does not need that): every list *)
Theorem default_thresh_sq_nonneg : forall l : list trainR, 0 <= default_thresh_sq ROps l.
Proof.
  intros [|t0 r]; [cbn [default_thresh_sq n0 ROps]; lra|].
  apply (proj2 (Lem_Mrts.default_thresh_sq_spec t0 r)).
Qed.

Theorem auto_thr_nonneg : forall l, 0 <= auto_thr l.
Proof. intros l. apply sqrt_pos. Qed.

Theorem auto_thr_sq : forall l, auto_thr l * auto_thr l = default_thresh_sq ROps l.
Proof. intros l. apply sqrt_sqrt, default_thresh_sq_nonneg. Qed.

Theorem auto_thr_nil : auto_thr [] = 0.
Proof. unfold auto_thr. cbn [default_thresh_sq n0 ROps]. apply sqrt_0. Qed.

Theorem auto_thr_shift : forall c l, auto_thr (map (shift_train c) l) = auto_thr l.
Proof. intros c l. unfold auto_thr. rewrite default_thresh_sq_shift_gen. reflexivity. Qed.

Theorem auto_thr_scale : forall k l, 0 < k -> auto_thr (map (scale_train k) l) = k * auto_thr l.
Proof. intros k l Hk. apply default_thresh_scale. exact Hk. Qed.

Theorem auto_thr_mirror : forall l ts te, Forall (vtrain ts te) l ->
  auto_thr (map mirror_tr l) = auto_thr l.
Proof.
  intros l ts te HF. unfold auto_thr. rewrite (default_thresh_sq_mirror l ts te HF). reflexivity.
Qed.

(* a non-empty list of valid trains: the threshold is positive *)
Theorem default_thresh_sq_pos : forall l ts te, l <> [] -> Forall (vtrain ts te) l ->
  0 < default_thresh_sq ROps l.
Proof.
  intros [|t0 r] ts te NE HF; [congruence|].
  apply (Lem_Mrts.default_thresh_sq_valid t0 r). intros t Ht.
  destruct (Forall_In_v ts te _ t0 HF (or_introl eq_refl)) as (_ & Hs & He).
  destruct (Forall_In_v ts te _ t HF Ht) as (V & _ & _). rewrite Hs, He. exact V.
Qed.

Theorem auto_thr_pos : forall l ts te, l <> [] -> Forall (vtrain ts te) l -> 0 < auto_thr l.
Proof. intros l ts te NE HF. apply sqrt_lt_R0. apply (default_thresh_sq_pos l ts te NE HF). Qed.

(* the pair forms *)
Lemma auto_thr_shift2 c a b : auto_thr [shift_train c a; shift_train c b] = auto_thr [a; b].
Proof. apply (auto_thr_shift c [a; b]). Qed.

Lemma auto_thr_scale2 k a b : 0 < k -> auto_thr [scale_train k a; scale_train k b] = k * auto_thr [a; b].
Proof. apply (auto_thr_scale k [a; b]). Qed.

Lemma Forall_v2 ts te (a b : trainR) : vtrain ts te a -> vtrain ts te b -> Forall (vtrain ts te) [a; b].
Proof. intros Va Vb. constructor; [exact Va | constructor; [exact Vb | constructor]]. Qed.

Lemma auto_thr_mirror2 ts te a b : vtrain ts te a -> vtrain ts te b ->
  auto_thr [mirror_tr a; mirror_tr b] = auto_thr [a; b].
Proof. intros Va Vb. apply (auto_thr_mirror [a; b] ts te (Forall_v2 ts te a b Va Vb)). Qed.

(* ------------------------------------------------------------------ *)
(* 2. (C) the order of the trains                                       *)

Lemma sumF_perm : forall p q : list R, Permutation p q -> sumF ROps p = sumF ROps q.
Proof.
  intros p q H. induction H as [|x p q H IH|x y p|p q r H1 IH1 H2 IH2].
  - reflexivity.
  - rewrite !Lem_Order.sumF_cons, IH. reflexivity.
  - rewrite !Lem_Order.sumF_cons. lra.
  - rewrite IH1. exact IH2.
Qed.

Lemma msq_perm : forall p q : list R, Permutation p q -> msq p = msq q.
Proof.
  intros p q H. unfold msq.
  rewrite (sumF_perm _ _ (Permutation_map (fun x => x * x) H)), (Permutation_length H). reflexivity.
Qed.

(* the trains share the two edges (nothing on the spikes) *)
Definition same_rec (ts te : R) (l : list trainR) : Prop :=
  Forall (fun t => tr_start t = ts /\ tr_end t = te) l.

Lemma vtrain_same_rec ts te l : Forall (vtrain ts te) l -> same_rec ts te l.
Proof. apply Forall_impl. intros t (_ & Hs & He). split; assumption. Qed.

(* on a common recording the pool does not mention the first train; also right for [] *)
Lemma default_thresh_sq_common : forall l ts te, same_rec ts te l ->
  default_thresh_sq ROps l = msq (flat_map (fun t => isi_lengths ROps (tr_spikes t) ts te) l).
Proof.
  intros [|t0 r] ts te HS.
  - unfold msq. cbn [flat_map map length default_thresh_sq n0 ROps INR].
    rewrite Lem_Order.sumF_nil. unfold Rdiv. rewrite Rinv_0. ring.
  - rewrite default_thresh_sq_msq. unfold Lem_Mrts.pool_of.
    inversion HS as [|? ? [Hs He] _]; subst. reflexivity.
Qed.

Theorem default_thresh_sq_perm_gen : forall l l' ts te, Permutation l l' -> same_rec ts te l ->
  default_thresh_sq ROps l' = default_thresh_sq ROps l.
Proof.
  intros l l' ts te HP HS.
  assert (HS' : same_rec ts te l') by (unfold same_rec; rewrite <- HP; exact HS).
  rewrite (default_thresh_sq_common l ts te HS), (default_thresh_sq_common l' ts te HS').
  apply msq_perm. apply Permutation_flat_map. symmetry; exact HP.
Qed.

(* no extra hypothesis: the empty list is permuted to itself only *)
Theorem default_thresh_sq_perm : forall l l' ts te, Permutation l l' -> Forall (vtrain ts te) l ->
  default_thresh_sq ROps l' = default_thresh_sq ROps l.
Proof.
  intros l l' ts te HP HF.
  apply (default_thresh_sq_perm_gen l l' ts te HP (vtrain_same_rec ts te l HF)).
Qed.

Theorem auto_thr_perm : forall l l' ts te, Permutation l l' -> Forall (vtrain ts te) l ->
  auto_thr l' = auto_thr l.
Proof.
  intros l l' ts te HP HF. unfold auto_thr. rewrite (default_thresh_sq_perm l l' ts te HP HF). reflexivity.
Qed.

Corollary auto_thr_rev : forall l ts te, Forall (vtrain ts te) l -> auto_thr (rev l) = auto_thr l.
Proof. intros l ts te HF. apply (auto_thr_perm l (rev l) ts te (Permutation_rev l) HF). Qed.

Corollary auto_thr_swap2 : forall a b ts te, vtrain ts te a -> vtrain ts te b ->
  auto_thr [b; a] = auto_thr [a; b].
Proof.
  intros a b ts te Va Vb.
  apply (auto_thr_perm [a; b] [b; a] ts te (perm_swap b a []) (Forall_v2 ts te a b Va Vb)).
Qed.

(* the 'auto' pair values are symmetric *)
Theorem bi_auto_symmetric : forall eps cy mt ri iv a b ts te, vtrain ts te a -> vtrain ts te b ->
  isi_distance_bi ROps eps cy false (auto_thr [b; a]) iv b a
    = isi_distance_bi ROps eps cy false (auto_thr [a; b]) iv a b /\
  spike_distance_bi ROps eps cy false (auto_thr [b; a]) ri iv b a
    = spike_distance_bi ROps eps cy false (auto_thr [a; b]) ri iv a b /\
  spike_sync_bi ROps eps cy false mt (auto_thr [b; a]) iv b a
    = spike_sync_bi ROps eps cy false mt (auto_thr [a; b]) iv a b.
Proof.
  intros eps cy mt ri iv a b ts te Va Vb. rewrite (auto_thr_swap2 a b ts te Va Vb).
  split; [symmetry; apply (isi_distance_symmetric eps cy _ iv Va Vb)|].
  split; [symmetry; apply (spike_distance_symmetric eps cy _ ri iv a b ts te Va Vb)|].
  symmetry; apply (sync_symmetric eps cy mt _ iv Va Vb).
Qed.

(* ------------------------------------------------------------------ *)
(* 3. (B) the pair values, threshold pooled over the pair               *)

Theorem isi_distance_shift_auto : forall eps cy iv c a b ts te,
  vtrain ts te a -> vtrain ts te b -> iv_ok ts te iv ->
  isi_distance_bi ROps eps cy false (auto_thr [shift_train c a; shift_train c b])
                  (shift_iv c iv) (shift_train c a) (shift_train c b)
  = isi_distance_bi ROps eps cy false (auto_thr [a; b]) iv a b.
Proof.
  intros eps cy iv c a b ts te Va Vb Hiv. rewrite auto_thr_shift2.
  apply (isi_distance_shift_iv eps cy _ iv c a b ts te Va Vb Hiv).
Qed.

Theorem spike_distance_shift_auto : forall eps cy ri iv c a b ts te,
  vtrain ts te a -> vtrain ts te b -> iv_ok ts te iv ->
  spike_distance_bi ROps eps cy false (auto_thr [shift_train c a; shift_train c b]) ri
                    (shift_iv c iv) (shift_train c a) (shift_train c b)
  = spike_distance_bi ROps eps cy false (auto_thr [a; b]) ri iv a b.
Proof.
  intros eps cy ri iv c a b ts te Va Vb Hiv. rewrite auto_thr_shift2.
  apply (spike_distance_shift_iv eps cy _ ri iv c a b ts te Va Vb Hiv).
Qed.

Theorem sync_value_shift_auto : forall eps cy mt iv c a b ts te,
  vtrain ts te a -> vtrain ts te b -> iv_ok ts te iv ->
  spike_sync_bi ROps eps cy false mt (auto_thr [shift_train c a; shift_train c b])
                (shift_iv c iv) (shift_train c a) (shift_train c b)
  = spike_sync_bi ROps eps cy false mt (auto_thr [a; b]) iv a b.
Proof.
  intros eps cy mt iv c a b ts te Va Vb Hiv. rewrite auto_thr_shift2.
  apply (sync_value_shift eps cy mt _ iv c a b ts te Va Vb Hiv).
Qed.

Theorem order_value_shift_auto : forall eps cy nrm mt c a b ts te, vtrain ts te a -> vtrain ts te b ->
  spike_train_order_bi ROps eps cy false nrm mt (auto_thr [shift_train c a; shift_train c b])
                       (shift_train c a) (shift_train c b)
  = spike_train_order_bi ROps eps cy false nrm mt (auto_thr [a; b]) a b.
Proof.
  intros eps cy nrm mt c a b ts te Va Vb. rewrite auto_thr_shift2.
  apply (order_value_shift eps cy nrm mt _ c a b ts te Va Vb).
Qed.

Theorem directionality_shift_auto : forall eps cy nrm mt c a b ts te, vtrain ts te a -> vtrain ts te b ->
  spike_directionality ROps eps cy false nrm mt (auto_thr [shift_train c a; shift_train c b])
                       (shift_train c a) (shift_train c b)
  = spike_directionality ROps eps cy false nrm mt (auto_thr [a; b]) a b.
Proof.
  intros eps cy nrm mt c a b ts te Va Vb. rewrite auto_thr_shift2.
  apply (directionality_shift eps cy nrm mt _ c a b ts te Va Vb).
Qed.

Theorem isi_distance_scale_auto : forall eps cy iv k a b ts te, 0 < k ->
  vtrain ts te a -> vtrain ts te b -> iv_ok ts te iv ->
  isi_distance_bi ROps eps cy false (auto_thr [scale_train k a; scale_train k b])
                  (scale_iv k iv) (scale_train k a) (scale_train k b)
  = isi_distance_bi ROps eps cy false (auto_thr [a; b]) iv a b.
Proof.
  intros eps cy iv k a b ts te Hk Va Vb Hiv. rewrite (auto_thr_scale2 k a b Hk).
  apply (isi_distance_scale_iv eps cy _ iv k a b ts te Hk Va Vb Hiv).
Qed.

Theorem spike_distance_scale_auto : forall eps cy ri iv k a b ts te, 0 < k ->
  vtrain ts te a -> vtrain ts te b -> iv_ok ts te iv ->
  spike_distance_bi ROps eps cy false (auto_thr [scale_train k a; scale_train k b]) ri
                    (scale_iv k iv) (scale_train k a) (scale_train k b)
  = spike_distance_bi ROps eps cy false (auto_thr [a; b]) ri iv a b.
Proof.
  intros eps cy ri iv k a b ts te Hk Va Vb Hiv. rewrite (auto_thr_scale2 k a b Hk).
  apply (spike_distance_scale_iv eps cy _ ri iv k a b ts te Hk Va Vb Hiv).
Qed.

(* max_tau [mt] stays an explicit number and is scaled with the time axis *)
Theorem sync_value_scale_auto : forall eps cy mt iv k a b ts te, 0 < k ->
  vtrain ts te a -> vtrain ts te b -> iv_ok ts te iv ->
  spike_sync_bi ROps eps cy false (k * mt) (auto_thr [scale_train k a; scale_train k b])
                (scale_iv k iv) (scale_train k a) (scale_train k b)
  = spike_sync_bi ROps eps cy false mt (auto_thr [a; b]) iv a b.
Proof.
  intros eps cy mt iv k a b ts te Hk Va Vb Hiv. rewrite (auto_thr_scale2 k a b Hk).
  apply (sync_value_scale eps cy mt _ iv k a b ts te Hk Va Vb Hiv).
Qed.

Theorem order_value_scale_auto : forall eps cy nrm mt k a b ts te, 0 < k -> cy = true \/ 0 <= eps ->
  vtrain ts te a -> vtrain ts te b ->
  spike_train_order_bi ROps eps cy false nrm (k * mt) (auto_thr [scale_train k a; scale_train k b])
                       (scale_train k a) (scale_train k b)
  = spike_train_order_bi ROps eps cy false nrm mt (auto_thr [a; b]) a b.
Proof.
  intros eps cy nrm mt k a b ts te Hk He Va Vb. rewrite (auto_thr_scale2 k a b Hk).
  apply (order_value_scale eps cy nrm mt _ k a b ts te Hk He Va Vb).
Qed.

Theorem directionality_scale_auto : forall eps cy nrm mt k a b ts te, 0 < k ->
  vtrain ts te a -> vtrain ts te b ->
  spike_directionality ROps eps cy false nrm (k * mt) (auto_thr [scale_train k a; scale_train k b])
                       (scale_train k a) (scale_train k b)
  = spike_directionality ROps eps cy false nrm mt (auto_thr [a; b]) a b.
Proof.
  intros eps cy nrm mt k a b ts te Hk Va Vb. rewrite (auto_thr_scale2 k a b Hk).
  apply (directionality_scale eps cy nrm mt _ k a b ts te Hk Va Vb).
Qed.

Theorem isi_distance_mirror_auto : forall eps cy a b ts te, vtrain ts te a -> vtrain ts te b ->
  isi_distance_bi ROps eps cy false (auto_thr [mirror_tr a; mirror_tr b]) None (mirror_tr a) (mirror_tr b)
  = isi_distance_bi ROps eps cy false (auto_thr [a; b]) None a b.
Proof.
  intros eps cy a b ts te Va Vb. rewrite (auto_thr_mirror2 ts te a b Va Vb).
  apply (isi_distance_mirror eps cy _ a b ts te Va Vb).
Qed.

Theorem spike_distance_mirror_auto : forall eps cy ri a b ts te, vtrain ts te a -> vtrain ts te b ->
  spike_distance_bi ROps eps cy false (auto_thr [mirror_tr a; mirror_tr b]) ri None (mirror_tr a) (mirror_tr b)
  = spike_distance_bi ROps eps cy false (auto_thr [a; b]) ri None a b.
Proof.
  intros eps cy ri a b ts te Va Vb. rewrite (auto_thr_mirror2 ts te a b Va Vb).
  apply (spike_distance_mirror eps cy _ ri a b ts te Va Vb).
Qed.

Theorem sync_value_mirror_auto : forall eps cy mt a b ts te, vtrain ts te a -> vtrain ts te b ->
  spike_sync_bi ROps eps cy false mt (auto_thr [mirror_tr a; mirror_tr b]) None (mirror_tr a) (mirror_tr b)
  = spike_sync_bi ROps eps cy false mt (auto_thr [a; b]) None a b.
Proof.
  intros eps cy mt a b ts te Va Vb. rewrite (auto_thr_mirror2 ts te a b Va Vb).
  apply (sync_value_mirror eps cy mt _ a b ts te Va Vb).
Qed.

(* un-normalised spike train order changes sign *)
Theorem order_value_mirror_auto : forall eps cy mt a b ts te, vtrain ts te a -> vtrain ts te b ->
  spike_train_order_bi ROps eps cy false false mt (auto_thr [mirror_tr a; mirror_tr b]) (mirror_tr a) (mirror_tr b)
  = rmap Ropp (spike_train_order_bi ROps eps cy false false mt (auto_thr [a; b]) a b).
Proof.
  intros eps cy mt a b ts te Va Vb. rewrite (auto_thr_mirror2 ts te a b Va Vb).
  apply (order_value_mirror eps cy mt _ a b ts te Va Vb).
Qed.

Theorem directionality_mirror_auto : forall eps cy nrm mt a b ts te, vtrain ts te a -> vtrain ts te b ->
  spike_directionality ROps eps cy false nrm mt (auto_thr [mirror_tr a; mirror_tr b]) (mirror_tr a) (mirror_tr b)
  = rmap Ropp (spike_directionality ROps eps cy false nrm mt (auto_thr [a; b]) a b).
Proof.
  intros eps cy nrm mt a b ts te Va Vb. rewrite (auto_thr_mirror2 ts te a b Va Vb).
  apply (directionality_mirror eps cy nrm mt _ a b ts te Va Vb).
Qed.

(* ------------------------------------------------------------------ *)
(* 4. (B) the multivariate values, every idx; threshold pooled over the WHOLE list
      (ModelAuto.auto_pool_multi: idx is not consulted)                  *)

Theorem isi_multi_shift_auto : forall eps cy iv c l idx ts te,
  Forall (vtrain ts te) l -> iv_ok ts te iv ->
  isi_distance_multi ROps eps cy false (auto_thr (map (shift_train c) l)) (shift_iv c iv)
                     (map (shift_train c) l) idx
  = isi_distance_multi ROps eps cy false (auto_thr l) iv l idx.
Proof.
  intros eps cy iv c l idx ts te HF Hiv. rewrite auto_thr_shift.
  apply (isi_multi_shift_idx eps cy _ iv c l idx ts te HF Hiv).
Qed.

Theorem spike_multi_shift_auto : forall eps cy ri iv c l idx ts te,
  Forall (vtrain ts te) l -> iv_ok ts te iv ->
  spike_distance_multi ROps eps cy false (auto_thr (map (shift_train c) l)) ri (shift_iv c iv)
                       (map (shift_train c) l) idx
  = spike_distance_multi ROps eps cy false (auto_thr l) ri iv l idx.
Proof.
  intros eps cy ri iv c l idx ts te HF Hiv. rewrite auto_thr_shift.
  apply (spike_multi_shift_idx eps cy _ ri iv c l idx ts te HF Hiv).
Qed.

Theorem sync_multi_shift_auto : forall eps cy mt iv c l idx ts te,
  Forall (vtrain ts te) l -> iv_ok ts te iv ->
  spike_sync_multi ROps eps cy false mt (auto_thr (map (shift_train c) l)) (shift_iv c iv)
                   (map (shift_train c) l) idx
  = spike_sync_multi ROps eps cy false mt (auto_thr l) iv l idx.
Proof.
  intros eps cy mt iv c l idx ts te HF Hiv. rewrite auto_thr_shift.
  apply (sync_multi_shift_idx eps cy mt _ iv c l idx ts te HF Hiv).
Qed.

Theorem order_multi_shift_auto : forall eps cy nrm mt c l idx ts te,
  Forall (vtrain ts te) l ->
  spike_train_order_multi ROps eps cy false nrm mt (auto_thr (map (shift_train c) l))
                          (map (shift_train c) l) idx
  = spike_train_order_multi ROps eps cy false nrm mt (auto_thr l) l idx.
Proof.
  intros eps cy nrm mt c l idx ts te HF. rewrite auto_thr_shift.
  apply (order_multi_shift_idx eps cy nrm mt _ c l idx ts te HF).
Qed.

Theorem isi_multi_scale_auto : forall eps cy iv k l idx ts te, 0 < k ->
  Forall (vtrain ts te) l -> iv_ok ts te iv ->
  isi_distance_multi ROps eps cy false (auto_thr (map (scale_train k) l)) (scale_iv k iv)
                     (map (scale_train k) l) idx
  = isi_distance_multi ROps eps cy false (auto_thr l) iv l idx.
Proof.
  intros eps cy iv k l idx ts te Hk HF Hiv. rewrite (auto_thr_scale k l Hk).
  apply (isi_multi_scale_idx eps cy _ iv k l idx ts te Hk HF Hiv).
Qed.

Theorem spike_multi_scale_auto : forall eps cy ri iv k l idx ts te, 0 < k ->
  Forall (vtrain ts te) l -> iv_ok ts te iv ->
  spike_distance_multi ROps eps cy false (auto_thr (map (scale_train k) l)) ri (scale_iv k iv)
                       (map (scale_train k) l) idx
  = spike_distance_multi ROps eps cy false (auto_thr l) ri iv l idx.
Proof.
  intros eps cy ri iv k l idx ts te Hk HF Hiv. rewrite (auto_thr_scale k l Hk).
  apply (spike_multi_scale_idx eps cy _ ri iv k l idx ts te Hk HF Hiv).
Qed.

Theorem sync_multi_scale_auto : forall eps cy mt iv k l idx ts te, 0 < k ->
  Forall (vtrain ts te) l -> iv_ok ts te iv ->
  spike_sync_multi ROps eps cy false (k * mt) (auto_thr (map (scale_train k) l)) (scale_iv k iv)
                   (map (scale_train k) l) idx
  = spike_sync_multi ROps eps cy false mt (auto_thr l) iv l idx.
Proof.
  intros eps cy mt iv k l idx ts te Hk HF Hiv. rewrite (auto_thr_scale k l Hk).
  apply (sync_multi_scale_idx eps cy mt _ iv k l idx ts te Hk HF Hiv).
Qed.

Theorem order_multi_scale_auto : forall eps cy nrm mt k l idx ts te, 0 < k -> cy = true \/ 0 <= eps ->
  Forall (vtrain ts te) l ->
  spike_train_order_multi ROps eps cy false nrm (k * mt) (auto_thr (map (scale_train k) l))
                          (map (scale_train k) l) idx
  = spike_train_order_multi ROps eps cy false nrm mt (auto_thr l) l idx.
Proof.
  intros eps cy nrm mt k l idx ts te Hk He HF. rewrite (auto_thr_scale k l Hk).
  apply (order_multi_scale_idx eps cy nrm mt _ k l idx ts te Hk He HF).
Qed.

Theorem isi_multi_mirror_auto : forall eps cy l idx ts te, Forall (vtrain ts te) l ->
  isi_distance_multi ROps eps cy false (auto_thr (map mirror_tr l)) None (map mirror_tr l) idx
  = isi_distance_multi ROps eps cy false (auto_thr l) None l idx.
Proof.
  intros eps cy l idx ts te HF. rewrite (auto_thr_mirror l ts te HF).
  apply (isi_multi_mirror_idx eps cy _ l idx ts te HF).
Qed.

Theorem spike_multi_mirror_auto : forall eps cy ri l idx ts te, Forall (vtrain ts te) l ->
  spike_distance_multi ROps eps cy false (auto_thr (map mirror_tr l)) ri None (map mirror_tr l) idx
  = spike_distance_multi ROps eps cy false (auto_thr l) ri None l idx.
Proof.
  intros eps cy ri l idx ts te HF. rewrite (auto_thr_mirror l ts te HF).
  apply (spike_multi_mirror_idx eps cy _ ri l idx ts te HF).
Qed.

Theorem sync_multi_mirror_auto : forall eps cy mt l idx ts te, Forall (vtrain ts te) l ->
  spike_sync_multi ROps eps cy false mt (auto_thr (map mirror_tr l)) None (map mirror_tr l) idx
  = spike_sync_multi ROps eps cy false mt (auto_thr l) None l idx.
Proof.
  intros eps cy mt l idx ts te HF. rewrite (auto_thr_mirror l ts te HF).
  apply (sync_multi_mirror_idx eps cy mt _ l idx ts te HF).
Qed.

(* un-normalised: sign change, every selection *)
Theorem order_multi_mirror_auto : forall eps cy mt l idx ts te, Forall (vtrain ts te) l ->
  spike_train_order_multi ROps eps cy false false mt (auto_thr (map mirror_tr l)) (map mirror_tr l) idx
  = rmap Ropp (spike_train_order_multi ROps eps cy false false mt (auto_thr l) l idx).
Proof.
  intros eps cy mt l idx ts te HF. rewrite (auto_thr_mirror l ts te HF).
  apply (order_multi_mirror_idx eps cy mt _ l idx ts te HF).
Qed.

(* normalised: the hypotheses of Lem_API7.order_multi_mirror_norm_idx *)
Theorem order_multi_mirror_norm_auto : forall eps cy mt l idx ts te, cy = true \/ 0 < eps ->
  Forall (vtrain ts te) l -> idx_ok (length l) idx -> (2 <= msize l idx)%nat ->
  (exists i, In i (ixs l idx) /\ tr_spikes (nth_train ROps l i) <> []) ->
  spike_train_order_multi ROps eps cy false true mt (auto_thr (map mirror_tr l)) (map mirror_tr l) idx
  = rmap Ropp (spike_train_order_multi ROps eps cy false true mt (auto_thr l) l idx).
Proof.
  intros eps cy mt l idx ts te He HF Hix H2 NE. rewrite (auto_thr_mirror l ts te HF).
  apply (order_multi_mirror_norm_idx eps cy mt _ l idx ts te He HF Hix H2 NE).
Qed.

(* ------------------------------------------------------------------ *)
(* 5. (B) the three matrices                                            *)

Theorem isi_matrix_shift_auto : forall eps cy iv c l idx ts te,
  Forall (vtrain ts te) l -> iv_ok ts te iv ->
  isi_distance_matrix ROps eps cy false (auto_thr (map (shift_train c) l)) (shift_iv c iv)
                      (map (shift_train c) l) idx
  = isi_distance_matrix ROps eps cy false (auto_thr l) iv l idx.
Proof.
  intros eps cy iv c l idx ts te HF Hiv. rewrite auto_thr_shift.
  apply (isi_matrix_shift eps cy _ iv c l idx ts te HF Hiv).
Qed.

Theorem spike_matrix_shift_auto : forall eps cy ri iv c l idx ts te,
  Forall (vtrain ts te) l -> iv_ok ts te iv ->
  spike_distance_matrix ROps eps cy false (auto_thr (map (shift_train c) l)) ri (shift_iv c iv)
                        (map (shift_train c) l) idx
  = spike_distance_matrix ROps eps cy false (auto_thr l) ri iv l idx.
Proof.
  intros eps cy ri iv c l idx ts te HF Hiv. rewrite auto_thr_shift.
  apply (spike_matrix_shift eps cy _ ri iv c l idx ts te HF Hiv).
Qed.

Theorem sync_matrix_shift_auto : forall eps cy mt iv c l idx ts te,
  Forall (vtrain ts te) l -> iv_ok ts te iv ->
  spike_sync_matrix ROps eps cy false mt (auto_thr (map (shift_train c) l)) (shift_iv c iv)
                    (map (shift_train c) l) idx
  = spike_sync_matrix ROps eps cy false mt (auto_thr l) iv l idx.
Proof.
  intros eps cy mt iv c l idx ts te HF Hiv. rewrite auto_thr_shift.
  apply (sync_matrix_shift eps cy mt _ iv c l idx ts te HF Hiv).
Qed.

Theorem isi_matrix_scale_auto : forall eps cy iv k l idx ts te, 0 < k ->
  Forall (vtrain ts te) l -> iv_ok ts te iv ->
  isi_distance_matrix ROps eps cy false (auto_thr (map (scale_train k) l)) (scale_iv k iv)
                      (map (scale_train k) l) idx
  = isi_distance_matrix ROps eps cy false (auto_thr l) iv l idx.
Proof.
  intros eps cy iv k l idx ts te Hk HF Hiv. rewrite (auto_thr_scale k l Hk).
  apply (isi_matrix_scale eps cy _ iv k l idx ts te Hk HF Hiv).
Qed.

Theorem spike_matrix_scale_auto : forall eps cy ri iv k l idx ts te, 0 < k ->
  Forall (vtrain ts te) l -> iv_ok ts te iv ->
  spike_distance_matrix ROps eps cy false (auto_thr (map (scale_train k) l)) ri (scale_iv k iv)
                        (map (scale_train k) l) idx
  = spike_distance_matrix ROps eps cy false (auto_thr l) ri iv l idx.
Proof.
  intros eps cy ri iv k l idx ts te Hk HF Hiv. rewrite (auto_thr_scale k l Hk).
  apply (spike_matrix_scale eps cy _ ri iv k l idx ts te Hk HF Hiv).
Qed.

Theorem sync_matrix_scale_auto : forall eps cy mt iv k l idx ts te, 0 < k ->
  Forall (vtrain ts te) l -> iv_ok ts te iv ->
  spike_sync_matrix ROps eps cy false (k * mt) (auto_thr (map (scale_train k) l)) (scale_iv k iv)
                    (map (scale_train k) l) idx
  = spike_sync_matrix ROps eps cy false mt (auto_thr l) iv l idx.
Proof.
  intros eps cy mt iv k l idx ts te Hk HF Hiv. rewrite (auto_thr_scale k l Hk).
  apply (sync_matrix_scale eps cy mt _ iv k l idx ts te Hk HF Hiv).
Qed.

Theorem isi_matrix_mirror_auto : forall eps cy l idx ts te, Forall (vtrain ts te) l ->
  isi_distance_matrix ROps eps cy false (auto_thr (map mirror_tr l)) None (map mirror_tr l) idx
  = isi_distance_matrix ROps eps cy false (auto_thr l) None l idx.
Proof.
  intros eps cy l idx ts te HF. rewrite (auto_thr_mirror l ts te HF).
  apply (isi_matrix_mirror eps cy _ l idx ts te HF).
Qed.

Theorem spike_matrix_mirror_auto : forall eps cy ri l idx ts te, Forall (vtrain ts te) l ->
  spike_distance_matrix ROps eps cy false (auto_thr (map mirror_tr l)) ri None (map mirror_tr l) idx
  = spike_distance_matrix ROps eps cy false (auto_thr l) ri None l idx.
Proof.
  intros eps cy ri l idx ts te HF. rewrite (auto_thr_mirror l ts te HF).
  apply (spike_matrix_mirror eps cy _ ri l idx ts te HF).
Qed.

Theorem sync_matrix_mirror_auto : forall eps cy mt l idx ts te, Forall (vtrain ts te) l ->
  spike_sync_matrix ROps eps cy false mt (auto_thr (map mirror_tr l)) None (map mirror_tr l) idx
  = spike_sync_matrix ROps eps cy false mt (auto_thr l) None l idx.
Proof.
  intros eps cy mt l idx ts te HF. rewrite (auto_thr_mirror l ts te HF).
  apply (sync_matrix_mirror eps cy mt _ l idx ts te HF).
Qed.

(* ------------------------------------------------------------------ *)
(* 6. (B) the four multivariate profiles                                *)

Theorem isi_profile_multi_shift_auto : forall eps cy c l idx ts te, Forall (vtrain ts te) l ->
  isi_profile_multi ROps eps cy false (auto_thr (map (shift_train c) l)) (map (shift_train c) l) idx
  = rmap (shift_pwc c) (isi_profile_multi ROps eps cy false (auto_thr l) l idx).
Proof.
  intros eps cy c l idx ts te HF. rewrite auto_thr_shift.
  apply (isi_profile_multi_shift eps cy _ c l idx ts te HF).
Qed.

Theorem spike_profile_multi_shift_auto : forall eps cy ri c l idx ts te, Forall (vtrain ts te) l ->
  spike_profile_multi ROps eps cy false (auto_thr (map (shift_train c) l)) ri (map (shift_train c) l) idx
  = rmap (shift_pwl c) (spike_profile_multi ROps eps cy false (auto_thr l) ri l idx).
Proof.
  intros eps cy ri c l idx ts te HF. rewrite auto_thr_shift.
  apply (spike_profile_multi_shift eps cy _ ri c l idx ts te HF).
Qed.

(* as in Lem_API6: no validity hypothesis for the two event profiles *)
Theorem sync_profile_multi_shift_auto : forall eps cy mt c (l : list trainR) idx,
  spike_sync_profile_multi ROps eps cy false mt (auto_thr (map (shift_train c) l)) (map (shift_train c) l) idx
  = rmap (shift_df c) (spike_sync_profile_multi ROps eps cy false mt (auto_thr l) l idx).
Proof. intros eps cy mt c l idx. rewrite auto_thr_shift. apply sync_profile_multi_shift. Qed.

Theorem order_profile_multi_shift_auto : forall eps cy mt c (l : list trainR) idx,
  order_profile_multi ROps eps cy false mt (auto_thr (map (shift_train c) l)) (map (shift_train c) l) idx
  = rmap (shift_df c) (order_profile_multi ROps eps cy false mt (auto_thr l) l idx).
Proof. intros eps cy mt c l idx. rewrite auto_thr_shift. apply order_profile_multi_shift. Qed.

Theorem isi_profile_multi_scale_auto : forall eps cy k l idx ts te, 0 < k -> Forall (vtrain ts te) l ->
  isi_profile_multi ROps eps cy false (auto_thr (map (scale_train k) l)) (map (scale_train k) l) idx
  = rmap (scale_pwc k) (isi_profile_multi ROps eps cy false (auto_thr l) l idx).
Proof.
  intros eps cy k l idx ts te Hk HF. rewrite (auto_thr_scale k l Hk).
  apply (isi_profile_multi_scale eps cy _ k l idx ts te Hk HF).
Qed.

Theorem spike_profile_multi_scale_auto : forall eps cy ri k l idx ts te, 0 < k -> Forall (vtrain ts te) l ->
  spike_profile_multi ROps eps cy false (auto_thr (map (scale_train k) l)) ri (map (scale_train k) l) idx
  = rmap (scale_pwl k) (spike_profile_multi ROps eps cy false (auto_thr l) ri l idx).
Proof.
  intros eps cy ri k l idx ts te Hk HF. rewrite (auto_thr_scale k l Hk).
  apply (spike_profile_multi_scale eps cy _ ri k l idx ts te Hk HF).
Qed.

Theorem sync_profile_multi_scale_auto : forall eps cy mt k (l : list trainR) idx, 0 < k ->
  spike_sync_profile_multi ROps eps cy false (k * mt) (auto_thr (map (scale_train k) l))
                           (map (scale_train k) l) idx
  = rmap (scale_df k) (spike_sync_profile_multi ROps eps cy false mt (auto_thr l) l idx).
Proof.
  intros eps cy mt k l idx Hk. rewrite (auto_thr_scale k l Hk).
  apply sync_profile_multi_scale. exact Hk.
Qed.

Theorem order_profile_multi_scale_auto : forall eps cy mt k (l : list trainR) idx, 0 < k ->
  order_profile_multi ROps eps cy false (k * mt) (auto_thr (map (scale_train k) l))
                      (map (scale_train k) l) idx
  = rmap (scale_df k) (order_profile_multi ROps eps cy false mt (auto_thr l) l idx).
Proof.
  intros eps cy mt k l idx Hk. rewrite (auto_thr_scale k l Hk).
  apply order_profile_multi_scale. exact Hk.
Qed.

Theorem isi_profile_multi_mirror_auto : forall eps cy l idx ts te, Forall (vtrain ts te) l ->
  isi_profile_multi ROps eps cy false (auto_thr (map mirror_tr l)) (map mirror_tr l) idx
  = rmap (mirror_pwc ts te) (isi_profile_multi ROps eps cy false (auto_thr l) l idx).
Proof.
  intros eps cy l idx ts te HF. rewrite (auto_thr_mirror l ts te HF).
  apply (isi_profile_multi_mirror eps cy _ l idx ts te HF).
Qed.

Theorem spike_profile_multi_mirror_auto : forall eps cy ri l idx ts te, Forall (vtrain ts te) l ->
  spike_profile_multi ROps eps cy false (auto_thr (map mirror_tr l)) ri (map mirror_tr l) idx
  = rmap (mirror_pwl ts te) (spike_profile_multi ROps eps cy false (auto_thr l) ri l idx).
Proof.
  intros eps cy ri l idx ts te HF. rewrite (auto_thr_mirror l ts te HF).
  apply (spike_profile_multi_mirror eps cy _ ri l idx ts te HF).
Qed.

Theorem sync_profile_multi_mirror_auto : forall eps cy mt l idx ts te, Forall (vtrain ts te) l ->
  spike_sync_profile_multi ROps eps cy false mt (auto_thr (map mirror_tr l)) (map mirror_tr l) idx
  = rmap (mirror_df ts te) (spike_sync_profile_multi ROps eps cy false mt (auto_thr l) l idx).
Proof.
  intros eps cy mt l idx ts te HF. rewrite (auto_thr_mirror l ts te HF).
  apply (sync_profile_multi_mirror eps cy mt _ l idx ts te HF).
Qed.

(* the order profile is mirrored and negated as soon as it has one event (hypothesis of
   Lem_API8.order_profile_multi_mirror, necessary there) *)
Theorem order_profile_multi_mirror_auto : forall eps cy mt l idx ts te P, Forall (vtrain ts te) l ->
  order_profile_multi ROps eps cy false mt (auto_thr l) l idx = Ok P -> removelast (tl P) <> [] ->
  order_profile_multi ROps eps cy false mt (auto_thr (map mirror_tr l)) (map mirror_tr l) idx
  = Ok (mirror_neg_df ts te P).
Proof.
  intros eps cy mt l idx ts te P HF E NE. rewrite (auto_thr_mirror l ts te HF).
  apply (order_profile_multi_mirror eps cy mt _ l idx ts te P HF E NE).
Qed.

(* without any hypothesis on the events *)
Theorem order_profile_multi_mirror_partial_auto : forall eps cy mt l idx ts te, Forall (vtrain ts te) l ->
  match order_profile_multi ROps eps cy false mt (auto_thr l) l idx,
        order_profile_multi ROps eps cy false mt (auto_thr (map mirror_tr l)) (map mirror_tr l) idx with
  | Ok P, Ok P' =>
      removelast (tl P') = rev (map (Lem_Transform.gT ts te Ropp) (removelast (tl P)))
      /\ (removelast (tl P) <> [] -> P' = mirror_neg_df ts te P)
      /\ (removelast (tl P) = [] -> P' = P)
  | Err e, Err e' => e = e'
  | _, _ => False
  end.
Proof.
  intros eps cy mt l idx ts te HF. rewrite (auto_thr_mirror l ts te HF).
  apply (order_profile_multi_mirror_partial eps cy mt _ l idx ts te HF).
Qed.

(* ------------------------------------------------------------------ *)
(* 7. everything at once                                                *)

Theorem multi_scalars_shift_auto : forall eps cy nrm mt ri iv c l idx ts te,
  Forall (vtrain ts te) l -> iv_ok ts te iv ->
  let m := auto_thr l in let m' := auto_thr (map (shift_train c) l) in
  isi_distance_multi ROps eps cy false m' (shift_iv c iv) (map (shift_train c) l) idx
    = isi_distance_multi ROps eps cy false m iv l idx /\
  spike_distance_multi ROps eps cy false m' ri (shift_iv c iv) (map (shift_train c) l) idx
    = spike_distance_multi ROps eps cy false m ri iv l idx /\
  spike_sync_multi ROps eps cy false mt m' (shift_iv c iv) (map (shift_train c) l) idx
    = spike_sync_multi ROps eps cy false mt m iv l idx /\
  spike_train_order_multi ROps eps cy false nrm mt m' (map (shift_train c) l) idx
    = spike_train_order_multi ROps eps cy false nrm mt m l idx /\
  isi_distance_matrix ROps eps cy false m' (shift_iv c iv) (map (shift_train c) l) idx
    = isi_distance_matrix ROps eps cy false m iv l idx /\
  spike_distance_matrix ROps eps cy false m' ri (shift_iv c iv) (map (shift_train c) l) idx
    = spike_distance_matrix ROps eps cy false m ri iv l idx /\
  spike_sync_matrix ROps eps cy false mt m' (shift_iv c iv) (map (shift_train c) l) idx
    = spike_sync_matrix ROps eps cy false mt m iv l idx /\
  isi_profile_multi ROps eps cy false m' (map (shift_train c) l) idx
    = rmap (shift_pwc c) (isi_profile_multi ROps eps cy false m l idx) /\
  spike_profile_multi ROps eps cy false m' ri (map (shift_train c) l) idx
    = rmap (shift_pwl c) (spike_profile_multi ROps eps cy false m ri l idx) /\
  spike_sync_profile_multi ROps eps cy false mt m' (map (shift_train c) l) idx
    = rmap (shift_df c) (spike_sync_profile_multi ROps eps cy false mt m l idx) /\
  order_profile_multi ROps eps cy false mt m' (map (shift_train c) l) idx
    = rmap (shift_df c) (order_profile_multi ROps eps cy false mt m l idx).
Proof.
  intros eps cy nrm mt ri iv c l idx ts te HF Hiv. cbv zeta.
  split; [apply (isi_multi_shift_auto eps cy iv c l idx ts te HF Hiv)|].
  split; [apply (spike_multi_shift_auto eps cy ri iv c l idx ts te HF Hiv)|].
  split; [apply (sync_multi_shift_auto eps cy mt iv c l idx ts te HF Hiv)|].
  split; [apply (order_multi_shift_auto eps cy nrm mt c l idx ts te HF)|].
  split; [apply (isi_matrix_shift_auto eps cy iv c l idx ts te HF Hiv)|].
  split; [apply (spike_matrix_shift_auto eps cy ri iv c l idx ts te HF Hiv)|].
  split; [apply (sync_matrix_shift_auto eps cy mt iv c l idx ts te HF Hiv)|].
  split; [apply (isi_profile_multi_shift_auto eps cy c l idx ts te HF)|].
  split; [apply (spike_profile_multi_shift_auto eps cy ri c l idx ts te HF)|].
  split; [apply sync_profile_multi_shift_auto | apply order_profile_multi_shift_auto].
Qed.

Theorem multi_scalars_scale_auto : forall eps cy nrm mt ri iv k l idx ts te,
  0 < k -> cy = true \/ 0 <= eps -> Forall (vtrain ts te) l -> iv_ok ts te iv ->
  let m := auto_thr l in let m' := auto_thr (map (scale_train k) l) in
  isi_distance_multi ROps eps cy false m' (scale_iv k iv) (map (scale_train k) l) idx
    = isi_distance_multi ROps eps cy false m iv l idx /\
  spike_distance_multi ROps eps cy false m' ri (scale_iv k iv) (map (scale_train k) l) idx
    = spike_distance_multi ROps eps cy false m ri iv l idx /\
  spike_sync_multi ROps eps cy false (k * mt) m' (scale_iv k iv) (map (scale_train k) l) idx
    = spike_sync_multi ROps eps cy false mt m iv l idx /\
  spike_train_order_multi ROps eps cy false nrm (k * mt) m' (map (scale_train k) l) idx
    = spike_train_order_multi ROps eps cy false nrm mt m l idx /\
  isi_distance_matrix ROps eps cy false m' (scale_iv k iv) (map (scale_train k) l) idx
    = isi_distance_matrix ROps eps cy false m iv l idx /\
  spike_distance_matrix ROps eps cy false m' ri (scale_iv k iv) (map (scale_train k) l) idx
    = spike_distance_matrix ROps eps cy false m ri iv l idx /\
  spike_sync_matrix ROps eps cy false (k * mt) m' (scale_iv k iv) (map (scale_train k) l) idx
    = spike_sync_matrix ROps eps cy false mt m iv l idx /\
  isi_profile_multi ROps eps cy false m' (map (scale_train k) l) idx
    = rmap (scale_pwc k) (isi_profile_multi ROps eps cy false m l idx) /\
  spike_profile_multi ROps eps cy false m' ri (map (scale_train k) l) idx
    = rmap (scale_pwl k) (spike_profile_multi ROps eps cy false m ri l idx) /\
  spike_sync_profile_multi ROps eps cy false (k * mt) m' (map (scale_train k) l) idx
    = rmap (scale_df k) (spike_sync_profile_multi ROps eps cy false mt m l idx) /\
  order_profile_multi ROps eps cy false (k * mt) m' (map (scale_train k) l) idx
    = rmap (scale_df k) (order_profile_multi ROps eps cy false mt m l idx).
Proof.
  intros eps cy nrm mt ri iv k l idx ts te Hk He HF Hiv. cbv zeta.
  split; [apply (isi_multi_scale_auto eps cy iv k l idx ts te Hk HF Hiv)|].
  split; [apply (spike_multi_scale_auto eps cy ri iv k l idx ts te Hk HF Hiv)|].
  split; [apply (sync_multi_scale_auto eps cy mt iv k l idx ts te Hk HF Hiv)|].
  split; [apply (order_multi_scale_auto eps cy nrm mt k l idx ts te Hk He HF)|].
  split; [apply (isi_matrix_scale_auto eps cy iv k l idx ts te Hk HF Hiv)|].
  split; [apply (spike_matrix_scale_auto eps cy ri iv k l idx ts te Hk HF Hiv)|].
  split; [apply (sync_matrix_scale_auto eps cy mt iv k l idx ts te Hk HF Hiv)|].
  split; [apply (isi_profile_multi_scale_auto eps cy k l idx ts te Hk HF)|].
  split; [apply (spike_profile_multi_scale_auto eps cy ri k l idx ts te Hk HF)|].
  split; [apply sync_profile_multi_scale_auto; exact Hk | apply order_profile_multi_scale_auto; exact Hk].
Qed.

Theorem multi_scalars_mirror_auto : forall eps cy mt ri l idx ts te, Forall (vtrain ts te) l ->
  let m := auto_thr l in let m' := auto_thr (map mirror_tr l) in
  isi_distance_multi ROps eps cy false m' None (map mirror_tr l) idx
    = isi_distance_multi ROps eps cy false m None l idx /\
  spike_distance_multi ROps eps cy false m' ri None (map mirror_tr l) idx
    = spike_distance_multi ROps eps cy false m ri None l idx /\
  spike_sync_multi ROps eps cy false mt m' None (map mirror_tr l) idx
    = spike_sync_multi ROps eps cy false mt m None l idx /\
  spike_train_order_multi ROps eps cy false false mt m' (map mirror_tr l) idx
    = rmap Ropp (spike_train_order_multi ROps eps cy false false mt m l idx) /\
  isi_distance_matrix ROps eps cy false m' None (map mirror_tr l) idx
    = isi_distance_matrix ROps eps cy false m None l idx /\
  spike_distance_matrix ROps eps cy false m' ri None (map mirror_tr l) idx
    = spike_distance_matrix ROps eps cy false m ri None l idx /\
  spike_sync_matrix ROps eps cy false mt m' None (map mirror_tr l) idx
    = spike_sync_matrix ROps eps cy false mt m None l idx /\
  isi_profile_multi ROps eps cy false m' (map mirror_tr l) idx
    = rmap (mirror_pwc ts te) (isi_profile_multi ROps eps cy false m l idx) /\
  spike_profile_multi ROps eps cy false m' ri (map mirror_tr l) idx
    = rmap (mirror_pwl ts te) (spike_profile_multi ROps eps cy false m ri l idx) /\
  spike_sync_profile_multi ROps eps cy false mt m' (map mirror_tr l) idx
    = rmap (mirror_df ts te) (spike_sync_profile_multi ROps eps cy false mt m l idx) /\
  (forall P, order_profile_multi ROps eps cy false mt m l idx = Ok P -> removelast (tl P) <> [] ->
     order_profile_multi ROps eps cy false mt m' (map mirror_tr l) idx = Ok (mirror_neg_df ts te P)).
Proof.
  intros eps cy mt ri l idx ts te HF. cbv zeta.
  split; [apply (isi_multi_mirror_auto eps cy l idx ts te HF)|].
  split; [apply (spike_multi_mirror_auto eps cy ri l idx ts te HF)|].
  split; [apply (sync_multi_mirror_auto eps cy mt l idx ts te HF)|].
  split; [apply (order_multi_mirror_auto eps cy mt l idx ts te HF)|].
  split; [apply (isi_matrix_mirror_auto eps cy l idx ts te HF)|].
  split; [apply (spike_matrix_mirror_auto eps cy ri l idx ts te HF)|].
  split; [apply (sync_matrix_mirror_auto eps cy mt l idx ts te HF)|].
  split; [apply (isi_profile_multi_mirror_auto eps cy l idx ts te HF)|].
  split; [apply (spike_profile_multi_mirror_auto eps cy ri l idx ts te HF)|].
  split; [apply (sync_profile_multi_mirror_auto eps cy mt l idx ts te HF)|].
  intros P E NE. apply (order_profile_multi_mirror_auto eps cy mt l idx ts te P HF E NE).
Qed.

Theorem bi_scalars_shift_auto : forall eps cy nrm mt ri iv c a b ts te,
  vtrain ts te a -> vtrain ts te b -> iv_ok ts te iv ->
  let m := auto_thr [a; b] in let m' := auto_thr [shift_train c a; shift_train c b] in
  isi_distance_bi ROps eps cy false m' (shift_iv c iv) (shift_train c a) (shift_train c b)
    = isi_distance_bi ROps eps cy false m iv a b /\
  spike_distance_bi ROps eps cy false m' ri (shift_iv c iv) (shift_train c a) (shift_train c b)
    = spike_distance_bi ROps eps cy false m ri iv a b /\
  spike_sync_bi ROps eps cy false mt m' (shift_iv c iv) (shift_train c a) (shift_train c b)
    = spike_sync_bi ROps eps cy false mt m iv a b /\
  spike_train_order_bi ROps eps cy false nrm mt m' (shift_train c a) (shift_train c b)
    = spike_train_order_bi ROps eps cy false nrm mt m a b /\
  spike_directionality ROps eps cy false nrm mt m' (shift_train c a) (shift_train c b)
    = spike_directionality ROps eps cy false nrm mt m a b.
Proof.
  intros eps cy nrm mt ri iv c a b ts te Va Vb Hiv. cbv zeta.
  split; [apply (isi_distance_shift_auto eps cy iv c a b ts te Va Vb Hiv)|].
  split; [apply (spike_distance_shift_auto eps cy ri iv c a b ts te Va Vb Hiv)|].
  split; [apply (sync_value_shift_auto eps cy mt iv c a b ts te Va Vb Hiv)|].
  split; [apply (order_value_shift_auto eps cy nrm mt c a b ts te Va Vb)|].
  apply (directionality_shift_auto eps cy nrm mt c a b ts te Va Vb).
Qed.

Theorem bi_scalars_scale_auto : forall eps cy nrm mt ri iv k a b ts te, 0 < k -> cy = true \/ 0 <= eps ->
  vtrain ts te a -> vtrain ts te b -> iv_ok ts te iv ->
  let m := auto_thr [a; b] in let m' := auto_thr [scale_train k a; scale_train k b] in
  isi_distance_bi ROps eps cy false m' (scale_iv k iv) (scale_train k a) (scale_train k b)
    = isi_distance_bi ROps eps cy false m iv a b /\
  spike_distance_bi ROps eps cy false m' ri (scale_iv k iv) (scale_train k a) (scale_train k b)
    = spike_distance_bi ROps eps cy false m ri iv a b /\
  spike_sync_bi ROps eps cy false (k * mt) m' (scale_iv k iv) (scale_train k a) (scale_train k b)
    = spike_sync_bi ROps eps cy false mt m iv a b /\
  spike_train_order_bi ROps eps cy false nrm (k * mt) m' (scale_train k a) (scale_train k b)
    = spike_train_order_bi ROps eps cy false nrm mt m a b /\
  spike_directionality ROps eps cy false nrm (k * mt) m' (scale_train k a) (scale_train k b)
    = spike_directionality ROps eps cy false nrm mt m a b.
Proof.
  intros eps cy nrm mt ri iv k a b ts te Hk He Va Vb Hiv. cbv zeta.
  split; [apply (isi_distance_scale_auto eps cy iv k a b ts te Hk Va Vb Hiv)|].
  split; [apply (spike_distance_scale_auto eps cy ri iv k a b ts te Hk Va Vb Hiv)|].
  split; [apply (sync_value_scale_auto eps cy mt iv k a b ts te Hk Va Vb Hiv)|].
  split; [apply (order_value_scale_auto eps cy nrm mt k a b ts te Hk He Va Vb)|].
  apply (directionality_scale_auto eps cy nrm mt k a b ts te Hk Va Vb).
Qed.

Theorem bi_scalars_mirror_auto : forall eps cy nrm mt ri a b ts te,
  vtrain ts te a -> vtrain ts te b ->
  let m := auto_thr [a; b] in let m' := auto_thr [mirror_tr a; mirror_tr b] in
  isi_distance_bi ROps eps cy false m' None (mirror_tr a) (mirror_tr b)
    = isi_distance_bi ROps eps cy false m None a b /\
  spike_distance_bi ROps eps cy false m' ri None (mirror_tr a) (mirror_tr b)
    = spike_distance_bi ROps eps cy false m ri None a b /\
  spike_sync_bi ROps eps cy false mt m' None (mirror_tr a) (mirror_tr b)
    = spike_sync_bi ROps eps cy false mt m None a b /\
  spike_train_order_bi ROps eps cy false false mt m' (mirror_tr a) (mirror_tr b)
    = rmap Ropp (spike_train_order_bi ROps eps cy false false mt m a b) /\
  spike_directionality ROps eps cy false nrm mt m' (mirror_tr a) (mirror_tr b)
    = rmap Ropp (spike_directionality ROps eps cy false nrm mt m a b).
Proof.
  intros eps cy nrm mt ri a b ts te Va Vb. cbv zeta.
  split; [apply (isi_distance_mirror_auto eps cy a b ts te Va Vb)|].
  split; [apply (spike_distance_mirror_auto eps cy ri a b ts te Va Vb)|].
  split; [apply (sync_value_mirror_auto eps cy mt a b ts te Va Vb)|].
  split; [apply (order_value_mirror_auto eps cy mt a b ts te Va Vb)|].
  apply (directionality_mirror_auto eps cy nrm mt a b ts te Va Vb).
Qed.

(* ------------------------------------------------------------------ *)
(* 8. non-vacuity: the three valid trains [ex_l] of Lem_API4 on [0, 10]  *)

(* the pooled lengths are 4 4 5 | 5 5 5 | 3 1 5 5: mean square 192 / 10 *)
Example ex10_thresh : default_thresh_sq ROps ex_l = 96 / 5 /\ auto_thr ex_l = sqrt (96 / 5) /\ 4 < auto_thr ex_l < 5.
Proof.
  assert (E : default_thresh_sq ROps ex_l = 96 / 5).
  { unfold default_thresh_sq, ex_l, ex_a, ex_b, ex_c.
    cbn [flat_map isi_lengths tr_spikes tr_start tr_end fst snd length last nth Nat.sub diffs app map].
    rewrite !R_nmax. cbn [nsub nltb ROps].
    repeat match goal with |- context [Rltb ?x ?y] => rewrite (proj2 (Rltb_true x y)) by lra end.
    cbn [app map length]. unfold sumF, Rmax. cbn [fold_right nofnat nadd nmul ndiv n0 n1 ROps].
    repeat match goal with |- context [Rle_dec ?x ?y] => destruct (Rle_dec x y); try lra end.
    rewrite Lem_Multi.nofnat_INR. cbn [INR]. field. }
  split; [exact E|]. unfold auto_thr. rewrite E. split; [reflexivity|].
  split.
  - rewrite <- (sqrt_square 4) by lra. apply sqrt_lt_1; lra.
  - rewrite <- (sqrt_square 5) at 2 by lra. apply sqrt_lt_1; lra.
Qed.

Example ex10_hypotheses :
  Forall (vtrain 0 10) ex_l /\ vtrain 0 10 ex_a /\ vtrain 0 10 ex_b /\
  iv_ok 0 10 (Some (1, 9)) /\ iv_ok 0 10 None /\ 0 < 3 /\ (false = true \/ 0 <= 1 / 1000000) /\
  (false = true \/ 0 < 1 / 1000000) /\
  idx_ok (length ex_l) ex_idx /\ (2 <= msize ex_l ex_idx)%nat /\
  (exists i, In i (ixs ex_l ex_idx) /\ tr_spikes (nth_train ROps ex_l i) <> []) /\
  Permutation ex_l [ex_c; ex_a; ex_b] /\ ex_l <> [] /\ 0 < auto_thr ex_l.
Proof.
  destruct ex7_hypotheses as (HF & Hiv & HivN & Hix & H2 & NE & _ & H3 & He & _).
  split; [exact HF|]. split; [apply ex_a_vtrain|]. split; [apply ex_b_vtrain|].
  split; [exact Hiv|]. split; [exact HivN|]. split; [exact H3|]. split; [right; lra|].
  split; [exact He|]. split; [exact Hix|]. split; [exact H2|]. split; [exact NE|].
  split; [|split; [discriminate|apply (auto_thr_pos ex_l 0 10); [discriminate | exact HF]]].
  unfold ex_l. apply Permutation_sym. apply (Permutation_cons_app [ex_a; ex_b] [] ex_c). apply Permutation_refl.
Qed.

Example ex10_instances :
  auto_thr (map (shift_train 3) ex_l) = auto_thr ex_l /\
  auto_thr (map (scale_train 3) ex_l) = 3 * auto_thr ex_l /\
  auto_thr (map mirror_tr ex_l) = auto_thr ex_l /\
  auto_thr [ex_c; ex_a; ex_b] = auto_thr ex_l /\
  isi_distance_multi ROps (1 / 1000000) false false (auto_thr (map (shift_train 3) ex_l))
                     (shift_iv 3 (Some (1, 9))) (map (shift_train 3) ex_l) ex_idx
    = isi_distance_multi ROps (1 / 1000000) false false (auto_thr ex_l) (Some (1, 9)) ex_l ex_idx /\
  spike_train_order_multi ROps (1 / 1000000) false false true (3 * 2) (auto_thr (map (scale_train 3) ex_l))
                          (map (scale_train 3) ex_l) None
    = spike_train_order_multi ROps (1 / 1000000) false false true 2 (auto_thr ex_l) ex_l None /\
  spike_train_order_multi ROps (1 / 1000000) false false true 2 (auto_thr (map mirror_tr ex_l))
                          (map mirror_tr ex_l) ex_idx
    = rmap Ropp (spike_train_order_multi ROps (1 / 1000000) false false true 2 (auto_thr ex_l) ex_l ex_idx) /\
  spike_sync_matrix ROps (1 / 1000000) true false (3 * 2) (auto_thr (map (scale_train 3) ex_l))
                    (scale_iv 3 (Some (1, 9))) (map (scale_train 3) ex_l) ex_idx
    = spike_sync_matrix ROps (1 / 1000000) true false 2 (auto_thr ex_l) (Some (1, 9)) ex_l ex_idx /\
  spike_profile_multi ROps (1 / 1000000) true false (auto_thr (map mirror_tr ex_l)) true (map mirror_tr ex_l) None
    = rmap (mirror_pwl 0 10) (spike_profile_multi ROps (1 / 1000000) true false (auto_thr ex_l) true ex_l None) /\
  spike_distance_bi ROps (1 / 1000000) false false (auto_thr [scale_train 3 ex_a; scale_train 3 ex_b]) true
                    (scale_iv 3 (Some (1, 9))) (scale_train 3 ex_a) (scale_train 3 ex_b)
    = spike_distance_bi ROps (1 / 1000000) false false (auto_thr [ex_a; ex_b]) true (Some (1, 9)) ex_a ex_b /\
  isi_distance_bi ROps (1 / 1000000) true false (auto_thr [ex_b; ex_a]) None ex_b ex_a
    = isi_distance_bi ROps (1 / 1000000) true false (auto_thr [ex_a; ex_b]) None ex_a ex_b.
Proof.
  destruct ex10_hypotheses as (HF & Va & Vb & Hiv & HivN & H3 & He0 & He & Hix & H2 & NE & HP & _ & _).
  split; [apply auto_thr_shift|]. split; [apply (auto_thr_scale 3 ex_l H3)|].
  split; [apply (auto_thr_mirror ex_l 0 10 HF)|].
  split; [apply (auto_thr_perm ex_l _ 0 10 HP HF)|].
  split; [apply (isi_multi_shift_auto _ _ _ 3 ex_l ex_idx 0 10 HF Hiv)|].
  split; [apply (order_multi_scale_auto _ _ _ _ 3 ex_l None 0 10 H3 He0 HF)|].
  split; [apply (order_multi_mirror_norm_auto _ _ _ ex_l ex_idx 0 10 He HF Hix H2 NE)|].
  split; [apply (sync_matrix_scale_auto _ _ _ _ 3 ex_l ex_idx 0 10 H3 HF Hiv)|].
  split; [apply (spike_profile_multi_mirror_auto _ _ _ ex_l None 0 10 HF)|].
  split; [apply (spike_distance_scale_auto _ _ _ _ 3 ex_a ex_b 0 10 H3 Va Vb Hiv)|].
  apply (proj1 (bi_auto_symmetric _ _ 0 false None ex_a ex_b 0 10 Va Vb)).
Qed.

(* (C) needs the common recording: two trains with the same spike on [0,10] and on [0,4];
   the pool uses the first train's edges: lengths 1 9 1 9 against 1 3 1 3 *)
Definition ex10_l2 : list trainR := [([1], 0, 10); ([1], 0, 4)].

Example default_thresh_sq_perm_fails_different_edges :
  Permutation ex10_l2 (rev ex10_l2) /\
  default_thresh_sq ROps ex10_l2 = 41 /\ default_thresh_sq ROps (rev ex10_l2) = 5 /\
  auto_thr (rev ex10_l2) <> auto_thr ex10_l2.
Proof.
  assert (E1 : default_thresh_sq ROps ex10_l2 = 41).
  { unfold default_thresh_sq, ex10_l2.
    cbn [flat_map isi_lengths tr_spikes tr_start tr_end fst snd length last nth Nat.sub diffs app map].
    cbn [nsub nltb ROps].
    repeat match goal with |- context [Rltb ?x ?y] => rewrite (proj2 (Rltb_true x y)) by lra end.
    cbn [app map length]. unfold sumF. cbn [fold_right nadd nmul ndiv n0 n1 ROps].
    rewrite Lem_Multi.nofnat_INR. cbn [INR]. field. }
  assert (E2 : default_thresh_sq ROps (rev ex10_l2) = 5).
  { unfold default_thresh_sq, ex10_l2. cbn [rev app].
    cbn [flat_map isi_lengths tr_spikes tr_start tr_end fst snd length last nth Nat.sub diffs app map].
    cbn [nsub nltb ROps].
    repeat match goal with |- context [Rltb ?x ?y] => rewrite (proj2 (Rltb_true x y)) by lra end.
    cbn [app map length]. unfold sumF. cbn [fold_right nadd nmul ndiv n0 n1 ROps].
    rewrite Lem_Multi.nofnat_INR. cbn [INR]. field. }
  split; [apply Permutation_rev|]. split; [exact E1|]. split; [exact E2|].
  intros H. pose proof (auto_thr_sq (rev ex10_l2)) as S1. pose proof (auto_thr_sq ex10_l2) as S2.
  rewrite H, S2, E1, E2 in S1. lra.
Qed.

(* the Q instance: (A) on the six orders of the three trains and on five trains with two
   empty ones and spikes on the edges; (C) all orders give the same value; the empty list;
   the last line is the counterexample above *)
From Coq Require Import QArith.
Local Close Scope Q_scope.
Local Open Scope R_scope.

Definition q10_perms : list (list (list Q * Q * Q)) :=
  match qx_l with
  | [a; b; c] => [[a; b; c]; [a; c; b]; [b; a; c]; [b; c; a]; [c; a; b]; [c; b; a]]
  | _ => []
  end.
Definition q10_l2 : list (list Q * Q * Q) :=
  [([0; 3; 5], 0, 10); ([], 0, 10); ([3; 7; 10], 0, 10); ([], 0, 10); ([1; 3; 7; 8], 0, 10)]%Q.
Definition q10_six (x : Q) : list Q := [x; x; x; x; x; x].

Example ex10_Q :
  map (fun l => Qred (default_thresh_sq QOps l)) q10_perms = q10_six (96 # 5)%Q /\
  map (fun l => Qred (default_thresh_sq QOps (map (qx_shift (7 # 3)) l))) q10_perms = q10_six (96 # 5)%Q /\
  map (fun l => Qred (default_thresh_sq QOps (map (qx_scale (7 # 3)) l))) q10_perms
    = q10_six (Qred ((7 # 3) * (7 # 3) * (96 # 5)))%Q /\
  map (fun l => Qred (default_thresh_sq QOps (map qx_mirror l))) q10_perms = q10_six (96 # 5)%Q /\
  Qred (default_thresh_sq QOps q10_l2) = (308 # 13)%Q /\
  Qred (default_thresh_sq QOps (rev q10_l2)) = (308 # 13)%Q /\
  Qred (default_thresh_sq QOps (map qx_mirror q10_l2)) = (308 # 13)%Q /\
  Qred (default_thresh_sq QOps (map (qx_shift (-5)) (rev q10_l2))) = (308 # 13)%Q /\
  Qred (default_thresh_sq QOps (@nil (list Q * Q * Q))) = 0%Q /\
  Qred (default_thresh_sq QOps qx_l2) = 41%Q /\ Qred (default_thresh_sq QOps (rev qx_l2)) = 5%Q.
Proof. vm_compute. repeat split. Qed.

(* ------------------------------------------------------------------ *)
Print Assumptions default_thresh_sq_nonneg.
Print Assumptions auto_thr_nonneg.
Print Assumptions auto_thr_sq.
Print Assumptions auto_thr_shift.
Print Assumptions auto_thr_scale.
Print Assumptions auto_thr_mirror.
Print Assumptions auto_thr_pos.
Print Assumptions default_thresh_sq_perm_gen.
Print Assumptions default_thresh_sq_perm.
Print Assumptions auto_thr_perm.
Print Assumptions bi_auto_symmetric.
Print Assumptions bi_scalars_shift_auto.
Print Assumptions bi_scalars_scale_auto.
Print Assumptions bi_scalars_mirror_auto.
Print Assumptions multi_scalars_shift_auto.
Print Assumptions multi_scalars_scale_auto.
Print Assumptions multi_scalars_mirror_auto.
Print Assumptions order_multi_mirror_norm_auto.
Print Assumptions order_profile_multi_mirror_partial_auto.
Print Assumptions ex10_thresh.
Print Assumptions ex10_instances.
Print Assumptions default_thresh_sq_perm_fails_different_edges.
