(* Lem_Transform2.v — C08: shift / scale of the SPIKE profile, mirror symmetry of the
   ISI-, SPIKE- and SPIKE-Sync profiles at the model level, scalars unchanged by the mirror. *)
From Coq Require Import List Bool Arith ZArith Reals Lra Lia Sorted Permutation.
Import ListNotations.
From PS Require Import Num RLemmas Valid ModelKernels ModelFuncs ModelAPI Spec SyncDefs.
From PS Require Import Lem_Tau Lem_MinDist Lem_Isi Lem_IsiProps Lem_Spike Lem_Sync Lem_Transform.
Local Open Scope R_scope.

(* ================================================================== *)
(* validity is preserved                                               *)

Lemma valid_mirror ts te s : valid ts te s -> valid ts te (mirror_train ts te s).
Proof.
  intros (Hlt & S & F). split; [exact Hlt|]. split; [apply ssorted_mirror; exact S|].
  rewrite Forall_forall in *. intros x Hx. apply In_mirror in Hx. specialize (F _ Hx).
  unfold mir in F. lra.
Qed.

(* ================================================================== *)
(* 5. model-level mirror corollaries (ISI, SPIKE-Sync, single)         *)

Theorem isi_profile_mirror : forall s1 s2 ts te m, valid ts te s1 -> valid ts te s2 ->
  isi_profile_py ROps (eff ts te (mirror_train ts te s1)) (eff ts te (mirror_train ts te s2)) ts te m
  = (rev (map (mir ts te) (fst (isi_profile_py ROps (eff ts te s1) (eff ts te s2) ts te m))),
     rev (snd (isi_profile_py ROps (eff ts te s1) (eff ts te s2) ts te m))).
Proof.
  intros s1 s2 ts te m V1 V2.
  rewrite (isi_profile_spec m (valid_mirror ts te s1 V1) (valid_mirror ts te s2 V2)).
  rewrite (isi_profile_spec m V1 V2).
  apply isi_spec_mirror; assumption.
Qed.

Theorem sync_profile_mirror : forall s1 s2 ts te mt m, valid ts te s1 -> valid ts te s2 ->
  coincidence_profile_gen ROps (get_tau ROps) (mirror_train ts te s1) (mirror_train ts te s2) ts te mt m
  = rev (map (fun e => (mir ts te (e_t e), e_y e, e_mp e))
             (coincidence_profile_gen ROps (get_tau ROps) s1 s2 ts te mt m)).
Proof.
  intros s1 s2 ts te mt m V1 V2.
  rewrite (sync_profile_spec s1 s2 ts te mt m V1 V2).
  rewrite (sync_profile_spec _ _ ts te mt m (valid_mirror ts te s1 V1) (valid_mirror ts te s2 V2)).
  apply sync_spec_mirror; assumption.
Qed.

Theorem single_mirror : forall s1 s2 ts te mt m, valid ts te s1 -> valid ts te s2 ->
  coincidence_single_gen ROps (get_tau ROps) (mirror_train ts te s1) (mirror_train ts te s2) ts te mt m
  = rev (coincidence_single_gen ROps (get_tau ROps) s1 s2 ts te mt m).
Proof.
  intros s1 s2 ts te mt m V1 V2.
  rewrite (single_profile_spec s1 s2 ts te mt m V1 V2).
  rewrite (single_profile_spec _ _ ts te mt m (valid_mirror ts te s1 V1) (valid_mirror ts te s2 V2)).
  apply single_spec_mirror.
Qed.

(* ================================================================== *)
(* 6. full-support integrals are unchanged by the mirror               *)

Lemma pwc_int_all_snoc2 : forall xs ys a b y, length xs = length ys ->
  pwc_int_all ROps (xs ++ [a; b]) (ys ++ [y]) = pwc_int_all ROps (xs ++ [a]) ys + (b - a) * y.
Proof.
  induction xs as [|x0 xs IH]; intros ys a b y Hl.
  - destruct ys; [|discriminate]. cbn. lra.
  - destruct ys as [|y0 ys]; [discriminate|]. cbn [length] in Hl.
    assert (Hl' : length xs = length ys) by lia.
    specialize (IH ys a b y Hl').
    destruct xs as [|x1 xs].
    + destruct ys; [|discriminate]. cbn. lra.
    + change ((x0 :: x1 :: xs) ++ [a; b]) with (x0 :: x1 :: (xs ++ [a; b])).
      change ((x0 :: x1 :: xs) ++ [a]) with (x0 :: x1 :: (xs ++ [a])).
      change ((y0 :: ys) ++ [y]) with (y0 :: (ys ++ [y])).
      rewrite !pwc_int_all_cons2.
      change (x1 :: xs ++ [a; b]) with ((x1 :: xs) ++ [a; b]).
      change (x1 :: xs ++ [a]) with ((x1 :: xs) ++ [a]).
      rewrite IH. lra.
Qed.

Theorem pwc_int_all_mirror : forall ts te xs ys, length xs = S (length ys) ->
  pwc_int_all ROps (rev (map (mir ts te) xs)) (rev ys) = pwc_int_all ROps xs ys.
Proof.
  intros ts te. induction xs as [|x0 xs IH]; intros ys Hl; [discriminate|].
  destruct ys as [|y ys].
  - destruct xs; [|discriminate]. reflexivity.
  - destruct xs as [|x1 xs]; [discriminate|].
    cbn [length] in Hl. assert (Hl' : length (x1 :: xs) = S (length ys)) by (cbn [length]; lia).
    specialize (IH ys Hl').
    rewrite pwc_int_all_cons2, <- IH.
    cbn [map rev]. rewrite <- app_assoc. cbn [app].
    rewrite pwc_int_all_snoc2.
    + unfold mir. lra.
    + rewrite !rev_length, map_length. cbn [length] in Hl'. lia.
Qed.

Corollary pwc_int_all_mirror_wf : forall ts te xs ys, ssorted xs -> wf_pwc (xs, ys) ->
  pwc_int_all ROps (rev (map (mir ts te) xs)) (rev ys) = pwc_int_all ROps xs ys.
Proof. intros ts te xs ys _ [_ Hl]. apply pwc_int_all_mirror. exact Hl. Qed.

Lemma pwl_int_all_snoc2 : forall xs y1 y2 a b u v, length xs = length y1 -> length xs = length y2 ->
  pwl_int_all ROps (xs ++ [a; b]) (y1 ++ [u]) (y2 ++ [v])
  = pwl_int_all ROps (xs ++ [a]) y1 y2 + (b - a) * ((u + v) / 2).
Proof.
  induction xs as [|x0 xs IH]; intros y1 y2 a b u v Hl1 Hl2.
  - destruct y1; [|discriminate]. destruct y2; [|discriminate].
    cbn [app]. rewrite pwl_int_all_cons2, !pwl_int_all_single. lra.
  - destruct y1 as [|a0 y1]; [discriminate|]. destruct y2 as [|b0 y2]; [discriminate|].
    cbn [length] in Hl1, Hl2.
    assert (Hl1' : length xs = length y1) by lia. assert (Hl2' : length xs = length y2) by lia.
    specialize (IH y1 y2 a b u v Hl1' Hl2').
    destruct xs as [|x1 xs].
    + destruct y1; [|discriminate]. destruct y2; [|discriminate].
      cbn [app]. rewrite !pwl_int_all_cons2, !pwl_int_all_single. lra.
    + change ((x0 :: x1 :: xs) ++ [a; b]) with (x0 :: x1 :: (xs ++ [a; b])).
      change ((x0 :: x1 :: xs) ++ [a]) with (x0 :: x1 :: (xs ++ [a])).
      change ((a0 :: y1) ++ [u]) with (a0 :: (y1 ++ [u])).
      change ((b0 :: y2) ++ [v]) with (b0 :: (y2 ++ [v])).
      rewrite !pwl_int_all_cons2.
      change (x1 :: xs ++ [a; b]) with ((x1 :: xs) ++ [a; b]).
      change (x1 :: xs ++ [a]) with ((x1 :: xs) ++ [a]).
      rewrite IH. lra.
Qed.

Theorem pwl_int_all_mirror : forall ts te xs y1 y2,
  length xs = S (length y1) -> length y1 = length y2 ->
  pwl_int_all ROps (rev (map (mir ts te) xs)) (rev y2) (rev y1) = pwl_int_all ROps xs y1 y2.
Proof.
  intros ts te. induction xs as [|x0 xs IH]; intros y1 y2 Hl Hl2; [discriminate|].
  destruct y1 as [|a y1], y2 as [|b y2]; try discriminate.
  - destruct xs; [|discriminate]. reflexivity.
  - destruct xs as [|x1 xs]; [discriminate|].
    cbn [length] in Hl, Hl2.
    assert (Hl' : length (x1 :: xs) = S (length y1)) by (cbn [length]; lia).
    assert (Hl2' : length y1 = length y2) by lia.
    specialize (IH y1 y2 Hl' Hl2').
    rewrite pwl_int_all_cons2, <- IH.
    cbn [map rev]. rewrite <- app_assoc. cbn [app].
    rewrite pwl_int_all_snoc2.
    + unfold mir. lra.
    + rewrite !rev_length, map_length. cbn [length] in Hl'. lia.
    + rewrite !rev_length, map_length. cbn [length] in Hl'. lia.
Qed.

Corollary pwl_int_all_mirror_wf : forall ts te xs y1 y2, wf_pwl (xs, y1, y2) ->
  pwl_int_all ROps (rev (map (mir ts te) xs)) (rev y2) (rev y1) = pwl_int_all ROps xs y1 y2.
Proof. intros ts te xs y1 y2 (_ & H1 & H2). apply pwl_int_all_mirror; assumption. Qed.

(* ================================================================== *)
(* 1./2. SPIKE specification under an affine change of the time axis   *)
(*       x -> k * x + c   (k > 0): shift is k = 1, scale is c = 0      *)

Definition af (k c : R) : R -> R := fun x => k * x + c.

Lemma map_pair_eta {A} (l : list (A * A)) : map (fun p => (fst p, snd p)) l = l.
Proof. induction l as [|[a b] l IH]; [reflexivity|]. cbn [map fst snd]. rewrite IH. reflexivity. Qed.

Lemma pieces_map (f : R -> R) (bs : list R) :
  pieces (map f bs) = map (fun p => (f (fst p), f (snd p))) (pieces bs).
Proof.
  induction bs as [|a r IH]; [reflexivity|].
  destruct r as [|b r']; [reflexivity|].
  change (pieces (a :: b :: r')) with ((a, b) :: pieces (b :: r')).
  cbn [map] in *. change (pieces (f a :: f b :: map f r')) with ((f a, f b) :: pieces (f b :: map f r')).
  rewrite IH. reflexivity.
Qed.

Section Affine.
  Context (k c : R) (Hk : 0 < k).
  Local Notation f := (af k c).

  Lemma Rltb_af a b : Rltb (f a) (f b) = Rltb a b.
  Proof. unfold af. destruct (Rltb_spec (k * a + c) (k * b + c)), (Rltb_spec a b); try reflexivity; nra. Qed.
  Lemma Reqb_af a b : Reqb (f a) (f b) = Reqb a b.
  Proof. unfold af. destruct (Reqb_spec (k * a + c) (k * b + c)), (Reqb_spec a b); try reflexivity; exfalso; nra. Qed.
  Lemma af_sub a b : f a - f b = k * (a - b).
  Proof. unfold af. lra. Qed.
  Lemma Rmax_af a b : Rmax (f a) (f b) = f (Rmax a b).
  Proof. unfold af, Rmax. destruct (Rle_dec a b), (Rle_dec (k * a + c) (k * b + c)); try reflexivity; nra. Qed.
  Lemma Rmin_af a b : Rmin (f a) (f b) = f (Rmin a b).
  Proof. unfold af, Rmin. destruct (Rle_dec a b), (Rle_dec (k * a + c) (k * b + c)); try reflexivity; nra. Qed.
  Lemma Rmax_k a b : Rmax (k * a) (k * b) = k * Rmax a b.
  Proof. unfold Rmax. destruct (Rle_dec a b), (Rle_dec (k * a) (k * b)); try reflexivity; nra. Qed.
  Lemma Rmin_k a b : Rmin (k * a) (k * b) = k * Rmin a b.
  Proof. unfold Rmin. destruct (Rle_dec a b), (Rle_dec (k * a) (k * b)); try reflexivity; nra. Qed.
  Lemma Rabs_k a : Rabs (k * a) = k * Rabs a.
  Proof. rewrite Rabs_mult, (Rabs_pos_eq k) by lra. reflexivity. Qed.

  Lemma prev_of_af t u : forall acc,
    prev_of ROps (f t) (map f u) (option_map f acc) = option_map f (prev_of ROps t u acc).
  Proof.
    induction u as [|x r IH]; intros acc; [reflexivity|].
    cbn [map prev_of]. rewrite !R_nleb, Rltb_af.
    destruct (Rltb t x); cbn [negb]; [reflexivity|]. apply (IH (Some x)).
  Qed.

  Lemma prev_of_af0 t u :
    prev_of ROps (f t) (map f u) None = option_map f (prev_of ROps t u None).
  Proof. exact (prev_of_af t u None). Qed.

  Lemma next_of_af t u : next_of ROps (f t) (map f u) = option_map f (next_of ROps t u).
  Proof.
    induction u as [|x r IH]; [reflexivity|].
    cbn [map next_of nltb ROps]. rewrite Rltb_af. destruct (Rltb t x); [reflexivity | exact IH].
  Qed.

  Lemma filter_af (q q' : R -> bool) l : (forall x, q' (f x) = q x) ->
    filter q' (map f l) = map f (filter q l).
  Proof.
    intros E. induction l as [|a l IH]; [reflexivity|].
    cbn [map filter]. rewrite E. destruct (q a); cbn [map]; rewrite IH; reflexivity.
  Qed.

  Lemma before_af p u : before ROps (f p) (map f u) = option_map f (before ROps p u).
  Proof.
    unfold before. rewrite (filter_af (fun x => nltb ROps x p)).
    - apply prev_of_af0.
    - intros x. cbn [nltb ROps]. apply Rltb_af.
  Qed.

  Lemma after_af p u : after ROps (f p) (map f u) = option_map f (after ROps p u).
  Proof. apply next_of_af. Qed.

  Lemma isi_len_at_af ts te u t :
    isi_len_at ROps (f ts) (f te) (map f u) (f t) = k * isi_len_at ROps ts te u t.
  Proof.
    unfold isi_len_at. rewrite prev_of_af0, next_of_af.
    destruct (prev_of ROps t u None) as [p|], (next_of ROps t u) as [n|]; cbn [option_map].
    - cbn [nsub ROps]. apply af_sub.
    - rewrite before_af. destruct (before ROps p u) as [p0|]; cbn [option_map].
      + rewrite !R_nmax. cbn [nsub ROps]. rewrite !af_sub. apply Rmax_k.
      + cbn [nsub ROps]. apply af_sub.
    - rewrite after_af. destruct (after ROps n u) as [n2|]; cbn [option_map].
      + rewrite !R_nmax. cbn [nsub ROps]. rewrite !af_sub. apply Rmax_k.
      + cbn [nsub ROps]. apply af_sub.
    - cbn [n0 ROps]. lra.
  Qed.

  Lemma aux_of_af ts te u :
    aux_of ROps (f ts) (f te) (map f u)
    = (f (fst (aux_of ROps ts te u)), f (snd (aux_of ROps ts te u))).
  Proof.
    unfold aux_of.
    destruct u as [|x0 [|x1 r]]; cbn [map fst snd]; try reflexivity.
    change (f x0 :: f x1 :: map f r) with (map f (x0 :: x1 :: r)). rewrite <- map_rev.
    destruct (rev (x0 :: x1 :: r)) as [|a [|b r']]; cbn [map fst snd]; try reflexivity.
    rewrite !R_nmin, !R_nmax. cbn [nadd nsub ROps].
    replace (f x0 - (f x1 - f x0)) with (f (x0 - (x1 - x0))) by (unfold af; lra).
    replace (f a + (f a - f b)) with (f (a + (a - b))) by (unfold af; lra).
    rewrite Rmin_af, Rmax_af. reflexivity.
  Qed.

  Lemma fmin_af x l d : fmin (f x) (map f l) (k * d) = k * fmin x l d.
  Proof.
    revert d; induction l as [|y l IH]; intros d; [reflexivity|].
    cbn [map]. rewrite !fmin_cons, <- IH. f_equal.
    rewrite af_sub, Rabs_k. apply Rmin_k.
  Qed.

  Lemma nearest_af a0 a1 w x :
    nearest ROps (f a0, f a1) (map f w) (f x) = k * nearest ROps (a0, a1) w x.
  Proof.
    rewrite !nearest_R. change [f a1] with (map f [a1]). rewrite <- map_app.
    rewrite af_sub, Rabs_k. apply fmin_af.
  Qed.

  Lemma contrib_af ts te u w tm t :
    contrib ROps (f ts) (f te) (map f u) (map f w) (f tm) (f t)
    = (k * fst (contrib ROps ts te u w tm t), k * snd (contrib ROps ts te u w tm t)).
  Proof.
    unfold contrib. cbv zeta. rewrite isi_len_at_af, aux_of_af, prev_of_af0, next_of_af.
    destruct (aux_of ROps ts te w) as [a0 a1]. cbn [fst snd].
    destruct (prev_of ROps tm u None) as [p|], (next_of ROps tm u) as [n|]; cbn [option_map fst snd].
    - f_equal. rewrite !nearest_af. cbn [nadd nsub nmul ndiv ROps]. rewrite !af_sub.
      set (A := nearest ROps (a0, a1) w p). set (B := nearest ROps (a0, a1) w n).
      replace (k * A * (k * (n - t)) + k * B * (k * (t - p)))
        with (k * (k * (A * (n - t) + B * (t - p)))) by ring.
      rewrite Rdiv_scale by lra. unfold Rdiv. ring.
    - rewrite nearest_af. reflexivity.
    - rewrite nearest_af. reflexivity.
    - cbn [n0 ROps]. f_equal. lra.
  Qed.

  Lemma spike_at_af ts te m ri u1 u2 tm t :
    spike_at ROps (f ts) (f te) (k * m) ri (map f u1) (map f u2) (f tm) (f t)
    = spike_at ROps ts te m ri u1 u2 tm t.
  Proof.
    rewrite !spike_at_eq_dist_at_t, !contrib_af.
    destruct (contrib ROps ts te u1 u2 tm t) as [c1 i1].
    destruct (contrib ROps ts te u2 u1 tm t) as [c2 i2]. cbn [fst snd].
    apply dist_at_t_scale; exact Hk.
  Qed.

  Lemma insert_u_af x l : insert_u ROps (f x) (map f l) = map f (insert_u ROps x l).
  Proof.
    induction l as [|a l IH]; [reflexivity|].
    cbn [map insert_u nltb neqb ROps]. rewrite Rltb_af, Reqb_af.
    destruct (Rltb x a); [reflexivity|]. destruct (Reqb x a); [reflexivity|].
    cbn [map]. rewrite IH. reflexivity.
  Qed.

  Lemma sort_unique_af l : sort_unique ROps (map f l) = map f (sort_unique ROps l).
  Proof.
    induction l as [|a l IH]; [reflexivity|].
    cbn [map sort_unique fold_right]. unfold sort_unique in IH. rewrite IH. apply insert_u_af.
  Qed.

  Lemma breaks_af ts te s1 s2 :
    breaks ROps (f ts) (f te) (map f s1) (map f s2) = map f (breaks ROps ts te s1 s2).
  Proof.
    unfold breaks. cbn [map]. rewrite map_app. cbn [map]. f_equal. f_equal.
    rewrite <- map_app.
    rewrite (filter_af (fun x => nltb ROps ts x && nltb ROps x te)).
    - apply sort_unique_af.
    - intros x. cbn [nltb ROps]. rewrite !Rltb_af. reflexivity.
  Qed.

  Lemma mid_af a b : mid ROps (f a, f b) = f (mid ROps (a, b)).
  Proof. unfold mid. rewrite R_n2. cbn [fst snd nadd ndiv ROps]. unfold af. lra. Qed.

  Lemma eff_af ts te s : eff (f ts) (f te) (map f s) = map f (eff ts te s).
  Proof. destruct s; reflexivity. Qed.

  Lemma valid_af ts te s : valid ts te s -> valid (f ts) (f te) (map f s).
  Proof.
    intros (Hlt & S & F). split; [unfold af; nra|]. split.
    - induction S as [|a l S IH Fa]; [apply ssorted_nil|].
      cbn [map]. apply ssorted_cons; [apply IH; inversion F; assumption|].
      rewrite Forall_forall in *. intros y Hy. apply in_map_iff in Hy as (z & <- & Hz).
      specialize (Fa _ Hz). unfold af. nra.
    - rewrite Forall_forall in *. intros y Hy. apply in_map_iff in Hy as (z & <- & Hz).
      specialize (F _ Hz). unfold af. nra.
  Qed.

  Theorem spike_spec_af : forall s1 s2 ts te m ri,
    spike_spec ROps (map f s1) (map f s2) (f ts) (f te) (k * m) ri
    = (map f (fst (fst (spike_spec ROps s1 s2 ts te m ri))),
       snd (fst (spike_spec ROps s1 s2 ts te m ri)),
       snd (spike_spec ROps s1 s2 ts te m ri)).
  Proof.
    intros s1 s2 ts te m ri. unfold spike_spec. cbv zeta. cbn [fst snd].
    rewrite breaks_af, !eff_af, pieces_map, !map_map.
    f_equal; [f_equal|]; apply map_ext; intros [a b]; cbn [fst snd];
      rewrite mid_af; apply spike_at_af.
  Qed.

  Theorem spike_profile_af : forall s1 s2 ts te m ri, valid ts te s1 -> valid ts te s2 ->
    spike_profile_py ROps (eff (f ts) (f te) (map f s1)) (eff (f ts) (f te) (map f s2)) (f ts) (f te) (k * m) ri
    = (map f (fst (fst (spike_profile_py ROps (eff ts te s1) (eff ts te s2) ts te m ri))),
       snd (fst (spike_profile_py ROps (eff ts te s1) (eff ts te s2) ts te m ri)),
       snd (spike_profile_py ROps (eff ts te s1) (eff ts te s2) ts te m ri)).
  Proof.
    intros s1 s2 ts te m ri V1 V2.
    rewrite (spike_profile_spec _ _ _ _ (k * m) ri (valid_af ts te s1 V1) (valid_af ts te s2 V2)).
    rewrite (spike_profile_spec _ _ _ _ m ri V1 V2).
    apply spike_spec_af.
  Qed.
End Affine.

Lemma af_sh c x : af 1 c x = sh c x.
Proof. unfold af, sh. lra. Qed.
Lemma af_sc k x : af k 0 x = sc k x.
Proof. unfold af, sc. lra. Qed.
Lemma map_af_sh c l : map (af 1 c) l = map (sh c) l.
Proof. apply map_ext. apply af_sh. Qed.
Lemma map_af_sc k l : map (af k 0) l = map (sc k) l.
Proof. apply map_ext. apply af_sc. Qed.

(* 1. validity is not needed *)
Theorem spike_spec_shift : forall c s1 s2 ts te m ri,
  spike_spec ROps (map (sh c) s1) (map (sh c) s2) (ts + c) (te + c) m ri
  = (map (sh c) (fst (fst (spike_spec ROps s1 s2 ts te m ri))),
     snd (fst (spike_spec ROps s1 s2 ts te m ri)),
     snd (spike_spec ROps s1 s2 ts te m ri)).
Proof.
  intros c s1 s2 ts te m ri.
  pose proof (spike_spec_af 1 c Rlt_0_1 s1 s2 ts te m ri) as H.
  rewrite !map_af_sh, !af_sh in H. unfold sh at 3 4 in H.
  replace (1 * m) with m in H by lra. exact H.
Qed.

(* 2. validity is not needed *)
Theorem spike_spec_scale : forall k s1 s2 ts te m ri, 0 < k ->
  spike_spec ROps (map (sc k) s1) (map (sc k) s2) (k * ts) (k * te) (k * m) ri
  = (map (sc k) (fst (fst (spike_spec ROps s1 s2 ts te m ri))),
     snd (fst (spike_spec ROps s1 s2 ts te m ri)),
     snd (spike_spec ROps s1 s2 ts te m ri)).
Proof.
  intros k s1 s2 ts te m ri Hk.
  pose proof (spike_spec_af k 0 Hk s1 s2 ts te m ri) as H.
  rewrite !map_af_sc, !af_sc in H. exact H.
Qed.

Lemma valid_shift c ts te s : valid ts te s -> valid (ts + c) (te + c) (map (sh c) s).
Proof.
  intros V. pose proof (valid_af 1 c Rlt_0_1 ts te s V) as H.
  rewrite map_af_sh, !af_sh in H. exact H.
Qed.

Lemma valid_scale k ts te s : 0 < k -> valid ts te s -> valid (k * ts) (k * te) (map (sc k) s).
Proof.
  intros Hk V. pose proof (valid_af k 0 Hk ts te s V) as H.
  rewrite map_af_sc, !af_sc in H. exact H.
Qed.

Lemma eff_shift c ts te s : eff (ts + c) (te + c) (map (sh c) s) = map (sh c) (eff ts te s).
Proof. destruct s; reflexivity. Qed.
Lemma eff_scale k ts te s : eff (k * ts) (k * te) (map (sc k) s) = map (sc k) (eff ts te s).
Proof. destruct s; reflexivity. Qed.

(* 3. the model, on valid trains *)
Theorem spike_profile_shift : forall c s1 s2 ts te m ri, valid ts te s1 -> valid ts te s2 ->
  spike_profile_py ROps (eff (ts + c) (te + c) (map (sh c) s1)) (eff (ts + c) (te + c) (map (sh c) s2))
                   (ts + c) (te + c) m ri
  = (map (sh c) (fst (fst (spike_profile_py ROps (eff ts te s1) (eff ts te s2) ts te m ri))),
     snd (fst (spike_profile_py ROps (eff ts te s1) (eff ts te s2) ts te m ri)),
     snd (spike_profile_py ROps (eff ts te s1) (eff ts te s2) ts te m ri)).
Proof.
  intros c s1 s2 ts te m ri V1 V2.
  rewrite (spike_profile_spec _ _ _ _ m ri (valid_shift c ts te s1 V1) (valid_shift c ts te s2 V2)).
  rewrite (spike_profile_spec _ _ _ _ m ri V1 V2).
  apply spike_spec_shift.
Qed.

Theorem spike_profile_scale : forall k s1 s2 ts te m ri, 0 < k -> valid ts te s1 -> valid ts te s2 ->
  spike_profile_py ROps (eff (k * ts) (k * te) (map (sc k) s1)) (eff (k * ts) (k * te) (map (sc k) s2))
                   (k * ts) (k * te) (k * m) ri
  = (map (sc k) (fst (fst (spike_profile_py ROps (eff ts te s1) (eff ts te s2) ts te m ri))),
     snd (fst (spike_profile_py ROps (eff ts te s1) (eff ts te s2) ts te m ri)),
     snd (spike_profile_py ROps (eff ts te s1) (eff ts te s2) ts te m ri)).
Proof.
  intros k s1 s2 ts te m ri Hk V1 V2.
  rewrite (spike_profile_spec _ _ _ _ (k * m) ri (valid_scale k ts te s1 Hk V1) (valid_scale k ts te s2 Hk V2)).
  rewrite (spike_profile_spec _ _ _ _ m ri V1 V2).
  apply spike_spec_scale; exact Hk.
Qed.

(* the same with the edge-completed trains transformed (eff commutes with the map) *)
Corollary spike_profile_shift_eff : forall c s1 s2 ts te m ri, valid ts te s1 -> valid ts te s2 ->
  spike_profile_py ROps (map (sh c) (eff ts te s1)) (map (sh c) (eff ts te s2)) (ts + c) (te + c) m ri
  = (map (sh c) (fst (fst (spike_profile_py ROps (eff ts te s1) (eff ts te s2) ts te m ri))),
     snd (fst (spike_profile_py ROps (eff ts te s1) (eff ts te s2) ts te m ri)),
     snd (spike_profile_py ROps (eff ts te s1) (eff ts te s2) ts te m ri)).
Proof. intros. rewrite <- !eff_shift. apply spike_profile_shift; assumption. Qed.

Corollary spike_profile_scale_eff : forall k s1 s2 ts te m ri, 0 < k -> valid ts te s1 -> valid ts te s2 ->
  spike_profile_py ROps (map (sc k) (eff ts te s1)) (map (sc k) (eff ts te s2)) (k * ts) (k * te) (k * m) ri
  = (map (sc k) (fst (fst (spike_profile_py ROps (eff ts te s1) (eff ts te s2) ts te m ri))),
     snd (fst (spike_profile_py ROps (eff ts te s1) (eff ts te s2) ts te m ri)),
     snd (spike_profile_py ROps (eff ts te s1) (eff ts te s2) ts te m ri)).
Proof. intros. rewrite <- !eff_scale. apply spike_profile_scale; assumption. Qed.

(* ================================================================== *)
(* 4. mirror symmetry of the SPIKE specification                       *)

Lemma fmin_rev x l : forall d, fmin x (rev l) d = fmin x l d.
Proof.
  induction l as [|a l IH]; intros d; [reflexivity|].
  cbn [rev]. rewrite fmin_app, IH, fmin_cons, fmin_nil, fmin_cons, fmin_min. reflexivity.
Qed.

Section MirrorSpike.
  Context (ts te : R).
  Local Notation mr := (mir ts te).
  Local Notation mtr := (mirror_train ts te).

  Lemma Rabs_mir x y : Rabs (mr x - mr y) = Rabs (x - y).
  Proof. unfold mir. replace (ts + te - x - (ts + te - y)) with (- (x - y)) by lra. apply Rabs_Ropp. Qed.

  Lemma fmin_mir x l : forall d, fmin (mr x) (map mr l) d = fmin x l d.
  Proof.
    induction l as [|a l IH]; intros d; [reflexivity|].
    cbn [map]. rewrite !fmin_cons, IH, Rabs_mir. reflexivity.
  Qed.

  (* the auxiliary spikes are exchanged *)
  Lemma nearest_mirror a0 a1 w x :
    nearest ROps (mr a1, mr a0) (mtr w) (mr x) = nearest ROps (a0, a1) w x.
  Proof.
    rewrite !nearest_R. unfold mirror_train.
    rewrite !fmin_app, fmin_rev, fmin_mir, !fmin_cons, !fmin_nil, !Rabs_mir.
    rewrite <- !fmin_min. f_equal. apply Rmin_comm.
  Qed.

  Lemma aux_of_mirror w :
    aux_of ROps ts te (mtr w) = (mr (snd (aux_of ROps ts te w)), mr (fst (aux_of ROps ts te w))).
  Proof.
    assert (Hd : (mr te, mr ts) = (ts, te)) by (rewrite mir_te, mir_ts; reflexivity).
    unfold aux_of.
    destruct w as [|x0 [|x1 r]]; cbn [fst snd].
    - cbn. rewrite mir_te, mir_ts. reflexivity.
    - cbn. rewrite mir_te, mir_ts. reflexivity.
    - destruct (rev_two x0 x1 r) as (a & b & l & Er). rewrite Er. cbn [fst snd].
      assert (Em : mtr (x0 :: x1 :: r) = mr a :: mr b :: map mr l).
      { unfold mirror_train. rewrite <- map_rev, Er. reflexivity. }
      assert (Erm : rev (mtr (x0 :: x1 :: r)) = mr x0 :: mr x1 :: map mr r).
      { unfold mirror_train. rewrite rev_involutive. reflexivity. }
      rewrite Em. rewrite <- Em, Erm.
      rewrite !R_nmin, !R_nmax. cbn [nadd nsub ROps].
      unfold mir, Rmin, Rmax.
      destruct (Rle_dec ts (ts + te - a - (ts + te - b - (ts + te - a)))),
               (Rle_dec te (a + (a - b))),
               (Rle_dec te (ts + te - x0 + (ts + te - x0 - (ts + te - x1)))),
               (Rle_dec ts (x0 - (x1 - x0))); f_equal; lra.
  Qed.

  Lemma prev_next_mirror u tm : ssorted u -> ~ In tm u ->
    prev_of ROps (mr tm) (mtr u) None = option_map mr (next_of ROps tm u) /\
    next_of ROps (mr tm) (mtr u) = option_map mr (prev_of ROps tm u None).
  Proof.
    intros S NI. destruct (Lem_Transform.split_at tm u S NI) as (l1 & l2 & E & F1 & F2).
    assert (Em : mtr u = rev (map mr l2) ++ rev (map mr l1)).
    { unfold mirror_train. rewrite E, map_app, rev_app_distr. reflexivity. }
    assert (L1 : forall x, In x l1 -> x <= tm).
    { intros x Hx. rewrite Forall_forall in F1. specialize (F1 _ Hx). lra. }
    assert (L2 : forall x, In x (rev (map mr l2)) -> x <= mr tm).
    { intros x Hx. apply in_rev in Hx. apply In_map_mir in Hx. rewrite Forall_forall in F2.
      specialize (F2 _ Hx). unfold mir in *. lra. }
    assert (F1' : Forall (fun y => mr tm < y) (rev (map mr l1))).
    { rewrite Forall_forall in *. intros y Hy. apply in_rev in Hy. apply In_map_mir in Hy.
      specialize (F1 _ Hy). unfold mir in *. lra. }
    rewrite Em. rewrite E.
    rewrite (prev_of_split (mr tm) _ _ L2), (next_of_split (mr tm) _ _ L2).
    rewrite (prev_of_stop (mr tm) _ _ F1'), (next_of_hd (mr tm) _ F1').
    rewrite (prev_of_split tm _ _ L1), (next_of_split tm _ _ L1).
    rewrite (prev_of_stop tm _ _ F2), (next_of_hd tm _ F2).
    rewrite rev_involutive. split.
    - apply (hdo_map mr l2 None).
    - rewrite <- map_rev. apply (hdo_map mr (rev l1) None).
  Qed.

  Lemma contrib_mirror u w tm t : ssorted u -> ~ In tm u ->
    contrib ROps ts te (mtr u) (mtr w) (mr tm) (mr t) = contrib ROps ts te u w tm t.
  Proof.
    intros S NI. unfold contrib. cbv zeta.
    rewrite (isi_len_at_mirror_gen ts te u tm S NI), aux_of_mirror.
    destruct (prev_next_mirror u tm S NI) as [EP EN]. rewrite EP, EN.
    destruct (aux_of ROps ts te w) as [a0 a1]. cbn [fst snd].
    destruct (prev_of ROps tm u None) as [p|], (next_of ROps tm u) as [n|]; cbn [option_map].
    - f_equal. rewrite !nearest_mirror. cbn [nadd nsub nmul ndiv ROps].
      unfold mir. f_equal; lra.
    - rewrite nearest_mirror. reflexivity.
    - rewrite nearest_mirror. reflexivity.
    - reflexivity.
  Qed.

  Lemma spike_at_mirror m ri u1 u2 tm t : ssorted u1 -> ssorted u2 -> ~ In tm u1 -> ~ In tm u2 ->
    spike_at ROps ts te m ri (mtr u1) (mtr u2) (mr tm) (mr t) = spike_at ROps ts te m ri u1 u2 tm t.
  Proof.
    intros S1 S2 N1 N2. unfold spike_at.
    rewrite (contrib_mirror u1 u2 tm t S1 N1), (contrib_mirror u2 u1 tm t S2 N2). reflexivity.
  Qed.

  Theorem spike_spec_mirror : forall s1 s2 m ri, valid ts te s1 -> valid ts te s2 ->
    spike_spec ROps (mirror_train ts te s1) (mirror_train ts te s2) ts te m ri
    = (rev (map (mir ts te) (fst (fst (spike_spec ROps s1 s2 ts te m ri)))),
       rev (snd (spike_spec ROps s1 s2 ts te m ri)),
       rev (snd (fst (spike_spec ROps s1 s2 ts te m ri)))).
  Proof.
    intros s1 s2 m ri V1 V2. unfold spike_spec. cbv zeta. cbn [fst snd].
    rewrite breaks_mirror, !eff_mirror, pieces_mirror, !map_rev, !map_map.
    assert (P : forall a b, In (a, b) (pieces (breaks ROps ts te s1 s2)) -> forall t,
              spike_at ROps ts te m ri (mtr (eff ts te s1)) (mtr (eff ts te s2)) (mid ROps (mr b, mr a)) (mr t)
              = spike_at ROps ts te m ri (eff ts te s1) (eff ts te s2) (mid ROps (a, b)) t).
    { intros a b Hp t.
      pose proof (Lem_Transform.breaks_sorted ts te s1 s2 (proj1 V1)) as SB.
      destruct (pieces_sorted_gap _ a b SB Hp) as [Hab Hgap].
      assert (Hmid : a < mid ROps (a, b) < b).
      { unfold mid. rewrite R_n2. cbn [fst snd nadd ndiv ROps]. lra. }
      rewrite mid_mirror. apply spike_at_mirror.
      - apply eff_sorted; exact V1.
      - apply eff_sorted; exact V2.
      - intros Hi. apply (eff_in_breaks ts te s1 s2 s1) in Hi;
          [|exact V1|intros y Hy; apply in_or_app; left; exact Hy].
        destruct (Hgap _ Hi); lra.
      - intros Hi. apply (eff_in_breaks ts te s1 s2 s2) in Hi;
          [|exact V2|intros y Hy; apply in_or_app; right; exact Hy].
        destruct (Hgap _ Hi); lra. }
    f_equal; [f_equal|]; f_equal; apply map_ext_in; intros [a b] Hp; cbn [fst snd]; apply P; exact Hp.
  Qed.
End MirrorSpike.

Theorem spike_profile_mirror : forall s1 s2 ts te m ri, valid ts te s1 -> valid ts te s2 ->
  spike_profile_py ROps (eff ts te (mirror_train ts te s1)) (eff ts te (mirror_train ts te s2)) ts te m ri
  = (rev (map (mir ts te) (fst (fst (spike_profile_py ROps (eff ts te s1) (eff ts te s2) ts te m ri)))),
     rev (snd (spike_profile_py ROps (eff ts te s1) (eff ts te s2) ts te m ri)),
     rev (snd (fst (spike_profile_py ROps (eff ts te s1) (eff ts te s2) ts te m ri)))).
Proof.
  intros s1 s2 ts te m ri V1 V2.
  rewrite (spike_profile_spec _ _ _ _ m ri (valid_mirror ts te s1 V1) (valid_mirror ts te s2 V2)).
  rewrite (spike_profile_spec _ _ _ _ m ri V1 V2).
  apply spike_spec_mirror; assumption.
Qed.

(* ================================================================== *)
(* 6'. consequence: the integrals of the ISI and SPIKE profiles of the  *)
(*     mirrored trains equal those of the original trains              *)

Lemma pieces_length (bs : list R) : length (pieces bs) = pred (length bs).
Proof.
  induction bs as [|a r IH]; [reflexivity|].
  destruct r as [|b r']; [reflexivity|].
  change (pieces (a :: b :: r')) with ((a, b) :: pieces (b :: r')).
  cbn [length pred] in *. rewrite IH. reflexivity.
Qed.

Lemma breaks_length ts te s1 s2 :
  length (breaks ROps ts te s1 s2) = S (length (pieces (breaks ROps ts te s1 s2))).
Proof.
  rewrite pieces_length. unfold breaks. cbn [length]. rewrite app_length. cbn [length]. lia.
Qed.

Theorem isi_integral_mirror : forall s1 s2 ts te m, valid ts te s1 -> valid ts te s2 ->
  let P  := isi_profile_py ROps (eff ts te s1) (eff ts te s2) ts te m in
  let P' := isi_profile_py ROps (eff ts te (mirror_train ts te s1)) (eff ts te (mirror_train ts te s2)) ts te m in
  pwc_int_all ROps (fst P') (snd P') = pwc_int_all ROps (fst P) (snd P).
Proof.
  intros s1 s2 ts te m V1 V2 P P'. unfold P'. rewrite (isi_profile_mirror s1 s2 ts te m V1 V2).
  fold P. cbn [fst snd]. apply pwc_int_all_mirror.
  unfold P. rewrite (isi_profile_spec m V1 V2). unfold isi_spec. cbv zeta. cbn [fst snd].
  rewrite map_length. apply breaks_length.
Qed.

Theorem spike_integral_mirror : forall s1 s2 ts te m ri, valid ts te s1 -> valid ts te s2 ->
  let P  := spike_profile_py ROps (eff ts te s1) (eff ts te s2) ts te m ri in
  let P' := spike_profile_py ROps (eff ts te (mirror_train ts te s1)) (eff ts te (mirror_train ts te s2)) ts te m ri in
  pwl_int_all ROps (fst (fst P')) (snd (fst P')) (snd P')
  = pwl_int_all ROps (fst (fst P)) (snd (fst P)) (snd P).
Proof.
  intros s1 s2 ts te m ri V1 V2 P P'. unfold P'. rewrite (spike_profile_mirror s1 s2 ts te m ri V1 V2).
  fold P. cbn [fst snd]. apply pwl_int_all_mirror;
  unfold P; rewrite (spike_profile_spec _ _ _ _ m ri V1 V2); unfold spike_spec; cbv zeta; cbn [fst snd];
  rewrite ?map_length; [apply breaks_length | reflexivity].
Qed.

Print Assumptions spike_profile_shift.
Print Assumptions spike_profile_scale.
Print Assumptions isi_profile_mirror.
Print Assumptions spike_profile_mirror.
Print Assumptions sync_profile_mirror.
Print Assumptions single_mirror.
Print Assumptions spike_integral_mirror.
