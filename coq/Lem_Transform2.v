(* Lem_Transform2.v — C08: shift / scale of the SPIKE profile, mirror symmetry of the
   ISI-, SPIKE- and SPIKE-Sync profiles at the model level, scalars unchanged by the mirror. *)
From Coq Require Import List Bool Arith ZArith Reals Lra Lia Sorted Permutation.
Import ListNotations.
From PS Require Import Num RLemmas Valid ModelKernels ModelFuncs ModelAPI Spec SyncDefs.
From PS Require Import Lem_Tau Lem_MinDist Lem_Isi Lem_IsiProps Lem_Spike Lem_Sync Lem_Transform.
Local Open Scope R_scope.

(* ================================================================== *)
(* validity is preserved                                               *)

Lemma valid_mirror ts te s : valid ts te s -> valid ts te (mirror_train ts te s).
Proof.
  intros (Hlt & S & F). split; [exact Hlt|]. split; [apply ssorted_mirror; exact S|].
  rewrite Forall_forall in *. intros x Hx. apply In_mirror in Hx. specialize (F _ Hx).
  unfold mir in F. lra.
Qed.

(* ================================================================== *)
(* 5. model-level mirror corollaries (ISI, SPIKE-Sync, single)         *)

Theorem isi_profile_mirror : forall s1 s2 ts te m, valid ts te s1 -> valid ts te s2 ->
  isi_profile_py ROps (eff ts te (mirror_train ts te s1)) (eff ts te (mirror_train ts te s2)) ts te m
  = (rev (map (mir ts te) (fst (isi_profile_py ROps (eff ts te s1) (eff ts te s2) ts te m))),
     rev (snd (isi_profile_py ROps (eff ts te s1) (eff ts te s2) ts te m))).
Proof.
  intros s1 s2 ts te m V1 V2.
  rewrite (isi_profile_spec m (valid_mirror ts te s1 V1) (valid_mirror ts te s2 V2)).
  rewrite (isi_profile_spec m V1 V2).
  apply isi_spec_mirror; assumption.
Qed.

Theorem sync_profile_mirror : forall s1 s2 ts te mt m, valid ts te s1 -> valid ts te s2 ->
  coincidence_profile_gen ROps (get_tau ROps) (mirror_train ts te s1) (mirror_train ts te s2) ts te mt m
  = rev (map (fun e => (mir ts te (e_t e), e_y e, e_mp e))
             (coincidence_profile_gen ROps (get_tau ROps) s1 s2 ts te mt m)).
Proof.
  intros s1 s2 ts te mt m V1 V2.
  rewrite (sync_profile_spec s1 s2 ts te mt m V1 V2).
  rewrite (sync_profile_spec _ _ ts te mt m (valid_mirror ts te s1 V1) (valid_mirror ts te s2 V2)).
  apply sync_spec_mirror; assumption.
Qed.

Theorem single_mirror : forall s1 s2 ts te mt m, valid ts te s1 -> valid ts te s2 ->
  coincidence_single_gen ROps (get_tau ROps) (mirror_train ts te s1) (mirror_train ts te s2) ts te mt m
  = rev (coincidence_single_gen ROps (get_tau ROps) s1 s2 ts te mt m).
Proof.
  intros s1 s2 ts te mt m V1 V2.
  rewrite (single_profile_spec s1 s2 ts te mt m V1 V2).
  rewrite (single_profile_spec _ _ ts te mt m (valid_mirror ts te s1 V1) (valid_mirror ts te s2 V2)).
  apply single_spec_mirror.
Qed.

(* ================================================================== *)
(* 6. full-support integrals are unchanged by the mirror               *)

Lemma pwc_int_all_snoc2 : forall xs ys a b y, length xs = length ys ->
  pwc_int_all ROps (xs ++ [a; b]) (ys ++ [y]) = pwc_int_all ROps (xs ++ [a]) ys + (b - a) * y.
Proof.
  induction xs as [|x0 xs IH]; intros ys a b y Hl.
  - destruct ys; [|discriminate]. cbn. lra.
  - destruct ys as [|y0 ys]; [discriminate|]. cbn [length] in Hl.
    assert (Hl' : length xs = length ys) by lia.
    specialize (IH ys a b y Hl').
    destruct xs as [|x1 xs].
    + destruct ys; [|discriminate]. cbn. lra.
    + change ((x0 :: x1 :: xs) ++ [a; b]) with (x0 :: x1 :: (xs ++ [a; b])).
      change ((x0 :: x1 :: xs) ++ [a]) with (x0 :: x1 :: (xs ++ [a])).
      change ((y0 :: ys) ++ [y]) with (y0 :: (ys ++ [y])).
      rewrite !pwc_int_all_cons2.
      change (x1 :: xs ++ [a; b]) with ((x1 :: xs) ++ [a; b]).
      change (x1 :: xs ++ [a]) with ((x1 :: xs) ++ [a]).
      rewrite IH. lra.
Qed.

Theorem pwc_int_all_mirror : forall ts te xs ys, length xs = S (length ys) ->
  pwc_int_all ROps (rev (map (mir ts te) xs)) (rev ys) = pwc_int_all ROps xs ys.
Proof.
  intros ts te. induction xs as [|x0 xs IH]; intros ys Hl; [discriminate|].
  destruct ys as [|y ys].
  - destruct xs; [|discriminate]. reflexivity.
  - destruct xs as [|x1 xs]; [discriminate|].
    cbn [length] in Hl. assert (Hl' : length (x1 :: xs) = S (length ys)) by (cbn [length]; lia).
    specialize (IH ys Hl').
    rewrite pwc_int_all_cons2, <- IH.
    cbn [map rev]. rewrite <- app_assoc. cbn [app].
    rewrite pwc_int_all_snoc2.
    + unfold mir. lra.
    + rewrite !rev_length, map_length. cbn [length] in Hl'. lia.
Qed.

Corollary pwc_int_all_mirror_wf : forall ts te xs ys, ssorted xs -> wf_pwc (xs, ys) ->
  pwc_int_all ROps (rev (map (mir ts te) xs)) (rev ys) = pwc_int_all ROps xs ys.
Proof. intros ts te xs ys _ [_ Hl]. apply pwc_int_all_mirror. exact Hl. Qed.

Lemma pwl_int_all_snoc2 : forall xs y1 y2 a b u v, length xs = length y1 -> length xs = length y2 ->
  pwl_int_all ROps (xs ++ [a; b]) (y1 ++ [u]) (y2 ++ [v])
  = pwl_int_all ROps (xs ++ [a]) y1 y2 + (b - a) * ((u + v) / 2).
Proof.
  induction xs as [|x0 xs IH]; intros y1 y2 a b u v Hl1 Hl2.
  - destruct y1; [|discriminate]. destruct y2; [|discriminate].
    cbn [app]. rewrite pwl_int_all_cons2, !pwl_int_all_single. lra.
  - destruct y1 as [|a0 y1]; [discriminate|]. destruct y2 as [|b0 y2]; [discriminate|].
    cbn [length] in Hl1, Hl2.
    assert (Hl1' : length xs = length y1) by lia. assert (Hl2' : length xs = length y2) by lia.
    specialize (IH y1 y2 a b u v Hl1' Hl2').
    destruct xs as [|x1 xs].
    + destruct y1; [|discriminate]. destruct y2; [|discriminate].
      cbn [app]. rewrite !pwl_int_all_cons2, !pwl_int_all_single. lra.
    + change ((x0 :: x1 :: xs) ++ [a; b]) with (x0 :: x1 :: (xs ++ [a; b])).
      change ((x0 :: x1 :: xs) ++ [a]) with (x0 :: x1 :: (xs ++ [a])).
      change ((a0 :: y1) ++ [u]) with (a0 :: (y1 ++ [u])).
      change ((b0 :: y2) ++ [v]) with (b0 :: (y2 ++ [v])).
      rewrite !pwl_int_all_cons2.
      change (x1 :: xs ++ [a; b]) with ((x1 :: xs) ++ [a; b]).
      change (x1 :: xs ++ [a]) with ((x1 :: xs) ++ [a]).
      rewrite IH. lra.
Qed.

Theorem pwl_int_all_mirror : forall ts te xs y1 y2,
  length xs = S (length y1) -> length y1 = length y2 ->
  pwl_int_all ROps (rev (map (mir ts te) xs)) (rev y2) (rev y1) = pwl_int_all ROps xs y1 y2.
Proof.
  intros ts te. induction xs as [|x0 xs IH]; intros y1 y2 Hl Hl2; [discriminate|].
  destruct y1 as [|a y1], y2 as [|b y2]; try discriminate.
  - destruct xs; [|discriminate]. reflexivity.
  - destruct xs as [|x1 xs]; [discriminate|].
    cbn [length] in Hl, Hl2.
    assert (Hl' : length (x1 :: xs) = S (length y1)) by (cbn [length]; lia).
    assert (Hl2' : length y1 = length y2) by lia.
    specialize (IH y1 y2 Hl' Hl2').
    rewrite pwl_int_all_cons2, <- IH.
    cbn [map rev]. rewrite <- app_assoc. cbn [app].
    rewrite pwl_int_all_snoc2.
    + unfold mir. lra.
    + rewrite !rev_length, map_length. cbn [length] in Hl'. lia.
    + rewrite !rev_length, map_length. cbn [length] in Hl'. lia.
Qed.

Corollary pwl_int_all_mirror_wf : forall ts te xs y1 y2, wf_pwl (xs, y1, y2) ->
  pwl_int_all ROps (rev (map (mir ts te) xs)) (rev y2) (rev y1) = pwl_int_all ROps xs y1 y2.
Proof. intros ts te xs y1 y2 (_ & H1 & H2). apply pwl_int_all_mirror; assumption. Qed.
