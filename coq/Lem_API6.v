(* Lem_API6.v — C08 for the MULTIVARIATE PROFILE entry points of ModelAPI.v:
   isi_profile_multi, spike_profile_multi, spike_sync_profile_multi and
   order_profile_multi commute with a shift and with a positive scaling of the time
   axis: the profile of the transformed trains is the profile of the original trains
   with transformed breakpoints / event times and unchanged values.
   rc = false (trains valid on one common recording), every index selection idx
   (None or Some ix), both backends.  R instance.
   Ingredients: (a) the pair profiles commute (kernel theorems of Lem_IsiProps /
   Lem_Transform / Lem_Transform2), (b) pwc_add / pwl_add / df_add commute with a map
   of the x-coordinates that preserves the comparisons (and, for pwl_add, the
   interpolation ratios), (c) the divide-and-conquer fold commutes with any map the
   addition commutes with. *)
From Coq Require Import List Bool Arith ZArith Reals Lra Lia Sorted Permutation.
Import ListNotations.
From PS Require Import Num RLemmas Valid ModelKernels ModelFuncs ModelAPI Spec SyncDefs.
From PS Require Import Lem_API Lem_API2 Lem_API3 Lem_API4.
From PS Require Lem_IsiProps Lem_WF Lem_Transform Lem_Transform2 Lem_Multi.
Local Open Scope R_scope.
Import Lem_Transform.

Local Notation trainR := (@train R).

(* ------------------------------------------------------------------ *)
(* 0. the maps on profiles and the conditions on the map of the time axis *)

(* breakpoints mapped, values unchanged *)
Definition map_pwc (g : R -> R) (f : @pwc R) : @pwc R := (map g (fst f), snd f).
Definition map_pwl (g : R -> R) (f : @pwl R) : @pwl R := (map g (fst (fst f)), snd (fst f), snd f).
Definition map_df (g : R -> R) (f : list (@dentry R)) : list (@dentry R) := map (map_t g) f.

Definition shift_pwc (c : R) := map_pwc (sh c).
Definition scale_pwc (k : R) := map_pwc (sc k).
Definition shift_pwl (c : R) := map_pwl (sh c).
Definition scale_pwl (k : R) := map_pwl (sc k).
Definition shift_df (c : R) := map_df (sh c).
Definition scale_df (k : R) := map_df (sc k).

(* the map keeps the order and the equality of time points *)
Definition cmp_ok (g : R -> R) : Prop :=
  (forall a b, Rltb (g a) (g b) = Rltb a b) /\ (forall a b, Reqb (g a) (g b) = Reqb a b).
(* the map keeps the interpolation weights *)
Definition ratio_ok (g : R -> R) : Prop :=
  forall d x xl xr, d * (g x - g xl) / (g xr - g xl) = d * (x - xl) / (xr - xl).

Lemma cmp_ok_sh c : cmp_ok (sh c).
Proof.
  split; intros a b; unfold sh; [apply Rltb_shift|].
  destruct (Reqb_spec (a + c) (b + c)), (Reqb_spec a b); try reflexivity; exfalso; lra.
Qed.

Lemma cmp_ok_sc k : 0 < k -> cmp_ok (sc k).
Proof.
  intros Hk. split; intros a b; unfold sc; [apply Rltb_scale; exact Hk|].
  destruct (Reqb_spec (k * a) (k * b)), (Reqb_spec a b); try reflexivity; exfalso; nra.
Qed.

Lemma ratio_ok_sh c : ratio_ok (sh c).
Proof.
  intros d x xl xr. unfold sh.
  replace (x + c - (xl + c)) with (x - xl) by ring.
  replace (xr + c - (xl + c)) with (xr - xl) by ring. reflexivity.
Qed.

Lemma ratio_ok_sc k : 0 < k -> ratio_ok (sc k).
Proof.
  intros Hk d x xl xr. unfold sc.
  replace (k * x - k * xl) with (k * (x - xl)) by ring.
  replace (k * xr - k * xl) with (k * (xr - xl)) by ring.
  unfold Rdiv. rewrite Rinv_mult. set (i := / (xr - xl)). field. lra.
Qed.

(* ------------------------------------------------------------------ *)
(* 1. list helpers                                                      *)

Lemma lastF_map_cons (g : R -> R) a l : lastF ROps (map g (a :: l)) = g (lastF ROps (a :: l)).
Proof.
  unfold lastF. revert a. induction l as [|b l IH]; intros a; [reflexivity|].
  change (map g (a :: b :: l)) with (g a :: map g (b :: l)).
  change (last (g a :: map g (b :: l)) (n0 ROps)) with (last (map g (b :: l)) (n0 ROps)).
  change (last (a :: b :: l) (n0 ROps)) with (last (b :: l) (n0 ROps)). apply IH.
Qed.

Lemma in_firstn6 {A} (x : A) n l : In x (firstn n l) -> In x l.
Proof. intros H. rewrite <- (firstn_skipn n l). apply in_or_app. left; exact H. Qed.
Lemma in_skipn6 {A} (x : A) n l : In x (skipn n l) -> In x l.
Proof. intros H. rewrite <- (firstn_skipn n l). apply in_or_app. right; exact H. Qed.

Lemma in_pairs_of ix p : In p (pairs_of ix) -> In (fst p) ix /\ In (snd p) ix.
Proof.
  destruct p as [i j]. rewrite Lem_Multi.pairs_of_gpairs. intros H.
  apply Lem_Multi.in_gpairs in H. exact H.
Qed.

Lemma rmap_rmap {A B C} (f : A -> B) (h : B -> C) (r : res A) : rmap h (rmap f r) = rmap (fun a => h (f a)) r.
Proof. destruct r; reflexivity. Qed.

(* ------------------------------------------------------------------ *)
(* 2. pwc_add commutes with the map of the breakpoints                  *)

Section PWC.
  Variable g : R -> R.
  Hypothesis Hg : cmp_ok g.

  Definition gx (p : R * R) : R * R := (g (fst p), snd p).

  Definition pwc_loop_map (r : list (R * R) * (R * list (R * R) * R * list (R * R))) :=
    let '(out, (d1, s1, d2, s2)) := r in (map gx out, (d1, map gx s1, d2, map gx s2)).

  Lemma pwc_add_loop_map : forall fuel c1 r1 c2 r2,
    pwc_add_loop ROps fuel c1 (map gx r1) c2 (map gx r2)
    = pwc_loop_map (pwc_add_loop ROps fuel c1 r1 c2 r2).
  Proof.
    destruct Hg as [Hlt _].
    induction fuel as [|k IH]; intros c1 r1 c2 r2; [reflexivity|].
    destruct r1 as [|[x1 v1] r1']; [reflexivity|].
    destruct r2 as [|[x2 v2] r2']; [reflexivity|].
    cbn [pwc_add_loop map nltb ROps].
    change (gx (x1, v1)) with (g x1, v1). change (gx (x2, v2)) with (g x2, v2).
    cbv iota beta. rewrite !Hlt.
    destruct (Rltb x1 x2).
    - change ((g x2, v2) :: map gx r2') with (map gx ((x2, v2) :: r2')). rewrite IH.
      destruct (pwc_add_loop ROps k v1 r1' c2 ((x2, v2) :: r2')) as [out [[[d1 s1] d2] s2]]. reflexivity.
    - destruct (Rltb x2 x1).
      + change ((g x1, v1) :: map gx r1') with (map gx ((x1, v1) :: r1')). rewrite IH.
        destruct (pwc_add_loop ROps k c1 ((x1, v1) :: r1') v2 r2') as [out [[[d1 s1] d2] s2]]. reflexivity.
      + rewrite IH.
        destruct (pwc_add_loop ROps k v1 r1' v2 r2') as [out [[[d1 s1] d2] s2]]. reflexivity.
  Qed.

  Lemma interior_map xs ys : interior (map g xs) ys = map gx (interior xs ys).
  Proof.
    unfold interior. rewrite tl_map', removelast_map'.
    generalize (removelast (tl xs)) (tl ys). clear.
    induction l as [|a l IH]; intros [|b l0]; try reflexivity.
    cbn [map combine]. rewrite IH. reflexivity.
  Qed.

  Theorem pwc_add_map : forall f1 f2,
    pwc_add ROps (map_pwc g f1) (map_pwc g f2) = rmap (map_pwc g) (pwc_add ROps f1 f2).
  Proof.
    intros [x1 y1] [x2 y2]. unfold map_pwc. cbn [fst snd].
    destruct x1 as [|a0 x1]; [reflexivity|].
    destruct y1 as [|c1 y1]; [reflexivity|].
    destruct x2 as [|b0 x2]; [reflexivity|].
    destruct y2 as [|c2 y2]; [reflexivity|].
    unfold pwc_add.
    rewrite !lastF_map_cons, !interior_map, !map_length.
    change (map g (a0 :: x1)) with (g a0 :: map g x1).
    change (map g (b0 :: x2)) with (g b0 :: map g x2).
    cbv iota beta. cbn [neqb ROps]. destruct Hg as [_ Heq]. rewrite !Heq.
    destruct (negb (Reqb a0 b0)); [reflexivity|].
    destruct (negb (Reqb (lastF ROps (a0 :: x1)) (lastF ROps (b0 :: x2)))); [reflexivity|].
    rewrite pwc_add_loop_map.
    destruct (pwc_add_loop ROps _ c1 (interior (a0 :: x1) (c1 :: y1)) c2 (interior (b0 :: x2) (c2 :: y2)))
      as [out [[[d1 s1] d2] s2]].
    cbn [pwc_loop_map rmap fst snd]. f_equal.
    destruct s1 as [|e1 s1]; [destruct s2 as [|e2 s2]|];
      cbn [map]; rewrite ?app_nil_r, ?map_app, ?map_map; cbn [map]; rewrite ?map_app, ?map_map;
      reflexivity.
  Qed.

  Lemma pwc_mul_map f c : pwc_mul ROps (map_pwc g f) c = map_pwc g (pwc_mul ROps f c).
  Proof. reflexivity. Qed.
End PWC.

(* ------------------------------------------------------------------ *)
(* 3. df_add commutes with the map of the event times                   *)

Section DF.
  Variable g : R -> R.
  Hypothesis Hg : cmp_ok g.

  Local Notation mg := (map_t g).

  Definition df_loop_map (r : list (R * R * R) * (list (R * R * R) * list (R * R * R))) :=
    let '(out, (s1, s2)) := r in (map mg out, (map mg s1, map mg s2)).

  Lemma df_add_loop_map : forall fuel i1 i2,
    df_add_loop ROps fuel (map mg i1) (map mg i2) = df_loop_map (df_add_loop ROps fuel i1 i2).
  Proof.
    destruct Hg as [Hlt _].
    induction fuel as [|k IH]; intros i1 i2; [reflexivity|].
    destruct i1 as [|e1 r1]; [reflexivity|].
    destruct i2 as [|e2 r2]; [reflexivity|].
    cbn [df_add_loop map nltb ROps].
    change (d_x (mg e1)) with (g (d_x e1)). change (d_x (mg e2)) with (g (d_x e2)).
    rewrite !Hlt.
    destruct (Rltb (d_x e1) (d_x e2)).
    - change (mg e2 :: map mg r2) with (map mg (e2 :: r2)). rewrite IH.
      destruct (df_add_loop ROps k r1 (e2 :: r2)) as [out [s1 s2]]. reflexivity.
    - destruct (Rltb (d_x e2) (d_x e1)).
      + change (mg e1 :: map mg r1) with (map mg (e1 :: r1)). rewrite IH.
        destruct (df_add_loop ROps k (e1 :: r1) r2) as [out [s1 s2]]. reflexivity.
      + rewrite IH.
        destruct (df_add_loop ROps k r1 r2) as [out [s1 s2]]. reflexivity.
  Qed.

  Theorem df_add_map : forall f1 f2,
    df_add ROps (map_df g f1) (map_df g f2) = rmap (map_df g) (df_add ROps f1 f2).
  Proof.
    intros f1 f2. unfold map_df.
    destruct f1 as [|f0 f']; [reflexivity|].
    destruct f2 as [|g0 g']; [reflexivity|].
    unfold df_add. change (map mg (f0 :: f')) with (mg f0 :: map mg f').
    change (map mg (g0 :: g')) with (mg g0 :: map mg g'). cbv iota beta.
    rewrite <- !map_rev, !removelast_map'.
    change (@dentry R) with (R * R * R)%type in *.
    destruct (rev f') as [|fl rf]; [reflexivity|].
    destruct (rev g') as [|gl rg]; [reflexivity|].
    cbn [map]. cbv iota beta.
    change (length (mg f0 :: map mg f')) with (length (map mg (f0 :: f'))).
    change (length (mg g0 :: map mg g')) with (length (map mg (g0 :: g'))).
    rewrite !map_length.
    change (d_x (mg f0)) with (g (d_x f0)). change (d_x (mg g0)) with (g (d_x g0)).
    change (d_x (mg fl)) with (g (d_x fl)). change (d_x (mg gl)) with (g (d_x gl)).
    cbn [neqb ROps]. destruct Hg as [_ Heq]. rewrite !Heq.
    destruct (negb (Reqb (d_x f0) (d_x g0))); [reflexivity|].
    destruct (negb (Reqb (d_x fl) (d_x gl))); [reflexivity|].
    rewrite df_add_loop_map.
    destruct (df_add_loop ROps _ (removelast f') (removelast g')) as [out [s1 s2]].
    cbn [df_loop_map]. change (@dentry R) with (R * R * R)%type in *.
    assert (E : (map mg out ++
                 match map mg s1, map mg s2 with
                 | _ :: _, _ => map mg s1 ++ [mg fl]
                 | [], _ :: _ => map mg s2 ++ [mg gl]
                 | [], [] => [(g (d_x fl), nadd ROps (d_y (mg fl)) (d_y (mg gl)),
                               nadd ROps (d_mp (mg fl)) (d_mp (mg gl)))]
                 end)
                = map mg (out ++
                 match s1, s2 with
                 | _ :: _, _ => s1 ++ [fl]
                 | [], _ :: _ => s2 ++ [gl]
                 | [], [] => [(d_x fl, nadd ROps (d_y fl) (d_y gl), nadd ROps (d_mp fl) (d_mp gl))]
                 end)).
    { rewrite map_app. f_equal.
      destruct s1 as [|a1 s1]; [destruct s2 as [|a2 s2]|]; cbn [map]; rewrite ?map_app; reflexivity. }
    rewrite E.
    destruct (out ++ _) as [|b0 body]; [reflexivity|]. reflexivity.
  Qed.
End DF.

(* ------------------------------------------------------------------ *)
(* 4. divide and conquer commutes with every map the addition commutes with *)

Lemma dc_map {P : Type} (gP : P -> P) (padd : P -> P -> res P) (pf pf' : nat * nat -> res P) :
  (forall d1 d2, padd (gP d1) (gP d2) = rmap gP (padd d1 d2)) ->
  forall fuel ps, (forall p, In p ps -> pf' p = rmap gP (pf p)) ->
  dc padd pf' fuel ps = rmap gP (dc padd pf fuel ps).
Proof.
  intros Hadd. induction fuel as [|k IH]; intros ps Hpf; [reflexivity|].
  destruct ps as [|p [|q ps]]; [reflexivity| |].
  - cbn [dc]. apply Hpf. left; reflexivity.
  - cbn [dc]. cbv zeta.
    set (h := Nat.div2 (length (p :: q :: ps))).
    rewrite (IH (firstn h (p :: q :: ps))) by (intros x Hx; apply Hpf; eapply in_firstn6; exact Hx).
    rewrite (IH (skipn h (p :: q :: ps))) by (intros x Hx; apply Hpf; eapply in_skipn6; exact Hx).
    destruct (dc padd pf k (firstn h (p :: q :: ps))) as [d1|e]; [|reflexivity].
    destruct (dc padd pf k (skipn h (p :: q :: ps))) as [d2|e]; [|reflexivity].
    cbn [rbind rmap]. apply Hadd.
Qed.

(* _generic_profile_multi: transform every train with [gt], every pair profile with [gP] *)
Lemma profile_multi_gen_map {P : Type} eps (gP : P -> P) (padd : P -> P -> res P)
      (bi bi' : trainR -> trainR -> res P) (gt : trainR -> trainR) l idx :
  (forall d1 d2, padd (gP d1) (gP d2) = rmap gP (padd d1 d2)) ->
  (forall a b, In a l -> In b l -> bi' (gt a) (gt b) = rmap gP (bi a b)) ->
  profile_multi_gen ROps eps padd bi' false (map gt l) idx
  = rmap (fun pn => (gP (fst pn), snd pn)) (profile_multi_gen ROps eps padd bi false l idx).
Proof.
  intros Hadd Hbi. unfold profile_multi_gen. cbv zeta. rewrite map_length.
  set (ix := indices_or_all (length l) idx).
  destruct (check_indices (length l) ix) eqn:Hc; cbn [negb]; [|reflexivity].
  rewrite (dc_map gP padd
             (fun p => bi (nth_train ROps l (fst p)) (nth_train ROps l (snd p)))
             (fun p => bi' (nth_train ROps (map gt l) (fst p)) (nth_train ROps (map gt l) (snd p))) Hadd).
  - rewrite !rmap_rmap. reflexivity.
  - intros p Hp. apply in_pairs_of in Hp as [H1 H2].
    unfold check_indices in Hc. rewrite forallb_forall in Hc.
    apply Hc in H1. apply Hc in H2. apply Nat.ltb_lt in H1, H2.
    rewrite !nth_train_map by assumption.
    apply Hbi; apply nth_train_In; assumption.
Qed.

(* ------------------------------------------------------------------ *)
(* 5. the pair profiles of the API commute with shift / scale           *)

Lemma isi_bi_shift eps cy m c ts te (a b : trainR) : vtrain ts te a -> vtrain ts te b ->
  isi_profile_bi ROps eps cy false m (shift_train c a) (shift_train c b)
  = shift_pwc c (isi_profile_bi ROps eps cy false m a b).
Proof.
  intros Va Vb.
  rewrite (isi_bi_py eps cy m (ts + c) (te + c) _ _ (vtrain_shift c ts te a Va) (vtrain_shift c ts te b Vb)).
  rewrite (isi_bi_py eps cy m ts te a b Va Vb).
  rewrite (sne_shift c ts te a Va), (sne_shift c ts te b Vb).
  pose proof (Lem_IsiProps.isi_profile_shift c (spikes_non_empty ROps a) (spikes_non_empty ROps b) ts te m) as E.
  change (fun x : R => x + c) with (sh c) in E. rewrite E. reflexivity.
Qed.

Lemma isi_bi_scale eps cy m k ts te (a b : trainR) : 0 < k -> vtrain ts te a -> vtrain ts te b ->
  isi_profile_bi ROps eps cy false (k * m) (scale_train k a) (scale_train k b)
  = scale_pwc k (isi_profile_bi ROps eps cy false m a b).
Proof.
  intros Hk Va Vb.
  rewrite (isi_bi_py eps cy (k * m) (k * ts) (k * te) _ _
             (vtrain_scale k ts te a Hk Va) (vtrain_scale k ts te b Hk Vb)).
  rewrite (isi_bi_py eps cy m ts te a b Va Vb).
  rewrite (sne_scale k ts te a Hk Va), (sne_scale k ts te b Hk Vb).
  pose proof (Lem_IsiProps.isi_profile_scale k (spikes_non_empty ROps a) (spikes_non_empty ROps b) ts te m Hk) as E.
  change (map (Rmult k)) with (map (sc k)) in E. rewrite E. reflexivity.
Qed.

Lemma sync_bi_shift eps cy mt m c (a b : trainR) :
  spike_sync_profile_bi ROps eps cy false mt m (shift_train c a) (shift_train c b)
  = shift_df c (spike_sync_profile_bi ROps eps cy false mt m a b).
Proof.
  unfold spike_sync_profile_bi. rewrite !prep2_false, !gt_of_eq.
  change (tr_spikes (shift_train c a)) with (map (sh c) (tr_spikes a)).
  change (tr_spikes (shift_train c b)) with (map (sh c) (tr_spikes b)).
  change (tr_start (shift_train c a)) with (tr_start a + c).
  change (tr_end (shift_train c a)) with (tr_end a + c).
  apply sync_profile_shift.
Qed.

Lemma sync_bi_scale eps cy mt m k (a b : trainR) : 0 < k ->
  spike_sync_profile_bi ROps eps cy false (k * mt) (k * m) (scale_train k a) (scale_train k b)
  = scale_df k (spike_sync_profile_bi ROps eps cy false mt m a b).
Proof.
  intros Hk. unfold spike_sync_profile_bi. rewrite !prep2_false, !gt_of_eq.
  change (tr_spikes (scale_train k a)) with (map (sc k) (tr_spikes a)).
  change (tr_spikes (scale_train k b)) with (map (sc k) (tr_spikes b)).
  change (tr_start (scale_train k a)) with (k * tr_start a).
  change (tr_end (scale_train k a)) with (k * tr_end a).
  apply sync_profile_scale; exact Hk.
Qed.

Lemma order_bi_shift eps cy mt m c (a b : trainR) :
  order_profile_bi ROps eps cy false mt m (shift_train c a) (shift_train c b)
  = rmap (shift_df c) (order_profile_bi ROps eps cy false mt m a b).
Proof.
  unfold order_profile_bi. rewrite !prep2_false, !gt_of_eq.
  change (tr_spikes (shift_train c a)) with (map (sh c) (tr_spikes a)).
  change (tr_spikes (shift_train c b)) with (map (sh c) (tr_spikes b)).
  change (tr_start (shift_train c a)) with (sh c (tr_start a)).
  change (tr_end (shift_train c a)) with (sh c (tr_end a)).
  change (tr_start (shift_train c b)) with (sh c (tr_start b)).
  change (tr_end (shift_train c b)) with (sh c (tr_end b)).
  cbn [neqb ROps]. rewrite !(proj2 (cmp_ok_sh c)).
  destruct (negb (Reqb (tr_start a) (tr_start b)) || negb (Reqb (tr_end a) (tr_end b))); [reflexivity|].
  cbn [rmap]. apply f_equal. exact (order_profile_shift c _ _ _ _ mt m).
Qed.

Lemma order_bi_scale eps cy mt m k (a b : trainR) : 0 < k ->
  order_profile_bi ROps eps cy false (k * mt) (k * m) (scale_train k a) (scale_train k b)
  = rmap (scale_df k) (order_profile_bi ROps eps cy false mt m a b).
Proof.
  intros Hk. unfold order_profile_bi. rewrite !prep2_false, !gt_of_eq.
  change (tr_spikes (scale_train k a)) with (map (sc k) (tr_spikes a)).
  change (tr_spikes (scale_train k b)) with (map (sc k) (tr_spikes b)).
  change (tr_start (scale_train k a)) with (sc k (tr_start a)).
  change (tr_end (scale_train k a)) with (sc k (tr_end a)).
  change (tr_start (scale_train k b)) with (sc k (tr_start b)).
  change (tr_end (scale_train k b)) with (sc k (tr_end b)).
  cbn [neqb ROps]. rewrite !(proj2 (cmp_ok_sc k Hk)).
  destruct (negb (Reqb (tr_start a) (tr_start b)) || negb (Reqb (tr_end a) (tr_end b))); [reflexivity|].
  cbn [rmap]. apply f_equal. exact (order_profile_scale k _ _ _ _ mt m Hk).
Qed.

(* ------------------------------------------------------------------ *)
(* 6. the multivariate profiles: ISI                                    *)

Theorem isi_profile_multi_shift : forall eps cy m c l idx ts te, Forall (vtrain ts te) l ->
  isi_profile_multi ROps eps cy false m (map (shift_train c) l) idx
  = rmap (shift_pwc c) (isi_profile_multi ROps eps cy false m l idx).
Proof.
  intros eps cy m c l idx ts te HF. unfold isi_profile_multi.
  rewrite (profile_multi_gen_map eps (shift_pwc c) (pwc_add ROps)
             (fun a b => Ok (isi_profile_bi ROps eps cy false m a b))
             (fun a b => Ok (isi_profile_bi ROps eps cy false m a b)) (shift_train c) l idx).
  - rewrite !rmap_rmap. reflexivity.
  - intros d1 d2. apply pwc_add_map. apply cmp_ok_sh.
  - intros a b Ha Hb. cbn [rmap]. f_equal.
    apply (isi_bi_shift eps cy m c ts te); eapply Forall_In_v; eassumption.
Qed.

Theorem isi_profile_multi_scale : forall eps cy m k l idx ts te, 0 < k -> Forall (vtrain ts te) l ->
  isi_profile_multi ROps eps cy false (k * m) (map (scale_train k) l) idx
  = rmap (scale_pwc k) (isi_profile_multi ROps eps cy false m l idx).
Proof.
  intros eps cy m k l idx ts te Hk HF. unfold isi_profile_multi.
  rewrite (profile_multi_gen_map eps (scale_pwc k) (pwc_add ROps)
             (fun a b => Ok (isi_profile_bi ROps eps cy false m a b))
             (fun a b => Ok (isi_profile_bi ROps eps cy false (k * m) a b)) (scale_train k) l idx).
  - rewrite !rmap_rmap. reflexivity.
  - intros d1 d2. apply pwc_add_map. apply cmp_ok_sc; exact Hk.
  - intros a b Ha Hb. cbn [rmap]. f_equal.
    apply (isi_bi_scale eps cy m k ts te a b Hk); eapply Forall_In_v; eassumption.
Qed.

(* ------------------------------------------------------------------ *)
(* 7. the multivariate profiles: SPIKE-Sync and spike order             *)
(* no validity hypothesis is needed: the event scan, the coincidence windows and the
   edge assertion of the order profile only compare / subtract time points *)

Theorem sync_profile_multi_shift : forall eps cy mt m c (l : list trainR) idx,
  spike_sync_profile_multi ROps eps cy false mt m (map (shift_train c) l) idx
  = rmap (shift_df c) (spike_sync_profile_multi ROps eps cy false mt m l idx).
Proof.
  intros eps cy mt m c l idx. unfold spike_sync_profile_multi.
  rewrite (profile_multi_gen_map eps (shift_df c) (df_add ROps)
             (fun a b => Ok (spike_sync_profile_bi ROps eps cy false mt m a b))
             (fun a b => Ok (spike_sync_profile_bi ROps eps cy false mt m a b)) (shift_train c) l idx).
  - rewrite !rmap_rmap. reflexivity.
  - intros d1 d2. apply df_add_map. apply cmp_ok_sh.
  - intros a b _ _. cbn [rmap]. f_equal. apply sync_bi_shift.
Qed.

Theorem sync_profile_multi_scale : forall eps cy mt m k (l : list trainR) idx, 0 < k ->
  spike_sync_profile_multi ROps eps cy false (k * mt) (k * m) (map (scale_train k) l) idx
  = rmap (scale_df k) (spike_sync_profile_multi ROps eps cy false mt m l idx).
Proof.
  intros eps cy mt m k l idx Hk. unfold spike_sync_profile_multi.
  rewrite (profile_multi_gen_map eps (scale_df k) (df_add ROps)
             (fun a b => Ok (spike_sync_profile_bi ROps eps cy false mt m a b))
             (fun a b => Ok (spike_sync_profile_bi ROps eps cy false (k * mt) (k * m) a b))
             (scale_train k) l idx).
  - rewrite !rmap_rmap. reflexivity.
  - intros d1 d2. apply df_add_map. apply cmp_ok_sc; exact Hk.
  - intros a b _ _. cbn [rmap]. f_equal. apply sync_bi_scale; exact Hk.
Qed.

Theorem order_profile_multi_shift : forall eps cy mt m c (l : list trainR) idx,
  order_profile_multi ROps eps cy false mt m (map (shift_train c) l) idx
  = rmap (shift_df c) (order_profile_multi ROps eps cy false mt m l idx).
Proof.
  intros eps cy mt m c l idx. unfold order_profile_multi.
  rewrite (profile_multi_gen_map eps (shift_df c) (df_add ROps)
             (fun a b => order_profile_bi ROps eps cy false mt m a b)
             (fun a b => order_profile_bi ROps eps cy false mt m a b) (shift_train c) l idx).
  - rewrite !rmap_rmap. reflexivity.
  - intros d1 d2. apply df_add_map. apply cmp_ok_sh.
  - intros a b _ _. apply order_bi_shift.
Qed.

Theorem order_profile_multi_scale : forall eps cy mt m k (l : list trainR) idx, 0 < k ->
  order_profile_multi ROps eps cy false (k * mt) (k * m) (map (scale_train k) l) idx
  = rmap (scale_df k) (order_profile_multi ROps eps cy false mt m l idx).
Proof.
  intros eps cy mt m k l idx Hk. unfold order_profile_multi.
  rewrite (profile_multi_gen_map eps (scale_df k) (df_add ROps)
             (fun a b => order_profile_bi ROps eps cy false mt m a b)
             (fun a b => order_profile_bi ROps eps cy false (k * mt) (k * m) a b) (scale_train k) l idx).
  - rewrite !rmap_rmap. reflexivity.
  - intros d1 d2. apply df_add_map. apply cmp_ok_sc; exact Hk.
  - intros a b _ _. apply order_bi_scale; exact Hk.
Qed.

(* ------------------------------------------------------------------ *)
(* 8. pwl_add commutes with the map of the breakpoints                  *)

Section PWL.
  Variable g : R -> R.
  Hypothesis Hg : cmp_ok g.
  Hypothesis Hr : ratio_ok g.

  Local Notation mg := (map_t g).

  Definition gp (p : @lpiece R) : @lpiece R :=
    (g (fst (fst (fst p))), snd (fst (fst p)), snd (fst p), g (snd p)).

  Lemma lp_at_gp p x : lp_at ROps (gp p) (g x) = lp_at ROps p x.
  Proof.
    destruct p as [[[xl ya] yb] xr]. unfold lp_at, gp. cbn [fst snd nadd nsub nmul ndiv ROps].
    f_equal. apply Hr.
  Qed.

  Lemma lpieces_map : forall xs y1 y2, lpieces (map g xs) y1 y2 = map gp (lpieces xs y1 y2).
  Proof.
    induction xs as [|x0 xs IH]; intros y1 y2; [reflexivity|].
    destruct xs as [|x1 xs']; [destruct y1, y2; reflexivity|].
    destruct y1 as [|a y1']; [reflexivity|].
    destruct y2 as [|b y2']; [reflexivity|].
    change (map g (x0 :: x1 :: xs')) with (g x0 :: g x1 :: map g xs').
    change (lpieces (g x0 :: g x1 :: map g xs') (a :: y1') (b :: y2'))
      with ((g x0, a, b, g x1) :: lpieces (map g (x1 :: xs')) y1' y2').
    rewrite IH. reflexivity.
  Qed.

  Lemma lpieces_cons_inv (xs y1 y2 : list R) c r : lpieces xs y1 y2 = c :: r -> exists a xs', xs = a :: xs'.
  Proof. destruct xs as [|a xs']; [destruct y1, y2; discriminate|]. intros _. eauto. Qed.

  Definition pwl_loop_map (r : list (R * R * R) * (@lpiece R * list (@lpiece R) * @lpiece R * list (@lpiece R))) :=
    let '(out, (d1, s1, d2, s2)) := r in (map mg out, (gp d1, map gp s1, gp d2, map gp s2)).

  Lemma pwl_add_loop_map : forall fuel c1 r1 c2 r2,
    pwl_add_loop ROps fuel (gp c1) (map gp r1) (gp c2) (map gp r2)
    = pwl_loop_map (pwl_add_loop ROps fuel c1 r1 c2 r2).
  Proof.
    destruct Hg as [Hlt _].
    induction fuel as [|k IH]; intros c1 r1 c2 r2; [reflexivity|].
    destruct r1 as [|n1 r1']; [reflexivity|].
    destruct r2 as [|n2 r2']; [reflexivity|].
    cbn [pwl_add_loop map nltb ROps]. cbv zeta.
    change (lp_xr (gp c1)) with (g (lp_xr c1)). change (lp_xr (gp c2)) with (g (lp_xr c2)).
    rewrite !Hlt, !lp_at_gp.
    destruct (Rltb (lp_xr c1) (lp_xr c2)).
    - change (gp n2 :: map gp r2') with (map gp (n2 :: r2')). rewrite IH.
      destruct (pwl_add_loop ROps k n1 r1' c2 (n2 :: r2')) as [out [[[d1 s1] d2] s2]]. reflexivity.
    - destruct (Rltb (lp_xr c2) (lp_xr c1)).
      + change (gp n1 :: map gp r1') with (map gp (n1 :: r1')). rewrite IH.
        destruct (pwl_add_loop ROps k c1 (n1 :: r1') n2 r2') as [out [[[d1 s1] d2] s2]]. reflexivity.
      + rewrite IH.
        destruct (pwl_add_loop ROps k n1 r1' n2 r2') as [out [[[d1 s1] d2] s2]]. reflexivity.
  Qed.

  Lemma pwl_add_tail_map : forall r c other,
    pwl_add_tail ROps (gp c) (map gp r) (gp other) = map mg (pwl_add_tail ROps c r other).
  Proof.
    induction r as [|n r IH]; intros c other; [reflexivity|].
    cbn [pwl_add_tail map]. cbv zeta.
    change (lp_xr (gp c)) with (g (lp_xr c)). rewrite lp_at_gp, IH. reflexivity.
  Qed.

  Theorem pwl_add_map : forall f1 f2,
    pwl_add ROps (map_pwl g f1) (map_pwl g f2) = rmap (map_pwl g) (pwl_add ROps f1 f2).
  Proof.
    intros [[x1 y11] y12] [[x2 y21] y22]. unfold map_pwl at 1 2. cbn [fst snd].
    unfold pwl_add. rewrite !lpieces_map.
    destruct (lpieces x1 y11 y12) as [|c1 r1] eqn:E1; [reflexivity|].
    destruct (lpieces x2 y21 y22) as [|c2 r2] eqn:E2; [reflexivity|].
    apply lpieces_cons_inv in E1 as (xa & x1' & ->).
    apply lpieces_cons_inv in E2 as (xb & x2' & ->).
    cbn [map]. cbv iota beta.
    change (g xa :: map g x1') with (map g (xa :: x1')).
    change (g xb :: map g x2') with (map g (xb :: x2')).
    rewrite !lastF_map_cons, !map_length.
    change (nthF ROps (map g (xa :: x1')) 0) with (g xa).
    change (nthF ROps (map g (xb :: x2')) 0) with (g xb).
    change (nthF ROps (xa :: x1') 0) with xa. change (nthF ROps (xb :: x2') 0) with xb.
    cbn [neqb ROps]. destruct Hg as [_ Heq]. rewrite !Heq.
    destruct (negb (Reqb xa xb)); [reflexivity|].
    destruct (negb (Reqb (lastF ROps (xa :: x1')) (lastF ROps (xb :: x2')))); [reflexivity|].
    rewrite pwl_add_loop_map.
    destruct (pwl_add_loop ROps _ c1 r1 c2 r2) as [out [[[d1 s1] d2] s2]].
    cbn [pwl_loop_map].
    assert (E : map mg out ++
                match map gp s1, map gp s2 with
                | _ :: _, _ => pwl_add_tail ROps (gp d1) (map gp s1) (gp d2)
                | [], _ :: _ => pwl_add_tail ROps (gp d2) (map gp s2) (gp d1)
                | [], [] => []
                end
                = map mg (out ++
                match s1, s2 with
                | _ :: _, _ => pwl_add_tail ROps d1 s1 d2
                | [], _ :: _ => pwl_add_tail ROps d2 s2 d1
                | [], [] => []
                end)).
    { rewrite map_app. f_equal.
      destruct s1 as [|a1 s1]; [destruct s2 as [|a2 s2]|]; [reflexivity| |].
      - change (map gp (a2 :: s2)) with (gp a2 :: map gp s2). cbv iota beta.
        change (gp a2 :: map gp s2) with (map gp (a2 :: s2)). apply pwl_add_tail_map.
      - change (map gp (a1 :: s1)) with (gp a1 :: map gp s1). cbv iota beta.
        change (gp a1 :: map gp s1) with (map gp (a1 :: s1)). apply pwl_add_tail_map. }
    rewrite E. set (evs := out ++ _).
    unfold map_pwl. cbn [rmap fst snd map]. rewrite map_app, !map_map. reflexivity.
  Qed.

  Lemma pwl_mul_map f c : pwl_mul ROps (map_pwl g f) c = map_pwl g (pwl_mul ROps f c).
  Proof. destruct f as [[xs y1] y2]. reflexivity. Qed.
End PWL.

(* ------------------------------------------------------------------ *)
(* 9. the multivariate profiles: SPIKE                                  *)

Lemma spike_bi_shift eps cy m ri c ts te (a b : trainR) : vtrain ts te a -> vtrain ts te b ->
  spike_profile_bi ROps eps cy false m ri (shift_train c a) (shift_train c b)
  = shift_pwl c (spike_profile_bi ROps eps cy false m ri a b).
Proof.
  intros Va Vb.
  rewrite (spike_bi_py eps cy m ri (ts + c) (te + c) _ _ (vtrain_shift c ts te a Va) (vtrain_shift c ts te b Vb)).
  rewrite (spike_bi_py eps cy m ri ts te a b Va Vb).
  change (tr_spikes (shift_train c a)) with (map (sh c) (tr_spikes a)).
  change (tr_spikes (shift_train c b)) with (map (sh c) (tr_spikes b)).
  pose proof Va as (V1 & _ & _). pose proof Vb as (V2 & _ & _).
  rewrite (Lem_Transform2.spike_profile_shift c _ _ ts te m ri V1 V2). reflexivity.
Qed.

Lemma spike_bi_scale eps cy m ri k ts te (a b : trainR) : 0 < k -> vtrain ts te a -> vtrain ts te b ->
  spike_profile_bi ROps eps cy false (k * m) ri (scale_train k a) (scale_train k b)
  = scale_pwl k (spike_profile_bi ROps eps cy false m ri a b).
Proof.
  intros Hk Va Vb.
  rewrite (spike_bi_py eps cy (k * m) ri (k * ts) (k * te) _ _
             (vtrain_scale k ts te a Hk Va) (vtrain_scale k ts te b Hk Vb)).
  rewrite (spike_bi_py eps cy m ri ts te a b Va Vb).
  change (tr_spikes (scale_train k a)) with (map (sc k) (tr_spikes a)).
  change (tr_spikes (scale_train k b)) with (map (sc k) (tr_spikes b)).
  pose proof Va as (V1 & _ & _). pose proof Vb as (V2 & _ & _).
  rewrite (Lem_Transform2.spike_profile_scale k _ _ ts te m ri Hk V1 V2). reflexivity.
Qed.

Theorem spike_profile_multi_shift : forall eps cy m ri c l idx ts te, Forall (vtrain ts te) l ->
  spike_profile_multi ROps eps cy false m ri (map (shift_train c) l) idx
  = rmap (shift_pwl c) (spike_profile_multi ROps eps cy false m ri l idx).
Proof.
  intros eps cy m ri c l idx ts te HF. unfold spike_profile_multi.
  rewrite (profile_multi_gen_map eps (shift_pwl c) (pwl_add ROps)
             (fun a b => Ok (spike_profile_bi ROps eps cy false m ri a b))
             (fun a b => Ok (spike_profile_bi ROps eps cy false m ri a b)) (shift_train c) l idx).
  - rewrite !rmap_rmap. destruct (profile_multi_gen _ _ _ _ _ _ _) as [[p n]|e]; [|reflexivity].
    cbn [rmap fst snd]. f_equal. apply pwl_mul_map.
  - intros d1 d2. apply pwl_add_map; [apply cmp_ok_sh|apply ratio_ok_sh].
  - intros a b Ha Hb. cbn [rmap]. apply f_equal.
    apply (spike_bi_shift eps cy m ri c ts te); eapply Forall_In_v; eassumption.
Qed.

Theorem spike_profile_multi_scale : forall eps cy m ri k l idx ts te, 0 < k -> Forall (vtrain ts te) l ->
  spike_profile_multi ROps eps cy false (k * m) ri (map (scale_train k) l) idx
  = rmap (scale_pwl k) (spike_profile_multi ROps eps cy false m ri l idx).
Proof.
  intros eps cy m ri k l idx ts te Hk HF. unfold spike_profile_multi.
  rewrite (profile_multi_gen_map eps (scale_pwl k) (pwl_add ROps)
             (fun a b => Ok (spike_profile_bi ROps eps cy false m ri a b))
             (fun a b => Ok (spike_profile_bi ROps eps cy false (k * m) ri a b)) (scale_train k) l idx).
  - rewrite !rmap_rmap. destruct (profile_multi_gen _ _ _ _ _ _ _) as [[p n]|e]; [|reflexivity].
    cbn [rmap fst snd]. f_equal. apply pwl_mul_map.
  - intros d1 d2. apply pwl_add_map; [apply cmp_ok_sc|apply ratio_ok_sc]; exact Hk.
  - intros a b Ha Hb. cbn [rmap]. apply f_equal.
    apply (spike_bi_scale eps cy m ri k ts te a b Hk); eapply Forall_In_v; eassumption.
Qed.

(* ------------------------------------------------------------------ *)
(* 10. all four profiles at once                                        *)

Theorem multi_profiles_shift : forall eps cy m mt ri c l idx ts te, Forall (vtrain ts te) l ->
  isi_profile_multi ROps eps cy false m (map (shift_train c) l) idx
    = rmap (shift_pwc c) (isi_profile_multi ROps eps cy false m l idx) /\
  spike_profile_multi ROps eps cy false m ri (map (shift_train c) l) idx
    = rmap (shift_pwl c) (spike_profile_multi ROps eps cy false m ri l idx) /\
  spike_sync_profile_multi ROps eps cy false mt m (map (shift_train c) l) idx
    = rmap (shift_df c) (spike_sync_profile_multi ROps eps cy false mt m l idx) /\
  order_profile_multi ROps eps cy false mt m (map (shift_train c) l) idx
    = rmap (shift_df c) (order_profile_multi ROps eps cy false mt m l idx).
Proof.
  intros eps cy m mt ri c l idx ts te HF.
  split; [apply (isi_profile_multi_shift eps cy m c l idx ts te HF)|].
  split; [apply (spike_profile_multi_shift eps cy m ri c l idx ts te HF)|].
  split; [apply sync_profile_multi_shift | apply order_profile_multi_shift].
Qed.

Theorem multi_profiles_scale : forall eps cy m mt ri k l idx ts te, 0 < k -> Forall (vtrain ts te) l ->
  isi_profile_multi ROps eps cy false (k * m) (map (scale_train k) l) idx
    = rmap (scale_pwc k) (isi_profile_multi ROps eps cy false m l idx) /\
  spike_profile_multi ROps eps cy false (k * m) ri (map (scale_train k) l) idx
    = rmap (scale_pwl k) (spike_profile_multi ROps eps cy false m ri l idx) /\
  spike_sync_profile_multi ROps eps cy false (k * mt) (k * m) (map (scale_train k) l) idx
    = rmap (scale_df k) (spike_sync_profile_multi ROps eps cy false mt m l idx) /\
  order_profile_multi ROps eps cy false (k * mt) (k * m) (map (scale_train k) l) idx
    = rmap (scale_df k) (order_profile_multi ROps eps cy false mt m l idx).
Proof.
  intros eps cy m mt ri k l idx ts te Hk HF.
  split; [apply (isi_profile_multi_scale eps cy m k l idx ts te Hk HF)|].
  split; [apply (spike_profile_multi_scale eps cy m ri k l idx ts te Hk HF)|].
  split; [apply sync_profile_multi_scale; exact Hk | apply order_profile_multi_scale; exact Hk].
Qed.

(* ------------------------------------------------------------------ *)
(* 11. non-vacuity: the three valid trains [ex_l] of Lem_API4 on [0, 10] *)

Example ex6_hypotheses : Forall (vtrain 0 10) ex_l /\ 0 < 3.
Proof. destruct ex_l_hypotheses as (HF & _ & _ & _ & _ & H3 & _). split; assumption. Qed.

Example ex6_instances :
  isi_profile_multi ROps (1 / 1000000) true false 0 (map (shift_train 3) ex_l) None
    = rmap (shift_pwc 3) (isi_profile_multi ROps (1 / 1000000) true false 0 ex_l None) /\
  spike_profile_multi ROps (1 / 1000000) false false (3 * 0) true (map (scale_train 3) ex_l) (Some [2; 0; 1]%nat)
    = rmap (scale_pwl 3) (spike_profile_multi ROps (1 / 1000000) false false 0 true ex_l (Some [2; 0; 1]%nat)) /\
  order_profile_multi ROps (1 / 1000000) true false (3 * 0) (3 * 0) (map (scale_train 3) ex_l) None
    = rmap (scale_df 3) (order_profile_multi ROps (1 / 1000000) true false 0 0 ex_l None).
Proof.
  destruct ex6_hypotheses as (HF & H3).
  split; [apply (isi_profile_multi_shift _ _ _ 3 ex_l None 0 10 HF)|].
  split; [apply (spike_profile_multi_scale _ _ _ _ 3 ex_l _ 0 10 H3 HF)|].
  apply (order_profile_multi_scale _ _ _ _ 3 ex_l None H3).
Qed.

(* the same trains on the Q instance: the profiles are [Ok _], not trivial, and the
   statements hold there too (both backends, idx = None and a permuted / repeated
   selection, shift by 7/3, scaling by 5/7, MRTS 1/5, max_tau 3/10) *)
From Coq Require Import QArith.
Local Close Scope Q_scope.
Local Open Scope R_scope.

Definition q6_sh (c x : Q) : Q := Qred (x + c).
Definition q6_sc (k x : Q) : Q := Qred (k * x).
Definition q6_train (g : Q -> Q) (t : list Q * Q * Q) : list Q * Q * Q :=
  (map g (tr_spikes t), g (tr_start t), g (tr_end t)).
Definition q6_pwc (g : Q -> Q) (f : list Q * list Q) := (map g (fst f), snd f).
Definition q6_pwl (g : Q -> Q) (f : list Q * list Q * list Q) := (map g (fst (fst f)), snd (fst f), snd f).
Definition q6_df (g : Q -> Q) (f : list (Q * Q * Q)) := map (fun e => (g (fst (fst e)), snd (fst e), snd e)) f.
Fixpoint q6_leq (a b : list Q) : bool :=
  match a, b with
  | [], [] => true
  | x :: a', y :: b' => Qeq_bool x y && q6_leq a' b'
  | _, _ => false
  end.
Definition q6_eq_pwc (a b : res (list Q * list Q)) : bool :=
  match a, b with Ok (x, y), Ok (x', y') => q6_leq x x' && q6_leq y y' | _, _ => false end.
Definition q6_eq_pwl (a b : res (list Q * list Q * list Q)) : bool :=
  match a, b with Ok (x, y, z), Ok (x', y', z') => q6_leq x x' && q6_leq y y' && q6_leq z z' | _, _ => false end.
Definition q6_flat (f : list (Q * Q * Q)) : list Q := flat_map (fun e => [fst (fst e); snd (fst e); snd e]) f.
Definition q6_eq_df (a b : res (list (Q * Q * Q))) : bool :=
  match a, b with Ok x, Ok x' => q6_leq (q6_flat x) (q6_flat x') | _, _ => false end.

Definition q6_checks (l : list (list Q * Q * Q)) (c k m mt : Q) : list bool :=
  flat_map (fun idx => flat_map (fun cy : bool =>
  [ q6_eq_pwc (isi_profile_multi QOps qx_eps cy false m (map (q6_train (q6_sh c)) l) idx)
              (rmap (q6_pwc (q6_sh c)) (isi_profile_multi QOps qx_eps cy false m l idx));
    q6_eq_pwc (isi_profile_multi QOps qx_eps cy false (q6_sc k m) (map (q6_train (q6_sc k)) l) idx)
              (rmap (q6_pwc (q6_sc k)) (isi_profile_multi QOps qx_eps cy false m l idx));
    q6_eq_pwl (spike_profile_multi QOps qx_eps cy false m true (map (q6_train (q6_sh c)) l) idx)
              (rmap (q6_pwl (q6_sh c)) (spike_profile_multi QOps qx_eps cy false m true l idx));
    q6_eq_pwl (spike_profile_multi QOps qx_eps cy false (q6_sc k m) false (map (q6_train (q6_sc k)) l) idx)
              (rmap (q6_pwl (q6_sc k)) (spike_profile_multi QOps qx_eps cy false m false l idx));
    q6_eq_df (spike_sync_profile_multi QOps qx_eps cy false mt m (map (q6_train (q6_sh c)) l) idx)
             (rmap (q6_df (q6_sh c)) (spike_sync_profile_multi QOps qx_eps cy false mt m l idx));
    q6_eq_df (spike_sync_profile_multi QOps qx_eps cy false (q6_sc k mt) (q6_sc k m) (map (q6_train (q6_sc k)) l) idx)
             (rmap (q6_df (q6_sc k)) (spike_sync_profile_multi QOps qx_eps cy false mt m l idx));
    q6_eq_df (order_profile_multi QOps qx_eps cy false mt m (map (q6_train (q6_sh c)) l) idx)
             (rmap (q6_df (q6_sh c)) (order_profile_multi QOps qx_eps cy false mt m l idx));
    q6_eq_df (order_profile_multi QOps qx_eps cy false (q6_sc k mt) (q6_sc k m) (map (q6_train (q6_sc k)) l) idx)
             (rmap (q6_df (q6_sc k)) (order_profile_multi QOps qx_eps cy false mt m l idx)) ])
  [true; false]) [None; Some [2; 0; 1]%nat; Some [1; 1; 0]%nat].

Example ex6_Q :
  forallb (fun b => b) (q6_checks qx_l (7 # 3) (5 # 7) (1 # 5) (3 # 10)) = true /\
  forallb (fun b => b) (q6_checks qx_l (7 # 3) (5 # 7) 0 0) = true /\
  isi_profile_multi QOps qx_eps true false 0%Q qx_l None
    = Ok ([0; 1; 2; 3; 4; 5; 7; 9; 10]%Q,
          [17 # 60; 17 # 60; 17 # 60; 7 # 12; 2 # 15; 0; 0; 0]%Q) /\
  isi_profile_multi QOps qx_eps true false 0%Q (map (q6_train (q6_sh 3)) qx_l) None
    = Ok ([3; 4; 5; 6; 7; 8; 10; 12; 13]%Q,
          [17 # 60; 17 # 60; 17 # 60; 7 # 12; 2 # 15; 0; 0; 0]%Q).
Proof. vm_compute. repeat split. Qed.

(* ------------------------------------------------------------------ *)
Print Assumptions pwc_add_map.
Print Assumptions pwl_add_map.
Print Assumptions df_add_map.
Print Assumptions dc_map.
Print Assumptions isi_profile_multi_shift.
Print Assumptions isi_profile_multi_scale.
Print Assumptions spike_profile_multi_shift.
Print Assumptions spike_profile_multi_scale.
Print Assumptions sync_profile_multi_shift.
Print Assumptions sync_profile_multi_scale.
Print Assumptions order_profile_multi_shift.
Print Assumptions order_profile_multi_scale.
Print Assumptions multi_profiles_shift.
Print Assumptions multi_profiles_scale.
Print Assumptions ex6_instances.
Print Assumptions ex6_Q.
