(* Lem_API4.v — C08 for the MULTIVARIATE scalar entry points of ModelAPI.v:
   a time shift / a positive time scaling of every train of a list (and of the averaging
   interval) leaves isi_distance_multi, spike_distance_multi, spike_sync_multi and
   spike_train_order_multi unchanged; time reversal about the recording leaves the first
   three unchanged and changes the sign of the spike train order.
   All trains of the list are valid on one common recording, idx = None, rc = false,
   both backends.  R instance.  The two-train results come from Lem_API2 / Lem_API3. *)
From Coq Require Import List Bool Arith ZArith Reals Lra Lia Sorted Permutation.
Import ListNotations.
From PS Require Import Num RLemmas Valid ModelKernels ModelFuncs ModelAPI Spec SyncDefs.
From PS Require Import Lem_API Lem_API2 Lem_API3.
From PS Require Lem_Lists Lem_Order Lem_Sync Lem_WF Lem_OrderSpec Lem_Transform Lem_Transform2
                Lem_Multi Lem_MultiAPI2.
Local Open Scope R_scope.
Import Lem_Transform.
Import Lem_OrderSpec.

Local Notation trainR := (@train R).

(* ------------------------------------------------------------------ *)
(* 0. list helpers                                                      *)

(* the default train of [nth_train] is never reached for an index below the length, so
   its image under the transformation does not matter *)
Lemma nth_train_map (g : trainR -> trainR) l i : (i < length l)%nat ->
  nth_train ROps (map g l) i = g (nth_train ROps l i).
Proof.
  intros H. unfold nth_train.
  rewrite nth_indep with (d' := g ([], n0 ROps, n0 ROps)) by (rewrite map_length; exact H).
  apply map_nth.
Qed.

Lemma nth_train_In (l : list trainR) i : (i < length l)%nat -> In (nth_train ROps l i) l.
Proof. intros H. apply nth_In. exact H. Qed.

Lemma fold_left_ext_in {A B} (f g : A -> B -> A) : forall l a,
  (forall x b, In b l -> f x b = g x b) -> fold_left f l a = fold_left g l a.
Proof.
  induction l as [|b l IH]; intros a H; cbn [fold_left]; [reflexivity|].
  rewrite (H a b (or_introl eq_refl)). apply IH. intros x b' Hb. apply H. right; exact Hb.
Qed.

Lemma Forall_In_v ts te (l : list trainR) t : Forall (vtrain ts te) l -> In t l -> vtrain ts te t.
Proof. intros HF Ht. rewrite Forall_forall in HF. apply HF; exact Ht. Qed.

(* ------------------------------------------------------------------ *)
(* 1. the generic lifting lemmas                                        *)

(* mean of the pair values (ISI / SPIKE distance) *)
Lemma distance_multi_gen_map eps (bi bi' : trainR -> trainR -> res R) (g : trainR -> trainR) l :
  (forall a b, In a l -> In b l -> bi' (g a) (g b) = bi a b) ->
  distance_multi_gen ROps eps bi' false (map g l) None = distance_multi_gen ROps eps bi false l None.
Proof.
  intros H. unfold distance_multi_gen. cbv zeta. cbn [indices_or_all]. rewrite map_length.
  rewrite Lem_Multi.check_indices_seq. cbn [negb]. f_equal.
  apply fold_left_ext_in. intros acc p Hp.
  apply Lem_Multi.in_pairs_seq in Hp as [H1 H2].
  rewrite !nth_train_map by assumption.
  rewrite H by (apply nth_train_In; assumption). reflexivity.
Qed.

(* component-wise sum of the pair values (SPIKE-Sync, spike train order) *)
Definition pstep (f : trainR -> trainR -> res (R * R)) (l : list trainR)
           (acc : res (R * R)) (p : nat * nat) : res (R * R) :=
  rbind acc (fun a =>
  rmap (fun d => (nadd ROps (fst a) (fst d), nadd ROps (snd a) (snd d)))
       (f (nth_train ROps l (fst p)) (nth_train ROps l (snd p)))).

Definition pfold (f : trainR -> trainR -> res (R * R)) (l : list trainR) : res (R * R) :=
  fold_left (pstep f l) (pairs_of (seq 0 (length l))) (Ok (n0 ROps, n0 ROps)).

Lemma spike_sync_multi_pfold eps cy mt m iv (l : list trainR) :
  spike_sync_multi ROps eps cy false mt m iv l None
  = rmap (ord_fin true) (pfold (spike_sync_values ROps eps cy mt m iv) l).
Proof.
  unfold spike_sync_multi, pfold. cbv zeta. cbn [indices_or_all].
  rewrite Lem_Multi.check_indices_seq. reflexivity.
Qed.

Lemma spike_train_order_multi_pfold eps cy nrm mt m (l : list trainR) :
  spike_train_order_multi ROps eps cy false nrm mt m l None
  = rmap (ord_fin nrm) (pfold (order_impl ROps eps cy mt m) l).
Proof.
  unfold spike_train_order_multi, pfold. cbv zeta. cbn [indices_or_all].
  rewrite Lem_Multi.check_indices_seq. reflexivity.
Qed.

Lemma pfold_map (f f' : trainR -> trainR -> res (R * R)) (g : trainR -> trainR) l :
  (forall a b, In a l -> In b l -> f' (g a) (g b) = f a b) ->
  pfold f' (map g l) = pfold f l.
Proof.
  intros H. unfold pfold. rewrite map_length.
  apply fold_left_ext_in. intros acc p Hp.
  apply Lem_Multi.in_pairs_seq in Hp as [H1 H2]. unfold pstep.
  rewrite !nth_train_map by assumption.
  rewrite H by (apply nth_train_In; assumption). reflexivity.
Qed.

(* ------------------------------------------------------------------ *)
(* 2. pair-level statements that Lem_API3 has only after the final ratio *)

Lemma sync_values_shift eps cy mt m iv c (a b : trainR) ts te :
  vtrain ts te a -> vtrain ts te b ->
  spike_sync_values ROps eps cy mt m (shift_iv c iv) (shift_train c a) (shift_train c b)
  = spike_sync_values ROps eps cy mt m iv a b.
Proof.
  intros Va Vb.
  rewrite (@sync_values_are_profile_sums eps cy mt m (shift_iv c iv) _ _ _ _
             (vtrain_shift c ts te a Va) (vtrain_shift c ts te b Vb)).
  rewrite (@sync_values_are_profile_sums eps cy mt m iv _ _ _ _ Va Vb).
  unfold spike_sync_profile_bi. rewrite !prep2_false, !gt_of_eq.
  change (tr_spikes (shift_train c a)) with (map (sh c) (tr_spikes a)).
  change (tr_spikes (shift_train c b)) with (map (sh c) (tr_spikes b)).
  change (tr_start (shift_train c a)) with (tr_start a + c).
  change (tr_end (shift_train c a)) with (tr_end a + c).
  rewrite sync_profile_shift, !df_integral_iv_of, shift_iv_map.
  apply (df_integral1_map (sh c)). intros x y. apply Rltb_shift.
Qed.

Lemma sync_values_scale eps cy mt m iv k (a b : trainR) ts te : 0 < k ->
  vtrain ts te a -> vtrain ts te b ->
  spike_sync_values ROps eps cy (k * mt) (k * m) (scale_iv k iv) (scale_train k a) (scale_train k b)
  = spike_sync_values ROps eps cy mt m iv a b.
Proof.
  intros Hk Va Vb.
  rewrite (@sync_values_are_profile_sums eps cy (k * mt) (k * m) (scale_iv k iv) _ _ _ _
             (vtrain_scale k ts te a Hk Va) (vtrain_scale k ts te b Hk Vb)).
  rewrite (@sync_values_are_profile_sums eps cy mt m iv _ _ _ _ Va Vb).
  unfold spike_sync_profile_bi. rewrite !prep2_false, !gt_of_eq.
  change (tr_spikes (scale_train k a)) with (map (sc k) (tr_spikes a)).
  change (tr_spikes (scale_train k b)) with (map (sc k) (tr_spikes b)).
  change (tr_start (scale_train k a)) with (k * tr_start a).
  change (tr_end (scale_train k a)) with (k * tr_end a).
  rewrite sync_profile_scale by exact Hk. rewrite !df_integral_iv_of, scale_iv_map.
  apply (df_integral1_map (sc k)). intros x y. apply Rltb_scale; exact Hk.
Qed.

(* value of _spike_train_order_impl on every code path *)
Lemma order_impl_any eps cy mt m (a b : trainR) ts te :
  vtrain ts te a -> vtrain ts te b ->
  order_impl ROps eps cy mt m a b
  = Ok (2 * os_D mt m (rcn_if cy eps a) (rcn_if cy eps b),
        INR (length (tr_spikes (rcn_if cy eps a))) + INR (length (tr_spikes (rcn_if cy eps b)))).
Proof.
  intros Va Vb.
  assert (C : forall a' b' : trainR, vtrain ts te a' -> vtrain ts te b' ->
            order_impl ROps eps true mt m a' b'
            = Ok (2 * os_D mt m a' b', INR (length (tr_spikes a')) + INR (length (tr_spikes b')))).
  { intros [[s1 ts1] te1] [[s2 ts2] te2] (V1 & Hs1 & He1) (V2 & Hs2 & He2).
    unfold tr_spikes, tr_start, tr_end in *. cbn [fst snd] in *. subst ts1 te1 ts2 te2.
    apply (os_order_impl_value eps true mt m ts te s1 s2 ltac:(discriminate) V1 V2). }
  destruct cy.
  - apply C; assumption.
  - rewrite (order_impl_py_rcn eps mt m ts te a b Va Vb).
    apply C; apply vtrain_rcn; assumption.
Qed.

Lemma order_impl_shift eps cy mt m c (a b : trainR) ts te :
  vtrain ts te a -> vtrain ts te b ->
  order_impl ROps eps cy mt m (shift_train c a) (shift_train c b) = order_impl ROps eps cy mt m a b.
Proof.
  intros Va Vb.
  rewrite (order_impl_any eps cy mt m _ _ (ts + c) (te + c)
             (vtrain_shift c ts te a Va) (vtrain_shift c ts te b Vb)).
  rewrite (order_impl_any eps cy mt m a b ts te Va Vb).
  rewrite !rcn_if_shift, os_D_shift, !len_shift. reflexivity.
Qed.

Lemma order_impl_scale eps cy mt m k (a b : trainR) ts te : 0 < k -> cy = true \/ 0 <= eps ->
  vtrain ts te a -> vtrain ts te b ->
  order_impl ROps eps cy (k * mt) (k * m) (scale_train k a) (scale_train k b)
  = order_impl ROps eps cy mt m a b.
Proof.
  intros Hk He Va Vb.
  rewrite (order_impl_any eps cy (k * mt) (k * m) _ _ (k * ts) (k * te)
             (vtrain_scale k ts te a Hk Va) (vtrain_scale k ts te b Hk Vb)).
  rewrite (order_impl_any eps cy mt m a b ts te Va Vb).
  rewrite (rcn_if_scale cy eps k ts te a Hk He Va), (rcn_if_scale cy eps k ts te b Hk He Vb).
  rewrite (os_D_scale k mt m _ _ Hk), !len_scale. reflexivity.
Qed.

(* ------------------------------------------------------------------ *)
(* 3. time shift                                                        *)

Theorem isi_multi_shift : forall eps cy m iv c l ts te,
  Forall (vtrain ts te) l -> iv_ok ts te iv ->
  isi_distance_multi ROps eps cy false m (shift_iv c iv) (map (shift_train c) l) None
  = isi_distance_multi ROps eps cy false m iv l None.
Proof.
  intros eps cy m iv c l ts te HF Hiv. unfold isi_distance_multi.
  apply distance_multi_gen_map. intros a b Ha Hb.
  apply (isi_distance_shift_iv eps cy m iv c a b ts te
           (Forall_In_v ts te l a HF Ha) (Forall_In_v ts te l b HF Hb) Hiv).
Qed.

Theorem spike_multi_shift : forall eps cy m ri iv c l ts te,
  Forall (vtrain ts te) l -> iv_ok ts te iv ->
  spike_distance_multi ROps eps cy false m ri (shift_iv c iv) (map (shift_train c) l) None
  = spike_distance_multi ROps eps cy false m ri iv l None.
Proof.
  intros eps cy m ri iv c l ts te HF Hiv. unfold spike_distance_multi.
  apply distance_multi_gen_map. intros a b Ha Hb.
  apply (spike_distance_shift_iv eps cy m ri iv c a b ts te
           (Forall_In_v ts te l a HF Ha) (Forall_In_v ts te l b HF Hb) Hiv).
Qed.

(* [iv_ok] is not needed for SPIKE-Sync (nor is it for the two-train statement); it is
   kept so that the four statements have the same shape *)
Theorem sync_multi_shift : forall eps cy mt m iv c l ts te,
  Forall (vtrain ts te) l -> iv_ok ts te iv ->
  spike_sync_multi ROps eps cy false mt m (shift_iv c iv) (map (shift_train c) l) None
  = spike_sync_multi ROps eps cy false mt m iv l None.
Proof.
  intros eps cy mt m iv c l ts te HF _. rewrite !spike_sync_multi_pfold. f_equal.
  apply pfold_map. intros a b Ha Hb.
  apply (sync_values_shift eps cy mt m iv c a b ts te
           (Forall_In_v ts te l a HF Ha) (Forall_In_v ts te l b HF Hb)).
Qed.

(* every eps, both backends, normalised or not *)
Theorem order_multi_shift : forall eps cy nrm mt m c l ts te,
  Forall (vtrain ts te) l ->
  spike_train_order_multi ROps eps cy false nrm mt m (map (shift_train c) l) None
  = spike_train_order_multi ROps eps cy false nrm mt m l None.
Proof.
  intros eps cy nrm mt m c l ts te HF. rewrite !spike_train_order_multi_pfold. f_equal.
  apply pfold_map. intros a b Ha Hb.
  apply (order_impl_shift eps cy mt m c a b ts te
           (Forall_In_v ts te l a HF Ha) (Forall_In_v ts te l b HF Hb)).
Qed.

(* ------------------------------------------------------------------ *)
(* 4. positive time scaling                                             *)

Theorem isi_multi_scale : forall eps cy m iv k l ts te, 0 < k ->
  Forall (vtrain ts te) l -> iv_ok ts te iv ->
  isi_distance_multi ROps eps cy false (k * m) (scale_iv k iv) (map (scale_train k) l) None
  = isi_distance_multi ROps eps cy false m iv l None.
Proof.
  intros eps cy m iv k l ts te Hk HF Hiv. unfold isi_distance_multi.
  apply distance_multi_gen_map. intros a b Ha Hb.
  apply (isi_distance_scale_iv eps cy m iv k a b ts te Hk
           (Forall_In_v ts te l a HF Ha) (Forall_In_v ts te l b HF Hb) Hiv).
Qed.

Theorem spike_multi_scale : forall eps cy m ri iv k l ts te, 0 < k ->
  Forall (vtrain ts te) l -> iv_ok ts te iv ->
  spike_distance_multi ROps eps cy false (k * m) ri (scale_iv k iv) (map (scale_train k) l) None
  = spike_distance_multi ROps eps cy false m ri iv l None.
Proof.
  intros eps cy m ri iv k l ts te Hk HF Hiv. unfold spike_distance_multi.
  apply distance_multi_gen_map. intros a b Ha Hb.
  apply (spike_distance_scale_iv eps cy m ri iv k a b ts te Hk
           (Forall_In_v ts te l a HF Ha) (Forall_In_v ts te l b HF Hb) Hiv).
Qed.

Theorem sync_multi_scale : forall eps cy mt m iv k l ts te, 0 < k ->
  Forall (vtrain ts te) l -> iv_ok ts te iv ->
  spike_sync_multi ROps eps cy false (k * mt) (k * m) (scale_iv k iv) (map (scale_train k) l) None
  = spike_sync_multi ROps eps cy false mt m iv l None.
Proof.
  intros eps cy mt m iv k l ts te Hk HF _. rewrite !spike_sync_multi_pfold. f_equal.
  apply pfold_map. intros a b Ha Hb.
  apply (sync_values_scale eps cy mt m iv k a b ts te Hk
           (Forall_In_v ts te l a HF Ha) (Forall_In_v ts te l b HF Hb)).
Qed.

(* the fall-back path reconciles every pair with the absolute tolerance eps, which is not
   scaled: [cy = true \/ 0 <= eps] as in Lem_API3.order_value_scale (eps = 1e-6 in the
   library); it cannot be dropped, see [order_multi_scale_fails_negative_eps] below *)
Theorem order_multi_scale : forall eps cy nrm mt m k l ts te, 0 < k -> cy = true \/ 0 <= eps ->
  Forall (vtrain ts te) l ->
  spike_train_order_multi ROps eps cy false nrm (k * mt) (k * m) (map (scale_train k) l) None
  = spike_train_order_multi ROps eps cy false nrm mt m l None.
Proof.
  intros eps cy nrm mt m k l ts te Hk He HF. rewrite !spike_train_order_multi_pfold. f_equal.
  apply pfold_map. intros a b Ha Hb.
  apply (order_impl_scale eps cy mt m k a b ts te Hk He
           (Forall_In_v ts te l a HF Ha) (Forall_In_v ts te l b HF Hb)).
Qed.

(* ------------------------------------------------------------------ *)
(* 5. time reversal about the recording (whole recording, iv = None)    *)

Lemma sync_values_mirror eps cy mt m (a b : trainR) ts te :
  vtrain ts te a -> vtrain ts te b ->
  spike_sync_values ROps eps cy mt m None (mirror_tr a) (mirror_tr b)
  = spike_sync_values ROps eps cy mt m None a b.
Proof.
  intros Va Vb.
  rewrite (@sync_values_are_profile_sums eps cy mt m None _ _ _ _
             (vtrain_mirror ts te a Va) (vtrain_mirror ts te b Vb)).
  rewrite (@sync_values_are_profile_sums eps cy mt m None _ _ _ _ Va Vb).
  unfold spike_sync_profile_bi. rewrite !prep2_false, !gt_of_eq.
  rewrite (spikes_mirror ts te a Va), (spikes_mirror ts te b Vb).
  pose proof (vtrain_mirror ts te a Va) as (_ & Hs' & He'). rewrite Hs', He'.
  pose proof Va as (V1 & Hs & He). pose proof Vb as (V2 & _ & _). rewrite Hs, He.
  rewrite (Lem_Transform2.sync_profile_mirror _ _ ts te mt m V1 V2).
  apply df_integral_none_mirror.
Qed.

(* sign change of the first component of a (value, multiplicity) pair *)
Definition negf (d : R * R) : R * R := (- fst d, snd d).

Lemma order_impl_mirror eps cy mt m (a b : trainR) ts te :
  vtrain ts te a -> vtrain ts te b ->
  order_impl ROps eps cy mt m (mirror_tr a) (mirror_tr b)
  = rmap negf (order_impl ROps eps cy mt m a b).
Proof.
  intros Va Vb.
  rewrite (order_impl_any eps cy mt m _ _ ts te
             (vtrain_mirror ts te a Va) (vtrain_mirror ts te b Vb)).
  rewrite (order_impl_any eps cy mt m a b ts te Va Vb). cbn [rmap]. unfold negf. cbn [fst snd].
  rewrite !rcn_if_mirror, !len_mirror.
  rewrite (os_D_mirror mt m ts te _ _ (vtrain_rcn_if cy eps ts te a Va) (vtrain_rcn_if cy eps ts te b Vb)).
  f_equal. f_equal. ring.
Qed.

Lemma pstep_negf (f f' : trainR -> trainR -> res (R * R)) (g : trainR -> trainR) l acc p :
  (fst p < length l)%nat -> (snd p < length l)%nat ->
  (forall a b, In a l -> In b l -> f' (g a) (g b) = rmap negf (f a b)) ->
  pstep f' (map g l) (rmap negf acc) p = rmap negf (pstep f l acc p).
Proof.
  intros H1 H2 H. unfold pstep.
  rewrite !nth_train_map by assumption.
  rewrite H by (apply nth_train_In; assumption).
  destruct acc as [[c mp]|e]; cbn [rmap rbind]; [|reflexivity].
  destruct (f (nth_train ROps l (fst p)) (nth_train ROps l (snd p))) as [[c' mp']|e'];
    cbn [rmap]; [|reflexivity].
  unfold negf. cbn [fst snd nadd ROps]. f_equal. f_equal. ring.
Qed.

Lemma pfold_map_negf (f f' : trainR -> trainR -> res (R * R)) (g : trainR -> trainR) l :
  (forall a b, In a l -> In b l -> f' (g a) (g b) = rmap negf (f a b)) ->
  pfold f' (map g l) = rmap negf (pfold f l).
Proof.
  intros H. unfold pfold. rewrite map_length.
  assert (G : forall ps acc,
            (forall p, In p ps -> (fst p < length l)%nat /\ (snd p < length l)%nat) ->
            fold_left (pstep f' (map g l)) ps (rmap negf acc)
            = rmap negf (fold_left (pstep f l) ps acc)).
  { induction ps as [|p ps IH]; intros acc Hps; cbn [fold_left]; [reflexivity|].
    destruct (Hps p (or_introl eq_refl)) as [H1 H2].
    rewrite (pstep_negf f f' g l acc p H1 H2 H).
    apply IH. intros q Hq. apply Hps. right; exact Hq. }
  replace (Ok (n0 ROps, n0 ROps)) with (rmap negf (Ok (n0 ROps, n0 ROps))) at 1.
  - apply G. intros p Hp. apply Lem_Multi.in_pairs_seq. exact Hp.
  - cbn [rmap]. unfold negf. cbn [fst snd n0 ROps]. f_equal. f_equal. ring.
Qed.

Theorem isi_multi_mirror : forall eps cy m l ts te, Forall (vtrain ts te) l ->
  isi_distance_multi ROps eps cy false m None (map mirror_tr l) None
  = isi_distance_multi ROps eps cy false m None l None.
Proof.
  intros eps cy m l ts te HF. unfold isi_distance_multi.
  apply distance_multi_gen_map. intros a b Ha Hb.
  apply (isi_distance_mirror eps cy m a b ts te
           (Forall_In_v ts te l a HF Ha) (Forall_In_v ts te l b HF Hb)).
Qed.

Theorem spike_multi_mirror : forall eps cy m ri l ts te, Forall (vtrain ts te) l ->
  spike_distance_multi ROps eps cy false m ri None (map mirror_tr l) None
  = spike_distance_multi ROps eps cy false m ri None l None.
Proof.
  intros eps cy m ri l ts te HF. unfold spike_distance_multi.
  apply distance_multi_gen_map. intros a b Ha Hb.
  apply (spike_distance_mirror eps cy m ri a b ts te
           (Forall_In_v ts te l a HF Ha) (Forall_In_v ts te l b HF Hb)).
Qed.

Theorem sync_multi_mirror : forall eps cy mt m l ts te, Forall (vtrain ts te) l ->
  spike_sync_multi ROps eps cy false mt m None (map mirror_tr l) None
  = spike_sync_multi ROps eps cy false mt m None l None.
Proof.
  intros eps cy mt m l ts te HF. rewrite !spike_sync_multi_pfold. f_equal.
  apply pfold_map. intros a b Ha Hb.
  apply (sync_values_mirror eps cy mt m a b ts te
           (Forall_In_v ts te l a HF Ha) (Forall_In_v ts te l b HF Hb)).
Qed.

Lemma pfold_order_mirror eps cy mt m l ts te : Forall (vtrain ts te) l ->
  pfold (order_impl ROps eps cy mt m) (map mirror_tr l)
  = rmap negf (pfold (order_impl ROps eps cy mt m) l).
Proof.
  intros HF. apply pfold_map_negf. intros a b Ha Hb.
  apply (order_impl_mirror eps cy mt m a b ts te
           (Forall_In_v ts te l a HF Ha) (Forall_In_v ts te l b HF Hb)).
Qed.

(* un-normalised spike train order changes sign: every eps, both backends, every list *)
Theorem order_multi_mirror : forall eps cy mt m l ts te, Forall (vtrain ts te) l ->
  spike_train_order_multi ROps eps cy false false mt m (map mirror_tr l) None
  = rmap Ropp (spike_train_order_multi ROps eps cy false false mt m l None).
Proof.
  intros eps cy mt m l ts te HF. rewrite !spike_train_order_multi_pfold.
  rewrite (pfold_order_mirror eps cy mt m l ts te HF).
  destruct (pfold (order_impl ROps eps cy mt m) l) as [[c mp]|e]; reflexivity.
Qed.

(* ------------------------------------------------------------------ *)
(* 6. normalised spike train order under time reversal                  *)

(* the accumulated multiplicity dominates every pair's multiplicity *)
Lemma pfold_snd_ge (f : trainR -> trainR -> res (R * R)) (l : list trainR) : forall ps a,
  (forall p, In p ps -> exists d, f (nth_train ROps l (fst p)) (nth_train ROps l (snd p)) = Ok d
                                  /\ 0 <= snd d) ->
  exists r, fold_left (pstep f l) ps (Ok a) = Ok r /\ snd a <= snd r /\
    (forall p d, In p ps -> f (nth_train ROps l (fst p)) (nth_train ROps l (snd p)) = Ok d ->
                 snd a + snd d <= snd r).
Proof.
  induction ps as [|p ps IH]; intros a H; cbn [fold_left].
  - exists a. split; [reflexivity|]. split; [lra|]. intros p d [].
  - destruct (H p (or_introl eq_refl)) as (d0 & E0 & P0).
    unfold pstep at 2. cbn [rbind]. rewrite E0. cbn [rmap].
    destruct (IH (nadd ROps (fst a) (fst d0), nadd ROps (snd a) (snd d0))
                 (fun q Hq => H q (or_intror Hq))) as (r & Er & Lr & Ar).
    cbn [fst snd nadd ROps] in Lr, Ar.
    exists r. split; [exact Er|]. split; [lra|].
    intros q d [<-|Hq] Eq.
    + rewrite E0 in Eq. injection Eq as <-. lra.
    + specialize (Ar q d Hq Eq).
      destruct (H q (or_intror Hq)) as (d' & E' & P'). rewrite Eq in E'. injection E' as <-. lra.
Qed.

Lemma in_pairs_seq_intro : forall n a i j, (a <= i)%nat -> (i < j)%nat -> (j < a + n)%nat ->
  In (i, j) (pairs_of (seq a n)).
Proof.
  induction n as [|n IH]; intros a i j H1 H2 H3; [lia|].
  cbn [seq pairs_of]. apply in_or_app.
  destruct (Nat.eq_dec i a) as [->|Hne].
  - left. apply in_map. apply in_seq. lia.
  - right. apply IH; lia.
Qed.

Lemma pfold_order_mp_pos eps cy mt m l ts te : Forall (vtrain ts te) l -> (2 <= length l)%nat ->
  (exists t, In t l /\ tr_spikes (rcn_if cy eps t) <> []) ->
  exists r, pfold (order_impl ROps eps cy mt m) l = Ok r /\ 0 < snd r.
Proof.
  intros HF H2 (t & Ht & NE). unfold pfold.
  set (f := order_impl ROps eps cy mt m).
  assert (V : forall i, (i < length l)%nat -> vtrain ts te (nth_train ROps l i)).
  { intros i Hi. apply (Forall_In_v ts te l _ HF). apply nth_train_In; exact Hi. }
  assert (T : forall p, In p (pairs_of (seq 0 (length l))) ->
              exists d, f (nth_train ROps l (fst p)) (nth_train ROps l (snd p)) = Ok d /\ 0 <= snd d).
  { intros p Hp. apply Lem_Multi.in_pairs_seq in Hp as [H1 H2'].
    eexists. split; [apply (order_impl_any eps cy mt m _ _ ts te (V _ H1) (V _ H2'))|].
    cbn [snd].
    pose proof (pos_INR (length (tr_spikes (rcn_if cy eps (nth_train ROps l (fst p)))))).
    pose proof (pos_INR (length (tr_spikes (rcn_if cy eps (nth_train ROps l (snd p)))))). lra. }
  destruct (pfold_snd_ge f l (pairs_of (seq 0 (length l))) (n0 ROps, n0 ROps) T)
    as (r & Er & _ & Ar).
  exists r. split; [exact Er|]. cbn [snd n0 ROps] in Ar.
  assert (L : 0 < INR (length (tr_spikes (rcn_if cy eps t)))).
  { destruct (tr_spikes (rcn_if cy eps t)) as [|x s]; [congruence|].
    apply lt_0_INR. cbn [length]. lia. }
  destruct (In_nth l t ([], n0 ROps, n0 ROps) Ht) as (i & Hi & Ei).
  fold (nth_train ROps l i) in Ei.
  (* a pair that contains the index i *)
  assert (P : exists p, In p (pairs_of (seq 0 (length l))) /\ (fst p = i \/ snd p = i)).
  { destruct i as [|i].
    - exists (0%nat, 1%nat). split; [apply in_pairs_seq_intro; lia | left; reflexivity].
    - exists (0%nat, S i). split; [apply in_pairs_seq_intro; lia | right; reflexivity]. }
  destruct P as (p & Hp & Hpi).
  pose proof (Lem_Multi.in_pairs_seq _ _ Hp) as [H1 H2'].
  specialize (Ar p _ Hp (order_impl_any eps cy mt m _ _ ts te (V _ H1) (V _ H2'))).
  cbn [snd] in Ar.
  pose proof (pos_INR (length (tr_spikes (rcn_if cy eps (nth_train ROps l (fst p)))))) as P1.
  pose proof (pos_INR (length (tr_spikes (rcn_if cy eps (nth_train ROps l (snd p)))))) as P2.
  destruct Hpi as [E|E]; rewrite E, Ei in *; lra.
Qed.

(* normalised: sign change as soon as the list has two trains and one spike survives the
   (fall-back path's) reconcile step; otherwise both orientations give +1 by convention,
   see [order_multi_mirror_norm_fails] *)
Theorem order_multi_mirror_norm_gen : forall eps cy mt m l ts te,
  Forall (vtrain ts te) l -> (2 <= length l)%nat ->
  (exists t, In t l /\ tr_spikes (rcn_if cy eps t) <> []) ->
  spike_train_order_multi ROps eps cy false true mt m (map mirror_tr l) None
  = rmap Ropp (spike_train_order_multi ROps eps cy false true mt m l None).
Proof.
  intros eps cy mt m l ts te HF H2 NE. rewrite !spike_train_order_multi_pfold.
  rewrite (pfold_order_mirror eps cy mt m l ts te HF).
  destruct (pfold_order_mp_pos eps cy mt m l ts te HF H2 NE) as ([c mp] & -> & Hp).
  cbn [rmap snd] in *. f_equal. unfold negf. cbn [fst snd].
  apply ord_fin_opp_true. lra.
Qed.

Theorem order_multi_mirror_norm : forall eps cy mt m l ts te, cy = true \/ 0 < eps ->
  Forall (vtrain ts te) l -> (2 <= length l)%nat ->
  (exists t, In t l /\ tr_spikes t <> []) ->
  spike_train_order_multi ROps eps cy false true mt m (map mirror_tr l) None
  = rmap Ropp (spike_train_order_multi ROps eps cy false true mt m l None).
Proof.
  intros eps cy mt m l ts te He HF H2 (t & Ht & NE).
  apply (order_multi_mirror_norm_gen eps cy mt m l ts te HF H2).
  exists t. split; [exact Ht|].
  destruct cy; [exact NE|]. destruct He as [He|He]; [discriminate|].
  unfold rcn_if. rewrite (rcn_id eps ts te t He (Forall_In_v ts te l t HF Ht)). exact NE.
Qed.

(* ------------------------------------------------------------------ *)
(* 7. the added hypotheses are needed                                   *)

(* a list of two trains is the two-train entry point *)
Lemma order_multi_two eps cy nrm mt m (a b : trainR) :
  spike_train_order_multi ROps eps cy false nrm mt m [a; b] None
  = spike_train_order_bi ROps eps cy false nrm mt m a b.
Proof.
  rewrite spike_train_order_multi_pfold. unfold pfold, pstep.
  cbn [length seq pairs_of map app fold_left rbind fst snd]. unfold nth_train. cbn [nth].
  unfold spike_train_order_bi. rewrite prep2_false.
  destruct (order_impl ROps eps cy mt m a b) as [[c mp]|e]; cbn [rmap]; [|reflexivity].
  f_equal. unfold ord_fin. cbn [fst snd nadd n0 ROps]. rewrite !Rplus_0_l. reflexivity.
Qed.

(* fall-back path, negative tolerance: the scaling statement fails (witness of Lem_API3) *)
Theorem order_multi_scale_fails_negative_eps :
  exists eps k (l : list trainR) ts te, eps < 0 /\ 0 < k /\ Forall (vtrain ts te) l /\
    spike_train_order_multi ROps eps false false false (k * 0) (k * 0) (map (scale_train k) l) None
    <> spike_train_order_multi ROps eps false false false 0 0 l None.
Proof.
  destruct order_value_scale_fails_negative_eps as (eps & k & a & b & ts & te & He & Hk & Va & Vb & N).
  exists eps, k, [a; b], ts, te. split; [exact He|]. split; [exact Hk|].
  split; [constructor; [exact Va | constructor; [exact Vb | constructor]]|].
  cbn [map]. rewrite !order_multi_two. exact N.
Qed.

(* fewer than two trains: no pair, the normalised order is +1 in both orientations, so
   [2 <= length l] cannot be dropped from [order_multi_mirror_norm] *)
Theorem order_multi_norm_short : forall eps cy mt m (l : list trainR), (length l < 2)%nat ->
  spike_train_order_multi ROps eps cy false true mt m l None = Ok 1 /\
  spike_train_order_multi ROps eps cy false true mt m (map mirror_tr l) None = Ok 1.
Proof.
  intros eps cy mt m l H.
  assert (Z : ord_fin true (n0 ROps, n0 ROps) = 1).
  { unfold ord_fin. cbn [snd n0 ROps]. rewrite Lem_WF.Reqb_refl. reflexivity. }
  rewrite !spike_train_order_multi_pfold. unfold pfold. rewrite map_length.
  destruct l as [|a [|b l]]; [| |cbn [length] in H; lia];
    cbn [length seq pairs_of map app fold_left rmap]; rewrite Z; split; reflexivity.
Qed.

Corollary order_multi_mirror_norm_fails_short : forall eps cy mt m (l : list trainR),
  (length l < 2)%nat ->
  spike_train_order_multi ROps eps cy false true mt m (map mirror_tr l) None
  <> rmap Ropp (spike_train_order_multi ROps eps cy false true mt m l None).
Proof.
  intros eps cy mt m l H. destruct (order_multi_norm_short eps cy mt m l H) as [E1 E2].
  rewrite E1, E2. cbn [rmap]. intros N. injection N as N. lra.
Qed.

(* no spike survives: every pair contributes (0, 0), +1 by convention in both orientations *)
Theorem order_multi_mirror_norm_fails_without_spikes : forall eps cy mt m l ts te,
  Forall (vtrain ts te) l -> (forall t, In t l -> tr_spikes (rcn_if cy eps t) = []) ->
  spike_train_order_multi ROps eps cy false true mt m (map mirror_tr l) None
  <> rmap Ropp (spike_train_order_multi ROps eps cy false true mt m l None).
Proof.
  intros eps cy mt m l ts te HF HE.
  rewrite !spike_train_order_multi_pfold, (pfold_order_mirror eps cy mt m l ts te HF).
  assert (G : forall ps a, (forall p, In p ps -> (fst p < length l)%nat /\ (snd p < length l)%nat) ->
            exists c, fold_left (pstep (order_impl ROps eps cy mt m) l) ps (Ok a) = Ok (c, snd a)).
  { induction ps as [|p ps IH]; intros a Hps; cbn [fold_left].
    - exists (fst a). destruct a; reflexivity.
    - destruct (Hps p (or_introl eq_refl)) as [H1 H2].
      assert (V1 : vtrain ts te (nth_train ROps l (fst p)))
        by (apply (Forall_In_v ts te l _ HF), nth_train_In; exact H1).
      assert (V2 : vtrain ts te (nth_train ROps l (snd p)))
        by (apply (Forall_In_v ts te l _ HF), nth_train_In; exact H2).
      unfold pstep at 2. cbn [rbind].
      rewrite (order_impl_any eps cy mt m _ _ ts te V1 V2).
      rewrite (HE _ (nth_train_In l _ H1)), (HE _ (nth_train_In l _ H2)). cbn [rmap fst snd length INR].
      destruct (IH (nadd ROps (fst a) (2 * os_D mt m (rcn_if cy eps (nth_train ROps l (fst p)))
                                                   (rcn_if cy eps (nth_train ROps l (snd p)))),
                    nadd ROps (snd a) (0 + 0))
                   (fun q Hq => Hps q (or_intror Hq))) as (c & Ec).
      exists c. rewrite Ec. cbn [snd nadd ROps]. f_equal. f_equal. lra. }
  unfold pfold.
  destruct (G (pairs_of (seq 0 (length l))) (n0 ROps, n0 ROps)
              (fun p Hp => Lem_Multi.in_pairs_seq _ _ Hp)) as (c & ->).
  cbn [rmap snd n0 ROps]. unfold negf, ord_fin. cbn [fst snd].
  rewrite Lem_WF.Reqb_refl. intros N. injection N as N. lra.
Qed.

(* ------------------------------------------------------------------ *)
(* 8. all scalars at once                                               *)

Theorem multi_scalars_shift : forall eps cy nrm m mt ri iv c l ts te,
  Forall (vtrain ts te) l -> iv_ok ts te iv ->
  isi_distance_multi ROps eps cy false m (shift_iv c iv) (map (shift_train c) l) None
    = isi_distance_multi ROps eps cy false m iv l None /\
  spike_distance_multi ROps eps cy false m ri (shift_iv c iv) (map (shift_train c) l) None
    = spike_distance_multi ROps eps cy false m ri iv l None /\
  spike_sync_multi ROps eps cy false mt m (shift_iv c iv) (map (shift_train c) l) None
    = spike_sync_multi ROps eps cy false mt m iv l None /\
  spike_train_order_multi ROps eps cy false nrm mt m (map (shift_train c) l) None
    = spike_train_order_multi ROps eps cy false nrm mt m l None.
Proof.
  intros eps cy nrm m mt ri iv c l ts te HF Hiv.
  split; [apply (isi_multi_shift eps cy m iv c l ts te HF Hiv)|].
  split; [apply (spike_multi_shift eps cy m ri iv c l ts te HF Hiv)|].
  split; [apply (sync_multi_shift eps cy mt m iv c l ts te HF Hiv)|].
  apply (order_multi_shift eps cy nrm mt m c l ts te HF).
Qed.

Theorem multi_scalars_scale : forall eps cy nrm m mt ri iv k l ts te, 0 < k -> cy = true \/ 0 <= eps ->
  Forall (vtrain ts te) l -> iv_ok ts te iv ->
  isi_distance_multi ROps eps cy false (k * m) (scale_iv k iv) (map (scale_train k) l) None
    = isi_distance_multi ROps eps cy false m iv l None /\
  spike_distance_multi ROps eps cy false (k * m) ri (scale_iv k iv) (map (scale_train k) l) None
    = spike_distance_multi ROps eps cy false m ri iv l None /\
  spike_sync_multi ROps eps cy false (k * mt) (k * m) (scale_iv k iv) (map (scale_train k) l) None
    = spike_sync_multi ROps eps cy false mt m iv l None /\
  spike_train_order_multi ROps eps cy false nrm (k * mt) (k * m) (map (scale_train k) l) None
    = spike_train_order_multi ROps eps cy false nrm mt m l None.
Proof.
  intros eps cy nrm m mt ri iv k l ts te Hk He HF Hiv.
  split; [apply (isi_multi_scale eps cy m iv k l ts te Hk HF Hiv)|].
  split; [apply (spike_multi_scale eps cy m ri iv k l ts te Hk HF Hiv)|].
  split; [apply (sync_multi_scale eps cy mt m iv k l ts te Hk HF Hiv)|].
  apply (order_multi_scale eps cy nrm mt m k l ts te Hk He HF).
Qed.

Theorem multi_scalars_mirror : forall eps cy m mt ri l ts te, Forall (vtrain ts te) l ->
  isi_distance_multi ROps eps cy false m None (map mirror_tr l) None
    = isi_distance_multi ROps eps cy false m None l None /\
  spike_distance_multi ROps eps cy false m ri None (map mirror_tr l) None
    = spike_distance_multi ROps eps cy false m ri None l None /\
  spike_sync_multi ROps eps cy false mt m None (map mirror_tr l) None
    = spike_sync_multi ROps eps cy false mt m None l None /\
  spike_train_order_multi ROps eps cy false false mt m (map mirror_tr l) None
    = rmap Ropp (spike_train_order_multi ROps eps cy false false mt m l None).
Proof.
  intros eps cy m mt ri l ts te HF.
  split; [apply (isi_multi_mirror eps cy m l ts te HF)|].
  split; [apply (spike_multi_mirror eps cy m ri l ts te HF)|].
  split; [apply (sync_multi_mirror eps cy mt m l ts te HF)|].
  apply (order_multi_mirror eps cy mt m l ts te HF).
Qed.

(* ------------------------------------------------------------------ *)
(* 9. non-vacuity: three valid trains on [0, 10]                        *)

Definition ex_c : trainR := ([3; 4; 9], 0, 10).
Definition ex_l : list trainR := [ex_a; ex_b; ex_c].

Lemma ex_c_vtrain : vtrain 0 10 ex_c.
Proof.
  unfold vtrain, ex_c, valid. cbn [tr_spikes tr_start tr_end fst snd].
  repeat split; try lra; repeat constructor; lra.
Qed.

Example ex_l_hypotheses :
  Forall (vtrain 0 10) ex_l /\ iv_ok 0 10 (Some (1, 9)) /\ iv_ok 0 10 None /\
  (2 <= length ex_l)%nat /\ (exists t, In t ex_l /\ tr_spikes t <> []) /\
  0 < 3 /\ (false = true \/ 0 < 1 / 1000000).
Proof.
  split; [constructor; [apply ex_a_vtrain | constructor; [apply ex_b_vtrain | constructor; [apply ex_c_vtrain | constructor]]]|].
  split; [apply ex_iv_ok|]. split; [exact I|]. split; [cbn [ex_l length]; lia|].
  split; [exists ex_a; split; [left; reflexivity | discriminate]|].
  split; [lra | right; lra].
Qed.

Example ex_l_instances :
  isi_distance_multi ROps (1 / 1000000) false false 0 (shift_iv 3 (Some (1, 9))) (map (shift_train 3) ex_l) None
    = isi_distance_multi ROps (1 / 1000000) false false 0 (Some (1, 9)) ex_l None /\
  spike_sync_multi ROps (1 / 1000000) true false (3 * 0) (3 * 0) (scale_iv 3 (Some (1, 9)))
                   (map (scale_train 3) ex_l) None
    = spike_sync_multi ROps (1 / 1000000) true false 0 0 (Some (1, 9)) ex_l None /\
  spike_train_order_multi ROps (1 / 1000000) false false true 0 0 (map mirror_tr ex_l) None
    = rmap Ropp (spike_train_order_multi ROps (1 / 1000000) false false true 0 0 ex_l None).
Proof.
  destruct ex_l_hypotheses as (HF & Hiv & _ & H2 & NE & H3 & He).
  split; [apply (isi_multi_shift _ _ _ _ 3 ex_l 0 10 HF Hiv)|].
  split; [apply (sync_multi_scale _ _ _ _ _ 3 ex_l 0 10 H3 HF Hiv)|].
  apply (order_multi_mirror_norm _ _ _ _ ex_l 0 10 He HF H2 NE).
Qed.

(* the same three trains on the Q instance (1e-6 tolerance): the values are not trivial *)
From Coq Require Import QArith.
Local Close Scope Q_scope.
Local Open Scope R_scope.

Definition qx_l : list (list Q * Q * Q) :=
  [([1; 5], 0, 10); ([2; 7], 0, 10); ([3; 4; 9], 0, 10)]%Q.
Definition qx_shift (c : Q) (t : list Q * Q * Q) : list Q * Q * Q :=
  (map (fun x => x + c)%Q (tr_spikes t), (tr_start t + c)%Q, (tr_end t + c)%Q).
Definition qx_scale (k : Q) (t : list Q * Q * Q) : list Q * Q * Q :=
  (map (Qmult k) (tr_spikes t), (k * tr_start t)%Q, (k * tr_end t)%Q).
Definition qx_mirror (t : list Q * Q * Q) : list Q * Q * Q :=
  (rev (map (fun x => tr_start t + tr_end t - x)%Q (tr_spikes t)), tr_start t, tr_end t).
Definition qx_red (r : res Q) : res Q := rmap Qred r.
Definition qx_eps : Q := (1 # 1000000)%Q.

Example ex_l_Q :
  qx_red (isi_distance_multi QOps qx_eps true false 0%Q (Some (1, 9)%Q) qx_l None) = Ok (77 # 480)%Q /\
  qx_red (isi_distance_multi QOps qx_eps true false 0%Q (Some (1 + 3, 9 + 3)%Q)
                             (map (qx_shift 3) qx_l) None) = Ok (77 # 480)%Q /\
  qx_red (isi_distance_multi QOps qx_eps false false (2 * 0)%Q (Some (2 * 1, 2 * 9)%Q)
                             (map (qx_scale 2) qx_l) None) = Ok (77 # 480)%Q /\
  qx_red (spike_sync_multi QOps qx_eps false false 0%Q 0%Q None qx_l None) = Ok (2 # 7)%Q /\
  qx_red (spike_sync_multi QOps qx_eps false false 0%Q 0%Q None (map qx_mirror qx_l) None) = Ok (2 # 7)%Q /\
  qx_red (spike_train_order_multi QOps qx_eps false false false 0%Q 0%Q qx_l None) = Ok 4%Q /\
  qx_red (spike_train_order_multi QOps qx_eps false false false 0%Q 0%Q (map qx_mirror qx_l) None)
    = Ok (-4)%Q /\
  qx_red (spike_train_order_multi QOps qx_eps true false true 0%Q 0%Q qx_l None) = Ok (2 # 7)%Q /\
  qx_red (spike_train_order_multi QOps qx_eps true false true 0%Q 0%Q (map qx_mirror qx_l) None)
    = Ok (-2 # 7)%Q.
Proof. vm_compute. repeat split. Qed.

(* ------------------------------------------------------------------ *)
Print Assumptions isi_multi_shift.
Print Assumptions spike_multi_shift.
Print Assumptions sync_multi_shift.
Print Assumptions order_multi_shift.
Print Assumptions isi_multi_scale.
Print Assumptions spike_multi_scale.
Print Assumptions sync_multi_scale.
Print Assumptions order_multi_scale.
Print Assumptions isi_multi_mirror.
Print Assumptions spike_multi_mirror.
Print Assumptions sync_multi_mirror.
Print Assumptions order_multi_mirror.
Print Assumptions order_multi_mirror_norm_gen.
Print Assumptions order_multi_mirror_norm.
Print Assumptions order_multi_scale_fails_negative_eps.
Print Assumptions order_multi_norm_short.
Print Assumptions order_multi_mirror_norm_fails_short.
Print Assumptions order_multi_mirror_norm_fails_without_spikes.
Print Assumptions multi_scalars_shift.
Print Assumptions multi_scalars_scale.
Print Assumptions multi_scalars_mirror.
Print Assumptions ex_l_instances.
Print Assumptions ex_l_Q.
