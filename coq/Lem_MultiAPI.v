(* Lem_MultiAPI.v — properties C06 / C05 (multivariate part) at the level of the
   API entry points: the multivariate ISI profile is pointwise the mean of the
   pair profiles, the multivariate scalar is the average of the multivariate
   profile, permutation invariance, matrix entries, and the summed events of
   the multivariate SPIKE-Sync profile. *)

From Coq Require Import List Bool Arith ZArith Reals Lra Lia Sorted Permutation.
Import ListNotations.
From PS Require Import Num RLemmas Valid ModelKernels ModelFuncs ModelAPI Spec SyncDefs.
From PS Require Import Lem_Pwc Lem_Multi Lem_IsiProps.
From PS Require Lem_Df Lem_Sync Lem_Tau Lem_Pwl.
Local Open Scope R_scope.

(* ------------------------------------------------------------------ *)
(* A. linearity of the exact integral over [a,b]                        *)

Lemma overlap_add_map (F G : R * R -> R) bs a b : forall P,
  pwc_overlap ROps bs (map (fun q => F q + G q) P) a b =
  pwc_overlap ROps bs (map F P) a b + pwc_overlap ROps bs (map G P) a b.
Proof.
  induction bs as [|x0 bs IH]; intros P; [cbn; lra|].
  destruct bs as [|x1 r]; [cbn; lra|]. destruct P as [|q P]; [cbn; lra|].
  cbn [map]. rewrite !overlap_cons2, IH.
  destruct (Rltb (Rmax a x0) (Rmin b x1)); ring.
Qed.

Lemma seg_split y a b p q r : p < q -> q < r ->
  (if Rltb (Rmax a p) (Rmin b q) then y * (Rmin b q - Rmax a p) else 0)
  + (if Rltb (Rmax a q) (Rmin b r) then y * (Rmin b r - Rmax a q) else 0)
  = (if Rltb (Rmax a p) (Rmin b r) then y * (Rmin b r - Rmax a p) else 0).
Proof. intros Hpq Hqr. segt. Qed.

(* sampling a function on a refinement of its breakpoints keeps the overlap integral *)
Lemma refine_overlap : forall bs' b0 xs' ys a b,
  ssorted (b0 :: bs') -> ssorted (b0 :: xs') -> length xs' = length ys ->
  incl xs' bs' -> (forall z, In z bs' -> z <= lastF ROps (b0 :: xs')) ->
  pwc_overlap ROps (b0 :: bs')
    (map (fun q => optval (pwc_at ROps (b0 :: xs') ys (mid ROps q))) (pieces (b0 :: bs'))) a b
  = pwc_overlap ROps (b0 :: xs') ys a b.
Proof.
  induction bs' as [|b1 bs IH]; intros b0 xs' ys a b Hb Hx Hlen Hincl Hlast.
  - destruct xs' as [|x1 xr]; [|exfalso; apply (Hincl x1); left; auto].
    destruct ys; [reflexivity|discriminate].
  - assert (H01 : b0 < b1) by (apply ssorted_cons_inv in Hb as [_ F]; inversion F; auto).
    pose proof (ssorted_tl _ _ Hb) as Hb1.
    pose proof (ssorted_hd_le _ _ Hb1) as Hge. rewrite Forall_forall in Hge.
    destruct xs' as [|x1 xr].
    { exfalso. specialize (Hlast b1 (or_introl eq_refl)). rewrite lastF_one in Hlast. lra. }
    destruct ys as [|y ys]; [discriminate|]. cbn [length] in Hlen.
    pose proof (ssorted_tl _ _ Hx) as Hx1.
    assert (H0x : b0 < x1) by (apply ssorted_cons_inv in Hx as [_ F]; inversion F; auto).
    pose proof (ssorted_hd_le _ _ Hx1) as Hgx. rewrite Forall_forall in Hgx.
    assert (Hb1x : b1 <= x1) by (apply Hge, Hincl; left; auto).
    pose proof (mid_between b0 b1 H01) as Hm.
    rewrite pieces_cons2. cbn [map]. rewrite !overlap_cons2.
    rewrite pwc_at_first by lra. cbn [optval].
    rewrite lastF_cons2 in Hlast.
    destruct (Req_dec b1 x1) as [E|N].
    + subst x1.
      rewrite (map_ext_in _ (fun q => optval (pwc_at ROps (b1 :: xr) ys (mid ROps q)))).
      2:{ intros q Hq. pose proof (pieces_mid_gt b1 _ q Hb1 Hq).
          rewrite pwc_at_skip by lra. reflexivity. }
      rewrite (IH b1 xr ys a b Hb1 Hx1).
      * reflexivity.
      * lia.
      * intros z Hz. assert (Hz' : In z (b1 :: bs)) by (apply Hincl; right; auto).
        destruct Hz' as [<-|]; auto. exfalso.
        apply ssorted_cons_inv in Hx1 as [_ F]. rewrite Forall_forall in F. apply F in Hz. lra.
      * intros z Hz. apply Hlast. right; auto.
    + assert (Hlt : b1 < x1) by lra.
      assert (Hx' : ssorted (b1 :: x1 :: xr)) by (apply Lem_Pwc.ssorted_cons_lt; auto).
      rewrite (map_ext_in _ (fun q => optval (pwc_at ROps (b1 :: x1 :: xr) (y :: ys) (mid ROps q)))).
      2:{ intros q Hq. pose proof (pieces_mid_gt b1 _ q Hb1 Hq).
          rewrite (pwc_at_rehead b0 b1) by lra. reflexivity. }
      rewrite (IH b1 (x1 :: xr) (y :: ys) a b Hb1 Hx').
      * rewrite overlap_cons2. rewrite <- (seg_split y a b b0 b1 x1 H01 Hlt). ring.
      * cbn [length]. lia.
      * intros z Hz. assert (Hz' : In z (b1 :: bs)) by (apply Hincl; auto).
        destruct Hz' as [<-|]; auto. exfalso. apply Hgx in Hz. lra.
      * intros z Hz. rewrite lastF_cons2. apply Hlast. right; auto.
Qed.

Lemma refine_overlap_wf f B a b : wf_pwc f -> ssorted B -> incl (fst f) B ->
  (forall z, In z B -> nthF ROps (fst f) 0 <= z <= lastF ROps (fst f)) ->
  pwc_overlap ROps B (map (fun q => optval (pwc_at ROps (fst f) (snd f) (mid ROps q))) (pieces B)) a b
  = pwc_overlap ROps (fst f) (snd f) a b.
Proof.
  destruct f as [xs ys]. intros [[Hs Hl] Hlen] HsB Hincl HR. cbn [fst snd] in *.
  destruct xs as [|x0 xs']; [cbn in Hl; lia|]. rewrite nthF_0 in HR.
  destruct B as [|b0 B']; [exfalso; apply (Hincl x0); left; auto|].
  assert (b0 = x0).
  { pose proof (HR b0 (or_introl eq_refl)) as [Hb _].
    destruct (Hincl x0 (or_introl eq_refl)) as [|Hin]; auto.
    apply ssorted_cons_inv in HsB as [_ F]. rewrite Forall_forall in F. apply F in Hin. lra. }
  subst b0. apply refine_overlap; auto.
  - intros z Hz. assert (Hz' : In z (x0 :: B')) by (apply Hincl; right; auto).
    destruct Hz' as [<-|]; auto. exfalso.
    apply ssorted_cons_inv in Hs as [_ F]. rewrite Forall_forall in F. apply F in Hz. lra.
  - intros z Hz. apply HR. right; auto.
Qed.

(* the integral over [a,b] of the pointwise sum (the three range hypotheses on
   a and b are not needed by the proof; they are kept as in the task) *)
Theorem pwc_overlap_add : forall f g a b, wf_pwc f -> wf_pwc g ->
  nthF ROps (fst f) 0 = nthF ROps (fst g) 0 -> lastF ROps (fst f) = lastF ROps (fst g) ->
  nthF ROps (fst f) 0 <= a -> a <= b -> b <= lastF ROps (fst f) ->
  pwc_overlap ROps (fst (pwc_add_spec ROps f g)) (snd (pwc_add_spec ROps f g)) a b =
  pwc_overlap ROps (fst f) (snd f) a b + pwc_overlap ROps (fst g) (snd g) a b.
Proof.
  intros f g a b Hf Hg E0 EL _ _ _. rewrite pwc_add_spec_unfold. cbn [fst snd].
  set (B := sort_unique ROps (fst f ++ fst g)).
  assert (HsB : ssorted B) by apply Lem_Pwc.sort_unique_sorted.
  pose proof (wf_in_range f Hf) as Rf. pose proof (wf_in_range g Hg) as Rg.
  assert (RB : forall z, In z B -> nthF ROps (fst f) 0 <= z <= lastF ROps (fst f)).
  { intros z Hz. unfold B in Hz. apply (proj1 (Lem_Pwc.sort_unique_In _ _)) in Hz.
    apply in_app_or in Hz as [Hz|Hz]; [apply Rf; auto|]. rewrite E0, EL. apply Rg; auto. }
  rewrite (map_ext (addval f g)
             (fun q => optval (pwc_at ROps (fst f) (snd f) (mid ROps q))
                       + optval (pwc_at ROps (fst g) (snd g) (mid ROps q))))
    by (intros q; unfold addval; apply optsum_val).
  rewrite overlap_add_map. f_equal.
  - apply refine_overlap_wf; auto.
    intros z Hz. apply Lem_Pwc.sort_unique_In, in_or_app. left; auto.
  - apply refine_overlap_wf; auto.
    + intros z Hz. apply Lem_Pwc.sort_unique_In, in_or_app. right; auto.
    + intros z Hz. rewrite <- E0, <- EL. apply RB; auto.
Qed.

Lemma overlap_map_mul c xs : forall ys a b,
  pwc_overlap ROps xs (map (fun y => y * c) ys) a b = c * pwc_overlap ROps xs ys a b.
Proof.
  induction xs as [|x0 xs IH]; intros ys a b; [cbn; lra|].
  destruct xs as [|x1 r]; [cbn; lra|]. destruct ys as [|y ys]; [cbn; lra|].
  cbn [map]. rewrite !overlap_cons2, IH.
  destruct (Rltb (Rmax a x0) (Rmin b x1)); ring.
Qed.

Theorem pwc_overlap_mul : forall f c a b,
  pwc_overlap ROps (fst (pwc_mul ROps f c)) (snd (pwc_mul ROps f c)) a b
  = c * pwc_overlap ROps (fst f) (snd f) a b.
Proof. intros f c a b. unfold pwc_mul. cbn [fst snd nmul ROps]. apply overlap_map_mul. Qed.

(* ------------------------------------------------------------------ *)
(* B. profiles on a common interval [ts, te]                            *)

Definition mtrain (ts te : R) (t : @train R) : Prop :=
  valid ts te (tr_spikes t) /\ tr_start t = ts /\ tr_end t = te.

Definition goodp (ts te : R) (f : list R * list R) : Prop :=
  wf_pwc f /\ nthF ROps (fst f) 0 = ts /\ lastF ROps (fst f) = te.

(* value of a profile at a time inside a piece, 0 elsewhere *)
Definition pval (f : list R * list R) (t : R) : R :=
  match pwc_at ROps (fst f) (snd f) t with Some v => v | None => 0 end.

Lemma pval_optval f t : pval f t = optval (pwc_at ROps (fst f) (snd f) t).
Proof. reflexivity. Qed.

Lemma nthF0_hd (l : list R) : nthF ROps l 0 = hd 0 l.
Proof. destruct l; reflexivity. Qed.

Lemma goodp_lt ts te f : goodp ts te f -> ts < te.
Proof. intros (W & <- & <-). apply (wf_first_in f W). Qed.

Lemma goodp_in ts te f : goodp ts te f -> In ts (fst f) /\ In te (fst f).
Proof. intros (W & <- & <-). destruct (wf_first_in f W) as (A & B & _). auto. Qed.

Lemma goodp_range ts te f : goodp ts te f -> forall z, In z (fst f) -> ts <= z <= te.
Proof. intros (W & <- & <-). apply wf_in_range; auto. Qed.

Lemma goodp_add_spec ts te f g : goodp ts te f -> goodp ts te g ->
  goodp ts te (pwc_add_spec ROps f g).
Proof.
  intros Gf Gg. pose proof Gf as (Wf & F0 & FL). pose proof Gg as (Wg & G0 & GL).
  assert (W : wf_pwc (pwc_add_spec ROps f g)) by (apply pwc_add_wf; auto; congruence).
  pose proof (goodp_lt _ _ _ Gf) as Hlt.
  destruct (goodp_in _ _ _ Gf) as [I1 I2].
  pose proof (goodp_range _ _ _ Gf) as Rf. pose proof (goodp_range _ _ _ Gg) as Rg.
  split; [exact W|].
  rewrite pwc_add_spec_unfold in *. cbn [fst snd] in *.
  set (B := sort_unique ROps (fst f ++ fst g)) in *.
  assert (HsB : ssorted B) by apply Lem_Pwc.sort_unique_sorted.
  assert (RB : forall z, In z B -> ts <= z <= te).
  { intros z Hz. apply (proj1 (Lem_Pwc.sort_unique_In _ _)) in Hz.
    apply in_app_or in Hz as [Hz|Hz]; auto. }
  assert (Its : In ts B) by (apply Lem_Pwc.sort_unique_In, in_or_app; auto).
  assert (Ite : In te B) by (apply Lem_Pwc.sort_unique_In, in_or_app; auto).
  pose proof (ssorted_bounds B HsB) as HB. rewrite Forall_forall in HB.
  destruct W as [[_ HlB] _]. cbn [fst] in HlB.
  assert (I0 : In (nthF ROps B 0) B) by (apply nth_In; lia).
  assert (IL : In (lastF ROps B) B) by (rewrite lastF_nth; apply nth_In; lia).
  split.
  - pose proof (HB ts Its). pose proof (RB _ I0). lra.
  - pose proof (HB te Ite). pose proof (RB _ IL). lra.
Qed.

Lemma goodp_add ts te f g : goodp ts te f -> goodp ts te g ->
  pwc_add ROps f g = Ok (pwc_add_spec ROps f g).
Proof.
  intros (Wf & F0 & FL) (Wg & G0 & GL). apply pwc_add_eq_spec; auto; congruence.
Qed.

Lemma goodp_mul ts te f c : goodp ts te f -> goodp ts te (pwc_mul ROps f c).
Proof.
  intros ([Hx Hl] & F0 & FL). unfold goodp, wf_pwc, pwc_mul. cbn [fst snd].
  rewrite map_length. auto.
Qed.

(* inside the support and away from the breakpoints a profile has a value *)
Lemma pwc_at_some xs : forall ys t, ssorted xs -> length xs = S (length ys) ->
  nthF ROps xs 0 < t < lastF ROps xs -> ~ In t xs -> exists v, pwc_at ROps xs ys t = Some v.
Proof.
  induction xs as [|a xs IH]; intros ys t Hs Hl Ht Hn; [discriminate|].
  destruct xs as [|b r].
  { rewrite nthF_0, lastF_one in Ht. lra. }
  destruct ys as [|y ys]; [cbn in Hl; lia|].
  rewrite pwc_at_cons2. rewrite nthF_0 in Ht.
  destruct (Rltb_spec a t) as [_|N]; [|lra].
  destruct (Rltb_spec t b) as [H|H]; cbn [andb]; [eauto|].
  assert (b <> t) by (intros ->; apply Hn; right; left; auto).
  apply IH.
  - eapply ssorted_tl; eauto.
  - cbn [length] in *. lia.
  - rewrite nthF_0. rewrite lastF_cons2 in Ht. lra.
  - intros Hc. apply Hn. right; auto.
Qed.

Lemma goodp_at_some ts te f t : goodp ts te f -> ts < t < te -> ~ In t (fst f) ->
  pwc_at ROps (fst f) (snd f) t = Some (pval f t).
Proof.
  intros ([[Hs Hl] Hlen] & F0 & FL) Ht Hn.
  destruct (pwc_at_some (fst f) (snd f) t Hs Hlen) as (v & E); auto; [rewrite F0, FL; exact Ht|].
  unfold pval. rewrite E. reflexivity.
Qed.

(* the pure sum of a list of profiles *)
Definition sum_spec (a : list R * list R) (r : list (list R * list R)) : list R * list R :=
  fold_left (fun acc g => pwc_add_spec ROps acc g) r a.

Lemma sum_spec_good ts te : forall r a, goodp ts te a -> Forall (goodp ts te) r ->
  goodp ts te (sum_spec a r).
Proof.
  induction r as [|g r IH]; intros a Ga Gr; [exact Ga|].
  inversion Gr; subst. cbn [sum_spec fold_left]. apply IH; auto. apply goodp_add_spec; auto.
Qed.

Lemma sum_spec_in : forall r a x,
  In x (fst (sum_spec a r)) <-> In x (fst a) \/ exists g, In g r /\ In x (fst g).
Proof.
  induction r as [|g r IH]; intros a x.
  - cbn [sum_spec fold_left]. split; [auto|]. intros [H|(g & [] & _)]; auto.
  - cbn [sum_spec fold_left]. fold (sum_spec (pwc_add_spec ROps a g) r). rewrite IH.
    rewrite pwc_add_spec_unfold. cbn [fst]. rewrite Lem_Pwc.sort_unique_In, in_app_iff.
    split.
    + intros [[H|H]|(h & Hh & Hx)]; auto.
      * right. exists g. split; [left|]; auto.
      * right. exists h. split; [right|]; auto.
    + intros [H|(h & [<-|Hh] & Hx)]; auto. right. exists h. auto.
Qed.

Lemma sum_spec_breaks ts te r a : goodp ts te a -> Forall (goodp ts te) r ->
  fst (sum_spec a r) = sort_unique ROps (fst a ++ concat (map fst r)).
Proof.
  intros Ga Gr. symmetry. apply sort_unique_char.
  - destruct (sum_spec_good ts te r a Ga Gr) as ([[Hs _] _] & _). exact Hs.
  - intros x. rewrite sum_spec_in, in_app_iff, in_concat.
    split.
    + intros [H|(g & Hg & Hx)]; auto. right. exists (fst g). split; auto. apply in_map; auto.
    + intros [H|(xs & Hxs & Hx)]; auto. apply in_map_iff in Hxs as (g & <- & Hg). right. eauto.
Qed.

Lemma sumF_cons1 a (l : list R) : sumF ROps (a :: l) = a + sumF ROps l.
Proof. reflexivity. Qed.

Lemma sum_spec_at ts te t : ts < t < te -> forall r a, goodp ts te a -> Forall (goodp ts te) r ->
  ~ In t (fst (sum_spec a r)) ->
  pwc_at ROps (fst (sum_spec a r)) (snd (sum_spec a r)) t
  = Some (pval a t + sumF ROps (map (fun g => pval g t) r)).
Proof.
  intros Ht. induction r as [|g r IH]; intros a Ga Gr Hn.
  - cbn [sum_spec fold_left map] in *. rewrite (goodp_at_some ts te a t Ga Ht Hn).
    f_equal. unfold sumF; cbn [fold_right n0 ROps]. lra.
  - inversion Gr as [|? ? Gg Gr']; subst.
    cbn [sum_spec fold_left] in *. fold (sum_spec (pwc_add_spec ROps a g) r) in *.
    rewrite IH; auto using goodp_add_spec.
    cbn [map]. rewrite sumF_cons1. f_equal.
    assert (Hn' : ~ In t (fst a ++ fst g)).
    { intros Hc. apply Hn. apply sum_spec_in. left.
      rewrite pwc_add_spec_unfold. cbn [fst]. apply Lem_Pwc.sort_unique_In. exact Hc. }
    destruct (goodp_in _ _ _ Ga) as [I1 I2].
    unfold pval at 1.
    rewrite (add_spec_at a g t ts te); auto; try (apply in_or_app; left; auto).
    rewrite optsum_val, <- !pval_optval. cbn [nadd ROps]. lra.
Qed.

Lemma sum_spec_overlap ts te x y : ts <= x -> x <= y -> y <= te ->
  forall r a, goodp ts te a -> Forall (goodp ts te) r ->
  pwc_overlap ROps (fst (sum_spec a r)) (snd (sum_spec a r)) x y
  = pwc_overlap ROps (fst a) (snd a) x y
    + sumF ROps (map (fun g => pwc_overlap ROps (fst g) (snd g) x y) r).
Proof.
  intros Hx Hxy Hy. induction r as [|g r IH]; intros a Ga Gr.
  - cbn [sum_spec fold_left map]. unfold sumF; cbn [fold_right n0 ROps]. lra.
  - inversion Gr as [|? ? Gg Gr']; subst.
    cbn [sum_spec fold_left]. fold (sum_spec (pwc_add_spec ROps a g) r).
    rewrite IH; auto using goodp_add_spec.
    cbn [map]. rewrite sumF_cons1.
    destruct Ga as (Wa & A0 & AL). destruct Gg as (Wg & G0 & GL).
    rewrite (pwc_overlap_add a g x y Wa Wg) by (try congruence; lra). cbn [nadd ROps]. lra.
Qed.

(* the left fold of the model over Ok-valued pair profiles *)
Lemma fold_lstep_spec ts te (prof : nat * nat -> list R * list R) : forall r a,
  goodp ts te a -> Forall (fun q => goodp ts te (prof q)) r ->
  fold_left (lstep (pwc_add ROps) (fun p => Ok (prof p))) r (Ok a) = Ok (sum_spec a (map prof r)).
Proof.
  induction r as [|q r IH]; intros a Ga Gr; [reflexivity|].
  inversion Gr as [|? ? Gq Gr']; subst.
  cbn [fold_left map sum_spec]. unfold lstep at 2. cbn [rbind].
  rewrite (goodp_add ts te a (prof q) Ga Gq). apply IH; auto. apply goodp_add_spec; auto.
Qed.

(* ------------------------------------------------------------------ *)
(* the bivariate ISI profile of two trains on [ts, te]                  *)

Lemma sne_valid ts te (a : @train R) : mtrain ts te a ->
  valid ts te (spikes_non_empty ROps a) /\ spikes_non_empty ROps a <> [].
Proof.
  destruct a as [[s st] en]. unfold mtrain, spikes_non_empty, tr_spikes, tr_start, tr_end.
  cbn [fst snd]. intros (V & -> & ->). destruct s as [|x s]; [|split; [exact V|discriminate]].
  destruct V as (Hlt & _). unfold sort_unique. cbn [fold_right insert_u nltb ROps].
  destruct (Rltb_spec ts te) as [_|N]; [|lra].
  split; [|discriminate]. split; [exact Hlt|]. split.
  - apply ssorted_cons; [apply ssorted_cons; [apply ssorted_nil|constructor]|].
    constructor; [exact Hlt|constructor].
  - repeat constructor; lra.
Qed.

Lemma bip_py eps cy m (a b : @train R) :
  isi_profile_bi ROps eps cy false m a b
  = isi_profile_py ROps (spikes_non_empty ROps a) (spikes_non_empty ROps b) (tr_start a) (tr_end a) m.
Proof.
  unfold isi_profile_bi, prep2. destruct cy; [apply isi_profile_cy_eq|reflexivity].
Qed.

Lemma bip_good eps cy m ts te a b : mtrain ts te a -> mtrain ts te b ->
  goodp ts te (isi_profile_bi ROps eps cy false m a b).
Proof.
  intros Ma Mb. rewrite bip_py.
  destruct (sne_valid ts te a Ma) as [Va Na]. destruct (sne_valid ts te b Mb) as [Vb Nb].
  destruct Ma as (_ & -> & ->).
  destruct (isi_profile_wf _ _ ts te m Va Vb Na Nb) as (Hlen & Hhd & Hlast & Hs).
  set (p := isi_profile_py ROps _ _ ts te m) in *.
  assert (Hlt : ts < te) by (destruct Va; auto).
  unfold goodp, wf_pwc, wf_x. rewrite nthF0_hd. unfold lastF. cbn [n0 ROps].
  repeat split; auto.
  destruct (fst p) as [|x [|y r]]; cbn [length hd last] in *; try lia; lra.
Qed.

Lemma bip_sym eps cy m ts te a b : mtrain ts te a -> mtrain ts te b ->
  isi_profile_bi ROps eps cy false m a b = isi_profile_bi ROps eps cy false m b a.
Proof.
  intros (_ & Sa & Ea) (_ & Sb & Eb). rewrite !bip_py, Sa, Ea, Sb, Eb. apply isi_profile_sym.
Qed.

Section IsiMulti.
  Variables (eps : R) (cy : bool) (m ts te : R).
  Variable l : list (@train R).
  Hypothesis H2 : (2 <= length l)%nat.
  Hypothesis HF : Forall (mtrain ts te) l.

  Definition pairsL : list (nat * nat) := pairs_of (seq 0 (length l)).
  Definition profp (p : nat * nat) : list R * list R :=
    isi_profile_bi ROps eps cy false m (nth_train ROps l (fst p)) (nth_train ROps l (snd p)).

  Lemma nth_train_m p : In p pairsL ->
    mtrain ts te (nth_train ROps l (fst p)) /\ mtrain ts te (nth_train ROps l (snd p)).
  Proof.
    intros Hp. apply in_pairs_seq in Hp as [H1 H3]. rewrite Forall_forall in HF.
    split; apply HF, nth_In; assumption.
  Qed.

  Lemma profp_good p : In p pairsL -> goodp ts te (profp p).
  Proof. intros Hp. destruct (nth_train_m p Hp). apply bip_good; auto. Qed.

  Lemma pairsL_pos : (0 < length pairsL)%nat.
  Proof. apply pairs_of_seq_pos; exact H2. Qed.

  Lemma isi_multi_struct : exists p0 r, pairsL = p0 :: r /\
    isi_profile_multi ROps eps cy false m l None
    = Ok (pwc_mul ROps (sum_spec (profp p0) (map profp r)) (1 / INR (length pairsL))).
  Proof.
    pose proof pairsL_pos as Hpos.
    destruct pairsL as [|p0 r] eqn:EP; [cbn in Hpos; lia|].
    exists p0, r. split; [reflexivity|].
    assert (Gall : Forall (fun q => goodp ts te (profp q)) (p0 :: r)).
    { apply Forall_forall. intros q Hq. apply profp_good. rewrite EP. exact Hq. }
    inversion Gall as [|? ? G0 Gr]; subst.
    unfold isi_profile_multi, profile_multi_gen. cbn [indices_or_all].
    rewrite check_indices_seq. cbn [negb]. fold pairsL. rewrite EP.
    rewrite (dc_fold_model _ (pwc_add ROps)
               (fun p => Ok (profp p)) (goodp ts te) (p0 :: r)).
    - cbn [lsum]. rewrite (fold_lstep_spec ts te profp r (profp p0) G0 Gr).
      cbn [rmap fst snd]. rewrite nofnat_INR. reflexivity.
    - intros p Hp. rewrite Forall_forall in Gall. eauto.
    - intros a b Ga Gb. exists (pwc_add_spec ROps a b). split; [eapply goodp_add; eauto|].
      apply goodp_add_spec; auto.
    - intros a b c ab bc Ga Gb Gc E1 E2.
      rewrite (goodp_add ts te a b Ga Gb) in E1. rewrite (goodp_add ts te b c Gb Gc) in E2.
      inversion E1; inversion E2; subst.
      rewrite (goodp_add ts te _ c (goodp_add_spec ts te a b Ga Gb) Gc).
      rewrite (goodp_add ts te a _ Ga (goodp_add_spec ts te b c Gb Gc)).
      f_equal. destruct Ga as (Wa & A0 & AL), Gb as (Wb & B0 & BL), Gc as (Wc & C0 & CL).
      apply pwc_add_assoc; auto; congruence.
    - apply incl_refl.
    - discriminate.
  Qed.

  (* the multivariate profile *)
  Definition multiP : list R * list R :=
    match pairsL with
    | p0 :: r => pwc_mul ROps (sum_spec (profp p0) (map profp r)) (1 / INR (length pairsL))
    | [] => ([], [])
    end.

  Lemma isi_multi_ok : isi_profile_multi ROps eps cy false m l None = Ok multiP.
  Proof.
    destruct isi_multi_struct as (p0 & r & EP & E). rewrite E. unfold multiP. rewrite EP. reflexivity.
  Qed.

  Lemma multiP_good : goodp ts te multiP.
  Proof.
    destruct isi_multi_struct as (p0 & r & EP & _). unfold multiP. rewrite EP.
    apply goodp_mul. apply sum_spec_good.
    - apply profp_good. rewrite EP. left; auto.
    - apply Forall_map, Forall_forall. intros q Hq. apply profp_good. rewrite EP. right; auto.
  Qed.

  Lemma multiP_breaks : fst multiP = sort_unique ROps (concat (map (fun p => fst (profp p)) pairsL)).
  Proof.
    destruct isi_multi_struct as (p0 & r & EP & _). unfold multiP. rewrite EP.
    unfold pwc_mul. cbn [fst]. rewrite (sum_spec_breaks ts te).
    - cbn [map concat]. rewrite map_map. reflexivity.
    - apply profp_good. rewrite EP. left; auto.
    - apply Forall_map, Forall_forall. intros q Hq. apply profp_good. rewrite EP. right; auto.
  Qed.

  Lemma multiP_at t : ts < t < te -> ~ In t (fst multiP) ->
    pwc_at ROps (fst multiP) (snd multiP) t
    = Some (sumF ROps (map (fun p => pval (profp p) t) pairsL) * (1 / INR (length pairsL))).
  Proof.
    intros Ht Hn. destruct isi_multi_struct as (p0 & r & EP & _). unfold multiP in *.
    rewrite EP in *. rewrite pwc_mul_pointwise.
    assert (G0 : goodp ts te (profp p0)) by (apply profp_good; rewrite EP; left; auto).
    assert (Gr : Forall (goodp ts te) (map profp r)).
    { apply Forall_map, Forall_forall. intros q Hq. apply profp_good. rewrite EP. right; auto. }
    rewrite (sum_spec_at ts te t Ht _ _ G0 Gr) by exact Hn.
    cbn [option_map map]. rewrite sumF_cons1, map_map. reflexivity.
  Qed.

  Lemma multiP_overlap x y : ts <= x -> x <= y -> y <= te ->
    pwc_overlap ROps (fst multiP) (snd multiP) x y
    = sumF ROps (map (fun p => pwc_overlap ROps (fst (profp p)) (snd (profp p)) x y) pairsL)
      * (1 / INR (length pairsL)).
  Proof.
    intros Hx Hxy Hy. destruct isi_multi_struct as (p0 & r & EP & _). unfold multiP.
    rewrite EP. rewrite pwc_overlap_mul.
    assert (G0 : goodp ts te (profp p0)) by (apply profp_good; rewrite EP; left; auto).
    assert (Gr : Forall (goodp ts te) (map profp r)).
    { apply Forall_map, Forall_forall. intros q Hq. apply profp_good. rewrite EP. right; auto. }
    rewrite (sum_spec_overlap ts te x y Hx Hxy Hy _ _ G0 Gr).
    cbn [map]. rewrite sumF_cons1, map_map. cbn [nadd ROps]. ring.
  Qed.
End IsiMulti.

(* ------------------------------------------------------------------ *)
(* B1, B2: the multivariate ISI profile                                 *)

Theorem isi_multi_profile_pointwise : forall eps cy m l ts te,
  (2 <= length l)%nat -> Forall (mtrain ts te) l ->
  exists P, isi_profile_multi ROps eps cy false m l None = Ok P /\ wf_pwc P /\
    forall t, ts < t < te -> ~ In t (fst P) ->
      pwc_at ROps (fst P) (snd P) t =
      Some (sumF ROps
              (map (fun p =>
                      match pwc_at ROps
                              (fst (isi_profile_bi ROps eps cy false m
                                      (nth_train ROps l (fst p)) (nth_train ROps l (snd p))))
                              (snd (isi_profile_bi ROps eps cy false m
                                      (nth_train ROps l (fst p)) (nth_train ROps l (snd p)))) t
                      with Some v => v | None => 0 end)
                   (pairs_of (seq 0 (length l))))
            * (1 / INR (length (pairs_of (seq 0 (length l)))))).
Proof.
  intros eps cy m l ts te H2 HF. exists (multiP eps cy m l).
  split; [apply (isi_multi_ok eps cy m ts te l H2 HF)|].
  split; [apply (multiP_good eps cy m ts te l H2 HF)|].
  intros t Ht Hn. apply (multiP_at eps cy m ts te l H2 HF t Ht Hn).
Qed.

Theorem isi_multi_breakpoints : forall eps cy m l ts te,
  (2 <= length l)%nat -> Forall (mtrain ts te) l ->
  exists P, isi_profile_multi ROps eps cy false m l None = Ok P /\
    fst P = sort_unique ROps
              (concat (map (fun p => fst (isi_profile_bi ROps eps cy false m
                                            (nth_train ROps l (fst p)) (nth_train ROps l (snd p))))
                           (pairs_of (seq 0 (length l))))) /\
    ssorted (fst P) /\ nthF ROps (fst P) 0 = ts /\ lastF ROps (fst P) = te.
Proof.
  intros eps cy m l ts te H2 HF. exists (multiP eps cy m l).
  split; [apply (isi_multi_ok eps cy m ts te l H2 HF)|].
  split; [apply (multiP_breaks eps cy m ts te l H2 HF)|].
  destruct (multiP_good eps cy m ts te l H2 HF) as ([[Hs _] _] & H0 & HL). auto.
Qed.

(* ------------------------------------------------------------------ *)
(* C. the multivariate scalar is the average of the multivariate profile *)

Definition iv_ok (ts te : R) (iv : option (R * R)) : Prop :=
  match iv with None => True | Some (a, b) => ts <= a /\ a < b /\ b <= te end.
Definition iv_lo (ts : R) (iv : option (R * R)) : R :=
  match iv with None => ts | Some (a, _) => a end.
Definition iv_hi (te : R) (iv : option (R * R)) : R :=
  match iv with None => te | Some (_, b) => b end.

Lemma iv_ok_bounds ts te iv : ts < te -> iv_ok ts te iv ->
  ts <= iv_lo ts iv /\ iv_lo ts iv < iv_hi te iv /\ iv_hi te iv <= te.
Proof. intros Hlt. destruct iv as [[a b]|]; cbn [iv_ok iv_lo iv_hi]; lra. Qed.

Lemma avrg_good ts te iv f : goodp ts te f -> iv_ok ts te iv ->
  pwc_avrg ROps f (iv_of iv)
  = Ok (pwc_overlap ROps (fst f) (snd f) (iv_lo ts iv) (iv_hi te iv) / (iv_hi te iv - iv_lo ts iv)).
Proof.
  intros (W & F0 & FL) Hiv. destruct iv as [[a b]|]; cbn [iv_of iv_lo iv_hi iv_ok] in *.
  - apply pwc_avrg_one; auto; rewrite ?F0, ?FL; lra.
  - unfold pwc_avrg, avrg_gen. rewrite pwc_integral_none by auto.
    cbn [rmap ndiv nsub ROps]. rewrite F0, FL. reflexivity.
Qed.

(* the bivariate scalar is the average of the bivariate profile (all code paths) *)
Lemma isi_bi_is_avrg eps cy m iv ts te a b : mtrain ts te a -> mtrain ts te b ->
  isi_distance_bi ROps eps cy false m iv a b
  = pwc_avrg ROps (isi_profile_bi ROps eps cy false m a b) (iv_of iv).
Proof.
  intros Ma Mb. unfold isi_distance_bi, prep2. cbv iota beta.
  destruct iv as [[x y]|]; destruct cy; try reflexivity.
  unfold isi_profile_bi, prep2. cbv iota beta. cbn [iv_of].
  destruct (sne_valid ts te a Ma) as [Va Na]. destruct (sne_valid ts te b Mb) as [Vb Nb].
  destruct Ma as (_ & -> & ->). apply isi_distance_cy_avrg; auto.
Qed.

Lemma isi_bi_total eps cy m iv ts te a b : mtrain ts te a -> mtrain ts te b -> iv_ok ts te iv ->
  exists v, isi_distance_bi ROps eps cy false m iv a b = Ok v.
Proof.
  intros Ma Mb Hiv. rewrite (isi_bi_is_avrg eps cy m iv ts te a b Ma Mb).
  rewrite (avrg_good ts te iv _ (bip_good eps cy m ts te a b Ma Mb) Hiv). eauto.
Qed.

Lemma isi_bi_sym eps cy m iv ts te a b : mtrain ts te a -> mtrain ts te b ->
  isi_distance_bi ROps eps cy false m iv a b = isi_distance_bi ROps eps cy false m iv b a.
Proof.
  intros Ma Mb. rewrite (isi_bi_is_avrg eps cy m iv ts te a b Ma Mb).
  rewrite (isi_bi_is_avrg eps cy m iv ts te b a Mb Ma).
  rewrite (bip_sym eps cy m ts te a b Ma Mb). reflexivity.
Qed.

(* _generic_distance_multi with totality on the trains of the list only *)
Lemma dist_fold_val (bi : @train R -> @train R -> res R) (val : nat * nat -> R) l : forall ps a,
  (forall p, In p ps -> bi (nth_train ROps l (fst p)) (nth_train ROps l (snd p)) = Ok (val p)) ->
  fold_left (fun acc p =>
               rbind acc (fun a =>
               rmap (fun d => nadd ROps a d)
                    (bi (nth_train ROps l (fst p)) (nth_train ROps l (snd p)))))
            ps (Ok a)
  = Ok (a + sumF ROps (map val ps)).
Proof.
  induction ps as [|p ps IH]; intros a H; cbn [fold_left map].
  - unfold sumF; cbn [fold_right n0 ROps]. f_equal; lra.
  - cbn [rbind]. rewrite (H p) by (left; reflexivity). cbn [rmap]. rewrite IH.
    + rewrite sumF_cons1. cbn [nadd ROps]. f_equal; lra.
    + intros q Hq. apply H. right; exact Hq.
Qed.

Lemma distance_multi_val eps (bi : @train R -> @train R -> res R) (val : nat * nat -> R) l :
  (forall p, In p (pairs_of (seq 0 (length l))) ->
     bi (nth_train ROps l (fst p)) (nth_train ROps l (snd p)) = Ok (val p)) ->
  distance_multi_gen ROps eps bi false l None
  = Ok (sumF ROps (map val (pairs_of (seq 0 (length l))))
        / INR (length (pairs_of (seq 0 (length l))))).
Proof.
  intros H. unfold distance_multi_gen. cbn [indices_or_all].
  rewrite check_indices_seq. cbn [negb].
  rewrite (dist_fold_val bi val l _ _ H). cbn [rmap n0 ROps ndiv]. rewrite nofnat_INR.
  f_equal. f_equal. lra.
Qed.

Lemma sumF_map_div {A} (g : A -> R) d (ps : list A) :
  sumF ROps (map (fun p => g p / d) ps) = sumF ROps (map g ps) / d.
Proof.
  induction ps as [|p ps IH]; cbn [map].
  - unfold sumF; cbn [fold_right n0 ROps]. unfold Rdiv. ring.
  - rewrite !sumF_cons1, IH. cbn [nadd ROps]. unfold Rdiv. ring.
Qed.

Theorem isi_multi_distance_is_profile_average : forall eps cy m iv l ts te,
  (2 <= length l)%nat -> Forall (mtrain ts te) l -> iv_ok ts te iv ->
  (forall a b, mtrain ts te a -> mtrain ts te b ->
     isi_distance_bi ROps eps cy false m iv a b
     = pwc_avrg ROps (isi_profile_bi ROps eps cy false m a b) (iv_of iv)) ->
  exists P, isi_profile_multi ROps eps cy false m l None = Ok P /\
    isi_distance_multi ROps eps cy false m iv l None = pwc_avrg ROps P (iv_of iv).
Proof.
  intros eps cy m iv l ts te H2 HF Hiv Hbi. exists (multiP eps cy m l).
  split; [apply (isi_multi_ok eps cy m ts te l H2 HF)|].
  pose proof (multiP_good eps cy m ts te l H2 HF) as GP.
  destruct (iv_ok_bounds ts te iv (goodp_lt _ _ _ GP) Hiv) as (B1 & B2 & B3).
  rewrite (avrg_good ts te iv _ GP Hiv).
  rewrite (multiP_overlap eps cy m ts te l H2 HF) by lra.
  unfold isi_distance_multi.
  rewrite (distance_multi_val eps _
             (fun p => pwc_overlap ROps (fst (profp eps cy m l p)) (snd (profp eps cy m l p))
                                   (iv_lo ts iv) (iv_hi te iv) / (iv_hi te iv - iv_lo ts iv))).
  - fold (pairsL l). rewrite sumF_map_div. f_equal. unfold Rdiv. ring.
  - intros p Hp. destruct (nth_train_m ts te l HF p Hp) as [Ma Mb].
    rewrite (Hbi _ _ Ma Mb). apply avrg_good; auto. apply bip_good; auto.
Qed.

(* the hypothesis on the bivariate scalar holds on every code path *)
Corollary isi_multi_distance_is_profile_average_uncond : forall eps cy m iv l ts te,
  (2 <= length l)%nat -> Forall (mtrain ts te) l -> iv_ok ts te iv ->
  exists P, isi_profile_multi ROps eps cy false m l None = Ok P /\
    isi_distance_multi ROps eps cy false m iv l None = pwc_avrg ROps P (iv_of iv).
Proof.
  intros eps cy m iv l ts te H2 HF Hiv.
  apply (isi_multi_distance_is_profile_average eps cy m iv l ts te H2 HF Hiv).
  intros a b Ma Mb. apply (isi_bi_is_avrg eps cy m iv ts te a b Ma Mb).
Qed.

(* ------------------------------------------------------------------ *)
(* D. means and permutation invariance of the scalar                    *)

Lemma psum_perm_in {T} (v : T -> T -> R) l l' : Permutation l l' ->
  (forall a b, In a l -> In b l -> v a b = v b a) -> psum v l = psum v l'.
Proof.
  induction 1 as [|x l l' Hp IH|x y l|l l' l'' Hp1 IH1 Hp2 IH2]; intros Hs; cbn [psum map].
  - reflexivity.
  - rewrite IH by (intros a b Ha Hb; apply Hs; right; auto).
    f_equal. apply sumF_perm. apply Permutation_map. exact Hp.
  - rewrite !sumF_cons1. rewrite (Hs y x) by (cbn [In]; auto). lra.
  - rewrite IH1 by auto. apply IH2. intros a b Ha Hb.
    apply Hs; eapply Permutation_in; try (apply Permutation_sym; exact Hp1); auto.
Qed.

Lemma pairs_psum (v : @train R -> @train R -> R) (l : list (@train R)) :
  sumF ROps (map (fun p => v (nth_train ROps l (fst p)) (nth_train ROps l (snd p)))
                 (pairs_of (seq 0 (length l))))
  = psum v l.
Proof. rewrite <- psum_gpairs, <- train_pairs, map_map. reflexivity. Qed.

Lemma nth_train_in ts te (l : list (@train R)) p : Forall (mtrain ts te) l ->
  In p (pairs_of (seq 0 (length l))) ->
  mtrain ts te (nth_train ROps l (fst p)) /\ mtrain ts te (nth_train ROps l (snd p)).
Proof.
  intros HF Hp. apply in_pairs_seq in Hp as [H1 H3]. rewrite Forall_forall in HF.
  split; apply HF, nth_In; assumption.
Qed.

(* the multivariate distance is the mean of the pair distances *)
Theorem isi_distance_multi_mean : forall eps cy m iv l ts te,
  Forall (mtrain ts te) l -> iv_ok ts te iv ->
  isi_distance_multi ROps eps cy false m iv l None
  = Ok (sumF ROps (map (fun p => valOf (isi_distance_bi ROps eps cy false m iv
                                           (nth_train ROps l (fst p)) (nth_train ROps l (snd p))))
                       (pairs_of (seq 0 (length l))))
        / INR (length (pairs_of (seq 0 (length l))))).
Proof.
  intros eps cy m iv l ts te HF Hiv. unfold isi_distance_multi.
  apply distance_multi_val. intros p Hp. destruct (nth_train_in ts te l p HF Hp) as [Ma Mb].
  destruct (isi_bi_total eps cy m iv ts te _ _ Ma Mb Hiv) as (w & E). rewrite E. reflexivity.
Qed.

Theorem isi_distance_multi_perm : forall eps cy m iv l l' ts te,
  Forall (mtrain ts te) l -> iv_ok ts te iv -> Permutation l l' ->
  isi_distance_multi ROps eps cy false m iv l None = isi_distance_multi ROps eps cy false m iv l' None.
Proof.
  intros eps cy m iv l l' ts te HF Hiv Hp.
  assert (HF' : Forall (mtrain ts te) l') by (eapply Permutation_Forall; eauto).
  rewrite (isi_distance_multi_mean eps cy m iv l ts te HF Hiv).
  rewrite (isi_distance_multi_mean eps cy m iv l' ts te HF' Hiv).
  rewrite (pairs_psum (fun a b => valOf (isi_distance_bi ROps eps cy false m iv a b)) l).
  rewrite (pairs_psum (fun a b => valOf (isi_distance_bi ROps eps cy false m iv a b)) l').
  rewrite (Permutation_length Hp).
  rewrite (psum_perm_in _ l l' Hp); [reflexivity|].
  intros a b Ha Hb. rewrite Forall_forall in HF.
  rewrite (isi_bi_sym eps cy m iv ts te a b (HF a Ha) (HF b Hb)). reflexivity.
Qed.

(* _generic_distance_matrix with totality on the trains of the list only *)
Lemma matrix_gen_value_in eps bi diag sym (l : list (@train R)) :
  (forall a b, In a l -> In b l -> exists v, bi a b = Ok v) ->
  matrix_gen ROps eps bi diag sym false l None = Ok (mmatrix bi diag sym l).
Proof.
  intros Ht. unfold matrix_gen. cbn [indices_or_all].
  rewrite check_indices_seq. cbn [negb]. rewrite seq_length. unfold mmatrix.
  apply sequence_ok. intros i Hi. apply in_seq in Hi.
  apply sequence_ok. intros j Hj. apply in_seq in Hj.
  unfold mentry. rewrite !seq_nth by lia. cbn [plus].
  assert (Ii : In (nth_train ROps l i) l) by (apply nth_In; lia).
  assert (Ij : In (nth_train ROps l j) l) by (apply nth_In; lia).
  destruct (i =? j)%nat; [reflexivity|].
  destruct (i <? j)%nat.
  - destruct (Ht _ _ Ii Ij) as (v & ->). reflexivity.
  - destruct (Ht _ _ Ij Ii) as (v & ->). reflexivity.
Qed.

Theorem isi_matrix_entries : forall eps cy m iv l ts te,
  Forall (mtrain ts te) l -> iv_ok ts te iv ->
  exists M, isi_distance_matrix ROps eps cy false m iv l None = Ok M /\ length M = length l /\
    (forall i, (i < length l)%nat -> length (nth i M []) = length l) /\
    (forall i j, (i < length l)%nat -> (j < length l)%nat ->
       nth j (nth i M []) 0 =
         if (i =? j)%nat then 0
         else if (i <? j)%nat
              then valOf (isi_distance_bi ROps eps cy false m iv (nth_train ROps l i) (nth_train ROps l j))
              else valOf (isi_distance_bi ROps eps cy false m iv (nth_train ROps l j) (nth_train ROps l i))) /\
    (forall i j, (i < length l)%nat -> (j < length l)%nat ->
       nth j (nth i M []) 0 = nth i (nth j M []) 0) /\
    (forall i, (i < length l)%nat -> nth i (nth i M []) 0 = 0).
Proof.
  intros eps cy m iv l ts te HF Hiv.
  set (bi := isi_distance_bi ROps eps cy false m iv).
  exists (mmatrix bi 0 (fun x => x) l). split; [|split; [|split; [|split; [|split]]]].
  - unfold isi_distance_matrix. cbn [n0 ROps]. apply matrix_gen_value_in.
    intros a b Ha Hb. rewrite Forall_forall in HF.
    apply (isi_bi_total eps cy m iv ts te a b (HF a Ha) (HF b Hb) Hiv).
  - unfold mmatrix. rewrite map_length, seq_length. reflexivity.
  - intros i Hi. unfold mmatrix. rewrite nth_map_seq by exact Hi.
    rewrite map_length, seq_length. reflexivity.
  - intros i j Hi Hj. rewrite mmatrix_nth by assumption. reflexivity.
  - intros i j Hi Hj. rewrite !mmatrix_nth by assumption. apply mentry_sym.
  - intros i Hi. rewrite mmatrix_nth by assumption. unfold mentry. rewrite Nat.eqb_refl. reflexivity.
Qed.

(* ------------------------------------------------------------------ *)
(* E. the multivariate SPIKE-Sync profile                               *)

Definition gooddf (ts te : R) (f : list (R * R * R)) : Prop :=
  Lem_Df.wf_df f /\ fst (fst (hd (0,0,0) f)) = ts /\ fst (fst (last f (0,0,0))) = te.

Lemma Sg_add_spec p t ev : p = Lem_Df.ey \/ p = Lem_Df.em ->
  Lem_Df.Sg p t (Lem_Df.add_spec_of ev) = Lem_Df.Sg p t ev.
Proof.
  intros Hp. destruct (Lem_Df.add_spec_of_good ev) as (GS & GI & GF).
  destruct (in_dec Req_EM_T t (map Lem_Df.kx (Lem_Df.add_spec_of ev))) as [Hin|Hn].
  - apply in_map_iff in Hin as (e & <- & He).
    rewrite (Lem_Df.Sg_self p _ e GS He). rewrite Forall_forall in GF.
    destruct (GF e He) as [Hy Hm]. destruct Hp as [->| ->]; assumption.
  - rewrite (Lem_Df.Sg_notin p t _ Hn). symmetry. apply Lem_Df.Sg_notin.
    intros Hc. apply Hn. apply GI. exact Hc.
Qed.

Lemma df_add_sum ts te f g : gooddf ts te f -> gooddf ts te g ->
  exists r, df_add ROps f g = Ok r /\ gooddf ts te r /\
    forall p t, p = Lem_Df.ey \/ p = Lem_Df.em ->
      Lem_Df.Sg p t (interior_entries r)
      = Lem_Df.Sg p t (interior_entries f) + Lem_Df.Sg p t (interior_entries g).
Proof.
  intros (Wf & F0 & FL) (Wg & G0 & GL).
  assert (E0 : fst (fst (hd (0,0,0) f)) = fst (fst (hd (0,0,0) g))) by congruence.
  assert (EL : fst (fst (last f (0,0,0))) = fst (fst (last g (0,0,0)))) by congruence.
  destruct (Lem_Df.df_add_events f g Wf Wg E0 EL) as (r & Er & HI & H0 & HL).
  exists r. split; [exact Er|]. split.
  - split; [exact (Lem_Df.df_add_wf f g r Wf Wg E0 EL Er)|]. split; congruence.
  - intros p t Hp. rewrite HI, Lem_Df.df_add_spec_eq, Sg_add_spec by exact Hp.
    apply Lem_Df.Sg_app.
Qed.

Section DfDC.
  Variables ts te : R.
  Variable prof : nat * nat -> list (R * R * R).

  Lemma dc_df_sum : forall fuel ps,
    (forall p, In p ps -> gooddf ts te (prof p)) -> ps <> [] -> (length ps < fuel)%nat ->
    exists r, dc (df_add ROps) (fun p => Ok (prof p)) fuel ps = Ok r /\ gooddf ts te r /\
      forall pr t, pr = Lem_Df.ey \/ pr = Lem_Df.em ->
        Lem_Df.Sg pr t (interior_entries r)
        = sumF ROps (map (fun p => Lem_Df.Sg pr t (interior_entries (prof p))) ps).
  Proof.
    induction fuel as [|k IH]; intros ps Hg Hne Hlen; [lia|].
    destruct ps as [|p [|q r]]; [congruence| |].
    - exists (prof p). split; [reflexivity|]. split; [apply Hg; left; reflexivity|].
      intros pr t _. cbn [map]. rewrite sumF_cons1. unfold sumF; cbn [fold_right n0 ROps]. lra.
    - set (ps := p :: q :: r) in *.
      assert (Hdc : dc (df_add ROps) (fun p => Ok (prof p)) (S k) ps =
                    rbind (dc (df_add ROps) (fun p => Ok (prof p)) k (firstn (Nat.div2 (length ps)) ps))
                      (fun d1 =>
                    rbind (dc (df_add ROps) (fun p => Ok (prof p)) k (skipn (Nat.div2 (length ps)) ps))
                      (fun d2 => df_add ROps d1 d2)))
        by reflexivity.
      rewrite Hdc. clear Hdc.
      assert (Hl2 : (2 <= length ps)%nat) by (unfold ps; cbn [length]; lia).
      destruct (div2_bounds (length ps) Hl2) as [Hh1 Hh2].
      set (h := Nat.div2 (length ps)) in *.
      assert (Lf : length (firstn h ps) = h) by (apply firstn_length_le; lia).
      assert (Ls : length (skipn h ps) = (length ps - h)%nat) by apply skipn_length.
      assert (Nf : firstn h ps <> []) by (intros E; rewrite E in Lf; change (0 = h)%nat in Lf; lia).
      assert (Ns : skipn h ps <> [])
        by (intros E; rewrite E in Ls; change (0 = length ps - h)%nat in Ls; lia).
      assert (If : forall x, In x (firstn h ps) -> gooddf ts te (prof x))
        by (intros x Hx; apply Hg; rewrite <- (firstn_skipn h ps); apply in_or_app; auto).
      assert (Is : forall x, In x (skipn h ps) -> gooddf ts te (prof x))
        by (intros x Hx; apply Hg; rewrite <- (firstn_skipn h ps); apply in_or_app; auto).
      destruct (IH _ If Nf) as (r1 & E1 & G1 & S1); [lia|].
      destruct (IH _ Is Ns) as (r2 & E2 & G2 & S2); [lia|].
      rewrite E1, E2. cbn [rbind].
      destruct (df_add_sum ts te r1 r2 G1 G2) as (r3 & E3 & G3 & S3).
      exists r3. split; [exact E3|]. split; [exact G3|].
      intros pr t Hp. rewrite (S3 pr t Hp), (S1 pr t Hp), (S2 pr t Hp).
      rewrite <- sumF_app, <- map_app, firstn_skipn. reflexivity.
  Qed.
End DfDC.

(* the scan only depends on the window function pointwise *)
Lemma coinc_events_ext (tau tau' : option (@ctx R) -> option (@ctx R) -> R) :
  (forall c1 c2, tau c1 c2 = tau' c1 c2) ->
  forall k p1 f1 p2 f2,
    coinc_events ROps tau k p1 f1 p2 f2 = coinc_events ROps tau' k p1 f1 p2 f2.
Proof.
  intros H. induction k as [|k IH]; intros p1 f1 p2 f2; [reflexivity|].
  destruct f1 as [|a f1'], f2 as [|b f2']; cbn [coinc_events]; rewrite ?H, ?IH; reflexivity.
Qed.

Lemma sync_bi_spec eps cy mt m ts te (a b : @train R) : mtrain ts te a -> mtrain ts te b ->
  spike_sync_profile_bi ROps eps cy false mt m a b
  = sync_spec ROps (tr_spikes a) (tr_spikes b) ts te mt m.
Proof.
  intros (Va & Sa & Ea) (Vb & _ & _).
  unfold spike_sync_profile_bi, prep2. cbv iota beta. rewrite Sa, Ea.
  rewrite <- (Lem_Sync.sync_profile_spec _ _ ts te mt m Va Vb).
  unfold coincidence_profile_gen. do 2 f_equal.
  destruct cy; [|reflexivity]. unfold coinc_scan. apply coinc_events_ext.
  intros c1 c2. unfold tau_fn, gt_of. apply Lem_Tau.get_tau_cy_eq.
Qed.

Lemma event_entries_keys v1 v2 vb (s1 s2 : list R) :
  map Lem_Df.kx (event_entries ROps v1 v2 vb s1 s2) = sort_unique ROps (s1 ++ s2).
Proof.
  unfold event_entries. rewrite map_map. rewrite <- (map_id (sort_unique ROps (s1 ++ s2))) at 2.
  apply map_ext. intros t.
  destruct (find _ (contexts s1)), (find _ (contexts s2)); reflexivity.
Qed.

Lemma framed_shape ts te (E : list (R * R * R)) :
  exists f0 fl, framed ROps ts te E = f0 :: E ++ [fl] /\ Lem_Df.kx f0 = ts /\ Lem_Df.kx fl = te.
Proof.
  destruct E as [|e0 E]; cbn [framed].
  - exists (ts, 1, 1), (te, 1, 1). repeat split.
  - eexists _, _. split; [reflexivity|]. split; reflexivity.
Qed.

Lemma sync_bi_good eps cy mt m ts te (a b : @train R) : mtrain ts te a -> mtrain ts te b ->
  gooddf ts te (spike_sync_profile_bi ROps eps cy false mt m a b).
Proof.
  intros Ma Mb. rewrite (sync_bi_spec eps cy mt m ts te a b Ma Mb).
  destruct Ma as ((Hlt & Ssa & Ba) & _ & _). destruct Mb as ((_ & Ssb & Bb) & _ & _).
  unfold sync_spec. cbv zeta.
  match goal with |- gooddf _ _ (framed _ _ _ ?E) => set (EE := E) end.
  destruct (framed_shape ts te EE) as (f0 & fl & -> & K0 & KL).
  unfold gooddf. rewrite Lem_Df.last_shape. cbn [hd].
  split; [|split; [exact K0|exact KL]].
  apply Lem_Df.wf_df_intro.
  - unfold EE. rewrite event_entries_keys. apply Lem_Pwc.sort_unique_sorted.
  - rewrite K0, KL. lra.
  - rewrite K0, KL. apply Forall_forall. intros e He.
    assert (Hk : In (Lem_Df.kx e) (map Lem_Df.kx EE)) by (apply in_map; exact He).
    unfold EE in Hk. rewrite event_entries_keys in Hk.
    apply (proj1 (Lem_Pwc.sort_unique_In _ _)) in Hk. rewrite Forall_forall in Ba, Bb.
    apply in_app_or in Hk as [Hk|Hk]; auto.
Qed.

Theorem sync_multi_events : forall eps cy mt m l ts te,
  (2 <= length l)%nat -> Forall (mtrain ts te) l ->
  exists P, spike_sync_profile_multi ROps eps cy false mt m l None = Ok P /\ Lem_Df.wf_df P /\
    fst (fst (hd (0,0,0) P)) = ts /\ fst (fst (last P (0,0,0))) = te /\
    forall t, sum_at ROps t (interior_entries P) =
      (sumF ROps (map (fun p => fst (sum_at ROps t (interior_entries
                         (spike_sync_profile_bi ROps eps cy false mt m
                            (nth_train ROps l (fst p)) (nth_train ROps l (snd p))))))
                      (pairs_of (seq 0 (length l)))),
       sumF ROps (map (fun p => snd (sum_at ROps t (interior_entries
                         (spike_sync_profile_bi ROps eps cy false mt m
                            (nth_train ROps l (fst p)) (nth_train ROps l (snd p))))))
                      (pairs_of (seq 0 (length l))))).
Proof.
  intros eps cy mt m l ts te H2 HF.
  set (prof := fun p : nat * nat =>
                 spike_sync_profile_bi ROps eps cy false mt m
                   (nth_train ROps l (fst p)) (nth_train ROps l (snd p))).
  set (ps := pairs_of (seq 0 (length l))).
  assert (Hne : ps <> []).
  { intros E. pose proof (pairs_of_seq_pos (length l) H2) as Hpos. fold ps in Hpos.
    rewrite E in Hpos. cbn in Hpos. lia. }
  destruct (dc_df_sum ts te prof (S (length ps)) ps) as (P & EP & (WP & P0 & PL) & SP); auto.
  { intros p Hp. destruct (nth_train_in ts te l p HF Hp) as [Ma Mb]. apply sync_bi_good; auto. }
  exists P. split; [|split; [exact WP|split; [exact P0|split; [exact PL|]]]].
  - unfold spike_sync_profile_multi, profile_multi_gen. cbn [indices_or_all].
    rewrite check_indices_seq. cbn [negb].
    change (rmap fst (rmap (fun p => (p, length ps))
                           (dc (df_add ROps) (fun p => Ok (prof p)) (S (length ps)) ps)) = Ok P).
    match goal with |- rmap fst (rmap _ ?d) = _ =>
      assert (EP' : d = Ok P) by exact EP; rewrite EP' end.
    reflexivity.
  - intros t. rewrite Lem_Df.sum_at_Sg. f_equal.
    + rewrite (SP Lem_Df.ey t (or_introl eq_refl)). f_equal. apply map_ext. intros p.
      rewrite Lem_Df.sum_at_Sg. reflexivity.
    + rewrite (SP Lem_Df.em t (or_intror eq_refl)). f_equal. apply map_ext. intros p.
      rewrite Lem_Df.sum_at_Sg. reflexivity.
Qed.

(* ------------------------------------------------------------------ *)
(* B3. the multivariate ISI profile does not depend on the order of the
   trains (equality of the representation)                              *)

Lemma in_gpairs_cons {A} (x : A) r a b :
  In (a, b) (gpairs (x :: r)) <-> (a = x /\ In b r) \/ In (a, b) (gpairs r).
Proof.
  cbn [gpairs]. rewrite in_app_iff, in_map_iff. split.
  - intros [(y & E & Hy)|H]; auto. inversion E; subst. auto.
  - intros [[-> Hb]|H]; auto. left. exists b. auto.
Qed.

Lemma gpairs_perm_in {A} (l l' : list A) : Permutation l l' -> forall a b,
  In (a, b) (gpairs l) \/ In (b, a) (gpairs l) -> In (a, b) (gpairs l') \/ In (b, a) (gpairs l').
Proof.
  induction 1 as [|x l l' Hp IH|x y l|l l' l'' Hp1 IH1 Hp2 IH2]; intros a b.
  - auto.
  - rewrite !in_gpairs_cons. intros [[[-> Hb]|H]|[[-> Ha]|H]].
    + left; left. split; auto. eapply Permutation_in; eauto.
    + destruct (IH a b (or_introl H)); auto.
    + right; left. split; auto. eapply Permutation_in; eauto.
    + destruct (IH a b (or_intror H)); auto.
  - rewrite !in_gpairs_cons. cbn [In]. intuition (subst; auto).
  - intros H. apply IH2, IH1, H.
Qed.

Lemma concat_pairs_gpairs {B} (G : @train R -> @train R -> list B) (l : list (@train R)) :
  concat (map (fun p => G (nth_train ROps l (fst p)) (nth_train ROps l (snd p)))
              (pairs_of (seq 0 (length l))))
  = concat (map (fun ab => G (fst ab) (snd ab)) (gpairs l)).
Proof. rewrite <- train_pairs, map_map. reflexivity. Qed.

Theorem isi_multi_profile_perm : forall eps cy m l l' ts te,
  (2 <= length l)%nat -> Forall (mtrain ts te) l -> Permutation l l' ->
  isi_profile_multi ROps eps cy false m l None = isi_profile_multi ROps eps cy false m l' None.
Proof.
  intros eps cy m l l' ts te H2 HF Hp.
  assert (HF' : Forall (mtrain ts te) l') by (eapply Permutation_Forall; eauto).
  assert (H2' : (2 <= length l')%nat) by (rewrite <- (Permutation_length Hp); exact H2).
  rewrite (isi_multi_ok eps cy m ts te l H2 HF), (isi_multi_ok eps cy m ts te l' H2' HF').
  f_equal.
  pose proof (multiP_good eps cy m ts te l H2 HF) as G.
  pose proof (multiP_good eps cy m ts te l' H2' HF') as G'.
  set (P := multiP eps cy m l) in *. set (P' := multiP eps cy m l') in *.
  (* breakpoints *)
  assert (EB : fst P = fst P').
  { unfold P, P'. rewrite (multiP_breaks eps cy m ts te l H2 HF).
    rewrite (multiP_breaks eps cy m ts te l' H2' HF').
    apply sort_unique_char; [apply Lem_Pwc.sort_unique_sorted|].
    intros x. rewrite Lem_Pwc.sort_unique_In. unfold pairsL, profp.
    rewrite (concat_pairs_gpairs (fun a b => fst (isi_profile_bi ROps eps cy false m a b)) l).
    rewrite (concat_pairs_gpairs (fun a b => fst (isi_profile_bi ROps eps cy false m a b)) l').
    assert (Hdir : forall k k', Permutation k k' -> Forall (mtrain ts te) k ->
              In x (concat (map (fun ab => fst (isi_profile_bi ROps eps cy false m (fst ab) (snd ab)))
                                (gpairs k))) ->
              In x (concat (map (fun ab => fst (isi_profile_bi ROps eps cy false m (fst ab) (snd ab)))
                                (gpairs k')))).
    { intros k k' Hk Fk Hx. apply in_concat in Hx as (xs & Hxs & Hx).
      apply in_map_iff in Hxs as ([a b] & <- & Hab). cbn [fst snd] in Hx.
      destruct (in_gpairs _ _ _ Hab) as [Ia Ib]. rewrite Forall_forall in Fk.
      apply in_concat.
      destruct (gpairs_perm_in k k' Hk a b (or_introl Hab)) as [H|H].
      - exists (fst (isi_profile_bi ROps eps cy false m a b)). split; [|exact Hx].
        apply in_map_iff. exists (a, b). auto.
      - exists (fst (isi_profile_bi ROps eps cy false m b a)). split.
        + apply in_map_iff. exists (b, a). auto.
        + rewrite <- (bip_sym eps cy m ts te a b (Fk a Ia) (Fk b Ib)). exact Hx. }
    split; [apply (Hdir l' l (Permutation_sym Hp) HF') | apply (Hdir l l' Hp HF)]. }
  destruct G as (WP & P0 & PL). destruct G' as (WP' & P0' & PL').
  destruct P as [xs ys] eqn:EqP. destruct P' as [xs' ys'] eqn:EqP'. cbn [fst snd] in *.
  subst xs'. f_equal.
  destruct WP as [[Hs Hl] Hlen]. destruct WP' as [_ Hlen']. cbn [fst snd] in *.
  apply (pwc_canonical xs ys ys' Hs Hlen Hlen').
  intros q Hq. destruct (pieces_In xs Hs q Hq) as (I1 & I2 & I3 & I4).
  pose proof (ssorted_bounds xs Hs) as HB. rewrite Forall_forall in HB.
  destruct q as [a b]. cbn [fst snd] in *. pose proof (mid_between a b I3) as Hmid.
  set (t := mid ROps (a, b)) in *.
  assert (Ht : ts < t < te).
  { pose proof (HB a I1). pose proof (HB b I2). lra. }
  assert (Hn : ~ In t xs) by (intros Hc; destruct (I4 t Hc); lra).
  pose proof (multiP_at eps cy m ts te l H2 HF t Ht) as A1.
  pose proof (multiP_at eps cy m ts te l' H2' HF' t Ht) as A2.
  fold P in A1. fold P' in A2. rewrite EqP in A1. rewrite EqP' in A2. cbn [fst snd] in A1, A2.
  rewrite (A1 Hn), (A2 Hn). f_equal. unfold pairsL, profp.
  rewrite (pairs_psum (fun x y => pval (isi_profile_bi ROps eps cy false m x y) t) l).
  rewrite (pairs_psum (fun x y => pval (isi_profile_bi ROps eps cy false m x y) t) l').
  rewrite (Permutation_length Hp).
  rewrite (psum_perm_in _ l l' Hp); [reflexivity|].
  intros x y Hx Hy. rewrite Forall_forall in HF.
  rewrite (bip_sym eps cy m ts te x y (HF x Hx) (HF y Hy)). reflexivity.
Qed.

(* ------------------------------------------------------------------ *)
(* A (piecewise linear). linearity of the exact integral over [a,b]     *)

Lemma pc_add x0 x1 y y' z z' a b :
  Lem_Pwl.pc x0 x1 (y + y') (z + z') a b = Lem_Pwl.pc x0 x1 y z a b + Lem_Pwl.pc x0 x1 y' z' a b.
Proof.
  unfold Lem_Pwl.pc, Lem_Pwl.trap. rewrite !Lem_Pwl.lin_R.
  destruct (Rltb (Rmax a x0) (Rmin b x1)); unfold Rdiv; ring.
Qed.

Lemma pc_mul x0 x1 y z c a b :
  Lem_Pwl.pc x0 x1 (y * c) (z * c) a b = c * Lem_Pwl.pc x0 x1 y z a b.
Proof.
  unfold Lem_Pwl.pc, Lem_Pwl.trap. rewrite !Lem_Pwl.lin_R.
  destruct (Rltb (Rmax a x0) (Rmin b x1)); unfold Rdiv; ring.
Qed.

Lemma pwl_overlap_add_map (F1 F2 G1 G2 : R * R -> R) bs a b : forall P,
  pwl_overlap ROps bs (map (fun q => F1 q + F2 q) P) (map (fun q => G1 q + G2 q) P) a b =
  pwl_overlap ROps bs (map F1 P) (map G1 P) a b + pwl_overlap ROps bs (map F2 P) (map G2 P) a b.
Proof.
  induction bs as [|x0 bs IH]; intros P; [cbn; lra|].
  destruct bs as [|x1 r]; [cbn; lra|]. destruct P as [|q P]; [cbn; lra|].
  cbn [map]. rewrite !Lem_Pwl.overlap_cons, IH, pc_add. ring.
Qed.

Lemma pwl_overlap_map_mul c xs : forall y1 y2 a b,
  pwl_overlap ROps xs (map (fun y => y * c) y1) (map (fun y => y * c) y2) a b
  = c * pwl_overlap ROps xs y1 y2 a b.
Proof.
  induction xs as [|x0 xs IH]; intros y1 y2 a b; [cbn; lra|].
  destruct xs as [|x1 r]; [cbn; lra|].
  destruct y1 as [|ya y1]; [cbn [map]; rewrite !Lem_Pwl.overlap_nil1; lra|].
  destruct y2 as [|yb y2]; [cbn [map]; rewrite !Lem_Pwl.overlap_nil2; lra|].
  cbn [map]. rewrite !Lem_Pwl.overlap_cons, IH, pc_mul. ring.
Qed.

Theorem pwl_overlap_mul : forall f c a b,
  let h := pwl_mul ROps f c in
  pwl_overlap ROps (fst (fst h)) (snd (fst h)) (snd h) a b
  = c * pwl_overlap ROps (fst (fst f)) (snd (fst f)) (snd f) a b.
Proof.
  intros [[xs y1] y2] c a b. cbn [pwl_mul fst snd nmul ROps]. apply pwl_overlap_map_mul.
Qed.

(* the same line through two of its points *)
Lemma lin_sub_left p q r ya yb t : p < q -> p < r ->
  lin ROps p q ya (lin ROps p r ya yb q) t = lin ROps p r ya yb t.
Proof. intros. rewrite !Lem_Pwl.lin_R. field. lra. Qed.

Lemma lin_sub_right p q r ya yb t : p < r -> q < r ->
  lin ROps q r (lin ROps p r ya yb q) yb t = lin ROps p r ya yb t.
Proof. intros. rewrite !Lem_Pwl.lin_R. field. lra. Qed.

Lemma clamp_lo x0 x1 t : x0 <= x1 -> t <= x0 -> Lem_Pwl.clamp x0 x1 t = x0.
Proof. intros. unfold Lem_Pwl.clamp. rewrite Rmin_left by lra. rewrite Rmax_left by lra. reflexivity. Qed.
Lemma clamp_mid x0 x1 t : x0 <= t -> t <= x1 -> Lem_Pwl.clamp x0 x1 t = t.
Proof. intros. unfold Lem_Pwl.clamp. rewrite Rmin_left by lra. rewrite Rmax_right by lra. reflexivity. Qed.
Lemma clamp_hi x0 x1 t : x0 <= x1 -> x1 <= t -> Lem_Pwl.clamp x0 x1 t = x1.
Proof. intros. unfold Lem_Pwl.clamp. rewrite Rmin_right by lra. rewrite Rmax_right by lra. reflexivity. Qed.

Lemma pc_split p q r ya yb a b : p < q -> q < r -> a <= b ->
  Lem_Pwl.pc p q ya (lin ROps p r ya yb q) a b + Lem_Pwl.pc q r (lin ROps p r ya yb q) yb a b
  = Lem_Pwl.pc p r ya yb a b.
Proof.
  intros Hpq Hqr Hab. rewrite !Lem_Pwl.pc_clamp by lra.
  set (T := fun t => Lem_Pwl.trap p r ya yb p t).
  assert (Tuv : forall u v, Lem_Pwl.trap p r ya yb u v = T v - T u).
  { intros u v. unfold T. rewrite <- (Lem_Pwl.trap_add p r ya yb p u v). ring. }
  assert (L1 : forall u v, Lem_Pwl.trap p q ya (lin ROps p r ya yb q) u v = T v - T u).
  { intros u v. rewrite <- Tuv. unfold Lem_Pwl.trap. rewrite !lin_sub_left by lra. reflexivity. }
  assert (L2 : forall u v, Lem_Pwl.trap q r (lin ROps p r ya yb q) yb u v = T v - T u).
  { intros u v. rewrite <- Tuv. unfold Lem_Pwl.trap. rewrite !lin_sub_right by lra. reflexivity. }
  rewrite L1, L2, Tuv.
  assert (K : forall t, T (Lem_Pwl.clamp p q t) + T (Lem_Pwl.clamp q r t)
                        = T (Lem_Pwl.clamp p r t) + T q).
  { intros t. destruct (Rle_dec t p) as [H1|H1].
    - rewrite (clamp_lo p q), (clamp_lo q r), (clamp_lo p r) by lra. reflexivity.
    - destruct (Rle_dec t q) as [H2|H2].
      + rewrite (clamp_mid p q), (clamp_lo q r), (clamp_mid p r) by lra. reflexivity.
      + destruct (Rle_dec t r) as [H3|H3].
        * rewrite (clamp_hi p q), (clamp_mid q r), (clamp_mid p r) by lra. lra.
        * rewrite (clamp_hi p q), (clamp_hi q r), (clamp_hi p r) by lra. lra. }
  pose proof (K a). pose proof (K b). lra.
Qed.

(* sampling a piecewise linear function on a refinement of its breakpoints *)
Lemma refine_overlap_pwl : forall bs' b0 xs' y1 y2 a b, a <= b ->
  ssorted (b0 :: bs') -> ssorted (b0 :: xs') -> length xs' = length y1 -> length y1 = length y2 ->
  incl xs' bs' -> (forall z, In z bs' -> z <= lastF ROps (b0 :: xs')) ->
  pwl_overlap ROps (b0 :: bs')
    (map (fun q => optval (pwl_right ROps (b0 :: xs') y1 y2 (fst q))) (pieces (b0 :: bs')))
    (map (fun q => optval (pwl_left ROps (b0 :: xs') y1 y2 (snd q))) (pieces (b0 :: bs'))) a b
  = pwl_overlap ROps (b0 :: xs') y1 y2 a b.
Proof.
  induction bs' as [|b1 bs IH]; intros b0 xs' y1 y2 a b Hab Hb Hx Hl1 Hl2 Hincl Hlast.
  - destruct xs' as [|x1 xr]; [|exfalso; apply (Hincl x1); left; auto].
    destruct y1; [|discriminate]. destruct y2; [reflexivity|discriminate].
  - assert (H01 : b0 < b1) by (apply ssorted_cons_inv in Hb as [_ F]; inversion F; auto).
    pose proof (ssorted_tl _ _ Hb) as Hb1.
    pose proof (ssorted_hd_le _ _ Hb1) as Hge. rewrite Forall_forall in Hge.
    destruct xs' as [|x1 xr].
    { exfalso. specialize (Hlast b1 (or_introl eq_refl)). rewrite lastF_one in Hlast. lra. }
    destruct y1 as [|ya y1]; [discriminate|]. destruct y2 as [|yb y2]; [discriminate|].
    cbn [length] in Hl1, Hl2.
    pose proof (ssorted_tl _ _ Hx) as Hx1.
    assert (H0x : b0 < x1) by (apply ssorted_cons_inv in Hx as [_ F]; inversion F; auto).
    pose proof (ssorted_hd_le _ _ Hx1) as Hgx. rewrite Forall_forall in Hgx.
    assert (Hb1x : b1 <= x1) by (apply Hge, Hincl; left; auto).
    rewrite Lem_Pwc.pieces_cons2. cbn [map fst snd]. rewrite !Lem_Pwl.overlap_cons.
    rewrite Lem_Pwl.pwl_right_cons, Lem_Pwl.pwl_left_cons.
    rewrite (Lem_Pwl.nleb_t b0 b0), (Lem_Pwl.Rltb_t b0 x1), (Lem_Pwl.Rltb_t b0 b1),
            (Lem_Pwl.nleb_t b1 x1) by lra.
    cbn [andb optval]. rewrite Lem_Pwl.lin_left.
    rewrite lastF_cons2 in Hlast.
    assert (Hq : forall q, In q (pieces (b1 :: bs)) -> b1 <= fst q /\ b1 < snd q).
    { intros q Hq. destruct (pieces_In _ Hb1 q Hq) as (I1 & _ & I3 & _). apply Hge in I1. lra. }
    destruct (Req_dec b1 x1) as [E|N].
    + subst x1. rewrite Lem_Pwl.lin_right by lra.
      rewrite (map_ext_in _ (fun q => optval (pwl_right ROps (b1 :: xr) y1 y2 (fst q)))).
      2:{ intros q Hq'. destruct (Hq q Hq') as [Q1 Q2].
          rewrite Lem_Pwl.pwl_right_cons, (Lem_Pwl.Rltb_f (fst q) b1) by lra.
          rewrite andb_false_r. reflexivity. }
      rewrite (map_ext_in (fun q => optval (pwl_left ROps _ _ _ (snd q)))
                          (fun q => optval (pwl_left ROps (b1 :: xr) y1 y2 (snd q)))).
      2:{ intros q Hq'. destruct (Hq q Hq') as [Q1 Q2].
          rewrite Lem_Pwl.pwl_left_cons, (Lem_Pwl.nleb_f (snd q) b1) by lra.
          rewrite andb_false_r. reflexivity. }
      rewrite (IH b1 xr y1 y2 a b Hab Hb1 Hx1).
      * reflexivity.
      * lia.
      * lia.
      * intros z Hz. assert (Hz' : In z (b1 :: bs)) by (apply Hincl; right; auto).
        destruct Hz' as [<-|]; auto. exfalso.
        apply ssorted_cons_inv in Hx1 as [_ F]. rewrite Forall_forall in F. apply F in Hz. lra.
      * intros z Hz. apply Hlast. right; auto.
    + assert (Hlt : b1 < x1) by lra.
      assert (Hx' : ssorted (b1 :: x1 :: xr)) by (apply Lem_Pwc.ssorted_cons_lt; auto).
      set (L := lin ROps b0 x1 ya yb b1).
      rewrite (map_ext_in _ (fun q => optval (pwl_right ROps (b1 :: x1 :: xr) (L :: y1) (yb :: y2) (fst q)))).
      2:{ intros q Hq'. destruct (Hq q Hq') as [Q1 Q2].
          rewrite !Lem_Pwl.pwl_right_cons.
          rewrite (Lem_Pwl.nleb_t b0 (fst q)), (Lem_Pwl.nleb_t b1 (fst q)) by lra.
          cbn [andb]. destruct (Rltb (fst q) x1); [|reflexivity].
          unfold L. rewrite lin_sub_right by lra. reflexivity. }
      rewrite (map_ext_in (fun q => optval (pwl_left ROps _ _ _ (snd q)))
                 (fun q => optval (pwl_left ROps (b1 :: x1 :: xr) (L :: y1) (yb :: y2) (snd q)))).
      2:{ intros q Hq'. destruct (Hq q Hq') as [Q1 Q2].
          rewrite !Lem_Pwl.pwl_left_cons.
          rewrite (Lem_Pwl.Rltb_t b0 (snd q)), (Lem_Pwl.Rltb_t b1 (snd q)) by lra.
          cbn [andb]. destruct (nleb ROps (snd q) x1); [|reflexivity].
          unfold L. rewrite lin_sub_right by lra. reflexivity. }
      rewrite (IH b1 (x1 :: xr) (L :: y1) (yb :: y2) a b Hab Hb1 Hx').
      * rewrite Lem_Pwl.overlap_cons. unfold L.
        rewrite <- (pc_split b0 b1 x1 ya yb a b H01 Hlt Hab). ring.
      * cbn [length]. lia.
      * cbn [length]. lia.
      * intros z Hz. assert (Hz' : In z (b1 :: bs)) by (apply Hincl; auto).
        destruct Hz' as [<-|]; auto. exfalso. apply Hgx in Hz. lra.
      * intros z Hz. rewrite lastF_cons2. apply Hlast. right; auto.
Qed.

Lemma refine_overlap_pwl_wf xs y1 y2 B a b : a <= b -> wf_pwl (xs, y1, y2) -> ssorted B ->
  incl xs B -> (forall z, In z B -> nthF ROps xs 0 <= z <= lastF ROps xs) ->
  pwl_overlap ROps B
    (map (fun q => optval (pwl_right ROps xs y1 y2 (fst q))) (pieces B))
    (map (fun q => optval (pwl_left ROps xs y1 y2 (snd q))) (pieces B)) a b
  = pwl_overlap ROps xs y1 y2 a b.
Proof.
  intros Hab W HsB Hincl HR. apply Lem_Pwl.wf_pwl_inv in W as (Hs & Hl & L1 & L2).
  destruct xs as [|x0 xs']; [cbn in Hl; lia|]. rewrite nthF_0 in HR.
  destruct B as [|b0 B']; [exfalso; apply (Hincl x0); left; auto|].
  assert (b0 = x0).
  { pose proof (HR b0 (or_introl eq_refl)) as [Hb _].
    destruct (Hincl x0 (or_introl eq_refl)) as [|Hin]; auto.
    apply ssorted_cons_inv in HsB as [_ F]. rewrite Forall_forall in F. apply F in Hin. lra. }
  subst b0. apply refine_overlap_pwl; auto.
  - intros z Hz. assert (Hz' : In z (x0 :: B')) by (apply Hincl; right; auto).
    destruct Hz' as [<-|]; auto. exfalso.
    apply ssorted_cons_inv in Hs as [_ F]. rewrite Forall_forall in F. apply F in Hz. lra.
  - intros z Hz. apply HR. right; auto.
Qed.

Lemma wf_pwl_range xs y1 y2 : wf_pwl (xs, y1, y2) ->
  forall z, In z xs -> nthF ROps xs 0 <= z <= lastF ROps xs.
Proof.
  intros W z Hz. apply Lem_Pwl.wf_pwl_inv in W as (Hs & _).
  pose proof (ssorted_bounds _ Hs) as Hb. rewrite Forall_forall in Hb. apply Hb; auto.
Qed.

Theorem pwl_overlap_add : forall f g a b, wf_pwl f -> wf_pwl g ->
  nthF ROps (fst (fst f)) 0 = nthF ROps (fst (fst g)) 0 ->
  lastF ROps (fst (fst f)) = lastF ROps (fst (fst g)) ->
  nthF ROps (fst (fst f)) 0 <= a -> a <= b -> b <= lastF ROps (fst (fst f)) ->
  let h := pwl_add_spec ROps f g in
  pwl_overlap ROps (fst (fst h)) (snd (fst h)) (snd h) a b =
  pwl_overlap ROps (fst (fst f)) (snd (fst f)) (snd f) a b
  + pwl_overlap ROps (fst (fst g)) (snd (fst g)) (snd g) a b.
Proof.
  intros [[x1 y11] y12] [[x2 y21] y22] a b W1 W2. cbn [fst snd]. intros E0 EL _ Hab _.
  cbv zeta. unfold pwl_add_spec. cbn [fst snd].
  set (B := sort_unique ROps (x1 ++ x2)).
  assert (HsB : ssorted B) by apply Lem_Pwc.sort_unique_sorted.
  pose proof (wf_pwl_range _ _ _ W1) as R1. pose proof (wf_pwl_range _ _ _ W2) as R2.
  assert (RB : forall z, In z B -> nthF ROps x1 0 <= z <= lastF ROps x1).
  { intros z Hz. unfold B in Hz. apply (proj1 (Lem_Pwc.sort_unique_In _ _)) in Hz.
    apply in_app_or in Hz as [Hz|Hz]; [apply R1; auto|]. rewrite E0, EL. apply R2; auto. }
  rewrite (map_ext (fun p => optsum ROps (pwl_right ROps x1 y11 y12 (fst p)) (pwl_right ROps x2 y21 y22 (fst p)))
             (fun p => optval (pwl_right ROps x1 y11 y12 (fst p)) + optval (pwl_right ROps x2 y21 y22 (fst p))))
    by (intros p; apply optsum_val).
  rewrite (map_ext (fun p => optsum ROps (pwl_left ROps x1 y11 y12 (snd p)) (pwl_left ROps x2 y21 y22 (snd p)))
             (fun p => optval (pwl_left ROps x1 y11 y12 (snd p)) + optval (pwl_left ROps x2 y21 y22 (snd p))))
    by (intros p; apply optsum_val).
  rewrite (pwl_overlap_add_map
             (fun p => optval (pwl_right ROps x1 y11 y12 (fst p)))
             (fun p => optval (pwl_right ROps x2 y21 y22 (fst p)))
             (fun p => optval (pwl_left ROps x1 y11 y12 (snd p)))
             (fun p => optval (pwl_left ROps x2 y21 y22 (snd p)))).
  f_equal.
  - apply refine_overlap_pwl_wf; auto.
    intros z Hz. apply Lem_Pwc.sort_unique_In, in_or_app. left; auto.
  - apply refine_overlap_pwl_wf; auto.
    + intros z Hz. apply Lem_Pwc.sort_unique_In, in_or_app. right; auto.
    + intros z Hz. rewrite <- E0, <- EL. apply RB; auto.
Qed.

(* ------------------------------------------------------------------ *)
(* E'. the events of the multivariate SPIKE-Sync profile do not depend on
   the order of the trains                                              *)

Lemma event_entries_sym v vb (s1 s2 : list R) :
  event_entries ROps v v vb s1 s2 = event_entries ROps v v vb s2 s1.
Proof.
  unfold event_entries.
  rewrite (sort_unique_char (s1 ++ s2) (sort_unique ROps (s2 ++ s1))).
  - apply map_ext. intros t.
    destruct (find _ (contexts s1)), (find _ (contexts s2)); reflexivity.
  - apply Lem_Pwc.sort_unique_sorted.
  - intros x. rewrite Lem_Pwc.sort_unique_In, !in_app_iff. tauto.
Qed.

Lemma sync_bi_sym eps cy mt m ts te (a b : @train R) : mtrain ts te a -> mtrain ts te b ->
  spike_sync_profile_bi ROps eps cy false mt m a b = spike_sync_profile_bi ROps eps cy false mt m b a.
Proof.
  intros Ma Mb. rewrite (sync_bi_spec eps cy mt m ts te a b Ma Mb).
  rewrite (sync_bi_spec eps cy mt m ts te b a Mb Ma).
  unfold sync_spec. cbv zeta. rewrite event_entries_sym. reflexivity.
Qed.

Theorem sync_multi_events_perm : forall eps cy mt m l l' ts te,
  (2 <= length l)%nat -> Forall (mtrain ts te) l -> Permutation l l' ->
  exists P P', spike_sync_profile_multi ROps eps cy false mt m l None = Ok P /\
    spike_sync_profile_multi ROps eps cy false mt m l' None = Ok P' /\
    forall t, sum_at ROps t (interior_entries P) = sum_at ROps t (interior_entries P').
Proof.
  intros eps cy mt m l l' ts te H2 HF Hp.
  assert (HF' : Forall (mtrain ts te) l') by (eapply Permutation_Forall; eauto).
  assert (H2' : (2 <= length l')%nat) by (rewrite <- (Permutation_length Hp); exact H2).
  destruct (sync_multi_events eps cy mt m l ts te H2 HF) as (P & EP & _ & _ & _ & SP).
  destruct (sync_multi_events eps cy mt m l' ts te H2' HF') as (P' & EP' & _ & _ & _ & SP').
  exists P, P'. split; [exact EP|]. split; [exact EP'|].
  intros t. rewrite SP, SP'. rewrite Forall_forall in HF.
  rewrite (pairs_psum (fun a b => fst (sum_at ROps t (interior_entries
             (spike_sync_profile_bi ROps eps cy false mt m a b)))) l).
  rewrite (pairs_psum (fun a b => fst (sum_at ROps t (interior_entries
             (spike_sync_profile_bi ROps eps cy false mt m a b)))) l').
  rewrite (pairs_psum (fun a b => snd (sum_at ROps t (interior_entries
             (spike_sync_profile_bi ROps eps cy false mt m a b)))) l).
  rewrite (pairs_psum (fun a b => snd (sum_at ROps t (interior_entries
             (spike_sync_profile_bi ROps eps cy false mt m a b)))) l').
  f_equal; apply psum_perm_in; auto; intros a b Ha Hb;
    rewrite (sync_bi_sym eps cy mt m ts te a b (HF a Ha) (HF b Hb)); reflexivity.
Qed.

(* ------------------------------------------------------------------ *)
Print Assumptions pwc_overlap_add.
Print Assumptions pwc_overlap_mul.
Print Assumptions pwl_overlap_add.
Print Assumptions pwl_overlap_mul.
Print Assumptions isi_multi_profile_pointwise.
Print Assumptions isi_multi_breakpoints.
Print Assumptions isi_multi_profile_perm.
Print Assumptions isi_multi_distance_is_profile_average.
Print Assumptions isi_multi_distance_is_profile_average_uncond.
Print Assumptions isi_distance_multi_mean.
Print Assumptions isi_distance_multi_perm.
Print Assumptions isi_matrix_entries.
Print Assumptions sync_multi_events.
Print Assumptions sync_multi_events_perm.
