(* Lem_MultiAPI.v — properties C06 / C05 (multivariate part) at the level of the
   API entry points: the multivariate ISI profile is pointwise the mean of the
   pair profiles, the multivariate scalar is the average of the multivariate
   profile, permutation invariance, matrix entries, and the summed events of
   the multivariate SPIKE-Sync profile. *)

From Coq Require Import List Bool Arith ZArith Reals Lra Lia Sorted Permutation.
Import ListNotations.
From PS Require Import Num RLemmas Valid ModelKernels ModelFuncs ModelAPI Spec SyncDefs.
From PS Require Import Lem_Pwc Lem_Multi Lem_IsiProps.
From PS Require Lem_Df Lem_Sync Lem_Tau Lem_Pwl.
Local Open Scope R_scope.

(* ------------------------------------------------------------------ *)
(* A. linearity of the exact integral over [a,b]                        *)

Lemma overlap_add_map (F G : R * R -> R) bs a b : forall P,
  pwc_overlap ROps bs (map (fun q => F q + G q) P) a b =
  pwc_overlap ROps bs (map F P) a b + pwc_overlap ROps bs (map G P) a b.
Proof.
  induction bs as [|x0 bs IH]; intros P; [cbn; lra|].
  destruct bs as [|x1 r]; [cbn; lra|]. destruct P as [|q P]; [cbn; lra|].
  cbn [map]. rewrite !overlap_cons2, IH.
  destruct (Rltb (Rmax a x0) (Rmin b x1)); ring.
Qed.

Lemma seg_split y a b p q r : p < q -> q < r ->
  (if Rltb (Rmax a p) (Rmin b q) then y * (Rmin b q - Rmax a p) else 0)
  + (if Rltb (Rmax a q) (Rmin b r) then y * (Rmin b r - Rmax a q) else 0)
  = (if Rltb (Rmax a p) (Rmin b r) then y * (Rmin b r - Rmax a p) else 0).
Proof. intros Hpq Hqr. segt. Qed.

(* sampling a function on a refinement of its breakpoints keeps the overlap integral *)
Lemma refine_overlap : forall bs' b0 xs' ys a b,
  ssorted (b0 :: bs') -> ssorted (b0 :: xs') -> length xs' = length ys ->
  incl xs' bs' -> (forall z, In z bs' -> z <= lastF ROps (b0 :: xs')) ->
  pwc_overlap ROps (b0 :: bs')
    (map (fun q => optval (pwc_at ROps (b0 :: xs') ys (mid ROps q))) (pieces (b0 :: bs'))) a b
  = pwc_overlap ROps (b0 :: xs') ys a b.
Proof.
  induction bs' as [|b1 bs IH]; intros b0 xs' ys a b Hb Hx Hlen Hincl Hlast.
  - destruct xs' as [|x1 xr]; [|exfalso; apply (Hincl x1); left; auto].
    destruct ys; [reflexivity|discriminate].
  - assert (H01 : b0 < b1) by (apply ssorted_cons_inv in Hb as [_ F]; inversion F; auto).
    pose proof (ssorted_tl _ _ Hb) as Hb1.
    pose proof (ssorted_hd_le _ _ Hb1) as Hge. rewrite Forall_forall in Hge.
    destruct xs' as [|x1 xr].
    { exfalso. specialize (Hlast b1 (or_introl eq_refl)). rewrite lastF_one in Hlast. lra. }
    destruct ys as [|y ys]; [discriminate|]. cbn [length] in Hlen.
    pose proof (ssorted_tl _ _ Hx) as Hx1.
    assert (H0x : b0 < x1) by (apply ssorted_cons_inv in Hx as [_ F]; inversion F; auto).
    pose proof (ssorted_hd_le _ _ Hx1) as Hgx. rewrite Forall_forall in Hgx.
    assert (Hb1x : b1 <= x1) by (apply Hge, Hincl; left; auto).
    pose proof (mid_between b0 b1 H01) as Hm.
    rewrite pieces_cons2. cbn [map]. rewrite !overlap_cons2.
    rewrite pwc_at_first by lra. cbn [optval].
    rewrite lastF_cons2 in Hlast.
    destruct (Req_dec b1 x1) as [E|N].
    + subst x1.
      rewrite (map_ext_in _ (fun q => optval (pwc_at ROps (b1 :: xr) ys (mid ROps q)))).
      2:{ intros q Hq. pose proof (pieces_mid_gt b1 _ q Hb1 Hq).
          rewrite pwc_at_skip by lra. reflexivity. }
      rewrite (IH b1 xr ys a b Hb1 Hx1).
      * reflexivity.
      * lia.
      * intros z Hz. assert (Hz' : In z (b1 :: bs)) by (apply Hincl; right; auto).
        destruct Hz' as [<-|]; auto. exfalso.
        apply ssorted_cons_inv in Hx1 as [_ F]. rewrite Forall_forall in F. apply F in Hz. lra.
      * intros z Hz. apply Hlast. right; auto.
    + assert (Hlt : b1 < x1) by lra.
      assert (Hx' : ssorted (b1 :: x1 :: xr)) by (apply Lem_Pwc.ssorted_cons_lt; auto).
      rewrite (map_ext_in _ (fun q => optval (pwc_at ROps (b1 :: x1 :: xr) (y :: ys) (mid ROps q)))).
      2:{ intros q Hq. pose proof (pieces_mid_gt b1 _ q Hb1 Hq).
          rewrite (pwc_at_rehead b0 b1) by lra. reflexivity. }
      rewrite (IH b1 (x1 :: xr) (y :: ys) a b Hb1 Hx').
      * rewrite overlap_cons2. rewrite <- (seg_split y a b b0 b1 x1 H01 Hlt). ring.
      * cbn [length]. lia.
      * intros z Hz. assert (Hz' : In z (b1 :: bs)) by (apply Hincl; auto).
        destruct Hz' as [<-|]; auto. exfalso. apply Hgx in Hz. lra.
      * intros z Hz. rewrite lastF_cons2. apply Hlast. right; auto.
Qed.

Lemma refine_overlap_wf f B a b : wf_pwc f -> ssorted B -> incl (fst f) B ->
  (forall z, In z B -> nthF ROps (fst f) 0 <= z <= lastF ROps (fst f)) ->
  pwc_overlap ROps B (map (fun q => optval (pwc_at ROps (fst f) (snd f) (mid ROps q))) (pieces B)) a b
  = pwc_overlap ROps (fst f) (snd f) a b.
Proof.
  destruct f as [xs ys]. intros [[Hs Hl] Hlen] HsB Hincl HR. cbn [fst snd] in *.
  destruct xs as [|x0 xs']; [cbn in Hl; lia|]. rewrite nthF_0 in HR.
  destruct B as [|b0 B']; [exfalso; apply (Hincl x0); left; auto|].
  assert (b0 = x0).
  { pose proof (HR b0 (or_introl eq_refl)) as [Hb _].
    destruct (Hincl x0 (or_introl eq_refl)) as [|Hin]; auto.
    apply ssorted_cons_inv in HsB as [_ F]. rewrite Forall_forall in F. apply F in Hin. lra. }
  subst b0. apply refine_overlap; auto.
  - intros z Hz. assert (Hz' : In z (x0 :: B')) by (apply Hincl; right; auto).
    destruct Hz' as [<-|]; auto. exfalso.
    apply ssorted_cons_inv in Hs as [_ F]. rewrite Forall_forall in F. apply F in Hz. lra.
  - intros z Hz. apply HR. right; auto.
Qed.

(* the integral over [a,b] of the pointwise sum (the three range hypotheses on
   a and b are not needed by the proof; they are kept as in the task) *)
Theorem pwc_overlap_add : forall f g a b, wf_pwc f -> wf_pwc g ->
  nthF ROps (fst f) 0 = nthF ROps (fst g) 0 -> lastF ROps (fst f) = lastF ROps (fst g) ->
  nthF ROps (fst f) 0 <= a -> a <= b -> b <= lastF ROps (fst f) ->
  pwc_overlap ROps (fst (pwc_add_spec ROps f g)) (snd (pwc_add_spec ROps f g)) a b =
  pwc_overlap ROps (fst f) (snd f) a b + pwc_overlap ROps (fst g) (snd g) a b.
Proof.
  intros f g a b Hf Hg E0 EL _ _ _. rewrite pwc_add_spec_unfold. cbn [fst snd].
  set (B := sort_unique ROps (fst f ++ fst g)).
  assert (HsB : ssorted B) by apply Lem_Pwc.sort_unique_sorted.
  pose proof (wf_in_range f Hf) as Rf. pose proof (wf_in_range g Hg) as Rg.
  assert (RB : forall z, In z B -> nthF ROps (fst f) 0 <= z <= lastF ROps (fst f)).
  { intros z Hz. unfold B in Hz. apply (proj1 (Lem_Pwc.sort_unique_In _ _)) in Hz.
    apply in_app_or in Hz as [Hz|Hz]; [apply Rf; auto|]. rewrite E0, EL. apply Rg; auto. }
  rewrite (map_ext (addval f g)
             (fun q => optval (pwc_at ROps (fst f) (snd f) (mid ROps q))
                       + optval (pwc_at ROps (fst g) (snd g) (mid ROps q))))
    by (intros q; unfold addval; apply optsum_val).
  rewrite overlap_add_map. f_equal.
  - apply refine_overlap_wf; auto.
    intros z Hz. apply Lem_Pwc.sort_unique_In, in_or_app. left; auto.
  - apply refine_overlap_wf; auto.
    + intros z Hz. apply Lem_Pwc.sort_unique_In, in_or_app. right; auto.
    + intros z Hz. rewrite <- E0, <- EL. apply RB; auto.
Qed.

Lemma overlap_map_mul c xs : forall ys a b,
  pwc_overlap ROps xs (map (fun y => y * c) ys) a b = c * pwc_overlap ROps xs ys a b.
Proof.
  induction xs as [|x0 xs IH]; intros ys a b; [cbn; lra|].
  destruct xs as [|x1 r]; [cbn; lra|]. destruct ys as [|y ys]; [cbn; lra|].
  cbn [map]. rewrite !overlap_cons2, IH.
  destruct (Rltb (Rmax a x0) (Rmin b x1)); ring.
Qed.

Theorem pwc_overlap_mul : forall f c a b,
  pwc_overlap ROps (fst (pwc_mul ROps f c)) (snd (pwc_mul ROps f c)) a b
  = c * pwc_overlap ROps (fst f) (snd f) a b.
Proof. intros f c a b. unfold pwc_mul. cbn [fst snd nmul ROps]. apply overlap_map_mul. Qed.

(* ------------------------------------------------------------------ *)
(* B. profiles on a common interval [ts, te]                            *)

Definition mtrain (ts te : R) (t : @train R) : Prop :=
  valid ts te (tr_spikes t) /\ tr_start t = ts /\ tr_end t = te.

Definition goodp (ts te : R) (f : list R * list R) : Prop :=
  wf_pwc f /\ nthF ROps (fst f) 0 = ts /\ lastF ROps (fst f) = te.

(* value of a profile at a time inside a piece, 0 elsewhere *)
Definition pval (f : list R * list R) (t : R) : R :=
  match pwc_at ROps (fst f) (snd f) t with Some v => v | None => 0 end.

Lemma pval_optval f t : pval f t = optval (pwc_at ROps (fst f) (snd f) t).
Proof. reflexivity. Qed.

Lemma nthF0_hd (l : list R) : nthF ROps l 0 = hd 0 l.
Proof. destruct l; reflexivity. Qed.

Lemma goodp_lt ts te f : goodp ts te f -> ts < te.
Proof. intros (W & <- & <-). apply (wf_first_in f W). Qed.

Lemma goodp_in ts te f : goodp ts te f -> In ts (fst f) /\ In te (fst f).
Proof. intros (W & <- & <-). destruct (wf_first_in f W) as (A & B & _). auto. Qed.

Lemma goodp_range ts te f : goodp ts te f -> forall z, In z (fst f) -> ts <= z <= te.
Proof. intros (W & <- & <-). apply wf_in_range; auto. Qed.

Lemma goodp_add_spec ts te f g : goodp ts te f -> goodp ts te g ->
  goodp ts te (pwc_add_spec ROps f g).
Proof.
  intros Gf Gg. pose proof Gf as (Wf & F0 & FL). pose proof Gg as (Wg & G0 & GL).
  assert (W : wf_pwc (pwc_add_spec ROps f g)) by (apply pwc_add_wf; auto; congruence).
  pose proof (goodp_lt _ _ _ Gf) as Hlt.
  destruct (goodp_in _ _ _ Gf) as [I1 I2].
  pose proof (goodp_range _ _ _ Gf) as Rf. pose proof (goodp_range _ _ _ Gg) as Rg.
  split; [exact W|].
  rewrite pwc_add_spec_unfold in *. cbn [fst snd] in *.
  set (B := sort_unique ROps (fst f ++ fst g)) in *.
  assert (HsB : ssorted B) by apply Lem_Pwc.sort_unique_sorted.
  assert (RB : forall z, In z B -> ts <= z <= te).
  { intros z Hz. apply (proj1 (Lem_Pwc.sort_unique_In _ _)) in Hz.
    apply in_app_or in Hz as [Hz|Hz]; auto. }
  assert (Its : In ts B) by (apply Lem_Pwc.sort_unique_In, in_or_app; auto).
  assert (Ite : In te B) by (apply Lem_Pwc.sort_unique_In, in_or_app; auto).
  pose proof (ssorted_bounds B HsB) as HB. rewrite Forall_forall in HB.
  destruct W as [[_ HlB] _]. cbn [fst] in HlB.
  assert (I0 : In (nthF ROps B 0) B) by (apply nth_In; lia).
  assert (IL : In (lastF ROps B) B) by (rewrite lastF_nth; apply nth_In; lia).
  split.
  - pose proof (HB ts Its). pose proof (RB _ I0). lra.
  - pose proof (HB te Ite). pose proof (RB _ IL). lra.
Qed.

Lemma goodp_add ts te f g : goodp ts te f -> goodp ts te g ->
  pwc_add ROps f g = Ok (pwc_add_spec ROps f g).
Proof.
  intros (Wf & F0 & FL) (Wg & G0 & GL). apply pwc_add_eq_spec; auto; congruence.
Qed.

Lemma goodp_mul ts te f c : goodp ts te f -> goodp ts te (pwc_mul ROps f c).
Proof.
  intros ([Hx Hl] & F0 & FL). unfold goodp, wf_pwc, pwc_mul. cbn [fst snd].
  rewrite map_length. auto.
Qed.

(* inside the support and away from the breakpoints a profile has a value *)
Lemma pwc_at_some xs : forall ys t, ssorted xs -> length xs = S (length ys) ->
  nthF ROps xs 0 < t < lastF ROps xs -> ~ In t xs -> exists v, pwc_at ROps xs ys t = Some v.
Proof.
  induction xs as [|a xs IH]; intros ys t Hs Hl Ht Hn; [discriminate|].
  destruct xs as [|b r].
  { rewrite nthF_0, lastF_one in Ht. lra. }
  destruct ys as [|y ys]; [cbn in Hl; lia|].
  rewrite pwc_at_cons2. rewrite nthF_0 in Ht.
  destruct (Rltb_spec a t) as [_|N]; [|lra].
  destruct (Rltb_spec t b) as [H|H]; cbn [andb]; [eauto|].
  assert (b <> t) by (intros ->; apply Hn; right; left; auto).
  apply IH.
  - eapply ssorted_tl; eauto.
  - cbn [length] in *. lia.
  - rewrite nthF_0. rewrite lastF_cons2 in Ht. lra.
  - intros Hc. apply Hn. right; auto.
Qed.

Lemma goodp_at_some ts te f t : goodp ts te f -> ts < t < te -> ~ In t (fst f) ->
  pwc_at ROps (fst f) (snd f) t = Some (pval f t).
Proof.
  intros ([[Hs Hl] Hlen] & F0 & FL) Ht Hn.
  destruct (pwc_at_some (fst f) (snd f) t Hs Hlen) as (v & E); auto; [rewrite F0, FL; exact Ht|].
  unfold pval. rewrite E. reflexivity.
Qed.

(* the pure sum of a list of profiles *)
Definition sum_spec (a : list R * list R) (r : list (list R * list R)) : list R * list R :=
  fold_left (fun acc g => pwc_add_spec ROps acc g) r a.

Lemma sum_spec_good ts te : forall r a, goodp ts te a -> Forall (goodp ts te) r ->
  goodp ts te (sum_spec a r).
Proof.
  induction r as [|g r IH]; intros a Ga Gr; [exact Ga|].
  inversion Gr; subst. cbn [sum_spec fold_left]. apply IH; auto. apply goodp_add_spec; auto.
Qed.

Lemma sum_spec_in : forall r a x,
  In x (fst (sum_spec a r)) <-> In x (fst a) \/ exists g, In g r /\ In x (fst g).
Proof.
  induction r as [|g r IH]; intros a x.
  - cbn [sum_spec fold_left]. split; [auto|]. intros [H|(g & [] & _)]; auto.
  - cbn [sum_spec fold_left]. fold (sum_spec (pwc_add_spec ROps a g) r). rewrite IH.
    rewrite pwc_add_spec_unfold. cbn [fst]. rewrite Lem_Pwc.sort_unique_In, in_app_iff.
    split.
    + intros [[H|H]|(h & Hh & Hx)]; auto.
      * right. exists g. split; [left|]; auto.
      * right. exists h. split; [right|]; auto.
    + intros [H|(h & [<-|Hh] & Hx)]; auto. right. exists h. auto.
Qed.

Lemma sum_spec_breaks ts te r a : goodp ts te a -> Forall (goodp ts te) r ->
  fst (sum_spec a r) = sort_unique ROps (fst a ++ concat (map fst r)).
Proof.
  intros Ga Gr. symmetry. apply sort_unique_char.
  - destruct (sum_spec_good ts te r a Ga Gr) as ([[Hs _] _] & _). exact Hs.
  - intros x. rewrite sum_spec_in, in_app_iff, in_concat.
    split.
    + intros [H|(g & Hg & Hx)]; auto. right. exists (fst g). split; auto. apply in_map; auto.
    + intros [H|(xs & Hxs & Hx)]; auto. apply in_map_iff in Hxs as (g & <- & Hg). right. eauto.
Qed.

Lemma sumF_cons1 a (l : list R) : sumF ROps (a :: l) = a + sumF ROps l.
Proof. reflexivity. Qed.

Lemma sum_spec_at ts te t : ts < t < te -> forall r a, goodp ts te a -> Forall (goodp ts te) r ->
  ~ In t (fst (sum_spec a r)) ->
  pwc_at ROps (fst (sum_spec a r)) (snd (sum_spec a r)) t
  = Some (pval a t + sumF ROps (map (fun g => pval g t) r)).
Proof.
  intros Ht. induction r as [|g r IH]; intros a Ga Gr Hn.
  - cbn [sum_spec fold_left map] in *. rewrite (goodp_at_some ts te a t Ga Ht Hn).
    f_equal. unfold sumF; cbn [fold_right n0 ROps]. lra.
  - inversion Gr as [|? ? Gg Gr']; subst.
    cbn [sum_spec fold_left] in *. fold (sum_spec (pwc_add_spec ROps a g) r) in *.
    rewrite IH; auto using goodp_add_spec.
    cbn [map]. rewrite sumF_cons1. f_equal.
    assert (Hn' : ~ In t (fst a ++ fst g)).
    { intros Hc. apply Hn. apply sum_spec_in. left.
      rewrite pwc_add_spec_unfold. cbn [fst]. apply Lem_Pwc.sort_unique_In. exact Hc. }
    destruct (goodp_in _ _ _ Ga) as [I1 I2].
    unfold pval at 1.
    rewrite (add_spec_at a g t ts te); auto; try (apply in_or_app; left; auto).
    rewrite optsum_val, <- !pval_optval. cbn [nadd ROps]. lra.
Qed.

Lemma sum_spec_overlap ts te x y : ts <= x -> x <= y -> y <= te ->
  forall r a, goodp ts te a -> Forall (goodp ts te) r ->
  pwc_overlap ROps (fst (sum_spec a r)) (snd (sum_spec a r)) x y
  = pwc_overlap ROps (fst a) (snd a) x y
    + sumF ROps (map (fun g => pwc_overlap ROps (fst g) (snd g) x y) r).
Proof.
  intros Hx Hxy Hy. induction r as [|g r IH]; intros a Ga Gr.
  - cbn [sum_spec fold_left map]. unfold sumF; cbn [fold_right n0 ROps]. lra.
  - inversion Gr as [|? ? Gg Gr']; subst.
    cbn [sum_spec fold_left]. fold (sum_spec (pwc_add_spec ROps a g) r).
    rewrite IH; auto using goodp_add_spec.
    cbn [map]. rewrite sumF_cons1.
    destruct Ga as (Wa & A0 & AL). destruct Gg as (Wg & G0 & GL).
    rewrite pwc_overlap_add; auto; try congruence; try lra. cbn [nadd ROps]. lra.
Qed.

(* the left fold of the model over Ok-valued pair profiles *)
Lemma fold_lstep_spec ts te (prof : nat * nat -> list R * list R) : forall r a,
  goodp ts te a -> Forall (fun q => goodp ts te (prof q)) r ->
  fold_left (lstep (pwc_add ROps) (fun p => Ok (prof p))) r (Ok a) = Ok (sum_spec a (map prof r)).
Proof.
  induction r as [|q r IH]; intros a Ga Gr; [reflexivity|].
  inversion Gr as [|? ? Gq Gr']; subst.
  cbn [fold_left map sum_spec]. unfold lstep at 2. cbn [rbind].
  rewrite (goodp_add ts te a (prof q) Ga Gq). apply IH; auto. apply goodp_add_spec; auto.
Qed.
