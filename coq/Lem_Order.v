(* Lem_Order.v — fusion (C05/C12), ranges (C07) and train-swap (C04/C07)
   lemmas for the merged coincidence scan, R instance. *)
From Coq Require Import List Bool Arith ZArith Reals Lra Lia Sorted Permutation.
Import ListNotations.
From PS Require Import Num RLemmas Valid ModelKernels ModelFuncs ModelAPI Spec SyncDefs.
Local Open Scope R_scope.

Local Notation ev := (@sev R).
Local Notation entry := (R * R * R)%type.

(* ------------------------------------------------------------------ *)
(* sums                                                                *)

Lemma sumF_cons x l : sumF ROps (x :: l) = x + sumF ROps l.
Proof. reflexivity. Qed.
Lemma sumF_nil : sumF ROps [] = 0.
Proof. reflexivity. Qed.
Lemma sumF_app l1 l2 : sumF ROps (l1 ++ l2) = sumF ROps l1 + sumF ROps l2.
Proof.
  induction l1 as [|x l1 IH]; cbn [app].
  - rewrite sumF_nil; lra.
  - rewrite !sumF_cons, IH; lra.
Qed.
Lemma sumF_rev l : sumF ROps (rev l) = sumF ROps l.
Proof.
  induction l as [|x l IH]; cbn [rev]; [reflexivity|].
  rewrite sumF_app, !sumF_cons, sumF_nil, IH; lra.
Qed.

(* ------------------------------------------------------------------ *)
(* 1, 2 : fusion of the single-pass values with the profile sums       *)

(* the look-back write of a hit lands on an unmarked multiplicity-1 entry *)
Definition hd_ok (prev : option ev) (acc : list entry) : Prop :=
  match prev with
  | Some (Adv1 _ false) | Some (Adv2 _ false) => exists t r, acc = (t, 0, 1) :: r
  | _ => True
  end.

Lemma coinc_value_fusion_gen : forall (evs : list ev) prev acc c mp,
  clean_from prev evs = true -> hd_ok prev acc ->
  c = sumF ROps (map (@e_y R) acc) -> mp = sumF ROps (map (@e_mp R) acc) ->
  coinc_value ROps evs c mp =
  (sumF ROps (map (@e_y R) (mark_events ROps 1 1 2 evs acc)),
   sumF ROps (map (@e_mp R) (mark_events ROps 1 1 2 evs acc))).
Proof.
  induction evs as [|e r IH]; intros prev acc c mp Hc Hok Ec Em.
  - cbn [coinc_value mark_events]. rewrite !map_rev, !sumF_rev. subst; reflexivity.
  - cbn [clean_from] in Hc. apply andb_true_iff in Hc as [Hh Hr].
    destruct e as [t [|]|t [|]|t]; cbn [coinc_value mark_events].
    + destruct prev as [[? [|]|? [|]|?]|]; try discriminate Hh.
      destruct Hok as (t' & r' & ->). cbn [set_head_val].
      eapply IH; [exact Hr | exact I | |];
        cbn [map e_y e_mp fst snd] in *; rewrite !sumF_cons in *; subst; rops; lra.
    + eapply IH; [exact Hr | cbn [hd_ok]; eauto | |];
        cbn [map e_y e_mp fst snd] in *; rewrite !sumF_cons in *; subst; rops; lra.
    + destruct prev as [[? [|]|? [|]|?]|]; try discriminate Hh.
      destruct Hok as (t' & r' & ->). cbn [set_head_val].
      eapply IH; [exact Hr | exact I | |];
        cbn [map e_y e_mp fst snd] in *; rewrite !sumF_cons in *; subst; rops; lra.
    + eapply IH; [exact Hr | cbn [hd_ok]; eauto | |];
        cbn [map e_y e_mp fst snd] in *; rewrite !sumF_cons in *; subst; rops; lra.
    + eapply IH; [exact Hr | exact I | |];
        cbn [map e_y e_mp fst snd] in *; rewrite !sumF_cons in *; subst; rops; lra.
Qed.

Theorem coinc_value_fusion : forall evs : list ev, clean_from None evs = true ->
  coinc_value ROps evs 0 0 =
  (sumF ROps (map (@e_y R) (mark_events ROps 1 1 2 evs [])),
   sumF ROps (map (@e_mp R) (mark_events ROps 1 1 2 evs []))).
Proof.
  intros evs Hc. eapply coinc_value_fusion_gen; [exact Hc | exact I | reflexivity | reflexivity].
Qed.

Lemma order_value_fusion_gen : forall (evs : list ev) prev acc c mp,
  clean_from prev evs = true -> hd_ok prev acc ->
  c = sumF ROps (map (@e_y R) acc) -> mp = sumF ROps (map (@e_mp R) acc) ->
  order_value ROps evs c mp =
  (sumF ROps (map (@e_y R) (mark_events ROps (0 - 1) 1 0 evs acc)),
   sumF ROps (map (@e_mp R) (mark_events ROps (0 - 1) 1 0 evs acc))).
Proof.
  induction evs as [|e r IH]; intros prev acc c mp Hc Hok Ec Em.
  - cbn [order_value mark_events]. rewrite !map_rev, !sumF_rev. subst; reflexivity.
  - cbn [clean_from] in Hc. apply andb_true_iff in Hc as [Hh Hr].
    destruct e as [t [|]|t [|]|t]; cbn [order_value mark_events].
    + destruct prev as [[? [|]|? [|]|?]|]; try discriminate Hh.
      destruct Hok as (t' & r' & ->). cbn [set_head_val].
      eapply IH; [exact Hr | exact I | |];
        cbn [map e_y e_mp fst snd] in *; rewrite !sumF_cons in *; subst; rops; lra.
    + eapply IH; [exact Hr | cbn [hd_ok]; eauto | |];
        cbn [map e_y e_mp fst snd] in *; rewrite !sumF_cons in *; subst; rops; lra.
    + destruct prev as [[? [|]|? [|]|?]|]; try discriminate Hh.
      destruct Hok as (t' & r' & ->). cbn [set_head_val].
      eapply IH; [exact Hr | exact I | |];
        cbn [map e_y e_mp fst snd] in *; rewrite !sumF_cons in *; subst; rops; lra.
    + eapply IH; [exact Hr | cbn [hd_ok]; eauto | |];
        cbn [map e_y e_mp fst snd] in *; rewrite !sumF_cons in *; subst; rops; lra.
    + eapply IH; [exact Hr | exact I | |];
        cbn [map e_y e_mp fst snd] in *; rewrite !sumF_cons in *; subst; rops; lra.
Qed.

Theorem order_value_fusion : forall evs : list ev, clean_from None evs = true ->
  order_value ROps evs 0 0 =
  (sumF ROps (map (@e_y R) (mark_events ROps (0 - 1) 1 0 evs [])),
   sumF ROps (map (@e_mp R) (mark_events ROps (0 - 1) 1 0 evs []))).
Proof.
  intros evs Hc. eapply order_value_fusion_gen; [exact Hc | exact I | reflexivity | reflexivity].
Qed.

(* ------------------------------------------------------------------ *)
(* 3, 4 : directionality                                               *)

Definition dir_ok (prev : option ev) (a1 a2 : list R) : Prop :=
  match prev with
  | Some (Adv1 _ false) => exists r, a1 = 0 :: r
  | Some (Adv2 _ false) => exists r, a2 = 0 :: r
  | _ => True
  end.

Lemma dir_gen : forall (evs : list ev) prev a1 a2 d,
  clean_from prev evs = true -> dir_ok prev a1 a2 -> d = sumF ROps a1 ->
  sumF ROps (fst (dir_marks ROps evs a1 a2)) = dir_value ROps evs d /\
  sumF ROps (fst (dir_marks ROps evs a1 a2)) + sumF ROps (snd (dir_marks ROps evs a1 a2))
  = sumF ROps a1 + sumF ROps a2.
Proof.
  induction evs as [|e r IH]; intros prev a1 a2 d Hc Hok Ed.
  - cbn [dir_marks dir_value fst snd]. rewrite !sumF_rev. subst; split; reflexivity.
  - cbn [clean_from] in Hc. apply andb_true_iff in Hc as [Hh Hr].
    destruct e as [t [|]|t [|]|t]; cbn [dir_marks dir_value].
    + destruct prev as [[? [|]|? [|]|?]|]; try discriminate Hh.
      destruct Hok as (r' & ->). cbn [set_head].
      destruct (IH (Some (Adv1 t true)) ((0 - 1) :: a1) (1 :: r') (d - 1) Hr I) as [E1 E2].
      { rewrite sumF_cons; subst; rops; lra. }
      split; [exact E1|]. etransitivity; [exact E2|]. rewrite !sumF_cons. rops; lra.
    + destruct (IH (Some (Adv1 t false)) (0 :: a1) a2 d Hr) as [E1 E2].
      { cbn [dir_ok]; eauto. }
      { rewrite sumF_cons; subst; rops; lra. }
      split; [exact E1|]. etransitivity; [exact E2|]. rewrite !sumF_cons. rops; lra.
    + destruct prev as [[? [|]|? [|]|?]|]; try discriminate Hh.
      destruct Hok as (r' & ->). cbn [set_head].
      destruct (IH (Some (Adv2 t true)) (1 :: r') ((0 - 1) :: a2) (d + 1) Hr I) as [E1 E2].
      { rewrite sumF_cons in *; subst; rops; lra. }
      split; [exact E1|]. etransitivity; [exact E2|]. rewrite !sumF_cons. rops; lra.
    + destruct (IH (Some (Adv2 t false)) a1 (0 :: a2) d Hr) as [E1 E2].
      { cbn [dir_ok]; eauto. }
      { exact Ed. }
      split; [exact E1|]. etransitivity; [exact E2|]. rewrite !sumF_cons. rops; lra.
    + destruct (IH (Some (Both t)) (0 :: a1) (0 :: a2) d Hr I) as [E1 E2].
      { rewrite sumF_cons; subst; rops; lra. }
      split; [exact E1|]. etransitivity; [exact E2|]. rewrite !sumF_cons. rops; lra.
Qed.

Theorem dir_value_fusion : forall evs : list ev, clean_from None evs = true ->
  dir_value ROps evs 0 = sumF ROps (fst (dir_marks ROps evs [] [])).
Proof.
  intros evs Hc. symmetry. eapply dir_gen; [exact Hc | exact I | reflexivity].
Qed.

Theorem dir_sum_zero : forall evs : list ev, clean_from None evs = true ->
  sumF ROps (fst (dir_marks ROps evs [] [])) + sumF ROps (snd (dir_marks ROps evs [] [])) = 0.
Proof.
  intros evs Hc.
  destruct (dir_gen evs None [] [] 0 Hc I eq_refl) as [_ E]. rewrite E, sumF_nil. lra.
Qed.

(* ------------------------------------------------------------------ *)
(* 9, 10 : the consumers under exchange of the two trains              *)

Theorem mark_events_swap : forall v1 v2 vb (evs : list ev) acc,
  mark_events ROps v2 v1 vb (map swap_ev evs) acc = mark_events ROps v1 v2 vb evs acc.
Proof.
  intros v1 v2 vb. induction evs as [|e r IH]; intros acc; [reflexivity|].
  destruct e as [t [|]|t [|]|t]; cbn [map swap_ev mark_events]; apply IH.
Qed.

Theorem dir_marks_swap : forall (evs : list ev) a1 a2,
  dir_marks ROps (map swap_ev evs) a2 a1 =
  (snd (dir_marks ROps evs a1 a2), fst (dir_marks ROps evs a1 a2)).
Proof.
  induction evs as [|e r IH]; intros a1 a2; [reflexivity|].
  destruct e as [t [|]|t [|]|t]; cbn [map swap_ev dir_marks]; apply IH.
Qed.

(* ------------------------------------------------------------------ *)
(* 8 : the scan itself                                                 *)

(* In R the tie branch is taken exactly when a = b, so no side condition
   on ties is needed. *)
Theorem coinc_events_swap : forall (tau tau' : option (@ctx R) -> option (@ctx R) -> R)
    fuel p1 f1 p2 f2,
  (forall c1 c2, tau' c2 c1 = tau c1 c2) ->
  coinc_events ROps tau' fuel p2 f2 p1 f1 = map swap_ev (coinc_events ROps tau fuel p1 f1 p2 f2).
Proof.
  intros tau tau' fuel p1 f1 p2 f2 Ht. revert p1 f1 p2 f2.
  induction fuel as [|k IH]; intros p1 f1 p2 f2; [reflexivity|].
  destruct f1 as [|a f1'], f2 as [|b f2']; cbn [coinc_events map swap_ev].
  - reflexivity.
  - rewrite Ht, IH. reflexivity.
  - rewrite Ht, IH. reflexivity.
  - change (nltb ROps a b) with (Rltb a b); change (nltb ROps b a) with (Rltb b a).
    destruct (Rltb_spec a b) as [Hab|Hab], (Rltb_spec b a) as [Hba|Hba]; try lra.
    + cbn [map swap_ev]. rewrite Ht, IH. reflexivity.
    + cbn [map swap_ev]. rewrite Ht, IH. reflexivity.
    + assert (a = b) as -> by lra. cbn [map swap_ev]. rewrite IH. reflexivity.
Qed.

(* Version for sorted trains: tau only has to be symmetric on pairs of
   contexts whose current spikes differ.  Invariant: the last consumed spike
   of each train lies strictly before the next spike of the other train. *)
Definition hd_lt (p f : list R) : Prop :=
  match p, f with y :: _, a :: _ => y < a | _, _ => True end.

Definition tau_sym_off (tau tau' : option (@ctx R) -> option (@ctx R) -> R) : Prop :=
  forall x y : @ctx R, c_cur x <> c_cur y -> tau' (Some y) (Some x) = tau (Some x) (Some y).

Lemma hd_lt_tl p a f : ssorted (a :: f) -> hd_lt p (a :: f) -> hd_lt p f.
Proof.
  intros S H. destruct p as [|y p], f as [|a' f]; cbn [hd_lt] in *; auto.
  apply ssorted_cons_inv in S as [_ F]. inversion F; subst. lra.
Qed.
Lemma hd_lt_cons a p f : ssorted (a :: f) -> hd_lt (a :: p) f.
Proof.
  intros S. destruct f as [|a' f]; cbn [hd_lt]; auto.
  apply ssorted_cons_inv in S as [_ F]. inversion F; subst. lra.
Qed.
Lemma ssorted_tl a f : ssorted (a :: f) -> ssorted f.
Proof. intros S; apply ssorted_cons_inv in S; tauto. Qed.

Lemma hit_swap tau tau' a p1 f1' p2 f2 : tau_sym_off tau tau' -> hd_lt p2 (a :: f1') ->
  match p2 with
  | y :: _ => nltb ROps (nsub ROps a y) (tau' (ctx_of p2 f2) (ctx_of (a :: p1) f1'))
  | [] => false
  end =
  match p2 with
  | y :: _ => nltb ROps (nsub ROps a y) (tau (ctx_of (a :: p1) f1') (ctx_of p2 f2))
  | [] => false
  end.
Proof.
  intros Ht H. destruct p2 as [|y p2]; [reflexivity|]. cbn [ctx_of].
  rewrite Ht; [reflexivity|]. cbn [c_cur hd_lt] in *. lra.
Qed.

Lemma hit_swap2 tau tau' b p2 f2' p1 f1 : tau_sym_off tau tau' -> hd_lt p1 (b :: f2') ->
  match p1 with
  | x :: _ => nltb ROps (nsub ROps b x) (tau' (ctx_of (b :: p2) f2') (ctx_of p1 f1))
  | [] => false
  end =
  match p1 with
  | x :: _ => nltb ROps (nsub ROps b x) (tau (ctx_of p1 f1) (ctx_of (b :: p2) f2'))
  | [] => false
  end.
Proof.
  intros Ht H. destruct p1 as [|x p1]; [reflexivity|]. cbn [ctx_of].
  rewrite Ht; [reflexivity|]. cbn [c_cur hd_lt] in *. lra.
Qed.

Lemma coinc_events_swap_sorted tau tau' : tau_sym_off tau tau' ->
  forall fuel p1 f1 p2 f2, ssorted f1 -> ssorted f2 -> hd_lt p2 f1 -> hd_lt p1 f2 ->
  coinc_events ROps tau' fuel p2 f2 p1 f1 = map swap_ev (coinc_events ROps tau fuel p1 f1 p2 f2).
Proof.
  intros Ht. induction fuel as [|k IH]; intros p1 f1 p2 f2 S1 S2 H21 H12; [reflexivity|].
  destruct f1 as [|a f1'], f2 as [|b f2']; cbn [coinc_events map swap_ev].
  - reflexivity.
  - rewrite (hit_swap2 tau tau' b p2 f2' p1 [] Ht H12).
    rewrite IH; eauto using ssorted_tl, hd_lt_tl, hd_lt_cons, ssorted_nil; try exact I.
  - rewrite (hit_swap tau tau' a p1 f1' p2 [] Ht H21).
    rewrite IH; eauto using ssorted_tl, hd_lt_tl, hd_lt_cons, ssorted_nil; try exact I.
  - change (nltb ROps a b) with (Rltb a b); change (nltb ROps b a) with (Rltb b a).
    destruct (Rltb_spec a b) as [Hab|Hab], (Rltb_spec b a) as [Hba|Hba]; try lra.
    + cbn [map swap_ev]. rewrite (hit_swap tau tau' a p1 f1' p2 (b :: f2') Ht H21).
      rewrite IH; eauto using ssorted_tl, hd_lt_tl, hd_lt_cons, ssorted_nil; try exact I.
    + cbn [map swap_ev]. rewrite (hit_swap2 tau tau' b p2 f2' p1 (a :: f1') Ht H12).
      rewrite IH; eauto using ssorted_tl, hd_lt_tl, hd_lt_cons, ssorted_nil; try exact I.
    + assert (a = b) as -> by lra. cbn [map swap_ev].
      rewrite IH; eauto using ssorted_tl, hd_lt_tl, hd_lt_cons, ssorted_nil; try exact I.
Qed.

Lemma coinc_scan_swap_sorted tau tau' s1 s2 : tau_sym_off tau tau' ->
  ssorted s1 -> ssorted s2 ->
  coinc_scan ROps tau' s2 s1 = map swap_ev (coinc_scan ROps tau s1 s2).
Proof.
  intros Ht S1 S2. unfold coinc_scan. rewrite (Nat.add_comm (length s2)).
  apply coinc_events_swap_sorted; auto; exact I.
Qed.

(* ------------------------------------------------------------------ *)
(* 11 : get_tau under exchange of its two contexts                     *)

(* Exact side condition: both contexts present with different current
   spikes (or both absent).  With exactly one context absent the statement
   is false (see the counterexample in the report): [first_le] is then true
   in both argument orders and [interp] is not symmetric in its first two
   arguments. *)
Definition swap_ok (c1 c2 : option (@ctx R)) : Prop :=
  match c1, c2 with
  | Some x, Some y => c_cur x <> c_cur y
  | None, None => True
  | _, _ => False
  end.

Theorem get_tau_swap : forall c1 c2 lim m, swap_ok c1 c2 ->
  get_tau ROps c2 c1 lim m = get_tau ROps c1 c2 lim m.
Proof.
  intros c1 c2 lim m H. unfold get_tau, get_tau_gen.
  destruct c1 as [x|], c2 as [y|]; cbn [swap_ok] in H; try contradiction; [|reflexivity].
  cbn [first_le].
  destruct (nleb ROps (c_cur x) (c_cur y)) eqn:E1, (nleb ROps (c_cur y) (c_cur x)) eqn:E2.
  - apply nleb_true in E1, E2. exfalso; apply H; lra.
  - rewrite !R_nmin. f_equal. apply Rmin_comm.
  - rewrite !R_nmin. f_equal. apply Rmin_comm.
  - apply nleb_false in E1, E2. lra.
Qed.

Lemma tau_fn_sym_off ts te mt m :
  tau_sym_off (tau_fn ROps (get_tau ROps) ts te mt m) (tau_fn ROps (get_tau ROps) ts te mt m).
Proof.
  intros x y H. unfold tau_fn. apply get_tau_swap. exact H.
Qed.

(* ------------------------------------------------------------------ *)
(* 12 : corollaries for strictly sorted trains                         *)

Lemma coinc_scan_get_tau_swap s1 s2 ts te mt m : ssorted s1 -> ssorted s2 ->
  coinc_scan ROps (tau_fn ROps (get_tau ROps) ts te mt m) s2 s1 =
  map swap_ev (coinc_scan ROps (tau_fn ROps (get_tau ROps) ts te mt m) s1 s2).
Proof. intros; apply coinc_scan_swap_sorted; auto using tau_fn_sym_off. Qed.

Theorem sync_profile_sym : forall s1 s2 ts te mt m, ssorted s1 -> ssorted s2 ->
  coincidence_profile_gen ROps (get_tau ROps) s2 s1 ts te mt m =
  coincidence_profile_gen ROps (get_tau ROps) s1 s2 ts te mt m.
Proof.
  intros s1 s2 ts te mt m S1 S2. unfold coincidence_profile_gen.
  rewrite (coinc_scan_get_tau_swap s1 s2 ts te mt m S1 S2), mark_events_swap. reflexivity.
Qed.

Theorem dir_swap : forall s1 s2 ts te mt m, ssorted s1 -> ssorted s2 ->
  directionality_profile_gen ROps (get_tau ROps) s2 s1 ts te mt m =
  (snd (directionality_profile_gen ROps (get_tau ROps) s1 s2 ts te mt m),
   fst (directionality_profile_gen ROps (get_tau ROps) s1 s2 ts te mt m)).
Proof.
  intros s1 s2 ts te mt m S1 S2. unfold directionality_profile_gen.
  rewrite (coinc_scan_get_tau_swap s1 s2 ts te mt m S1 S2). apply dir_marks_swap.
Qed.

Theorem dir_antisym : forall s1 s2 ts te mt m, ssorted s1 -> ssorted s2 ->
  clean_from None (coinc_scan ROps (tau_fn ROps (get_tau ROps) ts te mt m) s1 s2) = true ->
  sumF ROps (fst (directionality_profile_gen ROps (get_tau ROps) s1 s2 ts te mt m)) =
  - sumF ROps (fst (directionality_profile_gen ROps (get_tau ROps) s2 s1 ts te mt m)).
Proof.
  intros s1 s2 ts te mt m S1 S2 Hc. rewrite (dir_swap s1 s2 ts te mt m S1 S2). cbn [fst].
  unfold directionality_profile_gen. pose proof (dir_sum_zero _ Hc) as E. lra.
Qed.

(* order profile: values are negated *)
Definition neg_e (e : entry) : entry := (e_t e, - e_y e, e_mp e).

Lemma set_head_val_neg v acc :
  set_head_val (- v) (map neg_e acc) = map neg_e (set_head_val v acc).
Proof. destruct acc as [|[[t y] mp] r]; reflexivity. Qed.

Lemma mark_events_neg v1 v2 vb w1 w2 wb : w1 = - v1 -> w2 = - v2 -> wb = - vb ->
  forall (evs : list ev) acc,
  mark_events ROps w1 w2 wb evs (map neg_e acc) = map neg_e (mark_events ROps v1 v2 vb evs acc).
Proof.
  intros -> -> ->. induction evs as [|e r IH]; intros acc.
  - cbn [mark_events]. rewrite map_rev. reflexivity.
  - assert (Z : forall t : R, (t, n0 ROps, n1 ROps) = neg_e (t, n0 ROps, n1 ROps)).
    { intros t. unfold neg_e, e_t, e_y, e_mp; cbn [fst snd n0 n1 ROps]. rewrite Ropp_0. reflexivity. }
    destruct e as [t [|]|t [|]|t]; cbn [mark_events].
    + rewrite set_head_val_neg. apply (IH ((t, v1, n1 ROps) :: set_head_val v1 acc)).
    + etransitivity; [|apply (IH ((t, n0 ROps, n1 ROps) :: acc))]. cbn [map]. rewrite <- Z. reflexivity.
    + rewrite set_head_val_neg. apply (IH ((t, v2, n1 ROps) :: set_head_val v2 acc)).
    + etransitivity; [|apply (IH ((t, n0 ROps, n1 ROps) :: acc))]. cbn [map]. rewrite <- Z. reflexivity.
    + apply (IH ((t, vb, n2 ROps) :: acc)).
Qed.

Lemma last_map {A B} (f : A -> B) l d : last (map f l) (f d) = f (last l d).
Proof.
  induction l as [|x l IH]; [reflexivity|]. destruct l as [|y l]; [reflexivity|]. exact IH.
Qed.

Lemma frame_profile_neg ts te l : l <> [] ->
  frame_profile ROps ts te (map neg_e l) = map neg_e (frame_profile ROps ts te l).
Proof.
  destruct l as [|e0 l]; [congruence|]. intros _.
  unfold frame_profile. cbn [map]. rewrite map_app.
  change (neg_e e0 :: map neg_e l) with (map neg_e (e0 :: l)). rewrite last_map.
  reflexivity.
Qed.

Lemma mark_events_length v1 v2 vb : forall (evs : list ev) acc,
  length (mark_events ROps v1 v2 vb evs acc) = (length evs + length acc)%nat.
Proof.
  induction evs as [|e r IH]; intros acc.
  - cbn [mark_events]. rewrite rev_length. reflexivity.
  - destruct e as [t [|]|t [|]|t]; cbn [mark_events]; rewrite IH; cbn [length];
      try (destruct acc as [|[[? ?] ?] ?]; cbn [set_head_val length]); lia.
Qed.

Lemma coinc_scan_nonempty tau (s1 s2 : list R) : s1 <> [] \/ s2 <> [] -> coinc_scan ROps tau s1 s2 <> [].
Proof.
  intros H. unfold coinc_scan.
  destruct s1 as [|a s1], s2 as [|b s2]; cbn [length Nat.add coinc_events].
  - destruct H; congruence.
  - discriminate.
  - discriminate.
  - destruct (nltb ROps a b); [discriminate|]. destruct (nltb ROps b a); discriminate.
Qed.

(* the interior entries (before framing) *)
Theorem order_entries_swap : forall s1 s2 ts te mt m, ssorted s1 -> ssorted s2 ->
  mark_events ROps (0 - 1) 1 0 (coinc_scan ROps (tau_fn ROps (get_tau ROps) ts te mt m) s2 s1) [] =
  map neg_e (mark_events ROps (0 - 1) 1 0 (coinc_scan ROps (tau_fn ROps (get_tau ROps) ts te mt m) s1 s2) []).
Proof.
  intros s1 s2 ts te mt m S1 S2.
  rewrite (coinc_scan_get_tau_swap s1 s2 ts te mt m S1 S2), mark_events_swap.
  refine (mark_events_neg (0 - 1) 1 0 1 (0 - 1) 0 _ _ _ _ []); lra.
Qed.

Theorem order_profile_swap : forall s1 s2 ts te mt m, ssorted s1 -> ssorted s2 ->
  s1 <> [] \/ s2 <> [] ->
  order_profile_gen ROps (get_tau ROps) s2 s1 ts te mt m =
  map neg_e (order_profile_gen ROps (get_tau ROps) s1 s2 ts te mt m).
Proof.
  intros s1 s2 ts te mt m S1 S2 Hne. unfold order_profile_gen.
  change (nsub ROps (n0 ROps) (n1 ROps)) with (0 - 1). change (n1 ROps) with 1. change (n0 ROps) with 0.
  rewrite (order_entries_swap s1 s2 ts te mt m S1 S2). apply frame_profile_neg.
  intros E. apply (f_equal (@length _)) in E. rewrite mark_events_length in E. cbn [length] in E.
  apply (coinc_scan_nonempty (tau_fn ROps (get_tau ROps) ts te mt m)) in Hne.
  destruct (coinc_scan ROps (tau_fn ROps (get_tau ROps) ts te mt m) s1 s2); [congruence|cbn [length] in E; lia].
Qed.

Theorem order_profile_swap_empty : forall ts te mt m,
  order_profile_gen ROps (get_tau ROps) [] [] ts te mt m = [(ts, 1, 1); (te, 1, 1)].
Proof. reflexivity. Qed.

(* ------------------------------------------------------------------ *)
(* 5 : lengths of the directionality lists                             *)

Definition is_ev1 (e : ev) : bool := match e with Adv1 _ _ | Both _ => true | Adv2 _ _ => false end.
Definition is_ev2 (e : ev) : bool := match e with Adv2 _ _ | Both _ => true | Adv1 _ _ => false end.

Lemma set_head_length (v : R) a : length (set_head v a) = length a.
Proof. destruct a; reflexivity. Qed.

Lemma dir_marks_lengths_gen : forall (evs : list ev) a1 a2,
  length (fst (dir_marks ROps evs a1 a2)) = (length a1 + length (filter is_ev1 evs))%nat /\
  length (snd (dir_marks ROps evs a1 a2)) = (length a2 + length (filter is_ev2 evs))%nat.
Proof.
  induction evs as [|e r IH]; intros a1 a2.
  - cbn [dir_marks fst snd filter length]. rewrite !rev_length. lia.
  - destruct e as [t [|]|t [|]|t]; cbn [dir_marks filter is_ev1 is_ev2].
    + destruct (IH ((0 - 1) :: a1) (set_head 1 a2)) as [E1 E2].
      split; [etransitivity; [exact E1|] | etransitivity; [exact E2|]];
        rewrite ?set_head_length; cbn [length]; lia.
    + destruct (IH (0 :: a1) a2) as [E1 E2].
      split; [etransitivity; [exact E1|] | etransitivity; [exact E2|]]; cbn [length]; lia.
    + destruct (IH (set_head 1 a1) ((0 - 1) :: a2)) as [E1 E2].
      split; [etransitivity; [exact E1|] | etransitivity; [exact E2|]];
        rewrite ?set_head_length; cbn [length]; lia.
    + destruct (IH a1 (0 :: a2)) as [E1 E2].
      split; [etransitivity; [exact E1|] | etransitivity; [exact E2|]]; cbn [length]; lia.
    + destruct (IH (0 :: a1) (0 :: a2)) as [E1 E2].
      split; [etransitivity; [exact E1|] | etransitivity; [exact E2|]]; cbn [length]; lia.
Qed.

Theorem dir_marks_lengths : forall evs : list ev,
  length (fst (dir_marks ROps evs [] [])) = length (filter is_ev1 evs) /\
  length (snd (dir_marks ROps evs [] [])) = length (filter is_ev2 evs).
Proof. intros evs. exact (dir_marks_lengths_gen evs [] []). Qed.

(* ------------------------------------------------------------------ *)
(* 6 : range of the directionality values (holds for any event list)   *)

Definition tri (v : R) : Prop := v = -1 \/ v = 0 \/ v = 1.

Lemma set_head_tri a : Forall tri a -> Forall tri (set_head 1 a).
Proof.
  intros H. destruct a as [|x a]; cbn [set_head]; [constructor|].
  inversion H; subst. constructor; [unfold tri; lra | assumption].
Qed.

Lemma dir_marks_range_gen : forall (evs : list ev) a1 a2, Forall tri a1 -> Forall tri a2 ->
  Forall tri (fst (dir_marks ROps evs a1 a2)) /\ Forall tri (snd (dir_marks ROps evs a1 a2)).
Proof.
  assert (T0 : tri (n0 ROps)) by (unfold tri; cbn; lra).
  assert (Tm : tri (nsub ROps (n0 ROps) (n1 ROps))) by (unfold tri; cbn; lra).
  induction evs as [|e r IH]; intros a1 a2 H1 H2.
  - cbn [dir_marks fst snd]. split; apply Forall_rev; assumption.
  - destruct e as [t [|]|t [|]|t]; cbn [dir_marks]; apply IH;
      auto using set_head_tri.
Qed.

Theorem dir_marks_range : forall evs : list ev, clean_from None evs = true ->
  Forall tri (fst (dir_marks ROps evs [] [])) /\ Forall tri (snd (dir_marks ROps evs [] [])).
Proof. intros evs _. apply dir_marks_range_gen; constructor. Qed.

(* ------------------------------------------------------------------ *)
(* 7 : ranges of the profile entries (hold for any event list)         *)

Lemma mark_events_Forall (P : entry -> Prop) v1 v2 vb :
  (forall t, P (t, 0, 1)) -> (forall t, P (t, v1, 1)) -> (forall t, P (t, v2, 1)) ->
  (forall t, P (t, vb, 2)) ->
  (forall t y mp, P (t, y, mp) -> P (t, v1, mp) /\ P (t, v2, mp)) ->
  forall (evs : list ev) acc, Forall P acc -> Forall P (mark_events ROps v1 v2 vb evs acc).
Proof.
  intros P0 P1 P2 Pb Ps.
  assert (Hs : forall v acc, (v = v1 \/ v = v2) -> Forall P acc -> Forall P (set_head_val v acc)).
  { intros v acc Hv H. destruct acc as [|[[t y] mp] r]; cbn [set_head_val]; [constructor|].
    inversion H; subst. constructor; [|assumption].
    destruct (Ps t y mp H2) as [A B]. destruct Hv; subst; assumption. }
  induction evs as [|e r IH]; intros acc H.
  - cbn [mark_events]. apply Forall_rev; assumption.
  - destruct e as [t [|]|t [|]|t]; cbn [mark_events]; apply IH; constructor; auto.
Qed.

Theorem mark_range : forall evs : list ev, clean_from None evs = true ->
  Forall (fun e => 0 <= e_y e <= e_mp e) (mark_events ROps 1 1 2 evs []) /\
  Forall (fun e => Rabs (e_y e) <= e_mp e) (mark_events ROps (0 - 1) 1 0 evs []).
Proof.
  intros evs _. split.
  - eapply Forall_impl; [|apply (mark_events_Forall
      (fun e => 0 <= e_y e <= e_mp e /\ 1 <= e_mp e) 1 1 2)]; cbv beta.
    + intros e H; tauto.
    + intros t; unfold e_y, e_mp; cbn [fst snd]; lra.
    + intros t; unfold e_y, e_mp; cbn [fst snd]; lra.
    + intros t; unfold e_y, e_mp; cbn [fst snd]; lra.
    + intros t; unfold e_y, e_mp; cbn [fst snd]; lra.
    + intros t y mp; unfold e_y, e_mp; cbn [fst snd]; lra.
    + constructor.
  - eapply Forall_impl; [|apply (mark_events_Forall
      (fun e => Rabs (e_y e) <= e_mp e /\ 1 <= e_mp e) (0 - 1) 1 0)]; cbv beta.
    + intros e H; tauto.
    + intros t; unfold e_y, e_mp; cbn [fst snd]; rewrite Rabs_R0; lra.
    + intros t; unfold e_y, e_mp; cbn [fst snd]; unfold Rabs; destruct (Rcase_abs (0 - 1)); lra.
    + intros t; unfold e_y, e_mp; cbn [fst snd]; rewrite Rabs_R1; lra.
    + intros t; unfold e_y, e_mp; cbn [fst snd]; rewrite Rabs_R0; lra.
    + intros t y mp; unfold e_y, e_mp; cbn [fst snd]; rewrite Rabs_R1.
      unfold Rabs at 2; destruct (Rcase_abs (0 - 1)); lra.
    + constructor.
Qed.

(* ------------------------------------------------------------------ *)
(* the side condition of [get_tau_swap] is needed: two counterexamples  *)

Ltac eval_ltb :=
  repeat match goal with |- context [Rltb ?a ?b] =>
    first [ replace (Rltb a b) with true by (symmetry; apply Rltb_true; lra)
          | replace (Rltb a b) with false by (symmetry; apply Rltb_false; lra) ]; cbv iota end.

(* exactly one context absent *)
Lemma get_tau_swap_None_false :
  let c2 := Some (mkCtx (Some 0) 4 (Some 6)) in
  get_tau ROps None c2 100 20 = 2 /\ get_tau ROps c2 None 100 20 = 1.
Proof.
  cbv zeta. unfold get_tau, get_tau_gen, interp, gapF, gapP, first_le, nmin, n4, n2.
  cbn [nadd nsub nmul ndiv n0 n1 nltb ROps].
  split; eval_ltb; lra.
Qed.

(* equal current spikes *)
Lemma get_tau_swap_tie_false :
  let c1 := Some (mkCtx (Some 0) 4 (Some 7)) in
  let c2 := Some (mkCtx (Some 0) 4 (Some 6)) in
  get_tau ROps c1 c2 100 20 = 3 / 2 /\ get_tau ROps c2 c1 100 20 = 1.
Proof.
  cbv zeta. unfold get_tau, get_tau_gen, interp, gapF, gapP, first_le, nmin, nleb, n4, n2.
  cbn [nadd nsub nmul ndiv n0 n1 nltb ROps c_cur].
  split; eval_ltb; cbv iota beta delta [negb]; eval_ltb; lra.
Qed.

(* ------------------------------------------------------------------ *)
Print Assumptions coinc_value_fusion.
Print Assumptions order_value_fusion.
Print Assumptions dir_value_fusion.
Print Assumptions dir_sum_zero.
Print Assumptions sync_profile_sym.
Print Assumptions dir_swap.
Print Assumptions order_profile_swap.
Print Assumptions dir_antisym.
Print Assumptions mark_range.
Print Assumptions get_tau_swap.
Print Assumptions coinc_events_swap.
