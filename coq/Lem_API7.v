(* Lem_API7.v — the multivariate VALUES of ModelAPI.v for EVERY index selection
   [idx : option (list nat)] (None = all trains, Some ix = the positions ix, in that order,
   repetitions allowed):
     1. a time shift / a positive time scaling of every train (and of the averaging
        interval) leaves isi_distance_multi, spike_distance_multi, spike_sync_multi and
        spike_train_order_multi unchanged — also for an inadmissible selection, which gives
        the same [Err AssertionError] on both sides;
     2. time reversal about the recording leaves the first three unchanged and changes the
        sign of the spike train order;
     3. for an admissible selection with at least two positions the ISI / SPIKE distance and
        SPIKE-Sync are [Ok d] with 0 <= d <= 1;
     4. the multivariate ISI / SPIKE distance of a selection is the mean of the pair
        distances of the selected trains.
   rc = false, both backends, R instance.  Generalises Lem_API4 (idx = None) and
   Lem_API2.multi_ranges. *)
From Coq Require Import List Bool Arith ZArith Reals Lra Lia Sorted Permutation.
Import ListNotations.
From PS Require Import Num RLemmas Valid ModelKernels ModelFuncs ModelAPI Spec SyncDefs.
From PS Require Import Lem_API Lem_API2 Lem_API3 Lem_API4 Lem_API5.
From PS Require Lem_Lists Lem_WF Lem_Transform Lem_Transform2 Lem_OrderSpec
                Lem_Multi Lem_MultiAPI Lem_MultiAPI2 Lem_API6.
Local Open Scope R_scope.
Import Lem_Transform.
Import Lem_OrderSpec.

Local Notation trainR := (@train R).

(* ------------------------------------------------------------------ *)
(* 0. pairs of an admissible selection                                  *)

Lemma check_pairs_lt n ix p : check_indices n ix = true -> In p (pairs_of ix) ->
  (fst p < n)%nat /\ (snd p < n)%nat.
Proof.
  intros Hc Hp. apply Lem_API6.in_pairs_of in Hp as [H1 H2].
  unfold check_indices in Hc. rewrite forallb_forall in Hc.
  split; apply Nat.ltb_lt, Hc; assumption.
Qed.

Lemma pairs_vtrain_ix ts te (l : list trainR) ix p :
  check_indices (length l) ix = true -> Forall (vtrain ts te) l -> In p (pairs_of ix) ->
  vtrain ts te (nth_train ROps l (fst p)) /\ vtrain ts te (nth_train ROps l (snd p)).
Proof.
  intros Hc HF Hp. destruct (check_pairs_lt _ _ _ Hc Hp) as [H1 H2].
  split; apply (Forall_In_v ts te l _ HF), nth_train_In; assumption.
Qed.

(* an inadmissible selection *)
Lemma not_idx_ok_check (l : list trainR) idx :
  ~ idx_ok (length l) idx -> check_indices (length l) (ixs l idx) = false.
Proof.
  intros N. destruct (check_indices (length l) (ixs l idx)) eqn:E; [|reflexivity].
  exfalso. apply N. destruct idx as [ix|]; [exact E | exact I].
Qed.

(* ------------------------------------------------------------------ *)
(* 1. the generic lifting lemmas, every idx                             *)

(* mean of the pair values (ISI / SPIKE distance) *)
Lemma distance_multi_gen_map_idx eps (bi bi' : trainR -> trainR -> res R) (g : trainR -> trainR) l idx :
  (forall a b, In a l -> In b l -> bi' (g a) (g b) = bi a b) ->
  distance_multi_gen ROps eps bi' false (map g l) idx = distance_multi_gen ROps eps bi false l idx.
Proof.
  intros H. unfold distance_multi_gen. cbv zeta. rewrite map_length.
  set (ix := indices_or_all (length l) idx).
  destruct (check_indices (length l) ix) eqn:Hc; cbn [negb]; [|reflexivity].
  f_equal. apply fold_left_ext_in. intros acc p Hp.
  destruct (check_pairs_lt _ _ _ Hc Hp) as [H1 H2].
  rewrite !nth_train_map by assumption.
  rewrite H by (apply nth_train_In; assumption). reflexivity.
Qed.

(* component-wise sum of the pair values over the pairs of an index list *)
Definition pfoldx (f : trainR -> trainR -> res (R * R)) (l : list trainR) (ix : list nat)
  : res (R * R) :=
  fold_left (pstep f l) (pairs_of ix) (Ok (n0 ROps, n0 ROps)).

Lemma pfoldx_seq f l : pfoldx f l (seq 0 (length l)) = pfold f l.
Proof. reflexivity. Qed.

Lemma spike_sync_multi_pfoldx eps cy mt m iv (l : list trainR) idx :
  spike_sync_multi ROps eps cy false mt m iv l idx
  = if negb (check_indices (length l) (ixs l idx)) then Err AssertionError
    else rmap (ord_fin true) (pfoldx (spike_sync_values ROps eps cy mt m iv) l (ixs l idx)).
Proof. reflexivity. Qed.

Lemma spike_train_order_multi_pfoldx eps cy nrm mt m (l : list trainR) idx :
  spike_train_order_multi ROps eps cy false nrm mt m l idx
  = if negb (check_indices (length l) (ixs l idx)) then Err AssertionError
    else rmap (ord_fin nrm) (pfoldx (order_impl ROps eps cy mt m) l (ixs l idx)).
Proof. reflexivity. Qed.

Lemma ixs_map (g : trainR -> trainR) l idx : ixs (map g l) idx = ixs l idx.
Proof. unfold ixs. rewrite map_length. reflexivity. Qed.

Lemma pfoldx_map (f f' : trainR -> trainR -> res (R * R)) (g : trainR -> trainR) l ix :
  check_indices (length l) ix = true ->
  (forall a b, In a l -> In b l -> f' (g a) (g b) = f a b) ->
  pfoldx f' (map g l) ix = pfoldx f l ix.
Proof.
  intros Hc H. unfold pfoldx.
  apply fold_left_ext_in. intros acc p Hp.
  destruct (check_pairs_lt _ _ _ Hc Hp) as [H1 H2]. unfold pstep.
  rewrite !nth_train_map by assumption.
  rewrite H by (apply nth_train_In; assumption). reflexivity.
Qed.

(* the two pooled entry points under a map of the trains that preserves the pair values *)
Lemma sync_multi_map_idx eps cy mt mt' m m' iv iv' (g : trainR -> trainR) l idx :
  (forall a b, In a l -> In b l ->
     spike_sync_values ROps eps cy mt' m' iv' (g a) (g b) = spike_sync_values ROps eps cy mt m iv a b) ->
  spike_sync_multi ROps eps cy false mt' m' iv' (map g l) idx
  = spike_sync_multi ROps eps cy false mt m iv l idx.
Proof.
  intros H. rewrite !spike_sync_multi_pfoldx, ixs_map, map_length.
  destruct (check_indices (length l) (ixs l idx)) eqn:Hc; cbn [negb]; [|reflexivity].
  f_equal. apply pfoldx_map; assumption.
Qed.

Lemma order_multi_map_idx eps cy nrm mt mt' m m' (g : trainR -> trainR) l idx :
  (forall a b, In a l -> In b l ->
     order_impl ROps eps cy mt' m' (g a) (g b) = order_impl ROps eps cy mt m a b) ->
  spike_train_order_multi ROps eps cy false nrm mt' m' (map g l) idx
  = spike_train_order_multi ROps eps cy false nrm mt m l idx.
Proof.
  intros H. rewrite !spike_train_order_multi_pfoldx, ixs_map, map_length.
  destruct (check_indices (length l) (ixs l idx)) eqn:Hc; cbn [negb]; [|reflexivity].
  f_equal. apply pfoldx_map; assumption.
Qed.

(* ------------------------------------------------------------------ *)
(* 2. time shift, every idx                                             *)

Theorem isi_multi_shift_idx : forall eps cy m iv c l idx ts te,
  Forall (vtrain ts te) l -> iv_ok ts te iv ->
  isi_distance_multi ROps eps cy false m (shift_iv c iv) (map (shift_train c) l) idx
  = isi_distance_multi ROps eps cy false m iv l idx.
Proof.
  intros eps cy m iv c l idx ts te HF Hiv. unfold isi_distance_multi.
  apply distance_multi_gen_map_idx. intros a b Ha Hb.
  apply (isi_distance_shift_iv eps cy m iv c a b ts te
           (Forall_In_v ts te l a HF Ha) (Forall_In_v ts te l b HF Hb) Hiv).
Qed.

Theorem spike_multi_shift_idx : forall eps cy m ri iv c l idx ts te,
  Forall (vtrain ts te) l -> iv_ok ts te iv ->
  spike_distance_multi ROps eps cy false m ri (shift_iv c iv) (map (shift_train c) l) idx
  = spike_distance_multi ROps eps cy false m ri iv l idx.
Proof.
  intros eps cy m ri iv c l idx ts te HF Hiv. unfold spike_distance_multi.
  apply distance_multi_gen_map_idx. intros a b Ha Hb.
  apply (spike_distance_shift_iv eps cy m ri iv c a b ts te
           (Forall_In_v ts te l a HF Ha) (Forall_In_v ts te l b HF Hb) Hiv).
Qed.

(* [iv_ok] is not used for SPIKE-Sync; kept so that the statements have the shape of Lem_API4 *)
Theorem sync_multi_shift_idx : forall eps cy mt m iv c l idx ts te,
  Forall (vtrain ts te) l -> iv_ok ts te iv ->
  spike_sync_multi ROps eps cy false mt m (shift_iv c iv) (map (shift_train c) l) idx
  = spike_sync_multi ROps eps cy false mt m iv l idx.
Proof.
  intros eps cy mt m iv c l idx ts te HF _.
  apply sync_multi_map_idx. intros a b Ha Hb.
  apply (sync_values_shift eps cy mt m iv c a b ts te
           (Forall_In_v ts te l a HF Ha) (Forall_In_v ts te l b HF Hb)).
Qed.

Theorem order_multi_shift_idx : forall eps cy nrm mt m c l idx ts te,
  Forall (vtrain ts te) l ->
  spike_train_order_multi ROps eps cy false nrm mt m (map (shift_train c) l) idx
  = spike_train_order_multi ROps eps cy false nrm mt m l idx.
Proof.
  intros eps cy nrm mt m c l idx ts te HF.
  apply order_multi_map_idx. intros a b Ha Hb.
  apply (order_impl_shift eps cy mt m c a b ts te
           (Forall_In_v ts te l a HF Ha) (Forall_In_v ts te l b HF Hb)).
Qed.

(* ------------------------------------------------------------------ *)
(* 3. positive time scaling, every idx                                  *)

Theorem isi_multi_scale_idx : forall eps cy m iv k l idx ts te, 0 < k ->
  Forall (vtrain ts te) l -> iv_ok ts te iv ->
  isi_distance_multi ROps eps cy false (k * m) (scale_iv k iv) (map (scale_train k) l) idx
  = isi_distance_multi ROps eps cy false m iv l idx.
Proof.
  intros eps cy m iv k l idx ts te Hk HF Hiv. unfold isi_distance_multi.
  apply distance_multi_gen_map_idx. intros a b Ha Hb.
  apply (isi_distance_scale_iv eps cy m iv k a b ts te Hk
           (Forall_In_v ts te l a HF Ha) (Forall_In_v ts te l b HF Hb) Hiv).
Qed.

Theorem spike_multi_scale_idx : forall eps cy m ri iv k l idx ts te, 0 < k ->
  Forall (vtrain ts te) l -> iv_ok ts te iv ->
  spike_distance_multi ROps eps cy false (k * m) ri (scale_iv k iv) (map (scale_train k) l) idx
  = spike_distance_multi ROps eps cy false m ri iv l idx.
Proof.
  intros eps cy m ri iv k l idx ts te Hk HF Hiv. unfold spike_distance_multi.
  apply distance_multi_gen_map_idx. intros a b Ha Hb.
  apply (spike_distance_scale_iv eps cy m ri iv k a b ts te Hk
           (Forall_In_v ts te l a HF Ha) (Forall_In_v ts te l b HF Hb) Hiv).
Qed.

Theorem sync_multi_scale_idx : forall eps cy mt m iv k l idx ts te, 0 < k ->
  Forall (vtrain ts te) l -> iv_ok ts te iv ->
  spike_sync_multi ROps eps cy false (k * mt) (k * m) (scale_iv k iv) (map (scale_train k) l) idx
  = spike_sync_multi ROps eps cy false mt m iv l idx.
Proof.
  intros eps cy mt m iv k l idx ts te Hk HF _.
  apply sync_multi_map_idx. intros a b Ha Hb.
  apply (sync_values_scale eps cy mt m iv k a b ts te Hk
           (Forall_In_v ts te l a HF Ha) (Forall_In_v ts te l b HF Hb)).
Qed.

(* [cy = true \/ 0 <= eps] as in Lem_API4.order_multi_scale (needed there already) *)
Theorem order_multi_scale_idx : forall eps cy nrm mt m k l idx ts te, 0 < k -> cy = true \/ 0 <= eps ->
  Forall (vtrain ts te) l ->
  spike_train_order_multi ROps eps cy false nrm (k * mt) (k * m) (map (scale_train k) l) idx
  = spike_train_order_multi ROps eps cy false nrm mt m l idx.
Proof.
  intros eps cy nrm mt m k l idx ts te Hk He HF.
  apply order_multi_map_idx. intros a b Ha Hb.
  apply (order_impl_scale eps cy mt m k a b ts te Hk He
           (Forall_In_v ts te l a HF Ha) (Forall_In_v ts te l b HF Hb)).
Qed.

(* ------------------------------------------------------------------ *)
(* 4. time reversal about the recording (whole recording, iv = None), every idx *)

Theorem isi_multi_mirror_idx : forall eps cy m l idx ts te, Forall (vtrain ts te) l ->
  isi_distance_multi ROps eps cy false m None (map mirror_tr l) idx
  = isi_distance_multi ROps eps cy false m None l idx.
Proof.
  intros eps cy m l idx ts te HF. unfold isi_distance_multi.
  apply distance_multi_gen_map_idx. intros a b Ha Hb.
  apply (isi_distance_mirror eps cy m a b ts te
           (Forall_In_v ts te l a HF Ha) (Forall_In_v ts te l b HF Hb)).
Qed.

Theorem spike_multi_mirror_idx : forall eps cy m ri l idx ts te, Forall (vtrain ts te) l ->
  spike_distance_multi ROps eps cy false m ri None (map mirror_tr l) idx
  = spike_distance_multi ROps eps cy false m ri None l idx.
Proof.
  intros eps cy m ri l idx ts te HF. unfold spike_distance_multi.
  apply distance_multi_gen_map_idx. intros a b Ha Hb.
  apply (spike_distance_mirror eps cy m ri a b ts te
           (Forall_In_v ts te l a HF Ha) (Forall_In_v ts te l b HF Hb)).
Qed.

Theorem sync_multi_mirror_idx : forall eps cy mt m l idx ts te, Forall (vtrain ts te) l ->
  spike_sync_multi ROps eps cy false mt m None (map mirror_tr l) idx
  = spike_sync_multi ROps eps cy false mt m None l idx.
Proof.
  intros eps cy mt m l idx ts te HF.
  apply sync_multi_map_idx. intros a b Ha Hb.
  apply (sync_values_mirror eps cy mt m a b ts te
           (Forall_In_v ts te l a HF Ha) (Forall_In_v ts te l b HF Hb)).
Qed.

Lemma pfoldx_map_negf (f f' : trainR -> trainR -> res (R * R)) (g : trainR -> trainR) l ix :
  check_indices (length l) ix = true ->
  (forall a b, In a l -> In b l -> f' (g a) (g b) = rmap negf (f a b)) ->
  pfoldx f' (map g l) ix = rmap negf (pfoldx f l ix).
Proof.
  intros Hc H. unfold pfoldx.
  assert (G : forall ps acc,
            (forall p, In p ps -> (fst p < length l)%nat /\ (snd p < length l)%nat) ->
            fold_left (pstep f' (map g l)) ps (rmap negf acc)
            = rmap negf (fold_left (pstep f l) ps acc)).
  { induction ps as [|p ps IH]; intros acc Hps; cbn [fold_left]; [reflexivity|].
    destruct (Hps p (or_introl eq_refl)) as [H1 H2].
    rewrite (pstep_negf f f' g l acc p H1 H2 H).
    apply IH. intros q Hq. apply Hps. right; exact Hq. }
  replace (Ok (n0 ROps, n0 ROps)) with (rmap negf (Ok (n0 ROps, n0 ROps))) at 1.
  - apply G. intros p Hp. apply (check_pairs_lt _ _ _ Hc Hp).
  - cbn [rmap]. unfold negf. cbn [fst snd n0 ROps]. f_equal. f_equal. ring.
Qed.

Lemma pfoldx_order_mirror eps cy mt m l ix ts te : Forall (vtrain ts te) l ->
  check_indices (length l) ix = true ->
  pfoldx (order_impl ROps eps cy mt m) (map mirror_tr l) ix
  = rmap negf (pfoldx (order_impl ROps eps cy mt m) l ix).
Proof.
  intros HF Hc. apply pfoldx_map_negf; [exact Hc|]. intros a b Ha Hb.
  apply (order_impl_mirror eps cy mt m a b ts te
           (Forall_In_v ts te l a HF Ha) (Forall_In_v ts te l b HF Hb)).
Qed.

(* un-normalised spike train order changes sign: every eps, both backends, every list,
   every selection (repeated positions included) *)
Theorem order_multi_mirror_idx : forall eps cy mt m l idx ts te, Forall (vtrain ts te) l ->
  spike_train_order_multi ROps eps cy false false mt m (map mirror_tr l) idx
  = rmap Ropp (spike_train_order_multi ROps eps cy false false mt m l idx).
Proof.
  intros eps cy mt m l idx ts te HF.
  rewrite !spike_train_order_multi_pfoldx, ixs_map, map_length.
  destruct (check_indices (length l) (ixs l idx)) eqn:Hc; cbn [negb]; [|reflexivity].
  rewrite (pfoldx_order_mirror eps cy mt m l _ ts te HF Hc).
  destruct (pfoldx (order_impl ROps eps cy mt m) l (ixs l idx)) as [[c mp]|e]; reflexivity.
Qed.

(* ------------------------------------------------------------------ *)
(* 5. normalised spike train order under time reversal, every idx       *)

(* every selected position occurs in a pair as soon as two positions are selected *)
Lemma in_pairs_cover (ix : list nat) a : In a ix -> (2 <= length ix)%nat ->
  exists q, In q (pairs_of ix) /\ (fst q = a \/ snd q = a).
Proof.
  destruct ix as [|x r]; intros Ha H2; [destruct Ha|].
  cbn [pairs_of]. destruct Ha as [->|Ha].
  - destruct r as [|y r]; [cbn [length] in H2; lia|].
    exists (a, y). split; [|left; reflexivity].
    apply in_or_app; left. apply (in_map (fun j => (a, j))). left; reflexivity.
  - exists (x, a). split; [|right; reflexivity].
    apply in_or_app; left. apply (in_map (fun j => (x, j))). exact Ha.
Qed.

Lemma pfoldx_order_mp_pos eps cy mt m l ix ts te : Forall (vtrain ts te) l ->
  check_indices (length l) ix = true -> (2 <= length ix)%nat ->
  (exists i, In i ix /\ tr_spikes (rcn_if cy eps (nth_train ROps l i)) <> []) ->
  exists r, pfoldx (order_impl ROps eps cy mt m) l ix = Ok r /\ 0 < snd r.
Proof.
  intros HF Hc H2 (i & Hi & NE). unfold pfoldx.
  set (f := order_impl ROps eps cy mt m).
  assert (T : forall p, In p (pairs_of ix) ->
              exists d, f (nth_train ROps l (fst p)) (nth_train ROps l (snd p)) = Ok d /\ 0 <= snd d).
  { intros p Hp. destruct (pairs_vtrain_ix ts te l ix p Hc HF Hp) as [V1 V2].
    eexists. split; [apply (order_impl_any eps cy mt m _ _ ts te V1 V2)|].
    cbn [snd].
    pose proof (pos_INR (length (tr_spikes (rcn_if cy eps (nth_train ROps l (fst p)))))).
    pose proof (pos_INR (length (tr_spikes (rcn_if cy eps (nth_train ROps l (snd p)))))). lra. }
  destruct (pfold_snd_ge f l (pairs_of ix) (n0 ROps, n0 ROps) T) as (r & Er & _ & Ar).
  exists r. split; [exact Er|]. cbn [snd n0 ROps] in Ar.
  assert (L : 0 < INR (length (tr_spikes (rcn_if cy eps (nth_train ROps l i))))).
  { destruct (tr_spikes (rcn_if cy eps (nth_train ROps l i))) as [|x s]; [congruence|].
    apply lt_0_INR. cbn [length]. lia. }
  destruct (in_pairs_cover ix i Hi H2) as (p & Hp & Hpi).
  destruct (pairs_vtrain_ix ts te l ix p Hc HF Hp) as [V1 V2].
  specialize (Ar p _ Hp (order_impl_any eps cy mt m _ _ ts te V1 V2)).
  cbn [snd] in Ar.
  pose proof (pos_INR (length (tr_spikes (rcn_if cy eps (nth_train ROps l (fst p)))))) as P1.
  pose proof (pos_INR (length (tr_spikes (rcn_if cy eps (nth_train ROps l (snd p)))))) as P2.
  destruct Hpi as [E|E]; rewrite E in *; lra.
Qed.

(* normalised: sign change as soon as two positions are selected and one selected train
   keeps a spike after the (fall-back path's) reconcile step *)
Theorem order_multi_mirror_norm_gen_idx : forall eps cy mt m l idx ts te,
  Forall (vtrain ts te) l -> idx_ok (length l) idx -> (2 <= msize l idx)%nat ->
  (exists i, In i (ixs l idx) /\ tr_spikes (rcn_if cy eps (nth_train ROps l i)) <> []) ->
  spike_train_order_multi ROps eps cy false true mt m (map mirror_tr l) idx
  = rmap Ropp (spike_train_order_multi ROps eps cy false true mt m l idx).
Proof.
  intros eps cy mt m l idx ts te HF Hix H2 NE.
  pose proof (idx_ok_check l idx Hix) as Hc.
  rewrite !spike_train_order_multi_pfoldx, ixs_map, map_length, Hc. cbn [negb].
  rewrite (pfoldx_order_mirror eps cy mt m l _ ts te HF Hc).
  destruct (pfoldx_order_mp_pos eps cy mt m l _ ts te HF Hc H2 NE) as ([c mp] & -> & Hp).
  cbn [rmap snd] in *. f_equal. unfold negf. cbn [fst snd].
  apply ord_fin_opp_true. lra.
Qed.

Theorem order_multi_mirror_norm_idx : forall eps cy mt m l idx ts te, cy = true \/ 0 < eps ->
  Forall (vtrain ts te) l -> idx_ok (length l) idx -> (2 <= msize l idx)%nat ->
  (exists i, In i (ixs l idx) /\ tr_spikes (nth_train ROps l i) <> []) ->
  spike_train_order_multi ROps eps cy false true mt m (map mirror_tr l) idx
  = rmap Ropp (spike_train_order_multi ROps eps cy false true mt m l idx).
Proof.
  intros eps cy mt m l idx ts te He HF Hix H2 (i & Hi & NE).
  apply (order_multi_mirror_norm_gen_idx eps cy mt m l idx ts te HF Hix H2).
  exists i. split; [exact Hi|].
  destruct cy; [exact NE|]. destruct He as [He|He]; [discriminate|].
  assert (Hlt : (i < length l)%nat).
  { pose proof (idx_ok_check l idx Hix) as Hc. unfold check_indices in Hc.
    rewrite forallb_forall in Hc. apply Nat.ltb_lt, Hc, Hi. }
  unfold rcn_if.
  rewrite (rcn_id eps ts te _ He (Forall_In_v ts te l _ HF (nth_train_In l i Hlt))). exact NE.
Qed.

(* ------------------------------------------------------------------ *)
(* 6. values and ranges of an admissible selection                      *)

Lemma pairs_count_pos_idx (l : list trainR) idx : (2 <= msize l idx)%nat ->
  0 < INR (length (pairs_of (ixs l idx))).
Proof. intros H2. apply lt_0_INR. apply Lem_WF.pairs_pos. exact H2. Qed.

(* _generic_distance_multi with totality on the selected pairs only *)
Lemma distance_multi_val_idx eps (bi : trainR -> trainR -> res R) (val : nat * nat -> R) l idx :
  idx_ok (length l) idx ->
  (forall p, In p (pairs_of (ixs l idx)) ->
     bi (nth_train ROps l (fst p)) (nth_train ROps l (snd p)) = Ok (val p)) ->
  distance_multi_gen ROps eps bi false l idx
  = Ok (sumF ROps (map val (pairs_of (ixs l idx))) / INR (length (pairs_of (ixs l idx)))).
Proof.
  intros Hix H. unfold distance_multi_gen. cbv zeta.
  change (indices_or_all (length l) idx) with (ixs l idx).
  rewrite (idx_ok_check l idx Hix). cbn [negb].
  rewrite (Lem_MultiAPI.dist_fold_val bi val l _ _ H). cbn [rmap n0 ROps ndiv].
  rewrite Lem_Multi.nofnat_INR. f_equal. f_equal. lra.
Qed.

(* a mean of pair values in [0,1] *)
Lemma distance_multi_range_idx eps (bi : trainR -> trainR -> res R) ts te (l : list trainR) idx :
  idx_ok (length l) idx -> (2 <= msize l idx)%nat -> Forall (vtrain ts te) l ->
  (forall a b, vtrain ts te a -> vtrain ts te b -> exists v, bi a b = Ok v /\ 0 <= v <= 1) ->
  exists d, distance_multi_gen ROps eps bi false l idx = Ok d /\ 0 <= d <= 1.
Proof.
  intros Hix H2 HF Hbi.
  set (val := fun p : nat * nat =>
                Lem_Multi.valOf (bi (nth_train ROps l (fst p)) (nth_train ROps l (snd p)))).
  assert (Hv : forall p, In p (pairs_of (ixs l idx)) ->
             bi (nth_train ROps l (fst p)) (nth_train ROps l (snd p)) = Ok (val p) /\ 0 <= val p <= 1).
  { intros p Hp.
    destruct (pairs_vtrain_ix ts te l _ p (idx_ok_check l idx Hix) HF Hp) as [Va Vb].
    destruct (Hbi _ _ Va Vb) as (v & E & R). unfold val. rewrite E. cbn [Lem_Multi.valOf]. auto. }
  rewrite (distance_multi_val_idx eps bi val l idx Hix (fun p Hp => proj1 (Hv p Hp))).
  eexists. split; [reflexivity|].
  apply avg_between; [apply pairs_count_pos_idx; exact H2|].
  pose proof (mean_range val _ (fun p Hp => proj2 (Hv p Hp))). lra.
Qed.

Theorem isi_distance_multi_range_idx : forall eps cy m iv l idx ts te,
  idx_ok (length l) idx -> (2 <= msize l idx)%nat -> Forall (vtrain ts te) l -> iv_ok ts te iv ->
  exists d, isi_distance_multi ROps eps cy false m iv l idx = Ok d /\ 0 <= d <= 1.
Proof.
  intros eps cy m iv l idx ts te Hix H2 HF Hiv. unfold isi_distance_multi.
  apply (distance_multi_range_idx eps _ ts te l idx Hix H2 HF). intros a b Va Vb.
  destruct (Lem_WF.isi_distance_bi_ok eps cy false m iv ts te a b (Lem_WF.rc_ok_false eps) Va Vb Hiv) as (v & E).
  exists v. split; [exact E|]. apply (isi_distance_range_iv eps cy m iv a b ts te v Va Vb Hiv E).
Qed.

Theorem spike_distance_multi_range_idx : forall eps cy m ri iv l idx ts te,
  idx_ok (length l) idx -> (2 <= msize l idx)%nat -> Forall (vtrain ts te) l -> iv_ok ts te iv ->
  0 <= m ->
  exists d, spike_distance_multi ROps eps cy false m ri iv l idx = Ok d /\ 0 <= d <= 1.
Proof.
  intros eps cy m ri iv l idx ts te Hix H2 HF Hiv Hm. unfold spike_distance_multi.
  apply (distance_multi_range_idx eps _ ts te l idx Hix H2 HF). intros a b Va Vb.
  destruct (Lem_WF.spike_distance_bi_ok eps cy false m ri iv ts te a b (Lem_WF.rc_ok_false eps) Va Vb Hiv) as (v & E).
  exists v. split; [exact E|]. apply (spike_distance_range eps cy m ri iv a b ts te v Va Vb Hm Hiv E).
Qed.

(* [2 <= msize l idx] is not used here (no pair: the value is 1 by convention); it is kept
   so that the three statements have the same shape *)
Theorem spike_sync_multi_range_idx : forall eps cy mt m iv l idx ts te,
  idx_ok (length l) idx -> (2 <= msize l idx)%nat -> Forall (vtrain ts te) l -> iv_ok ts te iv ->
  exists d, spike_sync_multi ROps eps cy false mt m iv l idx = Ok d /\ 0 <= d <= 1.
Proof.
  intros eps cy mt m iv l idx ts te Hix _ HF Hiv.
  set (f := fun p : nat * nat => spike_sync_values ROps eps cy mt m iv
                                   (nth_train ROps l (fst p)) (nth_train ROps l (snd p))).
  set (val := fun p : nat * nat => Lem_Multi.valOf2 (f p)).
  assert (Hv : forall p, In p (pairs_of (ixs l idx)) ->
             f p = Ok (val p) /\ 0 <= fst (val p) <= snd (val p)).
  { intros p Hp.
    destruct (pairs_vtrain_ix ts te l _ p (idx_ok_check l idx Hix) HF Hp) as [Va Vb].
    destruct (Lem_WF.sync_values_ok eps cy mt m iv ts te _ _ Va Vb Hiv) as (v & E).
    unfold val, f. rewrite E. cbn [Lem_Multi.valOf2]. split; [reflexivity|].
    apply (sync_values_range eps cy mt m iv ts te _ _ v Va Vb E). }
  assert (E : pfoldx (spike_sync_values ROps eps cy mt m iv) l (ixs l idx)
              = Ok (n0 ROps + sumF ROps (map (fun p => fst (val p)) (pairs_of (ixs l idx))),
                    n0 ROps + sumF ROps (map (fun p => snd (val p)) (pairs_of (ixs l idx))))).
  { exact (Lem_MultiAPI2.pair_fold_val f val (pairs_of (ixs l idx)) (n0 ROps, n0 ROps)
             (fun p Hp => proj1 (Hv p Hp))). }
  rewrite spike_sync_multi_pfoldx, (idx_ok_check l idx Hix), E. cbn [negb rmap].
  eexists. split; [reflexivity|].
  pose proof (pair_sums_range val _ (fun p Hp => proj2 (Hv p Hp))) as SR.
  set (c := sumF ROps (map (fun p => fst (val p)) (pairs_of (ixs l idx)))) in *.
  set (mp := sumF ROps (map (fun p => snd (val p)) (pairs_of (ixs l idx)))) in *.
  apply (ratio1_range (n0 ROps + c, n0 ROps + mp)). cbn [fst snd n0 ROps]. lra.
Qed.

(* Lem_API2.multi_ranges / C07_multi_ranges for every admissible selection *)
Theorem multi_ranges_idx : forall eps cy m mt ri iv l idx ts te,
  idx_ok (length l) idx -> (2 <= msize l idx)%nat -> Forall (vtrain ts te) l -> iv_ok ts te iv ->
  0 <= m ->
  (exists d, isi_distance_multi ROps eps cy false m iv l idx = Ok d /\ 0 <= d <= 1) /\
  (exists d, spike_distance_multi ROps eps cy false m ri iv l idx = Ok d /\ 0 <= d <= 1) /\
  (exists d, spike_sync_multi ROps eps cy false mt m iv l idx = Ok d /\ 0 <= d <= 1).
Proof.
  intros eps cy m mt ri iv l idx ts te Hix H2 HF Hiv Hm. split; [|split].
  - apply (isi_distance_multi_range_idx eps cy m iv l idx ts te Hix H2 HF Hiv).
  - apply (spike_distance_multi_range_idx eps cy m ri iv l idx ts te Hix H2 HF Hiv Hm).
  - apply (spike_sync_multi_range_idx eps cy mt m iv l idx ts te Hix H2 HF Hiv).
Qed.

(* the same as implications on a returned value *)
Corollary multi_ranges_idx_val : forall eps cy m mt ri iv l idx ts te d,
  idx_ok (length l) idx -> (2 <= msize l idx)%nat -> Forall (vtrain ts te) l -> iv_ok ts te iv ->
  0 <= m ->
  (isi_distance_multi ROps eps cy false m iv l idx = Ok d -> 0 <= d <= 1) /\
  (spike_distance_multi ROps eps cy false m ri iv l idx = Ok d -> 0 <= d <= 1) /\
  (spike_sync_multi ROps eps cy false mt m iv l idx = Ok d -> 0 <= d <= 1).
Proof.
  intros eps cy m mt ri iv l idx ts te d Hix H2 HF Hiv Hm.
  destruct (multi_ranges_idx eps cy m mt ri iv l idx ts te Hix H2 HF Hiv Hm)
    as ((d1 & E1 & R1) & (d2 & E2 & R2) & (d3 & E3 & R3)).
  split; [|split]; intros E.
  - rewrite E1 in E. injection E as <-. exact R1.
  - rewrite E2 in E. injection E as <-. exact R2.
  - rewrite E3 in E. injection E as <-. exact R3.
Qed.

(* an inadmissible selection is an AssertionError in all four entry points *)
Theorem multi_bad_index : forall eps cy nrm m mt ri iv (l : list trainR) idx,
  ~ idx_ok (length l) idx ->
  isi_distance_multi ROps eps cy false m iv l idx = Err AssertionError /\
  spike_distance_multi ROps eps cy false m ri iv l idx = Err AssertionError /\
  spike_sync_multi ROps eps cy false mt m iv l idx = Err AssertionError /\
  spike_train_order_multi ROps eps cy false nrm mt m l idx = Err AssertionError.
Proof.
  intros eps cy nrm m mt ri iv l idx N. pose proof (not_idx_ok_check l idx N) as Hc.
  rewrite spike_sync_multi_pfoldx, spike_train_order_multi_pfoldx.
  unfold isi_distance_multi, spike_distance_multi, distance_multi_gen. cbv zeta.
  change (indices_or_all (length l) idx) with (ixs l idx). rewrite Hc. cbn [negb].
  repeat split; reflexivity.
Qed.

(* ------------------------------------------------------------------ *)
(* 7. the multivariate ISI / SPIKE distance of a selection is the mean of the pair
      distances of the selected trains                                  *)

(* sum of the pair values over the pairs of an index list (the formulation of
   Lem_MultiAPI.isi_distance_multi_mean, with [ix] for [seq 0 (length l)]) *)
Definition pair_sum (bi : trainR -> trainR -> res R) (l : list trainR) (ix : list nat) : R :=
  sumF ROps (map (fun p => Lem_Multi.valOf (bi (nth_train ROps l (fst p)) (nth_train ROps l (snd p))))
                 (pairs_of ix)).

Lemma distance_multi_mean_idx eps (bi : trainR -> trainR -> res R) ts te (l : list trainR) idx :
  idx_ok (length l) idx -> Forall (vtrain ts te) l ->
  (forall a b, vtrain ts te a -> vtrain ts te b -> exists v, bi a b = Ok v) ->
  distance_multi_gen ROps eps bi false l idx
  = Ok (pair_sum bi l (ixs l idx) / INR (length (pairs_of (ixs l idx)))).
Proof.
  intros Hix HF Hbi. apply (distance_multi_val_idx eps bi _ l idx Hix). intros p Hp.
  destruct (pairs_vtrain_ix ts te l _ p (idx_ok_check l idx Hix) HF Hp) as [Va Vb].
  destruct (Hbi _ _ Va Vb) as (v & E). rewrite E. reflexivity.
Qed.

(* d = S / n  gives  d * n = S  also for n = 0 (then S is the empty sum) *)
Lemma mean_mul {A} (g : A -> R) (ps : list A) :
  sumF ROps (map g ps) / INR (length ps) * INR (length ps) = sumF ROps (map g ps).
Proof.
  destruct ps as [|p ps].
  - cbn [map length INR]. rewrite Lem_MultiAPI2.sumF_nil. lra.
  - assert (0 < INR (length (p :: ps))) by (apply lt_0_INR; cbn [length]; lia).
    field. lra.
Qed.

Theorem isi_distance_multi_mean_idx : forall eps cy m iv l idx ts te,
  idx_ok (length l) idx -> Forall (vtrain ts te) l -> iv_ok ts te iv ->
  isi_distance_multi ROps eps cy false m iv l idx
  = Ok (pair_sum (isi_distance_bi ROps eps cy false m iv) l (ixs l idx)
        / INR (length (pairs_of (ixs l idx)))).
Proof.
  intros eps cy m iv l idx ts te Hix HF Hiv. unfold isi_distance_multi.
  apply (distance_multi_mean_idx eps _ ts te l idx Hix HF). intros a b Va Vb.
  apply (Lem_WF.isi_distance_bi_ok eps cy false m iv ts te a b (Lem_WF.rc_ok_false eps) Va Vb Hiv).
Qed.

Theorem spike_distance_multi_mean_idx : forall eps cy m ri iv l idx ts te,
  idx_ok (length l) idx -> Forall (vtrain ts te) l -> iv_ok ts te iv ->
  spike_distance_multi ROps eps cy false m ri iv l idx
  = Ok (pair_sum (spike_distance_bi ROps eps cy false m ri iv) l (ixs l idx)
        / INR (length (pairs_of (ixs l idx)))).
Proof.
  intros eps cy m ri iv l idx ts te Hix HF Hiv. unfold spike_distance_multi.
  apply (distance_multi_mean_idx eps _ ts te l idx Hix HF). intros a b Va Vb.
  apply (Lem_WF.spike_distance_bi_ok eps cy false m ri iv ts te a b (Lem_WF.rc_ok_false eps) Va Vb Hiv).
Qed.

(* the product form, and every summand is a genuine pair distance (no error is hidden
   by [valOf]) *)
Theorem isi_distance_multi_mean_mul : forall eps cy m iv l idx ts te d,
  idx_ok (length l) idx -> Forall (vtrain ts te) l -> iv_ok ts te iv ->
  isi_distance_multi ROps eps cy false m iv l idx = Ok d ->
  d * INR (length (pairs_of (ixs l idx)))
    = pair_sum (isi_distance_bi ROps eps cy false m iv) l (ixs l idx) /\
  (forall p, In p (pairs_of (ixs l idx)) ->
     exists v, isi_distance_bi ROps eps cy false m iv (nth_train ROps l (fst p)) (nth_train ROps l (snd p))
               = Ok v /\ 0 <= v <= 1).
Proof.
  intros eps cy m iv l idx ts te d Hix HF Hiv E.
  rewrite (isi_distance_multi_mean_idx eps cy m iv l idx ts te Hix HF Hiv) in E. injection E as <-.
  split; [apply mean_mul|]. intros p Hp.
  destruct (pairs_vtrain_ix ts te l _ p (idx_ok_check l idx Hix) HF Hp) as [Va Vb].
  destruct (Lem_WF.isi_distance_bi_ok eps cy false m iv ts te _ _ (Lem_WF.rc_ok_false eps) Va Vb Hiv) as (v & Ev).
  exists v. split; [exact Ev|]. apply (isi_distance_range_iv eps cy m iv _ _ ts te v Va Vb Hiv Ev).
Qed.

Theorem spike_distance_multi_mean_mul : forall eps cy m ri iv l idx ts te d,
  idx_ok (length l) idx -> Forall (vtrain ts te) l -> iv_ok ts te iv ->
  spike_distance_multi ROps eps cy false m ri iv l idx = Ok d ->
  d * INR (length (pairs_of (ixs l idx)))
    = pair_sum (spike_distance_bi ROps eps cy false m ri iv) l (ixs l idx) /\
  (forall p, In p (pairs_of (ixs l idx)) ->
     exists v, spike_distance_bi ROps eps cy false m ri iv (nth_train ROps l (fst p)) (nth_train ROps l (snd p))
               = Ok v).
Proof.
  intros eps cy m ri iv l idx ts te d Hix HF Hiv E.
  rewrite (spike_distance_multi_mean_idx eps cy m ri iv l idx ts te Hix HF Hiv) in E. injection E as <-.
  split; [apply mean_mul|]. intros p Hp.
  destruct (pairs_vtrain_ix ts te l _ p (idx_ok_check l idx Hix) HF Hp) as [Va Vb].
  apply (Lem_WF.spike_distance_bi_ok eps cy false m ri iv ts te _ _ (Lem_WF.rc_ok_false eps) Va Vb Hiv).
Qed.

(* the number of pairs of a selection of k positions is k (k - 1) / 2 *)
Lemma pairs_count_idx (l : list trainR) idx :
  (2 * length (pairs_of (ixs l idx)) = msize l idx * (msize l idx - 1))%nat.
Proof. rewrite Lem_Multi.pairs_of_gpairs. apply Lem_Multi.gpairs_length. Qed.

(* a selection of two positions is the two-train entry point *)
Theorem isi_multi_two_idx : forall eps cy m iv l i j ts te,
  Forall (vtrain ts te) l -> iv_ok ts te iv -> (i < length l)%nat -> (j < length l)%nat ->
  isi_distance_multi ROps eps cy false m iv l (Some [i; j])
  = isi_distance_bi ROps eps cy false m iv (nth_train ROps l i) (nth_train ROps l j).
Proof.
  intros eps cy m iv l i j ts te HF Hiv Hi Hj.
  assert (Hix : idx_ok (length l) (Some [i; j])).
  { cbn [idx_ok check_indices forallb]. apply Nat.ltb_lt in Hi, Hj. rewrite Hi, Hj. reflexivity. }
  rewrite (isi_distance_multi_mean_idx eps cy m iv l _ ts te Hix HF Hiv).
  unfold pair_sum, ixs. cbn [indices_or_all pairs_of map app length INR fst snd].
  rewrite Lem_MultiAPI2.sumF_one.
  destruct (Lem_WF.isi_distance_bi_ok eps cy false m iv ts te _ _ (Lem_WF.rc_ok_false eps)
              (Forall_In_v ts te l _ HF (nth_train_In l i Hi))
              (Forall_In_v ts te l _ HF (nth_train_In l j Hj)) Hiv) as (v & ->).
  cbn [Lem_Multi.valOf]. f_equal. field.
Qed.

Theorem spike_multi_two_idx : forall eps cy m ri iv l i j ts te,
  Forall (vtrain ts te) l -> iv_ok ts te iv -> (i < length l)%nat -> (j < length l)%nat ->
  spike_distance_multi ROps eps cy false m ri iv l (Some [i; j])
  = spike_distance_bi ROps eps cy false m ri iv (nth_train ROps l i) (nth_train ROps l j).
Proof.
  intros eps cy m ri iv l i j ts te HF Hiv Hi Hj.
  assert (Hix : idx_ok (length l) (Some [i; j])).
  { cbn [idx_ok check_indices forallb]. apply Nat.ltb_lt in Hi, Hj. rewrite Hi, Hj. reflexivity. }
  rewrite (spike_distance_multi_mean_idx eps cy m ri iv l _ ts te Hix HF Hiv).
  unfold pair_sum, ixs. cbn [indices_or_all pairs_of map app length INR fst snd].
  rewrite Lem_MultiAPI2.sumF_one.
  destruct (Lem_WF.spike_distance_bi_ok eps cy false m ri iv ts te _ _ (Lem_WF.rc_ok_false eps)
              (Forall_In_v ts te l _ HF (nth_train_In l i Hi))
              (Forall_In_v ts te l _ HF (nth_train_In l j Hj)) Hiv) as (v & ->).
  cbn [Lem_Multi.valOf]. f_equal. field.
Qed.

(* ------------------------------------------------------------------ *)
(* 8. the added hypothesis of the normalised reversal is needed          *)

(* fewer than two positions: no pair, the normalised order is +1 in both orientations *)
Theorem order_multi_norm_short_idx : forall eps cy mt m (l : list trainR) ix,
  check_indices (length l) ix = true -> (length ix < 2)%nat ->
  spike_train_order_multi ROps eps cy false true mt m l (Some ix) = Ok 1 /\
  spike_train_order_multi ROps eps cy false true mt m (map mirror_tr l) (Some ix) = Ok 1.
Proof.
  intros eps cy mt m l ix Hc H.
  assert (Z : ord_fin true (n0 ROps, n0 ROps) = 1).
  { unfold ord_fin. cbn [snd n0 ROps]. rewrite Lem_WF.Reqb_refl. reflexivity. }
  rewrite !spike_train_order_multi_pfoldx, ixs_map, map_length.
  unfold ixs. cbn [indices_or_all]. rewrite Hc. cbn [negb]. unfold pfoldx.
  destruct ix as [|a [|b ix]]; [| |cbn [length] in H; lia];
    cbn [pairs_of map app fold_left rmap]; rewrite Z; split; reflexivity.
Qed.

(* ------------------------------------------------------------------ *)
(* 9. all scalars at once                                               *)

Theorem multi_scalars_shift_idx : forall eps cy nrm m mt ri iv c l idx ts te,
  Forall (vtrain ts te) l -> iv_ok ts te iv ->
  isi_distance_multi ROps eps cy false m (shift_iv c iv) (map (shift_train c) l) idx
    = isi_distance_multi ROps eps cy false m iv l idx /\
  spike_distance_multi ROps eps cy false m ri (shift_iv c iv) (map (shift_train c) l) idx
    = spike_distance_multi ROps eps cy false m ri iv l idx /\
  spike_sync_multi ROps eps cy false mt m (shift_iv c iv) (map (shift_train c) l) idx
    = spike_sync_multi ROps eps cy false mt m iv l idx /\
  spike_train_order_multi ROps eps cy false nrm mt m (map (shift_train c) l) idx
    = spike_train_order_multi ROps eps cy false nrm mt m l idx.
Proof.
  intros eps cy nrm m mt ri iv c l idx ts te HF Hiv.
  split; [apply (isi_multi_shift_idx eps cy m iv c l idx ts te HF Hiv)|].
  split; [apply (spike_multi_shift_idx eps cy m ri iv c l idx ts te HF Hiv)|].
  split; [apply (sync_multi_shift_idx eps cy mt m iv c l idx ts te HF Hiv)|].
  apply (order_multi_shift_idx eps cy nrm mt m c l idx ts te HF).
Qed.

Theorem multi_scalars_scale_idx : forall eps cy nrm m mt ri iv k l idx ts te,
  0 < k -> cy = true \/ 0 <= eps -> Forall (vtrain ts te) l -> iv_ok ts te iv ->
  isi_distance_multi ROps eps cy false (k * m) (scale_iv k iv) (map (scale_train k) l) idx
    = isi_distance_multi ROps eps cy false m iv l idx /\
  spike_distance_multi ROps eps cy false (k * m) ri (scale_iv k iv) (map (scale_train k) l) idx
    = spike_distance_multi ROps eps cy false m ri iv l idx /\
  spike_sync_multi ROps eps cy false (k * mt) (k * m) (scale_iv k iv) (map (scale_train k) l) idx
    = spike_sync_multi ROps eps cy false mt m iv l idx /\
  spike_train_order_multi ROps eps cy false nrm (k * mt) (k * m) (map (scale_train k) l) idx
    = spike_train_order_multi ROps eps cy false nrm mt m l idx.
Proof.
  intros eps cy nrm m mt ri iv k l idx ts te Hk He HF Hiv.
  split; [apply (isi_multi_scale_idx eps cy m iv k l idx ts te Hk HF Hiv)|].
  split; [apply (spike_multi_scale_idx eps cy m ri iv k l idx ts te Hk HF Hiv)|].
  split; [apply (sync_multi_scale_idx eps cy mt m iv k l idx ts te Hk HF Hiv)|].
  apply (order_multi_scale_idx eps cy nrm mt m k l idx ts te Hk He HF).
Qed.

Theorem multi_scalars_mirror_idx : forall eps cy m mt ri l idx ts te, Forall (vtrain ts te) l ->
  isi_distance_multi ROps eps cy false m None (map mirror_tr l) idx
    = isi_distance_multi ROps eps cy false m None l idx /\
  spike_distance_multi ROps eps cy false m ri None (map mirror_tr l) idx
    = spike_distance_multi ROps eps cy false m ri None l idx /\
  spike_sync_multi ROps eps cy false mt m None (map mirror_tr l) idx
    = spike_sync_multi ROps eps cy false mt m None l idx /\
  spike_train_order_multi ROps eps cy false false mt m (map mirror_tr l) idx
    = rmap Ropp (spike_train_order_multi ROps eps cy false false mt m l idx).
Proof.
  intros eps cy m mt ri l idx ts te HF.
  split; [apply (isi_multi_mirror_idx eps cy m l idx ts te HF)|].
  split; [apply (spike_multi_mirror_idx eps cy m ri l idx ts te HF)|].
  split; [apply (sync_multi_mirror_idx eps cy mt m l idx ts te HF)|].
  apply (order_multi_mirror_idx eps cy mt m l idx ts te HF).
Qed.

(* ------------------------------------------------------------------ *)
(* 10. non-vacuity: the three trains of Lem_API4 on [0, 10], positions [2; 0] *)

Definition ex_idx : option (list nat) := Some [2; 0]%nat.

Example ex7_hypotheses :
  Forall (vtrain 0 10) ex_l /\ iv_ok 0 10 (Some (1, 9)) /\ iv_ok 0 10 None /\
  idx_ok (length ex_l) ex_idx /\ (2 <= msize ex_l ex_idx)%nat /\
  (exists i, In i (ixs ex_l ex_idx) /\ tr_spikes (nth_train ROps ex_l i) <> []) /\
  0 <= 0 /\ 0 < 3 /\ (false = true \/ 0 < 1 / 1000000) /\
  ~ idx_ok (length ex_l) (Some [5; 0]%nat).
Proof.
  destruct ex_l_hypotheses as (HF & Hiv & HivN & _ & _ & H3 & He).
  split; [exact HF|]. split; [exact Hiv|]. split; [exact HivN|].
  split; [reflexivity|]. split; [cbn; lia|].
  split; [exists 2%nat; split; [left; reflexivity | discriminate]|].
  split; [lra|]. split; [exact H3|]. split; [exact He|].
  cbn. discriminate.
Qed.

Example ex7_instances :
  isi_distance_multi ROps (1 / 1000000) false false 0 (shift_iv 3 (Some (1, 9)))
                     (map (shift_train 3) ex_l) ex_idx
    = isi_distance_multi ROps (1 / 1000000) false false 0 (Some (1, 9)) ex_l ex_idx /\
  spike_sync_multi ROps (1 / 1000000) true false (3 * 0) (3 * 0) (scale_iv 3 (Some (1, 9)))
                   (map (scale_train 3) ex_l) ex_idx
    = spike_sync_multi ROps (1 / 1000000) true false 0 0 (Some (1, 9)) ex_l ex_idx /\
  spike_train_order_multi ROps (1 / 1000000) false false true 0 0 (map mirror_tr ex_l) ex_idx
    = rmap Ropp (spike_train_order_multi ROps (1 / 1000000) false false true 0 0 ex_l ex_idx) /\
  (exists d, spike_distance_multi ROps (1 / 1000000) false false 0 false (Some (1, 9)) ex_l ex_idx = Ok d
             /\ 0 <= d <= 1) /\
  isi_distance_multi ROps (1 / 1000000) true false 0 (Some (1, 9)) ex_l ex_idx
    = isi_distance_bi ROps (1 / 1000000) true false 0 (Some (1, 9)) ex_c ex_a /\
  isi_distance_multi ROps (1 / 1000000) true false 0 (shift_iv 3 (Some (1, 9)))
                     (map (shift_train 3) ex_l) (Some [5; 0]%nat) = Err AssertionError.
Proof.
  destruct ex7_hypotheses as (HF & Hiv & _ & Hix & H2 & NE & Hm & H3 & He & Nix).
  split; [apply (isi_multi_shift_idx _ _ _ _ 3 ex_l ex_idx 0 10 HF Hiv)|].
  split; [apply (sync_multi_scale_idx _ _ _ _ _ 3 ex_l ex_idx 0 10 H3 HF Hiv)|].
  split; [apply (order_multi_mirror_norm_idx _ _ _ _ ex_l ex_idx 0 10 He HF Hix H2 NE)|].
  split; [apply (spike_distance_multi_range_idx _ _ _ _ _ ex_l ex_idx 0 10 Hix H2 HF Hiv Hm)|].
  split; [apply (isi_multi_two_idx _ _ _ _ ex_l 2 0 0 10 HF Hiv); cbn; lia|].
  rewrite (isi_multi_shift_idx _ _ _ _ 3 ex_l _ 0 10 HF Hiv).
  exact (proj1 (multi_bad_index _ _ true _ 0 false _ ex_l _ Nix)).
Qed.

(* the same trains on the Q instance (1e-6 tolerance): selections with a reversed order,
   a repeated position, a single position and a position out of range *)
From Coq Require Import QArith.
Local Close Scope Q_scope.
Local Open Scope R_scope.

Example ex7_Q :
  qx_red (isi_distance_multi QOps qx_eps true false 0%Q (Some (1, 9)%Q) qx_l (Some [2; 0]%nat))
    = Ok (29 # 160)%Q /\
  qx_red (isi_distance_multi QOps qx_eps true false 0%Q (Some (1 + 3, 9 + 3)%Q)
                             (map (qx_shift 3) qx_l) (Some [2; 0]%nat)) = Ok (29 # 160)%Q /\
  qx_red (isi_distance_bi QOps qx_eps true false 0%Q (Some (1, 9)%Q)
                          ([3; 4; 9], 0, 10)%Q ([1; 5], 0, 10)%Q) = Ok (29 # 160)%Q /\
  qx_red (isi_distance_multi QOps qx_eps false false 0%Q (Some (1, 9)%Q) qx_l (Some [1; 1; 0]%nat))
    = Ok (1 # 15)%Q /\
  qx_red (spike_sync_multi QOps qx_eps false false 0%Q 0%Q None qx_l (Some [1; 1; 0]%nat))
    = Ok (2 # 3)%Q /\
  qx_red (spike_sync_multi QOps qx_eps false false 0%Q 0%Q None (map qx_mirror qx_l) (Some [1; 1; 0]%nat))
    = Ok (2 # 3)%Q /\
  qx_red (spike_train_order_multi QOps qx_eps true false false 0%Q 0%Q qx_l (Some [1; 1; 0]%nat))
    = Ok (-4)%Q /\
  qx_red (spike_train_order_multi QOps qx_eps true false false 0%Q 0%Q (map qx_mirror qx_l)
                                  (Some [1; 1; 0]%nat)) = Ok 4%Q /\
  qx_red (spike_train_order_multi QOps qx_eps true false true 0%Q 0%Q qx_l (Some [1; 1; 0]%nat))
    = Ok (-1 # 3)%Q /\
  qx_red (spike_train_order_multi QOps qx_eps true false true 0%Q 0%Q (map qx_mirror qx_l)
                                  (Some [1; 1; 0]%nat)) = Ok (1 # 3)%Q /\
  qx_red (spike_train_order_multi QOps qx_eps true false true 0%Q 0%Q qx_l (Some [2]%nat)) = Ok 1%Q /\
  qx_red (spike_train_order_multi QOps qx_eps true false true 0%Q 0%Q (map qx_mirror qx_l) (Some [2]%nat))
    = Ok 1%Q /\
  isi_distance_multi QOps qx_eps true false 0%Q None qx_l (Some [5; 0]%nat) = Err AssertionError /\
  spike_train_order_multi QOps qx_eps true false true 0%Q 0%Q (map (qx_scale 2) qx_l) (Some [5; 0]%nat)
    = Err AssertionError.
Proof. vm_compute. repeat split. Qed.

(* ------------------------------------------------------------------ *)
Print Assumptions isi_multi_shift_idx.
Print Assumptions spike_multi_shift_idx.
Print Assumptions sync_multi_shift_idx.
Print Assumptions order_multi_shift_idx.
Print Assumptions isi_multi_scale_idx.
Print Assumptions spike_multi_scale_idx.
Print Assumptions sync_multi_scale_idx.
Print Assumptions order_multi_scale_idx.
Print Assumptions isi_multi_mirror_idx.
Print Assumptions spike_multi_mirror_idx.
Print Assumptions sync_multi_mirror_idx.
Print Assumptions order_multi_mirror_idx.
Print Assumptions order_multi_mirror_norm_gen_idx.
Print Assumptions order_multi_mirror_norm_idx.
Print Assumptions order_multi_norm_short_idx.
Print Assumptions isi_distance_multi_range_idx.
Print Assumptions spike_distance_multi_range_idx.
Print Assumptions spike_sync_multi_range_idx.
Print Assumptions multi_ranges_idx.
Print Assumptions multi_ranges_idx_val.
Print Assumptions multi_bad_index.
Print Assumptions isi_distance_multi_mean_idx.
Print Assumptions spike_distance_multi_mean_idx.
Print Assumptions isi_distance_multi_mean_mul.
Print Assumptions spike_distance_multi_mean_mul.
Print Assumptions isi_multi_two_idx.
Print Assumptions spike_multi_two_idx.
Print Assumptions multi_scalars_shift_idx.
Print Assumptions multi_scalars_scale_idx.
Print Assumptions multi_scalars_mirror_idx.
Print Assumptions ex7_instances.
Print Assumptions ex7_Q.
