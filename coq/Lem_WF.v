(* Lem_WF.v — property C18: on every list of valid spike trains every public
   function of the API returns without exception ([= Ok _]) a well-formed
   profile / a number all of whose divisors are non-zero.  R instance. *)
From Coq Require Import List Bool Arith ZArith Reals Lra Lia Sorted Permutation.
Import ListNotations.
From PS Require Import Num RLemmas Valid ModelKernels ModelFuncs ModelAPI Spec SyncDefs.
From PS Require Import Lem_API.
From PS Require Lem_Tau Lem_Isi Lem_IsiProps Lem_Spike Lem_Sync Lem_OrderSpec Lem_Order
                Lem_Df Lem_Pwc Lem_Pwl Lem_Multi Lem_Lists.
Local Open Scope R_scope.

Local Notation trainR := (@train R).

(* ------------------------------------------------------------------ *)
(* 0. well-formed profiles on the interval [ts, te]                     *)

Definition good_pwc (ts te : R) (f : list R * list R) : Prop :=
  wf_pwc f /\ nthF ROps (fst f) 0 = ts /\ lastF ROps (fst f) = te.
Definition good_pwl (ts te : R) (f : list R * list R * list R) : Prop :=
  wf_pwl f /\ nthF ROps (fst (fst f)) 0 = ts /\ lastF ROps (fst (fst f)) = te.
Definition good_df (ts te : R) (f : list (R * R * R)) : Prop :=
  Lem_Df.wf_df f /\ fst (fst (hd (0,0,0) f)) = ts /\ fst (fst (last f (0,0,0))) = te.

(* the reconciliation flag is admissible: either off, or on with a positive tolerance *)
Definition rc_ok (eps : R) (rc : bool) : Prop := rc = false \/ 0 < eps.

Lemma prep2_ok eps rc ts te (a b : trainR) : rc_ok eps rc ->
  vtrain ts te a -> vtrain ts te b -> prep2 ROps eps rc a b = (a, b).
Proof.
  intros [->|He] Va Vb; [reflexivity|]. destruct rc; [|reflexivity].
  apply (prep2_true_valid He Va Vb).
Qed.
Arguments prep2_ok {eps rc ts te a b}.

Lemma reconcile_ok eps rc ts te (l : list trainR) : rc_ok eps rc -> ts < te ->
  Forall (vtrain ts te) l -> (if rc then reconcile ROps eps l else l) = l.
Proof.
  intros [->|He] Hlt HF; [reflexivity|]. destruct rc; [|reflexivity].
  apply (Lem_Lists.reconcile_valid_id eps l ts te He Hlt). exact HF.
Qed.

Lemma vtrain_lt ts te (a : trainR) : vtrain ts te a -> ts < te.
Proof. intros ((H & _) & _). exact H. Qed.
Arguments vtrain_lt {ts te a}.

Lemma nthF0_breaks ts te (s1 s2 : list R) : nthF ROps (breaks ROps ts te s1 s2) 0 = ts.
Proof. reflexivity. Qed.
Lemma lastF_breaks ts te (s1 s2 : list R) : lastF ROps (breaks ROps ts te s1 s2) = te.
Proof. unfold breaks. apply Lem_Pwc.lastF_fn. Qed.
Lemma length_breaks ts te (s1 s2 : list R) : (2 <= length (breaks ROps ts te s1 s2))%nat.
Proof. unfold breaks. cbn [length]. rewrite app_length. cbn [length]. lia. Qed.

(* ------------------------------------------------------------------ *)
(* 1. bivariate ISI profile                                            *)

Lemma isi_bi_py eps cy rc m ts te (a b : trainR) : rc_ok eps rc -> vtrain ts te a -> vtrain ts te b ->
  isi_profile_bi ROps eps cy rc m a b
  = isi_profile_py ROps (spikes_non_empty ROps a) (spikes_non_empty ROps b) ts te m.
Proof.
  intros Hrc Va Vb. unfold isi_profile_bi. rewrite (prep2_ok Hrc Va Vb).
  destruct Va as (_ & -> & ->).
  destruct cy; [apply Lem_IsiProps.isi_profile_cy_eq|reflexivity].
Qed.

Theorem isi_profile_bi_wf : forall eps cy rc m ts te (a b : trainR),
  rc_ok eps rc -> vtrain ts te a -> vtrain ts te b ->
  good_pwc ts te (isi_profile_bi ROps eps cy rc m a b).
Proof.
  intros eps cy rc m ts te a b Hrc Va Vb. rewrite (isi_bi_py eps cy rc m ts te a b Hrc Va Vb).
  pose proof (vtrain_lt Va) as Hlt.
  destruct (Lem_IsiProps.isi_profile_wf _ _ ts te m (sne_valid Va) (sne_valid Vb)
              (sne_nonempty Va) (sne_nonempty Vb)) as (Hlen & Hhd & Hlast & Hs).
  set (p := isi_profile_py ROps _ _ ts te m) in *.
  unfold good_pwc, wf_pwc, wf_x. rewrite nthF0_hd. unfold lastF. cbn [n0 ROps].
  repeat split; auto.
  destruct (fst p) as [|x [|y r]]; cbn [length hd last] in *; try lia; lra.
Qed.

(* ------------------------------------------------------------------ *)
(* 2. bivariate SPIKE profile                                          *)

Lemma spike_bi_spec eps cy rc m ri ts te (a b : trainR) : rc_ok eps rc ->
  vtrain ts te a -> vtrain ts te b ->
  spike_profile_bi ROps eps cy rc m ri a b
  = spike_spec ROps (tr_spikes a) (tr_spikes b) ts te m ri.
Proof.
  intros Hrc Va Vb. unfold spike_profile_bi. rewrite (prep2_ok Hrc Va Vb).
  rewrite (spikes_non_empty_eff Va), (spikes_non_empty_eff Vb).
  destruct Va as (V1 & -> & ->). destruct Vb as (V2 & _ & _).
  destruct cy; [rewrite Lem_Spike.spike_profile_cy_eq|]; apply Lem_Spike.spike_profile_spec; auto.
Qed.

Lemma spike_spec_good s1 s2 ts te m ri : ts < te ->
  good_pwl ts te (spike_spec ROps s1 s2 ts te m ri).
Proof.
  intros Hlt. unfold spike_spec. cbv zeta. unfold good_pwl, wf_pwl, wf_x. cbn [fst snd].
  rewrite !map_length, Lem_Pwc.pieces_length.
  pose proof (length_breaks ts te s1 s2) as HL.
  repeat split.
  - apply Lem_Spike.breaks_sorted; exact Hlt.
  - exact HL.
  - lia.
  - apply lastF_breaks.
Qed.

Theorem spike_profile_bi_wf : forall eps cy rc m ri ts te (a b : trainR),
  rc_ok eps rc -> vtrain ts te a -> vtrain ts te b ->
  good_pwl ts te (spike_profile_bi ROps eps cy rc m ri a b).
Proof.
  intros eps cy rc m ri ts te a b Hrc Va Vb. rewrite (spike_bi_spec eps cy rc m ri ts te a b Hrc Va Vb).
  apply spike_spec_good. exact (vtrain_lt Va).
Qed.

(* ------------------------------------------------------------------ *)
(* 3. bivariate SPIKE-Sync and spike-train-order profiles               *)

Lemma event_entries_keys v1 v2 vb (s1 s2 : list R) :
  map Lem_Df.kx (event_entries ROps v1 v2 vb s1 s2) = sort_unique ROps (s1 ++ s2).
Proof.
  unfold event_entries. rewrite map_map. rewrite <- (map_id (sort_unique ROps (s1 ++ s2))) at 2.
  apply map_ext. intros t.
  destruct (find _ (contexts s1)), (find _ (contexts s2)); reflexivity.
Qed.

Lemma framed_shape ts te (E : list (R * R * R)) :
  exists f0 fl, framed ROps ts te E = f0 :: E ++ [fl] /\ Lem_Df.kx f0 = ts /\ Lem_Df.kx fl = te.
Proof.
  destruct E as [|e0 E]; cbn [framed].
  - exists (ts, 1, 1), (te, 1, 1). repeat split.
  - eexists _, _. split; [reflexivity|]. split; reflexivity.
Qed.

Lemma framed_events_good v1 v2 vb s1 s2 ts te : valid ts te s1 -> valid ts te s2 ->
  good_df ts te (framed ROps ts te (event_entries ROps v1 v2 vb s1 s2)).
Proof.
  intros (Hlt & _ & B1) (_ & _ & B2).
  set (EE := event_entries ROps v1 v2 vb s1 s2).
  destruct (framed_shape ts te EE) as (f0 & fl & -> & K0 & KL).
  unfold good_df. rewrite Lem_Df.last_shape. cbn [hd].
  split; [|split; [exact K0|exact KL]].
  apply Lem_Df.wf_df_intro.
  - unfold EE. rewrite event_entries_keys. apply Lem_Pwc.sort_unique_sorted.
  - rewrite K0, KL. lra.
  - rewrite K0, KL. apply Forall_forall. intros e He.
    assert (Hk : In (Lem_Df.kx e) (map Lem_Df.kx EE)) by (apply in_map; exact He).
    unfold EE in Hk. rewrite event_entries_keys in Hk.
    apply (proj1 (Lem_Pwc.sort_unique_In _ _)) in Hk. rewrite Forall_forall in B1, B2.
    apply in_app_or in Hk as [Hk|Hk]; auto.
Qed.

Lemma sync_bi_spec eps cy rc mt m ts te (a b : trainR) : rc_ok eps rc ->
  vtrain ts te a -> vtrain ts te b ->
  spike_sync_profile_bi ROps eps cy rc mt m a b
  = sync_spec ROps (tr_spikes a) (tr_spikes b) ts te mt m.
Proof.
  intros Hrc Va Vb. unfold spike_sync_profile_bi. rewrite (prep2_ok Hrc Va Vb).
  destruct Va as (V1 & -> & ->). destruct Vb as (V2 & _ & _).
  rewrite <- (Lem_Sync.sync_profile_spec _ _ ts te mt m V1 V2).
  unfold coincidence_profile_gen. rewrite Lem_OrderSpec.os_scan_cy. reflexivity.
Qed.

Theorem sync_profile_bi_wf : forall eps cy rc mt m ts te (a b : trainR),
  rc_ok eps rc -> vtrain ts te a -> vtrain ts te b ->
  good_df ts te (spike_sync_profile_bi ROps eps cy rc mt m a b).
Proof.
  intros eps cy rc mt m ts te a b Hrc Va Vb. rewrite (sync_bi_spec eps cy rc mt m ts te a b Hrc Va Vb).
  unfold sync_spec. cbv zeta. apply framed_events_good; [apply Va|apply Vb].
Qed.

Lemma order_bi_spec eps cy rc mt m ts te (a b : trainR) : rc_ok eps rc ->
  vtrain ts te a -> vtrain ts te b ->
  order_profile_bi ROps eps cy rc mt m a b
  = Ok (order_spec ROps (tr_spikes a) (tr_spikes b) ts te mt m).
Proof.
  intros Hrc Va Vb. unfold order_profile_bi. rewrite (prep2_ok Hrc Va Vb).
  destruct Va as (V1 & Sa & Ea). destruct Vb as (V2 & Sb & Eb). rewrite Sa, Sb, Ea, Eb.
  cbn [neqb ROps].
  replace (Reqb ts ts) with true by (symmetry; apply Reqb_true; reflexivity).
  replace (Reqb te te) with true by (symmetry; apply Reqb_true; reflexivity).
  cbn [negb orb]. f_equal.
  rewrite <- (Lem_OrderSpec.order_profile_spec _ _ ts te mt m V1 V2).
  unfold order_profile_gen. rewrite Lem_OrderSpec.os_scan_cy. reflexivity.
Qed.

Theorem order_profile_bi_wf : forall eps cy rc mt m ts te (a b : trainR),
  rc_ok eps rc -> vtrain ts te a -> vtrain ts te b ->
  exists P, order_profile_bi ROps eps cy rc mt m a b = Ok P /\ good_df ts te P.
Proof.
  intros eps cy rc mt m ts te a b Hrc Va Vb. rewrite (order_bi_spec eps cy rc mt m ts te a b Hrc Va Vb).
  eexists. split; [reflexivity|].
  unfold order_spec. cbv zeta. apply framed_events_good; [apply Va|apply Vb].
Qed.

(* ------------------------------------------------------------------ *)
(* 6. the bivariate scalars never raise                                 *)

(* admissible averaging interval: the whole recording, or ts <= x < y <= te *)
Definition iv_ok (ts te : R) (iv : option (R * R)) : Prop :=
  match iv with None => True | Some (x, y) => ts <= x /\ x < y /\ y <= te end.
Definition iv_lo (ts : R) (iv : option (R * R)) : R :=
  match iv with None => ts | Some (x, _) => x end.
Definition iv_hi (te : R) (iv : option (R * R)) : R :=
  match iv with None => te | Some (_, y) => y end.

(* the divisor of every average is positive *)
Lemma iv_divisor_pos ts te iv : ts < te -> iv_ok ts te iv -> 0 < iv_hi te iv - iv_lo ts iv.
Proof. intros Hlt. destruct iv as [[x y]|]; cbn [iv_ok iv_lo iv_hi]; lra. Qed.

Lemma Reqb_refl x : Reqb x x = true.
Proof. apply Reqb_true. reflexivity. Qed.

Lemma pwc_avrg_ok ts te f iv : good_pwc ts te f -> iv_ok ts te iv ->
  pwc_avrg ROps f (iv_of iv)
  = Ok (pwc_overlap ROps (fst f) (snd f) (iv_lo ts iv) (iv_hi te iv) / (iv_hi te iv - iv_lo ts iv)).
Proof.
  intros (W & F0 & FL) Hiv. destruct iv as [[x y]|]; cbn [iv_of iv_lo iv_hi iv_ok] in *.
  - apply Lem_Pwc.pwc_avrg_one; auto; rewrite ?F0, ?FL; lra.
  - unfold pwc_avrg, avrg_gen. rewrite Lem_Pwc.pwc_integral_none by auto.
    cbn [rmap ndiv nsub ROps]. rewrite F0, FL. reflexivity.
Qed.

Lemma pwl_avrg_ok ts te f iv : good_pwl ts te f -> iv_ok ts te iv ->
  pwl_avrg ROps f (iv_of iv)
  = Ok (pwl_overlap ROps (fst (fst f)) (snd (fst f)) (snd f) (iv_lo ts iv) (iv_hi te iv)
        / (iv_hi te iv - iv_lo ts iv)).
Proof.
  intros (W & F0 & FL) Hiv. destruct iv as [[x y]|]; cbn [iv_of iv_lo iv_hi iv_ok] in *.
  - apply Lem_Pwl.pwl_avrg_one; auto; rewrite ?F0, ?FL; lra.
  - unfold pwl_avrg, avrg_gen. cbv zeta. rewrite Lem_Pwl.pwl_integral_none by auto.
    cbn [rmap ndiv nsub ROps]. rewrite F0, FL. reflexivity.
Qed.

Lemma df_integral_ok ts te f iv : good_df ts te f -> iv_ok ts te iv ->
  df_integral ROps f (iv_of iv) = Ok (df_integral_spec ROps f (iv_of iv)).
Proof.
  intros (W & F0 & FL) Hiv. destruct iv as [[x y]|]; cbn [iv_of iv_ok] in *.
  - apply Lem_Df.df_integral_one; auto; rewrite ?F0, ?FL; lra.
  - apply Lem_Df.df_integral_none.
Qed.

Lemma rc_ok_false eps : rc_ok eps false.
Proof. left; reflexivity. Qed.

Theorem isi_distance_bi_ok : forall eps cy rc m iv ts te (a b : trainR),
  rc_ok eps rc -> vtrain ts te a -> vtrain ts te b -> iv_ok ts te iv ->
  exists v, isi_distance_bi ROps eps cy rc m iv a b = Ok v.
Proof.
  intros eps cy rc m iv ts te a b Hrc Va Vb Hiv. unfold isi_distance_bi.
  rewrite (prep2_ok Hrc Va Vb).
  pose proof (pwc_avrg_ok ts te _ iv (isi_profile_bi_wf eps cy false m ts te a b (rc_ok_false eps) Va Vb) Hiv) as E.
  destruct iv as [[x y]|]; destruct cy; try (eexists; exact E). eexists; reflexivity.
Qed.

Theorem spike_distance_bi_ok : forall eps cy rc m ri iv ts te (a b : trainR),
  rc_ok eps rc -> vtrain ts te a -> vtrain ts te b -> iv_ok ts te iv ->
  exists v, spike_distance_bi ROps eps cy rc m ri iv a b = Ok v.
Proof.
  intros eps cy rc m ri iv ts te a b Hrc Va Vb Hiv. unfold spike_distance_bi.
  rewrite (prep2_ok Hrc Va Vb).
  pose proof (pwl_avrg_ok ts te _ iv (spike_profile_bi_wf eps cy false m ri ts te a b (rc_ok_false eps) Va Vb) Hiv) as E.
  destruct iv as [[x y]|]; destruct cy; try (eexists; exact E). eexists; reflexivity.
Qed.

Lemma sync_values_ok eps cy mt m iv ts te (a b : trainR) :
  vtrain ts te a -> vtrain ts te b -> iv_ok ts te iv ->
  exists v, spike_sync_values ROps eps cy mt m iv a b = Ok v.
Proof.
  intros Va Vb Hiv. unfold spike_sync_values.
  pose proof (df_integral_ok ts te _ iv (sync_profile_bi_wf eps cy false mt m ts te a b (rc_ok_false eps) Va Vb) Hiv) as E.
  destruct iv as [[x y]|]; destruct cy; try (eexists; exact E). eexists; reflexivity.
Qed.

Theorem spike_sync_bi_ok : forall eps cy rc mt m iv ts te (a b : trainR),
  rc_ok eps rc -> vtrain ts te a -> vtrain ts te b -> iv_ok ts te iv ->
  exists v, spike_sync_bi ROps eps cy rc mt m iv a b = Ok v.
Proof.
  intros eps cy rc mt m iv ts te a b Hrc Va Vb Hiv. unfold spike_sync_bi.
  rewrite (prep2_ok Hrc Va Vb).
  destruct (sync_values_ok eps cy mt m iv ts te a b Va Vb Hiv) as (v & ->).
  eexists; reflexivity.
Qed.

(* _spike_train_order_impl never raises, whatever the trains: its Python path
   reconciles the two trains itself, which makes their edges equal *)
Lemma order_impl_ok eps cy mt m (a b : trainR) : exists v, order_impl ROps eps cy mt m a b = Ok v.
Proof.
  unfold order_impl. destruct cy.
  - destruct (order_value _ _ _ _) as [c mp]. eexists; reflexivity.
  - unfold order_profile_bi, prep2, reconcile.
    cbn [map tr_start tr_end fst snd neqb ROps]. rewrite !Reqb_refl.
    cbn [negb orb rbind]. eexists; reflexivity.
Qed.

Theorem spike_train_order_bi_ok : forall eps cy rc nz mt m (a b : trainR),
  exists v, spike_train_order_bi ROps eps cy rc nz mt m a b = Ok v.
Proof.
  intros eps cy rc nz mt m a b. unfold spike_train_order_bi.
  destruct (prep2 ROps eps rc a b) as [a' b'].
  destruct (order_impl_ok eps cy mt m a' b') as (v & ->). eexists; reflexivity.
Qed.

Theorem spike_directionality_ok : forall eps cy rc nz mt m (a b : trainR),
  exists v, spike_directionality ROps eps cy rc nz mt m a b = Ok v.
Proof.
  intros eps cy rc nz mt m a b. unfold spike_directionality.
  destruct (prep2 ROps eps rc a b) as [a' b']. eexists; reflexivity.
Qed.

Theorem bi_scalars_ok : forall eps cy rc nz m mt ri iv ts te (a b : trainR),
  rc_ok eps rc -> vtrain ts te a -> vtrain ts te b -> iv_ok ts te iv ->
  (exists v, isi_distance_bi ROps eps cy rc m iv a b = Ok v) /\
  (exists v, spike_distance_bi ROps eps cy rc m ri iv a b = Ok v) /\
  (exists v, spike_sync_bi ROps eps cy rc mt m iv a b = Ok v) /\
  (exists v, spike_train_order_bi ROps eps cy rc nz mt m a b = Ok v) /\
  (exists v, spike_directionality ROps eps cy rc nz mt m a b = Ok v).
Proof.
  intros eps cy rc nz m mt ri iv ts te a b Hrc Va Vb Hiv.
  split; [eapply isi_distance_bi_ok; eauto|].
  split; [eapply spike_distance_bi_ok; eauto|].
  split; [eapply spike_sync_bi_ok; eauto|].
  split; [apply spike_train_order_bi_ok | apply spike_directionality_ok].
Qed.

(* ------------------------------------------------------------------ *)
(* 7a. divide and conquer needs closure only                            *)

Section DCOk.
  Variable P : Type.
  Variable padd : P -> P -> res P.
  Variable pf : nat * nat -> res P.
  Variable good : P -> Prop.
  Hypothesis Hclosed : forall a b, good a -> good b -> exists c, padd a b = Ok c /\ good c.

  Lemma dc_ok : forall fuel ps,
    (forall p, In p ps -> exists v, pf p = Ok v /\ good v) -> ps <> [] -> (length ps < fuel)%nat ->
    exists v, dc padd pf fuel ps = Ok v /\ good v.
  Proof.
    induction fuel as [|k IH]; intros ps Hpf Hne Hlen; [lia|].
    destruct ps as [|p [|q r]] eqn:E; [congruence| |].
    - cbn [dc]. apply Hpf. left; reflexivity.
    - rewrite <- E in *. assert (H2 : (2 <= length ps)%nat) by (rewrite E; cbn [length]; lia).
      rewrite (Lem_Lists.dc_unfold2 padd pf k ps H2).
      destruct (Lem_Multi.div2_bounds (length ps) H2) as [Hh1 Hh2].
      set (h := Nat.div2 (length ps)) in *.
      assert (L1 : length (firstn h ps) = h) by (apply firstn_length_le; lia).
      assert (L2 : length (skipn h ps) = (length ps - h)%nat) by apply skipn_length.
      destruct (IH (firstn h ps)) as (d1 & E1 & G1).
      + intros x Hx. apply Hpf. rewrite <- (firstn_skipn h ps). apply in_or_app. left; exact Hx.
      + intros C. rewrite C in L1. cbn [length] in L1. lia.
      + lia.
      + destruct (IH (skipn h ps)) as (d2 & E2 & G2).
        * intros x Hx. apply Hpf. rewrite <- (firstn_skipn h ps). apply in_or_app. right; exact Hx.
        * intros C. rewrite C in L2. cbn [length] in L2. lia.
        * lia.
        * rewrite E1, E2. cbn [rbind]. apply Hclosed; assumption.
  Qed.
End DCOk.

(* ------------------------------------------------------------------ *)
(* 7b. admissible index selections                                      *)

Definition idx_ok (n : nat) (idx : option (list nat)) : Prop :=
  Forall (fun i => (i < n)%nat) (indices_or_all n idx)
  /\ (2 <= length (indices_or_all n idx))%nat.

Lemma idx_ok_none n : (2 <= n)%nat -> idx_ok n None.
Proof.
  intros H. unfold idx_ok. cbn [indices_or_all]. rewrite seq_length. split; [|exact H].
  apply Forall_forall. intros i Hi. apply in_seq in Hi. lia.
Qed.

Lemma idx_ok_check n idx : idx_ok n idx -> check_indices n (indices_or_all n idx) = true.
Proof.
  intros [HF _]. unfold check_indices. apply forallb_forall. intros i Hi.
  rewrite Forall_forall in HF. apply Nat.ltb_lt. apply HF; exact Hi.
Qed.

Lemma pairs_pos (ix : list nat) : (2 <= length ix)%nat -> (0 < length (pairs_of ix))%nat.
Proof.
  intros H. rewrite Lem_Multi.pairs_of_gpairs.
  pose proof (Lem_Multi.gpairs_length ix) as E. nia.
Qed.

(* the divisor (number of pairs) of every multivariate mean is positive *)
Lemma pair_count_pos n idx : idx_ok n idx ->
  0 < nofnat ROps (length (pairs_of (indices_or_all n idx))).
Proof.
  intros [_ H]. rewrite Lem_Multi.nofnat_INR. apply lt_0_INR. apply pairs_pos; exact H.
Qed.

Lemma idx_train ts te (l : list trainR) idx i : Forall (vtrain ts te) l -> idx_ok (length l) idx ->
  In i (indices_or_all (length l) idx) -> vtrain ts te (nth_train ROps l i).
Proof.
  intros HF [HI _] Hi. rewrite Forall_forall in HI. apply nth_train_vtrain; auto.
Qed.

Lemma pair_trains ts te (l : list trainR) idx p : Forall (vtrain ts te) l -> idx_ok (length l) idx ->
  In p (pairs_of (indices_or_all (length l) idx)) ->
  vtrain ts te (nth_train ROps l (fst p)) /\ vtrain ts te (nth_train ROps l (snd p)).
Proof.
  intros HF Hix Hp. apply Lem_Lists.pairs_of_In in Hp as [H1 H2].
  split; eapply idx_train; eauto.
Qed.

Lemma profile_multi_ok (P : Type) (padd : P -> P -> res P) (bi : trainR -> trainR -> res P)
      (good : P -> Prop) eps rc ts te (l : list trainR) idx :
  rc_ok eps rc -> ts < te -> Forall (vtrain ts te) l -> idx_ok (length l) idx ->
  (forall a b, vtrain ts te a -> vtrain ts te b -> exists v, bi a b = Ok v /\ good v) ->
  (forall a b, good a -> good b -> exists c, padd a b = Ok c /\ good c) ->
  exists v, good v /\
    profile_multi_gen ROps eps padd bi rc l idx
    = Ok (v, length (pairs_of (indices_or_all (length l) idx))).
Proof.
  intros Hrc Hlt HF Hix Hbi Hcl. unfold profile_multi_gen.
  rewrite (reconcile_ok eps rc ts te l Hrc Hlt HF). cbv zeta.
  rewrite (idx_ok_check _ _ Hix). cbn [negb].
  set (ps := pairs_of (indices_or_all (length l) idx)).
  destruct (dc_ok P padd (fun p => bi (nth_train ROps l (fst p)) (nth_train ROps l (snd p)))
                  good Hcl (S (length ps)) ps) as (v & E & G).
  - intros p Hp. destruct (pair_trains ts te l idx p HF Hix Hp) as [Va Vb]. apply Hbi; assumption.
  - intros C. pose proof (pairs_pos _ (proj2 Hix)) as Hp. fold ps in Hp. rewrite C in Hp.
    cbn [length] in Hp. lia.
  - lia.
  - exists v. split; [exact G|]. rewrite E. reflexivity.
Qed.

(* ------------------------------------------------------------------ *)
(* 7c. the three add routines are closed on the profiles of [ts, te]    *)

Lemma su_ends (x1 x2 : list R) ts te : wf_x x1 -> wf_x x2 ->
  nthF ROps x1 0 = ts -> lastF ROps x1 = te -> nthF ROps x2 0 = ts -> lastF ROps x2 = te ->
  nthF ROps (sort_unique ROps (x1 ++ x2)) 0 = ts /\ lastF ROps (sort_unique ROps (x1 ++ x2)) = te.
Proof.
  intros [S1 L1] [S2 L2] A1 B1 A2 B2.
  set (B := sort_unique ROps (x1 ++ x2)).
  assert (HsB : ssorted B) by apply Lem_Pwc.sort_unique_sorted.
  pose proof (Lem_Pwc.ssorted_bounds x1 S1) as R1. rewrite A1, B1, Forall_forall in R1.
  pose proof (Lem_Pwc.ssorted_bounds x2 S2) as R2. rewrite A2, B2, Forall_forall in R2.
  assert (RB : forall z, In z B -> ts <= z <= te).
  { intros z Hz. apply (proj1 (Lem_Pwc.sort_unique_In _ _)) in Hz.
    apply in_app_or in Hz as [Hz|Hz]; auto. }
  assert (Its : In ts B).
  { apply Lem_Pwc.sort_unique_In, in_or_app. left. rewrite <- A1. apply nth_In. lia. }
  assert (Ite : In te B).
  { apply Lem_Pwc.sort_unique_In, in_or_app. left. rewrite <- B1, Lem_Pwc.lastF_nth.
    apply nth_In. lia. }
  pose proof (Lem_Pwc.ssorted_bounds B HsB) as HB. rewrite Forall_forall in HB.
  assert (HlB : (1 <= length B)%nat) by (destruct B; [destruct Its|cbn [length]; lia]).
  assert (I0 : In (nthF ROps B 0) B) by (apply nth_In; lia).
  assert (IL : In (lastF ROps B) B) by (rewrite Lem_Pwc.lastF_nth; apply nth_In; lia).
  split.
  - pose proof (HB ts Its). pose proof (RB _ I0). lra.
  - pose proof (HB te Ite). pose proof (RB _ IL). lra.
Qed.

Lemma good_pwc_add ts te f g : good_pwc ts te f -> good_pwc ts te g ->
  exists h, pwc_add ROps f g = Ok h /\ good_pwc ts te h.
Proof.
  intros (Wf & F0 & FL) (Wg & G0 & GL). exists (pwc_add_spec ROps f g). split.
  - apply Lem_Pwc.pwc_add_eq_spec; auto; congruence.
  - split; [apply Lem_Pwc.pwc_add_wf; auto; congruence|].
    rewrite Lem_Pwc.pwc_add_spec_unfold. cbn [fst]. apply su_ends; auto; [apply Wf|apply Wg].
Qed.

Lemma good_pwc_mul ts te f c : good_pwc ts te f -> good_pwc ts te (pwc_mul ROps f c).
Proof.
  intros ([Hx Hl] & F0 & FL). unfold good_pwc, wf_pwc, pwc_mul. cbn [fst snd].
  rewrite map_length. auto.
Qed.

Lemma good_pwl_add ts te f g : good_pwl ts te f -> good_pwl ts te g ->
  exists h, pwl_add ROps f g = Ok h /\ good_pwl ts te h.
Proof.
  intros (Wf & F0 & FL) (Wg & G0 & GL). exists (pwl_add_spec ROps f g). split.
  - apply Lem_Pwl.pwl_add_eq_spec; auto; congruence.
  - split; [apply Lem_Pwl.pwl_add_wf; auto; congruence|].
    destruct f as [[x1 a1] b1], g as [[x2 a2] b2]. unfold pwl_add_spec. cbn [fst snd] in *.
    apply su_ends; auto; [apply Wf|apply Wg].
Qed.

Lemma good_pwl_mul ts te f c : good_pwl ts te f -> good_pwl ts te (pwl_mul ROps f c).
Proof.
  destruct f as [[xs y1] y2]. intros ((Hx & L1 & L2) & F0 & FL).
  unfold good_pwl, wf_pwl, pwl_mul. cbn [fst snd] in *. rewrite !map_length. auto.
Qed.

Lemma good_df_add ts te f g : good_df ts te f -> good_df ts te g ->
  exists h, df_add ROps f g = Ok h /\ good_df ts te h.
Proof.
  intros (Wf & F0 & FL) (Wg & G0 & GL).
  destruct (Lem_Df.df_add_events f g Wf Wg) as (r & E & _ & R0 & RL); [congruence|congruence|].
  exists r. split; [exact E|]. split; [|split; congruence].
  apply (Lem_Df.df_add_wf f g r Wf Wg); auto; congruence.
Qed.

(* ------------------------------------------------------------------ *)
(* 7d. the four multivariate profiles                                   *)

Theorem isi_profile_multi_ok : forall eps cy rc m ts te (l : list trainR) idx,
  rc_ok eps rc -> ts < te -> Forall (vtrain ts te) l -> idx_ok (length l) idx ->
  exists P, isi_profile_multi ROps eps cy rc m l idx = Ok P /\ good_pwc ts te P.
Proof.
  intros eps cy rc m ts te l idx Hrc Hlt HF Hix. unfold isi_profile_multi.
  destruct (profile_multi_ok _ (pwc_add ROps) (fun a b => Ok (isi_profile_bi ROps eps cy false m a b))
              (good_pwc ts te) eps rc ts te l idx Hrc Hlt HF Hix) as (v & G & ->).
  - intros a b Va Vb. eexists. split; [reflexivity|].
    apply isi_profile_bi_wf; auto using rc_ok_false.
  - apply good_pwc_add.
  - cbn [rmap fst snd]. eexists. split; [reflexivity|]. apply good_pwc_mul; exact G.
Qed.

Theorem spike_profile_multi_ok : forall eps cy rc m ri ts te (l : list trainR) idx,
  rc_ok eps rc -> ts < te -> Forall (vtrain ts te) l -> idx_ok (length l) idx ->
  exists P, spike_profile_multi ROps eps cy rc m ri l idx = Ok P /\ good_pwl ts te P.
Proof.
  intros eps cy rc m ri ts te l idx Hrc Hlt HF Hix. unfold spike_profile_multi.
  destruct (profile_multi_ok _ (pwl_add ROps) (fun a b => Ok (spike_profile_bi ROps eps cy false m ri a b))
              (good_pwl ts te) eps rc ts te l idx Hrc Hlt HF Hix) as (v & G & ->).
  - intros a b Va Vb. eexists. split; [reflexivity|].
    apply spike_profile_bi_wf; auto using rc_ok_false.
  - apply good_pwl_add.
  - cbn [rmap fst snd]. eexists. split; [reflexivity|]. apply good_pwl_mul; exact G.
Qed.

Theorem spike_sync_profile_multi_ok : forall eps cy rc mt m ts te (l : list trainR) idx,
  rc_ok eps rc -> ts < te -> Forall (vtrain ts te) l -> idx_ok (length l) idx ->
  exists P, spike_sync_profile_multi ROps eps cy rc mt m l idx = Ok P /\ good_df ts te P.
Proof.
  intros eps cy rc mt m ts te l idx Hrc Hlt HF Hix. unfold spike_sync_profile_multi.
  destruct (profile_multi_ok _ (df_add ROps) (fun a b => Ok (spike_sync_profile_bi ROps eps cy false mt m a b))
              (good_df ts te) eps rc ts te l idx Hrc Hlt HF Hix) as (v & G & ->).
  - intros a b Va Vb. eexists. split; [reflexivity|].
    apply sync_profile_bi_wf; auto using rc_ok_false.
  - apply good_df_add.
  - cbn [rmap fst]. eexists. split; [reflexivity|exact G].
Qed.

Theorem order_profile_multi_ok : forall eps cy rc mt m ts te (l : list trainR) idx,
  rc_ok eps rc -> ts < te -> Forall (vtrain ts te) l -> idx_ok (length l) idx ->
  exists P, order_profile_multi ROps eps cy rc mt m l idx = Ok P /\ good_df ts te P.
Proof.
  intros eps cy rc mt m ts te l idx Hrc Hlt HF Hix. unfold order_profile_multi.
  destruct (profile_multi_ok _ (df_add ROps) (fun a b => order_profile_bi ROps eps cy false mt m a b)
              (good_df ts te) eps rc ts te l idx Hrc Hlt HF Hix) as (v & G & ->).
  - intros a b Va Vb. apply order_profile_bi_wf; auto using rc_ok_false.
  - apply good_df_add.
  - cbn [rmap fst]. eexists. split; [reflexivity|exact G].
Qed.

Theorem multi_profiles_ok : forall eps cy rc m mt ri ts te (l : list trainR) idx,
  rc_ok eps rc -> ts < te -> Forall (vtrain ts te) l -> idx_ok (length l) idx ->
  (exists P, isi_profile_multi ROps eps cy rc m l idx = Ok P /\ good_pwc ts te P) /\
  (exists P, spike_profile_multi ROps eps cy rc m ri l idx = Ok P /\ good_pwl ts te P) /\
  (exists P, spike_sync_profile_multi ROps eps cy rc mt m l idx = Ok P /\ good_df ts te P) /\
  (exists P, order_profile_multi ROps eps cy rc mt m l idx = Ok P /\ good_df ts te P).
Proof.
  intros. split; [apply isi_profile_multi_ok; auto|].
  split; [apply spike_profile_multi_ok; auto|].
  split; [apply spike_sync_profile_multi_ok; auto|apply order_profile_multi_ok; auto].
Qed.

(* ------------------------------------------------------------------ *)
(* 8. multivariate scalars and matrices                                 *)

Lemma fold_res_ok {A B} (step : A -> B -> A) (f : nat * nat -> res B) : forall ps a,
  (forall p, In p ps -> exists v, f p = Ok v) ->
  exists r, fold_left (fun acc p => rbind acc (fun x => rmap (step x) (f p))) ps (Ok a) = Ok r.
Proof.
  induction ps as [|p ps IH]; intros a H; cbn [fold_left]; [eexists; reflexivity|].
  destruct (H p (or_introl eq_refl)) as (v & ->). cbn [rbind rmap].
  apply IH. intros q Hq. apply H. right; exact Hq.
Qed.

Lemma distance_multi_gen_ok eps (bi : trainR -> trainR -> res R) rc ts te (l : list trainR) idx :
  rc_ok eps rc -> ts < te -> Forall (vtrain ts te) l -> idx_ok (length l) idx ->
  (forall a b, vtrain ts te a -> vtrain ts te b -> exists v, bi a b = Ok v) ->
  exists v, distance_multi_gen ROps eps bi rc l idx = Ok v.
Proof.
  intros Hrc Hlt HF Hix Hbi. unfold distance_multi_gen.
  rewrite (reconcile_ok eps rc ts te l Hrc Hlt HF). cbv zeta.
  rewrite (idx_ok_check _ _ Hix). cbn [negb].
  destruct (fold_res_ok (fun a d => nadd ROps a d)
              (fun p => bi (nth_train ROps l (fst p)) (nth_train ROps l (snd p)))
              (pairs_of (indices_or_all (length l) idx)) (n0 ROps)) as (r & ->).
  - intros p Hp. destruct (pair_trains ts te l idx p HF Hix Hp). apply Hbi; assumption.
  - eexists; reflexivity.
Qed.

Lemma seq_res_ok {A B} (Q : B -> Prop) (e : A -> res B) : forall js,
  (forall j, In j js -> exists v, e j = Ok v /\ Q v) ->
  exists r, fold_right (fun j acc => rbind (e j) (fun x => rmap (cons x) acc)) (Ok []) js = Ok r
            /\ length r = length js /\ Forall Q r.
Proof.
  induction js as [|j js IH]; intros H; cbn [fold_right]; [exists []; repeat split; constructor|].
  destruct IH as (r & -> & Lr & Qr); [intros k Hk; apply H; right; exact Hk|].
  destruct (H j (or_introl eq_refl)) as (v & -> & Qv). cbn [rbind rmap].
  exists (v :: r). split; [reflexivity|]. split; [cbn [length]; rewrite Lr; reflexivity|].
  constructor; assumption.
Qed.

(* a square matrix with one row and one column per selected train *)
Lemma matrix_gen_ok eps (bi : trainR -> trainR -> res R) diag sym rc ts te (l : list trainR) idx :
  rc_ok eps rc -> ts < te -> Forall (vtrain ts te) l -> idx_ok (length l) idx ->
  (forall a b, vtrain ts te a -> vtrain ts te b -> exists v, bi a b = Ok v) ->
  exists M, matrix_gen ROps eps bi diag sym rc l idx = Ok M
            /\ length M = length (indices_or_all (length l) idx)
            /\ Forall (fun row => length row = length (indices_or_all (length l) idx)) M.
Proof.
  intros Hrc Hlt HF Hix Hbi. unfold matrix_gen.
  rewrite (reconcile_ok eps rc ts te l Hrc Hlt HF). cbv zeta.
  rewrite (idx_ok_check _ _ Hix). cbn [negb].
  set (ix := indices_or_all (length l) idx) in *.
  assert (Htr : forall i, (i < length ix)%nat -> vtrain ts te (nth_train ROps l (nth i ix 0%nat))).
  { intros i Hi. apply (idx_train ts te l idx); auto. apply nth_In; exact Hi. }
  match goal with |- exists M, fold_right ?stp (Ok []) ?js = Ok M /\ _ =>
    destruct (seq_res_ok (fun row : list R => length row = length ix) (fun i => fold_right (fun j acc =>
                 rbind ((if (i =? j)%nat then Ok diag
                         else if (i <? j)%nat
                              then bi (nth_train ROps l (nth i ix 0%nat)) (nth_train ROps l (nth j ix 0%nat))
                              else rmap sym (bi (nth_train ROps l (nth j ix 0%nat)) (nth_train ROps l (nth i ix 0%nat)))))
                       (fun e => rmap (cons e) acc)) (Ok []) (seq 0 (length ix))) js) as (M & EM & LM & QM)
  end.
  - intros i Hi. apply in_seq in Hi.
    destruct (seq_res_ok (fun _ : R => True) (fun j => if (i =? j)%nat then Ok diag
                         else if (i <? j)%nat
                              then bi (nth_train ROps l (nth i ix 0%nat)) (nth_train ROps l (nth j ix 0%nat))
                              else rmap sym (bi (nth_train ROps l (nth j ix 0%nat)) (nth_train ROps l (nth i ix 0%nat))))
                         (seq 0 (length ix))) as (r & Er & Lr & _).
    + intros j Hj. apply in_seq in Hj.
      destruct (i =? j)%nat; [eexists; split; [reflexivity|exact I]|].
      destruct (i <? j)%nat.
      * destruct (Hbi _ _ (Htr i ltac:(lia)) (Htr j ltac:(lia))) as (v & ->). eexists; split; [reflexivity|exact I].
      * destruct (Hbi _ _ (Htr j ltac:(lia)) (Htr i ltac:(lia))) as (v & ->). eexists; split; [reflexivity|exact I].
    + exists r. split; [exact Er|]. rewrite Lr, seq_length. reflexivity.
  - exists M. split; [exact EM|]. split; [rewrite LM, seq_length; reflexivity|exact QM].
Qed.

Lemma pair_fold_ok (f : nat * nat -> res (R * R)) ps :
  (forall p, In p ps -> exists v, f p = Ok v) ->
  exists r, fold_left (fun acc p => rbind acc (fun a =>
              rmap (fun d => (nadd ROps (fst a) (fst d), nadd ROps (snd a) (snd d))) (f p)))
            ps (Ok (n0 ROps, n0 ROps)) = Ok r.
Proof.
  intros H.
  exact (fold_res_ok (fun a d => (nadd ROps (fst a) (fst d), nadd ROps (snd a) (snd d))) f ps _ H).
Qed.

Theorem multi_scalars_ok : forall eps cy rc nz m mt ri thr iv ts te (l : list trainR) idx,
  rc_ok eps rc -> ts < te -> Forall (vtrain ts te) l -> idx_ok (length l) idx -> iv_ok ts te iv ->
  let k := length (indices_or_all (length l) idx) in
  (exists v, isi_distance_multi ROps eps cy rc m iv l idx = Ok v) /\
  (exists v, spike_distance_multi ROps eps cy rc m ri iv l idx = Ok v) /\
  (exists v, spike_sync_multi ROps eps cy rc mt m iv l idx = Ok v) /\
  (exists v, spike_train_order_multi ROps eps cy rc nz mt m l idx = Ok v) /\
  (exists M, isi_distance_matrix ROps eps cy rc m iv l idx = Ok M /\ length M = k /\ Forall (fun row => length row = k) M) /\
  (exists M, spike_distance_matrix ROps eps cy rc m ri iv l idx = Ok M /\ length M = k /\ Forall (fun row => length row = k) M) /\
  (exists M, spike_sync_matrix ROps eps cy rc mt m iv l idx = Ok M /\ length M = k /\ Forall (fun row => length row = k) M) /\
  (exists M, spike_directionality_matrix ROps eps cy rc nz mt m l idx = Ok M /\ length M = k /\ Forall (fun row => length row = k) M) /\
  (exists D, directionality_values ROps eps cy rc mt m l idx = Ok D) /\
  length (filter_by_spike_sync ROps eps cy rc mt m thr l) = length l.
Proof.
  intros eps cy rc nz m mt ri thr iv ts te l idx Hrc Hlt HF Hix Hiv k.
  assert (Hisi : forall a b, vtrain ts te a -> vtrain ts te b ->
            exists v, isi_distance_bi ROps eps cy false m iv a b = Ok v).
  { intros a b Va Vb. eapply isi_distance_bi_ok; eauto using rc_ok_false. }
  assert (Hspk : forall a b, vtrain ts te a -> vtrain ts te b ->
            exists v, spike_distance_bi ROps eps cy false m ri iv a b = Ok v).
  { intros a b Va Vb. eapply spike_distance_bi_ok; eauto using rc_ok_false. }
  assert (Hsyn : forall a b, vtrain ts te a -> vtrain ts te b ->
            exists v, spike_sync_bi ROps eps cy false mt m iv a b = Ok v).
  { intros a b Va Vb. eapply spike_sync_bi_ok; eauto using rc_ok_false. }
  split; [unfold isi_distance_multi; eapply distance_multi_gen_ok; eauto|].
  split; [unfold spike_distance_multi; eapply distance_multi_gen_ok; eauto|].
  split.
  { unfold spike_sync_multi. rewrite (reconcile_ok eps rc ts te l Hrc Hlt HF). cbv zeta.
    rewrite (idx_ok_check _ _ Hix). cbn [negb].
    destruct (pair_fold_ok (fun p => spike_sync_values ROps eps cy mt m iv
                              (nth_train ROps l (fst p)) (nth_train ROps l (snd p)))
                (pairs_of (indices_or_all (length l) idx))) as (r & ->).
    - intros p Hp. destruct (pair_trains ts te l idx p HF Hix Hp). eapply sync_values_ok; eauto.
    - eexists; reflexivity. }
  split.
  { unfold spike_train_order_multi. rewrite (reconcile_ok eps rc ts te l Hrc Hlt HF). cbv zeta.
    rewrite (idx_ok_check _ _ Hix). cbn [negb].
    destruct (pair_fold_ok (fun p => order_impl ROps eps cy mt m
                              (nth_train ROps l (fst p)) (nth_train ROps l (snd p)))
                (pairs_of (indices_or_all (length l) idx))) as (r & ->).
    - intros p Hp. apply order_impl_ok.
    - eexists; reflexivity. }
  split; [unfold isi_distance_matrix; eapply matrix_gen_ok; eauto|].
  split; [unfold spike_distance_matrix; eapply matrix_gen_ok; eauto|].
  split; [unfold spike_sync_matrix; eapply matrix_gen_ok; eauto|].
  split.
  { unfold spike_directionality_matrix. eapply matrix_gen_ok; eauto.
    intros a b _ _. apply spike_directionality_ok. }
  split.
  { unfold directionality_values. rewrite (reconcile_ok eps rc ts te l Hrc Hlt HF). cbv zeta.
    rewrite (idx_ok_check _ _ Hix). cbn [negb]. eexists; reflexivity. }
  unfold filter_by_spike_sync. cbv zeta. rewrite map_length, seq_length.
  destruct rc; [apply Lem_Lists.reconcile_length|reflexivity].
Qed.

(* the divisor k - 1 of the directionality values is positive *)
Lemma dirvalues_divisor_pos n idx : idx_ok n idx ->
  0 < nofnat ROps (length (indices_or_all n idx) - 1).
Proof. intros [_ H]. rewrite Lem_Multi.nofnat_INR. apply lt_0_INR. lia. Qed.

(* ------------------------------------------------------------------ *)
(* 4. divisors of the ISI profile                                       *)

Lemma breaks_bounds ts te s1 s2 x : ts < te -> In x (breaks ROps ts te s1 s2) -> ts <= x <= te.
Proof.
  intros Hlt Hx. pose proof (Lem_Pwc.ssorted_bounds _ (Lem_Spike.breaks_sorted ts te s1 s2 Hlt)) as HB.
  rewrite nthF0_breaks, lastF_breaks, Forall_forall in HB. apply HB; exact Hx.
Qed.

(* the midpoint of every piece lies strictly inside the recording *)
Lemma piece_mid_inside ts te s1 s2 p : ts < te -> In p (pieces (breaks ROps ts te s1 s2)) ->
  fst p < snd p /\ ts <= fst p /\ snd p <= te /\ ts < mid ROps p < te.
Proof.
  intros Hlt Hp.
  destruct (Lem_Pwc.pieces_In _ (Lem_Spike.breaks_sorted ts te s1 s2 Hlt) p Hp) as (I1 & I2 & I3 & _).
  pose proof (breaks_bounds ts te s1 s2 _ Hlt I1) as B1.
  pose proof (breaks_bounds ts te s1 s2 _ Hlt I2) as B2.
  destruct p as [a b]. cbn [fst snd] in *. pose proof (Lem_Pwc.mid_between a b I3). lra.
Qed.

Lemma piece_isi_pos ts te s1 s2 s p : valid ts te s -> In p (pieces (breaks ROps ts te s1 s2)) ->
  0 < isi_len_at ROps ts te (eff ts te s) (mid ROps p).
Proof.
  intros V Hp. pose proof V as (Hlt & _).
  destruct (piece_mid_inside ts te s1 s2 p Hlt Hp) as (_ & _ & _ & Hm).
  apply Lem_Isi.isi_len_at_pos_gen; [apply Lem_Isi.eff_valid; exact V|apply Lem_Isi.eff_nonempty|exact Hm].
Qed.

(* every divisor  max (max v1 v2) m  evaluated by [isi_spec] is positive, for any m *)
Theorem isi_divisors_pos : forall s1 s2 ts te m p, valid ts te s1 -> valid ts te s2 ->
  In p (pieces (breaks ROps ts te s1 s2)) ->
  let v1 := isi_len_at ROps ts te (eff ts te s1) (mid ROps p) in
  let v2 := isi_len_at ROps ts te (eff ts te s2) (mid ROps p) in
  0 < v1 /\ 0 < v2 /\ 0 < nmax ROps (nmax ROps v1 v2) m.
Proof.
  intros s1 s2 ts te m p V1 V2 Hp v1 v2.
  pose proof (piece_isi_pos ts te s1 s2 s1 p V1 Hp) as P1. fold v1 in P1.
  pose proof (piece_isi_pos ts te s1 s2 s2 p V2 Hp) as P2. fold v2 in P2.
  split; [exact P1|]. split; [exact P2|]. rewrite !R_nmax.
  apply Rlt_le_trans with v1; [exact P1|].
  eapply Rle_trans; [apply Rmax_l|apply Rmax_l].
Qed.

(* ------------------------------------------------------------------ *)
(* 5. divisors of the SPIKE profile                                     *)

Lemma prev_some : forall (u : list R) t acc p, prev_of ROps t u acc = Some p ->
  p <= t \/ acc = Some p.
Proof.
  induction u as [|x r IH]; intros t acc p H; cbn [prev_of] in H; [right; exact H|].
  destruct (nleb ROps x t) eqn:E; [|right; exact H].
  apply IH in H as [H|H]; [left; exact H|].
  injection H as <-. left. apply nleb_true; exact E.
Qed.

Lemma next_some : forall (u : list R) t f, next_of ROps t u = Some f -> t < f.
Proof.
  induction u as [|x r IH]; intros t f H; cbn [next_of nltb ROps] in H; [discriminate|].
  destruct (Rltb_spec t x) as [L|L]; [injection H as <-; exact L|apply IH; exact H].
Qed.

(* inside [contrib] the divisor f - p is positive whenever both neighbours exist *)
Lemma contrib_divisor_pos (u : list R) tm p f :
  prev_of ROps tm u None = Some p -> next_of ROps tm u = Some f -> 0 < f - p.
Proof.
  intros Hp Hf. apply prev_some in Hp as [Hp|Hp]; [|discriminate]. apply next_some in Hf. lra.
Qed.

Lemma contrib_snd ts te (u w : list R) tm t :
  snd (contrib ROps ts te u w tm t) = isi_len_at ROps ts te u tm.
Proof.
  unfold contrib. cbv zeta.
  destruct (prev_of ROps tm u None), (next_of ROps tm u); reflexivity.
Qed.

(* [spike_at] with its divisors made explicit *)
Lemma spike_at_form ts te m ri (u1 u2 : list R) tm t :
  spike_at ROps ts te m ri u1 u2 tm t =
  let c1 := fst (contrib ROps ts te u1 u2 tm t) in
  let c2 := fst (contrib ROps ts te u2 u1 tm t) in
  let i1 := isi_len_at ROps ts te u1 tm in
  let i2 := isi_len_at ROps ts te u2 tm in
  let mean := (i1 + i2) / 2 in
  if ri then ((c1 + c2) / 2) / Rmax m mean
  else ((c1 * i2 + c2 * i1) / 2) / (mean * Rmax m mean).
Proof.
  unfold spike_at.
  rewrite <- (contrib_snd ts te u1 u2 tm t), <- (contrib_snd ts te u2 u1 tm t).
  destruct (contrib ROps ts te u1 u2 tm t) as [c1 i1], (contrib ROps ts te u2 u1 tm t) as [c2 i2].
  cbn [fst snd]. cbv zeta. rewrite R_nmax, R_n2. reflexivity.
Qed.

Theorem spike_divisors_pos : forall s1 s2 ts te m p, valid ts te s1 -> valid ts te s2 ->
  In p (pieces (breaks ROps ts te s1 s2)) ->
  let tm := mid ROps p in
  let i1 := isi_len_at ROps ts te (eff ts te s1) tm in
  let i2 := isi_len_at ROps ts te (eff ts te s2) tm in
  0 < i1 /\ 0 < i2 /\ 0 < (i1 + i2) / 2 /\ 0 < Rmax m ((i1 + i2) / 2)
  /\ 0 < (i1 + i2) / 2 * Rmax m ((i1 + i2) / 2)
  /\ (forall u pv f, prev_of ROps tm u None = Some pv -> next_of ROps tm u = Some f -> 0 < f - pv).
Proof.
  intros s1 s2 ts te m p V1 V2 Hp tm i1 i2.
  pose proof (piece_isi_pos ts te s1 s2 s1 p V1 Hp) as P1. fold tm in P1. fold i1 in P1.
  pose proof (piece_isi_pos ts te s1 s2 s2 p V2 Hp) as P2. fold tm in P2. fold i2 in P2.
  assert (Pm : 0 < (i1 + i2) / 2) by lra.
  assert (PM : 0 < Rmax m ((i1 + i2) / 2)) by (eapply Rlt_le_trans; [exact Pm|apply Rmax_r]).
  repeat split; auto.
  - apply Rmult_lt_0_compat; assumption.
  - intros u pv f. apply contrib_divisor_pos.
Qed.

(* the divisor xr - xl of every linear piece of a well-formed profile (used by
   [lp_at] in pwl_add and by [interm] in pwl_integral / __call__) is positive *)
Lemma lpieces_divisor_pos : forall (xs y1 y2 : list R) p, ssorted xs ->
  In p (lpieces xs y1 y2) -> 0 < lp_xr p - Lem_Pwl.lp_xl p.
Proof.
  induction xs as [|x0 xs IH]; intros y1 y2 p Hs Hp; [destruct Hp|].
  destruct xs as [|x1 r]; [destruct Hp|].
  destruct y1 as [|a y1]; [destruct Hp|]. destruct y2 as [|b y2]; [destruct Hp|].
  cbn [lpieces] in Hp. apply ssorted_cons_inv in Hs as [Hs HF].
  destruct Hp as [<-|Hp].
  - unfold lp_xr, Lem_Pwl.lp_xl. cbn [fst snd]. inversion HF; subst. lra.
  - apply (IH y1 y2 p Hs Hp).
Qed.

(* ------------------------------------------------------------------ *)
(* 9. the assert on the indices                                         *)

Lemma check_indices_bad n ix i : In i ix -> (n <= i)%nat -> check_indices n ix = false.
Proof.
  intros Hi Hn. unfold check_indices. apply not_true_is_false. intros H.
  rewrite forallb_forall in H. specialize (H i Hi). apply Nat.ltb_lt in H. lia.
Qed.

Lemma rc_length (eps : R) (rc : bool) (l : list trainR) : length (if rc then reconcile ROps eps l else l) = length l.
Proof. destruct rc; [apply Lem_Lists.reconcile_length|reflexivity]. Qed.

Theorem indices_checked : forall eps cy rc nz m mt ri iv (l : list trainR) ix i,
  In i ix -> (length l <= i)%nat ->
  isi_profile_multi ROps eps cy rc m l (Some ix) = Err AssertionError /\
  spike_profile_multi ROps eps cy rc m ri l (Some ix) = Err AssertionError /\
  spike_sync_profile_multi ROps eps cy rc mt m l (Some ix) = Err AssertionError /\
  order_profile_multi ROps eps cy rc mt m l (Some ix) = Err AssertionError /\
  isi_distance_multi ROps eps cy rc m iv l (Some ix) = Err AssertionError /\
  spike_distance_multi ROps eps cy rc m ri iv l (Some ix) = Err AssertionError /\
  spike_sync_multi ROps eps cy rc mt m iv l (Some ix) = Err AssertionError /\
  spike_train_order_multi ROps eps cy rc nz mt m l (Some ix) = Err AssertionError /\
  isi_distance_matrix ROps eps cy rc m iv l (Some ix) = Err AssertionError /\
  spike_distance_matrix ROps eps cy rc m ri iv l (Some ix) = Err AssertionError /\
  spike_sync_matrix ROps eps cy rc mt m iv l (Some ix) = Err AssertionError /\
  spike_directionality_matrix ROps eps cy rc nz mt m l (Some ix) = Err AssertionError /\
  directionality_values ROps eps cy rc mt m l (Some ix) = Err AssertionError.
Proof.
  intros eps cy rc nz m mt ri iv l ix i Hi Hn.
  pose proof (check_indices_bad (length l) ix i Hi Hn) as Hc.
  repeat split;
    unfold isi_profile_multi, spike_profile_multi, spike_sync_profile_multi, order_profile_multi,
           isi_distance_multi, spike_distance_multi, spike_sync_multi, spike_train_order_multi,
           isi_distance_matrix, spike_distance_matrix, spike_sync_matrix, spike_directionality_matrix,
           directionality_values, profile_multi_gen, distance_multi_gen, matrix_gen;
    cbv zeta; cbn [indices_or_all]; rewrite rc_length, Hc; reflexivity.
Qed.

Print Assumptions isi_profile_bi_wf.
Print Assumptions spike_profile_bi_wf.
Print Assumptions sync_profile_bi_wf.
Print Assumptions order_profile_bi_wf.
Print Assumptions isi_divisors_pos.
Print Assumptions spike_divisors_pos.
Print Assumptions bi_scalars_ok.
Print Assumptions dc_ok.
Print Assumptions multi_profiles_ok.
Print Assumptions multi_scalars_ok.
Print Assumptions indices_checked.
Print Assumptions lpieces_divisor_pos.
