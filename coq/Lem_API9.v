(* Lem_API9.v — property C05 (every scalar measure is the aggregate of its profile), multivariate
   part, for EVERY admissible index selection [idx : option (list nat)] (None = all trains,
   Some ix = the positions ix, in that order, repetitions allowed) with at least one pair:
     1. isi_distance_multi   = pwc_avrg of isi_profile_multi,
     2. spike_distance_multi = pwl_avrg of spike_profile_multi,
     3. spike_sync_multi     = ratio (convention 1) of the df_integral of spike_sync_profile_multi,
     4. spike_train_order_multi = first component (un-normalised) / ratio with the convention 1
        (normalised) of the df_integral of order_profile_multi over the whole recording.
   rc = false, both backends, whole recording and every sub-interval.  R instance.
   Generalises Lem_MultiAPI.isi_multi_distance_is_profile_average_uncond,
   Lem_MultiAPI2.spike_multi_distance_is_profile_average and
   Lem_MultiAPI2.sync_multi_value_is_profile_ratio (idx = None); the train predicate [wtrain] and
   the interval predicate [iv_ok] are those of Lem_MultiAPI2 (convertible with Lem_API.vtrain and
   Lem_WF.iv_ok). *)
From Coq Require Import List Bool Arith ZArith Reals Lra Lia Sorted Permutation.
Import ListNotations.
From PS Require Import Num RLemmas Valid ModelKernels ModelFuncs ModelAPI Spec SyncDefs.
From PS Require Import Lem_API Lem_API4 Lem_API5.
From PS Require Lem_Pwc Lem_Pwl Lem_Df Lem_WF Lem_Multi Lem_MultiAPI Lem_MultiAPI2 Lem_OrderSpec
                Lem_API6 Lem_API7.
Local Open Scope R_scope.

Local Notation trainR := (@train R).
Local Notation wtrain := Lem_MultiAPI2.wtrain.
Local Notation iv_ok := Lem_MultiAPI2.iv_ok.

(* ------------------------------------------------------------------ *)
(* 0. the divide-and-conquer driver on the pairs of a selection         *)

(* the driver only looks at the pair function on the pairs of its list *)
Lemma dc_ext {P : Type} (padd : P -> P -> res P) (pf pf' : nat * nat -> res P) : forall fuel ps,
  (forall p, In p ps -> pf p = pf' p) -> dc padd pf fuel ps = dc padd pf' fuel ps.
Proof.
  induction fuel as [|k IH]; intros ps H; [reflexivity|].
  destruct ps as [|p [|q ps]]; [reflexivity| |].
  - cbn [dc]. apply H. left; reflexivity.
  - cbn [dc]. cbv zeta.
    set (h := Nat.div2 (length (p :: q :: ps))).
    rewrite (IH (firstn h (p :: q :: ps)))
      by (intros x Hx; apply H; eapply Lem_API6.in_firstn6; exact Hx).
    rewrite (IH (skipn h (p :: q :: ps)))
      by (intros x Hx; apply H; eapply Lem_API6.in_skipn6; exact Hx).
    reflexivity.
Qed.

(* _generic_profile_multi on an admissible selection *)
Lemma profile_multi_gen_idx {P : Type} eps (padd : P -> P -> res P) (bi : trainR -> trainR -> res P)
      (l : list trainR) idx : idx_ok (length l) idx ->
  profile_multi_gen ROps eps padd bi false l idx
  = rmap (fun p => (p, length (pairs_of (ixs l idx))))
         (dc padd (fun p => bi (nth_train ROps l (fst p)) (nth_train ROps l (snd p)))
             (S (length (pairs_of (ixs l idx)))) (pairs_of (ixs l idx))).
Proof.
  intros Hix. unfold profile_multi_gen. cbv zeta.
  change (indices_or_all (length l) idx) with (ixs l idx).
  rewrite (idx_ok_check l idx Hix). reflexivity.
Qed.

Lemma sel_pairs_wtrain ts te (l : list trainR) idx p :
  idx_ok (length l) idx -> Forall (wtrain ts te) l -> In p (pairs_of (ixs l idx)) ->
  wtrain ts te (nth_train ROps l (fst p)) /\ wtrain ts te (nth_train ROps l (snd p)).
Proof.
  intros Hix HF Hp.
  exact (Lem_API7.pairs_vtrain_ix ts te l _ p (idx_ok_check l idx Hix) HF Hp).
Qed.

Lemma sel_pairs_ne (l : list trainR) idx : (2 <= msize l idx)%nat -> pairs_of (ixs l idx) <> [].
Proof.
  intros H2 E. pose proof (Lem_WF.pairs_pos (ixs l idx) H2) as Hp. rewrite E in Hp.
  cbn [length] in Hp. lia.
Qed.

Lemma sel_ts_lt_te ts te (l : list trainR) idx :
  idx_ok (length l) idx -> (2 <= msize l idx)%nat -> Forall (wtrain ts te) l -> ts < te.
Proof.
  intros Hix H2 HF. destruct (pairs_of (ixs l idx)) as [|p r] eqn:E.
  - exfalso. exact (sel_pairs_ne l idx H2 E).
  - destruct (sel_pairs_wtrain ts te l idx p Hix HF) as [((H & _) & _) _];
      [rewrite E; left; reflexivity | exact H].
Qed.

(* the tree of additions, by direct induction: any additive functional of the profiles *)
Section DCSum.
  Context {P A : Type}.
  Variable padd : P -> P -> res P.
  Variable good : P -> Prop.
  Variable mu : P -> A -> R.
  Variable dom : A -> Prop.
  Hypothesis Hadd : forall f g, good f -> good g ->
    exists h, padd f g = Ok h /\ good h /\ forall x, dom x -> mu h x = mu f x + mu g x.
  Variable prof : nat * nat -> P.

  Lemma dc_sum : forall fuel ps,
    (forall p, In p ps -> good (prof p)) -> ps <> [] -> (length ps < fuel)%nat ->
    exists r, dc padd (fun p => Ok (prof p)) fuel ps = Ok r /\ good r /\
      forall x, dom x -> mu r x = sumF ROps (map (fun p => mu (prof p) x) ps).
  Proof.
    induction fuel as [|k IH]; intros ps Hg Hne Hlen; [lia|].
    destruct ps as [|p [|q r]]; [congruence| |].
    - exists (prof p). split; [reflexivity|]. split; [apply Hg; left; reflexivity|].
      intros x _. cbn [map]. rewrite Lem_MultiAPI2.sumF_one. reflexivity.
    - set (ps := p :: q :: r) in *.
      assert (Hdc : dc padd (fun p => Ok (prof p)) (S k) ps =
                    rbind (dc padd (fun p => Ok (prof p)) k (firstn (Nat.div2 (length ps)) ps))
                      (fun d1 =>
                    rbind (dc padd (fun p => Ok (prof p)) k (skipn (Nat.div2 (length ps)) ps))
                      (fun d2 => padd d1 d2)))
        by reflexivity.
      rewrite Hdc. clear Hdc.
      assert (Hl2 : (2 <= length ps)%nat) by (unfold ps; cbn [length]; lia).
      destruct (Lem_Multi.div2_bounds (length ps) Hl2) as [Hh1 Hh2].
      set (h := Nat.div2 (length ps)) in *.
      assert (Lf : length (firstn h ps) = h) by (apply firstn_length_le; lia).
      assert (Ls : length (skipn h ps) = (length ps - h)%nat) by apply skipn_length.
      assert (Nf : firstn h ps <> []) by (intros E; rewrite E in Lf; change (0 = h)%nat in Lf; lia).
      assert (Ns : skipn h ps <> [])
        by (intros E; rewrite E in Ls; change (0 = length ps - h)%nat in Ls; lia).
      assert (If : forall x, In x (firstn h ps) -> good (prof x))
        by (intros x Hx; apply Hg; rewrite <- (firstn_skipn h ps); apply in_or_app; auto).
      assert (Is : forall x, In x (skipn h ps) -> good (prof x))
        by (intros x Hx; apply Hg; rewrite <- (firstn_skipn h ps); apply in_or_app; auto).
      destruct (IH _ If Nf) as (r1 & E1 & G1 & S1); [lia|].
      destruct (IH _ Is Ns) as (r2 & E2 & G2 & S2); [lia|].
      rewrite E1, E2. cbn [rbind].
      destruct (Hadd r1 r2 G1 G2) as (r3 & E3 & G3 & S3).
      exists r3. split; [exact E3|]. split; [exact G3|].
      intros x Hx. rewrite (S3 x Hx), (S1 x Hx), (S2 x Hx).
      rewrite <- Lem_Multi.sumF_app, <- map_app, firstn_skipn. reflexivity.
  Qed.
End DCSum.

(* ------------------------------------------------------------------ *)
(* 1. ISI distance                                                      *)

Definition ovc (f : list R * list R) (ab : R * R) : R :=
  pwc_overlap ROps (fst f) (snd f) (fst ab) (snd ab).

Lemma pwc_add_sum9 ts te f g : Lem_MultiAPI.goodp ts te f -> Lem_MultiAPI.goodp ts te g ->
  exists h, pwc_add ROps f g = Ok h /\ Lem_MultiAPI.goodp ts te h /\
    forall ab, ts <= fst ab /\ fst ab <= snd ab /\ snd ab <= te -> ovc h ab = ovc f ab + ovc g ab.
Proof.
  intros Gf Gg. exists (pwc_add_spec ROps f g).
  split; [apply (Lem_MultiAPI.goodp_add ts te f g Gf Gg)|].
  split; [apply Lem_MultiAPI.goodp_add_spec; assumption|].
  intros [a b] (Ha & Hab & Hb). cbn [fst snd] in *.
  destruct Gf as (Wf & F0 & FL). destruct Gg as (Wg & G0 & GL).
  unfold ovc. cbn [fst snd].
  apply Lem_MultiAPI.pwc_overlap_add; auto; try congruence; rewrite ?F0, ?FL; assumption.
Qed.

Theorem isi_multi_distance_is_profile_average_idx : forall eps cy m iv l idx ts te,
  idx_ok (length l) idx -> (2 <= msize l idx)%nat -> Forall (wtrain ts te) l -> iv_ok ts te iv ->
  exists P, isi_profile_multi ROps eps cy false m l idx = Ok P /\
    isi_distance_multi ROps eps cy false m iv l idx = pwc_avrg ROps P (iv_of iv).
Proof.
  intros eps cy m iv l idx ts te Hix H2 HF Hiv.
  set (ps := pairs_of (ixs l idx)).
  set (prof := fun p : nat * nat =>
                 isi_profile_bi ROps eps cy false m
                   (nth_train ROps l (fst p)) (nth_train ROps l (snd p))).
  assert (Hg : forall p, In p ps -> Lem_MultiAPI.goodp ts te (prof p)).
  { intros p Hp. destruct (sel_pairs_wtrain ts te l idx p Hix HF Hp) as [Ma Mb].
    apply Lem_MultiAPI.bip_good; assumption. }
  destruct (dc_sum (pwc_add ROps) (Lem_MultiAPI.goodp ts te) ovc
              (fun ab => ts <= fst ab /\ fst ab <= snd ab /\ snd ab <= te)
              (pwc_add_sum9 ts te) prof (S (length ps)) ps Hg (sel_pairs_ne l idx H2)
              (Nat.lt_succ_diag_r _)) as (SP & ES & GS & OS).
  set (c := 1 / INR (length ps)).
  exists (pwc_mul ROps SP c). split.
  - unfold isi_profile_multi. rewrite (profile_multi_gen_idx eps _ _ l idx Hix). fold ps.
    change (rmap (fun pn => pwc_mul ROps (fst pn) (ndiv ROps (n1 ROps) (nofnat ROps (snd pn))))
              (rmap (fun p => (p, length ps))
                 (dc (pwc_add ROps) (fun p => Ok (prof p)) (S (length ps)) ps))
            = Ok (pwc_mul ROps SP c)).
    rewrite ES. cbn [rmap fst snd]. rewrite Lem_Multi.nofnat_INR. reflexivity.
  - pose proof (Lem_MultiAPI.goodp_mul ts te SP c GS) as GP.
    pose proof (sel_ts_lt_te ts te l idx Hix H2 HF) as Hlt.
    destruct (Lem_MultiAPI.iv_ok_bounds ts te iv Hlt Hiv) as (B1 & B2 & B3).
    rewrite (Lem_MultiAPI.avrg_good ts te iv _ GP Hiv).
    rewrite Lem_MultiAPI.pwc_overlap_mul.
    change (pwc_overlap ROps (fst SP) (snd SP) (Lem_MultiAPI.iv_lo ts iv) (Lem_MultiAPI.iv_hi te iv))
      with (ovc SP (Lem_MultiAPI.iv_lo ts iv, Lem_MultiAPI.iv_hi te iv)).
    rewrite OS by (cbn [fst snd]; lra).
    unfold isi_distance_multi.
    rewrite (Lem_API7.distance_multi_val_idx eps _
               (fun p => ovc (prof p) (Lem_MultiAPI.iv_lo ts iv, Lem_MultiAPI.iv_hi te iv)
                         / (Lem_MultiAPI.iv_hi te iv - Lem_MultiAPI.iv_lo ts iv)) l idx Hix).
    + fold ps. rewrite Lem_MultiAPI.sumF_map_div. f_equal. unfold c, Rdiv. ring.
    + intros p Hp. destruct (sel_pairs_wtrain ts te l idx p Hix HF Hp) as [Ma Mb].
      rewrite (Lem_MultiAPI.isi_bi_is_avrg eps cy m iv ts te _ _ Ma Mb).
      apply Lem_MultiAPI.avrg_good; [apply Hg; exact Hp | exact Hiv].
Qed.

(* ------------------------------------------------------------------ *)
(* 2. SPIKE distance                                                    *)

Theorem spike_multi_distance_is_profile_average_idx : forall eps cy m ri iv l idx ts te,
  idx_ok (length l) idx -> (2 <= msize l idx)%nat -> Forall (wtrain ts te) l -> iv_ok ts te iv ->
  exists P, spike_profile_multi ROps eps cy false m ri l idx = Ok P /\
    spike_distance_multi ROps eps cy false m ri iv l idx = pwl_avrg ROps P (iv_of iv).
Proof.
  intros eps cy m ri iv l idx ts te Hix H2 HF Hiv.
  pose proof (proj1 (Lem_MultiAPI2.iv_ok_wf ts te iv) Hiv) as Hiv'.
  set (ps := pairs_of (ixs l idx)).
  set (prof := fun p : nat * nat =>
                 spike_profile_bi ROps eps cy false m ri
                   (nth_train ROps l (fst p)) (nth_train ROps l (snd p))).
  assert (Hg : forall p, In p ps -> Lem_WF.good_pwl ts te (prof p)).
  { intros p Hp. destruct (sel_pairs_wtrain ts te l idx p Hix HF Hp) as [Ma Mb].
    apply Lem_WF.spike_profile_bi_wf; [apply Lem_WF.rc_ok_false | exact Ma | exact Mb]. }
  destruct (Lem_MultiAPI2.dc_pwl_sum ts te prof (S (length ps)) ps Hg (sel_pairs_ne l idx H2)
              (Nat.lt_succ_diag_r _)) as (SP & ES & GS & _ & _ & OS & _).
  set (c := 1 / INR (length ps)).
  exists (pwl_mul ROps SP c). split.
  - unfold spike_profile_multi. rewrite (profile_multi_gen_idx eps _ _ l idx Hix). fold ps.
    change (rmap (fun pn => pwl_mul ROps (fst pn) (ndiv ROps (n1 ROps) (nofnat ROps (snd pn))))
              (rmap (fun p => (p, length ps))
                 (dc (pwl_add ROps) (fun p => Ok (prof p)) (S (length ps)) ps))
            = Ok (pwl_mul ROps SP c)).
    match goal with |- rmap _ (rmap _ ?d) = _ =>
      assert (ES' : d = Ok SP) by exact ES; rewrite ES' end.
    cbn [rmap fst snd]. rewrite Lem_Multi.nofnat_INR. reflexivity.
  - pose proof (Lem_WF.good_pwl_mul ts te SP c GS) as GP.
    pose proof (sel_ts_lt_te ts te l idx Hix H2 HF) as Hlt.
    assert (B : ts <= Lem_WF.iv_lo ts iv /\ Lem_WF.iv_lo ts iv <= Lem_WF.iv_hi te iv
                /\ Lem_WF.iv_hi te iv <= te).
    { revert Hiv'. destruct iv as [[x y]|]; cbn [Lem_WF.iv_ok Lem_WF.iv_lo Lem_WF.iv_hi]; lra. }
    destruct B as (B1 & B2 & B3).
    rewrite (Lem_WF.pwl_avrg_ok ts te _ iv GP Hiv').
    pose proof (Lem_MultiAPI.pwl_overlap_mul SP c (Lem_WF.iv_lo ts iv) (Lem_WF.iv_hi te iv)) as EM.
    cbv zeta in EM. rewrite EM.
    fold (Lem_MultiAPI2.ov SP (Lem_WF.iv_lo ts iv) (Lem_WF.iv_hi te iv)).
    rewrite (OS _ _ B1 B2 B3).
    unfold spike_distance_multi.
    rewrite (Lem_API7.distance_multi_val_idx eps _
               (fun p => Lem_MultiAPI2.ov (prof p) (Lem_WF.iv_lo ts iv) (Lem_WF.iv_hi te iv)
                         / (Lem_WF.iv_hi te iv - Lem_WF.iv_lo ts iv)) l idx Hix).
    + fold ps. rewrite Lem_MultiAPI.sumF_map_div. f_equal. unfold c, Rdiv. ring.
    + intros p Hp. destruct (sel_pairs_wtrain ts te l idx p Hix HF Hp) as [Ma Mb].
      rewrite (Lem_MultiAPI2.spike_bi_is_avrg eps cy m ri iv ts te _ _ Ma Mb).
      apply Lem_WF.pwl_avrg_ok; [apply Hg; exact Hp | exact Hiv'].
Qed.

(* ------------------------------------------------------------------ *)
(* 3. SPIKE-Sync                                                        *)

Theorem sync_multi_value_is_profile_ratio_idx : forall eps cy mt m iv l idx ts te,
  idx_ok (length l) idx -> (2 <= msize l idx)%nat -> Forall (wtrain ts te) l -> iv_ok ts te iv ->
  exists P, spike_sync_profile_multi ROps eps cy false mt m l idx = Ok P /\
    spike_sync_multi ROps eps cy false mt m iv l idx
    = rmap (fun cm => if Reqb (snd cm) 0 then 1 else fst cm / snd cm)
           (df_integral ROps P (iv_of iv)).
Proof.
  intros eps cy mt m iv l idx ts te Hix H2 HF Hiv.
  pose proof (proj1 (Lem_MultiAPI2.iv_ok_wf ts te iv) Hiv) as Hiv'.
  set (ps := pairs_of (ixs l idx)).
  set (prof := fun p : nat * nat =>
                 spike_sync_profile_bi ROps eps cy false mt m
                   (nth_train ROps l (fst p)) (nth_train ROps l (snd p))).
  assert (Hg : forall p, In p ps -> Lem_MultiAPI.gooddf ts te (prof p)).
  { intros p Hp. destruct (sel_pairs_wtrain ts te l idx p Hix HF Hp) as [Ma Mb].
    apply Lem_MultiAPI.sync_bi_good; [exact Ma | exact Mb]. }
  destruct (Lem_MultiAPI2.dc_df_int ts te prof (S (length ps)) ps Hg (sel_pairs_ne l idx H2)
              (Nat.lt_succ_diag_r _)) as (P & EP & GP & SP).
  exists P. split.
  - unfold spike_sync_profile_multi. rewrite (profile_multi_gen_idx eps _ _ l idx Hix). fold ps.
    change (rmap fst (rmap (fun p => (p, length ps))
                           (dc (df_add ROps) (fun p => Ok (prof p)) (S (length ps)) ps)) = Ok P).
    match goal with |- rmap fst (rmap _ ?d) = _ =>
      assert (EP' : d = Ok P) by exact EP; rewrite EP' end.
    reflexivity.
  - rewrite (Lem_WF.df_integral_ok ts te P iv GP Hiv'), Lem_MultiAPI2.spec_iv_of, (SP iv).
    unfold spike_sync_multi.
    change (indices_or_all (length l) idx) with (ixs l idx).
    rewrite (idx_ok_check l idx Hix). cbn [negb]. fold ps.
    rewrite (Lem_MultiAPI2.pair_fold_val
               (fun p => spike_sync_values ROps eps cy mt m iv
                           (nth_train ROps l (fst p)) (nth_train ROps l (snd p)))
               (fun p => df_integral_spec1 ROps (prof p) iv)).
    + cbn [rmap fst snd n0 n1 neqb ndiv ROps]. rewrite !Rplus_0_l. reflexivity.
    + intros p Hp. destruct (sel_pairs_wtrain ts te l idx p Hix HF Hp) as [Ma Mb].
      rewrite (@Lem_API.sync_values_are_profile_sums eps cy mt m iv _ _ ts te Ma Mb).
      fold (prof p). rewrite (Lem_WF.df_integral_ok ts te (prof p) iv (Hg p Hp) Hiv').
      rewrite Lem_MultiAPI2.spec_iv_of. reflexivity.
Qed.

(* ------------------------------------------------------------------ *)
(* 4. spike train order                                                 *)

(* the pair profile and the pair value of two trains of one recording; the Python path of the
   value (cy = false) reconciles first, which needs eps > 0 *)
Lemma order_pair9 eps cy mt m ts te (a b : trainR) : cy = true \/ 0 < eps ->
  wtrain ts te a -> wtrain ts te b ->
  order_profile_bi ROps eps cy false mt m a b
    = Ok (order_spec ROps (tr_spikes a) (tr_spikes b) ts te mt m) /\
  Lem_MultiAPI.gooddf ts te (order_spec ROps (tr_spikes a) (tr_spikes b) ts te mt m) /\
  order_impl ROps eps cy mt m a b
    = df_integral ROps (order_spec ROps (tr_spikes a) (tr_spikes b) ts te mt m) (@IvNone R).
Proof.
  intros He Ma Mb.
  split; [apply (Lem_WF.order_bi_spec eps cy false mt m ts te a b (Lem_WF.rc_ok_false eps) Ma Mb)|].
  split.
  { unfold order_spec. cbv zeta. apply Lem_WF.framed_events_good; [apply Ma | apply Mb]. }
  destruct cy.
  - change (order_impl ROps eps true mt m a b) with (order_impl ROps 1 true mt m a b).
    rewrite (@order_is_profile_sums 1 true mt m a b ts te Rlt_0_1 Ma Mb).
    rewrite (Lem_WF.order_bi_spec 1 true true mt m ts te a b (or_intror Rlt_0_1) Ma Mb).
    reflexivity.
  - destruct He as [He|He]; [discriminate|].
    rewrite (@order_is_profile_sums eps false mt m a b ts te He Ma Mb).
    rewrite (Lem_WF.order_bi_spec eps false true mt m ts te a b (or_intror He) Ma Mb).
    reflexivity.
Qed.

Theorem order_multi_is_profile_sums_idx : forall eps cy nz mt m l idx ts te,
  cy = true \/ 0 < eps ->
  idx_ok (length l) idx -> (2 <= msize l idx)%nat -> Forall (wtrain ts te) l ->
  exists P, order_profile_multi ROps eps cy false mt m l idx = Ok P /\
    spike_train_order_multi ROps eps cy false nz mt m l idx
    = rmap (fun cm => if nz then (if Reqb (snd cm) 0 then 1 else fst cm / snd cm) else fst cm)
           (df_integral ROps P (@IvNone R)).
Proof.
  intros eps cy nz mt m l idx ts te He Hix H2 HF.
  set (ps := pairs_of (ixs l idx)).
  set (prof := fun p : nat * nat =>
                 order_spec ROps (tr_spikes (nth_train ROps l (fst p)))
                            (tr_spikes (nth_train ROps l (snd p))) ts te mt m).
  assert (Hp3 : forall p, In p ps ->
            order_profile_bi ROps eps cy false mt m (nth_train ROps l (fst p)) (nth_train ROps l (snd p))
              = Ok (prof p) /\
            Lem_MultiAPI.gooddf ts te (prof p) /\
            order_impl ROps eps cy mt m (nth_train ROps l (fst p)) (nth_train ROps l (snd p))
              = df_integral ROps (prof p) (@IvNone R)).
  { intros p Hp. destruct (sel_pairs_wtrain ts te l idx p Hix HF Hp) as [Ma Mb].
    exact (order_pair9 eps cy mt m ts te _ _ He Ma Mb). }
  assert (Hg : forall p, In p ps -> Lem_MultiAPI.gooddf ts te (prof p))
    by (intros p Hp; exact (proj1 (proj2 (Hp3 p Hp)))).
  destruct (Lem_MultiAPI2.dc_df_int ts te prof (S (length ps)) ps Hg (sel_pairs_ne l idx H2)
              (Nat.lt_succ_diag_r _)) as (P & EP & GP & SP).
  exists P. split.
  - unfold order_profile_multi. rewrite (profile_multi_gen_idx eps _ _ l idx Hix). fold ps.
    rewrite (dc_ext (df_add ROps) _ (fun p => Ok (prof p)) (S (length ps)) ps
               (fun p Hp => proj1 (Hp3 p Hp))).
    rewrite EP. reflexivity.
  - pose proof (Lem_WF.df_integral_ok ts te P None GP I) as EI. cbn [iv_of] in EI.
    rewrite EI. change (df_integral_spec ROps P (@IvNone R)) with (df_integral_spec1 ROps P None).
    rewrite (SP None).
    unfold spike_train_order_multi.
    change (indices_or_all (length l) idx) with (ixs l idx).
    rewrite (idx_ok_check l idx Hix). cbn [negb]. fold ps.
    rewrite (Lem_MultiAPI2.pair_fold_val
               (fun p => order_impl ROps eps cy mt m
                           (nth_train ROps l (fst p)) (nth_train ROps l (snd p)))
               (fun p => df_integral_spec1 ROps (prof p) None)).
    + cbn [rmap fst snd n0 n1 neqb ndiv ROps]. rewrite !Rplus_0_l. reflexivity.
    + intros p Hp. rewrite (proj2 (proj2 (Hp3 p Hp))).
      pose proof (Lem_WF.df_integral_ok ts te (prof p) None (Hg p Hp) I) as EIp.
      cbn [iv_of] in EIp. rewrite EIp. reflexivity.
Qed.

(* the two readings of the task: un-normalised = summed event values, normalised = ratio, 1 by
   convention when the profile has no event *)
Corollary order_multi_sum_idx : forall eps cy mt m l idx ts te,
  cy = true \/ 0 < eps ->
  idx_ok (length l) idx -> (2 <= msize l idx)%nat -> Forall (wtrain ts te) l ->
  exists P, order_profile_multi ROps eps cy false mt m l idx = Ok P /\
    spike_train_order_multi ROps eps cy false false mt m l idx
      = rmap fst (df_integral ROps P (@IvNone R)) /\
    spike_train_order_multi ROps eps cy false true mt m l idx
      = rmap (fun cm => if Reqb (snd cm) 0 then 1 else fst cm / snd cm)
             (df_integral ROps P (@IvNone R)).
Proof.
  intros eps cy mt m l idx ts te He Hix H2 HF.
  destruct (order_multi_is_profile_sums_idx eps cy false mt m l idx ts te He Hix H2 HF)
    as (P & EP & E0).
  destruct (order_multi_is_profile_sums_idx eps cy true mt m l idx ts te He Hix H2 HF)
    as (P' & EP' & E1).
  rewrite EP in EP'. injection EP' as <-.
  exists P. split; [exact EP|]. split; [exact E0 | exact E1].
Qed.

(* all four together *)
Theorem multi_scalars_are_profile_aggregates_idx : forall eps cy m mt ri iv l idx ts te,
  idx_ok (length l) idx -> (2 <= msize l idx)%nat -> Forall (wtrain ts te) l -> iv_ok ts te iv ->
  (exists P, isi_profile_multi ROps eps cy false m l idx = Ok P /\
     isi_distance_multi ROps eps cy false m iv l idx = pwc_avrg ROps P (iv_of iv)) /\
  (exists P, spike_profile_multi ROps eps cy false m ri l idx = Ok P /\
     spike_distance_multi ROps eps cy false m ri iv l idx = pwl_avrg ROps P (iv_of iv)) /\
  (exists P, spike_sync_profile_multi ROps eps cy false mt m l idx = Ok P /\
     spike_sync_multi ROps eps cy false mt m iv l idx
     = rmap (fun cm => if Reqb (snd cm) 0 then 1 else fst cm / snd cm)
            (df_integral ROps P (iv_of iv))) /\
  (cy = true \/ 0 < eps ->
   exists P, order_profile_multi ROps eps cy false mt m l idx = Ok P /\
     spike_train_order_multi ROps eps cy false false mt m l idx
       = rmap fst (df_integral ROps P (@IvNone R)) /\
     spike_train_order_multi ROps eps cy false true mt m l idx
       = rmap (fun cm => if Reqb (snd cm) 0 then 1 else fst cm / snd cm)
              (df_integral ROps P (@IvNone R))).
Proof.
  intros eps cy m mt ri iv l idx ts te Hix H2 HF Hiv.
  split; [apply (isi_multi_distance_is_profile_average_idx eps cy m iv l idx ts te Hix H2 HF Hiv)|].
  split; [apply (spike_multi_distance_is_profile_average_idx eps cy m ri iv l idx ts te Hix H2 HF Hiv)|].
  split; [apply (sync_multi_value_is_profile_ratio_idx eps cy mt m iv l idx ts te Hix H2 HF Hiv)|].
  intros He. apply (order_multi_sum_idx eps cy mt m l idx ts te He Hix H2 HF).
Qed.

(* ------------------------------------------------------------------ *)
(* 5. non-vacuity: the three trains of Lem_API4 on [0, 10], positions [2; 0] *)

Example ex9_hypotheses :
  idx_ok (length ex_l) (Some [2; 0]%nat) /\ (2 <= msize ex_l (Some [2; 0]%nat))%nat /\
  Forall (wtrain 0 10) ex_l /\ iv_ok 0 10 (Some (1, 9)) /\ iv_ok 0 10 None /\
  (false = true \/ 0 < 1 / 1000000).
Proof.
  destruct ex_l_hypotheses as (HF & Hiv & HivN & _ & _ & _ & He).
  split; [reflexivity|]. split; [cbn; lia|]. split; [exact HF|].
  split; [exact Hiv|]. split; [exact HivN | exact He].
Qed.

Example ex9_instances :
  (exists P, isi_profile_multi ROps (1 / 1000000) true false 0 ex_l (Some [2; 0]%nat) = Ok P /\
     isi_distance_multi ROps (1 / 1000000) true false 0 (Some (1, 9)) ex_l (Some [2; 0]%nat)
     = pwc_avrg ROps P (IvOne 1 9)) /\
  (exists P, spike_profile_multi ROps (1 / 1000000) false false 0 true ex_l (Some [2; 0]%nat) = Ok P /\
     spike_distance_multi ROps (1 / 1000000) false false 0 true None ex_l (Some [2; 0]%nat)
     = pwl_avrg ROps P (@IvNone R)) /\
  (exists P, spike_sync_profile_multi ROps (1 / 1000000) true false 0 0 ex_l (Some [2; 0]%nat) = Ok P /\
     spike_sync_multi ROps (1 / 1000000) true false 0 0 (Some (1, 9)) ex_l (Some [2; 0]%nat)
     = rmap (fun cm => if Reqb (snd cm) 0 then 1 else fst cm / snd cm)
            (df_integral ROps P (IvOne 1 9))) /\
  (exists P, order_profile_multi ROps (1 / 1000000) false false 0 0 ex_l (Some [2; 0]%nat) = Ok P /\
     spike_train_order_multi ROps (1 / 1000000) false false false 0 0 ex_l (Some [2; 0]%nat)
       = rmap fst (df_integral ROps P (@IvNone R)) /\
     spike_train_order_multi ROps (1 / 1000000) false false true 0 0 ex_l (Some [2; 0]%nat)
       = rmap (fun cm => if Reqb (snd cm) 0 then 1 else fst cm / snd cm)
              (df_integral ROps P (@IvNone R))).
Proof.
  destruct ex9_hypotheses as (Hix & H2 & HF & Hiv & HivN & He).
  split; [apply (isi_multi_distance_is_profile_average_idx _ _ _ _ ex_l _ 0 10 Hix H2 HF Hiv)|].
  split; [apply (spike_multi_distance_is_profile_average_idx _ _ _ _ _ ex_l _ 0 10 Hix H2 HF HivN)|].
  split; [apply (sync_multi_value_is_profile_ratio_idx _ _ _ _ _ ex_l _ 0 10 Hix H2 HF Hiv)|].
  apply (order_multi_sum_idx _ _ _ _ ex_l _ 0 10 He Hix H2 HF).
Qed.

(* the statements evaluated on the Q instance (1e-6 tolerance): four trains on [0, 10] (one empty,
   spikes on both edges, a spike time shared by three trains), selections None / reversed /
   rotated / with a repeated position / a permutation of all, whole recording and [1, 9], both
   backends, plain and RI SPIKE profiles, three (MRTS, max_tau) settings *)
From Coq Require Import QArith.
Local Close Scope Q_scope.
Local Open Scope R_scope.

Definition q9_l : list (list Q * Q * Q) :=
  [([1; 5], 0, 10); ([], 0, 10); ([0; 5; 7], 0, 10); ([3; 5; 10], 0, 10)]%Q.
Definition q9_eps : Q := (1 # 1000000)%Q.
Definition q9_eq (a b : res Q) : bool :=
  match a, b with Ok x, Ok y => Qeq_bool x y | _, _ => false end.
Definition q9_idxs : list (option (list nat)) :=
  [None; Some [0; 2]%nat; Some [2; 0; 1]%nat; Some [1; 1; 0]%nat; Some [3; 1; 0; 2]%nat].
Definition q9_ivs : list (option (Q * Q)) := [None; Some (1, 9)%Q].
Definition q9_ratio (cm : Q * Q) : Q := if Qeq_bool (snd cm) 0 then 1%Q else (fst cm / snd cm)%Q.

Definition q9_checks (m mt : Q) : list bool :=
  flat_map (fun cy => flat_map (fun iv => flat_map (fun idx =>
    [ q9_eq (isi_distance_multi QOps q9_eps cy false m iv q9_l idx)
            (rbind (isi_profile_multi QOps q9_eps cy false m q9_l idx)
                   (fun P => pwc_avrg QOps P (iv_of iv)));
      q9_eq (spike_distance_multi QOps q9_eps cy false m false iv q9_l idx)
            (rbind (spike_profile_multi QOps q9_eps cy false m false q9_l idx)
                   (fun P => pwl_avrg QOps P (iv_of iv)));
      q9_eq (spike_distance_multi QOps q9_eps cy false m true iv q9_l idx)
            (rbind (spike_profile_multi QOps q9_eps cy false m true q9_l idx)
                   (fun P => pwl_avrg QOps P (iv_of iv)));
      q9_eq (spike_sync_multi QOps q9_eps cy false mt m iv q9_l idx)
            (rbind (spike_sync_profile_multi QOps q9_eps cy false mt m q9_l idx)
                   (fun P => rmap q9_ratio (df_integral QOps P (iv_of iv))));
      q9_eq (spike_train_order_multi QOps q9_eps cy false false mt m q9_l idx)
            (rbind (order_profile_multi QOps q9_eps cy false mt m q9_l idx)
                   (fun P => rmap fst (df_integral QOps P (@IvNone Q))));
      q9_eq (spike_train_order_multi QOps q9_eps cy false true mt m q9_l idx)
            (rbind (order_profile_multi QOps q9_eps cy false mt m q9_l idx)
                   (fun P => rmap q9_ratio (df_integral QOps P (@IvNone Q))))
    ]) q9_idxs) q9_ivs) [false; true].

Example ex9_Q :
  forallb (fun b => b) (q9_checks 0%Q 0%Q ++ q9_checks 0%Q 1%Q ++ q9_checks (1 # 2)%Q (3 # 2)%Q) = true /\
  length (q9_checks 0%Q 0%Q) = 120%nat /\
  map (fun idx => rmap Qred (spike_train_order_multi QOps q9_eps true false false 0%Q 0%Q q9_l idx)) q9_idxs
    = [Ok (-2)%Q; Ok (-2)%Q; Ok 2%Q; Ok 0%Q; Ok (-2)%Q] /\
  map (fun idx => rmap Qred (isi_distance_multi QOps q9_eps true false 0%Q None q9_l idx)) q9_idxs
    = [Ok (557 # 1200)%Q; Ok (17 # 50)%Q; Ok (151 # 300)%Q; Ok (11 # 30)%Q; Ok (557 # 1200)%Q].
Proof. vm_compute. repeat split. Qed.

(* ------------------------------------------------------------------ *)
Print Assumptions isi_multi_distance_is_profile_average_idx.
Print Assumptions spike_multi_distance_is_profile_average_idx.
Print Assumptions sync_multi_value_is_profile_ratio_idx.
Print Assumptions order_multi_is_profile_sums_idx.
Print Assumptions order_multi_sum_idx.
Print Assumptions multi_scalars_are_profile_aggregates_idx.
Print Assumptions ex9_instances.
Print Assumptions ex9_Q.
