(* ModelFuncs.v — model of the L2 function classes PieceWiseConstFunc,
   PieceWiseLinFunc, DiscreteFunc and of the three add_* backend routines.
   Arrays are lists; numpy index arithmetic that the properties talk about
   (searchsorted, slices) is kept as [count]/[nth]/[firstn]/[skipn].
   No proofs in this file. *)

From Coq Require Import List Bool ZArith Arith.
Import ListNotations.
From PS Require Import Num.

Set Implicit Arguments.

Inductive err : Type :=
| AssertionError | IndexError | ValueError | NotImplementedError | ZeroDivisionError | OutOfFuel | BadArgs.

Inductive res (A : Type) : Type :=
| Ok (a : A)
| Err (e : err).
Arguments Ok {A} a.
Arguments Err {A} e.

Definition rbind {A B} (r : res A) (f : A -> res B) : res B :=
  match r with Ok a => f a | Err e => Err e end.
Definition rmap {A B} (f : A -> B) (r : res A) : res B :=
  match r with Ok a => Ok (f a) | Err e => Err e end.

Section Funcs.
  Context {F : Type} (o : NumOps F).

  Local Notation "0" := (n0 o).
  Local Notation "1" := (n1 o).
  Local Notation "2" := (n2 o).
  Local Notation "a + b" := (nadd o a b).
  Local Notation "a - b" := (nsub o a b).
  Local Notation "a * b" := (nmul o a b).
  Local Notation "a / b" := (ndiv o a b).
  Local Notation "a <? b" := (nltb o a b).
  Local Notation "a >? b" := (nltb o b a) (at level 70).
  Local Notation "a =? b" := (neqb o a b).
  Local Notation "a <=? b" := (nleb o a b).
  Local Notation max := (nmax o).
  Local Notation min := (nmin o).
  Local Notation abs := (nabs o).

  Definition nthF (l : list F) (i : nat) : F := nth i l 0.
  Definition lastF (l : list F) : F := last l 0.
  Definition sumF (l : list F) : F := fold_right (nadd o) 0 l.

  (* np.searchsorted(x, t, side='right') / side='left' on a sorted array *)
  Definition count_le (t : F) (xs : list F) : nat :=
    length (filter (fun x => x <=? t) xs).
  Definition count_lt (t : F) (xs : list F) : nat :=
    length (filter (fun x => x <? t) xs).

  Definition slice {A} (l : list A) (a b : nat) : list A :=   (* l[a:b] *)
    firstn (b - a) (skipn a l).

  (* ---------------------------------------------------------------- *)
  (* piecewise constant: (xs, ys) with |xs| = |ys| + 1                 *)

  Definition pwc : Type := (list F * list F)%type.

  (* np.sum((x[1:]-x[:-1]) * y) *)
  Fixpoint pwc_int_all (xs ys : list F) : F :=
    match xs, ys with
    | x0 :: ((x1 :: _) as xs'), y :: ys' => (x1 - x0) * y + pwc_int_all xs' ys'
    | _, _ => 0
    end.

  Definition pwc_integral (f : pwc) (iv : option (F * F)) : res F :=
    let '(xs, ys) := f in
    match iv with
    | None => Ok (pwc_int_all xs ys)
    | Some (a, b) =>
        if a >? b then Err ValueError
        else if a <? nthF xs 0 then Err ValueError
        else if b >? lastF xs then Err ValueError
        else
          let s := count_le a xs in
          let e := (count_lt b xs - 1)%nat in
          if (count_lt b xs =? 0)%nat then Err IndexError
          else if (e <? s)%nat then
            Ok ((nthF xs s - nthF xs e) * nthF ys e
                - ((a - nthF xs e) + (nthF xs s - b)) * nthF ys e)
          else
            if negb ((0 <? s)%nat && (e <? length xs)%nat) then Err AssertionError
            else
              Ok (pwc_int_all (slice xs s (e + 1)) (slice ys s e)
                  + (nthF xs s - a) * nthF ys (s - 1)
                  + (b - nthF xs e) * nthF ys e)
    end.

  Inductive ivspec : Type :=
  | IvNone
  | IvOne (a b : F)
  | IvMany (l : list (F * F)).

  Fixpoint sum_res (l : list (res F)) : res F :=
    match l with
    | [] => Ok 0
    | r :: l' => rbind r (fun a => rmap (fun s => a + s) (sum_res l'))
    end.

  Definition avrg_gen (integral : option (F * F) -> res F) (x0 xn : F) (iv : ivspec) : res F :=
    match iv with
    | IvNone => rmap (fun a => a / (xn - x0)) (integral None)
    | IvOne a b => rmap (fun v => v / (b - a)) (integral (Some (a, b)))
    | IvMany l =>
        rmap (fun v => v / sumF (map (fun p => snd p - fst p) l))
             (sum_res (map (fun p => integral (Some p)) l))
    end.

  Definition pwc_avrg (f : pwc) (iv : ivspec) : res F :=
    avrg_gen (pwc_integral f) (nthF (fst f) 0) (lastF (fst f)) iv.

  (* __call__, scalar path *)
  Definition pwc_call_scalar (f : pwc) (t : F) : res F :=
    let '(xs, ys) := f in
    if negb ((nthF xs 0 <=? t) && (t <=? lastF xs)) then Err AssertionError
    else
      let ind := count_le t xs in
      if t =? nthF xs 0 then Ok (nthF ys 0)
      else if t =? lastF xs then Ok (lastF ys)
      else if existsb (fun x => x =? t) xs
      then Ok ((nthF ys (ind - 1) + nthF ys (ind - 2)) / 2)
      else Ok (nthF ys (ind - 1)).

  (* __call__, sequence path, one element *)
  Definition pwc_call_seq1 (f : pwc) (t : F) : res F :=
    let '(xs, ys) := f in
    if negb ((nthF xs 0 <=? t) && (t <=? lastF xs)) then Err AssertionError
    else
      let ind0 := count_le t xs in
      let ind1 := if (ind0 =? 0)%nat then 1%nat else ind0 in
      let ind := if (ind1 =? length xs)%nat then (length xs - 1)%nat else ind1 in
      let ind_l := count_lt t xs in
      if negb (ind =? ind_l)%nat && (1 <? ind)%nat && (ind <? length xs)%nat
      then Ok ((nthF ys (ind - 1) + nthF ys (ind - 2)) / 2)
      else Ok (nthF ys (ind - 1)).

  Fixpoint dup {A} (l : list A) : list A :=
    match l with [] => [] | a :: r => a :: a :: dup r end.

  (* get_plottable_data *)
  Definition plot_x (xs : list F) : list F :=
    match xs with
    | [] => []
    | x0 :: r => x0 :: removelast (dup r)
    end.
  Definition pwc_plottable (f : pwc) : list F * list F :=
    (plot_x (fst f), dup (snd f)).

  (* add_piece_wise_const_python: two-cursor merge.  State: current value of
     each operand and the remaining (breakpoint, value-after) lists. *)
  Fixpoint pwc_add_loop (fuel : nat) (c1 : F) (r1 : list (F * F)) (c2 : F) (r2 : list (F * F))
    : list (F * F) * (F * list (F * F) * F * list (F * F)) :=
    match fuel with
    | O => ([], (c1, r1, c2, r2))
    | S k =>
        match r1, r2 with
        | (x1, v1) :: r1', (x2, v2) :: r2' =>
            if x1 <? x2 then
              let '(out, st) := pwc_add_loop k v1 r1' c2 r2 in ((x1, v1 + c2) :: out, st)
            else if x1 >? x2 then
              let '(out, st) := pwc_add_loop k c1 r1 v2 r2' in ((x2, c1 + v2) :: out, st)
            else
              let '(out, st) := pwc_add_loop k v1 r1' v2 r2' in ((x1, v1 + v2) :: out, st)
        | _, _ => ([], (c1, r1, c2, r2))
        end
    end.

  (* interior breakpoints with the value that starts there:
     zip x[1:-1] with y[1:] *)
  Definition interior (xs ys : list F) : list (F * F) :=
    combine (removelast (tl xs)) (tl ys).

  Definition pwc_add (f g : pwc) : res pwc :=
    let '(x1, y1) := f in
    let '(x2, y2) := g in
    match x1, y1, x2, y2 with
    | a0 :: _, c1 :: _, b0 :: _, c2 :: _ =>
        if negb (a0 =? b0) then Err AssertionError
        else if negb (lastF x1 =? lastF x2) then Err AssertionError
        else
          let '(out, (d1, r1, d2, r2)) :=
            pwc_add_loop (length x1 + length x2) c1 (interior x1 y1) c2 (interior x2 y2) in
          let tail :=
            match r1, r2 with
            | _ :: _, _ => map (fun p => (fst p, snd p + lastF y2)) r1
            | [], _ :: _ => map (fun p => (fst p, snd p + lastF y1)) r2
            | [], [] => []
            end in
          let evs := out ++ tail in
          Ok (a0 :: map fst evs ++ [lastF x1], (c1 + c2) :: map snd evs)
    | _, _, _, _ => Err IndexError
    end.

  Definition pwc_mul (f : pwc) (c : F) : pwc := (fst f, map (fun y => y * c) (snd f)).

  (* ---------------------------------------------------------------- *)
  (* piecewise linear: (xs, y1s, y2s)                                  *)

  Definition pwl : Type := (list F * list F * list F)%type.

  Definition interm (x0 x1 y0 y1 x : F) : F := y0 + (y1 - y0) * (x - x0) / (x1 - x0).

  (* np.sum((x[1:]-x[:-1]) * 0.5*(y1+y2)) *)
  Fixpoint pwl_int_all (xs y1s y2s : list F) : F :=
    match xs, y1s, y2s with
    | x0 :: ((x1 :: _) as xs'), a :: y1', b :: y2' =>
        (x1 - x0) * ((a + b) / 2) + pwl_int_all xs' y1' y2'
    | _, _, _ => 0
    end.

  Definition pwl_integral (f : pwl) (iv : option (F * F)) : res F :=
    let '(xs, y1s, y2s) := f in
    match iv with
    | None => Ok (pwl_int_all xs y1s y2s)
    | Some (a, b) =>
        let s := count_le a xs in
        let cl := count_lt b xs in
        (* end_ind = cl - 1 may be -1 *)
        if negb ((0 <? s)%nat && (cl <=? length xs)%nat) then Err AssertionError
        else if (cl <=? s)%nat then     (* start_ind > end_ind *)
          let ya := interm (nthF xs (s - 1)) (nthF xs s) (nthF y1s (s - 1)) (nthF y2s (s - 1)) a in
          let yb := interm (nthF xs (s - 1)) (nthF xs s) (nthF y1s (s - 1)) (nthF y2s (s - 1)) b in
          Ok ((ya + yb) / 2 * (b - a))
        else
          let e := (cl - 1)%nat in
          Ok (pwl_int_all (slice xs s (e + 1)) (slice y1s s e) (slice y2s s e)
              + (nthF xs s - a) / 2
                * (nthF y2s (s - 1)
                   + interm (nthF xs (s - 1)) (nthF xs s) (nthF y1s (s - 1)) (nthF y2s (s - 1)) a)
              + (b - nthF xs e) / 2
                * (nthF y1s e
                   + interm (nthF xs e) (nthF xs (e + 1)) (nthF y1s e) (nthF y2s e) b))
    end.

  Definition pwl_avrg (f : pwl) (iv : ivspec) : res F :=
    let xs := fst (fst f) in
    avrg_gen (pwl_integral f) (nthF xs 0) (lastF xs) iv.

  Definition pwl_call_scalar (f : pwl) (t : F) : res F :=
    let '(xs, y1s, y2s) := f in
    if negb ((nthF xs 0 <=? t) && (t <=? lastF xs)) then Err AssertionError
    else
      let ind := count_le t xs in
      if t =? nthF xs 0 then Ok (nthF y1s 0)
      else if t =? lastF xs then Ok (lastF y2s)
      else if existsb (fun x => x =? t) xs
      then Ok ((nthF y1s (ind - 1) + nthF y2s (ind - 2)) / 2)
      else Ok (interm (nthF xs (ind - 1)) (nthF xs ind) (nthF y1s (ind - 1)) (nthF y2s (ind - 1)) t).

  Definition pwl_call_seq1 (f : pwl) (t : F) : res F :=
    let '(xs, y1s, y2s) := f in
    if negb ((nthF xs 0 <=? t) && (t <=? lastF xs)) then Err AssertionError
    else
      let ind0 := count_le t xs in
      let ind1 := if (ind0 =? 0)%nat then 1%nat else ind0 in
      let ind := if (ind1 =? length xs)%nat then (length xs - 1)%nat else ind1 in
      let ind_l := count_lt t xs in
      if negb (ind =? ind_l)%nat && (1 <? ind)%nat && (ind <? length xs)%nat
      then Ok ((nthF y1s (ind - 1) + nthF y2s (ind - 2)) / 2)
      else Ok (interm (nthF xs (ind - 1)) (nthF xs ind) (nthF y1s (ind - 1)) (nthF y2s (ind - 1)) t).

  Fixpoint interleave {A} (l1 l2 : list A) : list A :=
    match l1, l2 with
    | a :: r1, b :: r2 => a :: b :: interleave r1 r2
    | _, _ => []
    end.

  Definition pwl_plottable (f : pwl) : list F * list F :=
    let '(xs, y1s, y2s) := f in (plot_x xs, interleave y1s y2s).

  (* add_piece_wise_lin_python.  A piece is (xl, ya, yb, xr). *)
  Definition lpiece : Type := (F * F * F * F)%type.
  Definition lp_at (p : lpiece) (x : F) : F :=
    let '(xl, ya, yb, xr) := p in ya + (yb - ya) * (x - xl) / (xr - xl).
  Definition lp_ya (p : lpiece) : F := snd (fst (fst p)).
  Definition lp_yb (p : lpiece) : F := snd (fst p).
  Definition lp_xr (p : lpiece) : F := snd p.

  Fixpoint lpieces (xs y1s y2s : list F) : list lpiece :=
    match xs, y1s, y2s with
    | x0 :: ((x1 :: _) as xs'), a :: y1', b :: y2' => (x0, a, b, x1) :: lpieces xs' y1' y2'
    | _, _, _ => []
    end.

  (* emits (x, y2 closing the previous piece, y1 opening the next piece) *)
  Fixpoint pwl_add_loop (fuel : nat) (c1 : lpiece) (r1 : list lpiece) (c2 : lpiece) (r2 : list lpiece)
    : list (F * F * F) * (lpiece * list lpiece * lpiece * list lpiece) :=
    match fuel with
    | O => ([], (c1, r1, c2, r2))
    | S k =>
        match r1, r2 with
        | n1 :: r1', n2 :: r2' =>
            let x1 := lp_xr c1 in
            let x2 := lp_xr c2 in
            if x1 <? x2 then
              let y := lp_at c2 x1 in
              let '(out, st) := pwl_add_loop k n1 r1' c2 r2 in
              ((x1, lp_yb c1 + y, lp_ya n1 + y) :: out, st)
            else if x1 >? x2 then
              let y := lp_at c1 x2 in
              let '(out, st) := pwl_add_loop k c1 r1 n2 r2' in
              ((x2, lp_yb c2 + y, lp_ya n2 + y) :: out, st)
            else
              let '(out, st) := pwl_add_loop k n1 r1' n2 r2' in
              ((x1, lp_yb c1 + lp_yb c2, lp_ya n1 + lp_ya n2) :: out, st)
        | _, _ => ([], (c1, r1, c2, r2))
        end
    end.

  (* tail copy: [other] is the (last) piece of the exhausted operand *)
  Fixpoint pwl_add_tail (c : lpiece) (r : list lpiece) (other : lpiece) : list (F * F * F) :=
    match r with
    | [] => []
    | n :: r' =>
        let x := lp_xr c in
        let y := lp_at other x in
        (x, lp_yb c + y, lp_ya n + y) :: pwl_add_tail n r' other
    end.

  Definition pwl_add (f g : pwl) : res pwl :=
    let '(x1, y11, y12) := f in
    let '(x2, y21, y22) := g in
    match lpieces x1 y11 y12, lpieces x2 y21 y22 with
    | c1 :: r1, c2 :: r2 =>
        if negb (nthF x1 0 =? nthF x2 0) then Err AssertionError
        else if negb (lastF x1 =? lastF x2) then Err AssertionError
        else
          let '(out, (d1, s1, d2, s2)) := pwl_add_loop (length x1 + length x2) c1 r1 c2 r2 in
          let tail :=
            match s1, s2 with
            | _ :: _, _ => pwl_add_tail d1 s1 d2
            | [], _ :: _ => pwl_add_tail d2 s2 d1
            | [], [] => []
            end in
          let evs := out ++ tail in
          Ok (nthF x1 0 :: map (fun e => fst (fst e)) evs ++ [lastF x1],
              (lp_ya c1 + lp_ya c2) :: map (fun e => snd e) evs,
              map (fun e => snd (fst e)) evs ++ [lastF y12 + lastF y22])
    | _, _ => Err IndexError
    end.

  Definition pwl_mul (f : pwl) (c : F) : pwl :=
    let '(xs, y1s, y2s) := f in (xs, map (fun y => y * c) y1s, map (fun y => y * c) y2s).

  (* ---------------------------------------------------------------- *)
  (* discrete functions: entries (x, y, mp), first and last are edges  *)

  Definition dentry : Type := (F * F * F)%type.
  Definition d_x (e : dentry) : F := fst (fst e).
  Definition d_y (e : dentry) : F := snd (fst e).
  Definition d_mp (e : dentry) : F := snd e.

  Definition df_sum (l : list dentry) : F * F :=
    (sumF (map d_y l), sumF (map d_mp l)).

  Definition df_integral1 (f : list dentry) (iv : option (F * F)) : res (F * F) :=
    match iv with
    | None => Ok (df_sum (removelast (tl f)))
    | Some (a, b) =>
        let xs := map d_x f in
        let s := count_le a xs in
        let e := count_lt b xs in
        if negb ((0 <? s)%nat && (e <? length xs)%nat) then Err AssertionError
        else Ok (df_sum (slice f s e))
    end.

  Fixpoint sum_res2 (l : list (res (F * F))) : res (F * F) :=
    match l with
    | [] => Ok (0, 0)
    | r :: l' =>
        rbind r (fun a => rmap (fun s => (fst a + fst s, snd a + snd s)) (sum_res2 l'))
    end.

  Definition df_integral (f : list dentry) (iv : ivspec) : res (F * F) :=
    match iv with
    | IvNone => df_integral1 f None
    | IvOne a b => df_integral1 f (Some (a, b))
    | IvMany l => sum_res2 (map (fun p => df_integral1 f (Some p)) l)
    end.

  Definition df_avrg (f : list dentry) (iv : ivspec) (normalize : bool) : res F :=
    rmap (fun vm =>
            if normalize then (if snd vm >? 0 then fst vm / snd vm else 1) else fst vm)
         (df_integral f iv).

  (* merge of the interior entries *)
  Fixpoint df_add_loop (fuel : nat) (i1 i2 : list dentry)
    : list dentry * (list dentry * list dentry) :=
    match fuel with
    | O => ([], (i1, i2))
    | S k =>
        match i1, i2 with
        | e1 :: r1, e2 :: r2 =>
            if d_x e1 <? d_x e2 then
              let '(out, st) := df_add_loop k r1 i2 in (e1 :: out, st)
            else if d_x e1 >? d_x e2 then
              let '(out, st) := df_add_loop k i1 r2 in (e2 :: out, st)
            else
              let '(out, st) := df_add_loop k r1 r2 in
              ((d_x e1, d_y e1 + d_y e2, d_mp e1 + d_mp e2) :: out, st)
        | _, _ => ([], (i1, i2))
        end
    end.

  Definition df_add (f g : list dentry) : res (list dentry) :=
    match f, g with
    | f0 :: f', g0 :: g' =>
        match rev f', rev g' with
        | fl :: _, gl :: _ =>
            if negb (d_x f0 =? d_x g0) then Err AssertionError
            else if negb (d_x fl =? d_x gl) then Err AssertionError
            else
              let '(out, (r1, r2)) :=
                df_add_loop (length f + length g) (removelast f') (removelast g') in
              let tail :=
                match r1, r2 with
                | _ :: _, _ => r1 ++ [fl]
                | [], _ :: _ => r2 ++ [gl]
                | [], [] => [(d_x fl, d_y fl + d_y gl, d_mp fl + d_mp gl)]
                end in
              let body := out ++ tail in
              match body with
              | b0 :: _ => Ok ((d_x f0, d_y b0, d_mp b0) :: body)
              | [] => Err IndexError
              end
        | _, _ => Err IndexError
        end
    | _, _ => Err IndexError
    end.

  Definition df_mul (f : list dentry) (c : F) : list dentry :=
    map (fun e => (d_x e, d_y e * c, d_mp e)) f.

  (* get_plottable_data(averaging_window_size = k) *)
  Fixpoint df_side (expm y mp_s : F) (l : list dentry) : F * F :=
    match l with
    | [] => (y, mp_s)
    | e :: r =>
        if (mp_s + d_mp e) <? expm then df_side expm (y + d_y e) (mp_s + d_mp e) r
        else (y + d_y e * (expm - mp_s) / d_mp e, mp_s + (expm - mp_s))
    end.

  Fixpoint df_plot_loop (expm : F) (left : list dentry) (right : list dentry) : list F :=
    match right with
    | [] => []
    | e :: r =>
        let v :=
          if d_mp e <? expm then
            let '(y1, mp_r) := df_side expm (d_y e) (d_mp e) r in
            let '(y2, mp_l) := df_side expm y1 (d_mp e) left in
            y2 / (mp_l + mp_r - d_mp e)
          else d_y e / d_mp e in
        v :: df_plot_loop expm (e :: left) r
    end.

  Definition df_plottable (f : list dentry) (k : nat) : list F * list F :=
    match k with
    | O => (map d_x f, map (fun e => d_y e / d_mp e) f)
    | S _ =>
        let mp0 := match f with e :: _ => d_mp e | [] => 0 end in
        let expm := nofnat o (k + 1) * mp0 in
        (map d_x f, df_plot_loop expm [] f)
    end.

End Funcs.
