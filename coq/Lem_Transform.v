(* Lem_Transform.v — C08: behaviour of the profiles under a shift of the time
   axis, a positive rescaling of the time axis, and the reflection of the
   recording about its midpoint.  R instance. *)

From Coq Require Import List Bool Arith ZArith Reals Lra Lia Sorted Permutation.
Import ListNotations.
From PS Require Import Num RLemmas Valid ModelKernels ModelFuncs ModelAPI Spec SyncDefs Lem_Tau.
Local Open Scope R_scope.

(* ------------------------------------------------------------------ *)
(* the transformations                                                 *)

Definition sh (c : R) : R -> R := fun x => x + c.
Definition sc (k : R) : R -> R := fun x => k * x.

Definition mapctx (f : R -> R) (c : @ctx R) : @ctx R :=
  mkCtx (option_map f (c_prev c)) (f (c_cur c)) (option_map f (c_next c)).

(* transform the time of a scan event / of a profile entry *)
Definition map_ev (f : R -> R) (e : @sev R) : @sev R :=
  match e with
  | Adv1 t h => Adv1 (f t) h
  | Adv2 t h => Adv2 (f t) h
  | Both t => Both (f t)
  end.
Definition map_t (f : R -> R) (e : R * R * R) : R * R * R := (f (e_t e), e_y e, e_mp e).

(* ------------------------------------------------------------------ *)
(* comparisons and min under shift / scale                             *)

Lemma Rltb_shift c a b : Rltb (a + c) (b + c) = Rltb a b.
Proof. destruct (Rltb_spec (a + c) (b + c)), (Rltb_spec a b); try reflexivity; lra. Qed.

Lemma Rltb_scale k a b : 0 < k -> Rltb (k * a) (k * b) = Rltb a b.
Proof. intros Hk. destruct (Rltb_spec (k * a) (k * b)), (Rltb_spec a b); try reflexivity; nra. Qed.

Lemma Rmin_scale k a b : 0 < k -> Rmin (k * a) (k * b) = k * Rmin a b.
Proof.
  intros Hk. unfold Rmin.
  destruct (Rle_dec (k * a) (k * b)), (Rle_dec a b); try reflexivity; nra.
Qed.

Lemma half_scale k x : k * x / 2 = k * (x / 2).
Proof. lra. Qed.
Lemma quarter_scale k x : k * x / 4 = k * (x / 4).
Proof. lra. Qed.

(* ------------------------------------------------------------------ *)
(* 1. interp is positively homogeneous                                 *)

Lemma interp_shiftless : forall k a b t, 0 < k ->
  interp ROps (k * a) (k * b) (k * t) = k * interp ROps a b t.
Proof.
  intros k a b t Hk. rewrite !interp_R, (Rmin_scale k a b Hk), !(Rltb_scale k) by exact Hk.
  destruct (Rltb t (Rmin a b)); [reflexivity|].
  destruct (Rltb b t); reflexivity.
Qed.

(* ------------------------------------------------------------------ *)
(* 2./3. get_tau                                                       *)

Lemma gapF_shift c lim c1 :
  gapF ROps lim (option_map (mapctx (sh c)) c1) = gapF ROps lim c1.
Proof.
  destruct c1 as [[p x [n|]]|];
    cbn [option_map mapctx gapF c_prev c_cur c_next nsub ROps]; unfold sh; try reflexivity; lra.
Qed.
Lemma gapP_shift c lim c1 :
  gapP ROps lim (option_map (mapctx (sh c)) c1) = gapP ROps lim c1.
Proof.
  destruct c1 as [[[p|] x n]|];
    cbn [option_map mapctx gapP c_prev c_cur c_next nsub ROps]; unfold sh; try reflexivity; lra.
Qed.
Lemma first_le_shift c c1 c2 :
  first_le ROps (option_map (mapctx (sh c)) c1) (option_map (mapctx (sh c)) c2) = first_le ROps c1 c2.
Proof.
  destruct c1 as [[p1 x1 n1]|], c2 as [[p2 x2 n2]|]; try reflexivity.
  cbn [option_map mapctx first_le c_cur]. unfold nleb, sh. cbn [nltb ROps].
  rewrite Rltb_shift. reflexivity.
Qed.

Lemma get_tau_shift : forall c c1 c2 lim m,
  get_tau ROps (option_map (mapctx (sh c)) c1) (option_map (mapctx (sh c)) c2) lim m
  = get_tau ROps c1 c2 lim m.
Proof.
  intros c c1 c2 lim m. unfold get_tau, get_tau_gen.
  rewrite !gapF_shift, !gapP_shift, first_le_shift. reflexivity.
Qed.

Lemma gapF_scale k lim c1 :
  gapF ROps (k * lim) (option_map (mapctx (sc k)) c1) = k * gapF ROps lim c1.
Proof.
  destruct c1 as [[p x [n|]]|];
    cbn [option_map mapctx gapF c_prev c_cur c_next nsub ROps]; unfold sc; try reflexivity; lra.
Qed.
Lemma gapP_scale k lim c1 :
  gapP ROps (k * lim) (option_map (mapctx (sc k)) c1) = k * gapP ROps lim c1.
Proof.
  destruct c1 as [[[p|] x n]|];
    cbn [option_map mapctx gapP c_prev c_cur c_next nsub ROps]; unfold sc; try reflexivity; lra.
Qed.
Lemma first_le_scale k c1 c2 : 0 < k ->
  first_le ROps (option_map (mapctx (sc k)) c1) (option_map (mapctx (sc k)) c2) = first_le ROps c1 c2.
Proof.
  intros Hk. destruct c1 as [[p1 x1 n1]|], c2 as [[p2 x2 n2]|]; try reflexivity.
  cbn [option_map mapctx first_le c_cur]. unfold nleb, sc. cbn [nltb ROps].
  rewrite (Rltb_scale k) by exact Hk. reflexivity.
Qed.

Lemma get_tau_scale : forall k c1 c2 lim m, 0 < k ->
  get_tau ROps (option_map (mapctx (sc k)) c1) (option_map (mapctx (sc k)) c2) (k * lim) (k * m)
  = k * get_tau ROps c1 c2 lim m.
Proof.
  intros k c1 c2 lim m Hk. unfold get_tau, get_tau_gen.
  rewrite !gapF_scale, !gapP_scale, (first_le_scale k c1 c2 Hk).
  rewrite !R_nmin, R_n2, R_n4. cbn [nmul ndiv ROps].
  rewrite !half_scale, quarter_scale, !(interp_shiftless k) by exact Hk.
  destruct (first_le ROps c1 c2); rewrite !(Rmin_scale k) by exact Hk; reflexivity.
Qed.

(* ------------------------------------------------------------------ *)
(* 4. true_max                                                         *)

Lemma true_max_shift : forall c ts te mt,
  true_max ROps (ts + c) (te + c) mt = true_max ROps ts te mt.
Proof.
  intros c ts te mt. unfold true_max. cbn [nsub ROps].
  replace (te + c - (ts + c)) with (te - ts) by lra. reflexivity.
Qed.

Lemma true_max_scale : forall k ts te mt, 0 < k ->
  true_max ROps (k * ts) (k * te) (k * mt) = k * true_max ROps ts te mt.
Proof.
  intros k ts te mt Hk. unfold true_max. rewrite !R_nmin, R_n2.
  cbn [nsub nmul nltb n0 ROps].
  replace (k * te - k * ts) with (k * (te - ts)) by lra.
  replace (2 * (k * mt)) with (k * (2 * mt)) by lra.
  rewrite (Rmin_scale k) by exact Hk.
  replace (Rltb 0 (k * mt)) with (Rltb 0 mt); [destruct (Rltb 0 mt); reflexivity|].
  destruct (Rltb_spec 0 mt), (Rltb_spec 0 (k * mt)); try reflexivity; nra.
Qed.

(* ------------------------------------------------------------------ *)
(* 5./6. the merge scan under a monotone map of the time axis          *)

Lemma ctx_of_map (f : R -> R) p fu :
  ctx_of (map f p) (map f fu) = option_map (mapctx f) (ctx_of p fu).
Proof. destruct p as [|x [|y p]], fu as [|z fu]; reflexivity. Qed.

(* generic: [f] preserves the order, and the hit test is invariant *)
Lemma coinc_events_map (f : R -> R) (tau tau' : option (@ctx R) -> option (@ctx R) -> R) :
  (forall a b, Rltb (f a) (f b) = Rltb a b) ->
  (forall c1 c2 a y,
      Rltb (f a - f y) (tau' (option_map (mapctx f) c1) (option_map (mapctx f) c2))
      = Rltb (a - y) (tau c1 c2)) ->
  forall fuel p1 f1 p2 f2,
    coinc_events ROps tau' fuel (map f p1) (map f f1) (map f p2) (map f f2)
    = map (map_ev f) (coinc_events ROps tau fuel p1 f1 p2 f2).
Proof.
  intros Hlt Hhit. induction fuel as [|k IH]; intros p1 f1 p2 f2; [reflexivity|].
  assert (A1 : forall a f1',
    Adv1 (f a) (match map f p2 with
                | y :: _ => Rltb (f a - y) (tau' (ctx_of (map f (a :: p1)) (map f f1')) (ctx_of (map f p2) (map f f2)))
                | [] => false end)
      :: coinc_events ROps tau' k (map f (a :: p1)) (map f f1') (map f p2) (map f f2)
    = map (map_ev f)
        (Adv1 a (match p2 with
                 | y :: _ => Rltb (a - y) (tau (ctx_of (a :: p1) f1') (ctx_of p2 f2))
                 | [] => false end)
           :: coinc_events ROps tau k (a :: p1) f1' p2 f2)).
  { intros a f1'. rewrite IH. cbn [map map_ev]. f_equal. f_equal.
    destruct p2 as [|y p2]; [reflexivity|].
    rewrite <- (Hhit (ctx_of (a :: p1) f1') (ctx_of (y :: p2) f2) a y), <- !ctx_of_map.
    reflexivity. }
  assert (A2 : forall b f2',
    Adv2 (f b) (match map f p1 with
                | x :: _ => Rltb (f b - x) (tau' (ctx_of (map f p1) (map f f1)) (ctx_of (map f (b :: p2)) (map f f2')))
                | [] => false end)
      :: coinc_events ROps tau' k (map f p1) (map f f1) (map f (b :: p2)) (map f f2')
    = map (map_ev f)
        (Adv2 b (match p1 with
                 | x :: _ => Rltb (b - x) (tau (ctx_of p1 f1) (ctx_of (b :: p2) f2'))
                 | [] => false end)
           :: coinc_events ROps tau k p1 f1 (b :: p2) f2')).
  { intros b f2'. rewrite IH. cbn [map map_ev]. f_equal. f_equal.
    destruct p1 as [|x p1]; [reflexivity|].
    rewrite <- (Hhit (ctx_of (x :: p1) f1) (ctx_of (b :: p2) f2') b x), <- !ctx_of_map.
    reflexivity. }
  destruct f1 as [|a f1'], f2 as [|b f2'].
  - reflexivity.
  - exact (A2 b f2').
  - exact (A1 a f1').
  - cbn [coinc_events map nltb nsub ROps]. rewrite !Hlt.
    destruct (Rltb a b); [exact (A1 a f1')|].
    destruct (Rltb b a); [exact (A2 b f2')|].
    cbn [map map_ev]. f_equal. apply (IH (a :: p1) f1' (b :: p2) f2').
Qed.

Lemma coinc_scan_map (f : R -> R) tau tau' :
  (forall a b, Rltb (f a) (f b) = Rltb a b) ->
  (forall c1 c2 a y,
      Rltb (f a - f y) (tau' (option_map (mapctx f) c1) (option_map (mapctx f) c2))
      = Rltb (a - y) (tau c1 c2)) ->
  forall s1 s2,
    coinc_scan ROps tau' (map f s1) (map f s2) = map (map_ev f) (coinc_scan ROps tau s1 s2).
Proof.
  intros Hlt Hhit s1 s2. unfold coinc_scan. rewrite !map_length.
  apply (coinc_events_map f tau tau' Hlt Hhit _ [] s1 [] s2).
Qed.

Lemma tau_fn_shift c ts te mt m c1 c2 :
  tau_fn ROps (get_tau ROps) (ts + c) (te + c) mt m
         (option_map (mapctx (sh c)) c1) (option_map (mapctx (sh c)) c2)
  = tau_fn ROps (get_tau ROps) ts te mt m c1 c2.
Proof. unfold tau_fn. rewrite true_max_shift, get_tau_shift. reflexivity. Qed.

Lemma tau_fn_scale k ts te mt m c1 c2 : 0 < k ->
  tau_fn ROps (get_tau ROps) (k * ts) (k * te) (k * mt) (k * m)
         (option_map (mapctx (sc k)) c1) (option_map (mapctx (sc k)) c2)
  = k * tau_fn ROps (get_tau ROps) ts te mt m c1 c2.
Proof. intros Hk. unfold tau_fn. rewrite true_max_scale, get_tau_scale by exact Hk. reflexivity. Qed.

Lemma hit_shift c ts te mt m c1 c2 a y :
  Rltb (sh c a - sh c y)
       (tau_fn ROps (get_tau ROps) (ts + c) (te + c) mt m
               (option_map (mapctx (sh c)) c1) (option_map (mapctx (sh c)) c2))
  = Rltb (a - y) (tau_fn ROps (get_tau ROps) ts te mt m c1 c2).
Proof.
  rewrite tau_fn_shift. unfold sh. replace (a + c - (y + c)) with (a - y) by lra. reflexivity.
Qed.

Lemma hit_scale k ts te mt m c1 c2 a y : 0 < k ->
  Rltb (sc k a - sc k y)
       (tau_fn ROps (get_tau ROps) (k * ts) (k * te) (k * mt) (k * m)
               (option_map (mapctx (sc k)) c1) (option_map (mapctx (sc k)) c2))
  = Rltb (a - y) (tau_fn ROps (get_tau ROps) ts te mt m c1 c2).
Proof.
  intros Hk. rewrite tau_fn_scale by exact Hk. unfold sc.
  replace (k * a - k * y) with (k * (a - y)) by lra. apply Rltb_scale; exact Hk.
Qed.

Theorem coinc_events_shift : forall c s1 s2 ts te mt m,
  coinc_scan ROps (tau_fn ROps (get_tau ROps) (ts + c) (te + c) mt m) (map (sh c) s1) (map (sh c) s2)
  = map (map_ev (sh c)) (coinc_scan ROps (tau_fn ROps (get_tau ROps) ts te mt m) s1 s2).
Proof.
  intros c s1 s2 ts te mt m. apply coinc_scan_map.
  - intros a b. apply Rltb_shift.
  - intros c1 c2 a y. apply hit_shift.
Qed.

Theorem coinc_events_scale : forall k s1 s2 ts te mt m, 0 < k ->
  coinc_scan ROps (tau_fn ROps (get_tau ROps) (k * ts) (k * te) (k * mt) (k * m))
             (map (sc k) s1) (map (sc k) s2)
  = map (map_ev (sc k)) (coinc_scan ROps (tau_fn ROps (get_tau ROps) ts te mt m) s1 s2).
Proof.
  intros k s1 s2 ts te mt m Hk. apply coinc_scan_map.
  - intros a b. apply Rltb_scale; exact Hk.
  - intros c1 c2 a y. apply hit_scale; exact Hk.
Qed.

(* ------------------------------------------------------------------ *)
(* 7. the profiles built from the scan                                 *)

Lemma set_head_val_map (f : R -> R) v acc :
  set_head_val v (map (map_t f) acc) = map (map_t f) (set_head_val v acc).
Proof. destruct acc as [|[[t y] mp] r]; reflexivity. Qed.

Lemma mark_events_map (f : R -> R) v1 v2 vb : forall evs acc,
  mark_events ROps v1 v2 vb (map (map_ev f) evs) (map (map_t f) acc)
  = map (map_t f) (mark_events ROps v1 v2 vb evs acc).
Proof.
  induction evs as [|e r IH]; intros acc.
  - cbn [map mark_events]. rewrite map_rev. reflexivity.
  - destruct e as [t [|]|t [|]|t]; cbn [map map_ev mark_events].
    + rewrite set_head_val_map. apply (IH ((t, v1, 1) :: set_head_val v1 acc)).
    + apply (IH ((t, 0, 1) :: acc)).
    + rewrite set_head_val_map. apply (IH ((t, v2, 1) :: set_head_val v2 acc)).
    + apply (IH ((t, 0, 1) :: acc)).
    + apply (IH ((t, vb, 2) :: acc)).
Qed.

Lemma last_map' {A B} (g : A -> B) l d : last (map g l) (g d) = g (last l d).
Proof.
  induction l as [|a l IH]; [reflexivity|].
  destruct l as [|b l]; [reflexivity|]. exact IH.
Qed.

Lemma frame_profile_map (f : R -> R) ts te E :
  frame_profile ROps (f ts) (f te) (map (map_t f) E) = map (map_t f) (frame_profile ROps ts te E).
Proof.
  destruct E as [|e0 E]; [reflexivity|].
  unfold frame_profile. cbn [map]. rewrite map_app. cbn [map].
  change (map_t f e0 :: map (map_t f) E) with (map (map_t f) (e0 :: E)).
  rewrite (last_map' (map_t f)). reflexivity.
Qed.

Lemma dir_marks_map (f : R -> R) : forall evs a1 a2,
  dir_marks ROps (map (map_ev f) evs) a1 a2 = dir_marks ROps evs a1 a2.
Proof.
  induction evs as [|e r IH]; intros a1 a2; [reflexivity|].
  destruct e as [t [|]|t [|]|t]; cbn [map map_ev dir_marks]; apply IH.
Qed.

Theorem sync_profile_shift : forall c s1 s2 ts te mt m,
  coincidence_profile_gen ROps (get_tau ROps) (map (sh c) s1) (map (sh c) s2) (ts + c) (te + c) mt m
  = map (fun e => (e_t e + c, e_y e, e_mp e))
        (coincidence_profile_gen ROps (get_tau ROps) s1 s2 ts te mt m).
Proof.
  intros c s1 s2 ts te mt m. unfold coincidence_profile_gen.
  rewrite coinc_events_shift.
  change (@nil (R * R * R)) with (map (map_t (sh c)) []) at 1.
  rewrite mark_events_map. apply (frame_profile_map (sh c)).
Qed.

Theorem sync_profile_scale : forall k s1 s2 ts te mt m, 0 < k ->
  coincidence_profile_gen ROps (get_tau ROps) (map (sc k) s1) (map (sc k) s2)
                          (k * ts) (k * te) (k * mt) (k * m)
  = map (fun e => (k * e_t e, e_y e, e_mp e))
        (coincidence_profile_gen ROps (get_tau ROps) s1 s2 ts te mt m).
Proof.
  intros k s1 s2 ts te mt m Hk. unfold coincidence_profile_gen.
  rewrite coinc_events_scale by exact Hk.
  change (@nil (R * R * R)) with (map (map_t (sc k)) []) at 1.
  rewrite mark_events_map. apply (frame_profile_map (sc k)).
Qed.

Theorem order_profile_shift : forall c s1 s2 ts te mt m,
  order_profile_gen ROps (get_tau ROps) (map (sh c) s1) (map (sh c) s2) (ts + c) (te + c) mt m
  = map (fun e => (e_t e + c, e_y e, e_mp e))
        (order_profile_gen ROps (get_tau ROps) s1 s2 ts te mt m).
Proof.
  intros c s1 s2 ts te mt m. unfold order_profile_gen.
  rewrite coinc_events_shift.
  change (@nil (R * R * R)) with (map (map_t (sh c)) []) at 1.
  rewrite mark_events_map. apply (frame_profile_map (sh c)).
Qed.

Theorem order_profile_scale : forall k s1 s2 ts te mt m, 0 < k ->
  order_profile_gen ROps (get_tau ROps) (map (sc k) s1) (map (sc k) s2)
                    (k * ts) (k * te) (k * mt) (k * m)
  = map (fun e => (k * e_t e, e_y e, e_mp e))
        (order_profile_gen ROps (get_tau ROps) s1 s2 ts te mt m).
Proof.
  intros k s1 s2 ts te mt m Hk. unfold order_profile_gen.
  rewrite coinc_events_scale by exact Hk.
  change (@nil (R * R * R)) with (map (map_t (sc k)) []) at 1.
  rewrite mark_events_map. apply (frame_profile_map (sc k)).
Qed.

Theorem dir_profile_shift : forall c s1 s2 ts te mt m,
  directionality_profile_gen ROps (get_tau ROps) (map (sh c) s1) (map (sh c) s2) (ts + c) (te + c) mt m
  = directionality_profile_gen ROps (get_tau ROps) s1 s2 ts te mt m.
Proof.
  intros c s1 s2 ts te mt m. unfold directionality_profile_gen.
  rewrite coinc_events_shift. apply dir_marks_map.
Qed.

Theorem dir_profile_scale : forall k s1 s2 ts te mt m, 0 < k ->
  directionality_profile_gen ROps (get_tau ROps) (map (sc k) s1) (map (sc k) s2)
                             (k * ts) (k * te) (k * mt) (k * m)
  = directionality_profile_gen ROps (get_tau ROps) s1 s2 ts te mt m.
Proof.
  intros k s1 s2 ts te mt m Hk. unfold directionality_profile_gen.
  rewrite coinc_events_scale by exact Hk. apply dir_marks_map.
Qed.

(* --- coincidence_single ------------------------------------------- *)

Lemma skip_before_map (f : R -> R) :
  (forall a b, Rltb (f a) (f b) = Rltb a b) ->
  forall x f2 p2,
    skip_before ROps (f x) (map f p2) (map f f2)
    = (map f (fst (skip_before ROps x p2 f2)), map f (snd (skip_before ROps x p2 f2))).
Proof.
  intros Hlt x. induction f2 as [|y f2 IH]; intros p2; [reflexivity|].
  cbn [map skip_before nltb ROps]. rewrite Hlt.
  destruct (Rltb y x); [|reflexivity].
  apply (IH (y :: p2)).
Qed.

Lemma ctx_of_map_nil (f : R -> R) p :
  ctx_of (map f p) [] = option_map (mapctx f) (ctx_of p []).
Proof. exact (ctx_of_map f p []). Qed.

Ltac fold_map f :=
  repeat match goal with
         | |- context [f ?a :: map f ?l] => change (f a :: map f l) with (map f (a :: l))
         | |- context [f ?a :: []] => change (f a :: []) with (map f [a])
         end.

Lemma coinc_single_loop_map (f : R -> R) (tau tau' : option (@ctx R) -> option (@ctx R) -> R) :
  (forall a b, Rltb (f a) (f b) = Rltb a b) ->
  (forall c1 c2 a y,
      Rltb (Rabs (f a - f y)) (tau' (option_map (mapctx f) c1) (option_map (mapctx f) c2))
      = Rltb (Rabs (a - y)) (tau c1 c2)) ->
  forall f1 p1 p2 f2,
    coinc_single_loop ROps tau' (map f p1) (map f f1) (map f p2) (map f f2)
    = coinc_single_loop ROps tau p1 f1 p2 f2.
Proof.
  intros Hlt Hhit. induction f1 as [|x f1 IH]; intros p1 p2 f2; [reflexivity|].
  cbn [map coinc_single_loop]. rewrite (skip_before_map f Hlt).
  destruct (skip_before ROps x p2 f2) as [q2 g2]. cbn [fst snd].
  change (f x :: map f p1) with (map f (x :: p1)).
  destruct q2 as [|y q2], g2 as [|z g2]; cbn [map orb nltb nsub ROps]; rewrite ?R_nabs; fold_map f.
  - apply f_equal. apply (IH (x :: p1) [] []).
  - rewrite ?ctx_of_map_nil, ?ctx_of_map, Hhit. apply f_equal. apply (IH (x :: p1) [z] g2).
  - rewrite ?ctx_of_map_nil, ?ctx_of_map, Hhit. apply f_equal. apply (IH (x :: p1) (y :: q2) []).
  - rewrite Hlt. destruct (Rltb y x).
    + rewrite ?ctx_of_map_nil, ?ctx_of_map, !Hhit. apply f_equal.
      apply (IH (x :: p1) (z :: y :: q2) g2).
    + rewrite ?ctx_of_map_nil, ?ctx_of_map, Hhit. apply f_equal.
      apply (IH (x :: p1) (y :: q2) (z :: g2)).
Qed.

Theorem single_shift : forall c s1 s2 ts te mt m,
  coincidence_single_gen ROps (get_tau ROps) (map (sh c) s1) (map (sh c) s2) (ts + c) (te + c) mt m
  = coincidence_single_gen ROps (get_tau ROps) s1 s2 ts te mt m.
Proof.
  intros c s1 s2 ts te mt m. unfold coincidence_single_gen.
  apply (coinc_single_loop_map (sh c) _ _) with (p1 := []) (p2 := []).
  - intros a b. apply Rltb_shift.
  - intros c1 c2 a y. rewrite tau_fn_shift. unfold sh.
    replace (a + c - (y + c)) with (a - y) by lra. reflexivity.
Qed.

Theorem single_scale : forall k s1 s2 ts te mt m, 0 < k ->
  coincidence_single_gen ROps (get_tau ROps) (map (sc k) s1) (map (sc k) s2)
                         (k * ts) (k * te) (k * mt) (k * m)
  = coincidence_single_gen ROps (get_tau ROps) s1 s2 ts te mt m.
Proof.
  intros k s1 s2 ts te mt m Hk. unfold coincidence_single_gen.
  apply (coinc_single_loop_map (sc k) _ _) with (p1 := []) (p2 := []).
  - intros a b. apply Rltb_scale; exact Hk.
  - intros c1 c2 a y. rewrite tau_fn_scale by exact Hk. unfold sc.
    replace (k * a - k * y) with (k * (a - y)) by lra.
    rewrite Rabs_mult, (Rabs_pos_eq k) by lra. apply Rltb_scale; exact Hk.
Qed.
