(* Lem_Transform.v — C08: behaviour of the profiles under a shift of the time
   axis, a positive rescaling of the time axis, and the reflection of the
   recording about its midpoint.  R instance. *)

From Coq Require Import List Bool Arith ZArith Reals Lra Lia Sorted Permutation.
Import ListNotations.
From PS Require Import Num RLemmas Valid ModelKernels ModelFuncs ModelAPI Spec SyncDefs Lem_Tau.
Local Open Scope R_scope.

(* ------------------------------------------------------------------ *)
(* the transformations                                                 *)

Definition sh (c : R) : R -> R := fun x => x + c.
Definition sc (k : R) : R -> R := fun x => k * x.

Definition mapctx (f : R -> R) (c : @ctx R) : @ctx R :=
  mkCtx (option_map f (c_prev c)) (f (c_cur c)) (option_map f (c_next c)).

(* transform the time of a scan event / of a profile entry *)
Definition map_ev (f : R -> R) (e : @sev R) : @sev R :=
  match e with
  | Adv1 t h => Adv1 (f t) h
  | Adv2 t h => Adv2 (f t) h
  | Both t => Both (f t)
  end.
Definition map_t (f : R -> R) (e : R * R * R) : R * R * R := (f (e_t e), e_y e, e_mp e).

(* ------------------------------------------------------------------ *)
(* comparisons and min under shift / scale                             *)

Lemma Rltb_shift c a b : Rltb (a + c) (b + c) = Rltb a b.
Proof. destruct (Rltb_spec (a + c) (b + c)), (Rltb_spec a b); try reflexivity; lra. Qed.

Lemma Rltb_scale k a b : 0 < k -> Rltb (k * a) (k * b) = Rltb a b.
Proof. intros Hk. destruct (Rltb_spec (k * a) (k * b)), (Rltb_spec a b); try reflexivity; nra. Qed.

Lemma Rmin_scale k a b : 0 < k -> Rmin (k * a) (k * b) = k * Rmin a b.
Proof.
  intros Hk. unfold Rmin.
  destruct (Rle_dec (k * a) (k * b)), (Rle_dec a b); try reflexivity; nra.
Qed.

Lemma half_scale k x : k * x / 2 = k * (x / 2).
Proof. lra. Qed.
Lemma quarter_scale k x : k * x / 4 = k * (x / 4).
Proof. lra. Qed.

(* ------------------------------------------------------------------ *)
(* 1. interp is positively homogeneous                                 *)

Lemma interp_shiftless : forall k a b t, 0 < k ->
  interp ROps (k * a) (k * b) (k * t) = k * interp ROps a b t.
Proof.
  intros k a b t Hk. rewrite !interp_R, (Rmin_scale k a b Hk), !(Rltb_scale k) by exact Hk.
  destruct (Rltb t (Rmin a b)); [reflexivity|].
  destruct (Rltb b t); reflexivity.
Qed.

(* ------------------------------------------------------------------ *)
(* 2./3. get_tau                                                       *)

Lemma gapF_shift c lim c1 :
  gapF ROps lim (option_map (mapctx (sh c)) c1) = gapF ROps lim c1.
Proof.
  destruct c1 as [[p x [n|]]|];
    cbn [option_map mapctx gapF c_prev c_cur c_next nsub ROps]; unfold sh; try reflexivity; lra.
Qed.
Lemma gapP_shift c lim c1 :
  gapP ROps lim (option_map (mapctx (sh c)) c1) = gapP ROps lim c1.
Proof.
  destruct c1 as [[[p|] x n]|];
    cbn [option_map mapctx gapP c_prev c_cur c_next nsub ROps]; unfold sh; try reflexivity; lra.
Qed.
Lemma first_le_shift c c1 c2 :
  first_le ROps (option_map (mapctx (sh c)) c1) (option_map (mapctx (sh c)) c2) = first_le ROps c1 c2.
Proof.
  destruct c1 as [[p1 x1 n1]|], c2 as [[p2 x2 n2]|]; try reflexivity.
  cbn [option_map mapctx first_le c_cur]. unfold nleb, sh. cbn [nltb ROps].
  rewrite Rltb_shift. reflexivity.
Qed.

Lemma get_tau_shift : forall c c1 c2 lim m,
  get_tau ROps (option_map (mapctx (sh c)) c1) (option_map (mapctx (sh c)) c2) lim m
  = get_tau ROps c1 c2 lim m.
Proof.
  intros c c1 c2 lim m. unfold get_tau, get_tau_gen.
  rewrite !gapF_shift, !gapP_shift, first_le_shift. reflexivity.
Qed.

Lemma gapF_scale k lim c1 :
  gapF ROps (k * lim) (option_map (mapctx (sc k)) c1) = k * gapF ROps lim c1.
Proof.
  destruct c1 as [[p x [n|]]|];
    cbn [option_map mapctx gapF c_prev c_cur c_next nsub ROps]; unfold sc; try reflexivity; lra.
Qed.
Lemma gapP_scale k lim c1 :
  gapP ROps (k * lim) (option_map (mapctx (sc k)) c1) = k * gapP ROps lim c1.
Proof.
  destruct c1 as [[[p|] x n]|];
    cbn [option_map mapctx gapP c_prev c_cur c_next nsub ROps]; unfold sc; try reflexivity; lra.
Qed.
Lemma first_le_scale k c1 c2 : 0 < k ->
  first_le ROps (option_map (mapctx (sc k)) c1) (option_map (mapctx (sc k)) c2) = first_le ROps c1 c2.
Proof.
  intros Hk. destruct c1 as [[p1 x1 n1]|], c2 as [[p2 x2 n2]|]; try reflexivity.
  cbn [option_map mapctx first_le c_cur]. unfold nleb, sc. cbn [nltb ROps].
  rewrite (Rltb_scale k) by exact Hk. reflexivity.
Qed.

Lemma get_tau_scale : forall k c1 c2 lim m, 0 < k ->
  get_tau ROps (option_map (mapctx (sc k)) c1) (option_map (mapctx (sc k)) c2) (k * lim) (k * m)
  = k * get_tau ROps c1 c2 lim m.
Proof.
  intros k c1 c2 lim m Hk. unfold get_tau, get_tau_gen.
  rewrite !gapF_scale, !gapP_scale, (first_le_scale k c1 c2 Hk).
  rewrite !R_nmin, R_n2, R_n4. cbn [nmul ndiv ROps].
  rewrite !half_scale, quarter_scale, !(interp_shiftless k) by exact Hk.
  destruct (first_le ROps c1 c2); rewrite !(Rmin_scale k) by exact Hk; reflexivity.
Qed.

(* ------------------------------------------------------------------ *)
(* 4. true_max                                                         *)

Lemma true_max_shift : forall c ts te mt,
  true_max ROps (ts + c) (te + c) mt = true_max ROps ts te mt.
Proof.
  intros c ts te mt. unfold true_max. cbn [nsub ROps].
  replace (te + c - (ts + c)) with (te - ts) by lra. reflexivity.
Qed.

Lemma true_max_scale : forall k ts te mt, 0 < k ->
  true_max ROps (k * ts) (k * te) (k * mt) = k * true_max ROps ts te mt.
Proof.
  intros k ts te mt Hk. unfold true_max. rewrite !R_nmin, R_n2.
  cbn [nsub nmul nltb n0 ROps].
  replace (k * te - k * ts) with (k * (te - ts)) by lra.
  replace (2 * (k * mt)) with (k * (2 * mt)) by lra.
  rewrite (Rmin_scale k) by exact Hk.
  replace (Rltb 0 (k * mt)) with (Rltb 0 mt); [destruct (Rltb 0 mt); reflexivity|].
  destruct (Rltb_spec 0 mt), (Rltb_spec 0 (k * mt)); try reflexivity; nra.
Qed.

(* ------------------------------------------------------------------ *)
(* 5./6. the merge scan under a monotone map of the time axis          *)

Lemma ctx_of_map (f : R -> R) p fu :
  ctx_of (map f p) (map f fu) = option_map (mapctx f) (ctx_of p fu).
Proof. destruct p as [|x [|y p]], fu as [|z fu]; reflexivity. Qed.

(* generic: [f] preserves the order, and the hit test is invariant *)
Lemma coinc_events_map (f : R -> R) (tau tau' : option (@ctx R) -> option (@ctx R) -> R) :
  (forall a b, Rltb (f a) (f b) = Rltb a b) ->
  (forall c1 c2 a y,
      Rltb (f a - f y) (tau' (option_map (mapctx f) c1) (option_map (mapctx f) c2))
      = Rltb (a - y) (tau c1 c2)) ->
  forall fuel p1 f1 p2 f2,
    coinc_events ROps tau' fuel (map f p1) (map f f1) (map f p2) (map f f2)
    = map (map_ev f) (coinc_events ROps tau fuel p1 f1 p2 f2).
Proof.
  intros Hlt Hhit. induction fuel as [|k IH]; intros p1 f1 p2 f2; [reflexivity|].
  assert (A1 : forall a f1',
    Adv1 (f a) (match map f p2 with
                | y :: _ => Rltb (f a - y) (tau' (ctx_of (map f (a :: p1)) (map f f1')) (ctx_of (map f p2) (map f f2)))
                | [] => false end)
      :: coinc_events ROps tau' k (map f (a :: p1)) (map f f1') (map f p2) (map f f2)
    = map (map_ev f)
        (Adv1 a (match p2 with
                 | y :: _ => Rltb (a - y) (tau (ctx_of (a :: p1) f1') (ctx_of p2 f2))
                 | [] => false end)
           :: coinc_events ROps tau k (a :: p1) f1' p2 f2)).
  { intros a f1'. rewrite IH. cbn [map map_ev]. f_equal. f_equal.
    destruct p2 as [|y p2]; [reflexivity|].
    rewrite <- (Hhit (ctx_of (a :: p1) f1') (ctx_of (y :: p2) f2) a y), <- !ctx_of_map.
    reflexivity. }
  assert (A2 : forall b f2',
    Adv2 (f b) (match map f p1 with
                | x :: _ => Rltb (f b - x) (tau' (ctx_of (map f p1) (map f f1)) (ctx_of (map f (b :: p2)) (map f f2')))
                | [] => false end)
      :: coinc_events ROps tau' k (map f p1) (map f f1) (map f (b :: p2)) (map f f2')
    = map (map_ev f)
        (Adv2 b (match p1 with
                 | x :: _ => Rltb (b - x) (tau (ctx_of p1 f1) (ctx_of (b :: p2) f2'))
                 | [] => false end)
           :: coinc_events ROps tau k p1 f1 (b :: p2) f2')).
  { intros b f2'. rewrite IH. cbn [map map_ev]. f_equal. f_equal.
    destruct p1 as [|x p1]; [reflexivity|].
    rewrite <- (Hhit (ctx_of (x :: p1) f1) (ctx_of (b :: p2) f2') b x), <- !ctx_of_map.
    reflexivity. }
  destruct f1 as [|a f1'], f2 as [|b f2'].
  - reflexivity.
  - exact (A2 b f2').
  - exact (A1 a f1').
  - cbn [coinc_events map nltb nsub ROps]. rewrite !Hlt.
    destruct (Rltb a b); [exact (A1 a f1')|].
    destruct (Rltb b a); [exact (A2 b f2')|].
    cbn [map map_ev]. f_equal. apply (IH (a :: p1) f1' (b :: p2) f2').
Qed.

Lemma coinc_scan_map (f : R -> R) tau tau' :
  (forall a b, Rltb (f a) (f b) = Rltb a b) ->
  (forall c1 c2 a y,
      Rltb (f a - f y) (tau' (option_map (mapctx f) c1) (option_map (mapctx f) c2))
      = Rltb (a - y) (tau c1 c2)) ->
  forall s1 s2,
    coinc_scan ROps tau' (map f s1) (map f s2) = map (map_ev f) (coinc_scan ROps tau s1 s2).
Proof.
  intros Hlt Hhit s1 s2. unfold coinc_scan. rewrite !map_length.
  apply (coinc_events_map f tau tau' Hlt Hhit _ [] s1 [] s2).
Qed.

Lemma tau_fn_shift c ts te mt m c1 c2 :
  tau_fn ROps (get_tau ROps) (ts + c) (te + c) mt m
         (option_map (mapctx (sh c)) c1) (option_map (mapctx (sh c)) c2)
  = tau_fn ROps (get_tau ROps) ts te mt m c1 c2.
Proof. unfold tau_fn. rewrite true_max_shift, get_tau_shift. reflexivity. Qed.

Lemma tau_fn_scale k ts te mt m c1 c2 : 0 < k ->
  tau_fn ROps (get_tau ROps) (k * ts) (k * te) (k * mt) (k * m)
         (option_map (mapctx (sc k)) c1) (option_map (mapctx (sc k)) c2)
  = k * tau_fn ROps (get_tau ROps) ts te mt m c1 c2.
Proof. intros Hk. unfold tau_fn. rewrite true_max_scale, get_tau_scale by exact Hk. reflexivity. Qed.

Lemma hit_shift c ts te mt m c1 c2 a y :
  Rltb (sh c a - sh c y)
       (tau_fn ROps (get_tau ROps) (ts + c) (te + c) mt m
               (option_map (mapctx (sh c)) c1) (option_map (mapctx (sh c)) c2))
  = Rltb (a - y) (tau_fn ROps (get_tau ROps) ts te mt m c1 c2).
Proof.
  rewrite tau_fn_shift. unfold sh. replace (a + c - (y + c)) with (a - y) by lra. reflexivity.
Qed.

Lemma hit_scale k ts te mt m c1 c2 a y : 0 < k ->
  Rltb (sc k a - sc k y)
       (tau_fn ROps (get_tau ROps) (k * ts) (k * te) (k * mt) (k * m)
               (option_map (mapctx (sc k)) c1) (option_map (mapctx (sc k)) c2))
  = Rltb (a - y) (tau_fn ROps (get_tau ROps) ts te mt m c1 c2).
Proof.
  intros Hk. rewrite tau_fn_scale by exact Hk. unfold sc.
  replace (k * a - k * y) with (k * (a - y)) by lra. apply Rltb_scale; exact Hk.
Qed.

Theorem coinc_events_shift : forall c s1 s2 ts te mt m,
  coinc_scan ROps (tau_fn ROps (get_tau ROps) (ts + c) (te + c) mt m) (map (sh c) s1) (map (sh c) s2)
  = map (map_ev (sh c)) (coinc_scan ROps (tau_fn ROps (get_tau ROps) ts te mt m) s1 s2).
Proof.
  intros c s1 s2 ts te mt m. apply coinc_scan_map.
  - intros a b. apply Rltb_shift.
  - intros c1 c2 a y. apply hit_shift.
Qed.

Theorem coinc_events_scale : forall k s1 s2 ts te mt m, 0 < k ->
  coinc_scan ROps (tau_fn ROps (get_tau ROps) (k * ts) (k * te) (k * mt) (k * m))
             (map (sc k) s1) (map (sc k) s2)
  = map (map_ev (sc k)) (coinc_scan ROps (tau_fn ROps (get_tau ROps) ts te mt m) s1 s2).
Proof.
  intros k s1 s2 ts te mt m Hk. apply coinc_scan_map.
  - intros a b. apply Rltb_scale; exact Hk.
  - intros c1 c2 a y. apply hit_scale; exact Hk.
Qed.

(* ------------------------------------------------------------------ *)
(* 7. the profiles built from the scan                                 *)

Lemma set_head_val_map (f : R -> R) v acc :
  set_head_val v (map (map_t f) acc) = map (map_t f) (set_head_val v acc).
Proof. destruct acc as [|[[t y] mp] r]; reflexivity. Qed.

Lemma mark_events_map (f : R -> R) v1 v2 vb : forall evs acc,
  mark_events ROps v1 v2 vb (map (map_ev f) evs) (map (map_t f) acc)
  = map (map_t f) (mark_events ROps v1 v2 vb evs acc).
Proof.
  induction evs as [|e r IH]; intros acc.
  - cbn [map mark_events]. rewrite map_rev. reflexivity.
  - destruct e as [t [|]|t [|]|t]; cbn [map map_ev mark_events].
    + rewrite set_head_val_map. apply (IH ((t, v1, 1) :: set_head_val v1 acc)).
    + apply (IH ((t, 0, 1) :: acc)).
    + rewrite set_head_val_map. apply (IH ((t, v2, 1) :: set_head_val v2 acc)).
    + apply (IH ((t, 0, 1) :: acc)).
    + apply (IH ((t, vb, 2) :: acc)).
Qed.

Lemma last_map' {A B} (g : A -> B) l d : last (map g l) (g d) = g (last l d).
Proof.
  induction l as [|a l IH]; [reflexivity|].
  destruct l as [|b l]; [reflexivity|]. exact IH.
Qed.

Lemma frame_profile_map (f : R -> R) ts te E :
  frame_profile ROps (f ts) (f te) (map (map_t f) E) = map (map_t f) (frame_profile ROps ts te E).
Proof.
  destruct E as [|e0 E]; [reflexivity|].
  unfold frame_profile. cbn [map]. rewrite map_app. cbn [map].
  change (map_t f e0 :: map (map_t f) E) with (map (map_t f) (e0 :: E)).
  rewrite (last_map' (map_t f)). reflexivity.
Qed.

Lemma dir_marks_map (f : R -> R) : forall evs a1 a2,
  dir_marks ROps (map (map_ev f) evs) a1 a2 = dir_marks ROps evs a1 a2.
Proof.
  induction evs as [|e r IH]; intros a1 a2; [reflexivity|].
  destruct e as [t [|]|t [|]|t]; cbn [map map_ev dir_marks]; apply IH.
Qed.

Theorem sync_profile_shift : forall c s1 s2 ts te mt m,
  coincidence_profile_gen ROps (get_tau ROps) (map (sh c) s1) (map (sh c) s2) (ts + c) (te + c) mt m
  = map (fun e => (e_t e + c, e_y e, e_mp e))
        (coincidence_profile_gen ROps (get_tau ROps) s1 s2 ts te mt m).
Proof.
  intros c s1 s2 ts te mt m. unfold coincidence_profile_gen.
  rewrite coinc_events_shift.
  change (@nil (R * R * R)) with (map (map_t (sh c)) []) at 1.
  rewrite mark_events_map. apply (frame_profile_map (sh c)).
Qed.

Theorem sync_profile_scale : forall k s1 s2 ts te mt m, 0 < k ->
  coincidence_profile_gen ROps (get_tau ROps) (map (sc k) s1) (map (sc k) s2)
                          (k * ts) (k * te) (k * mt) (k * m)
  = map (fun e => (k * e_t e, e_y e, e_mp e))
        (coincidence_profile_gen ROps (get_tau ROps) s1 s2 ts te mt m).
Proof.
  intros k s1 s2 ts te mt m Hk. unfold coincidence_profile_gen.
  rewrite coinc_events_scale by exact Hk.
  change (@nil (R * R * R)) with (map (map_t (sc k)) []) at 1.
  rewrite mark_events_map. apply (frame_profile_map (sc k)).
Qed.

Theorem order_profile_shift : forall c s1 s2 ts te mt m,
  order_profile_gen ROps (get_tau ROps) (map (sh c) s1) (map (sh c) s2) (ts + c) (te + c) mt m
  = map (fun e => (e_t e + c, e_y e, e_mp e))
        (order_profile_gen ROps (get_tau ROps) s1 s2 ts te mt m).
Proof.
  intros c s1 s2 ts te mt m. unfold order_profile_gen.
  rewrite coinc_events_shift.
  change (@nil (R * R * R)) with (map (map_t (sh c)) []) at 1.
  rewrite mark_events_map. apply (frame_profile_map (sh c)).
Qed.

Theorem order_profile_scale : forall k s1 s2 ts te mt m, 0 < k ->
  order_profile_gen ROps (get_tau ROps) (map (sc k) s1) (map (sc k) s2)
                    (k * ts) (k * te) (k * mt) (k * m)
  = map (fun e => (k * e_t e, e_y e, e_mp e))
        (order_profile_gen ROps (get_tau ROps) s1 s2 ts te mt m).
Proof.
  intros k s1 s2 ts te mt m Hk. unfold order_profile_gen.
  rewrite coinc_events_scale by exact Hk.
  change (@nil (R * R * R)) with (map (map_t (sc k)) []) at 1.
  rewrite mark_events_map. apply (frame_profile_map (sc k)).
Qed.

Theorem dir_profile_shift : forall c s1 s2 ts te mt m,
  directionality_profile_gen ROps (get_tau ROps) (map (sh c) s1) (map (sh c) s2) (ts + c) (te + c) mt m
  = directionality_profile_gen ROps (get_tau ROps) s1 s2 ts te mt m.
Proof.
  intros c s1 s2 ts te mt m. unfold directionality_profile_gen.
  rewrite coinc_events_shift. apply dir_marks_map.
Qed.

Theorem dir_profile_scale : forall k s1 s2 ts te mt m, 0 < k ->
  directionality_profile_gen ROps (get_tau ROps) (map (sc k) s1) (map (sc k) s2)
                             (k * ts) (k * te) (k * mt) (k * m)
  = directionality_profile_gen ROps (get_tau ROps) s1 s2 ts te mt m.
Proof.
  intros k s1 s2 ts te mt m Hk. unfold directionality_profile_gen.
  rewrite coinc_events_scale by exact Hk. apply dir_marks_map.
Qed.

(* --- coincidence_single ------------------------------------------- *)

Lemma skip_before_map (f : R -> R) :
  (forall a b, Rltb (f a) (f b) = Rltb a b) ->
  forall x f2 p2,
    skip_before ROps (f x) (map f p2) (map f f2)
    = (map f (fst (skip_before ROps x p2 f2)), map f (snd (skip_before ROps x p2 f2))).
Proof.
  intros Hlt x. induction f2 as [|y f2 IH]; intros p2; [reflexivity|].
  cbn [map skip_before nltb ROps]. rewrite Hlt.
  destruct (Rltb y x); [|reflexivity].
  apply (IH (y :: p2)).
Qed.

Lemma ctx_of_map_nil (f : R -> R) p :
  ctx_of (map f p) [] = option_map (mapctx f) (ctx_of p []).
Proof. exact (ctx_of_map f p []). Qed.

Ltac fold_map f :=
  repeat match goal with
         | |- context [f ?a :: map f ?l] => change (f a :: map f l) with (map f (a :: l))
         | |- context [f ?a :: []] => change (f a :: []) with (map f [a])
         end.

Lemma coinc_single_loop_map (f : R -> R) (tau tau' : option (@ctx R) -> option (@ctx R) -> R) :
  (forall a b, Rltb (f a) (f b) = Rltb a b) ->
  (forall c1 c2 a y,
      Rltb (Rabs (f a - f y)) (tau' (option_map (mapctx f) c1) (option_map (mapctx f) c2))
      = Rltb (Rabs (a - y)) (tau c1 c2)) ->
  forall f1 p1 p2 f2,
    coinc_single_loop ROps tau' (map f p1) (map f f1) (map f p2) (map f f2)
    = coinc_single_loop ROps tau p1 f1 p2 f2.
Proof.
  intros Hlt Hhit. induction f1 as [|x f1 IH]; intros p1 p2 f2; [reflexivity|].
  cbn [map coinc_single_loop]. rewrite (skip_before_map f Hlt).
  destruct (skip_before ROps x p2 f2) as [q2 g2]. cbn [fst snd].
  change (f x :: map f p1) with (map f (x :: p1)).
  destruct q2 as [|y q2], g2 as [|z g2]; cbn [map orb nltb nsub ROps]; rewrite ?R_nabs; fold_map f.
  - apply f_equal. apply (IH (x :: p1) [] []).
  - rewrite ?ctx_of_map_nil, ?ctx_of_map, Hhit. apply f_equal. apply (IH (x :: p1) [z] g2).
  - rewrite ?ctx_of_map_nil, ?ctx_of_map, Hhit. apply f_equal. apply (IH (x :: p1) (y :: q2) []).
  - rewrite Hlt. destruct (Rltb y x).
    + rewrite ?ctx_of_map_nil, ?ctx_of_map, !Hhit. apply f_equal.
      apply (IH (x :: p1) (z :: y :: q2) g2).
    + rewrite ?ctx_of_map_nil, ?ctx_of_map, Hhit. apply f_equal.
      apply (IH (x :: p1) (y :: q2) (z :: g2)).
Qed.

Theorem single_shift : forall c s1 s2 ts te mt m,
  coincidence_single_gen ROps (get_tau ROps) (map (sh c) s1) (map (sh c) s2) (ts + c) (te + c) mt m
  = coincidence_single_gen ROps (get_tau ROps) s1 s2 ts te mt m.
Proof.
  intros c s1 s2 ts te mt m. unfold coincidence_single_gen.
  apply (coinc_single_loop_map (sh c) _ _) with (p1 := []) (p2 := []).
  - intros a b. apply Rltb_shift.
  - intros c1 c2 a y. rewrite tau_fn_shift. unfold sh.
    replace (a + c - (y + c)) with (a - y) by lra. reflexivity.
Qed.

Theorem single_scale : forall k s1 s2 ts te mt m, 0 < k ->
  coincidence_single_gen ROps (get_tau ROps) (map (sc k) s1) (map (sc k) s2)
                         (k * ts) (k * te) (k * mt) (k * m)
  = coincidence_single_gen ROps (get_tau ROps) s1 s2 ts te mt m.
Proof.
  intros k s1 s2 ts te mt m Hk. unfold coincidence_single_gen.
  apply (coinc_single_loop_map (sc k) _ _) with (p1 := []) (p2 := []).
  - intros a b. apply Rltb_scale; exact Hk.
  - intros c1 c2 a y. rewrite tau_fn_scale by exact Hk. unfold sc.
    replace (k * a - k * y) with (k * (a - y)) by lra.
    rewrite Rabs_mult, (Rabs_pos_eq k) by lra. apply Rltb_scale; exact Hk.
Qed.

(* ================================================================== *)
(* Mirror: x -> ts + te - x, trains reversed                           *)

Definition mir (ts te : R) : R -> R := fun x => ts + te - x.
Definition mirror_train (ts te : R) (s : list R) : list R := rev (map (mir ts te) s).
Definition mirctx (ts te : R) (c : @ctx R) : @ctx R :=
  mkCtx (option_map (mir ts te) (c_next c)) (mir ts te (c_cur c)) (option_map (mir ts te) (c_prev c)).

Lemma mir_invol ts te x : mir ts te (mir ts te x) = x.
Proof. unfold mir; lra. Qed.
Lemma mir_ts ts te : mir ts te ts = te.
Proof. unfold mir; lra. Qed.
Lemma mir_te ts te : mir ts te te = ts.
Proof. unfold mir; lra. Qed.
Lemma mir_inj ts te x y : mir ts te x = mir ts te y -> x = y.
Proof. unfold mir; intros; lra. Qed.
Lemma Rltb_mir ts te a b : Rltb (mir ts te a) (mir ts te b) = Rltb b a.
Proof. unfold mir. destruct (Rltb_spec (ts + te - a) (ts + te - b)), (Rltb_spec b a); try reflexivity; lra. Qed.
Lemma Reqb_mir ts te a b : Reqb (mir ts te a) (mir ts te b) = Reqb a b.
Proof. unfold mir. destruct (Reqb_spec (ts + te - a) (ts + te - b)), (Reqb_spec a b); try reflexivity; exfalso; lra. Qed.

(* ------------------------------------------------------------------ *)
(* generic list facts                                                  *)

Lemma existsb_rev_map {A B} (p : B -> bool) (q : A -> bool) (g : A -> B) l :
  (forall a, p (g a) = q a) -> existsb p (rev (map g l)) = existsb q l.
Proof.
  intros E. induction l as [|a l IH]; [reflexivity|].
  cbn [map rev existsb]. rewrite existsb_app, IH. cbn [existsb].
  rewrite E, orb_false_r. apply orb_comm.
Qed.

Lemma find_app' {A} (p : A -> bool) l1 l2 :
  find p (l1 ++ l2) = match find p l1 with Some x => Some x | None => find p l2 end.
Proof.
  induction l1 as [|a l1 IH]; [reflexivity|].
  cbn [app find]. destruct (p a); [reflexivity | exact IH].
Qed.

Lemma find_rev_unique {A} (p : A -> bool) l :
  (forall a b, In a l -> In b l -> p a = true -> p b = true -> a = b) ->
  find p (rev l) = find p l.
Proof.
  induction l as [|a l IH]; intros U; [reflexivity|].
  cbn [rev]. rewrite find_app', IH.
  2:{ intros x y Hx Hy. apply U; right; assumption. }
  cbn [find]. destruct (p a) eqn:Pa.
  - destruct (find p l) as [b|] eqn:Fb; [|reflexivity].
    apply find_some in Fb as [Hb Pb]. f_equal. symmetry.
    apply U; [left; reflexivity | right; exact Hb | exact Pa | exact Pb].
  - destruct (find p l); reflexivity.
Qed.

Lemma find_map' {A B} (p : B -> bool) (g : A -> B) l :
  find p (map g l) = option_map g (find (fun x => p (g x)) l).
Proof.
  induction l as [|a l IH]; [reflexivity|].
  cbn [map find]. destruct (p (g a)); [reflexivity | exact IH].
Qed.

Lemma find_ext' {A} (p q : A -> bool) l : (forall a, p a = q a) -> find p l = find q l.
Proof.
  intros E. induction l as [|a l IH]; [reflexivity|].
  cbn [find]. rewrite E, IH. reflexivity.
Qed.

Lemma find_rev_map {A B} (p : B -> bool) (q : A -> bool) (g : A -> B) l :
  (forall a, p (g a) = q a) ->
  (forall a b, In a l -> In b l -> q a = true -> q b = true -> a = b) ->
  find p (rev (map g l)) = option_map g (find q l).
Proof.
  intros E U. rewrite <- map_rev, find_map', (find_ext' _ q _ E), find_rev_unique.
  - reflexivity.
  - exact U.
Qed.

Lemma NoDup_map_inj {A B} (f : A -> B) l : NoDup (map f l) ->
  forall a b, In a l -> In b l -> f a = f b -> a = b.
Proof.
  induction l as [|x l IH]; intros ND a b Ha Hb E; [destruct Ha|].
  cbn [map] in ND. inversion ND as [|? ? Hn ND']; subst.
  destruct Ha as [->|Ha], Hb as [->|Hb].
  - reflexivity.
  - exfalso. apply Hn. rewrite E. apply in_map; exact Hb.
  - exfalso. apply Hn. rewrite <- E. apply in_map; exact Ha.
  - apply IH; assumption.
Qed.

Lemma hd_rev {A} (l : list A) d : hd d (rev l) = last l d.
Proof.
  induction l as [|a l IH]; [reflexivity|].
  cbn [rev]. destruct l as [|b l]; [reflexivity|].
  change (last (a :: b :: l) d) with (last (b :: l) d). rewrite <- IH.
  cbn [rev]. destruct (rev l ++ [b]) eqn:E; [|reflexivity].
  exfalso. destruct (rev l); discriminate.
Qed.
Lemma last_rev {A} (l : list A) d : last (rev l) d = hd d l.
Proof. destruct l as [|a l]; [reflexivity|]. cbn [rev hd]. apply last_last. Qed.
Lemma hd_map {A B} (g : A -> B) l d : hd (g d) (map g l) = g (hd d l).
Proof. destruct l; reflexivity. Qed.

(* ------------------------------------------------------------------ *)
(* sortedness, sort_unique (self-contained copies)                     *)

Lemma tr_ssorted_NoDup l : ssorted l -> NoDup l.
Proof.
  induction l as [|a l IH]; intros H; [constructor|].
  apply ssorted_cons_inv in H as [H1 H2]. constructor; [|auto].
  intros Hin. rewrite Forall_forall in H2. specialize (H2 _ Hin). lra.
Qed.

Lemma tr_ssorted_ext l : forall l', ssorted l -> ssorted l' ->
  (forall x, In x l <-> In x l') -> l = l'.
Proof.
  induction l as [|a l IH]; intros [|b l'] S1 S2 E.
  - reflexivity.
  - exfalso. apply (E b). left; reflexivity.
  - exfalso. apply (E a). left; reflexivity.
  - apply ssorted_cons_inv in S1 as [S1 F1]. apply ssorted_cons_inv in S2 as [S2 F2].
    rewrite Forall_forall in F1, F2.
    assert (Hab : a = b).
    { destruct (proj1 (E a) (or_introl eq_refl)) as [Hb|Hb]; [auto|].
      destruct (proj2 (E b) (or_introl eq_refl)) as [Ha|Ha]; [auto|].
      specialize (F1 _ Ha). specialize (F2 _ Hb). lra. }
    subst b. f_equal. apply IH; auto.
    intros x; split; intros Hx.
    + destruct (proj1 (E x) (or_intror Hx)) as [Hb|Hb]; [|auto].
      subst x. specialize (F1 _ Hx). lra.
    + destruct (proj2 (E x) (or_intror Hx)) as [Hb|Hb]; [|auto].
      subst x. specialize (F2 _ Hx). lra.
Qed.

Lemma tr_insert_u_In x l y : In y (insert_u ROps x l) <-> y = x \/ In y l.
Proof.
  induction l as [|a l IH]; cbn [insert_u nltb neqb ROps].
  - cbn. intuition.
  - destruct (Rltb_spec x a) as [H|H].
    + cbn [In]. intuition.
    + destruct (Reqb_spec x a) as [E|E].
      * cbn [In]. subst. intuition.
      * cbn [In]. rewrite IH. intuition.
Qed.

Lemma tr_insert_u_sorted x l : ssorted l -> ssorted (insert_u ROps x l).
Proof.
  induction l as [|a l IH]; intros S; cbn [insert_u nltb neqb ROps].
  - apply ssorted_cons; [apply ssorted_nil | constructor].
  - destruct (Rltb_spec x a) as [H|H].
    + apply ssorted_cons; [exact S|].
      apply ssorted_cons_inv in S as [S F]. constructor; [exact H|].
      rewrite Forall_forall in *. intros y Hy. specialize (F _ Hy). lra.
    + destruct (Reqb_spec x a) as [E|E]; [exact S|].
      apply ssorted_cons_inv in S as [S F]. apply ssorted_cons; [auto|].
      rewrite Forall_forall in *. intros y Hy. apply tr_insert_u_In in Hy as [->|Hy]; [lra|auto].
Qed.

Lemma tr_su_sorted l : ssorted (sort_unique ROps l).
Proof.
  induction l as [|a l IH]; cbn [sort_unique fold_right].
  - apply ssorted_nil.
  - apply tr_insert_u_sorted, IH.
Qed.

Lemma tr_su_In l x : In x (sort_unique ROps l) <-> In x l.
Proof.
  revert x. induction l as [|a l IH]; intros x; cbn [sort_unique fold_right In]; [tauto|].
  rewrite tr_insert_u_In. unfold sort_unique in IH. rewrite IH. intuition.
Qed.

Lemma tr_ssorted_filter (p : R -> bool) l : ssorted l -> ssorted (filter p l).
Proof.
  induction l as [|a l IH]; intros H; cbn [filter]; [exact H|].
  apply ssorted_cons_inv in H as [H1 H2].
  destruct (p a); [|auto].
  apply ssorted_cons; [auto|].
  rewrite Forall_forall in *. intros y Hy. apply filter_In in Hy as [Hy _]. auto.
Qed.

Lemma ssorted_snoc l x : ssorted l -> Forall (fun y => y < x) l -> ssorted (l ++ [x]).
Proof.
  induction l as [|a l IH]; intros S F; cbn [app].
  - apply ssorted_cons; [apply ssorted_nil | constructor].
  - apply ssorted_cons_inv in S as [S Fa]. inversion F as [|? ? Hax F']; subst.
    apply ssorted_cons; [apply IH; assumption|].
    apply Forall_app; split; [exact Fa | constructor; [exact Hax | constructor]].
Qed.

Section Mirror.
  Context (ts te : R).
  Local Notation mr := (mir ts te).
  Local Notation mtr := (mirror_train ts te).
  Local Notation mcx := (mirctx ts te).

  Lemma In_map_mir x l : In x (map mr l) <-> In (mr x) l.
  Proof.
    rewrite in_map_iff. split.
    - intros [y [E Hy]]. subst x. rewrite mir_invol. exact Hy.
    - intros H. exists (mr x). split; [apply mir_invol | exact H].
  Qed.

  Lemma In_mirror x s : In x (mtr s) <-> In (mr x) s.
  Proof. unfold mirror_train. rewrite <- in_rev. apply In_map_mir. Qed.

  Lemma ssorted_mirror s : ssorted s -> ssorted (mtr s).
  Proof.
    unfold mirror_train. induction s as [|a s IH]; intros S; [apply ssorted_nil|].
    apply ssorted_cons_inv in S as [S F]. cbn [map rev].
    apply ssorted_snoc; [apply IH; exact S|].
    rewrite Forall_forall in *. intros y Hy. apply In_mirror in Hy.
    specialize (F _ Hy). unfold mir in *. lra.
  Qed.

  Lemma su_mirror_gen l l' : (forall x, In x l' <-> In (mr x) l) ->
    sort_unique ROps l' = mtr (sort_unique ROps l).
  Proof.
    intros E. apply tr_ssorted_ext.
    - apply tr_su_sorted.
    - apply ssorted_mirror, tr_su_sorted.
    - intros x. rewrite tr_su_In, In_mirror, tr_su_In. apply E.
  Qed.

  (* ---------------------------------------------------------------- *)
  (* 8. contexts                                                       *)

  Definition hdo (r : list R) (n : option R) : option R :=
    match r with [] => n | y :: _ => Some y end.
  Fixpoint ctxs3 (p : option R) (s : list R) (n : option R) : list (@ctx R) :=
    match s with
    | [] => []
    | x :: r => mkCtx p x (hdo r n) :: ctxs3 (Some x) r n
    end.

  Lemma contexts_from_ctxs3 s : forall p, contexts_from p s = ctxs3 p s None.
  Proof.
    induction s as [|x r IH]; intros p; [reflexivity|].
    cbn [contexts_from ctxs3]. rewrite IH. reflexivity.
  Qed.

  Lemma hdo_app l x n : hdo (l ++ [x]) n = hdo l (Some x).
  Proof. destruct l; reflexivity. Qed.
  Lemma hdo_map (f : R -> R) r n : hdo (map f r) (option_map f n) = option_map f (hdo r n).
  Proof. destruct r; reflexivity. Qed.

  Lemma ctxs3_snoc l : forall p x n,
    ctxs3 p (l ++ [x]) n = ctxs3 p l (Some x) ++ [mkCtx (hdo (rev l) p) x n].
  Proof.
    induction l as [|a l IH]; intros p x n; [reflexivity|].
    cbn [app ctxs3 rev]. rewrite IH, !hdo_app. reflexivity.
  Qed.

  Lemma ctxs3_mirror s : forall p n,
    ctxs3 (option_map mr n) (mtr s) (option_map mr p) = rev (map mcx (ctxs3 p s n)).
  Proof.
    unfold mirror_train. induction s as [|x r IH]; intros p n; [reflexivity|].
    cbn [map rev ctxs3]. rewrite ctxs3_snoc.
    change (Some (mr x)) with (option_map mr (Some x)). rewrite IH.
    f_equal. f_equal. unfold mirctx. cbn [c_prev c_cur c_next].
    rewrite rev_involutive, hdo_map. reflexivity.
  Qed.

  Theorem contexts_mirror : forall s,
    contexts (mirror_train ts te s)
    = rev (map (fun c => mkCtx (option_map (mir ts te) (c_next c)) (mir ts te (c_cur c))
                               (option_map (mir ts te) (c_prev c)))
               (contexts s)).
  Proof.
    intros s. unfold contexts. rewrite !contexts_from_ctxs3.
    apply (ctxs3_mirror s None None).
  Qed.

  Lemma contexts_mirror' s : contexts (mtr s) = rev (map mcx (contexts s)).
  Proof. apply contexts_mirror. Qed.

  (* ---------------------------------------------------------------- *)
  (* 9./10. tau_spec and coinc                                         *)

  Lemma gapP_mirctx lim c : gapP ROps lim (Some (mcx c)) = gapF ROps lim (Some c).
  Proof.
    destruct c as [p x [n|]]; unfold mirctx;
      cbn [option_map gapP gapF c_prev c_cur c_next nsub ROps]; unfold mir; try reflexivity; lra.
  Qed.
  Lemma gapF_mirctx lim c : gapF ROps lim (Some (mcx c)) = gapP ROps lim (Some c).
  Proof.
    destruct c as [[p|] x n]; unfold mirctx;
      cbn [option_map gapP gapF c_prev c_cur c_next nsub ROps]; unfold mir; try reflexivity; lra.
  Qed.

  Lemma tau_el_mirror lim m a b : tau_el lim m (mcx a) (mcx b) = tau_el lim m b a.
  Proof.
    unfold tau_el. rewrite !gapP_mirctx, !gapF_mirctx. f_equal. apply Rmin_comm.
  Qed.

  (* the condition c_cur c1 <> c_cur c2 is needed: see the report *)
  Theorem tau_spec_mirror : forall lim m c1 c2, c_cur c1 <> c_cur c2 ->
    tau_spec ROps lim m (mirctx ts te c1) (mirctx ts te c2) = tau_spec ROps lim m c1 c2.
  Proof.
    intros lim m c1 c2 Hne. rewrite !tau_spec_R, !tau_el_mirror.
    unfold mirctx at 1 2. cbn [c_cur]. rewrite Rltb_mir.
    destruct (Rltb_spec (c_cur c1) (c_cur c2)) as [H|H];
    destruct (Rltb_spec (c_cur c2) (c_cur c1)) as [H'|H']; try reflexivity; exfalso; lra.
  Qed.

  Theorem coinc_mirror : forall lim m c1 c2,
    coinc ROps lim m (mirctx ts te c1) (mirctx ts te c2) = coinc ROps lim m c1 c2.
  Proof.
    intros lim m c1 c2. unfold coinc. rewrite !R_nabs. cbn [neqb nltb nsub ROps].
    replace (Reqb (c_cur (mcx c1)) (c_cur (mcx c2))) with (Reqb (c_cur c1) (c_cur c2))
      by (symmetry; apply Reqb_mir).
    destruct (Reqb_spec (c_cur c1) (c_cur c2)) as [E|E]; [reflexivity|].
    rewrite (tau_spec_mirror lim m c1 c2 E). cbn [negb andb]. f_equal.
    unfold mirctx, mir; cbn [c_cur].
    replace (ts + te - c_cur c1 - (ts + te - c_cur c2)) with (- (c_cur c1 - c_cur c2)) by lra.
    apply Rabs_Ropp.
  Qed.

  (* ---------------------------------------------------------------- *)
  (* 11. single_spec                                                   *)

  Lemma has_partner_mirror lim m c k :
    has_partner ROps lim m (mcx c) (rev (map mcx k)) = has_partner ROps lim m c k.
  Proof. unfold has_partner. apply existsb_rev_map. intros d. apply coinc_mirror. Qed.

  Lemma is_shared_mirror c k :
    is_shared ROps (mcx c) (rev (map mcx k)) = is_shared ROps c k.
  Proof.
    unfold is_shared. apply existsb_rev_map. intros d. cbn [neqb ROps].
    unfold mirctx; cbn [c_cur]. apply Reqb_mir.
  Qed.

  (* holds for arbitrary lists: existsb does not depend on the order *)
  Theorem single_spec_mirror : forall s1 s2 mt m,
    single_spec ROps (mirror_train ts te s1) (mirror_train ts te s2) ts te mt m
    = rev (single_spec ROps s1 s2 ts te mt m).
  Proof.
    intros s1 s2 mt m. unfold single_spec. rewrite !contexts_mirror'.
    rewrite map_rev. f_equal. rewrite map_map.
    apply map_ext. intros c. rewrite has_partner_mirror, is_shared_mirror. reflexivity.
  Qed.

End Mirror.

(* ------------------------------------------------------------------ *)
(* 12./13. profiles as event lists                                     *)

Lemma last_indep {A} (l : list A) d d' : l <> [] -> last l d = last l d'.
Proof.
  induction l as [|a l IH]; intros NE; [congruence|].
  destruct l as [|b l]; [reflexivity|]. apply IH. discriminate.
Qed.

Lemma map_cur_ctxs3 s : forall p n, map (@c_cur R) (ctxs3 p s n) = s.
Proof.
  induction s as [|x r IH]; intros p n; [reflexivity|].
  cbn [ctxs3 map c_cur]. rewrite IH. reflexivity.
Qed.
Lemma map_cur_contexts s : map (@c_cur R) (contexts s) = s.
Proof. unfold contexts. rewrite contexts_from_ctxs3. apply map_cur_ctxs3. Qed.

Lemma contexts_cur_inj s : ssorted s -> forall a b,
  In a (contexts s) -> In b (contexts s) -> c_cur a = c_cur b -> a = b.
Proof.
  intros S. apply NoDup_map_inj. rewrite map_cur_contexts. apply tr_ssorted_NoDup, S.
Qed.

(* a context of a train: the train splits around the spike *)
Lemma ctxs3_In s : forall p n d, In d (ctxs3 p s n) ->
  exists l1 l2, s = l1 ++ c_cur d :: l2 /\ c_prev d = hdo (rev l1) p /\ c_next d = hdo l2 n.
Proof.
  induction s as [|x r IH]; intros p n d Hd; [destruct Hd|].
  cbn [ctxs3] in Hd. destruct Hd as [<-|Hd].
  - exists [], r. cbn. auto.
  - apply IH in Hd as (l1 & l2 & E & HP & HN).
    exists (x :: l1), l2. repeat split.
    + cbn [app]. rewrite E at 1. reflexivity.
    + cbn [rev]. rewrite hdo_app. exact HP.
    + exact HN.
Qed.

Lemma contexts_In s d : In d (contexts s) ->
  exists l1 l2, s = l1 ++ c_cur d :: l2 /\ c_prev d = hdo (rev l1) None /\ c_next d = hdo l2 None.
Proof. unfold contexts. rewrite contexts_from_ctxs3. apply ctxs3_In. Qed.

(* the next spike of d is at most any later spike of the train *)
Lemma next_bound s d y : ssorted s -> In d (contexts s) -> In y s -> c_cur d < y ->
  exists n, c_next d = Some n /\ n <= y.
Proof.
  intros S Hd Hy Hlt. apply contexts_In in Hd as (l1 & l2 & E & _ & HN).
  rewrite E in S, Hy. apply ssorted_app_inv in S as (S1 & S2 & H12).
  apply in_app_or in Hy as [Hy|Hy].
  - specialize (H12 y (c_cur d) Hy (or_introl eq_refl)). lra.
  - destruct Hy as [Hy|Hy]; [lra|].
    destruct l2 as [|n l2]; [destruct Hy|]. exists n. split; [exact HN|].
    apply ssorted_cons_inv in S2 as [S2 _]. apply ssorted_cons_inv in S2 as [_ F].
    destruct Hy as [->|Hy]; [lra|]. rewrite Forall_forall in F. specialize (F _ Hy). lra.
Qed.

Lemma prev_bound s d y : ssorted s -> In d (contexts s) -> In y s -> y < c_cur d ->
  exists p, c_prev d = Some p /\ y <= p.
Proof.
  intros S Hd Hy Hlt. apply contexts_In in Hd as (l1 & l2 & E & HP & _).
  rewrite E in S, Hy. apply ssorted_app_inv in S as (S1 & S2 & H12).
  apply in_app_or in Hy as [Hy|Hy].
  - destruct (rev l1) as [|q t] eqn:ER.
    + apply (f_equal (@rev R)) in ER. rewrite rev_involutive in ER. subst l1. destruct Hy.
    + exists q. split; [exact HP|].
      apply (f_equal (@rev R)) in ER. rewrite rev_involutive in ER. cbn [rev] in ER. subst l1.
      apply ssorted_app_inv in S1 as (_ & _ & H').
      apply in_app_or in Hy as [Hy|[->|[]]]; [|lra].
      specialize (H' y q Hy (or_introl eq_refl)). lra.
  - apply ssorted_cons_inv in S2 as [_ F]. destruct Hy as [Hy|Hy]; [lra|].
    rewrite Forall_forall in F. specialize (F _ Hy). lra.
Qed.

(* a coincidence window never exceeds half of the gap on the partner's far side *)
Lemma coinc_half lim m c d : coinc ROps lim m c d = true ->
  (c_cur d < c_cur c -> forall n, c_next d = Some n -> c_cur c - c_cur d < (n - c_cur d) / 2) /\
  (c_cur c < c_cur d -> forall p, c_prev d = Some p -> c_cur d - c_cur c < (c_cur d - p) / 2).
Proof.
  intros Hc. apply coinc_true in Hc as [Hne Hc]. rewrite tau_spec_R in Hc. split.
  - intros Hlt n Hn. destruct (Rltb_spec (c_cur d) (c_cur c)) as [H|H]; [|lra].
    unfold tau_el in Hc.
    pose proof (interp_le_b (gapP ROps lim (Some d) / 2) (gapF ROps lim (Some d) / 2) (m / 4)) as B.
    set (I1 := interp ROps (gapP ROps lim (Some d) / 2) (gapF ROps lim (Some d) / 2) (m / 4)) in *.
    set (I2 := interp ROps (gapF ROps lim (Some c) / 2) (gapP ROps lim (Some c) / 2) (m / 4)) in *.
    pose proof (Rmin_l (Rmin I1 I2) (lim / 2)) as M0. pose proof (Rmin_l I1 I2) as M1.
    destruct d as [pd xd nd]. cbn [c_next c_cur] in *. subst nd.
    cbn [gapF nsub ROps] in B. rewrite Rabs_right in Hc by lra. lra.
  - intros Hlt p Hp. destruct (Rltb_spec (c_cur d) (c_cur c)) as [H|H]; [lra|].
    unfold tau_el in Hc.
    pose proof (interp_le_b (gapF ROps lim (Some d) / 2) (gapP ROps lim (Some d) / 2) (m / 4)) as B.
    set (I1 := interp ROps (gapP ROps lim (Some c) / 2) (gapF ROps lim (Some c) / 2) (m / 4)) in *.
    set (I2 := interp ROps (gapF ROps lim (Some d) / 2) (gapP ROps lim (Some d) / 2) (m / 4)) in *.
    pose proof (Rmin_l (Rmin I1 I2) (lim / 2)) as M0. pose proof (Rmin_r I1 I2) as M1.
    destruct d as [pd xd nd]. cbn [c_prev c_cur] in *. subst pd.
    cbn [gapP nsub ROps] in B. rewrite Rabs_left in Hc by lra. lra.
Qed.

(* in a sorted train a spike has at most one coincidence partner *)
Lemma partner_unique_lt lim m c s d d' : ssorted s ->
  In d (contexts s) -> In d' (contexts s) ->
  coinc ROps lim m c d = true -> coinc ROps lim m c d' = true ->
  c_cur d < c_cur d' -> False.
Proof.
  intros S Hd Hd' C C' Hlt.
  assert (Iy : In (c_cur d) s) by (rewrite <- (map_cur_contexts s); apply in_map; exact Hd).
  assert (Iy' : In (c_cur d') s) by (rewrite <- (map_cur_contexts s); apply in_map; exact Hd').
  destruct (next_bound s d (c_cur d') S Hd Iy' Hlt) as (n & Hn & Ln).
  destruct (prev_bound s d' (c_cur d) S Hd' Iy Hlt) as (p & Hp & Lp).
  pose proof (proj1 (coinc_true _ _ _ _) C) as [Ne _].
  pose proof (proj1 (coinc_true _ _ _ _) C') as [Ne' _].
  destruct (coinc_half lim m c d C) as [A1 A2].
  destruct (coinc_half lim m c d' C') as [B1 B2].
  destruct (Rlt_le_dec (c_cur c) (c_cur d)) as [H1|H1].
  - assert (H2 : c_cur c < c_cur d') by lra. specialize (B2 H2 p Hp). lra.
  - assert (H1' : c_cur d < c_cur c) by lra. specialize (A1 H1' n Hn).
    destruct (Rlt_le_dec (c_cur c) (c_cur d')) as [H2|H2].
    + specialize (B2 H2 p Hp). lra.
    + lra.
Qed.

Lemma partner_unique lim m c s d d' : ssorted s ->
  In d (contexts s) -> In d' (contexts s) ->
  coinc ROps lim m c d = true -> coinc ROps lim m c d' = true -> d = d'.
Proof.
  intros S Hd Hd' C C'. apply (contexts_cur_inj s S); try assumption.
  destruct (Rtotal_order (c_cur d) (c_cur d')) as [H|[H|H]]; [|exact H|].
  - exfalso. exact (partner_unique_lt lim m c s d d' S Hd Hd' C C' H).
  - exfalso. exact (partner_unique_lt lim m c s d' d S Hd' Hd C' C H).
Qed.

Lemma interior_framed ts te (E : list (R * R * R)) : removelast (tl (framed ROps ts te E)) = E.
Proof.
  destruct E as [|e0 r]; [reflexivity|].
  unfold framed. cbn [tl]. apply removelast_last.
Qed.

Lemma framed_nonempty ts te (E : list (R * R * R)) d : E <> [] ->
  framed ROps ts te E
  = (ts, e_y (hd d E), e_mp (hd d E)) :: E ++ [(te, e_y (last E d), e_mp (last E d))].
Proof.
  destruct E as [|e0 r]; [congruence|]. intros NE. unfold framed. cbn [hd].
  rewrite (last_indep (e0 :: r) e0 d NE). reflexivity.
Qed.

Lemma su_nonempty l : l <> [] -> sort_unique ROps l <> [].
Proof.
  destruct l as [|a l]; [congruence|]. intros _ H.
  assert (In a (sort_unique ROps (a :: l))) as Ha by (apply tr_su_In; left; reflexivity).
  rewrite H in Ha. destruct Ha.
Qed.

Section Mirror2.
  Context (ts te : R).
  Local Notation mr := (mir ts te).
  Local Notation mtr := (mirror_train ts te).
  Local Notation mcx := (mirctx ts te).

  (* transform of a profile entry: time mirrored, value through h *)
  Definition gT (h : R -> R) (e : R * R * R) : R * R * R := (mr (e_t e), h (e_y e), e_mp e).

  Lemma map_mirror_train {B} (F : R -> B) l : map F (mtr l) = rev (map (fun t => F (mr t)) l).
  Proof. unfold mirror_train. rewrite map_rev, map_map. reflexivity. Qed.

  Lemma find_cur_mirror s t : ssorted s ->
    find (fun c => neqb ROps (c_cur c) (mr t)) (contexts (mtr s))
    = option_map mcx (find (fun c => neqb ROps (c_cur c) t) (contexts s)).
  Proof.
    intros S. rewrite contexts_mirror'. apply find_rev_map.
    - intros a. cbn [neqb ROps]. unfold mirctx; cbn [c_cur]. apply Reqb_mir.
    - intros a b Ha Hb Ea Eb. cbn [neqb ROps] in Ea, Eb.
      apply Reqb_true in Ea, Eb. apply (contexts_cur_inj s S); try assumption. congruence.
  Qed.

  Lemma event_entries_mirror (h : R -> R) v1 v2 v1' v2' vb vb' s1 s2 :
    ssorted s1 -> ssorted s2 -> h 0 = 0 -> vb' = h vb ->
    (forall c, v1' (mcx c) (contexts (mtr s2)) = h (v1 c (contexts s2))) ->
    (forall c, v2' (mcx c) (contexts (mtr s1)) = h (v2 c (contexts s1))) ->
    event_entries ROps v1' v2' vb' (mtr s1) (mtr s2)
    = rev (map (gT h) (event_entries ROps v1 v2 vb s1 s2)).
  Proof.
    intros S1 S2 H0 Hb Hv1 Hv2. unfold event_entries. cbv zeta.
    rewrite (su_mirror_gen ts te (s1 ++ s2) (mtr s1 ++ mtr s2)).
    2:{ intros x. rewrite !in_app_iff, !In_mirror. tauto. }
    rewrite map_mirror_train. f_equal. rewrite map_map. apply map_ext. intros t.
    rewrite !find_cur_mirror by assumption.
    destruct (find (fun c => neqb ROps (c_cur c) t) (contexts s1)) as [a|];
    destruct (find (fun c => neqb ROps (c_cur c) t) (contexts s2)) as [b|];
      cbn [option_map]; unfold gT, e_t, e_y, e_mp; cbn [fst snd n0 ROps].
    - rewrite Hb. reflexivity.
    - rewrite Hv1. reflexivity.
    - rewrite Hv2. reflexivity.
    - rewrite H0. reflexivity.
  Qed.

  Lemma framed_mirror_ne (h : R -> R) E : E <> [] ->
    framed ROps ts te (rev (map (gT h) E)) = rev (map (gT h) (framed ROps ts te E)).
  Proof.
    intros NE.
    assert (NE' : rev (map (gT h) E) <> []).
    { intros H. apply NE. apply (f_equal (@rev _)) in H. rewrite rev_involutive in H.
      cbn [rev] in H. destruct E; [reflexivity | discriminate]. }
    assert (exists d : R * R * R, True) as [d _] by (destruct E as [|e0 r]; [congruence | exists e0; exact I]).
    rewrite (framed_nonempty ts te _ (gT h d) NE'), (framed_nonempty ts te E d NE).
    rewrite hd_rev, last_rev, hd_map, last_map'.
    cbn [map rev]. rewrite map_app, rev_app_distr. cbn [map rev app].
    f_equal; [|f_equal; f_equal];
      unfold gT, e_t, e_y, e_mp; cbn [fst snd]; rewrite ?mir_te, ?mir_ts; reflexivity.
  Qed.

  Lemma framed_mirror (h : R -> R) E : E <> [] \/ h 1 = 1 ->
    framed ROps ts te (rev (map (gT h) E)) = rev (map (gT h) (framed ROps ts te E)).
  Proof.
    intros [NE|H1]; [apply framed_mirror_ne; exact NE|].
    destruct E as [|e0 r]; [|apply framed_mirror_ne; discriminate].
    cbn [map rev framed app]. unfold gT, e_t, e_y, e_mp. cbn [fst snd n1 ROps].
    rewrite H1, mir_te, mir_ts. reflexivity.
  Qed.

  (* 12 *)
  Theorem sync_spec_mirror_sorted : forall s1 s2 mt m, ssorted s1 -> ssorted s2 ->
    sync_spec ROps (mirror_train ts te s1) (mirror_train ts te s2) ts te mt m
    = rev (map (fun e => (mir ts te (e_t e), e_y e, e_mp e)) (sync_spec ROps s1 s2 ts te mt m)).
  Proof.
    intros s1 s2 mt m S1 S2. unfold sync_spec. cbv zeta.
    set (v := fun (c : @ctx R) (others : list (@ctx R)) =>
                if has_partner ROps (lim_of ROps ts te mt) m c others then n1 ROps else n0 ROps).
    pose proof (event_entries_mirror (fun x => x) v v v v (n2 ROps) (n2 ROps) s1 s2 S1 S2
                  eq_refl eq_refl) as HE.
    rewrite HE.
    - apply (framed_mirror (fun x => x)). right. reflexivity.
    - intros c. unfold v. rewrite contexts_mirror', has_partner_mirror. reflexivity.
    - intros c. unfold v. rewrite contexts_mirror', has_partner_mirror. reflexivity.
  Qed.

  Theorem sync_spec_mirror : forall s1 s2 mt m, valid ts te s1 -> valid ts te s2 ->
    sync_spec ROps (mirror_train ts te s1) (mirror_train ts te s2) ts te mt m
    = rev (map (fun e => (mir ts te (e_t e), e_y e, e_mp e)) (sync_spec ROps s1 s2 ts te mt m)).
  Proof.
    intros s1 s2 mt m (_ & S1 & _) (_ & S2 & _). apply sync_spec_mirror_sorted; assumption.
  Qed.

  (* 13 *)
  Lemma lead_sign_mirror lim m c s : ssorted s ->
    lead_sign ROps lim m (mcx c) (contexts (mtr s)) = - lead_sign ROps lim m c (contexts s).
  Proof.
    intros S. unfold lead_sign. rewrite contexts_mirror'.
    rewrite (find_rev_map (coinc ROps lim m (mcx c)) (coinc ROps lim m c) mcx).
    - destruct (find (coinc ROps lim m c) (contexts s)) as [d|] eqn:Fd; cbn [option_map].
      + apply find_some in Fd as [_ Cd]. apply coinc_true in Cd as [Ne _].
        unfold mirctx at 1 2. cbn [c_cur nltb nsub n0 n1 ROps]. rewrite Rltb_mir.
        destruct (Rltb_spec (c_cur d) (c_cur c)) as [H|H];
        destruct (Rltb_spec (c_cur c) (c_cur d)) as [H'|H']; lra.
      + cbn [n0 ROps]. lra.
    - intros a. apply coinc_mirror.
    - intros a b Ha Hb Ca Cb. exact (partner_unique lim m c s a b S Ha Hb Ca Cb).
  Qed.

  Lemma order_entries_mirror s1 s2 mt m : ssorted s1 -> ssorted s2 ->
    let lim := lim_of ROps ts te mt in
    event_entries ROps (fun c k2 => lead_sign ROps lim m c k2)
                  (fun c k1 => nsub ROps (n0 ROps) (lead_sign ROps lim m c k1)) (n0 ROps)
                  (mtr s1) (mtr s2)
    = rev (map (gT Ropp)
             (event_entries ROps (fun c k2 => lead_sign ROps lim m c k2)
                  (fun c k1 => nsub ROps (n0 ROps) (lead_sign ROps lim m c k1)) (n0 ROps) s1 s2)).
  Proof.
    intros S1 S2 lim. apply event_entries_mirror; try assumption.
    - lra.
    - cbn [n0 ROps]. lra.
    - intros c. apply lead_sign_mirror; exact S2.
    - intros c. rewrite lead_sign_mirror by exact S1. cbn [nsub n0 ROps]. lra.
  Qed.

  (* interior entries: mirrored and negated *)
  Theorem order_spec_mirror_sorted : forall s1 s2 mt m, ssorted s1 -> ssorted s2 ->
    removelast (tl (order_spec ROps (mirror_train ts te s1) (mirror_train ts te s2) ts te mt m))
    = rev (map (fun e => (mir ts te (e_t e), - e_y e, e_mp e))
               (removelast (tl (order_spec ROps s1 s2 ts te mt m)))).
  Proof.
    intros s1 s2 mt m S1 S2. unfold order_spec. cbv zeta. rewrite !interior_framed.
    apply (order_entries_mirror s1 s2 mt m S1 S2).
  Qed.

  Theorem order_spec_mirror : forall s1 s2 mt m, valid ts te s1 -> valid ts te s2 ->
    removelast (tl (order_spec ROps (mirror_train ts te s1) (mirror_train ts te s2) ts te mt m))
    = rev (map (fun e => (mir ts te (e_t e), - e_y e, e_mp e))
               (removelast (tl (order_spec ROps s1 s2 ts te mt m)))).
  Proof.
    intros s1 s2 mt m (_ & S1 & _) (_ & S2 & _). apply order_spec_mirror_sorted; assumption.
  Qed.

  (* the whole profile, edges included, when there is at least one spike *)
  Theorem order_spec_mirror_full : forall s1 s2 mt m, ssorted s1 -> ssorted s2 -> s1 ++ s2 <> [] ->
    order_spec ROps (mirror_train ts te s1) (mirror_train ts te s2) ts te mt m
    = rev (map (fun e => (mir ts te (e_t e), - e_y e, e_mp e)) (order_spec ROps s1 s2 ts te mt m)).
  Proof.
    intros s1 s2 mt m S1 S2 NE. unfold order_spec. cbv zeta.
    rewrite (order_entries_mirror s1 s2 mt m S1 S2).
    apply (framed_mirror Ropp). left.
    unfold event_entries. cbv zeta. intros H. apply map_eq_nil in H.
    exact (su_nonempty _ NE H).
  Qed.

  Lemma map_lead_mirror lim m s s' : ssorted s ->
    map (fun c => lead_sign ROps lim m c (contexts (mtr s))) (contexts (mtr s'))
    = rev (map Ropp (map (fun c => lead_sign ROps lim m c (contexts s)) (contexts s'))).
  Proof.
    intros S. rewrite (contexts_mirror' ts te s'). rewrite map_rev, !map_map. f_equal.
    apply map_ext. intros c. apply lead_sign_mirror; exact S.
  Qed.

  Theorem dir_spec_mirror_sorted : forall s1 s2 mt m, ssorted s1 -> ssorted s2 ->
    dir_spec ROps (mirror_train ts te s1) (mirror_train ts te s2) ts te mt m
    = (rev (map Ropp (fst (dir_spec ROps s1 s2 ts te mt m))),
       rev (map Ropp (snd (dir_spec ROps s1 s2 ts te mt m)))).
  Proof.
    intros s1 s2 mt m S1 S2. unfold dir_spec. cbv zeta. cbn [fst snd].
    rewrite (map_lead_mirror _ m s2 s1 S2), (map_lead_mirror _ m s1 s2 S1). reflexivity.
  Qed.

  Theorem dir_spec_mirror : forall s1 s2 mt m, valid ts te s1 -> valid ts te s2 ->
    dir_spec ROps (mirror_train ts te s1) (mirror_train ts te s2) ts te mt m
    = (rev (map Ropp (fst (dir_spec ROps s1 s2 ts te mt m))),
       rev (map Ropp (snd (dir_spec ROps s1 s2 ts te mt m)))).
  Proof.
    intros s1 s2 mt m (_ & S1 & _) (_ & S2 & _). apply dir_spec_mirror_sorted; assumption.
  Qed.

End Mirror2.

(* ------------------------------------------------------------------ *)
(* 14. ISI length at a time, ISI profile                               *)

Lemma filter_all_true {A} (q : A -> bool) l : (forall x, In x l -> q x = true) -> filter q l = l.
Proof.
  induction l as [|a l IH]; intros H; [reflexivity|].
  cbn [filter]. rewrite (H a (or_introl eq_refl)). f_equal. apply IH. intros x Hx. apply H; right; exact Hx.
Qed.

Lemma next_of_split t l1 l2 : (forall x, In x l1 -> x <= t) ->
  next_of ROps t (l1 ++ l2) = next_of ROps t l2.
Proof.
  induction l1 as [|a l1 IH]; intros H; [reflexivity|].
  cbn [app next_of nltb ROps]. pose proof (H a (or_introl eq_refl)) as Ha.
  destruct (Rltb_spec t a) as [H'|H']; [lra|]. apply IH. intros x Hx. apply H; right; exact Hx.
Qed.
Lemma next_of_hd t l2 : Forall (fun y => t < y) l2 -> next_of ROps t l2 = hdo l2 None.
Proof.
  destruct l2 as [|y l2]; intros F; [reflexivity|]. inversion F; subst.
  cbn [next_of nltb ROps hdo]. destruct (Rltb_spec t y); [reflexivity | lra].
Qed.
Lemma prev_of_split t l1 l2 : (forall x, In x l1 -> x <= t) -> forall acc,
  prev_of ROps t (l1 ++ l2) acc = prev_of ROps t l2 (hdo (rev l1) acc).
Proof.
  induction l1 as [|a l1 IH]; intros H acc; [reflexivity|].
  cbn [app prev_of rev]. pose proof (H a (or_introl eq_refl)) as Ha.
  unfold nleb. cbn [nltb ROps]. destruct (Rltb_spec t a) as [H'|H']; [lra|]. cbn [negb].
  rewrite IH by (intros x Hx; apply H; right; exact Hx). rewrite hdo_app. reflexivity.
Qed.
Lemma prev_of_stop t l2 acc : Forall (fun y => t < y) l2 -> prev_of ROps t l2 acc = acc.
Proof.
  destruct l2 as [|y l2]; intros F; [reflexivity|]. inversion F; subst.
  cbn [prev_of]. unfold nleb. cbn [nltb ROps]. destruct (Rltb_spec t y); [reflexivity | lra].
Qed.

(* normal form of isi_len_at: [r1] the spikes before t (most recent first), [l2] those after *)
Definition isi_nf (ts te : R) (r1 l2 : list R) : R :=
  match r1, l2 with
  | p :: _, f :: _ => f - p
  | [], f :: l2' => match l2' with f2 :: _ => Rmax (f - ts) (f2 - f) | [] => f - ts end
  | p :: r1', [] => match r1' with p0 :: _ => Rmax (te - p) (p - p0) | [] => te - p end
  | [], [] => 0
  end.

Lemma isi_len_at_nf ts te t r1 l2 : ssorted (rev r1 ++ l2) ->
  Forall (fun y => y < t) r1 -> Forall (fun y => t < y) l2 ->
  isi_len_at ROps ts te (rev r1 ++ l2) t = isi_nf ts te r1 l2.
Proof.
  intros S F1 F2. unfold isi_len_at.
  assert (L1 : forall x, In x (rev r1) -> x <= t).
  { intros x Hx. apply in_rev in Hx. rewrite Forall_forall in F1. specialize (F1 _ Hx). lra. }
  rewrite (prev_of_split t (rev r1) l2 L1), (next_of_split t (rev r1) l2 L1).
  rewrite (prev_of_stop t l2 _ F2), (next_of_hd t l2 F2), rev_involutive.
  destruct r1 as [|p r1'], l2 as [|f l2']; cbn [hdo isi_nf].
  - reflexivity.
  - cbn [rev app] in *. unfold after. cbn [next_of nltb ROps].
    destruct (Rltb_spec f f) as [H|_]; [lra|].
    apply ssorted_cons_inv in S as [_ Ff].
    destruct l2' as [|f2 l2'']; cbn [next_of nltb nsub ROps]; [reflexivity|].
    inversion Ff; subst. destruct (Rltb_spec f f2) as [_|H]; [|lra].
    rewrite R_nmax. reflexivity.
  - rewrite app_nil_r in *. cbn [rev] in *. unfold before.
    apply ssorted_app_inv in S as (_ & _ & Hlt).
    rewrite filter_app. cbn [filter nltb ROps].
    destruct (Rltb_spec p p) as [H|_]; [lra|]. rewrite app_nil_r.
    rewrite filter_all_true.
    2:{ intros x Hx. apply Rltb_true. apply Hlt; [exact Hx | left; reflexivity]. }
    rewrite <- (app_nil_r (rev r1')) at 1. rewrite prev_of_split.
    2:{ intros x Hx. specialize (Hlt x p Hx (or_introl eq_refl)). lra. }
    cbn [prev_of]. rewrite rev_involutive.
    destruct r1' as [|p0 r1'']; cbn [hdo nsub ROps]; [reflexivity|].
    rewrite R_nmax. reflexivity.
  - reflexivity.
Qed.

Lemma split_at t u : ssorted u -> ~ In t u ->
  exists l1 l2, u = l1 ++ l2 /\ Forall (fun y => y < t) l1 /\ Forall (fun y => t < y) l2.
Proof.
  induction u as [|a u IH]; intros S NI.
  - exists [], []. repeat split; constructor.
  - apply ssorted_cons_inv in S as [S F].
    destruct (Rlt_le_dec a t) as [H|H].
    + destruct (IH S) as (l1 & l2 & E & F1 & F2); [intros Hi; apply NI; right; exact Hi|].
      exists (a :: l1), l2. repeat split; [cbn; rewrite E; reflexivity | constructor; assumption | exact F2].
    + assert (t < a). { destruct H as [H|H]; [exact H|]. exfalso. apply NI. left. symmetry; exact H. }
      exists [], (a :: u). repeat split; [constructor|].
      constructor; [assumption|]. rewrite Forall_forall in *. intros y Hy. specialize (F _ Hy). lra.
Qed.

Lemma pieces_snoc (l : list R) (d x : R) : l <> [] -> pieces (l ++ [x]) = pieces l ++ [(last l d, x)].
Proof.
  induction l as [|a l IH]; intros NE; [congruence|].
  destruct l as [|b l']; [reflexivity|].
  change (pieces ((a :: b :: l') ++ [x])) with ((a, b) :: pieces ((b :: l') ++ [x])).
  rewrite IH by discriminate. reflexivity.
Qed.

Lemma pieces_In (l : list R) a b : In (a, b) (pieces l) -> In a l /\ In b l.
Proof.
  induction l as [|a0 l IH]; [intros []|].
  destruct l as [|b0 r]; [intros []|].
  change (pieces (a0 :: b0 :: r)) with ((a0, b0) :: pieces (b0 :: r)).
  intros [E|H].
  - inversion E; subst. split; [left; reflexivity | right; left; reflexivity].
  - apply IH in H as [H1 H2]. split; right; assumption.
Qed.

Lemma pieces_sorted_gap (l : list R) a b : ssorted l -> In (a, b) (pieces l) ->
  a < b /\ forall x, In x l -> x <= a \/ b <= x.
Proof.
  induction l as [|a0 l IH]; [intros _ []|].
  destruct l as [|b0 r]; [intros _ []|].
  change (pieces (a0 :: b0 :: r)) with ((a0, b0) :: pieces (b0 :: r)).
  intros S [E|H].
  - inversion E; subst. apply ssorted_cons_inv in S as [S F]. inversion F; subst.
    split; [assumption|]. intros x [->|Hx]; [left; lra|]. right.
    destruct Hx as [->|Hx]; [lra|].
    apply ssorted_cons_inv in S as [_ F']. rewrite Forall_forall in F'. specialize (F' _ Hx). lra.
  - apply ssorted_cons_inv in S as [S F]. destruct (IH S H) as [Hab Hg].
    split; [exact Hab|]. intros x [->|Hx]; [|apply Hg; exact Hx].
    left. apply pieces_In in H as [Ha _]. rewrite Forall_forall in F. specialize (F _ Ha). lra.
Qed.

Section Mirror3.
  Context (ts te : R).
  Local Notation mr := (mir ts te).
  Local Notation mtr := (mirror_train ts te).

  Lemma isi_nf_mirror r1 l2 : isi_nf ts te (map mr l2) (map mr r1) = isi_nf ts te r1 l2.
  Proof.
    destruct r1 as [|p [|p0 r1]], l2 as [|f [|f2 l2]]; cbn [map isi_nf]; unfold mir;
      try lra; f_equal; lra.
  Qed.

  (* exact side condition: t is not a spike of u (u strictly sorted) *)
  Theorem isi_len_at_mirror_gen : forall u t, ssorted u -> ~ In t u ->
    isi_len_at ROps ts te (mirror_train ts te u) (mir ts te t) = isi_len_at ROps ts te u t.
  Proof.
    intros u t S NI. destruct (split_at t u S NI) as (l1 & l2 & E & F1 & F2).
    assert (Em : mtr u = rev (map mr l2) ++ map mr (rev l1)).
    { unfold mirror_train. rewrite E, map_app, rev_app_distr, map_rev. reflexivity. }
    assert (Eu : u = rev (rev l1) ++ l2) by (rewrite rev_involutive; exact E).
    assert (Sm : ssorted (mtr u)) by (apply ssorted_mirror; exact S).
    rewrite Em in Sm. rewrite Em. rewrite Eu. rewrite Eu in S.
    rewrite (isi_len_at_nf ts te (mr t) (map mr l2) (map mr (rev l1)) Sm).
    - rewrite (isi_len_at_nf ts te t (rev l1) l2 S).
      + apply isi_nf_mirror.
      + rewrite Forall_forall in *. intros y Hy. apply F1. apply in_rev; exact Hy.
      + exact F2.
    - rewrite Forall_forall in *. intros y Hy. apply In_map_mir in Hy.
      specialize (F2 _ Hy). unfold mir in *. lra.
    - rewrite Forall_forall in *. intros y Hy. apply In_map_mir in Hy. apply in_rev in Hy.
      specialize (F1 _ Hy). unfold mir in *. lra.
  Qed.

  Theorem isi_len_at_mirror : forall u t, valid ts te u -> u <> [] -> ts < t < te -> ~ In t u ->
    isi_len_at ROps ts te (mirror_train ts te u) (mir ts te t) = isi_len_at ROps ts te u t.
  Proof. intros u t (_ & S & _) _ _ NI. apply isi_len_at_mirror_gen; assumption. Qed.

  Lemma pieces_mirror bs :
    pieces (mtr bs) = rev (map (fun p => (mr (snd p), mr (fst p))) (pieces bs)).
  Proof.
    unfold mirror_train. induction bs as [|a r IH]; [reflexivity|].
    destruct r as [|b r']; [reflexivity|].
    change (pieces (a :: b :: r')) with ((a, b) :: pieces (b :: r')).
    cbn [map rev fst snd] in *. rewrite <- IH.
    rewrite (pieces_snoc (rev (map mr r') ++ [mr b]) 0 (mr a)).
    - rewrite last_last. reflexivity.
    - destruct (rev (map mr r')); discriminate.
  Qed.

  Lemma mid_mirror a b : mid ROps (mr b, mr a) = mr (mid ROps (a, b)).
  Proof. unfold mid. rewrite R_n2. cbn [fst snd nadd ndiv ROps]. unfold mir. lra. Qed.

  Lemma breaks_mirror s1 s2 :
    breaks ROps ts te (mtr s1) (mtr s2) = mtr (breaks ROps ts te s1 s2).
  Proof.
    unfold breaks.
    rewrite (su_mirror_gen ts te
               (filter (fun x => nltb ROps ts x && nltb ROps x te) (s1 ++ s2))
               (filter (fun x => nltb ROps ts x && nltb ROps x te) (mtr s1 ++ mtr s2))).
    - unfold mirror_train. cbn [map rev]. rewrite map_app, rev_app_distr. cbn [map rev app].
      rewrite mir_te, mir_ts. reflexivity.
    - intros x. rewrite !filter_In, !in_app_iff, !In_mirror. cbn [nltb ROps].
      rewrite !andb_true_iff, !Rltb_true. unfold mir. intuition lra.
  Qed.

  Lemma eff_mirror s : eff ts te (mtr s) = mtr (eff ts te s).
  Proof.
    destruct s as [|a s].
    - unfold mirror_train. cbn [eff map rev app]. rewrite mir_te, mir_ts. reflexivity.
    - cbn [eff]. unfold mirror_train. cbn [map rev].
      destruct (rev (map mr s) ++ [mr a]) eqn:E; [|reflexivity].
      destruct (rev (map mr s)); discriminate.
  Qed.

  Lemma breaks_sorted s1 s2 : ts < te -> ssorted (breaks ROps ts te s1 s2).
  Proof.
    intros Hlt. unfold breaks.
    set (X := sort_unique ROps (filter (fun x => nltb ROps ts x && nltb ROps x te) (s1 ++ s2))).
    assert (HX : forall x, In x X -> ts < x < te).
    { intros x Hx. unfold X in Hx. apply (proj1 (tr_su_In _ _)) in Hx. apply filter_In in Hx as [_ Hq].
      cbn [nltb ROps] in Hq. apply andb_true_iff in Hq as [H1 H2].
      apply Rltb_true in H1, H2. lra. }
    apply ssorted_cons.
    - apply ssorted_snoc; [apply tr_su_sorted|].
      rewrite Forall_forall. intros x Hx. apply HX in Hx. lra.
    - apply Forall_app. split.
      + rewrite Forall_forall. intros x Hx. apply HX in Hx. lra.
      + constructor; [exact Hlt | constructor].
  Qed.

  Lemma eff_in_breaks s1 s2 s x : valid ts te s -> (forall y, In y s -> In y (s1 ++ s2)) ->
    In x (eff ts te s) -> In x (breaks ROps ts te s1 s2).
  Proof.
    intros (Hlt & _ & Fb) Hsub Hx. unfold breaks.
    assert (E : In x [ts; te] \/ In x s).
    { destruct s; [left; exact Hx | right; exact Hx]. }
    destruct E as [[<-|[<-|[]]]|Hs].
    - left; reflexivity.
    - right. apply in_or_app. right. left; reflexivity.
    - rewrite Forall_forall in Fb. pose proof (Fb _ Hs) as Hb.
      destruct (Req_dec x ts) as [->|N1]; [left; reflexivity|].
      destruct (Req_dec x te) as [->|N2]; [right; apply in_or_app; right; left; reflexivity|].
      right. apply in_or_app. left. apply tr_su_In. apply filter_In. split; [apply Hsub, Hs|].
      cbn [nltb ROps]. apply andb_true_iff. rewrite !Rltb_true. lra.
  Qed.

  Lemma eff_sorted s : valid ts te s -> ssorted (eff ts te s).
  Proof.
    intros (Hlt & S & _). destruct s as [|a s]; [|exact S].
    cbn [eff]. apply ssorted_cons; [apply ssorted_cons; [apply ssorted_nil | constructor]|].
    constructor; [exact Hlt | constructor].
  Qed.

  Theorem isi_spec_mirror : forall s1 s2 m, valid ts te s1 -> valid ts te s2 ->
    isi_spec ROps (mirror_train ts te s1) (mirror_train ts te s2) ts te m
    = (rev (map (mir ts te) (fst (isi_spec ROps s1 s2 ts te m))),
       rev (snd (isi_spec ROps s1 s2 ts te m))).
  Proof.
    intros s1 s2 m V1 V2. unfold isi_spec. cbv zeta. cbn [fst snd].
    rewrite breaks_mirror, !eff_mirror. f_equal.
    rewrite pieces_mirror, map_rev, map_map. f_equal.
    apply map_ext_in. intros [a b] Hp. cbn [fst snd].
    pose proof (breaks_sorted s1 s2 (proj1 V1)) as SB.
    destruct (pieces_sorted_gap _ a b SB Hp) as [Hab Hgap].
    assert (Hmid : a < mid ROps (a, b) < b).
    { unfold mid. rewrite R_n2. cbn [fst snd nadd ndiv ROps]. lra. }
    rewrite mid_mirror.
    rewrite (isi_len_at_mirror_gen (eff ts te s1) (mid ROps (a, b)) (eff_sorted s1 V1)).
    2:{ intros Hi. apply (eff_in_breaks s1 s2 s1) in Hi; [|exact V1|intros y Hy; apply in_or_app; left; exact Hy].
        destruct (Hgap _ Hi); lra. }
    rewrite (isi_len_at_mirror_gen (eff ts te s2) (mid ROps (a, b)) (eff_sorted s2 V2)).
    2:{ intros Hi. apply (eff_in_breaks s1 s2 s2) in Hi; [|exact V2|intros y Hy; apply in_or_app; right; exact Hy].
        destruct (Hgap _ Hi); lra. }
    reflexivity.
  Qed.

End Mirror3.

Print Assumptions sync_profile_shift.
Print Assumptions sync_profile_scale.
Print Assumptions sync_spec_mirror.
Print Assumptions order_spec_mirror.
Print Assumptions dir_spec_mirror.
Print Assumptions single_spec_mirror.
Print Assumptions isi_spec_mirror.
