(* Lem_Findings.v — the two recorded findings as theorems about the model (refutations with
   concrete witnesses; the witnesses are the replays of KNOWN_FINDINGS.txt). *)
From Coq Require Import List Bool Arith ZArith QArith Qreals Reals Lra.
Import ListNotations.
From PS Require Import Num RLemmas Valid ModelKernels ModelFuncs ModelAPI ModelAuto Bridge.
Local Close Scope Q_scope.
Local Open Scope R_scope.

(* ---------- F10: MRTS='auto' with a proper-subset `indices` ---------- *)
Definition f10_list : list (list Q * Q * Q) :=
  [([1#8; 1#2]%Q, 0%Q, 1%Q); ([1#4; 3#4]%Q, 0%Q, 1%Q); ([1#16; 1#8; 3#16; 1#4]%Q, 0%Q, 1%Q)].
Definition f10_idx : option (list nat) := Some [0; 1]%nat.

Lemma f10_Q :
  Qeq_bool (default_thresh_sq QOps (auto_pool_multi QOps 0%Q false f10_list f10_idx))
           (default_thresh_sq QOps (auto_pool_selected QOps 0%Q false f10_list f10_idx)) = false.
Proof. vm_compute. reflexivity. Qed.

Lemma Q2R_neq a b : Qeq_bool a b = false -> Q2R a <> Q2R b.
Proof.
  intros H E. apply eqR_Qeq in E. apply Qeq_bool_iff in E. congruence.
Qed.

(* the pool the code uses for the automatic threshold differs from the pool of the selected
   sub-list: the automatic threshold (its square) is different *)
Theorem F10_auto_threshold_ignores_indices :
  exists (l : list (list R * R * R)) (idx : option (list nat)),
    check_indices (length l) (indices_or_all (length l) idx) = true /\
    default_thresh_sq ROps (auto_pool_multi ROps 0 false l idx) <>
    default_thresh_sq ROps (auto_pool_selected ROps 0 false l idx).
Proof.
  exists (map qTrain f10_list), f10_idx. split; [reflexivity|].
  unfold auto_pool_multi, auto_pool_selected. cbn [f10_idx indices_or_all].
  replace (map (nth_train ROps (map qTrain f10_list)) [0%nat; 1%nat])
     with (map qTrain (auto_pool_selected QOps 0%Q false f10_list f10_idx)) by reflexivity.
  change (map qTrain f10_list) with (map qTrain (auto_pool_multi QOps 0%Q false f10_list f10_idx)).
  rewrite <- !default_thresh_sq_transfer. apply Q2R_neq. exact f10_Q.
Qed.

(* ---------- F13: spike-train order of trains without spikes ---------- *)
(* the normalised order value of two empty trains is +1 in BOTH argument orders, so it cannot
   change sign under swapping / time reversal *)
Theorem F13_order_of_empty_trains_not_antisymmetric : forall eps cy ts te mt m,
  spike_train_order_bi ROps eps cy false true mt m ([], ts, te) ([], ts, te) = Ok 1.
Proof.
  intros. unfold spike_train_order_bi, prep2, order_impl. destruct cy.
  - cbn [tr_spikes tr_start tr_end fst snd coinc_scan length coinc_events order_value rmap].
    cbn. destruct (Reqb_spec 0 0); [reflexivity | congruence].
  - unfold order_profile_bi, prep2.
    cbn [reconcile tr_spikes tr_start tr_end fst snd map sort_unique fold_right filter min_list max_list fold_left].
    unfold tr_start, tr_end. cbn [fst snd neqb ROps].
    destruct (Reqb_spec (nmin ROps ts ts) (nmin ROps ts ts)) as [_|N]; [|congruence].
    destruct (Reqb_spec (nmax ROps te te) (nmax ROps te te)) as [_|N]; [|congruence].
    cbn [negb orb rbind].
    unfold order_profile_gen, coinc_scan. cbn [length Nat.add coinc_events mark_events rev frame_profile].
    cbn [df_integral df_integral1 tl removelast df_sum map sumF fold_right rmap fst snd n0 n1 neqb ROps].
    destruct (Reqb_spec 0 0); [reflexivity | congruence].
Qed.
