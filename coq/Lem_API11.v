(* Lem_API11.v — C08, time reversal on SUB-INTERVALS.
   The mirror theorems of Lem_API3 / Lem_API4 / Lem_API5 / Lem_API7 (whole recording,
   iv = None) extended to every admissible averaging interval: the interval is mirrored
   with the trains, (a, b) -> (ts + te - b, ts + te - a).
   rc = false (trains valid on one common recording [ts, te]), [iv_ok ts te iv]
   (None, or ts <= a < b <= te), both backends, every index selection.  R instance.
     1. the integrals / averages of the three function classes do not see the mirror:
        pwc_avrg / pwl_avrg / df_integral of the mirrored profile over the mirrored
        interval = the same over the interval;
     2. pair level: isi_distance_bi, spike_distance_bi, spike_sync_bi (and the pair
        sums spike_sync_values);
     3. multivariate values for every idx, and the three matrices. *)
From Coq Require Import List Bool Arith ZArith Reals Lra Lia Sorted Permutation.
Import ListNotations.
From PS Require Import Num RLemmas Valid ModelKernels ModelFuncs ModelAPI Spec SyncDefs.
From PS Require Import Lem_API Lem_API2 Lem_API3 Lem_API4 Lem_API5 Lem_API6 Lem_API7 Lem_API8.
From PS Require Lem_WF Lem_Transform Lem_Transform2 Lem_Df Lem_Pwc Lem_Pwl Lem_Order Lem_MultiAPI2.
Local Open Scope R_scope.
Import Lem_Transform.

Local Notation trainR := (@train R).
Local Notation kx := Lem_Df.kx.

(* ------------------------------------------------------------------ *)
(* 0. the mirrored interval                                             *)

Definition mirror_iv (ts te : R) (iv : option (R * R)) : option (R * R) :=
  match iv with None => None | Some (a, b) => Some (mir ts te b, mir ts te a) end.

Lemma iv_ok_mirror ts te iv : iv_ok ts te iv ->
  iv_ok ts te (mirror_iv ts te iv)
  /\ iv_lo ts (mirror_iv ts te iv) = mir ts te (iv_hi te iv)
  /\ iv_hi te (mirror_iv ts te iv) = mir ts te (iv_lo ts iv).
Proof.
  destruct iv as [[x y]|];
    cbn [mirror_iv iv_ok iv_lo iv_hi Lem_WF.iv_ok Lem_WF.iv_lo Lem_WF.iv_hi]; unfold mir;
    intros H; repeat split; lra.
Qed.

Lemma mirror_iv_invol ts te iv : mirror_iv ts te (mirror_iv ts te iv) = iv.
Proof. destruct iv as [[x y]|]; [|reflexivity]. cbn [mirror_iv]. rewrite !mir_invol. reflexivity. Qed.

Lemma Rmax_mir ts te a b : Rmax (mir ts te a) (mir ts te b) = mir ts te (Rmin a b).
Proof. unfold mir, Rmax, Rmin. destruct (Rle_dec (ts + te - a) (ts + te - b)), (Rle_dec a b); lra. Qed.
Lemma Rmin_mir ts te a b : Rmin (mir ts te a) (mir ts te b) = mir ts te (Rmax a b).
Proof. unfold mir, Rmax, Rmin. destruct (Rle_dec (ts + te - a) (ts + te - b)), (Rle_dec a b); lra. Qed.

(* ------------------------------------------------------------------ *)
(* 1a. piece-wise constant functions                                    *)

(* the overlap of one piece *)
Definition ovt (x0 x1 y a b : R) : R :=
  if Rltb (Rmax a x0) (Rmin b x1) then y * (Rmin b x1 - Rmax a x0) else 0.

Lemma pwc_overlap_cons x0 x1 r y ys a b :
  pwc_overlap ROps (x0 :: x1 :: r) (y :: ys) a b = ovt x0 x1 y a b + pwc_overlap ROps (x1 :: r) ys a b.
Proof. apply Lem_Pwc.overlap_cons2. Qed.

Lemma pwc_overlap_snoc : forall xs ys xl xn y a b, length xs = length ys ->
  pwc_overlap ROps (xs ++ [xl; xn]) (ys ++ [y]) a b
  = pwc_overlap ROps (xs ++ [xl]) ys a b + ovt xl xn y a b.
Proof.
  induction xs as [|x0 xs IH]; intros ys xl xn y a b HL.
  - destruct ys as [|? ?]; [|discriminate]. cbn [app]. rewrite pwc_overlap_cons. cbn [pwc_overlap]. ring.
  - destruct ys as [|y0 ys]; [discriminate|]. cbn [length] in HL. injection HL as HL.
    destruct xs as [|x1 xs].
    + destruct ys as [|? ?]; [|discriminate]. cbn [app].
      rewrite !pwc_overlap_cons. cbn [pwc_overlap]. ring.
    + cbn [app]. rewrite !pwc_overlap_cons.
      change (x1 :: xs ++ [xl; xn]) with ((x1 :: xs) ++ [xl; xn]).
      change (x1 :: xs ++ [xl]) with ((x1 :: xs) ++ [xl]).
      rewrite (IH ys xl xn y a b HL). ring.
Qed.

Lemma ovt_mirror ts te x0 x1 y a b :
  ovt (mir ts te x1) (mir ts te x0) y (mir ts te b) (mir ts te a) = ovt x0 x1 y a b.
Proof.
  unfold ovt. rewrite Rmax_mir, Rmin_mir, Rltb_mir.
  destruct (Rltb (Rmax a x0) (Rmin b x1)); [|reflexivity]. unfold mir. ring.
Qed.

Lemma pwc_overlap_mirror ts te : forall xs ys a b, length xs = S (length ys) ->
  pwc_overlap ROps (rev (map (mir ts te) xs)) (rev ys) (mir ts te b) (mir ts te a)
  = pwc_overlap ROps xs ys a b.
Proof.
  induction xs as [|x0 xs IH]; intros ys a b HL; [discriminate|].
  destruct xs as [|x1 r].
  - destruct ys as [|? ?]; [reflexivity|discriminate].
  - destruct ys as [|y ys]; [discriminate|]. cbn [length] in HL. injection HL as HL.
    rewrite pwc_overlap_cons.
    change (map (mir ts te) (x0 :: x1 :: r)) with (mir ts te x0 :: mir ts te x1 :: map (mir ts te) r).
    cbn [rev]. rewrite <- app_assoc. cbn [app].
    rewrite pwc_overlap_snoc by (rewrite !rev_length, map_length; exact HL).
    change (rev (map (mir ts te) r) ++ [mir ts te x1]) with (rev (map (mir ts te) (x1 :: r))).
    rewrite (IH ys a b) by (cbn [length]; rewrite HL; reflexivity).
    rewrite ovt_mirror. ring.
Qed.

(* Key lemma 1 (pwc) *)
Theorem pwc_avrg_mirror : forall ts te P iv, Lem_WF.good_pwc ts te P -> iv_ok ts te iv ->
  pwc_avrg ROps (mirror_pwc ts te P) (iv_of (mirror_iv ts te iv)) = pwc_avrg ROps P (iv_of iv).
Proof.
  intros ts te P iv G Hiv.
  destruct (iv_ok_mirror ts te iv Hiv) as (Hiv' & EL & EH).
  rewrite (Lem_WF.pwc_avrg_ok ts te _ _ (good_pwc_mirror ts te P G) Hiv').
  rewrite (Lem_WF.pwc_avrg_ok ts te _ _ G Hiv).
  fold (iv_lo ts (mirror_iv ts te iv)) (iv_hi te (mirror_iv ts te iv)) (iv_lo ts iv) (iv_hi te iv).
  rewrite EL, EH. unfold mirror_pwc. cbn [fst snd].
  destruct G as ((_ & HL) & _).
  rewrite (pwc_overlap_mirror ts te _ _ _ _ HL). f_equal. f_equal. unfold mir. ring.
Qed.

(* ------------------------------------------------------------------ *)
(* 1b. piece-wise linear functions: y1 / y2 exchanged and reversed      *)

Lemma pwl_overlap_snoc : forall xs y1 y2 xl xn ya yb a b, length xs = length y1 -> length xs = length y2 ->
  pwl_overlap ROps (xs ++ [xl; xn]) (y1 ++ [ya]) (y2 ++ [yb]) a b
  = pwl_overlap ROps (xs ++ [xl]) y1 y2 a b + Lem_Pwl.pc xl xn ya yb a b.
Proof.
  induction xs as [|x0 xs IH]; intros y1 y2 xl xn ya yb a b H1 H2.
  - destruct y1 as [|? ?]; [|discriminate]. destruct y2 as [|? ?]; [|discriminate]. cbn [app].
    rewrite Lem_Pwl.overlap_cons. cbn [pwl_overlap]. ring.
  - destruct y1 as [|a0 y1]; [discriminate|]. destruct y2 as [|b0 y2]; [discriminate|].
    cbn [length] in H1, H2. injection H1 as H1. injection H2 as H2.
    destruct xs as [|x1 xs].
    + destruct y1 as [|? ?]; [|discriminate]. destruct y2 as [|? ?]; [|discriminate]. cbn [app].
      rewrite !Lem_Pwl.overlap_cons. cbn [pwl_overlap]. ring.
    + cbn [app]. rewrite !Lem_Pwl.overlap_cons.
      change (x1 :: xs ++ [xl; xn]) with ((x1 :: xs) ++ [xl; xn]).
      change (x1 :: xs ++ [xl]) with ((x1 :: xs) ++ [xl]).
      rewrite (IH y1 y2 xl xn ya yb a b H1 H2). ring.
Qed.

Lemma pc_mirror ts te x0 x1 ya yb a b : x0 < x1 ->
  Lem_Pwl.pc (mir ts te x1) (mir ts te x0) yb ya (mir ts te b) (mir ts te a) = Lem_Pwl.pc x0 x1 ya yb a b.
Proof.
  intros Hx. unfold Lem_Pwl.pc, Lem_Pwl.trap. rewrite Rmax_mir, Rmin_mir, Rltb_mir.
  destruct (Rltb (Rmax a x0) (Rmin b x1)); [|reflexivity].
  rewrite !(lin_mirror ts te x0 x1 ya yb _ Hx). unfold mir. unfold Rdiv. ring.
Qed.

Lemma pwl_overlap_mirror ts te : forall xs y1 y2 a b, ssorted xs ->
  length xs = S (length y1) -> length y1 = length y2 ->
  pwl_overlap ROps (rev (map (mir ts te) xs)) (rev y2) (rev y1) (mir ts te b) (mir ts te a)
  = pwl_overlap ROps xs y1 y2 a b.
Proof.
  induction xs as [|x0 xs IH]; intros y1 y2 a b Ss H1 H2; [discriminate|].
  destruct xs as [|x1 r].
  - destruct y1 as [|? ?]; [|discriminate]. destruct y2 as [|? ?]; [reflexivity|discriminate].
  - destruct y1 as [|ya y1]; [discriminate|]. destruct y2 as [|yb y2]; [discriminate|].
    cbn [length] in H1, H2. injection H1 as H1. injection H2 as H2.
    apply ssorted_cons_inv in Ss as [S1 FF]. assert (Hx : x0 < x1) by (inversion FF; auto).
    rewrite Lem_Pwl.overlap_cons.
    change (map (mir ts te) (x0 :: x1 :: r)) with (mir ts te x0 :: mir ts te x1 :: map (mir ts te) r).
    cbn [rev]. rewrite <- app_assoc. cbn [app].
    rewrite pwl_overlap_snoc by (rewrite !rev_length, map_length; congruence).
    change (rev (map (mir ts te) r) ++ [mir ts te x1]) with (rev (map (mir ts te) (x1 :: r))).
    rewrite (IH y1 y2 a b S1) by (cbn [length]; congruence).
    rewrite (pc_mirror ts te x0 x1 ya yb a b Hx). ring.
Qed.

(* Key lemma 1 (pwl) *)
Theorem pwl_avrg_mirror : forall ts te P iv, Lem_WF.good_pwl ts te P -> iv_ok ts te iv ->
  pwl_avrg ROps (mirror_pwl ts te P) (iv_of (mirror_iv ts te iv)) = pwl_avrg ROps P (iv_of iv).
Proof.
  intros ts te P iv G Hiv.
  destruct (iv_ok_mirror ts te iv Hiv) as (Hiv' & EL & EH).
  rewrite (Lem_WF.pwl_avrg_ok ts te _ _ (good_pwl_mirror ts te P G) Hiv').
  rewrite (Lem_WF.pwl_avrg_ok ts te _ _ G Hiv).
  fold (iv_lo ts (mirror_iv ts te iv)) (iv_hi te (mirror_iv ts te iv)) (iv_lo ts iv) (iv_hi te iv).
  rewrite EL, EH. unfold mirror_pwl. cbn [fst snd].
  destruct G as (((Ss & _) & H1 & H2) & _).
  rewrite (pwl_overlap_mirror ts te _ _ _ _ _ Ss H1 H2). f_equal. f_equal. unfold mir. ring.
Qed.

(* ------------------------------------------------------------------ *)
(* 1c. discrete functions: the events strictly inside (a, b) are the events of the
       mirrored profile strictly inside (mir b, mir a); the edge entries never count *)

Lemma good_df_mirror ts te f : Lem_WF.good_df ts te f -> Lem_WF.good_df ts te (mirror_df ts te f).
Proof.
  intros (W & F0 & FL).
  destruct (Lem_Df.wf_df_shape f W) as (f0 & I & fl & -> & S1 & L1 & B1).
  rewrite Lem_Df.last_shape in FL. cbn [hd] in F0.
  change (kx f0 = ts) in F0. change (kx fl = te) in FL.
  assert (E : mirror_df ts te (f0 :: I ++ [fl])
              = map_t (mir ts te) fl :: rev (map (map_t (mir ts te)) I) ++ [map_t (mir ts te) f0]).
  { unfold mirror_df. cbn [map rev]. rewrite map_app, rev_app_distr. cbn [map rev app]. reflexivity. }
  rewrite E. unfold Lem_WF.good_df. rewrite Lem_Df.last_shape. cbn [hd].
  split; [|split].
  - apply Lem_Df.wf_df_intro.
    + rewrite map_rev, map_map.
      replace (rev (map (fun x => kx (map_t (mir ts te) x)) I)) with (mirror_train ts te (map kx I))
        by (unfold mirror_train; rewrite map_map; reflexivity).
      apply ssorted_mirror; exact S1.
    + change (mir ts te (kx fl) <= mir ts te (kx f0)). unfold mir. lra.
    + apply Forall_rev. apply Forall_map. eapply Forall_impl; [|exact B1]. intros e He.
      change (mir ts te (kx fl) <= mir ts te (kx e) <= mir ts te (kx f0)). unfold mir. lra.
  - change (mir ts te (kx fl) = ts). rewrite FL. apply mir_te.
  - change (mir ts te (kx f0) = te). rewrite F0. apply mir_ts.
Qed.

(* the declarative sums: no hypothesis on the profile *)
Lemma df_spec1_mirror_some ts te (f : list (R * R * R)) a b :
  df_integral_spec1 ROps (mirror_df ts te f) (Some (mir ts te b, mir ts te a))
  = df_integral_spec1 ROps f (Some (a, b)).
Proof.
  unfold df_integral_spec1, interior_entries, mirror_df.
  rewrite interior_rev, tl_map', removelast_map'.
  set (I := removelast (tl f)). cbn [nltb ROps].
  rewrite filter_rev'.
  rewrite (filter_map_g (map_t (mir ts te)) (fun e => Rltb a (fst (fst e)) && Rltb (fst (fst e)) b)).
  2:{ intros x. change (fst (fst (map_t (mir ts te) x))) with (mir ts te (fst (fst x))).
      rewrite !Rltb_mir. apply andb_comm. }
  rewrite !map_rev, !Lem_Order.sumF_rev, !map_map. reflexivity.
Qed.

Lemma df_spec1_mirror_none ts te (f : list (R * R * R)) :
  df_integral_spec1 ROps (mirror_df ts te f) None = df_integral_spec1 ROps f None.
Proof.
  unfold df_integral_spec1, interior_entries, mirror_df.
  rewrite interior_rev, tl_map', removelast_map'.
  rewrite !map_rev, !Lem_Order.sumF_rev, !map_map. reflexivity.
Qed.

Lemma df_spec_mirror ts te (f : list (R * R * R)) iv :
  df_integral_spec ROps (mirror_df ts te f) (iv_of (mirror_iv ts te iv))
  = df_integral_spec ROps f (iv_of iv).
Proof.
  destruct iv as [[a b]|]; cbn [mirror_iv iv_of df_integral_spec];
    [apply df_spec1_mirror_some | apply df_spec1_mirror_none].
Qed.

(* Key lemma 1 (df) *)
Theorem df_integral_mirror : forall ts te f iv, Lem_WF.good_df ts te f -> iv_ok ts te iv ->
  df_integral ROps (mirror_df ts te f) (iv_of (mirror_iv ts te iv)) = df_integral ROps f (iv_of iv).
Proof.
  intros ts te f iv G Hiv.
  destruct (iv_ok_mirror ts te iv Hiv) as (Hiv' & _ & _).
  rewrite (Lem_WF.df_integral_ok ts te _ _ (good_df_mirror ts te f G) Hiv').
  rewrite (Lem_WF.df_integral_ok ts te _ _ G Hiv).
  f_equal. apply df_spec_mirror.
Qed.

(* ------------------------------------------------------------------ *)
(* 2. pair level                                                        *)

Theorem isi_distance_mirror_iv : forall eps cy m iv a b ts te,
  vtrain ts te a -> vtrain ts te b -> iv_ok ts te iv ->
  isi_distance_bi ROps eps cy false m (mirror_iv ts te iv) (mirror_tr a) (mirror_tr b)
  = isi_distance_bi ROps eps cy false m iv a b.
Proof.
  intros eps cy m iv a b ts te Va Vb Hiv.
  rewrite (isi_distance_is_profile_average eps cy m (mirror_iv ts te iv)
             (vtrain_mirror ts te a Va) (vtrain_mirror ts te b Vb)).
  rewrite (isi_distance_is_profile_average eps cy m iv Va Vb).
  rewrite (isi_bi_mirror eps cy m ts te a b Va Vb).
  apply pwc_avrg_mirror; [|exact Hiv].
  apply Lem_WF.isi_profile_bi_wf; auto using Lem_WF.rc_ok_false.
Qed.

Theorem spike_distance_mirror_iv : forall eps cy m ri iv a b ts te,
  vtrain ts te a -> vtrain ts te b -> iv_ok ts te iv ->
  spike_distance_bi ROps eps cy false m ri (mirror_iv ts te iv) (mirror_tr a) (mirror_tr b)
  = spike_distance_bi ROps eps cy false m ri iv a b.
Proof.
  intros eps cy m ri iv a b ts te Va Vb Hiv.
  pose proof (vtrain_mirror ts te a Va) as Va'. pose proof (vtrain_mirror ts te b Vb) as Vb'.
  rewrite (Lem_MultiAPI2.spike_bi_is_avrg eps cy m ri (mirror_iv ts te iv) ts te _ _
             (proj2 (Lem_MultiAPI2.wtrain_vtrain ts te _) Va')
             (proj2 (Lem_MultiAPI2.wtrain_vtrain ts te _) Vb')).
  rewrite (Lem_MultiAPI2.spike_bi_is_avrg eps cy m ri iv ts te a b
             (proj2 (Lem_MultiAPI2.wtrain_vtrain ts te a) Va)
             (proj2 (Lem_MultiAPI2.wtrain_vtrain ts te b) Vb)).
  rewrite (spike_bi_mirror eps cy m ri ts te a b Va Vb).
  apply pwl_avrg_mirror; [|exact Hiv].
  apply Lem_WF.spike_profile_bi_wf; auto using Lem_WF.rc_ok_false.
Qed.

(* the pair SPIKE-Sync profile of the mirrored trains *)
Lemma sync_bi_mirror eps cy mt m ts te (a b : trainR) : vtrain ts te a -> vtrain ts te b ->
  spike_sync_profile_bi ROps eps cy false mt m (mirror_tr a) (mirror_tr b)
  = mirror_df ts te (spike_sync_profile_bi ROps eps cy false mt m a b).
Proof.
  intros Va Vb.
  unfold spike_sync_profile_bi. rewrite !prep2_false, !gt_of_eq.
  rewrite (spikes_mirror ts te a Va), (spikes_mirror ts te b Vb).
  pose proof (vtrain_mirror ts te a Va) as (_ & Hs' & He'). rewrite Hs', He'.
  pose proof Va as (V1 & Hs & He). pose proof Vb as (V2 & _ & _). rewrite Hs, He.
  rewrite (Lem_Transform2.sync_profile_mirror _ _ ts te mt m V1 V2). reflexivity.
Qed.

(* the pair sums (coincidences, multiplicity) *)
Theorem sync_values_mirror_iv : forall eps cy mt m iv a b ts te,
  vtrain ts te a -> vtrain ts te b -> iv_ok ts te iv ->
  spike_sync_values ROps eps cy mt m (mirror_iv ts te iv) (mirror_tr a) (mirror_tr b)
  = spike_sync_values ROps eps cy mt m iv a b.
Proof.
  intros eps cy mt m iv a b ts te Va Vb Hiv.
  rewrite (@sync_values_are_profile_sums eps cy mt m (mirror_iv ts te iv) _ _ _ _
             (vtrain_mirror ts te a Va) (vtrain_mirror ts te b Vb)).
  rewrite (@sync_values_are_profile_sums eps cy mt m iv _ _ _ _ Va Vb).
  rewrite (sync_bi_mirror eps cy mt m ts te a b Va Vb).
  apply df_integral_mirror; [|exact Hiv].
  apply Lem_WF.sync_profile_bi_wf; auto using Lem_WF.rc_ok_false.
Qed.

Theorem spike_sync_mirror_iv : forall eps cy mt m iv a b ts te,
  vtrain ts te a -> vtrain ts te b -> iv_ok ts te iv ->
  spike_sync_bi ROps eps cy false mt m (mirror_iv ts te iv) (mirror_tr a) (mirror_tr b)
  = spike_sync_bi ROps eps cy false mt m iv a b.
Proof.
  intros eps cy mt m iv a b ts te Va Vb Hiv.
  unfold spike_sync_bi. rewrite !prep2_false.
  rewrite (sync_values_mirror_iv eps cy mt m iv a b ts te Va Vb Hiv). reflexivity.
Qed.

(* ------------------------------------------------------------------ *)
(* 3. multivariate values, every index selection, and the matrices      *)

Theorem isi_multi_mirror_iv_idx : forall eps cy m iv l idx ts te,
  Forall (vtrain ts te) l -> iv_ok ts te iv ->
  isi_distance_multi ROps eps cy false m (mirror_iv ts te iv) (map mirror_tr l) idx
  = isi_distance_multi ROps eps cy false m iv l idx.
Proof.
  intros eps cy m iv l idx ts te HF Hiv. unfold isi_distance_multi.
  apply distance_multi_gen_map_idx. intros a b Ha Hb.
  apply (isi_distance_mirror_iv eps cy m iv a b ts te
           (Forall_In_v ts te l a HF Ha) (Forall_In_v ts te l b HF Hb) Hiv).
Qed.

Theorem spike_multi_mirror_iv_idx : forall eps cy m ri iv l idx ts te,
  Forall (vtrain ts te) l -> iv_ok ts te iv ->
  spike_distance_multi ROps eps cy false m ri (mirror_iv ts te iv) (map mirror_tr l) idx
  = spike_distance_multi ROps eps cy false m ri iv l idx.
Proof.
  intros eps cy m ri iv l idx ts te HF Hiv. unfold spike_distance_multi.
  apply distance_multi_gen_map_idx. intros a b Ha Hb.
  apply (spike_distance_mirror_iv eps cy m ri iv a b ts te
           (Forall_In_v ts te l a HF Ha) (Forall_In_v ts te l b HF Hb) Hiv).
Qed.

Theorem sync_multi_mirror_iv_idx : forall eps cy mt m iv l idx ts te,
  Forall (vtrain ts te) l -> iv_ok ts te iv ->
  spike_sync_multi ROps eps cy false mt m (mirror_iv ts te iv) (map mirror_tr l) idx
  = spike_sync_multi ROps eps cy false mt m iv l idx.
Proof.
  intros eps cy mt m iv l idx ts te HF Hiv.
  apply sync_multi_map_idx. intros a b Ha Hb.
  apply (sync_values_mirror_iv eps cy mt m iv a b ts te
           (Forall_In_v ts te l a HF Ha) (Forall_In_v ts te l b HF Hb) Hiv).
Qed.

Theorem isi_matrix_mirror_iv : forall eps cy m iv l idx ts te,
  Forall (vtrain ts te) l -> iv_ok ts te iv ->
  isi_distance_matrix ROps eps cy false m (mirror_iv ts te iv) (map mirror_tr l) idx
  = isi_distance_matrix ROps eps cy false m iv l idx.
Proof.
  intros eps cy m iv l idx ts te HF Hiv. unfold isi_distance_matrix.
  apply matrix_gen_map. intros a b Ha Hb.
  apply (isi_distance_mirror_iv eps cy m iv a b ts te
           (Forall_In_v ts te l a HF Ha) (Forall_In_v ts te l b HF Hb) Hiv).
Qed.

Theorem spike_matrix_mirror_iv : forall eps cy m ri iv l idx ts te,
  Forall (vtrain ts te) l -> iv_ok ts te iv ->
  spike_distance_matrix ROps eps cy false m ri (mirror_iv ts te iv) (map mirror_tr l) idx
  = spike_distance_matrix ROps eps cy false m ri iv l idx.
Proof.
  intros eps cy m ri iv l idx ts te HF Hiv. unfold spike_distance_matrix.
  apply matrix_gen_map. intros a b Ha Hb.
  apply (spike_distance_mirror_iv eps cy m ri iv a b ts te
           (Forall_In_v ts te l a HF Ha) (Forall_In_v ts te l b HF Hb) Hiv).
Qed.

Theorem sync_matrix_mirror_iv : forall eps cy mt m iv l idx ts te,
  Forall (vtrain ts te) l -> iv_ok ts te iv ->
  spike_sync_matrix ROps eps cy false mt m (mirror_iv ts te iv) (map mirror_tr l) idx
  = spike_sync_matrix ROps eps cy false mt m iv l idx.
Proof.
  intros eps cy mt m iv l idx ts te HF Hiv. unfold spike_sync_matrix.
  apply matrix_gen_map. intros a b Ha Hb.
  apply (spike_sync_mirror_iv eps cy mt m iv a b ts te
           (Forall_In_v ts te l a HF Ha) (Forall_In_v ts te l b HF Hb) Hiv).
Qed.

(* all scalars at once *)
Theorem multi_scalars_mirror_iv_idx : forall eps cy m mt ri iv l idx ts te,
  Forall (vtrain ts te) l -> iv_ok ts te iv ->
  isi_distance_multi ROps eps cy false m (mirror_iv ts te iv) (map mirror_tr l) idx
    = isi_distance_multi ROps eps cy false m iv l idx /\
  spike_distance_multi ROps eps cy false m ri (mirror_iv ts te iv) (map mirror_tr l) idx
    = spike_distance_multi ROps eps cy false m ri iv l idx /\
  spike_sync_multi ROps eps cy false mt m (mirror_iv ts te iv) (map mirror_tr l) idx
    = spike_sync_multi ROps eps cy false mt m iv l idx /\
  isi_distance_matrix ROps eps cy false m (mirror_iv ts te iv) (map mirror_tr l) idx
    = isi_distance_matrix ROps eps cy false m iv l idx /\
  spike_distance_matrix ROps eps cy false m ri (mirror_iv ts te iv) (map mirror_tr l) idx
    = spike_distance_matrix ROps eps cy false m ri iv l idx /\
  spike_sync_matrix ROps eps cy false mt m (mirror_iv ts te iv) (map mirror_tr l) idx
    = spike_sync_matrix ROps eps cy false mt m iv l idx.
Proof.
  intros eps cy m mt ri iv l idx ts te HF Hiv.
  split; [apply (isi_multi_mirror_iv_idx eps cy m iv l idx ts te HF Hiv)|].
  split; [apply (spike_multi_mirror_iv_idx eps cy m ri iv l idx ts te HF Hiv)|].
  split; [apply (sync_multi_mirror_iv_idx eps cy mt m iv l idx ts te HF Hiv)|].
  split; [apply (isi_matrix_mirror_iv eps cy m iv l idx ts te HF Hiv)|].
  split; [apply (spike_matrix_mirror_iv eps cy m ri iv l idx ts te HF Hiv)|].
  apply (sync_matrix_mirror_iv eps cy mt m iv l idx ts te HF Hiv).
Qed.

(* ------------------------------------------------------------------ *)
(* 4. the averages / sums of the MULTIVARIATE profiles (Lem_API8 + the key lemmas):
      admissible selection (all positions in range, at least two)        *)

Lemma idx_ok_lt ts te (l : list trainR) idx :
  Forall (vtrain ts te) l -> Lem_WF.idx_ok (length l) idx -> ts < te.
Proof.
  intros HF [H1 H2]. destruct l as [|t0 l'].
  - destruct idx as [[|i ix]|]; cbn [indices_or_all length seq] in *; try lia.
    inversion H1; lia.
  - inversion HF as [|? ? V _]; subst. exact (Lem_WF.vtrain_lt V).
Qed.

Theorem multi_profile_averages_mirror : forall eps cy m mt ri iv l idx ts te,
  Forall (vtrain ts te) l -> Lem_WF.idx_ok (length l) idx -> iv_ok ts te iv ->
  rbind (isi_profile_multi ROps eps cy false m (map mirror_tr l) idx)
        (fun P => pwc_avrg ROps P (iv_of (mirror_iv ts te iv)))
    = rbind (isi_profile_multi ROps eps cy false m l idx) (fun P => pwc_avrg ROps P (iv_of iv)) /\
  rbind (spike_profile_multi ROps eps cy false m ri (map mirror_tr l) idx)
        (fun P => pwl_avrg ROps P (iv_of (mirror_iv ts te iv)))
    = rbind (spike_profile_multi ROps eps cy false m ri l idx) (fun P => pwl_avrg ROps P (iv_of iv)) /\
  rbind (spike_sync_profile_multi ROps eps cy false mt m (map mirror_tr l) idx)
        (fun P => df_integral ROps P (iv_of (mirror_iv ts te iv)))
    = rbind (spike_sync_profile_multi ROps eps cy false mt m l idx) (fun P => df_integral ROps P (iv_of iv)).
Proof.
  intros eps cy m mt ri iv l idx ts te HF Hix Hiv.
  pose proof (idx_ok_lt ts te l idx HF Hix) as Hlt.
  split; [|split].
  - rewrite (isi_profile_multi_mirror eps cy m l idx ts te HF).
    destruct (Lem_WF.isi_profile_multi_ok eps cy false m ts te l idx (Lem_WF.rc_ok_false eps) Hlt HF Hix)
      as (P & -> & G).
    cbn [rmap rbind]. apply pwc_avrg_mirror; assumption.
  - rewrite (spike_profile_multi_mirror eps cy m ri l idx ts te HF).
    destruct (Lem_WF.spike_profile_multi_ok eps cy false m ri ts te l idx (Lem_WF.rc_ok_false eps) Hlt HF Hix)
      as (P & -> & G).
    cbn [rmap rbind]. apply pwl_avrg_mirror; assumption.
  - rewrite (sync_profile_multi_mirror eps cy mt m l idx ts te HF).
    destruct (Lem_WF.spike_sync_profile_multi_ok eps cy false mt m ts te l idx (Lem_WF.rc_ok_false eps) Hlt HF Hix)
      as (P & -> & G).
    cbn [rmap rbind]. apply df_integral_mirror; assumption.
Qed.

(* ------------------------------------------------------------------ *)
(* 5. non-vacuity: the three valid trains [ex_l] of Lem_API4 on [0, 10] *)

Example ex11_mirror_iv : mirror_iv 0 10 (Some (1, 4)) = Some (6, 9).
Proof. cbn [mirror_iv]. unfold mir. f_equal. f_equal; lra. Qed.

Example ex11_hypotheses :
  Forall (vtrain 0 10) ex_l /\ iv_ok 0 10 (Some (1, 9)) /\ iv_ok 0 10 (Some (0, 5)) /\ iv_ok 0 10 None /\
  iv_ok 0 10 (mirror_iv 0 10 (Some (0, 5))) /\
  Lem_WF.idx_ok (length ex_l) (Some [2; 0]%nat) /\ Lem_WF.idx_ok (length ex_l) None.
Proof.
  destruct ex_l_hypotheses as (HF & Hiv & HivN & _).
  assert (H05 : iv_ok 0 10 (Some (0, 5))).
  { cbn [iv_ok Lem_WF.iv_ok]. lra. }
  split; [exact HF|]. split; [exact Hiv|]. split; [exact H05|]. split; [exact HivN|].
  split; [exact (proj1 (iv_ok_mirror 0 10 _ H05))|].
  split.
  - split; [repeat constructor | cbn; lia].
  - apply Lem_WF.idx_ok_none. cbn; lia.
Qed.

Example ex11_instances :
  isi_distance_bi ROps (1 / 1000000) true false 0 (mirror_iv 0 10 (Some (1, 9))) (mirror_tr ex_a) (mirror_tr ex_b)
    = isi_distance_bi ROps (1 / 1000000) true false 0 (Some (1, 9)) ex_a ex_b /\
  spike_distance_bi ROps (1 / 1000000) false false 0 true (mirror_iv 0 10 (Some (0, 5))) (mirror_tr ex_a) (mirror_tr ex_c)
    = spike_distance_bi ROps (1 / 1000000) false false 0 true (Some (0, 5)) ex_a ex_c /\
  spike_sync_bi ROps (1 / 1000000) true false 0 0 (mirror_iv 0 10 (Some (0, 5))) (mirror_tr ex_b) (mirror_tr ex_c)
    = spike_sync_bi ROps (1 / 1000000) true false 0 0 (Some (0, 5)) ex_b ex_c /\
  spike_sync_multi ROps (1 / 1000000) false false 0 0 (mirror_iv 0 10 (Some (1, 9))) (map mirror_tr ex_l) (Some [2; 0]%nat)
    = spike_sync_multi ROps (1 / 1000000) false false 0 0 (Some (1, 9)) ex_l (Some [2; 0]%nat) /\
  spike_distance_matrix ROps (1 / 1000000) true false 0 false (mirror_iv 0 10 (Some (0, 5))) (map mirror_tr ex_l) None
    = spike_distance_matrix ROps (1 / 1000000) true false 0 false (Some (0, 5)) ex_l None.
Proof.
  destruct ex11_hypotheses as (HF & Hiv & H05 & _).
  inversion HF as [|? ? Va HF1]; subst. inversion HF1 as [|? ? Vb HF2]; subst.
  inversion HF2 as [|? ? Vc _]; subst.
  split; [apply (isi_distance_mirror_iv _ _ _ _ _ _ 0 10 Va Vb Hiv)|].
  split; [apply (spike_distance_mirror_iv _ _ _ _ _ _ _ 0 10 Va Vc H05)|].
  split; [apply (spike_sync_mirror_iv _ _ _ _ _ _ _ 0 10 Vb Vc H05)|].
  split; [apply (sync_multi_mirror_iv_idx _ _ _ _ _ ex_l _ 0 10 HF Hiv)|].
  apply (spike_matrix_mirror_iv _ _ _ _ _ ex_l _ 0 10 HF H05).
Qed.

(* ------------------------------------------------------------------ *)
(* 6. [iv_ok] cannot be dropped: the degenerate interval on the LEFT edge.
      PieceWiseConstFunc.integral raises IndexError on (ts, ts) (searchsorted left = 0,
      end index -1) but not on (te, te): for EVERY pair of valid trains the ISI distance
      over (ts, ts) is an error and over the mirrored interval (te, te) of the mirrored
      trains it is a value.  (More counterexamples outside [iv_ok], SPIKE distance, on
      the Q instance below.) *)

Lemma count_lt_le t xs : (count_lt ROps t xs <= count_le ROps t xs)%nat.
Proof.
  unfold count_lt, count_le. induction xs as [|x xs IH]; [reflexivity|].
  cbn [filter]. rewrite R_nleb. cbn [nltb ROps] in *.
  destruct (Rltb_spec x t) as [H|H], (Rltb_spec t x) as [H'|H']; cbn [negb length]; lra || lia.
Qed.

Lemma pwc_avrg_left_point ts te P : ts < te -> Lem_WF.good_pwc ts te P ->
  pwc_avrg ROps P (IvOne ts ts) = Err IndexError.
Proof.
  intros Hlt (((Ss & _) & _) & F0 & FL). destruct P as [xs ys]. cbn [fst snd] in *.
  unfold pwc_avrg, avrg_gen, pwc_integral. cbn [fst snd nltb ROps]. rewrite F0, FL.
  rewrite (proj2 (Rltb_false ts ts)) by lra. rewrite (proj2 (Rltb_false te ts)) by lra.
  assert (C : count_lt ROps ts xs = 0%nat).
  { destruct xs as [|x0 r]; [reflexivity|]. unfold nthF in F0. cbn [nth] in F0. subst x0.
    apply ssorted_cons_inv in Ss as [_ FF]. unfold count_lt. cbn [filter nltb ROps].
    rewrite (proj2 (Rltb_false ts ts)) by lra. clear FL.
    induction FF as [|x r Hx _ IH]; [reflexivity|]. cbn [filter].
    rewrite (proj2 (Rltb_false x ts)) by lra. exact IH. }
  rewrite C. reflexivity.
Qed.

Lemma pwc_avrg_right_point ts te P : ts < te -> Lem_WF.good_pwc ts te P ->
  exists v, pwc_avrg ROps P (IvOne te te) = Ok v.
Proof.
  intros Hlt (((Ss & _) & _) & F0 & FL). destruct P as [xs ys]. cbn [fst snd] in *.
  unfold pwc_avrg, avrg_gen, pwc_integral. cbn [fst snd nltb ROps]. rewrite F0, FL.
  rewrite (proj2 (Rltb_false te te)) by lra. rewrite (proj2 (Rltb_false te ts)) by lra.
  assert (C : (0 < count_lt ROps te xs)%nat).
  { destruct xs as [|x0 r]; [unfold nthF in F0; cbn [nth n0 ROps] in F0; unfold lastF in FL;
                              cbn [last n0 ROps] in FL; lra|].
    unfold nthF in F0. cbn [nth] in F0. subst x0. unfold count_lt. cbn [filter nltb ROps].
    rewrite (proj2 (Rltb_true ts te)) by lra. cbn [length]. lia. }
  pose proof (count_lt_le te xs) as LE.
  destruct (count_lt ROps te xs =? 0)%nat eqn:E0; [apply Nat.eqb_eq in E0; lia|].
  destruct (count_lt ROps te xs - 1 <? count_le ROps te xs)%nat eqn:E1.
  - cbn [rmap]. eexists; reflexivity.
  - apply Nat.ltb_ge in E1. lia.
Qed.

Theorem isi_distance_mirror_left_point_fails : forall eps cy m a b ts te,
  vtrain ts te a -> vtrain ts te b ->
  isi_distance_bi ROps eps cy false m (Some (ts, ts)) a b = Err IndexError /\
  mirror_iv ts te (Some (ts, ts)) = Some (te, te) /\
  exists v, isi_distance_bi ROps eps cy false m (mirror_iv ts te (Some (ts, ts))) (mirror_tr a) (mirror_tr b)
            = Ok v.
Proof.
  intros eps cy m a b ts te Va Vb.
  pose proof (Lem_WF.vtrain_lt Va) as Hlt.
  assert (EM : mirror_iv ts te (Some (ts, ts)) = Some (te, te)).
  { cbn [mirror_iv]. rewrite mir_ts. reflexivity. }
  split; [|split; [exact EM|]].
  - rewrite (isi_distance_is_profile_average eps cy m (Some (ts, ts)) Va Vb). cbn [iv_of].
    apply (pwc_avrg_left_point ts te _ Hlt).
    apply Lem_WF.isi_profile_bi_wf; auto using Lem_WF.rc_ok_false.
  - rewrite EM.
    rewrite (isi_distance_is_profile_average eps cy m (Some (te, te))
               (vtrain_mirror ts te a Va) (vtrain_mirror ts te b Vb)). cbn [iv_of].
    apply (pwc_avrg_right_point ts te _ Hlt).
    apply Lem_WF.isi_profile_bi_wf; auto using Lem_WF.rc_ok_false; apply vtrain_mirror; assumption.
Qed.

(* ------------------------------------------------------------------ *)
(* 7. the statements on the Q instance: trains with an empty train, spikes on both edges,
      spike times shared by two trains; intervals whose ends coincide with spikes, with an
      edge, lie inside one piece; both backends; MRTS 0 and 1/5, max_tau 0 and 3/10;
      idx = None, a pair, a repeated position, twice the empty train, a position out of
      range.  Columns (pairs): ISI, SPIKE-Sync, SPIKE (RI), SPIKE; (multi) the same four
      and the three matrices. *)
From Coq Require Import QArith.
Local Close Scope Q_scope.
Local Open Scope R_scope.

Definition q11_miv (ts te : Q) (iv : option (Q * Q)) : option (Q * Q) :=
  match iv with None => None | Some (a, b) => Some (Qred (ts + te - b), Qred (ts + te - a)) end.

Definition q11_eq (a b : res Q) : bool :=
  match a, b with
  | Ok x, Ok y => Qeq_bool x y
  | Err e, Err e' => true
  | _, _ => false
  end.
Definition q11_eqm (a b : res (list (list Q))) : bool :=
  match a, b with
  | Ok x, Ok y => forallb (fun p => forallb (fun q => Qeq_bool (fst q) (snd q)) (combine (fst p) (snd p))
                                    && (length (fst p) =? length (snd p))%nat)
                          (combine x y) && (length x =? length y)%nat
  | Err e, Err e' => true
  | _, _ => false
  end.

Definition q11_a : list Q * Q * Q := ([0; 3; 5], 0, 10)%Q.
Definition q11_b : list Q * Q * Q := ([3; 7; 10], 0, 10)%Q.
Definition q11_l : list (list Q * Q * Q) := [q11_a; ([], 0, 10)%Q; q11_b].
Definition q11_l2 : list (list Q * Q * Q) :=
  [([1 # 4; 3; 5; 10], 0, 10); ([], 0, 10); ([3; 7 # 2; 7], 0, 10); ([0; 3; 19 # 2], 0, 10)]%Q.
Definition q11_ivs : list (option (Q * Q)) :=
  [None; Some (0, 10); Some (3, 7); Some (0, 5); Some (2, 10); Some (3, 5); Some (1 # 2, 3);
   Some (5, 10); Some (4, 9 # 2); Some (7, 10); Some (0, 3)]%Q.

Definition q11_pairs (l : list (list Q * Q * Q)) := flat_map (fun a => map (fun b => (a, b)) l) l.

Definition q11_pair_checks (l : list (list Q * Q * Q)) (ts te m mt : Q) : list (list bool) :=
  flat_map (fun iv => flat_map (fun cy : bool => map (fun ab =>
    let a := fst ab in let b := snd ab in
    [ q11_eq (isi_distance_bi QOps qx_eps cy false m (q11_miv ts te iv) (qx_mirror a) (qx_mirror b))
             (isi_distance_bi QOps qx_eps cy false m iv a b);
      q11_eq (spike_sync_bi QOps qx_eps cy false mt m (q11_miv ts te iv) (qx_mirror a) (qx_mirror b))
             (spike_sync_bi QOps qx_eps cy false mt m iv a b);
      q11_eq (spike_distance_bi QOps qx_eps cy false m true (q11_miv ts te iv) (qx_mirror a) (qx_mirror b))
             (spike_distance_bi QOps qx_eps cy false m true iv a b);
      q11_eq (spike_distance_bi QOps qx_eps cy false m false (q11_miv ts te iv) (qx_mirror a) (qx_mirror b))
             (spike_distance_bi QOps qx_eps cy false m false iv a b) ]) (q11_pairs l)) [true; false]) q11_ivs.

Definition q11_multi_checks (l : list (list Q * Q * Q)) (ts te m mt : Q) (idxs : list (option (list nat)))
  : list (list bool) :=
  flat_map (fun iv => flat_map (fun cy : bool => map (fun idx =>
    [ q11_eq (isi_distance_multi QOps qx_eps cy false m (q11_miv ts te iv) (map qx_mirror l) idx)
             (isi_distance_multi QOps qx_eps cy false m iv l idx);
      q11_eq (spike_sync_multi QOps qx_eps cy false mt m (q11_miv ts te iv) (map qx_mirror l) idx)
             (spike_sync_multi QOps qx_eps cy false mt m iv l idx);
      q11_eq (spike_distance_multi QOps qx_eps cy false m true (q11_miv ts te iv) (map qx_mirror l) idx)
             (spike_distance_multi QOps qx_eps cy false m true iv l idx);
      q11_eq (spike_distance_multi QOps qx_eps cy false m false (q11_miv ts te iv) (map qx_mirror l) idx)
             (spike_distance_multi QOps qx_eps cy false m false iv l idx);
      q11_eqm (isi_distance_matrix QOps qx_eps cy false m (q11_miv ts te iv) (map qx_mirror l) idx)
              (isi_distance_matrix QOps qx_eps cy false m iv l idx);
      q11_eqm (spike_sync_matrix QOps qx_eps cy false mt m (q11_miv ts te iv) (map qx_mirror l) idx)
              (spike_sync_matrix QOps qx_eps cy false mt m iv l idx);
      q11_eqm (spike_distance_matrix QOps qx_eps cy false m true (q11_miv ts te iv) (map qx_mirror l) idx)
              (spike_distance_matrix QOps qx_eps cy false m true iv l idx) ]) idxs) [true; false]) q11_ivs.

Definition q11_all (c : list (list bool)) : bool := forallb (forallb (fun x => x)) c.

Example ex11_Q :
  q11_all (q11_pair_checks q11_l 0 10 0 0) = true /\
  q11_all (q11_pair_checks q11_l 0 10 (1 # 5) (3 # 10)) = true /\
  q11_all (q11_pair_checks q11_l2 0 10 0 0) = true /\
  q11_all (q11_multi_checks q11_l 0 10 0 0
             [None; Some [2; 0]%nat; Some [0; 1; 2; 0]%nat; Some [1; 1]%nat; Some [5; 0]%nat]) = true /\
  q11_all (q11_multi_checks q11_l2 0 10 (1 # 5) (3 # 10) [None; Some [3; 0; 2]%nat]) = true /\
  (length (q11_pair_checks q11_l 0 10 0 0) = 198)%nat /\
  (* the values are not trivial, and the interval has to be mirrored with the trains:
     (3, 10) -> (0, 7); third value = mirrored trains over the unmirrored interval *)
  q11_miv 0 10 (Some (3, 10)%Q) = Some (0, 7)%Q /\
  qx_red (isi_distance_bi QOps qx_eps true false 0%Q (Some (3, 10)%Q) q11_a q11_b) = Ok (13 # 35)%Q /\
  qx_red (isi_distance_bi QOps qx_eps true false 0%Q (Some (0, 7)%Q) (qx_mirror q11_a) (qx_mirror q11_b))
    = Ok (13 # 35)%Q /\
  qx_red (isi_distance_bi QOps qx_eps true false 0%Q (Some (3, 10)%Q) (qx_mirror q11_a) (qx_mirror q11_b))
    = Ok (43 # 140)%Q /\
  qx_red (spike_distance_bi QOps qx_eps false false 0%Q true (Some (3, 10)%Q) q11_a q11_b) = Ok (173 # 504)%Q /\
  qx_red (spike_distance_bi QOps qx_eps false false 0%Q true (Some (0, 7)%Q) (qx_mirror q11_a) (qx_mirror q11_b))
    = Ok (173 # 504)%Q /\
  qx_red (spike_distance_bi QOps qx_eps false false 0%Q true (Some (3, 10)%Q) (qx_mirror q11_a) (qx_mirror q11_b))
    = Ok (94 # 441)%Q /\
  qx_red (spike_sync_bi QOps qx_eps true false 0%Q 0%Q (Some (3, 10)%Q) q11_a q11_b) = Ok 0%Q /\
  qx_red (spike_sync_bi QOps qx_eps true false 0%Q 0%Q (Some (0, 7)%Q) (qx_mirror q11_a) (qx_mirror q11_b)) = Ok 0%Q /\
  qx_red (spike_sync_bi QOps qx_eps true false 0%Q 0%Q (Some (3, 10)%Q) (qx_mirror q11_a) (qx_mirror q11_b))
    = Ok (2 # 3)%Q.
Proof. vm_compute. repeat split. Qed.

(* outside [iv_ok] the three function classes treat the two edges differently, so the
   mirror statements FAIL there (same trains, Q instance):
   - ISI, degenerate interval on an edge: (0, 0) raises IndexError, its mirror (10, 10) is 0
     (proved for R and all valid trains above);
   - SPIKE, interval beyond the recording: PieceWiseLinFunc.integral accepts an end beyond
     te (5, 11) and returns a number, but raises AssertionError on a start before ts (-1, 5);
   - SPIKE, reversed interval (7, 3) (its own mirror): no ValueError as for ISI, and two
     different numbers, one of them negative. *)
Example ex11_Q_iv_ok_needed :
  isi_distance_bi QOps qx_eps true false 0%Q (Some (0, 0)%Q) q11_a q11_b = Err IndexError /\
  qx_red (isi_distance_bi QOps qx_eps true false 0%Q (q11_miv 0 10 (Some (0, 0)%Q)) (qx_mirror q11_a) (qx_mirror q11_b))
    = Ok 0%Q /\
  q11_miv 0 10 (Some (5, 11)%Q) = Some (-1, 5)%Q /\
  qx_red (spike_distance_bi QOps qx_eps true false 0%Q true (Some (5, 11)%Q) q11_a q11_b) = Ok (137 # 432)%Q /\
  spike_distance_bi QOps qx_eps true false 0%Q true (Some (-1, 5)%Q) (qx_mirror q11_a) (qx_mirror q11_b)
    = Err AssertionError /\
  q11_miv 0 10 (Some (7, 3)%Q) = Some (7, 3)%Q /\
  qx_red (spike_distance_bi QOps qx_eps true false 0%Q true (Some (7, 3)%Q) q11_a q11_b) = Ok (2 # 3)%Q /\
  qx_red (spike_distance_bi QOps qx_eps true false 0%Q true (Some (7, 3)%Q) (qx_mirror q11_a) (qx_mirror q11_b))
    = Ok (-2 # 21)%Q /\
  isi_distance_bi QOps qx_eps true false 0%Q (Some (7, 3)%Q) q11_a q11_b = Err ValueError.
Proof. vm_compute. repeat split. Qed.

(* ------------------------------------------------------------------ *)
Print Assumptions pwc_avrg_mirror.
Print Assumptions pwl_avrg_mirror.
Print Assumptions df_integral_mirror.
Print Assumptions isi_distance_mirror_iv.
Print Assumptions spike_distance_mirror_iv.
Print Assumptions sync_values_mirror_iv.
Print Assumptions spike_sync_mirror_iv.
Print Assumptions isi_multi_mirror_iv_idx.
Print Assumptions spike_multi_mirror_iv_idx.
Print Assumptions sync_multi_mirror_iv_idx.
Print Assumptions isi_matrix_mirror_iv.
Print Assumptions spike_matrix_mirror_iv.
Print Assumptions sync_matrix_mirror_iv.
Print Assumptions multi_scalars_mirror_iv_idx.
Print Assumptions multi_profile_averages_mirror.
Print Assumptions isi_distance_mirror_left_point_fails.
Print Assumptions ex11_hypotheses.
Print Assumptions ex11_instances.
Print Assumptions ex11_Q.
Print Assumptions ex11_Q_iv_ok_needed.
