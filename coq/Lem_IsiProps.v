(* Lem_IsiProps.v — properties of the ISI kernel (R instance). *)
From Coq Require Import List Bool Arith ZArith Reals Lra Lia Sorted Permutation.
Import ListNotations.
From PS Require Import Num RLemmas Valid ModelKernels ModelFuncs ModelAPI Spec SyncDefs.
Local Open Scope R_scope.

(* ------------------------------------------------------------------ *)
(* per-value lemmas                                                    *)

Lemma isi_ratio_R m a b : isi_ratio ROps m a b = Rabs (a - b) / Rmax (Rmax a b) m.
Proof. unfold isi_ratio. rops. reflexivity. Qed.

Lemma isi_ratio_cy_R m a b : isi_ratio_cy ROps m a b = Rabs (a - b) / Rmax m (Rmax a b).
Proof. unfold isi_ratio_cy. rops. reflexivity. Qed.

Lemma isi_ratio_range : forall m a b, 0 <= a -> 0 <= b -> 0 <= m ->
  0 <= isi_ratio ROps m a b <= 1.
Proof.
  intros m a b Ha Hb Hm. rewrite isi_ratio_R.
  set (D := Rmax (Rmax a b) m).
  assert (HD : Rabs (a - b) <= D) by (unfold D; rmm; lra).
  assert (HN : 0 <= Rabs (a - b)) by apply Rabs_pos.
  destruct (Req_dec D 0) as [E|E].
  - assert (Rabs (a - b) = 0) by lra. rewrite H. unfold Rdiv. rewrite Rmult_0_l. lra.
  - assert (HD0 : 0 < D) by lra. split.
    + apply Rmult_le_pos; auto. left. apply Rinv_0_lt_compat; auto.
    + apply Rmult_le_reg_r with D; auto. unfold Rdiv. rewrite Rmult_assoc, Rinv_l by lra. lra.
Qed.

Lemma isi_ratio_sym : forall m a b, isi_ratio ROps m a b = isi_ratio ROps m b a.
Proof.
  intros. rewrite !isi_ratio_R. rewrite (Rmax_comm a b). rewrite (Rabs_minus_sym a b). reflexivity.
Qed.

Lemma isi_ratio_cy_eq : forall m a b, isi_ratio_cy ROps m a b = isi_ratio ROps m a b.
Proof. intros. rewrite isi_ratio_R, isi_ratio_cy_R, Rmax_comm. reflexivity. Qed.

Lemma isi_ratio_mono_m : forall m m' a b, 0 <= a -> 0 <= b -> 0 <= m -> m <= m' ->
  isi_ratio ROps m' a b <= isi_ratio ROps m a b.
Proof.
  intros m m' a b Ha Hb Hm Hmm. rewrite !isi_ratio_R.
  set (D := Rmax (Rmax a b) m). set (D' := Rmax (Rmax a b) m').
  assert (HDD : D <= D') by (unfold D, D'; rmm; lra).
  assert (HD : Rabs (a - b) <= D) by (unfold D; rmm; lra).
  assert (HN : 0 <= Rabs (a - b)) by apply Rabs_pos.
  destruct (Req_dec D 0) as [E|E].
  - assert (H : Rabs (a - b) = 0) by lra. rewrite H. unfold Rdiv. rewrite !Rmult_0_l. lra.
  - assert (HD0 : 0 < D) by lra. unfold Rdiv.
    apply Rmult_le_compat_l; auto. apply Rinv_le_contravar; auto.
Qed.

(* needs a, b >= 0: for a = -1, b = -2, m = -3/2 the left side is -1, the right side 1/0 = 0 *)
Lemma isi_ratio_noop : forall m a b, 0 <= a -> 0 <= b -> m <= Rmax a b ->
  isi_ratio ROps m a b = isi_ratio ROps 0 a b.
Proof.
  intros m a b Ha Hb Hm. rewrite !isi_ratio_R. f_equal. rmm; lra.
Qed.

Lemma isi_ratio_scale : forall k m a b, 0 < k ->
  isi_ratio ROps (k*m) (k*a) (k*b) = isi_ratio ROps m a b.
Proof.
  intros k m a b Hk. rewrite !isi_ratio_R.
  rewrite !RmaxRmult by lra. rewrite <- Rmult_minus_distr_l, Rabs_mult, (Rabs_pos_eq k) by lra.
  unfold Rdiv. rewrite Rinv_mult. field_simplify_eq; [reflexivity|lra].
Qed.

Lemma isi_ratio_self : forall m a, isi_ratio ROps m a a = 0.
Proof.
  intros. rewrite isi_ratio_R. unfold Rminus. rewrite Rplus_opp_r, Rabs_R0. unfold Rdiv. apply Rmult_0_l.
Qed.
