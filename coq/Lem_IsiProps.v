(* Lem_IsiProps.v — properties of the ISI kernel (R instance). *)
From Coq Require Import List Bool Arith ZArith Reals Lra Lia Sorted Permutation.
Import ListNotations.
From PS Require Import Num RLemmas Valid ModelKernels ModelFuncs ModelAPI Spec SyncDefs.
Local Open Scope R_scope.

(* ------------------------------------------------------------------ *)
(* per-value lemmas                                                    *)

Lemma isi_ratio_R m a b : isi_ratio ROps m a b = Rabs (a - b) / Rmax (Rmax a b) m.
Proof. unfold isi_ratio. rops. reflexivity. Qed.

Lemma isi_ratio_cy_R m a b : isi_ratio_cy ROps m a b = Rabs (a - b) / Rmax m (Rmax a b).
Proof. unfold isi_ratio_cy. rops. reflexivity. Qed.

Lemma isi_ratio_range : forall m a b, 0 <= a -> 0 <= b -> 0 <= m ->
  0 <= isi_ratio ROps m a b <= 1.
Proof.
  intros m a b Ha Hb Hm. rewrite isi_ratio_R.
  set (D := Rmax (Rmax a b) m).
  assert (HD : Rabs (a - b) <= D) by (unfold D; rmm; lra).
  assert (HN : 0 <= Rabs (a - b)) by apply Rabs_pos.
  destruct (Req_dec D 0) as [E|E].
  - assert (Rabs (a - b) = 0) by lra. rewrite H. unfold Rdiv. rewrite Rmult_0_l. lra.
  - assert (HD0 : 0 < D) by lra. split.
    + apply Rmult_le_pos; auto. left. apply Rinv_0_lt_compat; auto.
    + apply Rmult_le_reg_r with D; auto. unfold Rdiv. rewrite Rmult_assoc, Rinv_l by lra. lra.
Qed.

Lemma isi_ratio_sym : forall m a b, isi_ratio ROps m a b = isi_ratio ROps m b a.
Proof.
  intros. rewrite !isi_ratio_R. rewrite (Rmax_comm a b). rewrite (Rabs_minus_sym a b). reflexivity.
Qed.

Lemma isi_ratio_cy_eq : forall m a b, isi_ratio_cy ROps m a b = isi_ratio ROps m a b.
Proof. intros. rewrite isi_ratio_R, isi_ratio_cy_R, Rmax_comm. reflexivity. Qed.

Lemma isi_ratio_mono_m : forall m m' a b, 0 <= a -> 0 <= b -> 0 <= m -> m <= m' ->
  isi_ratio ROps m' a b <= isi_ratio ROps m a b.
Proof.
  intros m m' a b Ha Hb Hm Hmm. rewrite !isi_ratio_R.
  set (D := Rmax (Rmax a b) m). set (D' := Rmax (Rmax a b) m').
  assert (HDD : D <= D') by (unfold D, D'; rmm; lra).
  assert (HD : Rabs (a - b) <= D) by (unfold D; rmm; lra).
  assert (HN : 0 <= Rabs (a - b)) by apply Rabs_pos.
  destruct (Req_dec D 0) as [E|E].
  - assert (H : Rabs (a - b) = 0) by lra. rewrite H. unfold Rdiv. rewrite !Rmult_0_l. lra.
  - assert (HD0 : 0 < D) by lra. unfold Rdiv.
    apply Rmult_le_compat_l; auto. apply Rinv_le_contravar; auto.
Qed.

(* needs a, b >= 0: for a = -1, b = -2, m = -3/2 the left side is -1, the right side 1/0 = 0 *)
Lemma isi_ratio_noop : forall m a b, 0 <= a -> 0 <= b -> m <= Rmax a b ->
  isi_ratio ROps m a b = isi_ratio ROps 0 a b.
Proof.
  intros m a b Ha Hb Hm. rewrite !isi_ratio_R.
  replace (Rmax (Rmax a b) m) with (Rmax a b) by (rmm; lra).
  replace (Rmax (Rmax a b) 0) with (Rmax a b) by (rmm; lra). reflexivity.
Qed.

Lemma isi_ratio_scale : forall k m a b, 0 < k ->
  isi_ratio ROps (k*m) (k*a) (k*b) = isi_ratio ROps m a b.
Proof.
  intros k m a b Hk. rewrite !isi_ratio_R.
  rewrite !RmaxRmult by lra. rewrite <- Rmult_minus_distr_l, Rabs_mult, (Rabs_pos_eq k) by lra.
  unfold Rdiv. rewrite Rinv_mult.
  set (N := Rabs (a - b)). set (I := / Rmax (Rmax a b) m).
  replace (k * N * (/ k * I)) with ((k * / k) * (N * I)) by ring.
  rewrite Rinv_r by lra. ring.
Qed.

Lemma isi_ratio_self : forall m a, isi_ratio ROps m a a = 0.
Proof.
  intros. rewrite isi_ratio_R. unfold Rminus. rewrite Rplus_opp_r, Rabs_R0. unfold Rdiv. apply Rmult_0_l.
Qed.

(* ------------------------------------------------------------------ *)
(* unfolding helpers                                                   *)

Definition isi_prof (ratio : R -> R -> R -> R) (ts te m nu1 nu2 : R) (evs : list (R * R * R)) : list R * list R :=
  close_profile ROps te (ts :: map (@ev_t R) evs)
    (ratio m nu1 nu2 :: map (fun e => ratio m (snd (fst e)) (snd e)) evs).

Lemma isi_profile_py_unfold s1 s2 ts te m :
  isi_profile_py ROps s1 s2 ts te m =
  isi_prof (isi_ratio ROps) ts te m (snd (isi_init ROps ts te s1)) (snd (isi_init ROps ts te s2))
    (isi_loop ROps (length s1 + length s2) te
       (fst (fst (isi_init ROps ts te s1))) (snd (fst (isi_init ROps ts te s1))) (snd (isi_init ROps ts te s1))
       (fst (fst (isi_init ROps ts te s2))) (snd (fst (isi_init ROps ts te s2))) (snd (isi_init ROps ts te s2))).
Proof.
  unfold isi_profile_py, isi_profile_gen, isi_scan.
  destruct (isi_init ROps ts te s1) as [[p1 f1] nu1], (isi_init ROps ts te s2) as [[p2 f2] nu2].
  reflexivity.
Qed.

Lemma isi_profile_cy_unfold s1 s2 ts te m :
  isi_profile_cy ROps s1 s2 ts te m =
  isi_prof (isi_ratio_cy ROps) ts te m (snd (isi_init ROps ts te s1)) (snd (isi_init ROps ts te s2))
    (isi_loop_cy ROps (length s1 + length s2) te
       (fst (fst (isi_init ROps ts te s1))) (snd (fst (isi_init ROps ts te s1))) (snd (isi_init ROps ts te s1))
       (fst (fst (isi_init ROps ts te s2))) (snd (fst (isi_init ROps ts te s2))) (snd (isi_init ROps ts te s2))).
Proof.
  unfold isi_profile_cy, isi_profile_gen, isi_scan_cy.
  destruct (isi_init ROps ts te s1) as [[p1 f1] nu1], (isi_init ROps ts te s2) as [[p2 f2] nu2].
  reflexivity.
Qed.

(* ------------------------------------------------------------------ *)
(* 8. symmetry                                                         *)

Definition swap3 (e : R * R * R) : R * R * R := (fst (fst e), snd e, snd (fst e)).

Lemma isi_loop_sym : forall k te p1 f1 nu1 p2 f2 nu2,
  isi_loop ROps k te p1 f1 nu1 p2 f2 nu2 = map swap3 (isi_loop ROps k te p2 f2 nu2 p1 f1 nu1).
Proof.
  induction k as [|k IH]; intros te p1 f1 nu1 p2 f2 nu2; [reflexivity|].
  cbn [isi_loop].
  destruct f1 as [|a f1'], f2 as [|b f2']; cbn [map]; try reflexivity.
  - rewrite (IH te p1 [] nu1 (b :: p2) f2'). reflexivity.
  - rewrite (IH te (a :: p1) f1' _ p2 []). reflexivity.
  - cbn [nltb ROps].
    destruct (Rltb_spec a b) as [Hab|Hab], (Rltb_spec b a) as [Hba|Hba]; try lra; cbn [map].
    + rewrite (IH te (a :: p1) f1' _ p2 (b :: f2')). reflexivity.
    + rewrite (IH te p1 (a :: f1') nu1 (b :: p2) f2'). reflexivity.
    + assert (a = b) by lra. subst b.
      rewrite (IH te (a :: p1) f1' _ (a :: p2) f2'). reflexivity.
Qed.

Lemma isi_profile_sym : forall s1 s2 ts te m,
  isi_profile_py ROps s1 s2 ts te m = isi_profile_py ROps s2 s1 ts te m.
Proof.
  intros. rewrite !isi_profile_py_unfold.
  rewrite (Nat.add_comm (length s1)), isi_loop_sym. unfold isi_prof.
  match goal with |- context [map swap3 ?l] => set (L := l) end.
  assert (E1 : map (@ev_t R) (map swap3 L) = map (@ev_t R) L).
  { rewrite map_map. apply map_ext. intros [[t x] y]. reflexivity. }
  assert (E2 : map (fun e => isi_ratio ROps m (snd (fst e)) (snd e)) (map swap3 L)
               = map (fun e => isi_ratio ROps m (snd (fst e)) (snd e)) L).
  { rewrite map_map. apply map_ext. intros [[t x] y]. cbn [swap3 fst snd]. apply isi_ratio_sym. }
  rewrite E1, E2, (isi_ratio_sym m (snd (isi_init ROps ts te s1))). reflexivity.
Qed.

(* ------------------------------------------------------------------ *)
(* 14. the cython variant computes the same profile                    *)

Definition cy_inv (p f : list R) (nu : R) : Prop :=
  match p, f with y :: _, x :: _ => nu = x - y | _, _ => True end.

Lemma nu_after_cy_eq te nu a p f' : cy_inv p (a :: f') nu ->
  nu_after_cy ROps te nu (a :: p) f' = nu_after ROps te (a :: p) f'.
Proof.
  intros H. destruct f' as [|y f'']; [|destruct p; reflexivity].
  destruct p as [|q p']; [reflexivity|]. cbn in H. cbn [nu_after nu_after_cy nsub ROps]. rewrite H. reflexivity.
Qed.

Lemma cy_inv_after te a p f' : cy_inv (a :: p) f' (nu_after ROps te (a :: p) f').
Proof. destruct f'; [exact I | destruct p; reflexivity]. Qed.

Lemma cy_inv_init ts te s :
  cy_inv (fst (fst (isi_init ROps ts te s))) (snd (fst (isi_init ROps ts te s))) (snd (isi_init ROps ts te s)).
Proof.
  destruct s as [|x0 r]; cbn [isi_init]; [exact I|].
  cbn [nltb ROps]. destruct (Rltb ts x0); cbn [fst snd]; [exact I|].
  destruct r; cbn; auto.
Qed.

Lemma isi_loop_cy_eq : forall k te p1 f1 nu1 p2 f2 nu2,
  cy_inv p1 f1 nu1 -> cy_inv p2 f2 nu2 ->
  isi_loop_cy ROps k te p1 f1 nu1 p2 f2 nu2 = isi_loop ROps k te p1 f1 nu1 p2 f2 nu2.
Proof.
  induction k as [|k IH]; intros te p1 f1 nu1 p2 f2 nu2 I1 I2; [reflexivity|].
  cbn [isi_loop isi_loop_cy].
  destruct f1 as [|a f1'], f2 as [|b f2']; try reflexivity.
  - rewrite (nu_after_cy_eq te _ _ _ _ I2). rewrite IH; auto using cy_inv_after.
  - rewrite (nu_after_cy_eq te _ _ _ _ I1). rewrite IH; auto using cy_inv_after.
  - rewrite (nu_after_cy_eq te _ _ _ _ I1), (nu_after_cy_eq te _ _ _ _ I2).
    destruct (nltb ROps a b); [|destruct (nltb ROps b a)]; rewrite IH; auto using cy_inv_after.
Qed.

Lemma isi_profile_cy_eq : forall s1 s2 ts te m,
  isi_profile_cy ROps s1 s2 ts te m = isi_profile_py ROps s1 s2 ts te m.
Proof.
  intros. rewrite isi_profile_cy_unfold, isi_profile_py_unfold.
  rewrite isi_loop_cy_eq by apply cy_inv_init.
  unfold isi_prof. f_equal. f_equal; [apply isi_ratio_cy_eq|].
  apply map_ext. intros. apply isi_ratio_cy_eq.
Qed.

(* ------------------------------------------------------------------ *)
(* list helpers                                                        *)

Lemma Forall_removelast {A} (P : A -> Prop) l : Forall P l -> Forall P (removelast l).
Proof.
  induction l as [|a l IH]; intros H; [constructor|].
  inversion H as [|? ? Ha Hl]; subst. destruct l as [|b l']; [constructor|].
  change (Forall P (a :: removelast (b :: l'))). constructor; auto.
Qed.

Lemma Forall2_removelast {A B} (P : A -> B -> Prop) l l' :
  Forall2 P l l' -> Forall2 P (removelast l) (removelast l').
Proof.
  induction 1 as [|a b l l' Hab Hl IH]; [constructor|].
  destruct Hl as [|a2 b2 l2 l2' H2 Hl2]; [constructor|].
  change (Forall2 P (a :: removelast (a2 :: l2)) (b :: removelast (b2 :: l2'))). constructor; auto.
Qed.

Lemma snd_close_profile_Forall (P : R -> Prop) te xs ys :
  Forall P ys -> Forall P (snd (close_profile ROps te xs ys)).
Proof.
  intros H. unfold close_profile. destruct (neqb ROps (last xs te) te); cbn [snd]; auto using Forall_removelast.
Qed.

(* ------------------------------------------------------------------ *)
(* running nu >= 0                                                     *)

Lemma nu_after_nonneg te a p f' :
  ssorted (a :: f') -> Forall (fun x => x <= te) (a :: f') -> 0 <= nu_after ROps te (a :: p) f'.
Proof.
  intros Hs Hb. apply ssorted_cons_inv in Hs as [Hs Hlt].
  inversion Hb as [|? ? Ha Hb']; subst.
  destruct f' as [|y f''].
  - destruct p as [|q p']; cbn [nu_after]; rops; [lra|].
    apply Rle_trans with (te - a); [lra|apply Rmax_l].
  - inversion Hlt; subst. destruct p; cbn [nu_after]; rops; lra.
Qed.

Definition nu_ok (e : R * R * R) : Prop := 0 <= snd (fst e) /\ 0 <= snd e.

Lemma isi_nu_nonneg : forall k te p1 f1 nu1 p2 f2 nu2,
  ssorted f1 -> Forall (fun x => x <= te) f1 ->
  ssorted f2 -> Forall (fun x => x <= te) f2 ->
  0 <= nu1 -> 0 <= nu2 ->
  Forall nu_ok (isi_loop ROps k te p1 f1 nu1 p2 f2 nu2).
Proof.
  induction k as [|k IH]; intros te p1 f1 nu1 p2 f2 nu2 S1 B1 S2 B2 N1 N2; [constructor|].
  cbn [isi_loop].
  destruct f1 as [|a f1'], f2 as [|b f2']; [constructor| | |].
  - pose proof (@nu_after_nonneg te _ p2 _ S2 B2) as Hn.
    apply ssorted_cons_inv in S2 as [S2' _]. inversion B2; subst.
    constructor; [split; cbn [fst snd]; auto|]. apply IH; auto.
  - pose proof (@nu_after_nonneg te _ p1 _ S1 B1) as Hn.
    apply ssorted_cons_inv in S1 as [S1' _]. inversion B1; subst.
    constructor; [split; cbn [fst snd]; auto|]. apply IH; auto.
  - pose proof (@nu_after_nonneg te _ p1 _ S1 B1) as Hn1.
    pose proof (@nu_after_nonneg te _ p2 _ S2 B2) as Hn2.
    pose proof S1 as S1c. pose proof S2 as S2c. pose proof B1 as B1c. pose proof B2 as B2c.
    apply ssorted_cons_inv in S1 as [S1' _]. inversion B1; subst.
    apply ssorted_cons_inv in S2 as [S2' _]. inversion B2; subst.
    destruct (nltb ROps a b); [|destruct (nltb ROps b a)];
      (constructor; [split; cbn [fst snd]; auto|]; apply IH; auto).
Qed.

Lemma isi_init_ok ts te s : valid ts te s ->
  0 <= snd (isi_init ROps ts te s) /\
  ssorted (snd (fst (isi_init ROps ts te s))) /\
  Forall (fun x => x <= te) (snd (fst (isi_init ROps ts te s))) /\
  Forall (fun x => ts < x) (snd (fst (isi_init ROps ts te s))).
Proof.
  intros (Hlt & Hs & Hb).
  assert (Hb' : Forall (fun x => x <= te) s) by (eapply Forall_impl; [|exact Hb]; cbn; intros; lra).
  destruct s as [|x0 r]; cbn [isi_init].
  - cbn [fst snd]. rops. repeat split; auto using ssorted_nil. lra.
  - pose proof Hs as Hs0. apply ssorted_cons_inv in Hs as [Hr Hx0].
    inversion Hb as [|? ? Hx0b Hrb]; subst. inversion Hb' as [|? ? Hx0b' Hrb']; subst.
    cbn [nltb ROps]. destruct (Rltb_spec ts x0) as [H0|H0]; cbn [fst snd].
    + repeat split; auto.
      * destruct r as [|x1 r']; rops; [lra|]. apply Rle_trans with (x0 - ts); [lra|apply Rmax_l].
      * constructor; auto. eapply Forall_impl; [|exact Hx0]. cbn; intros; lra.
    + repeat split; auto.
      * destruct r as [|x1 r']; rops; [lra|]. inversion Hx0; subst. lra.
      * eapply Forall_impl; [|exact Hx0]. cbn; intros; lra.
Qed.

(* ------------------------------------------------------------------ *)
(* 12. range                                                           *)

Lemma isi_profile_range : forall s1 s2 ts te m,
  valid ts te s1 -> valid ts te s2 -> s1 <> [] -> s2 <> [] -> 0 <= m ->
  Forall (fun y => 0 <= y <= 1) (snd (isi_profile_py ROps s1 s2 ts te m)).
Proof.
  intros s1 s2 ts te m V1 V2 _ _ Hm. rewrite isi_profile_py_unfold. unfold isi_prof.
  destruct (@isi_init_ok ts te s1 V1) as (N1 & S1 & B1 & _), (@isi_init_ok ts te s2 V2) as (N2 & S2 & B2 & _).
  apply snd_close_profile_Forall. constructor; [apply isi_ratio_range; auto|].
  apply Forall_map.
  eapply Forall_impl; [|apply isi_nu_nonneg; eauto].
  intros e [H1 H2]. apply isi_ratio_range; auto.
Qed.

(* ------------------------------------------------------------------ *)
(* 13. identical trains                                                *)

Lemma isi_loop_self : forall k te p f nu,
  Forall (fun e => snd (fst e) = snd e) (isi_loop ROps k te p f nu p f nu).
Proof.
  induction k as [|k IH]; intros te p f nu; [constructor|].
  cbn [isi_loop]. destruct f as [|a f']; [constructor|].
  cbn [nltb ROps]. destruct (Rltb_spec a a) as [H|H]; [lra|].
  constructor; [reflexivity|apply IH].
Qed.

Lemma isi_profile_self : forall s ts te m,
  Forall (fun y => y = 0) (snd (isi_profile_py ROps s s ts te m)).
Proof.
  intros. rewrite isi_profile_py_unfold. unfold isi_prof.
  apply snd_close_profile_Forall. constructor; [apply isi_ratio_self|].
  apply Forall_map. eapply Forall_impl; [|apply isi_loop_self].
  intros e He. cbn beta. rewrite He. apply isi_ratio_self.
Qed.

(* ------------------------------------------------------------------ *)
(* 15. well-formedness of the profile                                  *)

Lemma ssorted_cons_lt lo a l : lo < a -> ssorted (a :: l) -> ssorted (lo :: a :: l).
Proof.
  intros Hlo Hs. apply ssorted_cons; auto.
  apply ssorted_cons_inv in Hs as [_ Hl]. constructor; auto.
  eapply Forall_impl; [|exact Hl]. cbn; intros; lra.
Qed.

Lemma Forall_lt_trans a b l : a < b -> Forall (fun y => b < y) l -> Forall (fun y => a < y) l.
Proof. intros H F. eapply Forall_impl; [|exact F]. cbn; intros; lra. Qed.

Lemma isi_loop_sorted : forall k te lo p1 f1 nu1 p2 f2 nu2,
  ssorted f1 -> ssorted f2 ->
  Forall (fun y => lo < y) f1 -> Forall (fun y => lo < y) f2 ->
  ssorted (lo :: map (@ev_t R) (isi_loop ROps k te p1 f1 nu1 p2 f2 nu2)).
Proof.
  induction k as [|k IH]; intros te lo p1 f1 nu1 p2 f2 nu2 S1 S2 L1 L2.
  { cbn. apply ssorted_cons; [apply ssorted_nil|constructor]. }
  cbn [isi_loop].
  destruct f1 as [|a f1'], f2 as [|b f2'].
  - cbn. apply ssorted_cons; [apply ssorted_nil|constructor].
  - cbn [map ev_t fst]. inversion L2; subst. apply ssorted_cons_inv in S2 as [S2' Hb].
    apply ssorted_cons_lt; [assumption|apply IH; auto].
  - cbn [map ev_t fst]. inversion L1; subst. apply ssorted_cons_inv in S1 as [S1' Ha].
    apply ssorted_cons_lt; [assumption|apply IH; auto].
  - inversion L1 as [|? ? La L1']; subst. inversion L2 as [|? ? Lb L2']; subst.
    pose proof S1 as S1c. pose proof S2 as S2c.
    apply ssorted_cons_inv in S1 as [S1' Ha]. apply ssorted_cons_inv in S2 as [S2' Hb].
    cbn [nltb ROps].
    destruct (Rltb_spec a b) as [Hab|Hab]; [|destruct (Rltb_spec b a) as [Hba|Hba]];
      cbn [map ev_t fst]; (apply ssorted_cons_lt; [assumption|apply IH; auto]).
    + constructor; auto. eapply Forall_lt_trans; eauto.
    + constructor; auto. eapply Forall_lt_trans; eauto.
    + assert (a = b) by lra. subst b. auto.
Qed.

Lemma isi_loop_events (P : R -> Prop) : forall k te p1 f1 nu1 p2 f2 nu2,
  Forall P f1 -> Forall P f2 ->
  Forall P (map (@ev_t R) (isi_loop ROps k te p1 f1 nu1 p2 f2 nu2)).
Proof.
  induction k as [|k IH]; intros te p1 f1 nu1 p2 f2 nu2 F1 F2; [constructor|].
  cbn [isi_loop].
  destruct f1 as [|a f1'], f2 as [|b f2']; [constructor| | |].
  - inversion F2; subst. cbn [map ev_t fst]. constructor; auto.
  - inversion F1; subst. cbn [map ev_t fst]. constructor; auto.
  - pose proof F1 as F1c. pose proof F2 as F2c. inversion F1; subst. inversion F2; subst.
    destruct (nltb ROps a b); [|destruct (nltb ROps b a)]; cbn [map ev_t fst]; constructor; auto.
Qed.

Lemma last_nonempty_default {A} (l : list A) d d' : l <> [] -> last l d = last l d'.
Proof.
  induction l as [|a l IH]; intros H; [congruence|].
  destruct l as [|b l']; [reflexivity|]. cbn [last] in *. apply IH. congruence.
Qed.

Lemma last_cons_default {A} (a : A) l d : last (a :: l) d = last l a.
Proof.
  destruct l as [|b l']; [reflexivity|].
  change (last (a :: b :: l') d) with (last (b :: l') d). apply last_nonempty_default. congruence.
Qed.

Lemma ssorted_snoc te xs : ssorted xs -> Forall (fun x => x <= te) xs -> last xs te <> te ->
  ssorted (xs ++ [te]).
Proof.
  induction xs as [|x xs IH]; intros Hs Hb Hl.
  - cbn. apply ssorted_cons; [apply ssorted_nil|constructor].
  - apply ssorted_cons_inv in Hs as [Hs Hx]. inversion Hb as [|? ? Hxb Hb']; subst.
    rewrite last_cons_default in Hl.
    destruct xs as [|y xs'].
    + cbn in *. apply ssorted_cons; [apply ssorted_cons; [apply ssorted_nil|constructor]|].
      constructor; [lra|constructor].
    + cbn [app]. change (ssorted (x :: (y :: xs') ++ [te])). apply ssorted_cons.
      * apply IH; auto. rewrite (last_nonempty_default (y :: xs') te x) by congruence. exact Hl.
      * apply Forall_app. split; auto. constructor; [|constructor].
        inversion Hx; subst. inversion Hb'; subst. lra.
Qed.

Lemma removelast_length {A} (l : list A) : length (removelast l) = pred (length l).
Proof.
  induction l as [|a l IH]; [reflexivity|].
  destruct l as [|b l']; [reflexivity|].
  change (length (a :: removelast (b :: l')) = length (b :: l')). cbn [length]. rewrite IH. reflexivity.
Qed.

(* well-formedness of [close_profile] given a sorted, bounded axis *)
Lemma close_profile_wf ts te (es ys : list R) :
  ssorted (ts :: es) -> Forall (fun x => x <= te) (ts :: es) -> length ys = S (length es) ->
  let p := close_profile ROps te (ts :: es) ys in
  length (fst p) = S (length (snd p)) /\ hd 0 (fst p) = ts /\ last (fst p) 0 = te /\ ssorted (fst p).
Proof.
  intros Hs Hb Hlen. unfold close_profile. cbn [neqb ROps].
  destruct (Reqb_spec (last (ts :: es) te) te) as [E|E]; cbn [fst snd].
  - repeat split; auto.
    + rewrite removelast_length, Hlen. reflexivity.
    + rewrite (last_nonempty_default _ 0 te) by congruence. exact E.
  - repeat split.
    + rewrite app_length, Hlen. cbn [length]. lia.
    + rewrite last_last. reflexivity.
    + apply ssorted_snoc; auto.
Qed.

Lemma isi_profile_wf : forall s1 s2 ts te m,
  valid ts te s1 -> valid ts te s2 -> s1 <> [] -> s2 <> [] ->
  let p := isi_profile_py ROps s1 s2 ts te m in
  length (fst p) = S (length (snd p)) /\ hd 0 (fst p) = ts /\ last (fst p) 0 = te /\ ssorted (fst p).
Proof.
  intros s1 s2 ts te m V1 V2 _ _. rewrite isi_profile_py_unfold. unfold isi_prof.
  destruct (@isi_init_ok ts te s1 V1) as (N1 & S1 & B1 & L1), (@isi_init_ok ts te s2 V2) as (N2 & S2 & B2 & L2).
  apply close_profile_wf.
  - apply isi_loop_sorted; auto.
  - constructor; [destruct V1; lra|]. apply isi_loop_events; auto.
  - cbn [length]. rewrite !map_length. reflexivity.
Qed.

(* ------------------------------------------------------------------ *)
(* 11. MRTS: breakpoints independent, values monotone                  *)

Lemma isi_profile_mrts_zero_eq : forall s1 s2 ts te m m',
  fst (isi_profile_py ROps s1 s2 ts te m) = fst (isi_profile_py ROps s1 s2 ts te m').
Proof.
  intros. rewrite !isi_profile_py_unfold. unfold isi_prof, close_profile.
  destruct (neqb ROps _ te); reflexivity.
Qed.

Lemma isi_profile_mrts_monotone : forall s1 s2 ts te m m',
  valid ts te s1 -> valid ts te s2 -> s1 <> [] -> s2 <> [] -> 0 <= m -> m <= m' ->
  Forall2 (fun y' y => y' <= y) (snd (isi_profile_py ROps s1 s2 ts te m'))
                                (snd (isi_profile_py ROps s1 s2 ts te m)).
Proof.
  intros s1 s2 ts te m m' V1 V2 _ _ Hm Hmm. rewrite !isi_profile_py_unfold. unfold isi_prof.
  destruct (@isi_init_ok ts te s1 V1) as (N1 & S1 & B1 & _), (@isi_init_ok ts te s2 V2) as (N2 & S2 & B2 & _).
  match goal with |- context [isi_loop ROps ?k ?t ?a ?b ?c ?d ?e ?f] =>
    pose proof (@isi_nu_nonneg k t a b c d e f S1 B1 S2 B2 N1 N2) as HN;
    set (L := isi_loop ROps k t a b c d e f) in * end.
  assert (HF : Forall2 (fun y' y => y' <= y)
            (map (fun e => isi_ratio ROps m' (snd (fst e)) (snd e)) L)
            (map (fun e => isi_ratio ROps m (snd (fst e)) (snd e)) L)).
  { clearbody L. induction HN as [|e L' [H1 H2] _ IH]; cbn [map]; constructor; auto.
    apply isi_ratio_mono_m; auto. }
  unfold close_profile. destruct (neqb ROps _ te); cbn [snd].
  - apply Forall2_removelast. constructor; auto. apply isi_ratio_mono_m; auto.
  - constructor; auto. apply isi_ratio_mono_m; auto.
Qed.

(* ------------------------------------------------------------------ *)
(* 16. the single-pass distance is the average of the profile          *)

Lemma isi_distance_cy_unfold s1 s2 ts te m :
  isi_distance_cy ROps s1 s2 ts te m =
  let evs := isi_loop_cy ROps (length s1 + length s2) te
       (fst (fst (isi_init ROps ts te s1))) (snd (fst (isi_init ROps ts te s1))) (snd (isi_init ROps ts te s1))
       (fst (fst (isi_init ROps ts te s2))) (snd (fst (isi_init ROps ts te s2))) (snd (isi_init ROps ts te s2)) in
  let r := isi_acc ROps m evs ts
       (isi_ratio_cy ROps m (snd (isi_init ROps ts te s1)) (snd (isi_init ROps ts te s2))) 0 in
  (if Rltb (fst (fst r)) te then snd r + snd (fst r) * (te - fst (fst r)) else snd r) / (te - ts).
Proof.
  unfold isi_distance_cy, isi_scan_cy.
  destruct (isi_init ROps ts te s1) as [[p1 f1] nu1], (isi_init ROps ts te s2) as [[p2 f2] nu2].
  cbn [fst snd]. cbv zeta.
  destruct (isi_acc ROps m _ ts _ _) as [[lt cur] acc]. reflexivity.
Qed.

Definition cy_val (m : R) (e : R * R * R) : R := isi_ratio_cy ROps m (snd (fst e)) (snd e).

Lemma pwc_int_all_cons2 x0 x1 xs y ys :
  pwc_int_all ROps (x0 :: x1 :: xs) (y :: ys) = (x1 - x0) * y + pwc_int_all ROps (x1 :: xs) ys.
Proof. reflexivity. Qed.

Lemma isi_acc_spec : forall evs m t0 cur acc,
  isi_acc ROps m evs t0 cur acc =
  (last (map (@ev_t R) evs) t0, last (map (cy_val m) evs) cur,
   acc + pwc_int_all ROps (t0 :: map (@ev_t R) evs) (cur :: map (cy_val m) evs)).
Proof.
  induction evs as [|[[t nu1] nu2] r IH]; intros m t0 cur acc.
  - cbn. f_equal. lra.
  - cbn [isi_acc]. rewrite IH. cbn [map]. rewrite !last_cons_default.
    rewrite pwc_int_all_cons2.
    change (cy_val m (t, nu1, nu2)) with (isi_ratio_cy ROps m nu1 nu2).
    change (ev_t (t, nu1, nu2)) with t.
    f_equal. rops. ring.
Qed.

Lemma pwc_int_all_removelast : forall xs ys, length xs = length ys ->
  pwc_int_all ROps xs (removelast ys) = pwc_int_all ROps xs ys.
Proof.
  induction xs as [|x0 xs IH]; intros ys Hlen; [reflexivity|].
  destruct ys as [|y ys]; [reflexivity|].
  destruct xs as [|x1 xs'], ys as [|y1 ys']; try discriminate; [reflexivity|].
  change (removelast (y :: y1 :: ys')) with (y :: removelast (y1 :: ys')).
  rewrite !pwc_int_all_cons2. f_equal. apply IH. cbn [length] in *. lia.
Qed.

Lemma pwc_int_all_snoc : forall xs ys te, length xs = length ys -> xs <> [] ->
  pwc_int_all ROps (xs ++ [te]) ys = pwc_int_all ROps xs ys + (te - last xs 0) * last ys 0.
Proof.
  induction xs as [|x0 xs IH]; intros ys te Hlen Hne; [congruence|].
  destruct ys as [|y ys]; [discriminate|].
  destruct xs as [|x1 xs'], ys as [|y1 ys']; try discriminate.
  - cbn. lra.
  - change ((x0 :: x1 :: xs') ++ [te]) with (x0 :: x1 :: (xs' ++ [te])).
    rewrite !pwc_int_all_cons2. change (x1 :: xs' ++ [te]) with ((x1 :: xs') ++ [te]).
    rewrite IH by (cbn [length] in *; try lia; congruence).
    change (last (x0 :: x1 :: xs') 0) with (last (x1 :: xs') 0).
    change (last (y :: y1 :: ys') 0) with (last (y1 :: ys') 0).
    rops. ring.
Qed.

Lemma Forall_last_P {A} (P : A -> Prop) l d : Forall P l -> P d -> P (last l d).
Proof.
  induction 1 as [|x l Hx Hl IH]; intros Hd; [exact Hd|].
  destruct l as [|y l']; [exact Hx|].
  change (last (x :: y :: l') d) with (last (y :: l') d). apply IH; exact Hd.
Qed.

Lemma isi_distance_cy_avrg : forall s1 s2 ts te m,
  valid ts te s1 -> valid ts te s2 -> s1 <> [] -> s2 <> [] ->
  Ok (isi_distance_cy ROps s1 s2 ts te m) = pwc_avrg ROps (isi_profile_cy ROps s1 s2 ts te m) (@IvNone R).
Proof.
  intros s1 s2 ts te m V1 V2 _ _.
  rewrite isi_distance_cy_unfold, isi_profile_cy_unfold. cbv zeta.
  rewrite isi_loop_cy_eq by apply cy_inv_init.
  destruct (@isi_init_ok ts te s1 V1) as (N1 & S1 & B1 & L1), (@isi_init_ok ts te s2 V2) as (N2 & S2 & B2 & L2).
  match goal with |- context [isi_loop ROps ?k ?t ?a ?b ?c ?d ?e ?f] =>
    pose proof (@isi_loop_events (fun x => x <= te) k t a b c d e f B1 B2) as HB;
    set (L := isi_loop ROps k t a b c d e f) in * end.
  unfold isi_prof.
  set (r0 := isi_ratio_cy ROps m _ _).
  rewrite isi_acc_spec. cbn [fst snd].
  fold (cy_val m).
  set (es := map (@ev_t R) L) in *. set (vs := map (cy_val m) L).
  assert (Hlen : length (ts :: es) = length (r0 :: vs)).
  { unfold es, vs. cbn [length]. rewrite !map_length. reflexivity. }
  assert (Hts : ts < te) by (destruct V1; auto).
  assert (Hlast : last es ts <= te).
  { apply (Forall_last_P (fun x => x <= te)); [exact HB|lra]. }
  unfold pwc_avrg, avrg_gen, pwc_integral, close_profile. cbn [neqb ROps].
  rewrite (last_cons_default ts es te).
  destruct (Reqb_spec (last es ts) te) as [E|E]; cbn [fst snd rmap].
  - rewrite E. destruct (Rltb_spec te te) as [H|H]; [lra|].
    unfold nthF, lastF. cbn [nth]. rewrite last_cons_default, E.
    rewrite pwc_int_all_removelast by exact Hlen. rops. f_equal. f_equal. ring.
  - destruct (Rltb_spec (last es ts) te) as [H|H]; [|lra].
    unfold nthF, lastF. rewrite last_last.
    rewrite pwc_int_all_snoc by (auto; congruence).
    rewrite !last_cons_default. change (nth 0 ((ts :: es) ++ [te]) (n0 ROps)) with ts.
    rops. f_equal. f_equal. ring.
Qed.

(* ------------------------------------------------------------------ *)
(* 9, 10. shift and scale covariance, from one generic transport lemma *)

Section Transform.
  Variables g h : R -> R.
  Hypothesis g_lt : forall a b, Rltb (g a) (g b) = Rltb a b.
  Hypothesis g_sub : forall a b, g b - g a = h (b - a).
  Hypothesis h_max : forall a b, Rmax (h a) (h b) = h (Rmax a b).
  Hypothesis h_0 : h 0 = 0.

  Definition tr3 (e : R * R * R) : R * R * R := (g (fst (fst e)), h (snd (fst e)), h (snd e)).

  Lemma g_inj a b : g a = g b -> a = b.
  Proof.
    intros E. pose proof (g_lt a b) as H1. pose proof (g_lt b a) as H2. rewrite E in H1, H2.
    destruct (Rltb_spec (g b) (g b)) as [H|_]; [lra|].
    symmetry in H1, H2. apply Rltb_false in H1. apply Rltb_false in H2. lra.
  Qed.

  Lemma nu_after_tr te p f :
    nu_after ROps (g te) (map g p) (map g f) = h (nu_after ROps te p f).
  Proof.
    destruct p as [|x p']; [destruct f; cbn; auto|].
    destruct f as [|y f'].
    - destruct p' as [|q p'']; cbn [map nu_after]; rops; [apply g_sub|].
      rewrite !g_sub. apply h_max.
    - destruct p'; cbn [map nu_after]; rops; apply g_sub.
  Qed.

  Lemma isi_loop_tr : forall k te p1 f1 nu1 p2 f2 nu2,
    isi_loop ROps k (g te) (map g p1) (map g f1) (h nu1) (map g p2) (map g f2) (h nu2)
    = map tr3 (isi_loop ROps k te p1 f1 nu1 p2 f2 nu2).
  Proof.
    induction k as [|k IH]; intros te p1 f1 nu1 p2 f2 nu2; [reflexivity|].
    cbn [isi_loop].
    destruct f1 as [|a f1'], f2 as [|b f2']; cbn [map]; try reflexivity.
    - change (g b :: map g p2) with (map g (b :: p2)). rewrite nu_after_tr.
      f_equal. apply (IH te p1 [] nu1 (b :: p2) f2').
    - change (g a :: map g p1) with (map g (a :: p1)). rewrite nu_after_tr.
      f_equal. apply (IH te (a :: p1) f1' _ p2 []).
    - change (g b :: map g p2) with (map g (b :: p2)).
      change (g a :: map g p1) with (map g (a :: p1)).
      change (g b :: map g f2') with (map g (b :: f2')).
      change (g a :: map g f1') with (map g (a :: f1')).
      cbn [nltb ROps]. rewrite !g_lt, !nu_after_tr.
      destruct (Rltb a b); [|destruct (Rltb b a)]; rewrite IH; reflexivity.
  Qed.

  Lemma isi_init_tr ts te s :
    isi_init ROps (g ts) (g te) (map g s) =
    (map g (fst (fst (isi_init ROps ts te s))), map g (snd (fst (isi_init ROps ts te s))),
     h (snd (isi_init ROps ts te s))).
  Proof.
    destruct s as [|x0 r]; cbn [map isi_init].
    - cbn [fst snd map]. rops. rewrite h_0. reflexivity.
    - cbn [nltb ROps]. rewrite g_lt. destruct (Rltb ts x0); cbn [fst snd map].
      + destruct r as [|x1 r']; cbn [map]; rops; rewrite ?g_sub, ?h_max; reflexivity.
      + destruct r as [|x1 r']; cbn [map]; rops; rewrite ?g_sub; reflexivity.
  Qed.

  Lemma last_map_g l d : last (map g l) (g d) = g (last l d).
  Proof.
    induction l as [|a l IH]; [reflexivity|].
    destruct l as [|b l']; [reflexivity|].
    change (last (map g (b :: l')) (g d) = g (last (b :: l') d)). exact IH.
  Qed.

  Lemma isi_profile_tr m m' s1 s2 ts te :
    (forall a b, isi_ratio ROps m' (h a) (h b) = isi_ratio ROps m a b) ->
    isi_profile_py ROps (map g s1) (map g s2) (g ts) (g te) m'
    = (map g (fst (isi_profile_py ROps s1 s2 ts te m)), snd (isi_profile_py ROps s1 s2 ts te m)).
  Proof.
    intros Hr. rewrite !isi_profile_py_unfold. rewrite !isi_init_tr. cbn [fst snd].
    rewrite !map_length, isi_loop_tr. unfold isi_prof.
    match goal with |- context [map tr3 ?l] => set (L := l) end.
    assert (E1 : map (@ev_t R) (map tr3 L) = map g (map (@ev_t R) L)).
    { rewrite !map_map. apply map_ext. intros [[t x] y]. reflexivity. }
    assert (E2 : map (fun e => isi_ratio ROps m' (snd (fst e)) (snd e)) (map tr3 L)
                 = map (fun e => isi_ratio ROps m (snd (fst e)) (snd e)) L).
    { rewrite map_map. apply map_ext. intros [[t x] y]. cbn [tr3 fst snd]. apply Hr. }
    rewrite E1, E2, Hr.
    change (g ts :: map g (map (@ev_t R) L)) with (map g (ts :: map (@ev_t R) L)).
    set (xs := ts :: map (@ev_t R) L). set (ys := _ :: _).
    unfold close_profile. rewrite last_map_g. cbn [neqb ROps].
    destruct (Reqb_spec (g (last xs te)) (g te)) as [E|E], (Reqb_spec (last xs te) te) as [E'|E'];
      cbn [fst snd].
    - reflexivity.
    - apply g_inj in E. contradiction.
    - rewrite E' in E. contradiction.
    - rewrite map_app. reflexivity.
  Qed.
End Transform.

Lemma isi_profile_shift : forall c s1 s2 ts te m,
  isi_profile_py ROps (map (fun x => x + c) s1) (map (fun x => x + c) s2) (ts + c) (te + c) m
  = (map (fun x => x + c) (fst (isi_profile_py ROps s1 s2 ts te m)), snd (isi_profile_py ROps s1 s2 ts te m)).
Proof.
  intros c s1 s2 ts te m.
  apply (@isi_profile_tr (fun x => x + c) (fun x => x)).
  - intros a b. destruct (Rltb_spec (a + c) (b + c)), (Rltb_spec a b); auto; lra.
  - intros; lra.
  - reflexivity.
  - reflexivity.
  - reflexivity.
Qed.

Lemma isi_profile_scale : forall k s1 s2 ts te m, 0 < k ->
  isi_profile_py ROps (map (Rmult k) s1) (map (Rmult k) s2) (k*ts) (k*te) (k*m)
  = (map (Rmult k) (fst (isi_profile_py ROps s1 s2 ts te m)), snd (isi_profile_py ROps s1 s2 ts te m)).
Proof.
  intros k s1 s2 ts te m Hk.
  apply (@isi_profile_tr (Rmult k) (Rmult k)).
  - intros a b. destruct (Rltb_spec (k * a) (k * b)), (Rltb_spec a b); auto; nra.
  - intros; lra.
  - intros. apply RmaxRmult. lra.
  - lra.
  - intros. apply isi_ratio_scale; auto.
Qed.

Print Assumptions isi_profile_sym.
Print Assumptions isi_profile_cy_eq.
Print Assumptions isi_profile_range.
Print Assumptions isi_distance_cy_avrg.
Print Assumptions isi_profile_wf.
Print Assumptions isi_profile_mrts_monotone.
Print Assumptions isi_profile_self.
Print Assumptions isi_profile_shift.
Print Assumptions isi_profile_scale.
