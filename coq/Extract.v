(* Extract.v — extraction of the Q-instance dispatcher to OCaml.
   Only ExtrOcamlBasic is used: bool, option, unit, prod, list, sumbool, sumor
   map to OCaml's; nat, positive, Z, Q stay Coq datatypes.  No Extract Constant. *)
From Coq Require Import Extraction ExtrOcamlBasic.
From PS Require Import Val Dispatch DispatchSpec.
Extraction Language OCaml.
Extraction "model.ml" dispatch_all.
