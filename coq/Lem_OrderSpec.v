(* Lem_OrderSpec.v — C04: the spike-train-order profile and the spike
   directionality values against their declarative specifications
   ([order_spec], [dir_spec]), and the corollaries built on them.
   R instance.  Reuses the scan machinery of Lem_Sync (prefix fs_). *)
From Coq Require Import List Bool Arith ZArith Reals Lra Lia Sorted Permutation.
Import ListNotations.
From PS Require Import Num RLemmas Valid ModelKernels ModelFuncs ModelAPI Spec SyncDefs.
From PS Require Lem_Order Lem_Multi Lem_Tau Lem_Lists.
From PS Require Import Lem_Sync.
Local Open Scope R_scope.

Local Notation ev := (@sev R).
Local Notation entry := (R * R * R)%type.

(* ------------------------------------------------------------------ *)
(* 1. lead_sign: the partner is unique, and it is a neighbour          *)

Lemma os_partner_unique lim m (s : list R) c d d' :
  ssorted s -> In d (contexts s) -> In d' (contexts s) ->
  coinc ROps lim m c d = true -> coinc ROps lim m c d' = true -> d = d'.
Proof.
  intros S H H' A B.
  destruct (Rtotal_order (c_cur d) (c_cur d')) as [L|[E|L]].
  - exfalso. exact (fs_no_two_partners _ _ s c d d' S H H' L A B).
  - exact (fs_ctx_cur_inj s d d' S H H' E).
  - exfalso. exact (fs_no_two_partners _ _ s c d' d S H' H L B A).
Qed.

Lemma os_lead_sign_found lim m (s : list R) c d :
  ssorted s -> In d (contexts s) -> coinc ROps lim m c d = true ->
  lead_sign ROps lim m c (contexts s) = if Rltb (c_cur c) (c_cur d) then 1 else 0 - 1.
Proof.
  intros S H C. unfold lead_sign.
  destruct (find (coinc ROps lim m c) (contexts s)) as [d'|] eqn:F.
  - apply find_some in F as [H' C'].
    rewrite (os_partner_unique lim m s c d' d S H' H C' C). reflexivity.
  - exfalso. pose proof (find_none _ _ F d H) as N. congruence.
Qed.

Lemma os_lead_sign_none lim m c (others : list (@ctx R)) :
  has_partner ROps lim m c others = false -> lead_sign ROps lim m c others = 0.
Proof.
  intros H. unfold lead_sign.
  destruct (find (coinc ROps lim m c) others) as [d|] eqn:F; [|reflexivity].
  apply find_some in F as [H' C']. exfalso. unfold has_partner in H.
  assert (E : existsb (coinc ROps lim m c) others = true)
    by (apply existsb_exists; exists d; split; assumption).
  congruence.
Qed.

(* the value of lead_sign from the two neighbour tests of Lem_Sync *)
Lemma os_lead_sign_near lim m c (s q g : list R) :
  ssorted s -> rev q ++ g = s ->
  (forall y, In y q -> y < c_cur c) -> (forall b, In b g -> c_cur c < b) ->
  lead_sign ROps lim m c (contexts s) =
  if fs_nearP lim m c q g then 0 - 1 else if fs_nearN lim m c q g then 1 else 0.
Proof.
  intros S E Hq Hg.
  destruct (fs_nearP lim m c q g) eqn:NP.
  - destruct q as [|y q']; [discriminate|]. unfold fs_nearP in NP. apply Rltb_true in NP.
    pose proof (Hq y (or_introl eq_refl)) as Ly.
    rewrite (os_lead_sign_found lim m s c (mkCtx (hd_error q') y (hd_error g)) S).
    + cbn [c_cur]. destruct (Rltb_spec (c_cur c) y); [lra | reflexivity].
    + eapply fs_zip_in_ctx; [exact E | reflexivity].
    + apply fs_coinc_true. cbn [c_cur]. split; [lra|].
      rewrite Rabs_right by lra. exact NP.
  - destruct (fs_nearN lim m c q g) eqn:NN.
    + destruct g as [|b g']; [discriminate|]. unfold fs_nearN in NN. apply Rltb_true in NN.
      pose proof (Hg b (or_introl eq_refl)) as Lb.
      rewrite (os_lead_sign_found lim m s c (mkCtx (hd_error q) b (hd_error g')) S).
      * cbn [c_cur]. destruct (Rltb_spec (c_cur c) b); [reflexivity | lra].
      * eapply (fs_zip_in_ctx s (b :: q) g'); [rewrite fs_rev_cons_app; exact E | reflexivity].
      * apply fs_coinc_true. cbn [c_cur]. split; [lra|].
        rewrite Rabs_left1 by lra. lra.
    + apply os_lead_sign_none.
      rewrite (fs_has_partner lim m c s q g S E Hq Hg), NP, NN. reflexivity.
Qed.

(* a spike whose time is shared with the other train has no partner there *)
Lemma os_no_partner_shared lim m c (s : list R) :
  ssorted s -> In (c_cur c) s -> has_partner ROps lim m c (contexts s) = false.
Proof.
  intros S H. unfold has_partner.
  destruct (existsb (coinc ROps lim m c) (contexts s)) eqn:E; [|reflexivity]. exfalso.
  apply existsb_exists in E as (d & Hd & Cd). apply fs_coinc_true in Cd as [Nd Cd].
  destruct (Rlt_dec (c_cur d) (c_cur c)) as [L|L].
  - destruct (fs_NA_next s d (c_cur c) S Hd H L) as (n & Hn & Ln).
    destruct (fs_tau_gt_bound lim m c d L) as [_ B]. unfold fs_gF in B. rewrite Hn in B.
    rewrite Rabs_right in Cd by lra. lra.
  - assert (L' : c_cur c < c_cur d) by lra.
    destruct (fs_NA_prev s d (c_cur c) S Hd H L') as (q & Hq & Lq).
    destruct (fs_tau_lt_bound lim m c d L') as [_ B]. unfold fs_gP in B. rewrite Hq in B.
    rewrite Rabs_left1 in Cd by lra. lra.
Qed.

Lemma os_lead_sign_shared lim m c (s : list R) :
  ssorted s -> In (c_cur c) s -> lead_sign ROps lim m c (contexts s) = 0.
Proof. intros S H. apply os_lead_sign_none. apply os_no_partner_shared; assumption. Qed.

(* ------------------------------------------------------------------ *)
(* 2. look-ahead form of the look-back writes (any clean event list)   *)

Definition os_hdset (evs : list ev) (acc : list entry) : list entry :=
  match evs with
  | Adv1 _ true :: _ => set_head_val (0 - 1) acc
  | Adv2 _ true :: _ => set_head_val 1 acc
  | _ => acc
  end.

Fixpoint os_entries (evs : list ev) : list entry :=
  match evs with
  | [] => []
  | Adv1 t h :: r =>
      (t, if h then 0 - 1 else if fs_next_hit r then 1 else 0, n1 ROps) :: os_entries r
  | Adv2 t h :: r =>
      (t, if h then 1 else if fs_next_hit r then 0 - 1 else 0, n1 ROps) :: os_entries r
  | Both t :: r => (t, 0, n2 ROps) :: os_entries r
  end.

Lemma os_mark_la : forall (evs : list ev) prev acc, clean_from prev evs = true ->
  mark_events ROps (0 - 1) 1 0 evs acc = rev (os_hdset evs acc) ++ os_entries evs.
Proof.
  induction evs as [|e r IH]; intros prev acc C.
  - cbn. rewrite app_nil_r. reflexivity.
  - cbn [clean_from] in C. apply andb_true_iff in C as [_ C].
    destruct e as [t [|]|t [|]|t]; cbn [mark_events os_entries os_hdset];
      rewrite (IH _ _ C);
      destruct r as [|[u [|]|u [|]|u] r']; cbn [clean_from andb] in C; try discriminate C;
      cbn [os_hdset fs_next_hit set_head_val rev]; rewrite <- ?app_assoc; reflexivity.
Qed.

(* directionality lists *)
Definition os_hd1 (evs : list ev) (a1 : list R) : list R :=
  match evs with Adv2 _ true :: _ => set_head 1 a1 | _ => a1 end.
Definition os_hd2 (evs : list ev) (a2 : list R) : list R :=
  match evs with Adv1 _ true :: _ => set_head 1 a2 | _ => a2 end.

Fixpoint os_proj1 (evs : list ev) : list R :=
  match evs with
  | [] => []
  | Adv1 _ h :: r => (if h then 0 - 1 else if fs_next_hit r then 1 else 0) :: os_proj1 r
  | Adv2 _ _ :: r => os_proj1 r
  | Both _ :: r => 0 :: os_proj1 r
  end.
Fixpoint os_proj2 (evs : list ev) : list R :=
  match evs with
  | [] => []
  | Adv1 _ _ :: r => os_proj2 r
  | Adv2 _ h :: r => (if h then 0 - 1 else if fs_next_hit r then 1 else 0) :: os_proj2 r
  | Both _ :: r => 0 :: os_proj2 r
  end.

Lemma os_dir_la : forall (evs : list ev) prev a1 a2, clean_from prev evs = true ->
  dir_marks ROps evs a1 a2
  = (rev (os_hd1 evs a1) ++ os_proj1 evs, rev (os_hd2 evs a2) ++ os_proj2 evs).
Proof.
  induction evs as [|e r IH]; intros prev a1 a2 C.
  - cbn. rewrite !app_nil_r. reflexivity.
  - cbn [clean_from] in C. apply andb_true_iff in C as [_ C].
    destruct e as [t [|]|t [|]|t]; cbn [dir_marks os_proj1 os_proj2 os_hd1 os_hd2];
      rewrite (IH _ _ _ C);
      destruct r as [|[u [|]|u [|]|u] r']; cbn [clean_from andb] in C; try discriminate C;
      cbn [os_hd1 os_hd2 fs_next_hit set_head rev]; rewrite <- ?app_assoc; reflexivity.
Qed.

(* ------------------------------------------------------------------ *)
(* 3. the merged scan                                                  *)

Section OScan.
  Variables (lim m : R) (s1 s2 : list R).
  Hypothesis S1 : ssorted s1.
  Hypothesis S2 : ssorted s2.

  Definition os_G (t : R) : entry :=
    match find (fun c => neqb ROps (c_cur c) t) (contexts s1),
          find (fun c => neqb ROps (c_cur c) t) (contexts s2) with
    | Some _, Some _ => (t, n0 ROps, n2 ROps)
    | Some c, None => (t, lead_sign ROps lim m c (contexts s2), n1 ROps)
    | None, Some c => (t, nsub ROps (n0 ROps) (lead_sign ROps lim m c (contexts s1)), n1 ROps)
    | None, None => (t, n0 ROps, n1 ROps)
    end.

  Lemma os_val1 p1 a f1' p2 f2 :
    fs_inv s1 s2 p1 (a :: f1') p2 f2 -> fs_lt_hd a f2 ->
    lead_sign ROps lim m (mkCtx (hd_error p1) a (hd_error f1')) (contexts s2)
    = if fs_hit1 lim m p1 a f1' p2 f2 then 0 - 1
      else if fs_nh lim m (a :: p1) f1' p2 f2 then 1 else 0.
  Proof.
    intros I L. pose proof (fs_inv_adv1 s1 s2 S1 _ _ _ _ _ I L) as I'.
    pose proof (fs_inv_hd21 _ _ _ _ _ _ _ I) as Lp.
    rewrite (os_lead_sign_near lim m _ s2 p2 f2 S2 (fi_2 _ _ _ _ _ _ I)).
    - rewrite fs_hit1_nearP, (fs_nh_nearN1 lim m s1 s2 S1) by assumption. reflexivity.
    - cbn [c_cur]. apply (fs_all_p p2 f2); [exact (fs_inv_S2 s1 s2 S2 _ _ _ _ I) | exact Lp].
    - cbn [c_cur]. apply (fs_all_f p2 f2); [exact (fs_inv_S2 s1 s2 S2 _ _ _ _ I) | exact L].
  Qed.

  Lemma os_val2 p1 f1 p2 b f2' :
    fs_inv s1 s2 p1 f1 p2 (b :: f2') -> fs_lt_hd b f1 ->
    lead_sign ROps lim m (mkCtx (hd_error p2) b (hd_error f2')) (contexts s1)
    = if fs_hit2 lim m p1 f1 p2 b f2' then 0 - 1
      else if fs_nh lim m p1 f1 (b :: p2) f2' then 1 else 0.
  Proof.
    intros I L. pose proof (fs_inv_adv2 s1 s2 S2 _ _ _ _ _ I L) as I'.
    pose proof (fs_inv_hd12 _ _ _ _ _ _ _ I) as Lp.
    rewrite (os_lead_sign_near lim m _ s1 p1 f1 S1 (fi_1 _ _ _ _ _ _ I)).
    - rewrite (fs_hit2_nearP lim m s1 s2 _ _ _ _ _ I), (fs_nh_nearN2 lim m s1 s2 S2) by assumption.
      reflexivity.
    - cbn [c_cur]. apply (fs_all_p p1 f1); [exact (fs_inv_S1 s1 s2 S1 _ _ _ _ I) | exact Lp].
    - cbn [c_cur]. apply (fs_all_f p1 f1); [exact (fs_inv_S1 s1 s2 S1 _ _ _ _ I) | exact L].
  Qed.

  Lemma os_values_gen k p1 f1 p2 f2 :
    fs_inv s1 s2 p1 f1 p2 f2 -> (length f1 + length f2 <= k)%nat ->
    fs_next_hit (coinc_events ROps (fs_tau lim m) k p1 f1 p2 f2) = fs_nh lim m p1 f1 p2 f2 /\
    os_entries (coinc_events ROps (fs_tau lim m) k p1 f1 p2 f2)
    = map os_G (map fs_ev_t (coinc_events ROps (fs_tau lim m) k p1 f1 p2 f2)).
  Proof.
    apply (fs_scan_ind lim m s1 s2 S1 S2 (fun p1 f1 p2 f2 evs =>
      fs_next_hit evs = fs_nh lim m p1 f1 p2 f2 /\ os_entries evs = map os_G (map fs_ev_t evs))).
    - intros; split; reflexivity.
    - intros q1 a g1 q2 g2 r I L I' [IH1 IH2]. split.
      + rewrite fs_nh_adv1 by exact L. cbn [fs_next_hit].
        destruct (fs_hit1 lim m q1 a g1 q2 g2); reflexivity.
      + cbn [os_entries map fs_ev_t]. rewrite IH1, IH2. f_equal.
        unfold os_G. rewrite (fs_find1 s1 s2 S1 _ _ _ _ _ I').
        unfold contexts at 1. rewrite (fs_find_none a s2 None (fs_notin2 s1 s2 S2 _ _ _ _ _ I L)).
        rewrite (os_val1 _ _ _ _ _ I L). reflexivity.
    - intros q1 g1 q2 b g2 r I L I' [IH1 IH2]. split.
      + rewrite fs_nh_adv2 by exact L. cbn [fs_next_hit].
        destruct (fs_hit2 lim m q1 g1 q2 b g2); reflexivity.
      + cbn [os_entries map fs_ev_t]. rewrite IH1, IH2. f_equal.
        unfold os_G. rewrite (fs_find2 s1 s2 S2 _ _ _ _ _ I').
        unfold contexts at 1. rewrite (fs_find_none b s1 None (fs_notin1 s1 s2 S1 _ _ _ _ _ I L)).
        rewrite (os_val2 _ _ _ _ _ I L).
        destruct (fs_hit2 lim m q1 g1 q2 b g2); [|destruct (fs_nh lim m q1 g1 (b :: q2) g2)];
          (f_equal; f_equal; cbn [nsub n0 ROps]; lra).
    - intros q1 a g1 q2 g2 r I I' [IH1 IH2]. split.
      + rewrite fs_nh_both. reflexivity.
      + cbn [os_entries map fs_ev_t]. rewrite IH2. f_equal.
        unfold os_G. rewrite (fs_find1 s1 s2 S1 _ _ _ _ _ I'), (fs_find2 s1 s2 S2 _ _ _ _ _ I').
        reflexivity.
  Qed.

  Definition os_ls1 (c : @ctx R) : R := lead_sign ROps lim m c (contexts s2).
  Definition os_ls2 (c : @ctx R) : R := lead_sign ROps lim m c (contexts s1).

  Lemma os_proj_gen k p1 f1 p2 f2 :
    fs_inv s1 s2 p1 f1 p2 f2 -> (length f1 + length f2 <= k)%nat ->
    fs_next_hit (coinc_events ROps (fs_tau lim m) k p1 f1 p2 f2) = fs_nh lim m p1 f1 p2 f2 /\
    os_proj1 (coinc_events ROps (fs_tau lim m) k p1 f1 p2 f2)
      = map os_ls1 (contexts_from (hd_error p1) f1) /\
    os_proj2 (coinc_events ROps (fs_tau lim m) k p1 f1 p2 f2)
      = map os_ls2 (contexts_from (hd_error p2) f2).
  Proof.
    apply (fs_scan_ind lim m s1 s2 S1 S2 (fun p1 f1 p2 f2 evs =>
      fs_next_hit evs = fs_nh lim m p1 f1 p2 f2 /\
      os_proj1 evs = map os_ls1 (contexts_from (hd_error p1) f1) /\
      os_proj2 evs = map os_ls2 (contexts_from (hd_error p2) f2))).
    - intros; repeat split; reflexivity.
    - intros q1 a g1 q2 g2 r I L I' (IH1 & IH2 & IH3). split; [|split].
      + rewrite fs_nh_adv1 by exact L. cbn [fs_next_hit].
        destruct (fs_hit1 lim m q1 a g1 q2 g2); reflexivity.
      + cbn [os_proj1 contexts_from map]. rewrite IH1, IH2. f_equal.
        unfold os_ls1. rewrite (os_val1 _ _ _ _ _ I L). reflexivity.
      + cbn [os_proj2]. exact IH3.
    - intros q1 g1 q2 b g2 r I L I' (IH1 & IH2 & IH3). split; [|split].
      + rewrite fs_nh_adv2 by exact L. cbn [fs_next_hit].
        destruct (fs_hit2 lim m q1 g1 q2 b g2); reflexivity.
      + cbn [os_proj1]. exact IH2.
      + cbn [os_proj2 contexts_from map]. rewrite IH1, IH3. f_equal.
        unfold os_ls2. rewrite (os_val2 _ _ _ _ _ I L). reflexivity.
    - intros q1 a g1 q2 g2 r I I' (IH1 & IH2 & IH3). split; [|split].
      + rewrite fs_nh_both. reflexivity.
      + cbn [os_proj1 contexts_from map]. rewrite IH2. f_equal.
        unfold os_ls1. symmetry. apply os_lead_sign_shared; [exact S2|].
        cbn [c_cur]. rewrite <- (fi_2 _ _ _ _ _ _ I). apply in_or_app. right. left. reflexivity.
      + cbn [os_proj2 contexts_from map]. rewrite IH3. f_equal.
        unfold os_ls2. symmetry. apply os_lead_sign_shared; [exact S1|].
        cbn [c_cur]. rewrite <- (fi_1 _ _ _ _ _ _ I). apply in_or_app. right. left. reflexivity.
  Qed.

End OScan.

(* ------------------------------------------------------------------ *)
(* 4. MAIN 1, MAIN 2                                                   *)

Theorem order_profile_spec : forall s1 s2 ts te mt m, valid ts te s1 -> valid ts te s2 ->
  order_profile_gen ROps (get_tau ROps) s1 s2 ts te mt m = order_spec ROps s1 s2 ts te mt m.
Proof.
  intros s1 s2 ts te mt m (_ & S1 & _) (_ & S2 & _).
  unfold order_profile_gen, order_spec.
  change (tau_fn ROps (get_tau ROps) ts te mt m) with (fs_tau (lim_of ROps ts te mt) m).
  set (lim := lim_of ROps ts te mt).
  change (mark_events ROps (nsub ROps (n0 ROps) (n1 ROps)) (n1 ROps) (n0 ROps))
    with (mark_events ROps (0 - 1) 1 0).
  rewrite (os_mark_la _ None [] (fs_scan_clean lim m s1 s2 S1 S2)).
  assert (E : os_hdset (coinc_scan ROps (fs_tau lim m) s1 s2) [] = @nil entry).
  { unfold os_hdset. destruct (coinc_scan ROps (fs_tau lim m) s1 s2) as [|[u [|]|u [|]|u] r];
      reflexivity. }
  rewrite E. cbn [rev app].
  destruct (os_values_gen lim m s1 s2 S1 S2 (length s1 + length s2) [] s1 [] s2
              (fs_inv_init s1 s2) (le_n _)) as [_ V].
  fold (coinc_scan ROps (fs_tau lim m) s1 s2) in V. rewrite V.
  rewrite (fs_scan_times lim m s1 s2 S1 S2).
  reflexivity.
Qed.

Theorem dir_profile_spec : forall s1 s2 ts te mt m, valid ts te s1 -> valid ts te s2 ->
  directionality_profile_gen ROps (get_tau ROps) s1 s2 ts te mt m = dir_spec ROps s1 s2 ts te mt m.
Proof.
  intros s1 s2 ts te mt m (_ & S1 & _) (_ & S2 & _).
  unfold directionality_profile_gen, dir_spec.
  change (tau_fn ROps (get_tau ROps) ts te mt m) with (fs_tau (lim_of ROps ts te mt) m).
  set (lim := lim_of ROps ts te mt).
  rewrite (os_dir_la _ None [] [] (fs_scan_clean lim m s1 s2 S1 S2)).
  assert (E1 : os_hd1 (coinc_scan ROps (fs_tau lim m) s1 s2) [] = @nil R).
  { unfold os_hd1. destruct (coinc_scan ROps (fs_tau lim m) s1 s2) as [|[u [|]|u [|]|u] r];
      reflexivity. }
  assert (E2 : os_hd2 (coinc_scan ROps (fs_tau lim m) s1 s2) [] = @nil R).
  { unfold os_hd2. destruct (coinc_scan ROps (fs_tau lim m) s1 s2) as [|[u [|]|u [|]|u] r];
      reflexivity. }
  rewrite E1, E2. cbn [rev app].
  destruct (os_proj_gen lim m s1 s2 S1 S2 (length s1 + length s2) [] s1 [] s2
              (fs_inv_init s1 s2) (le_n _)) as (_ & P1 & P2).
  fold (coinc_scan ROps (fs_tau lim m) s1 s2) in P1, P2. rewrite P1, P2.
  reflexivity.
Qed.

(* ------------------------------------------------------------------ *)
(* 5. corollaries (C04)                                                *)

(* the interior of the order profile in look-ahead form *)
Lemma os_order_interior s1 s2 ts te mt m : valid ts te s1 -> valid ts te s2 ->
  interior_entries (order_profile_gen ROps (get_tau ROps) s1 s2 ts te mt m)
  = os_entries (coinc_scan ROps (tau_fn ROps (get_tau ROps) ts te mt m) s1 s2).
Proof.
  intros V1 V2. pose proof (scan_clean s1 s2 ts te mt m V1 V2) as C.
  unfold order_profile_gen. rewrite fs_interior.
  set (evs := coinc_scan ROps (tau_fn ROps (get_tau ROps) ts te mt m) s1 s2) in *.
  change (mark_events ROps (nsub ROps (n0 ROps) (n1 ROps)) (n1 ROps) (n0 ROps))
    with (mark_events ROps (0 - 1) 1 0).
  rewrite (os_mark_la evs None [] C).
  assert (E : os_hdset evs [] = @nil entry)
    by (unfold os_hdset; destruct evs as [|[u [|]|u [|]|u] r]; reflexivity).
  rewrite E. reflexivity.
Qed.

(* 7. the single-pass order value is the sum over the profile *)
Theorem order_value_is_profile_sum : forall s1 s2 ts te mt m, valid ts te s1 -> valid ts te s2 ->
  order_value ROps (coinc_scan ROps (tau_fn ROps (get_tau ROps) ts te mt m) s1 s2) 0 0
  = (sumF ROps (map (@e_y R)
       (interior_entries (order_profile_gen ROps (get_tau ROps) s1 s2 ts te mt m))),
     sumF ROps (map (@e_mp R)
       (interior_entries (order_profile_gen ROps (get_tau ROps) s1 s2 ts te mt m)))).
Proof.
  intros s1 s2 ts te mt m V1 V2. unfold order_profile_gen. rewrite fs_interior.
  apply Lem_Order.order_value_fusion. apply scan_clean; assumption.
Qed.

(* the scan only depends on the window function pointwise: cy = true *)
Lemma os_coinc_events_ext (tau tau' : option (@ctx R) -> option (@ctx R) -> R) :
  (forall c1 c2, tau c1 c2 = tau' c1 c2) ->
  forall k p1 f1 p2 f2,
    coinc_events ROps tau k p1 f1 p2 f2 = coinc_events ROps tau' k p1 f1 p2 f2.
Proof.
  intros H. induction k as [|k IH]; intros p1 f1 p2 f2; [reflexivity|].
  destruct f1 as [|a f1'], f2 as [|b f2']; cbn [coinc_events]; rewrite ?H, ?IH; reflexivity.
Qed.

Lemma os_scan_cy cy ts te mt m (s1 s2 : list R) :
  coinc_scan ROps (tau_fn ROps (gt_of ROps cy) ts te mt m) s1 s2
  = coinc_scan ROps (tau_fn ROps (get_tau ROps) ts te mt m) s1 s2.
Proof.
  destruct cy; [|reflexivity]. unfold coinc_scan. apply os_coinc_events_ext.
  intros c1 c2. unfold tau_fn, gt_of. apply Lem_Tau.get_tau_cy_eq.
Qed.

(* the un-normalised directionality D(a, b) *)
Definition os_D (mt m : R) (a b : @train R) : R :=
  sumF ROps (fst (directionality_profile_gen ROps (get_tau ROps) (tr_spikes a) (tr_spikes b)
                                             (tr_start a) (tr_end a) mt m)).

Lemma os_spike_directionality_value eps cy mt m (a b : @train R) :
  valid (tr_start a) (tr_end a) (tr_spikes a) -> valid (tr_start a) (tr_end a) (tr_spikes b) ->
  spike_directionality ROps eps cy false false mt m a b = Ok (os_D mt m a b).
Proof.
  intros Va Vb. unfold spike_directionality, prep2, os_D. cbv iota beta zeta.
  destruct cy.
  - rewrite os_scan_cy. rewrite Lem_Order.dir_value_fusion by (apply scan_clean; assumption).
    reflexivity.
  - reflexivity.
Qed.

Lemma os_D_antisym mt m ts te (s1 s2 : list R) : valid ts te s1 -> valid ts te s2 ->
  os_D mt m (s2, ts, te) (s1, ts, te) = - os_D mt m (s1, ts, te) (s2, ts, te).
Proof.
  intros V1 V2. unfold os_D, tr_spikes, tr_start, tr_end. cbn [fst snd].
  pose proof (Lem_Order.dir_antisym s1 s2 ts te mt m (proj1 (proj2 V1)) (proj1 (proj2 V2))
                (scan_clean s1 s2 ts te mt m V1 V2)) as E.
  lra.
Qed.

(* 5. D(A,B) = -D(B,A) *)
Theorem directionality_bi_antisym : forall eps cy mt m (a b : @train R) d,
  valid (tr_start a) (tr_end a) (tr_spikes a) -> valid (tr_start a) (tr_end a) (tr_spikes b) ->
  tr_start b = tr_start a -> tr_end b = tr_end a ->
  spike_directionality ROps eps cy false false mt m a b = Ok d ->
  spike_directionality ROps eps cy false false mt m b a = Ok (- d).
Proof.
  intros eps cy mt m [[s1 ts] te] [[s2 ts'] te'] d Va Vb Es Ee H.
  unfold tr_spikes, tr_start, tr_end in Va, Vb, Es, Ee. cbn [fst snd] in Va, Vb, Es, Ee.
  subst ts' te'.
  rewrite os_spike_directionality_value in H by assumption. inversion H; subst d.
  rewrite os_spike_directionality_value by assumption.
  f_equal. apply os_D_antisym; assumption.
Qed.

(* 6. D(A,A) = 0 *)
Theorem directionality_self_zero : forall eps cy mt m (a : @train R),
  valid (tr_start a) (tr_end a) (tr_spikes a) ->
  spike_directionality ROps eps cy false false mt m a a = Ok 0.
Proof.
  intros eps cy mt m [[s ts] te] V.
  unfold tr_spikes, tr_start, tr_end in V. cbn [fst snd] in V.
  rewrite os_spike_directionality_value by assumption. f_equal.
  pose proof (os_D_antisym mt m ts te s s V V) as E. lra.
Qed.

(* 3. values of the order profile *)
Definition os_pm1 (e : entry) : Prop :=
  (e_mp e = 1 /\ (e_y e = -1 \/ e_y e = 0 \/ e_y e = 1)) \/ (e_mp e = 2 /\ e_y e = 0).

Lemma os_entries_pm1 : forall evs : list ev, Forall os_pm1 (os_entries evs).
Proof.
  induction evs as [|e r IH]; [constructor|].
  destruct e as [t [|]|t [|]|t]; cbn [os_entries]; constructor; try exact IH;
    unfold os_pm1, e_mp, e_y; cbn [fst snd n1 ROps]; rewrite ?R_n2;
    try (destruct (fs_next_hit r)); lra.
Qed.

Theorem order_values_pm1 : forall s1 s2 ts te mt m, valid ts te s1 -> valid ts te s2 ->
  Forall (fun e => (e_mp e = 1 /\ (e_y e = -1 \/ e_y e = 0 \/ e_y e = 1))
                   \/ (e_mp e = 2 /\ e_y e = 0))
         (interior_entries (order_profile_gen ROps (get_tau ROps) s1 s2 ts te mt m)).
Proof.
  intros s1 s2 ts te mt m V1 V2. rewrite os_order_interior by assumption.
  apply os_entries_pm1.
Qed.

(* 4. the two spikes of a coincident pair get opposite directionality values *)
Theorem dir_opposite : forall s1 s2 ts te mt m c d, valid ts te s1 -> valid ts te s2 ->
  In c (contexts s1) -> In d (contexts s2) ->
  coinc ROps (lim_of ROps ts te mt) m c d = true ->
  c_cur c <> c_cur d /\
  lead_sign ROps (lim_of ROps ts te mt) m c (contexts s2)
    = (if Rltb (c_cur c) (c_cur d) then 1 else -1) /\
  lead_sign ROps (lim_of ROps ts te mt) m d (contexts s1)
    = (if Rltb (c_cur c) (c_cur d) then -1 else 1) /\
  lead_sign ROps (lim_of ROps ts te mt) m c (contexts s2)
    = - lead_sign ROps (lim_of ROps ts te mt) m d (contexts s1).
Proof.
  intros s1 s2 ts te mt m c d (_ & S1 & _) (_ & S2 & _) Hc Hd C.
  set (lim := lim_of ROps ts te mt) in *.
  pose proof C as C'. rewrite Lem_Tau.coinc_sym in C'.
  pose proof (proj1 (fs_coinc_true lim m c d) C) as [N _].
  rewrite (os_lead_sign_found lim m s2 c d S2 Hd C).
  rewrite (os_lead_sign_found lim m s1 d c S1 Hc C').
  split; [exact N|].
  destruct (Rltb_spec (c_cur c) (c_cur d)) as [L|L];
    destruct (Rltb_spec (c_cur d) (c_cur c)) as [G|G]; try lra;
    repeat split; lra.
Qed.

(* both entries of a coincident pair carry the same order value: +1 when the
   spike of train 1 comes first, -1 when it comes second *)
Corollary order_pair_same_value : forall s1 s2 ts te mt m c d, valid ts te s1 -> valid ts te s2 ->
  In c (contexts s1) -> In d (contexts s2) ->
  coinc ROps (lim_of ROps ts te mt) m c d = true ->
  lead_sign ROps (lim_of ROps ts te mt) m c (contexts s2)
    = (if Rltb (c_cur c) (c_cur d) then 1 else -1) /\
  0 - lead_sign ROps (lim_of ROps ts te mt) m d (contexts s1)
    = (if Rltb (c_cur c) (c_cur d) then 1 else -1).
Proof.
  intros s1 s2 ts te mt m c d V1 V2 Hc Hd C.
  destruct (dir_opposite s1 s2 ts te mt m c d V1 V2 Hc Hd C) as (_ & A & B & _).
  split; [exact A|]. rewrite B. destruct (Rltb (c_cur c) (c_cur d)); lra.
Qed.

(* ------------------------------------------------------------------ *)
(* 6. the synfire relation: pooled order value and pair directionalities *)

Lemma os_ov_dv : forall (evs : list ev) c mp d,
  order_value ROps evs c mp = (c + 2 * (dir_value ROps evs d - d), mp + fs_mp evs).
Proof.
  induction evs as [|e r IH]; intros c mp d.
  - cbn [order_value dir_value fs_mp]. f_equal; lra.
  - destruct e as [t [|]|t [|]|t]; cbn [order_value dir_value fs_mp].
    + rewrite (IH _ _ (nsub ROps d (n1 ROps))). rops. f_equal; lra.
    + rewrite (IH _ _ d). rops. f_equal; lra.
    + rewrite (IH _ _ (nadd ROps d (n1 ROps))). rops. f_equal; lra.
    + rewrite (IH _ _ d). rops. f_equal; lra.
    + rewrite (IH _ _ d). rops. f_equal; lra.
Qed.

Lemma os_mp_gen lim m (s1 s2 : list R) : ssorted s1 -> ssorted s2 ->
  forall k p1 f1 p2 f2, fs_inv s1 s2 p1 f1 p2 f2 -> (length f1 + length f2 <= k)%nat ->
  fs_mp (coinc_events ROps (fs_tau lim m) k p1 f1 p2 f2) = INR (length f1) + INR (length f2).
Proof.
  intros S1 S2.
  apply (fs_scan_ind lim m s1 s2 S1 S2 (fun p1 f1 p2 f2 evs =>
    fs_mp evs = INR (length f1) + INR (length f2))).
  - intros. cbn. lra.
  - intros q1 a g1 q2 g2 r I L I' IH. cbn [fs_mp length]. rewrite IH, S_INR. lra.
  - intros q1 g1 q2 b g2 r I L I' IH. cbn [fs_mp length]. rewrite IH, S_INR. lra.
  - intros q1 a g1 q2 g2 r I I' IH. cbn [fs_mp length]. rewrite IH, !S_INR. lra.
Qed.

(* one pair: c = 2 D, mp = n1 + n2 (a shared time is one entry of multiplicity 2) *)
Lemma os_order_value_scan s1 s2 ts te mt m : valid ts te s1 -> valid ts te s2 ->
  order_value ROps (coinc_scan ROps (tau_fn ROps (get_tau ROps) ts te mt m) s1 s2) 0 0
  = (2 * sumF ROps (fst (directionality_profile_gen ROps (get_tau ROps) s1 s2 ts te mt m)),
     INR (length s1) + INR (length s2)).
Proof.
  intros V1 V2. pose proof (scan_clean s1 s2 ts te mt m V1 V2) as C.
  rewrite (os_ov_dv _ _ _ 0). rewrite (Lem_Order.dir_value_fusion _ C).
  unfold directionality_profile_gen.
  destruct V1 as (_ & S1 & _), V2 as (_ & S2 & _).
  assert (M : fs_mp (coinc_scan ROps (tau_fn ROps (get_tau ROps) ts te mt m) s1 s2)
              = INR (length s1) + INR (length s2)).
  { change (tau_fn ROps (get_tau ROps) ts te mt m) with (fs_tau (lim_of ROps ts te mt) m).
    unfold coinc_scan.
    apply (os_mp_gen _ m s1 s2 S1 S2 _ [] s1 [] s2 (fs_inv_init s1 s2) (le_n _)). }
  rewrite M. f_equal; lra.
Qed.

Lemma os_df_integral_none (p : list entry) :
  df_integral ROps p (@IvNone R)
  = Ok (sumF ROps (map (@e_y R) (interior_entries p)), sumF ROps (map (@e_mp R) (interior_entries p))).
Proof. reflexivity. Qed.

(* _spike_train_order_impl on two valid trains of a common interval; the
   Python path (cy = false) reconciles first, which needs eps > 0 *)
Lemma os_order_impl_value eps cy mt m ts te (s1 s2 : list R) :
  (cy = false -> 0 < eps) -> valid ts te s1 -> valid ts te s2 ->
  order_impl ROps eps cy mt m (s1, ts, te) (s2, ts, te)
  = Ok (2 * os_D mt m (s1, ts, te) (s2, ts, te), INR (length s1) + INR (length s2)).
Proof.
  intros He V1 V2. unfold os_D, order_impl. destruct cy.
  - rewrite os_scan_cy. unfold tr_spikes, tr_start, tr_end. cbn [fst snd n0 ROps].
    rewrite (os_order_value_scan s1 s2 ts te mt m V1 V2). reflexivity.
  - specialize (He eq_refl). unfold order_profile_bi, prep2.
    rewrite (Lem_Lists.reconcile_valid_id eps _ ts te He (proj1 V1)).
    + unfold tr_spikes, tr_start, tr_end. cbn [fst snd neqb ROps].
      replace (Reqb ts ts) with true by (symmetry; apply Reqb_true; reflexivity).
      replace (Reqb te te) with true by (symmetry; apply Reqb_true; reflexivity).
      cbn [negb orb rbind]. rewrite os_df_integral_none.
      change (gt_of ROps false) with (get_tau ROps).
      rewrite <- (order_value_is_profile_sum s1 s2 ts te mt m V1 V2).
      rewrite (os_order_value_scan s1 s2 ts te mt m V1 V2). reflexivity.
    + constructor; [|constructor; [|constructor]]; (split; [assumption | split; reflexivity]).
Qed.

(* sums over pairs *)
Lemma os_sumF_scale {A} (k : R) (g : A -> R) l :
  sumF ROps (map (fun x => k * g x) l) = k * sumF ROps (map g l).
Proof.
  induction l as [|x l IH]; cbn [map]; rewrite ?Lem_Order.sumF_cons, ?Lem_Order.sumF_nil; [lra|].
  rewrite IH. lra.
Qed.
Lemma os_sumF_shift {A} (c : R) (g : A -> R) l :
  sumF ROps (map (fun x => c + g x) l) = INR (length l) * c + sumF ROps (map g l).
Proof.
  induction l as [|x l IH]; cbn [map length]; rewrite ?Lem_Order.sumF_cons, ?Lem_Order.sumF_nil.
  - cbn [INR]. lra.
  - rewrite IH, S_INR. lra.
Qed.
Lemma os_sumF_ext {A} (g h : A -> R) l : (forall x, In x l -> g x = h x) ->
  sumF ROps (map g l) = sumF ROps (map h l).
Proof. intros H. f_equal. apply map_ext_in. exact H. Qed.

Lemma os_psum_ext {T} (v w : T -> T -> R) l :
  (forall a b, In a l -> In b l -> v a b = w a b) -> Lem_Multi.psum v l = Lem_Multi.psum w l.
Proof.
  induction l as [|a r IH]; intros H; cbn [Lem_Multi.psum]; [reflexivity|].
  rewrite IH by (intros x y Hx Hy; apply H; right; assumption).
  f_equal. apply os_sumF_ext. intros b Hb. apply H; [left; reflexivity | right; exact Hb].
Qed.
Lemma os_psum_scale {T} (k : R) (v : T -> T -> R) l :
  Lem_Multi.psum (fun a b => k * v a b) l = k * Lem_Multi.psum v l.
Proof.
  induction l as [|a r IH]; cbn [Lem_Multi.psum]; [lra|].
  rewrite IH, (os_sumF_scale k (v a) r). lra.
Qed.
Lemma os_psum_add {T} (g : T -> R) l :
  Lem_Multi.psum (fun a b => g a + g b) l = (INR (length l) - 1) * sumF ROps (map g l).
Proof.
  induction l as [|a r IH]; cbn [Lem_Multi.psum map length].
  - rewrite Lem_Order.sumF_nil. lra.
  - rewrite IH, (os_sumF_shift (g a) g r), Lem_Order.sumF_cons, S_INR. lra.
Qed.

(* the pooled driver when the pair function is total on the members of l *)
Section OPooled.
  Variable f : @train R -> @train R -> res (R * R).
  Variables g1 g2 : @train R -> @train R -> R.
  Variable l : list (@train R).
  Hypothesis Hf : forall a b, In a l -> In b l -> f a b = Ok (g1 a b, g2 a b).

  Lemma os_pooled_fold : forall ps a,
    (forall p, In p ps -> (fst p < length l)%nat /\ (snd p < length l)%nat) ->
    fold_left (fun acc p =>
                 rbind acc (fun a =>
                 rmap (fun d => (nadd ROps (fst a) (fst d), nadd ROps (snd a) (snd d)))
                      (f (nth_train ROps l (fst p)) (nth_train ROps l (snd p)))))
              ps (Ok a)
    = Ok (fst a + sumF ROps (map (fun p => g1 (nth_train ROps l (fst p)) (nth_train ROps l (snd p))) ps),
          snd a + sumF ROps (map (fun p => g2 (nth_train ROps l (fst p)) (nth_train ROps l (snd p))) ps)).
  Proof.
    induction ps as [|p ps IH]; intros [c mp] Hp; cbn [fold_left map fst snd].
    - rewrite Lem_Order.sumF_nil. f_equal; f_equal; lra.
    - cbn [rbind]. destruct (Hp p (or_introl eq_refl)) as [H1 H2].
      rewrite Hf by (unfold nth_train; apply nth_In; assumption).
      cbn [rmap fst snd]. rewrite IH by (intros q Hq; apply Hp; right; exact Hq).
      cbn [fst snd]. rewrite !Lem_Order.sumF_cons. cbn [nadd ROps]. f_equal; f_equal; lra.
  Qed.

  Lemma os_pooled_value :
    Lem_Multi.pooled_multi f l
    = Ok (Lem_Multi.ratio (Lem_Multi.psum g1 l, Lem_Multi.psum g2 l)).
  Proof.
    unfold Lem_Multi.pooled_multi.
    rewrite os_pooled_fold by (intros p Hp; apply Lem_Multi.in_pairs_seq; exact Hp).
    cbn [rmap fst snd n0 ROps]. f_equal. f_equal.
    rewrite <- !Lem_Multi.psum_gpairs, <- !Lem_Multi.train_pairs, !map_map. cbn [fst snd].
    f_equal; lra.
  Qed.

  Lemma os_pooled_total_value :
    Lem_Multi.pooled_total f l = Ok (Lem_Multi.psum g1 l).
  Proof.
    unfold Lem_Multi.pooled_total.
    rewrite os_pooled_fold by (intros p Hp; apply Lem_Multi.in_pairs_seq; exact Hp).
    cbn [rmap fst snd n0 ROps]. f_equal.
    rewrite <- !Lem_Multi.psum_gpairs, <- !Lem_Multi.train_pairs, !map_map. cbn [fst snd].
    lra.
  Qed.
End OPooled.

Lemma os_order_multi_pooled eps cy nz mt m (l : list (@train R)) :
  spike_train_order_multi ROps eps cy false nz mt m l None
  = if nz then Lem_Multi.pooled_multi (order_impl ROps eps cy mt m) l
    else Lem_Multi.pooled_total (order_impl ROps eps cy mt m) l.
Proof.
  unfold spike_train_order_multi, Lem_Multi.pooled_multi, Lem_Multi.pooled_total.
  cbn [indices_or_all].
  rewrite Lem_Multi.check_indices_seq. cbn [negb]. destruct nz; reflexivity.
Qed.

(* N trains, all valid on the same interval *)
Definition os_common (ts te : R) (l : list (@train R)) : Prop :=
  Forall (fun t => tr_start t = ts /\ tr_end t = te /\ valid ts te (tr_spikes t)) l.

Definition os_nsp (t : @train R) : R := INR (length (tr_spikes t)).

Lemma os_common_In ts te l (t : @train R) : os_common ts te l -> In t l ->
  exists s, t = (s, ts, te) /\ valid ts te s.
Proof.
  intros H Ht. unfold os_common in H. rewrite Forall_forall in H.
  destruct (H t Ht) as (Es & Ee & V). destruct t as [[s a] b].
  unfold tr_spikes, tr_start, tr_end in *. cbn [fst snd] in *. subst a b.
  exists s. split; [reflexivity | exact V].
Qed.

(* the two pooled totals: c_total = 2 * sum_{i<j} D_ij, m_total = (N-1) * sum_i n_i;
   normalize = true gives their ratio, normalize = false gives c_total *)
Theorem synfire_totals : forall eps cy nz mt m ts te (l : list (@train R)),
  (cy = false -> 0 < eps) -> os_common ts te l ->
  spike_train_order_multi ROps eps cy false nz mt m l None
  = Ok (if nz then
          Lem_Multi.ratio
            (2 * Lem_Multi.psum
                   (fun a b => Lem_Multi.valOf (spike_directionality ROps eps cy false false mt m a b)) l,
             (INR (length l) - 1) * sumF ROps (map os_nsp l))
        else
          2 * Lem_Multi.psum
                (fun a b => Lem_Multi.valOf (spike_directionality ROps eps cy false false mt m a b)) l).
Proof.
  intros eps cy nz mt m ts te l He Hc.
  assert (Hf : forall a b, In a l -> In b l ->
             order_impl ROps eps cy mt m a b = Ok (2 * os_D mt m a b, os_nsp a + os_nsp b)).
  { intros a b Ha Hb.
    destruct (os_common_In ts te l a Hc Ha) as (sa & -> & Va).
    destruct (os_common_In ts te l b Hc Hb) as (sb & -> & Vb).
    apply os_order_impl_value; assumption. }
  assert (HD : Lem_Multi.psum (os_D mt m) l
               = Lem_Multi.psum
                   (fun a b => Lem_Multi.valOf (spike_directionality ROps eps cy false false mt m a b)) l).
  { apply os_psum_ext. intros a b Ha Hb.
    destruct (os_common_In ts te l a Hc Ha) as (sa & -> & Va).
    destruct (os_common_In ts te l b Hc Hb) as (sb & -> & Vb).
    rewrite os_spike_directionality_value by assumption. reflexivity. }
  rewrite os_order_multi_pooled. destruct nz.
  - rewrite (os_pooled_value (order_impl ROps eps cy mt m)
               (fun a b => 2 * os_D mt m a b) (fun a b => os_nsp a + os_nsp b) l Hf).
    rewrite os_psum_scale, os_psum_add, HD. reflexivity.
  - rewrite (os_pooled_total_value (order_impl ROps eps cy mt m)
               (fun a b => 2 * os_D mt m a b) (fun a b => os_nsp a + os_nsp b) l Hf).
    rewrite os_psum_scale, HD. reflexivity.
Qed.

(* 8. synfire relation: the normalised value is the ratio, the un-normalised value its numerator *)
Theorem synfire_relation : forall eps cy nz mt m ts te (l : list (@train R)),
  (cy = false -> 0 < eps) -> os_common ts te l -> (2 <= length l)%nat ->
  0 < sumF ROps (map os_nsp l) ->
  spike_train_order_multi ROps eps cy false nz mt m l None
  = Ok (if nz then
          2 * Lem_Multi.psum
                (fun a b => Lem_Multi.valOf (spike_directionality ROps eps cy false false mt m a b)) l
          / ((INR (length l) - 1) * sumF ROps (map os_nsp l))
        else
          2 * Lem_Multi.psum
                (fun a b => Lem_Multi.valOf (spike_directionality ROps eps cy false false mt m a b)) l).
Proof.
  intros eps cy nz mt m ts te l He Hc HN Hpos.
  rewrite (synfire_totals eps cy nz mt m ts te l He Hc). f_equal.
  destruct nz; [|reflexivity].
  unfold Lem_Multi.ratio. cbn [fst snd neqb n0 ndiv ROps].
  assert (HN' : 1 <= INR (length l) - 1).
  { apply le_INR in HN. cbn [INR] in HN. lra. }
  destruct (Reqb_spec ((INR (length l) - 1) * sumF ROps (map os_nsp l)) 0) as [E|E]; [|reflexivity].
  exfalso. nra.
Qed.

Print Assumptions order_profile_spec.
Print Assumptions dir_profile_spec.
Print Assumptions order_value_is_profile_sum.
Print Assumptions directionality_bi_antisym.
Print Assumptions directionality_self_zero.
Print Assumptions order_values_pm1.
Print Assumptions dir_opposite.
Print Assumptions synfire_totals.
Print Assumptions synfire_relation.
