(* Lem_Lists.v — list-level facts about the model (R instance):
   np.unique / reconcile (C13), index selections (C14), the spike-sync
   filter (C17), merge and histogram (C20). *)
From Coq Require Import List Bool Arith ZArith Reals Lra Lia Sorted Permutation.
Import ListNotations.
From PS Require Import Num RLemmas Valid ModelKernels ModelFuncs ModelAPI Spec SyncDefs.
Local Open Scope R_scope.

Local Notation trainR := (@train R).
Local Notation dtrain := (([], 0, 0) : trainR).

(* ================================================================== *)
(* generic list helpers                                                *)

Lemma nth_map_lt {A B} (f : A -> B) (l : list A) i d d' :
  (i < length l)%nat -> nth i (map f l) d' = f (nth i l d).
Proof.
  intros H. rewrite (nth_indep _ d' (f d)) by (rewrite map_length; exact H).
  apply map_nth.
Qed.

Lemma map_nth_seq {A} (l : list A) d :
  map (fun i => nth i l d) (seq 0 (length l)) = l.
Proof.
  induction l as [|a l IH]; cbn [length seq map]; [reflexivity|].
  cbn [nth]. f_equal. rewrite <- seq_shift, map_map. exact IH.
Qed.

Lemma ssorted_filter (p : R -> bool) l : ssorted l -> ssorted (filter p l).
Proof.
  induction l as [|a l IH]; intros H; cbn [filter]; [exact H|].
  apply ssorted_cons_inv in H as [H1 H2].
  destruct (p a); [|auto].
  apply ssorted_cons; [auto|].
  rewrite Forall_forall in *. intros y Hy. apply filter_In in Hy as [Hy _]. auto.
Qed.

Lemma ssorted_NoDup l : ssorted l -> NoDup l.
Proof.
  induction l as [|a l IH]; intros H; [constructor|].
  apply ssorted_cons_inv in H as [H1 H2]. constructor; [|auto].
  intros Hin. rewrite Forall_forall in H2. specialize (H2 _ Hin). lra.
Qed.

(* two strictly sorted lists with the same elements are equal *)
Lemma ssorted_ext l : forall l', ssorted l -> ssorted l' ->
  (forall x, In x l <-> In x l') -> l = l'.
Proof.
  induction l as [|a l IH]; intros [|b l'] S1 S2 E.
  - reflexivity.
  - exfalso. apply (E b). left; reflexivity.
  - exfalso. apply (E a). left; reflexivity.
  - apply ssorted_cons_inv in S1 as [S1 F1]. apply ssorted_cons_inv in S2 as [S2 F2].
    rewrite Forall_forall in F1, F2.
    assert (Hab : a = b).
    { destruct (proj1 (E a) (or_introl eq_refl)) as [Hb|Hb]; [auto|].
      destruct (proj2 (E b) (or_introl eq_refl)) as [Ha|Ha]; [auto|].
      specialize (F1 _ Ha). specialize (F2 _ Hb). lra. }
    subst b. f_equal. apply IH; auto.
    intros x; split; intros Hx.
    + destruct (proj1 (E x) (or_intror Hx)) as [Hb|Hb]; [|auto].
      subst x. specialize (F1 _ Hx). lra.
    + destruct (proj2 (E x) (or_intror Hx)) as [Hb|Hb]; [|auto].
      subst x. specialize (F2 _ Hx). lra.
Qed.

(* ================================================================== *)
(* C13: np.unique                                                      *)

Lemma insert_u_In x l y : In y (insert_u ROps x l) <-> y = x \/ In y l.
Proof.
  induction l as [|a l IH]; cbn [insert_u nltb neqb ROps].
  - cbn. intuition.
  - destruct (Rltb_spec x a) as [H|H].
    + cbn [In]. intuition.
    + destruct (Reqb_spec x a) as [E|E].
      * cbn [In]. subst. intuition.
      * cbn [In]. rewrite IH. intuition.
Qed.

Lemma insert_u_sorted x l : ssorted l -> ssorted (insert_u ROps x l).
Proof.
  induction l as [|a l IH]; intros S; cbn [insert_u nltb neqb ROps].
  - apply ssorted_cons; [apply ssorted_nil | constructor].
  - destruct (Rltb_spec x a) as [H|H].
    + apply ssorted_cons; [exact S|].
      apply ssorted_cons_inv in S as [S F]. constructor; [exact H|].
      rewrite Forall_forall in *. intros y Hy. specialize (F _ Hy). lra.
    + destruct (Reqb_spec x a) as [E|E]; [exact S|].
      apply ssorted_cons_inv in S as [S F]. apply ssorted_cons; [auto|].
      rewrite Forall_forall in *. intros y Hy. apply insert_u_In in Hy as [->|Hy]; [lra|auto].
Qed.

Lemma insert_u_lt x l : Forall (fun y => x < y) l -> insert_u ROps x l = x :: l.
Proof.
  intros H. destruct l as [|a l]; [reflexivity|].
  cbn [insert_u nltb ROps]. inversion H; subst.
  destruct (Rltb_spec x a); [reflexivity|lra].
Qed.

Theorem sort_unique_sorted : forall l, ssorted (sort_unique ROps l).
Proof.
  induction l as [|a l IH]; cbn [sort_unique fold_right].
  - apply ssorted_nil.
  - apply insert_u_sorted, IH.
Qed.

Theorem sort_unique_In : forall l x, In x (sort_unique ROps l) <-> In x l.
Proof.
  induction l as [|a l IH]; intros x; cbn [sort_unique fold_right In]; [tauto|].
  rewrite insert_u_In. unfold sort_unique in IH. rewrite IH. intuition.
Qed.

Theorem sort_unique_id : forall l, ssorted l -> sort_unique ROps l = l.
Proof.
  induction l as [|a l IH]; intros S; [reflexivity|].
  apply ssorted_cons_inv in S as [S F].
  change (sort_unique ROps (a :: l)) with (insert_u ROps a (sort_unique ROps l)).
  rewrite IH by exact S. apply insert_u_lt, F.
Qed.

Theorem sort_unique_idem : forall l,
  sort_unique ROps (sort_unique ROps l) = sort_unique ROps l.
Proof. intros l. apply sort_unique_id, sort_unique_sorted. Qed.

(* the result depends only on the SET of elements *)
Theorem sort_unique_ext : forall l l', (forall x, In x l <-> In x l') ->
  sort_unique ROps l = sort_unique ROps l'.
Proof.
  intros l l' E. apply ssorted_ext; try apply sort_unique_sorted.
  intros x. rewrite !sort_unique_In. apply E.
Qed.

Theorem sort_unique_perm_inv : forall l l', Permutation l l' ->
  sort_unique ROps l = sort_unique ROps l'.
Proof.
  intros l l' P. apply sort_unique_ext. intros x; split; intros H.
  - eapply Permutation_in; eauto.
  - eapply Permutation_in; [apply Permutation_sym|]; eauto.
Qed.

Theorem sort_unique_filter : forall (p : R -> bool) l,
  sort_unique ROps (filter p l) = filter p (sort_unique ROps l).
Proof.
  intros p l. apply ssorted_ext.
  - apply sort_unique_sorted.
  - apply ssorted_filter, sort_unique_sorted.
  - intros x. rewrite sort_unique_In, !filter_In, sort_unique_In. tauto.
Qed.

(* ================================================================== *)
(* C13: reconcile                                                      *)

Lemma min_list_cons d a l : min_list ROps d (a :: l) = min_list ROps (Rmin d a) l.
Proof. unfold min_list. cbn [fold_left]. rewrite R_nmin. reflexivity. Qed.
Lemma max_list_cons d a l : max_list ROps d (a :: l) = max_list ROps (Rmax d a) l.
Proof. unfold max_list. cbn [fold_left]. rewrite R_nmax. reflexivity. Qed.

Lemma min_list_le_d l : forall d, min_list ROps d l <= d.
Proof.
  induction l as [|a l IH]; intros d; [cbn; lra|].
  rewrite min_list_cons. specialize (IH (Rmin d a)).
  pose proof (Rmin_l d a). lra.
Qed.
Lemma max_list_ge_d l : forall d, d <= max_list ROps d l.
Proof.
  induction l as [|a l IH]; intros d; [cbn; lra|].
  rewrite max_list_cons. specialize (IH (Rmax d a)).
  pose proof (Rmax_l d a). lra.
Qed.

Theorem min_list_le : forall l d x, In x (d :: l) -> min_list ROps d l <= x.
Proof.
  induction l as [|a l IH]; intros d x [->|H]; try (cbn; lra); try contradiction.
  - apply min_list_le_d.
  - rewrite min_list_cons. destruct H as [->|H].
    + pose proof (min_list_le_d l (Rmin d x)). pose proof (Rmin_r d x). lra.
    + apply IH. right; exact H.
Qed.
Theorem max_list_ge : forall l d x, In x (d :: l) -> x <= max_list ROps d l.
Proof.
  induction l as [|a l IH]; intros d x [->|H]; try (cbn; lra); try contradiction.
  - apply max_list_ge_d.
  - rewrite max_list_cons. destruct H as [->|H].
    + pose proof (max_list_ge_d l (Rmax d x)). pose proof (Rmax_r d x). lra.
    + apply IH. right; exact H.
Qed.

Theorem min_list_In : forall l d, In (min_list ROps d l) (d :: l).
Proof.
  induction l as [|a l IH]; intros d; [left; reflexivity|].
  rewrite min_list_cons. destruct (IH (Rmin d a)) as [H|H].
  - rewrite <- H. unfold Rmin. destruct (Rle_dec d a); cbn; auto.
  - right; right; exact H.
Qed.
Theorem max_list_In : forall l d, In (max_list ROps d l) (d :: l).
Proof.
  induction l as [|a l IH]; intros d; [left; reflexivity|].
  rewrite max_list_cons. destruct (IH (Rmax d a)) as [H|H].
  - rewrite <- H. unfold Rmax. destruct (Rle_dec d a); cbn; auto.
  - right; right; exact H.
Qed.

Lemma min_list_const l : forall d, (forall x, In x l -> x = d) -> min_list ROps d l = d.
Proof.
  induction l as [|a l IH]; intros d H; [reflexivity|].
  rewrite min_list_cons. rewrite (H a (or_introl eq_refl)).
  replace (Rmin d d) with d by (unfold Rmin; destruct (Rle_dec d d); reflexivity).
  apply IH. intros x Hx. apply H. right; exact Hx.
Qed.
Lemma max_list_const l : forall d, (forall x, In x l -> x = d) -> max_list ROps d l = d.
Proof.
  induction l as [|a l IH]; intros d H; [reflexivity|].
  rewrite max_list_cons. rewrite (H a (or_introl eq_refl)).
  replace (Rmax d d) with d by (unfold Rmax; destruct (Rle_dec d d); reflexivity).
  apply IH. intros x Hx. apply H. right; exact Hx.
Qed.

(* the common edges computed by reconcile: minimum of the starts, maximum of the ends *)
Definition common_start (l : list trainR) : R :=
  match l with [] => 0 | t0 :: r => min_list ROps (tr_start t0) (map (@tr_start R) r) end.
Definition common_end (l : list trainR) : R :=
  match l with [] => 0 | t0 :: r => max_list ROps (tr_end t0) (map (@tr_end R) r) end.
Definition window (eps tS tE : R) (x : R) : bool := Rltb (tS - eps) x && Rltb x (tE + eps).
Definition recon1 (eps tS tE : R) (t : trainR) : trainR :=
  (filter (window eps tS tE) (sort_unique ROps (tr_spikes t)), tS, tE).

Lemma window_true eps tS tE x : window eps tS tE x = true <-> tS - eps < x < tE + eps.
Proof.
  unfold window. rewrite andb_true_iff, !Rltb_true. tauto.
Qed.

Lemma reconcile_unfold eps l :
  reconcile ROps eps l = map (recon1 eps (common_start l) (common_end l)) l.
Proof. destruct l; reflexivity. Qed.

Lemma common_start_le l t : In t l -> common_start l <= tr_start t.
Proof.
  destruct l as [|t0 r]; [intros []|]. intros H. cbn [common_start].
  apply min_list_le. destruct H as [->|H]; [left; reflexivity|right; apply in_map; exact H].
Qed.
Lemma common_end_ge l t : In t l -> tr_end t <= common_end l.
Proof.
  destruct l as [|t0 r]; [intros []|]. intros H. cbn [common_end].
  apply max_list_ge. destruct H as [->|H]; [left; reflexivity|right; apply in_map; exact H].
Qed.
Lemma common_start_In l : l <> [] -> In (common_start l) (map (@tr_start R) l).
Proof. destruct l as [|t0 r]; [congruence|]. intros _. apply min_list_In. Qed.
Lemma common_end_In l : l <> [] -> In (common_end l) (map (@tr_end R) l).
Proof. destruct l as [|t0 r]; [congruence|]. intros _. apply max_list_In. Qed.

Lemma common_start_congr l l' : map (@tr_start R) l = map (@tr_start R) l' ->
  common_start l = common_start l'.
Proof.
  destruct l as [|a l], l' as [|b l']; cbn [map]; intros H; try discriminate; [reflexivity|].
  injection H as H1 H2. cbn [common_start]. rewrite H1, H2. reflexivity.
Qed.
Lemma common_end_congr l l' : map (@tr_end R) l = map (@tr_end R) l' ->
  common_end l = common_end l'.
Proof.
  destruct l as [|a l], l' as [|b l']; cbn [map]; intros H; try discriminate; [reflexivity|].
  injection H as H1 H2. cbn [common_end]. rewrite H1, H2. reflexivity.
Qed.

Lemma common_start_const l d : l <> [] -> (forall t, In t l -> tr_start t = d) -> common_start l = d.
Proof.
  destruct l as [|t0 r]; [congruence|]. intros _ H. cbn [common_start].
  rewrite (H t0 (or_introl eq_refl)). apply min_list_const.
  intros x Hx. apply in_map_iff in Hx as (t & <- & Ht). apply H. right; exact Ht.
Qed.
Lemma common_end_const l d : l <> [] -> (forall t, In t l -> tr_end t = d) -> common_end l = d.
Proof.
  destruct l as [|t0 r]; [congruence|]. intros _ H. cbn [common_end].
  rewrite (H t0 (or_introl eq_refl)). apply max_list_const.
  intros x Hx. apply in_map_iff in Hx as (t & <- & Ht). apply H. right; exact Ht.
Qed.

Theorem reconcile_eq_spec : forall eps l, reconcile ROps eps l = reconcile_spec ROps eps l.
Proof.
  intros eps [|t0 r]; [reflexivity|].
  unfold reconcile, reconcile_spec. apply map_ext. intros t.
  rewrite sort_unique_filter. reflexivity.
Qed.

Theorem reconcile_length eps l : length (reconcile ROps eps l) = length l.
Proof. rewrite reconcile_unfold. apply map_length. Qed.

Theorem reconcile_props : forall eps l t', In t' (reconcile ROps eps l) -> l <> [] ->
  tr_start t' = common_start l /\ tr_end t' = common_end l /\ ssorted (tr_spikes t').
Proof.
  intros eps l t' H _. rewrite reconcile_unfold in H.
  apply in_map_iff in H as (t & <- & _). unfold recon1. cbn.
  repeat split. apply ssorted_filter, sort_unique_sorted.
Qed.

(* the same with the list spelled out, min/max exactly as in the model *)
Corollary reconcile_props_cons : forall eps t0 r t', In t' (reconcile ROps eps (t0 :: r)) ->
  tr_start t' = min_list ROps (tr_start t0) (map (@tr_start R) r) /\
  tr_end t' = max_list ROps (tr_end t0) (map (@tr_end R) r) /\
  ssorted (tr_spikes t') /\
  (forall t, In t (t0 :: r) -> tr_start t' <= tr_start t /\ tr_end t <= tr_end t').
Proof.
  intros eps t0 r t' H. destruct (reconcile_props _ _ _ H) as (A & B & C); [discriminate|].
  repeat split; auto.
  - rewrite A. apply common_start_le; auto.
  - rewrite B. apply common_end_ge; auto.
Qed.

Theorem reconcile_In : forall eps l i x, (i < length l)%nat ->
  In x (tr_spikes (nth i (reconcile ROps eps l) dtrain)) <->
  (In x (tr_spikes (nth i l dtrain)) /\ common_start l - eps < x < common_end l + eps).
Proof.
  intros eps l i x Hi. rewrite reconcile_unfold.
  rewrite nth_map_lt with (d := dtrain) by exact Hi.
  unfold recon1. cbn [tr_spikes fst]. rewrite filter_In, sort_unique_In, window_true. tauto.
Qed.

Lemma filter_filter_same {A} (p : A -> bool) l : filter p (filter p l) = filter p l.
Proof.
  induction l as [|a l IH]; cbn [filter]; [reflexivity|].
  destruct (p a) eqn:E; cbn [filter]; rewrite ?E, IH; reflexivity.
Qed.
Lemma filter_all {A} (p : A -> bool) l : (forall x, In x l -> p x = true) -> filter p l = l.
Proof.
  induction l as [|a l IH]; intros H; cbn [filter]; [reflexivity|].
  rewrite (H a (or_introl eq_refl)). f_equal. apply IH. intros x Hx. apply H. right; exact Hx.
Qed.

Lemma recon1_idem eps tS tE t : recon1 eps tS tE (recon1 eps tS tE t) = recon1 eps tS tE t.
Proof.
  unfold recon1. cbn [tr_spikes fst]. f_equal. f_equal.
  rewrite sort_unique_id by apply ssorted_filter, sort_unique_sorted.
  apply filter_filter_same.
Qed.

(* holds for every eps *)
Theorem reconcile_idem' : forall eps l,
  reconcile ROps eps (reconcile ROps eps l) = reconcile ROps eps l.
Proof.
  intros eps l. destruct l as [|t0 r] eqn:El; [reflexivity|]. rewrite <- El.
  assert (Hne : l <> []) by (subst; discriminate).
  rewrite (reconcile_unfold eps l).
  set (tS := common_start l). set (tE := common_end l).
  rewrite reconcile_unfold.
  assert (Hne' : map (recon1 eps tS tE) l <> []) by (subst l; discriminate).
  rewrite (common_start_const _ tS Hne'), (common_end_const _ tE Hne').
  - rewrite map_map. apply map_ext. intros t. apply recon1_idem.
  - intros t Ht. apply in_map_iff in Ht as (t1 & <- & _). reflexivity.
  - intros t Ht. apply in_map_iff in Ht as (t1 & <- & _). reflexivity.
Qed.

Theorem reconcile_idem : forall eps l, 0 <= eps ->
  reconcile ROps eps (reconcile ROps eps l) = reconcile ROps eps l.
Proof. intros eps l _. apply reconcile_idem'. Qed.

Theorem reconcile_valid_id : forall eps l ts te, 0 < eps -> ts < te ->
  Forall (fun t => valid ts te (tr_spikes t) /\ tr_start t = ts /\ tr_end t = te) l ->
  reconcile ROps eps l = l.
Proof.
  intros eps l ts te He Hte HF. rewrite Forall_forall in HF.
  destruct l as [|t0 r] eqn:El; [reflexivity|]. rewrite <- El in *.
  assert (Hne : l <> []) by (subst; discriminate).
  rewrite reconcile_unfold.
  rewrite (common_start_const l ts Hne), (common_end_const l te Hne);
    try (intros t Ht; apply (HF t Ht)).
  rewrite <- (map_id l) at 2. apply map_ext_in. intros t Ht.
  destruct (HF t Ht) as ((_ & S & B) & Hs & Hee).
  destruct t as [[s a] b]. unfold recon1. cbn [tr_spikes tr_start tr_end fst snd] in *. subst a b.
  f_equal. f_equal. rewrite sort_unique_id by exact S.
  apply filter_all. intros x Hx. rewrite Forall_forall in B. specialize (B x Hx).
  apply window_true. lra.
Qed.

(* messy input: order and repetition of the spike times are irrelevant *)
Definition same_train (t t' : trainR) : Prop :=
  tr_start t = tr_start t' /\ tr_end t = tr_end t' /\
  (forall x, In x (tr_spikes t) <-> In x (tr_spikes t')).

Lemma Forall2_map_eq {A B} (Q : A -> A -> Prop) (f : A -> B) l l' :
  Forall2 Q l l' -> (forall a b, Q a b -> f a = f b) -> map f l = map f l'.
Proof.
  intros H HQ. induction H as [|a b l l' Hab _ IH]; cbn [map]; [reflexivity|].
  rewrite (HQ _ _ Hab), IH. reflexivity.
Qed.

Theorem reconcile_messy : forall eps l l', Forall2 same_train l l' ->
  reconcile ROps eps l = reconcile ROps eps l'.
Proof.
  intros eps l l' H. rewrite !reconcile_unfold.
  assert (Es : map (@tr_start R) l = map (@tr_start R) l').
  { apply (Forall2_map_eq _ _ _ _ H). intros a b (A & _); exact A. }
  assert (Ee : map (@tr_end R) l = map (@tr_end R) l').
  { apply (Forall2_map_eq _ _ _ _ H). intros a b (_ & A & _); exact A. }
  rewrite (common_start_congr _ _ Es), (common_end_congr _ _ Ee).
  apply (Forall2_map_eq _ _ _ _ H). intros a b (_ & _ & A).
  unfold recon1. rewrite (sort_unique_ext _ _ A). reflexivity.
Qed.

(* the form with lengths and positions *)
Corollary reconcile_messy_nth : forall eps l l', length l = length l' ->
  (forall i, (i < length l)%nat -> same_train (nth i l dtrain) (nth i l' dtrain)) ->
  reconcile ROps eps l = reconcile ROps eps l'.
Proof.
  intros eps l l' HL H. apply reconcile_messy.
  revert l' HL H. induction l as [|a l IH]; intros [|b l'] HL H; try discriminate; constructor.
  - apply (H 0%nat). cbn; lia.
  - apply IH; [cbn in HL; lia|]. intros i Hi. apply (H (S i)). cbn; lia.
Qed.

(* ================================================================== *)
(* C14: index selections                                               *)

Theorem pairs_of_map : forall (f : nat -> nat) idx,
  pairs_of (map f idx) = map (fun p => (f (fst p), f (snd p))) (pairs_of idx).
Proof.
  intros f idx. induction idx as [|i r IH]; [reflexivity|].
  cbn [map pairs_of]. rewrite map_app, !map_map, IH. reflexivity.
Qed.

Theorem pairs_of_positions : forall idx,
  pairs_of idx = map (fun p => (nth (fst p) idx 0%nat, nth (snd p) idx 0%nat))
                     (pairs_of (seq 0 (length idx))).
Proof.
  intros idx. rewrite <- (pairs_of_map (fun i => nth i idx 0%nat)).
  rewrite map_nth_seq. reflexivity.
Qed.

Lemma pairs_of_length_seq idx :
  length (pairs_of (seq 0 (length idx))) = length (pairs_of idx).
Proof. rewrite (pairs_of_positions idx), map_length. reflexivity. Qed.

Lemma pairs_of_In idx p : In p (pairs_of idx) -> In (fst p) idx /\ In (snd p) idx.
Proof.
  induction idx as [|i r IH]; [intros []|].
  cbn [pairs_of]. intros H. apply in_app_or in H as [H|H].
  - apply in_map_iff in H as (j & <- & Hj). cbn. auto.
  - destruct (IH H). cbn. auto.
Qed.

Lemma pairs_of_seq_lt n p : In p (pairs_of (seq 0 n)) -> (fst p < n)%nat /\ (snd p < n)%nat.
Proof.
  intros H. apply pairs_of_In in H as [H1 H2]. apply in_seq in H1, H2. lia.
Qed.

Lemma check_indices_seq n : check_indices n (seq 0 n) = true.
Proof.
  unfold check_indices. apply forallb_forall. intros i Hi. apply in_seq in Hi.
  apply Nat.ltb_lt. lia.
Qed.

Section Selection.
  Variable l : list trainR.
  Variable idx : list nat.
  Let l' := map (nth_train ROps l) idx.

  Lemma sel_length : length l' = length idx.
  Proof. apply map_length. Qed.

  Lemma sel_nth_train i : (i < length idx)%nat ->
    nth_train ROps l' i = nth_train ROps l (nth i idx 0%nat).
  Proof.
    intros Hi. unfold nth_train at 1. unfold l'.
    apply nth_map_lt with (d := 0%nat). exact Hi.
  Qed.

  Lemma sel_nth_train_seq i : (i < length idx)%nat ->
    nth_train ROps l' (nth i (seq 0 (length idx)) 0%nat) = nth_train ROps l (nth i idx 0%nat).
  Proof. intros Hi. rewrite seq_nth by exact Hi. apply sel_nth_train. exact Hi. Qed.
End Selection.

Lemma fold_left_map {A B C} (f : A -> B -> A) (g : C -> B) l a :
  fold_left f (map g l) a = fold_left (fun a x => f a (g x)) l a.
Proof. revert a. induction l as [|x l IH]; intros a; cbn [map fold_left]; auto. Qed.

Lemma fold_left_ext_in {A B} (f f' : A -> B -> A) l : forall a,
  (forall a x, In x l -> f a x = f' a x) -> fold_left f l a = fold_left f' l a.
Proof.
  induction l as [|x l IH]; intros a H; cbn [fold_left]; [reflexivity|].
  rewrite H by (left; reflexivity). apply IH. intros; apply H; right; assumption.
Qed.

Lemma fold_right_ext_in {A B} (f f' : B -> A -> A) l a :
  (forall x a, In x l -> f x a = f' x a) -> fold_right f a l = fold_right f' a l.
Proof.
  induction l as [|x l IH]; intros H; cbn [fold_right]; [reflexivity|].
  rewrite IH by (intros; apply H; right; assumption). apply H. left; reflexivity.
Qed.

(* a fold over the pairs of a selection = the fold over all pairs of the selected sub-list *)
Lemma sel_fold {A} (l : list trainR) idx (step : A -> trainR -> trainR -> A) a0 :
  fold_left (fun acc p => step acc (nth_train ROps l (fst p)) (nth_train ROps l (snd p)))
            (pairs_of idx) a0 =
  fold_left (fun acc p => step acc (nth_train ROps (map (nth_train ROps l) idx) (fst p))
                                   (nth_train ROps (map (nth_train ROps l) idx) (snd p)))
            (pairs_of (seq 0 (length idx))) a0.
Proof.
  rewrite (pairs_of_positions idx) at 1. rewrite fold_left_map.
  apply fold_left_ext_in. intros a p Hp. apply pairs_of_seq_lt in Hp as [H1 H2].
  cbn [fst snd]. rewrite !sel_nth_train by assumption. reflexivity.
Qed.

Theorem distance_multi_indices : forall (bi : trainR -> trainR -> res R) l idx,
  check_indices (length l) idx = true ->
  distance_multi_gen ROps 0 bi false l (Some idx) =
  distance_multi_gen ROps 0 bi false (map (nth_train ROps l) idx) None.
Proof.
  intros bi l idx Hc. unfold distance_multi_gen. cbv zeta. cbn [indices_or_all].
  rewrite Hc, map_length, check_indices_seq. cbn [negb].
  rewrite pairs_of_length_seq. f_equal.
  exact (sel_fold l idx (fun acc ta tb => rbind acc (fun a => rmap (fun d => a + d) (bi ta tb))) (Ok 0)).
Qed.

Theorem sync_multi_indices : forall cy mt m iv l idx,
  check_indices (length l) idx = true ->
  spike_sync_multi ROps 0 cy false mt m iv l (Some idx) =
  spike_sync_multi ROps 0 cy false mt m iv (map (nth_train ROps l) idx) None.
Proof.
  intros cy mt m iv l idx Hc. unfold spike_sync_multi. cbv zeta. cbn [indices_or_all].
  rewrite Hc, map_length, check_indices_seq. cbn [negb]. f_equal.
  exact (sel_fold l idx
           (fun acc ta tb => rbind acc (fun a =>
              rmap (fun d => (fst a + fst d, snd a + snd d))
                   (spike_sync_values ROps 0 cy mt m iv ta tb))) (Ok (0, 0))).
Qed.

Theorem order_multi_indices : forall cy normalize mt m l idx,
  check_indices (length l) idx = true ->
  spike_train_order_multi ROps 0 cy false normalize mt m l (Some idx) =
  spike_train_order_multi ROps 0 cy false normalize mt m (map (nth_train ROps l) idx) None.
Proof.
  intros cy nz mt m l idx Hc. unfold spike_train_order_multi. cbv zeta. cbn [indices_or_all].
  rewrite Hc, map_length, check_indices_seq. cbn [negb]. f_equal.
  exact (sel_fold l idx
           (fun acc ta tb => rbind acc (fun a =>
              rmap (fun d => (fst a + fst d, snd a + snd d))
                   (order_impl ROps 0 cy mt m ta tb))) (Ok (0, 0))).
Qed.

(* divide and conquer over a mapped pair list *)
Lemma dc_unfold2 {P} (padd : P -> P -> res P) pf k ps : (2 <= length ps)%nat ->
  dc padd pf (S k) ps =
  rbind (dc padd pf k (firstn (Nat.div2 (length ps)) ps)) (fun d1 =>
  rbind (dc padd pf k (skipn (Nat.div2 (length ps)) ps)) (fun d2 => padd d1 d2)).
Proof. destruct ps as [|p [|q r]]; cbn [length]; intros H; try lia. reflexivity. Qed.

Lemma dc_map_ext {P} (padd : P -> P -> res P) (pf pf' : nat * nat -> res P) (g : nat * nat -> nat * nat) :
  forall fuel ps, (forall p, In p ps -> pf (g p) = pf' p) ->
  dc padd pf fuel (map g ps) = dc padd pf' fuel ps.
Proof.
  induction fuel as [|k IH]; intros ps H; [reflexivity|].
  destruct (le_lt_dec 2 (length ps)) as [L|L].
  - rewrite !dc_unfold2 by (rewrite ?map_length; exact L).
    rewrite map_length, firstn_map, skipn_map.
    assert (Hin : forall n x, In x (firstn n ps) \/ In x (skipn n ps) -> In x ps).
    { intros n x Hx. rewrite <- (firstn_skipn n ps). apply in_or_app. exact Hx. }
    rewrite (IH (firstn _ ps)) by (intros x Hx; apply H; eapply Hin; left; exact Hx).
    rewrite (IH (skipn _ ps)) by (intros x Hx; apply H; eapply Hin; right; exact Hx).
    reflexivity.
  - destruct ps as [|p [|q r]]; [reflexivity| |cbn [length] in L; lia].
    cbn [map dc]. apply H. left; reflexivity.
Qed.

Theorem profile_multi_indices : forall (P : Type) (padd : P -> P -> res P)
    (bi : trainR -> trainR -> res P) l idx,
  check_indices (length l) idx = true ->
  profile_multi_gen ROps 0 padd bi false l (Some idx) =
  profile_multi_gen ROps 0 padd bi false (map (nth_train ROps l) idx) None.
Proof.
  intros P padd bi l idx Hc. unfold profile_multi_gen. cbv zeta. cbn [indices_or_all].
  rewrite Hc, map_length, check_indices_seq. cbn [negb].
  rewrite pairs_of_length_seq. f_equal.
  rewrite (pairs_of_positions idx) at 2.
  apply dc_map_ext. intros p Hp. apply pairs_of_seq_lt in Hp as [H1 H2].
  cbn [fst snd]. rewrite !sel_nth_train by assumption. reflexivity.
Qed.

Theorem matrix_indices : forall (bi : trainR -> trainR -> res R) diag sym l idx,
  check_indices (length l) idx = true ->
  matrix_gen ROps 0 bi diag sym false l (Some idx) =
  matrix_gen ROps 0 bi diag sym false (map (nth_train ROps l) idx) None.
Proof.
  intros bi diag sym l idx Hc. unfold matrix_gen. cbv zeta. cbn [indices_or_all].
  rewrite Hc, map_length, check_indices_seq, seq_length. cbn [negb].
  apply fold_right_ext_in. intros i acc Hi. apply in_seq in Hi. f_equal.
  apply fold_right_ext_in. intros j acc' Hj. apply in_seq in Hj. f_equal.
  rewrite !sel_nth_train_seq by lia. reflexivity.
Qed.

Theorem dirvalues_indices : forall cy mt m l idx,
  check_indices (length l) idx = true ->
  directionality_values ROps 0 cy false mt m l (Some idx) =
  directionality_values ROps 0 cy false mt m (map (nth_train ROps l) idx) None.
Proof.
  intros cy mt m l idx Hc. unfold directionality_values. cbv zeta. cbn [indices_or_all].
  rewrite Hc, map_length, check_indices_seq, seq_length. cbn [negb].
  f_equal. f_equal.
  etransitivity.
  - apply fold_left_ext_in. intros acc p Hp. apply pairs_of_seq_lt in Hp as [H1 H2].
    rewrite <- !(sel_nth_train_seq l idx) by assumption. reflexivity.
  - f_equal. apply map_ext_in. intros p Hp. apply in_seq in Hp.
    rewrite sel_nth_train_seq by lia. reflexivity.
Qed.

Theorem distance_multi_two : forall (bi : trainR -> trainR -> res R) a b,
  distance_multi_gen ROps 0 bi false [a; b] None = rmap (fun s => (0 + s) / 1) (bi a b).
Proof.
  intros bi a b. unfold distance_multi_gen. cbv zeta.
  cbn [length indices_or_all seq check_indices forallb Nat.ltb Nat.leb andb negb
       pairs_of map app fold_left fst snd nth_train nth rbind].
  destruct (bi a b) as [v|e]; cbn [rmap]; [|reflexivity].
  f_equal.
Qed.

Corollary distance_multi_two_id : forall (bi : trainR -> trainR -> res R) a b,
  distance_multi_gen ROps 0 bi false [a; b] None = bi a b.
Proof.
  intros bi a b. rewrite distance_multi_two. destruct (bi a b) as [v|e]; cbn [rmap]; [|reflexivity].
  f_equal. field.
Qed.

(* ================================================================== *)
(* C20: np.sort, merge, histogram                                      *)

Lemma insert_s_perm x l : Permutation (insert_s ROps x l) (x :: l).
Proof.
  induction l as [|a l IH]; cbn [insert_s nltb ROps]; [apply Permutation_refl|].
  destruct (Rltb x a); [apply Permutation_refl|].
  eapply perm_trans; [apply perm_skip, IH | apply perm_swap].
Qed.

Lemma insert_s_sorted x l : StronglySorted Rle l -> StronglySorted Rle (insert_s ROps x l).
Proof.
  induction l as [|a l IH]; intros S; cbn [insert_s nltb ROps].
  - constructor; constructor.
  - destruct (Rltb_spec x a) as [H|H].
    + constructor; [exact S|]. inversion S as [|? ? S' F]; subst.
      constructor; [lra|]. rewrite Forall_forall in *. intros y Hy. specialize (F _ Hy). lra.
    + inversion S as [|? ? S' F]; subst. constructor; [auto|].
      rewrite Forall_forall in *. intros y Hy.
      apply (Permutation_in _ (insert_s_perm x l)) in Hy. destruct Hy as [<-|Hy]; [lra|auto].
Qed.

Theorem sort_list_perm : forall l, Permutation (sort_list ROps l) l.
Proof.
  induction l as [|a l IH]; [apply Permutation_refl|].
  change (sort_list ROps (a :: l)) with (insert_s ROps a (sort_list ROps l)).
  eapply perm_trans; [apply insert_s_perm | apply perm_skip, IH].
Qed.

Theorem sort_list_sorted : forall l, StronglySorted Rle (sort_list ROps l).
Proof.
  induction l as [|a l IH]; [constructor|].
  change (sort_list ROps (a :: l)) with (insert_s ROps a (sort_list ROps l)).
  apply insert_s_sorted, IH.
Qed.

Theorem merge_spec : forall (l : list trainR) t0 r, l = t0 :: r ->
  let m := merge_spike_trains ROps l in
  Permutation (tr_spikes m) (flat_map (@tr_spikes R) l) /\
  StronglySorted Rle (tr_spikes m) /\
  tr_start m = tr_start t0 /\ tr_end m = tr_end t0.
Proof.
  intros l t0 r ->. cbv zeta. unfold merge_spike_trains. cbn [tr_spikes tr_start tr_end fst snd].
  repeat split.
  - apply sort_list_perm.
  - apply sort_list_sorted.
Qed.

(* histogram: the bins of an edge list, the last one closed *)
Fixpoint bins (es : list R) : list (R * R * bool) :=
  match es with
  | a :: ((b :: r) as es') => (a, b, match r with [] => true | _ => false end) :: bins es'
  | _ => []
  end.

Lemma hist_counts_cons a b r xs :
  hist_counts ROps (a :: b :: r) xs =
  nofnat ROps (count_in ROps a b (match r with [] => true | _ => false end) xs)
  :: hist_counts ROps (b :: r) xs.
Proof. destruct r; reflexivity. Qed.

(* holds for every edge list *)
Theorem hist_counts_spec' : forall edges xs,
  hist_counts ROps edges xs =
  map (fun p => nofnat ROps (count_in ROps (fst (fst p)) (snd (fst p)) (snd p) xs)) (bins edges).
Proof.
  intros edges xs. induction edges as [|a [|b r] IH]; try reflexivity.
  rewrite hist_counts_cons. cbn [bins map fst snd]. f_equal. exact IH.
Qed.

Theorem hist_counts_spec : forall edges xs, ssorted edges -> (2 <= length edges)%nat ->
  hist_counts ROps edges xs =
  map (fun p => nofnat ROps (count_in ROps (fst (fst p)) (snd (fst p)) (snd p) xs)) (bins edges).
Proof. intros edges xs _ _. apply hist_counts_spec'. Qed.

Lemma nofnat_INR k : nofnat ROps k = INR k.
Proof. unfold nofnat. cbn [nofZ ROps]. symmetry. apply INR_IZR_INZ. Qed.

Lemma count_split (pa pb pc : R -> bool) xs :
  (forall x, pc x = pa x || pb x) -> (forall x, pa x && pb x = false) ->
  (length (filter pa xs) + length (filter pb xs))%nat = length (filter pc xs).
Proof.
  intros Hc Hd. induction xs as [|x xs IH]; [reflexivity|].
  cbn [filter]. rewrite (Hc x). specialize (Hd x).
  destruct (pa x), (pb x); cbn [orb andb length] in *; try discriminate; lia.
Qed.

Lemma ssorted_le_last a l : ssorted (a :: l) -> a <= last (a :: l) 0.
Proof.
  revert a. induction l as [|b l IH]; intros a S; [cbn; lra|].
  apply ssorted_cons_inv in S as [S F]. inversion F; subst.
  change (last (a :: b :: l) 0) with (last (b :: l) 0). specialize (IH b S). lra.
Qed.

Lemma hist_total_aux : forall r a b xs, ssorted (a :: b :: r) ->
  sumF ROps (hist_counts ROps (a :: b :: r) xs) =
  INR (length (filter (fun x => nleb ROps a x && nleb ROps x (last (b :: r) 0)) xs)).
Proof.
  induction r as [|c r IH]; intros a b xs S.
  - rewrite hist_counts_cons. cbn [last]. unfold hist_counts, sumF, count_in. cbn [fold_right nadd n0 ROps].
    rewrite nofnat_INR. lra.
  - rewrite hist_counts_cons. unfold sumF. cbn [fold_right]. fold (sumF ROps (hist_counts ROps (b :: c :: r) xs)).
    apply ssorted_cons_inv in S as [S F].
    rewrite (IH b c xs S). rewrite nofnat_INR. cbn [nadd ROps]. rewrite <- plus_INR. f_equal.
    unfold count_in. change (last (b :: c :: r) 0) with (last (c :: r) 0).
    pose proof (ssorted_le_last _ _ S) as HL. change (last (b :: c :: r) 0) with (last (c :: r) 0) in HL.
    inversion F as [|? ? Hab _]; subst.
    apply count_split; intros x.
    + destruct (nleb ROps a x) eqn:E1, (nleb ROps x (last (c :: r) 0)) eqn:E2,
               (nltb ROps x b) eqn:E3, (nleb ROps b x) eqn:E4; cbn [andb orb]; try reflexivity; exfalso;
      rewrite ?nleb_true, ?nleb_false in *; cbn [nltb ROps] in E3;
      rewrite ?Rltb_true, ?Rltb_false in *; lra.
    + destruct (nleb ROps a x) eqn:E1, (nleb ROps x (last (c :: r) 0)) eqn:E2,
               (nltb ROps x b) eqn:E3, (nleb ROps b x) eqn:E4; cbn [andb orb]; try reflexivity; exfalso;
      rewrite ?nleb_true, ?nleb_false in *; cbn [nltb ROps] in E3;
      rewrite ?Rltb_true, ?Rltb_false in *; lra.
Qed.

Theorem hist_counts_total : forall edges xs, ssorted edges -> (2 <= length edges)%nat ->
  sumF ROps (hist_counts ROps edges xs) =
  INR (length (filter (fun x => nleb ROps (hd 0 edges) x && nleb ROps x (last edges 0)) xs)).
Proof.
  intros [|a [|b r]] xs S L; cbn [length] in L; try lia.
  rewrite hist_total_aux by exact S. reflexivity.
Qed.

(* ================================================================== *)
(* C17: filter_by_spike_sync                                           *)

(* the per-spike indicator has one entry per spike of the first train *)
Lemma coinc_single_loop_length tau : forall f1 p1 p2 f2,
  length (coinc_single_loop ROps tau p1 f1 p2 f2) = length f1.
Proof.
  induction f1 as [|x f1 IH]; intros p1 p2 f2; [reflexivity|].
  cbn [coinc_single_loop].
  destruct (skip_before ROps x p2 f2) as [q2 g2].
  destruct g2 as [|z g2'].
  - cbn [length]. rewrite IH. reflexivity.
  - destruct q2 as [|y q2'].
    + cbn [length]. rewrite IH. reflexivity.
    + destruct (nltb ROps y x); cbn [length]; rewrite IH; reflexivity.
Qed.

Lemma coincidence_single_length gt s1 s2 ts te mt m :
  length (coincidence_single_gen ROps gt s1 s2 ts te mt m) = length s1.
Proof. apply coinc_single_loop_length. Qed.

Lemma sumlists_length cs n : (forall c, In c cs -> length c = n) ->
  length (sumlists ROps cs n) = n.
Proof.
  unfold sumlists. intros H.
  assert (G : forall acc, length acc = n ->
            length (fold_left (fun acc c => map (fun p => nadd ROps (fst p) (snd p)) (combine acc c)) cs acc) = n).
  { induction cs as [|c cs IH]; intros acc Ha; [exact Ha|].
    cbn [fold_left]. apply IH.
    - intros c' Hc'. apply H. right; exact Hc'.
    - rewrite map_length, combine_length, Ha, (H c (or_introl eq_refl)). lia. }
  apply G. apply repeat_length.
Qed.

(* selection of the positions of [s] flagged in [mask] *)
Definition select (mask : list bool) (s : list R) : list R :=
  map fst (filter snd (combine s mask)).

Inductive subseq : list R -> list R -> Prop :=
| subseq_nil : subseq [] []
| subseq_keep x k s : subseq k s -> subseq (x :: k) (x :: s)
| subseq_drop x k s : subseq k s -> subseq k (x :: s).

Lemma select_cons b mask a s :
  select (b :: mask) (a :: s) = if b then a :: select mask s else select mask s.
Proof. unfold select. cbn [combine filter snd]. destruct b; reflexivity. Qed.

Lemma tagged_select (f : R -> bool) : forall (s c : list R),
  map fst (filter (fun p => f (snd p)) (combine s c)) = select (map f c) s.
Proof.
  induction s as [|a s IH]; intros [|v c]; try reflexivity.
  cbn [map]. rewrite select_cons. cbn [combine filter snd]. destruct (f v); cbn [map fst]; rewrite IH; reflexivity.
Qed.

Lemma select_subseq : forall s mask, length mask = length s -> subseq (select mask s) s.
Proof.
  induction s as [|a s IH]; intros [|b mask] H; try discriminate; [constructor|].
  rewrite select_cons. injection H as H. destruct b; constructor; auto.
Qed.

Lemma subseq_In k s x : subseq k s -> In x k -> In x s.
Proof. induction 1; cbn [In]; intuition. Qed.

Lemma select_In_union : forall s mask x, length mask = length s ->
  (In x s <-> In x (select mask s) \/ In x (select (map negb mask) s)).
Proof.
  induction s as [|a s IH]; intros [|b mask] x H; try discriminate.
  - cbn. tauto.
  - injection H as H. cbn [map]. rewrite !select_cons. specialize (IH mask x H).
    destruct b; cbn [negb In]; tauto.
Qed.

Definition memR (k : list R) (x : R) : bool := existsb (Reqb x) k.
Lemma memR_In k x : memR k x = true <-> In x k.
Proof.
  unfold memR. rewrite existsb_exists. split.
  - intros (y & Hy & E). apply Reqb_true in E. subst; exact Hy.
  - intros H. exists x. split; [exact H|]. apply Reqb_true. reflexivity.
Qed.

(* for duplicate-free spikes the selection is a filter by value *)
Lemma select_filter : forall s mask, length mask = length s -> NoDup s ->
  select mask s = filter (memR (select mask s)) s /\
  select (map negb mask) s = filter (fun x => negb (memR (select mask s) x)) s.
Proof.
  induction s as [|a s IH]; intros [|b mask] H ND; try discriminate; [split; reflexivity|].
  injection H as H. inversion ND as [|? ? Ha ND']; subst.
  destruct (IH mask H ND') as [E1 E2].
  assert (Hsub : forall x, In x (select mask s) -> In x s)
    by (intros x; apply subseq_In, select_subseq, H).
  cbn [map]. rewrite !select_cons. destruct b; cbn [negb filter].
  - assert (Ma : memR (a :: select mask s) a = true) by (apply memR_In; left; reflexivity).
    rewrite Ma. cbn [negb].
    assert (Ext : forall x, In x s -> memR (a :: select mask s) x = memR (select mask s) x).
    { intros x Hx. unfold memR. cbn [existsb]. destruct (Reqb_spec x a) as [->|_]; [contradiction|reflexivity]. }
    split.
    + f_equal. rewrite E1 at 1. apply filter_ext_in. intros x Hx. symmetry. apply Ext, Hx.
    + rewrite E2. apply filter_ext_in. intros x Hx. rewrite Ext by exact Hx. reflexivity.
  - assert (Ma : memR (select mask s) a = false).
    { destruct (memR (select mask s) a) eqn:E; [|reflexivity]. apply memR_In, Hsub in E. contradiction. }
    rewrite Ma. cbn [negb]. split; [exact E1 | f_equal; exact E2].
Qed.

Theorem filter_partition : forall eps cy rc mt m thr (l : list trainR) k r,
  In (k, r) (filter_by_spike_sync ROps eps cy rc mt m thr l) ->
  exists st mask,
    In st (if rc then reconcile ROps eps l else l) /\
    tr_start k = tr_start st /\ tr_end k = tr_end st /\
    tr_start r = tr_start st /\ tr_end r = tr_end st /\
    length mask = length (tr_spikes st) /\
    tr_spikes k = select mask (tr_spikes st) /\
    tr_spikes r = select (map negb mask) (tr_spikes st) /\
    (forall x, In x (tr_spikes st) <-> In x (tr_spikes k) \/ In x (tr_spikes r)) /\
    subseq (tr_spikes k) (tr_spikes st) /\ subseq (tr_spikes r) (tr_spikes st) /\
    (NoDup (tr_spikes st) ->
       (exists p, tr_spikes k = filter p (tr_spikes st) /\
                  tr_spikes r = filter (fun x => negb (p x)) (tr_spikes st)) /\
       (forall x, In x (tr_spikes k) -> In x (tr_spikes r) -> False)).
Proof.
  intros eps cy rc mt m thr l k r H. unfold filter_by_spike_sync in H. cbv zeta in H.
  set (l' := if rc then reconcile ROps eps l else l) in *.
  apply in_map_iff in H as (i & E & Hi). apply in_seq in Hi.
  set (st := nth_train ROps l' i) in *.
  set (c := sumlists ROps _ _) in E.
  set (lim := nmul ROps thr _) in E.
  assert (Lc : length c = length (tr_spikes st)).
  { apply sumlists_length. intros c0 Hc0. apply in_map_iff in Hc0 as (t & <- & _).
    apply coincidence_single_length. }
  set (f := fun v : R => nltb ROps lim v).
  set (mask := map f c).
  assert (Lm : length mask = length (tr_spikes st)) by (unfold mask; rewrite map_length; exact Lc).
  injection E as Ek Er.
  rewrite (tagged_select f) in Ek.
  change (fun p : R * R => nleb ROps (snd p) lim) with (fun p : R * R => (fun v => negb (f v)) (snd p)) in Er.
  rewrite (tagged_select (fun v => negb (f v))) in Er.
  rewrite <- (map_map f negb) in Er. fold mask in Ek, Er.
  assert (Sk : tr_spikes k = select mask (tr_spikes st)) by (rewrite <- Ek; reflexivity).
  assert (Sr : tr_spikes r = select (map negb mask) (tr_spikes st)) by (rewrite <- Er; reflexivity).
  exists st, mask. rewrite <- Ek, <- Er. cbn [tr_start tr_end fst snd].
  split; [apply nth_In; lia|].
  do 5 (split; [reflexivity || exact Lm|]).
  change (tr_spikes (select mask (tr_spikes st), tr_start st, tr_end st)) with (select mask (tr_spikes st)).
  change (tr_spikes (select (map negb mask) (tr_spikes st), tr_start st, tr_end st))
    with (select (map negb mask) (tr_spikes st)).
  split; [reflexivity|]. split; [reflexivity|].
  split; [intros x; apply select_In_union, Lm|].
  split; [apply select_subseq, Lm|].
  split; [apply select_subseq; rewrite map_length; exact Lm|].
  intros ND. destruct (select_filter _ _ Lm ND) as [F1 F2]. split.
  - exists (memR (select mask (tr_spikes st))). split; assumption.
  - intros x Hk Hr. rewrite F1 in Hk. rewrite F2 in Hr.
    apply filter_In in Hk as [_ Hk]. apply filter_In in Hr as [_ Hr].
    rewrite Hk in Hr. discriminate.
Qed.

Lemma INR_pred_nonneg n : 0 <= nofnat ROps (n - 1).
Proof. rewrite nofnat_INR. apply pos_INR. Qed.

Theorem filter_mono_thr : forall eps cy rc mt m thr thr' (l : list trainR), thr <= thr' ->
  Forall2 (fun kr kr' => incl (tr_spikes (fst kr')) (tr_spikes (fst kr)))
          (filter_by_spike_sync ROps eps cy rc mt m thr l)
          (filter_by_spike_sync ROps eps cy rc mt m thr' l).
Proof.
  intros eps cy rc mt m thr thr' l Hthr. unfold filter_by_spike_sync. cbv zeta.
  set (l' := if rc then reconcile ROps eps l else l).
  induction (seq 0 (length l')) as [|i s IH]; cbn [map]; constructor; [|exact IH].
  cbn [fst tr_spikes]. intros x Hx.
  apply in_map_iff in Hx as (p & <- & Hp). apply filter_In in Hp as [Hp Hv].
  apply in_map. apply filter_In. split; [exact Hp|].
  cbn [nltb nmul ROps] in *. apply Rltb_true in Hv. apply Rltb_true.
  pose proof (INR_pred_nonneg (length l')) as Hn.
  assert (thr * nofnat ROps (length l' - 1) <= thr' * nofnat ROps (length l' - 1)) by nra.
  lra.
Qed.

(* ================================================================== *)
Print Assumptions sort_unique_In.
Print Assumptions sort_unique_filter.
Print Assumptions reconcile_eq_spec.
Print Assumptions reconcile_idem.
Print Assumptions reconcile_valid_id.
Print Assumptions reconcile_messy.
Print Assumptions pairs_of_positions.
Print Assumptions distance_multi_indices.
Print Assumptions profile_multi_indices.
Print Assumptions matrix_indices.
Print Assumptions dirvalues_indices.
Print Assumptions merge_spec.
Print Assumptions hist_counts_total.
Print Assumptions filter_partition.
Print Assumptions filter_mono_thr.
