(* SyncDefs.v — shared definitions for the coincidence-scan lemmas (C03/C04/C05). *)
From Coq Require Import List Bool.
Import ListNotations.
From PS Require Import Num ModelKernels.

(* An event list of the merged coincidence scan is [clean] when every event
   that reports a coincidence is directly preceded by a single-spike event of
   the *other* train that did not itself report a coincidence (so the look-back
   write of the profile code hits an unmarked multiplicity-1 entry, and no
   spike is counted in two pairs). *)
Fixpoint clean_from {F} (prev : option (@sev F)) (evs : list (@sev F)) : bool :=
  match evs with
  | [] => true
  | e :: r =>
      (match e with
       | Adv1 _ true => match prev with Some (Adv2 _ false) => true | _ => false end
       | Adv2 _ true => match prev with Some (Adv1 _ false) => true | _ => false end
       | _ => true
       end) && clean_from (Some e) r
  end.

Definition swap_ev {F} (e : @sev F) : @sev F :=
  match e with Adv1 t h => Adv2 t h | Adv2 t h => Adv1 t h | Both t => Both t end.
