(* Valid.v — the input domain the properties quantify over, for the R instance. *)
From Coq Require Import List Bool Reals Lra Sorted.
Import ListNotations.
From PS Require Import Num RLemmas.
Local Open Scope R_scope.

(* strictly increasing *)
Definition ssorted (l : list R) : Prop := StronglySorted Rlt l.

(* a valid spike train on [ts, te]: sorted, duplicate free, inside the interval *)
Definition valid (ts te : R) (s : list R) : Prop :=
  ts < te /\ ssorted s /\ Forall (fun x => ts <= x <= te) s.

(* a well-formed piecewise function support: at least two strictly increasing breakpoints *)
Definition wf_x (xs : list R) : Prop := ssorted xs /\ (2 <= length xs)%nat.
Definition wf_pwc (f : list R * list R) : Prop :=
  wf_x (fst f) /\ length (fst f) = S (length (snd f)).
Definition wf_pwl (f : list R * list R * list R) : Prop :=
  wf_x (fst (fst f)) /\ length (fst (fst f)) = S (length (snd (fst f)))
  /\ length (snd (fst f)) = length (snd f).

Lemma ssorted_cons_inv x l : ssorted (x :: l) -> ssorted l /\ Forall (fun y => x < y) l.
Proof. intros H; inversion H; subst; auto. Qed.
Lemma ssorted_cons x l : ssorted l -> Forall (fun y => x < y) l -> ssorted (x :: l).
Proof. intros; constructor; auto. Qed.
Lemma ssorted_nil : ssorted []. Proof. constructor. Qed.
Lemma ssorted_app_inv l1 l2 : ssorted (l1 ++ l2) ->
  ssorted l1 /\ ssorted l2 /\ forall x y, In x l1 -> In y l2 -> x < y.
Proof.
  induction l1 as [|a l1 IH]; cbn; intros H.
  - repeat split; auto using ssorted_nil. intros ? ? [].
  - apply ssorted_cons_inv in H as [H1 H2]. apply IH in H1 as (S1 & S2 & H3).
    rewrite Forall_app in H2. destruct H2 as [F1 F2].
    repeat split; auto.
    + apply ssorted_cons; auto.
    + intros x y [->|Hx] Hy; [rewrite Forall_forall in F2; auto | auto].
Qed.
