(* Lem_Smooth.v — DiscreteFunc.get_plottable_data(averaging_window_size = k), k > 0:
   the model [df_plottable] against a declarative "windowed mean of unit
   contributions" specification.

   Reading.  An entry (x, y, mp) stands for mp unit contributions of value
   y / mp each.  With E := (k+1) * mp_0 (mp_0 = multiplicity of the first entry,
   "one profile's worth"), the smoothed value at entry e is
     - y_e / mp_e                                   when E <= mp_e;
     - otherwise the mean of the window made of all units of e, the nearest
       (E - mp_e) units' worth of multiplicity to the right and the nearest
       (E - mp_e) units' worth to the left (fewer if the profile ends first):
         (y_e + yr + yl) / (mp_e + mr + ml)
       where (yr, mr) = take (E - mp_e) right, (yl, ml) = take (E - mp_e) left.
   [take b l] consumes the entries of l in order while budget remains: an entry
   with mp <= remaining budget is taken whole, the first entry with
   mp > remaining budget contributes the fraction (y * budget / mp, budget) and
   the walk stops.

   Boundary.  The code uses the STRICT test  mp_acc + mp_j < E  for "take the
   whole entry", so an entry that makes the accumulated multiplicity hit E
   exactly goes through the "fraction" branch with fraction mp_j / mp_j = 1 and
   the walk stops; [take] (non-strict test) takes it whole and then takes a zero
   fraction of the next entry.  The two agree as soon as all multiplicities are
   positive (lemma [take_strict]); this is the only place where positivity of
   the multiplicities is needed. *)
From Coq Require Import List Bool Arith ZArith QArith Reals Lra Lia Sorted Permutation.
Import ListNotations.
From PS Require Import Num RLemmas Valid ModelKernels ModelFuncs ModelAPI Spec SyncDefs.
Local Open Scope R_scope.

(* ------------------------------------------------------------------ *)
(* the specification, written once over the number interface so that the very
   same definition can be executed on Q and reasoned about on R          *)

Section SpecG.
  Context {F : Type} (o : NumOps F).

  Fixpoint take_g (b : F) (l : list (@dentry F)) : F * F :=
    match l with
    | [] => (n0 o, n0 o)
    | e :: r =>
        if nleb o (d_mp e) b then
          let '(y, m) := take_g (nsub o b (d_mp e)) r in (nadd o (d_y e) y, nadd o (d_mp e) m)
        else (ndiv o (nmul o (d_y e) b) (d_mp e), b)
    end.

  Definition smooth_spec_g (E : F) (left_rev right : list (@dentry F)) (e : @dentry F) : F :=
    if nleb o E (d_mp e) then ndiv o (d_y e) (d_mp e)
    else
      let b := nsub o E (d_mp e) in
      let '(yr, mr) := take_g b right in
      let '(yl, ml) := take_g b left_rev in
      ndiv o (nadd o (nadd o (d_y e) yr) yl) (nadd o (nadd o (d_mp e) mr) ml).

  Definition plottable_spec_g (f : list (@dentry F)) (k : nat) : list F :=
    let E := nmul o (nofnat o (k + 1)) (d_mp (nth 0 f (n0 o, n0 o, n0 o))) in
    map (fun i => smooth_spec_g E (rev (firstn i f)) (skipn (S i) f) (nth i f (n0 o, n0 o, n0 o)))
        (seq 0 (length f)).
End SpecG.

(* ------------------------------------------------------------------ *)
(* experiments on the Q instance *)

Module QChecks.
  Local Open Scope Q_scope.
  Definition agree (f : list (Q*Q*Q)) (k : nat) : bool :=
    let a := snd (df_plottable QOps f k) in
    let b := plottable_spec_g QOps f k in
    Nat.eqb (length a) (length b) && forallb (fun p => Qeq_bool (fst p) (snd p)) (combine a b).
  Definition agree123 f := agree f 1 && agree f 2 && agree f 3.

  (* all multiplicities 1 *)
  Definition f1 : list (Q*Q*Q) :=
    [(0,1,1);(1#10,0,1);(2#10,1,1);(3#10,1#2,1);(4#10,0,1);(5#10,1,1);(6#10,1#3,1);(1,1,1)].
  (* multiplicities 2 and 3 inside, mp_0 = 1 *)
  Definition f2 : list (Q*Q*Q) :=
    [(0,1,1);(1#10,1,2);(2#10,3,3);(3#10,1#2,1);(4#10,2,2);(5#10,1,1);(6#10,1,3);(1,1,1)].
  (* "three profiles" : mp_0 = 3, interior multiplicities 1..3 and one of 6, 9 *)
  Definition f3 : list (Q*Q*Q) :=
    [(0,2,3);(1#10,1,1);(2#10,2,2);(3#10,1,3);(4#10,5,6);(5#10,0,1);(6#10,7,9);(7#10,1,2);(1,3,3)].
  (* exact-E boundary: k=1, E=2: entry of mp 1 followed by entry of mp 1 hits 2 exactly;
     k=2, E=3: 1 + 2 hits 3 exactly; k=3, E=4: 1 + 3 and 2 + 2 *)
  Definition f4 : list (Q*Q*Q) :=
    [(0,1,1);(1#10,2,2);(2#10,1,1);(3#10,3,3);(4#10,0,1);(5#10,1,2);(6#10,2,2);(1,1,1)].
  (* short profiles, windows run off both ends *)
  Definition f5 : list (Q*Q*Q) := [(0,1,1);(1,1#2,1)].
  Definition f6 : list (Q*Q*Q) := [(0,1,2);(1#2,1,1);(1,1#2,2)].
  Definition f7 : list (Q*Q*Q) := [(0,1,1)].
  Definition f8 : list (Q*Q*Q) := [].

  Example chk1 : agree123 f1 = true. Proof. vm_compute. reflexivity. Qed.
  Example chk2 : agree123 f2 = true. Proof. vm_compute. reflexivity. Qed.
  Example chk3 : agree123 f3 = true. Proof. vm_compute. reflexivity. Qed.
  Example chk4 : agree123 f4 = true. Proof. vm_compute. reflexivity. Qed.
  Example chk5 : agree123 f5 = true. Proof. vm_compute. reflexivity. Qed.
  Example chk6 : agree123 f6 = true. Proof. vm_compute. reflexivity. Qed.
  Example chk7 : agree123 f7 = true. Proof. vm_compute. reflexivity. Qed.
  Example chk8 : agree123 f8 = true. Proof. vm_compute. reflexivity. Qed.
End QChecks.

(* ------------------------------------------------------------------ *)
(* the R instance of the specification and its defining equations      *)

Definition take : R -> list (R*R*R) -> R * R := take_g ROps.
Definition smooth_spec : R -> list (R*R*R) -> list (R*R*R) -> R*R*R -> R := smooth_spec_g ROps.

Definition pos_mp (l : list (R*R*R)) : Prop := Forall (fun e => 0 < d_mp e) l.

Lemma take_nil b : take b [] = (0, 0).
Proof. reflexivity. Qed.

(* an entry that fits in the remaining budget is taken whole *)
Lemma take_whole b e r : d_mp e <= b ->
  take b (e :: r) = (d_y e + fst (take (b - d_mp e) r), d_mp e + snd (take (b - d_mp e) r)).
Proof.
  intros H. unfold take. cbn [take_g].
  apply nleb_true in H. rewrite H. cbn [nadd nsub ROps].
  destruct (take_g ROps (b - d_mp e) r) as [y m]. reflexivity.
Qed.

(* the first entry that does not fit contributes the fraction budget / mp, and the walk stops *)
Lemma take_frac b e r : b < d_mp e ->
  take b (e :: r) = (d_y e * b / d_mp e, b).
Proof.
  intros H. unfold take. cbn [take_g].
  apply nleb_false in H. rewrite H. reflexivity.
Qed.

Lemma smooth_large_mp E l r e : E <= d_mp e -> smooth_spec E l r e = d_y e / d_mp e.
Proof.
  intros H. unfold smooth_spec, smooth_spec_g. apply nleb_true in H. rewrite H. reflexivity.
Qed.

Lemma smooth_small_mp E l r e : d_mp e < E ->
  smooth_spec E l r e =
  (d_y e + fst (take (E - d_mp e) r) + fst (take (E - d_mp e) l))
  / (d_mp e + snd (take (E - d_mp e) r) + snd (take (E - d_mp e) l)).
Proof.
  intros H. unfold smooth_spec, smooth_spec_g, take. apply nleb_false in H. rewrite H.
  cbn [nadd nsub ndiv ROps].
  destruct (take_g ROps (E - d_mp e) r) as [yr mr].
  destruct (take_g ROps (E - d_mp e) l) as [yl ml]. reflexivity.
Qed.

(* with no budget nothing is taken *)
Lemma take_zero l : pos_mp l -> take 0 l = (0, 0).
Proof.
  intros P. destruct l as [|e r]; [reflexivity|].
  inversion P as [|? ? He _]; subst.
  rewrite take_frac by exact He. f_equal. unfold Rdiv. ring.
Qed.

(* the strict test of the code and the non-strict test of [take] agree *)
Lemma take_strict b e r : pos_mp (e :: r) -> b <= d_mp e ->
  take b (e :: r) = (d_y e * b / d_mp e, b).
Proof.
  intros P H. inversion P as [|? ? He Pr]; subst.
  destruct (Rle_lt_or_eq_dec _ _ H) as [Hlt|Heq].
  - apply take_frac; exact Hlt.
  - rewrite take_whole by lra. subst b. replace (d_mp e - d_mp e) with 0 by ring.
    rewrite (take_zero r Pr). cbn [fst snd]. f_equal; [field; lra | ring].
Qed.

(* what is taken: never more than the budget, never more than there is *)
Lemma take_mp_le_budget : forall l b, 0 <= b -> pos_mp l -> 0 <= snd (take b l) <= b.
Proof.
  induction l as [|e r IH]; intros b Hb P.
  - rewrite take_nil. cbn [snd]. lra.
  - inversion P as [|? ? He Pr]; subst.
    destruct (Rle_lt_dec (d_mp e) b) as [Hle|Hlt].
    + rewrite take_whole by exact Hle. cbn [snd].
      assert (H := IH (b - d_mp e) ltac:(lra) Pr). lra.
    + rewrite take_frac by exact Hlt. cbn [snd]. lra.
Qed.

Lemma sum_mp_cons (e : R*R*R) l :
  sumF ROps (map (@d_mp R) (e :: l)) = d_mp e + sumF ROps (map (@d_mp R) l).
Proof. reflexivity. Qed.

Lemma sum_mp_nonneg l : pos_mp l -> 0 <= sumF ROps (map (@d_mp R) l).
Proof.
  induction l as [|a l IHl]; intros P.
  - cbn. lra.
  - inversion P as [|? ? Ha Pl]; subst. rewrite sum_mp_cons. specialize (IHl Pl). lra.
Qed.

Lemma take_mp_exact : forall l b, 0 <= b -> pos_mp l ->
  snd (take b l) = Rmin b (sumF ROps (map (@d_mp R) l)).
Proof.
  induction l as [|e r IH]; intros b Hb P.
  - rewrite take_nil. cbn [snd map]. unfold sumF; cbn [fold_right n0 ROps].
    unfold Rmin. destruct (Rle_dec b 0); lra.
  - inversion P as [|? ? He Pr]; subst.
    assert (S0 : 0 <= sumF ROps (map (@d_mp R) r)).
    { apply sum_mp_nonneg; exact Pr. }
    assert (Sc : sumF ROps (map (@d_mp R) (e :: r)) = d_mp e + sumF ROps (map (@d_mp R) r)).
    { apply sum_mp_cons. }
    rewrite Sc.
    destruct (Rle_lt_dec (d_mp e) b) as [Hle|Hlt].
    + rewrite take_whole by exact Hle. cbn [snd]. rewrite IH by (lra || exact Pr).
      unfold Rmin. destruct (Rle_dec (b - d_mp e) _), (Rle_dec b _); lra.
    + rewrite take_frac by exact Hlt. cbn [snd].
      unfold Rmin. destruct (Rle_dec b _); lra.
Qed.

(* values between 0 and the multiplicity: the taken value is between 0 and the taken multiplicity *)
Definition unit_range (l : list (R*R*R)) : Prop :=
  Forall (fun e => 0 < d_mp e /\ 0 <= d_y e <= d_mp e) l.

Lemma unit_range_pos l : unit_range l -> pos_mp l.
Proof. unfold unit_range, pos_mp. apply Forall_impl. tauto. Qed.

Lemma take_range : forall l b, 0 <= b -> unit_range l ->
  0 <= fst (take b l) <= snd (take b l).
Proof.
  induction l as [|e r IH]; intros b Hb P.
  - rewrite take_nil. cbn [fst snd]. lra.
  - inversion P as [|? ? [He Hy] Pr]; subst.
    destruct (Rle_lt_dec (d_mp e) b) as [Hle|Hlt].
    + rewrite take_whole by exact Hle. cbn [fst snd].
      assert (H := IH (b - d_mp e) ltac:(lra) Pr). lra.
    + rewrite take_frac by exact Hlt. cbn [fst snd].
      assert (Hq : 0 <= d_y e / d_mp e <= 1).
      { split; [apply Rmult_le_pos; [lra | left; apply Rinv_0_lt_compat; lra]
               | apply Rmult_le_reg_r with (d_mp e); [lra | unfold Rdiv; rewrite Rmult_assoc, Rinv_l by lra; lra]]. }
      replace (d_y e * b / d_mp e) with (b * (d_y e / d_mp e)) by (unfold Rdiv; ring).
      nra.
Qed.

(* ------------------------------------------------------------------ *)
(* the side walk of the code is [take] of the remaining budget         *)

Lemma df_side_take : forall l expm y mp_s, pos_mp l ->
  df_side ROps expm y mp_s l =
  (y + fst (take (expm - mp_s) l), mp_s + snd (take (expm - mp_s) l)).
Proof.
  induction l as [|e r IH]; intros expm y mp_s P.
  - cbn [df_side]. rewrite take_nil. cbn [fst snd]. f_equal; ring.
  - inversion P as [|? ? He Pr]; subst.
    cbn [df_side]. cbn [nadd nsub nmul ndiv nltb ROps].
    destruct (Rltb_spec (mp_s + d_mp e) expm) as [Hlt|Hge].
    + rewrite (IH expm (y + d_y e) (mp_s + d_mp e) Pr).
      rewrite take_whole by lra. cbn [fst snd].
      replace (expm - (mp_s + d_mp e)) with (expm - mp_s - d_mp e) by ring.
      f_equal; ring.
    + rewrite (take_strict (expm - mp_s) e r P) by lra. cbn [fst snd]. reflexivity.
Qed.

(* the loop, entry by entry: [left] is the reversed prefix *)
Fixpoint smooth_all (E : R) (left right : list (R*R*R)) : list R :=
  match right with
  | [] => []
  | e :: r => smooth_spec E left r e :: smooth_all E (e :: left) r
  end.

Lemma df_plot_loop_smooth_all : forall right E left, pos_mp left -> pos_mp right ->
  df_plot_loop ROps E left right = smooth_all E left right.
Proof.
  induction right as [|e r IH]; intros E left Pl Pr.
  - reflexivity.
  - inversion Pr as [|? ? He Pr']; subst.
    cbn [df_plot_loop smooth_all]. f_equal.
    + cbn [nltb ROps].
      destruct (Rltb_spec (d_mp e) E) as [Hlt|Hge].
      * rewrite (df_side_take r E (d_y e) (d_mp e) Pr').
        rewrite (df_side_take left E _ (d_mp e) Pl).
        rewrite smooth_small_mp by exact Hlt.
        cbn [nadd nsub ndiv ROps]. f_equal. ring.
      * rewrite smooth_large_mp by lra. reflexivity.
    + apply IH; [constructor; assumption | exact Pr'].
Qed.

(* indexing the loop: entry i sees the reversed prefix and the suffix *)
Lemma smooth_all_index (d : R*R*R) : forall right E left,
  smooth_all E left right =
  map (fun i => smooth_spec E (rev (firstn i (rev left ++ right)))
                             (skipn (S i) (rev left ++ right))
                             (nth i (rev left ++ right) d))
      (seq (length left) (length right)).
Proof.
  induction right as [|e r IH]; intros E left.
  - reflexivity.
  - cbn [smooth_all length seq map]. f_equal.
    + assert (L : length (rev left) = length left) by apply rev_length.
      f_equal.
      * rewrite <- L, firstn_app, Nat.sub_diag, firstn_all. cbn [firstn].
        rewrite app_nil_r, rev_involutive. reflexivity.
      * rewrite <- L. replace (S (length (rev left))) with (length (rev left) + 1)%nat by lia.
        rewrite skipn_app. replace (length (rev left) + 1 - length (rev left))%nat with 1%nat by lia.
        rewrite skipn_all2 by lia. reflexivity.
      * rewrite <- L, app_nth2, Nat.sub_diag by lia. reflexivity.
    + rewrite (IH E (e :: left)). cbn [rev length]. rewrite <- app_assoc. reflexivity.
Qed.

Lemma nofnat_INR k : nofnat ROps k = INR k.
Proof. unfold nofnat; cbn [nofZ ROps]. symmetry; apply INR_IZR_INZ. Qed.

(* ------------------------------------------------------------------ *)
(* main theorem *)

Theorem df_plottable_spec : forall (f : list (R*R*R)) (k : nat), (0 < k)%nat ->
  Forall (fun e => 0 < d_mp e) f ->
  df_plottable ROps f k =
  (map (@d_x R) f,
   map (fun i => smooth_spec (INR (k + 1) * d_mp (nth 0 f (0,0,0)))
                             (rev (firstn i f)) (skipn (S i) f) (nth i f (0,0,0)))
       (seq 0 (length f))).
Proof.
  intros f k Hk P. destruct k as [|k']; [lia|].
  unfold df_plottable. f_equal.
  rewrite nofnat_INR. cbn [nmul ROps].
  rewrite df_plot_loop_smooth_all; [| constructor | exact P].
  rewrite (smooth_all_index (0,0,0)). cbn [rev app length].
  destruct f; reflexivity.
Qed.

(* the same statement against the executable specification checked on Q above *)
Corollary df_plottable_spec_g : forall (f : list (R*R*R)) (k : nat), (0 < k)%nat ->
  Forall (fun e => 0 < d_mp e) f ->
  df_plottable ROps f k = (map (@d_x R) f, plottable_spec_g ROps f k).
Proof.
  intros f k Hk P. rewrite df_plottable_spec by assumption.
  unfold plottable_spec_g. rewrite nofnat_INR. reflexivity.
Qed.

(* ------------------------------------------------------------------ *)
(* corollaries *)

Theorem smooth_k0 : forall f : list (R*R*R),
  df_plottable ROps f 0 = (map (@d_x R) f, map (fun e => d_y e / d_mp e) f).
Proof. intros f. reflexivity. Qed.

Lemma nth_map_seq {A} (g : nat -> A) n i d : (i < n)%nat -> nth i (map g (seq 0 n)) d = g i.
Proof.
  intros H. rewrite (nth_indep _ d (g 0%nat)) by (rewrite map_length, seq_length; exact H).
  rewrite map_nth, seq_nth by exact H. reflexivity.
Qed.

(* the i-th plotted value is the windowed mean around entry i *)
Corollary df_plottable_nth : forall (f : list (R*R*R)) k i, (0 < k)%nat ->
  Forall (fun e => 0 < d_mp e) f -> (i < length f)%nat ->
  nth i (snd (df_plottable ROps f k)) 0 =
  smooth_spec (INR (k + 1) * d_mp (nth 0 f (0,0,0)))
              (rev (firstn i f)) (skipn (S i) f) (nth i f (0,0,0)).
Proof.
  intros f k i Hk P Hi. rewrite df_plottable_spec by assumption. cbn [snd].
  apply nth_map_seq with (g := fun i => smooth_spec _ (rev (firstn i f)) (skipn (S i) f) (nth i f (0,0,0))).
  exact Hi.
Qed.

(* an entry that already carries the wanted multiplicity is not smoothed *)
Corollary df_plottable_large_mp : forall (f : list (R*R*R)) k i, (0 < k)%nat ->
  Forall (fun e => 0 < d_mp e) f -> (i < length f)%nat ->
  INR (k + 1) * d_mp (nth 0 f (0,0,0)) <= d_mp (nth i f (0,0,0)) ->
  nth i (snd (df_plottable ROps f k)) 0 = d_y (nth i f (0,0,0)) / d_mp (nth i f (0,0,0)).
Proof.
  intros f k i Hk P Hi HE. rewrite df_plottable_nth by assumption.
  apply smooth_large_mp. exact HE.
Qed.

(* range: values between 0 and their multiplicity give smoothed values in [0, 1] *)
Lemma div_unit y m : 0 < m -> 0 <= y <= m -> 0 <= y / m <= 1.
Proof.
  intros Hm Hy. split.
  - apply Rmult_le_pos; [lra | left; apply Rinv_0_lt_compat; exact Hm].
  - apply Rmult_le_reg_r with m; [exact Hm|].
    unfold Rdiv. rewrite Rmult_assoc, Rinv_l by lra. lra.
Qed.

Lemma smooth_spec_range E l r e : unit_range l -> unit_range r ->
  0 < d_mp e -> 0 <= d_y e <= d_mp e ->
  0 <= smooth_spec E l r e <= 1.
Proof.
  intros Ul Ur He Hy.
  destruct (Rle_lt_dec E (d_mp e)) as [Hle|Hlt].
  - rewrite smooth_large_mp by exact Hle. apply div_unit; assumption.
  - rewrite smooth_small_mp by exact Hlt.
    assert (Hb : 0 <= E - d_mp e) by lra.
    assert (Rr := take_range r _ Hb Ur).
    assert (Rl := take_range l _ Hb Ul).
    apply div_unit; lra.
Qed.

Theorem smooth_range : forall (f : list (R*R*R)) k,
  Forall (fun e => 0 < d_mp e /\ 0 <= d_y e <= d_mp e) f ->
  Forall (fun v => 0 <= v <= 1) (snd (df_plottable ROps f k)).
Proof.
  intros f k U. destruct k as [|k'].
  - rewrite smooth_k0. cbn [snd]. apply Forall_map.
    revert U. apply Forall_impl. intros e [He Hy]. apply div_unit; assumption.
  - rewrite df_plottable_spec; [| lia | apply unit_range_pos; exact U]. cbn [snd].
    apply Forall_map. apply Forall_forall. intros i Hi.
    apply in_seq in Hi. destruct Hi as [_ Hi]. cbn [Nat.add] in Hi.
    assert (U1 : unit_range (firstn i f) /\ unit_range (skipn i f)).
    { apply Forall_app. rewrite firstn_skipn. exact U. }
    assert (U2 : unit_range (firstn (S i) f) /\ unit_range (skipn (S i) f)).
    { apply Forall_app. rewrite firstn_skipn. exact U. }
    assert (Ue : In (nth i f (0,0,0)) f) by (apply nth_In; exact Hi).
    pose proof (proj1 (Forall_forall _ f) U _ Ue) as [He Hy].
    apply smooth_spec_range; [apply Forall_rev; tauto | tauto | exact He | exact Hy].
Qed.

Print Assumptions smooth_range.
Print Assumptions df_plottable_spec.
