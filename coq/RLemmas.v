(* RLemmas.v — the R instance of the number interface: reflection lemmas that
   turn the boolean comparisons and Python-style max/min/abs of [ROps] into
   facts about real numbers, and a tactic [rops] that exposes them to lra. *)

From Coq Require Import List Bool ZArith Reals Lra Lia.
Import ListNotations.
From PS Require Import Num.
Local Open Scope R_scope.

Lemma Rltb_true x y : Rltb x y = true <-> x < y.
Proof. unfold Rltb; destruct (Rlt_dec x y); split; intros; try lra; congruence. Qed.
Lemma Rltb_false x y : Rltb x y = false <-> y <= x.
Proof. unfold Rltb; destruct (Rlt_dec x y); split; intros; try lra; congruence. Qed.
Lemma Reqb_true x y : Reqb x y = true <-> x = y.
Proof. unfold Reqb; destruct (Req_EM_T x y); split; intros; try lra; congruence. Qed.
Lemma Reqb_false x y : Reqb x y = false <-> x <> y.
Proof. unfold Reqb; destruct (Req_EM_T x y); split; intros; try lra; congruence. Qed.

Lemma Rltb_spec x y : reflect (x < y) (Rltb x y).
Proof. destruct (Rltb x y) eqn:E; constructor; [apply Rltb_true in E | apply Rltb_false in E]; lra. Qed.
Lemma Reqb_spec x y : reflect (x = y) (Reqb x y).
Proof. destruct (Reqb x y) eqn:E; constructor; [apply Reqb_true in E | apply Reqb_false in E]; auto. Qed.

Lemma R_nltb x y : nltb ROps x y = Rltb x y. Proof. reflexivity. Qed.
Lemma R_neqb x y : neqb ROps x y = Reqb x y. Proof. reflexivity. Qed.
Lemma R_nleb x y : nleb ROps x y = negb (Rltb y x). Proof. reflexivity. Qed.

Lemma nleb_true x y : nleb ROps x y = true <-> x <= y.
Proof. unfold nleb; cbn [nltb ROps]; destruct (Rltb_spec y x); cbn; split; intros; try lra; congruence. Qed.
Lemma nleb_false x y : nleb ROps x y = false <-> y < x.
Proof. unfold nleb; cbn [nltb ROps]; destruct (Rltb_spec y x); cbn; split; intros; try lra; congruence. Qed.

Lemma R_nmax x y : nmax ROps x y = Rmax x y.
Proof. unfold nmax, Rmax; cbn [nltb ROps]; destruct (Rltb_spec x y), (Rle_dec x y); lra. Qed.
Lemma R_nmin x y : nmin ROps x y = Rmin x y.
Proof. unfold nmin, Rmin; cbn [nltb ROps]; destruct (Rltb_spec y x), (Rle_dec x y); lra. Qed.
Lemma R_nabs x : nabs ROps x = Rabs x.
Proof. unfold nabs, Rabs; cbn [nltb nsub n0 ROps]; destruct (Rltb_spec x 0), (Rcase_abs x); lra. Qed.
Lemma R_n2 : n2 ROps = 2. Proof. unfold n2; cbn; lra. Qed.
Lemma R_n4 : n4 ROps = 4. Proof. unfold n4, n2; cbn; lra. Qed.

(* expose the real-number operations behind [ROps] *)
Ltac rops :=
  repeat first
    [ rewrite R_nmax | rewrite R_nmin | rewrite R_nabs | rewrite R_n2 | rewrite R_n4 ];
  cbn [nadd nsub nmul ndiv n0 n1 nltb neqb nofZ ROps] in *.

(* case split on one boolean comparison, recording the real fact *)
Ltac rcase x y :=
  let H := fresh "H" in destruct (Rltb_spec x y) as [H|H].
Ltac rcases :=
  repeat match goal with
         | |- context [Rltb ?x ?y] => rcase x y
         | |- context [Reqb ?x ?y] => destruct (Reqb_spec x y)
         | H : context [Rltb ?x ?y] |- _ => destruct (Rltb_spec x y)
         | H : context [Reqb ?x ?y] |- _ => destruct (Reqb_spec x y)
         end.

Lemma Rmax_case_strong' x y (P : R -> Prop) : (y <= x -> P x) -> (x <= y -> P y) -> P (Rmax x y).
Proof. intros; unfold Rmax; destruct (Rle_dec x y); auto; apply H; lra. Qed.
Lemma Rmin_case_strong' x y (P : R -> Prop) : (x <= y -> P x) -> (y <= x -> P y) -> P (Rmin x y).
Proof. intros; unfold Rmin; destruct (Rle_dec x y); auto; apply H0; lra. Qed.

(* unfold Rmax / Rmin / Rabs everywhere, then lra *)
Ltac rmm :=
  unfold Rmax, Rmin, Rabs in *;
  repeat match goal with
         | |- context [Rle_dec ?a ?b] => destruct (Rle_dec a b)
         | |- context [Rcase_abs ?a] => destruct (Rcase_abs a)
         | H : context [Rle_dec ?a ?b] |- _ => destruct (Rle_dec a b)
         | H : context [Rcase_abs ?a] |- _ => destruct (Rcase_abs a)
         end.
