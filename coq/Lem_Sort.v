(* Lem_Sort.v — facts about the model of sim_ann_cython / permutate_matrix (ModelSort.v).
   Every theorem holds for all rand() streams [rnd] and all Metropolis oracles [metro]. *)

From Coq Require Import List Bool ZArith Lia Reals Lra Permutation.
From PS Require Import Num RLemmas ModelSort.
Import ListNotations.

(* ------------------------------------------------------------------ *)
(* 1. structural facts, any number type *)

Lemma swap_adj_cons : forall x p i, swap_adj (x :: p) (S i) = x :: swap_adj p i.
Proof. intros x p i. reflexivity. Qed.

Lemma swap_adj_length : forall p i, length (swap_adj p i) = length p.
Proof.
  intros p i. unfold swap_adj.
  transitivity (length (firstn i p ++ skipn i p)); [|now rewrite firstn_skipn].
  rewrite !app_length. f_equal.
  destruct (skipn i p) as [|a [|b r]]; reflexivity.
Qed.

Lemma swap_adj_perm : forall p i, Permutation (swap_adj p i) p.
Proof.
  intros p i. unfold swap_adj.
  apply Permutation_trans with (firstn i p ++ skipn i p);
    [|rewrite firstn_skipn; apply Permutation_refl].
  apply Permutation_app_head.
  destruct (skipn i p) as [|a [|b r]]; try apply Permutation_refl. apply perm_swap.
Qed.

Lemma swap_adj_nth : forall p i, S i < length p ->
   nth i (swap_adj p i) 0%nat = nth (S i) p 0%nat /\ nth (S i) (swap_adj p i) 0%nat = nth i p 0%nat /\
   (forall j, j <> i -> j <> S i -> nth j (swap_adj p i) 0%nat = nth j p 0%nat).
Proof.
  intros p i; revert p. induction i as [|i IH]; intros p Hlt.
  - destruct p as [|a [|b r]]; cbn [length] in Hlt; try lia.
    cbn. split; [reflexivity|]. split; [reflexivity|].
    intros j Hj0 Hj1. destruct j as [|[|j]]; try lia; reflexivity.
  - destruct p as [|x p]; cbn [length] in Hlt; try lia.
    rewrite swap_adj_cons. destruct (IH p) as (H1 & H2 & H3); [lia|].
    split; [exact H1|]. split; [exact H2|].
    intros j Hj0 Hj1. destruct j as [|j]; [reflexivity|]. cbn [nth]. apply H3; lia.
Qed.

(* out of range: nothing to swap *)
Lemma swap_adj_oob : forall p i, length p <= S i -> swap_adj p i = p.
Proof.
  intros p i Hle. unfold swap_adj.
  assert (Hl : length (skipn i p) <= 1) by (rewrite skipn_length; lia).
  transitivity (firstn i p ++ skipn i p); [|apply firstn_skipn]. f_equal.
  destruct (skipn i p) as [|a [|b r]]; try reflexivity. cbn [length] in Hl; lia.
Qed.

Section Generic.
  Context {F : Type} (o : NumOps F) (rnd : nat -> nat) (metro : F -> F -> nat -> bool).

  (* any property of the state preserved by one proposal is preserved by the whole run *)
  Lemma sa_equil_inv : forall (P : @sa F -> Prop) D N T,
    (forall s, P s -> P (fst (sa_step o rnd metro D N T s))) ->
    forall fuel succ its s s' succ' its',
    sa_equil o rnd metro D N T fuel succ its s = (s', succ', its') -> P s -> P s'.
  Proof.
    intros P D N T Hstep fuel; induction fuel as [|fuel IH]; intros succ its s s' succ' its' HE HP;
      cbn [sa_equil] in HE.
    - inversion HE; subst; exact HP.
    - destruct (Nat.ltb succ (10 * N)).
      + pose proof (Hstep s HP) as HS.
        destruct (sa_step o rnd metro D N T s) as [s1 ok]. cbn [fst] in HS.
        eapply IH; [exact HE|exact HS].
      + inversion HE; subst; exact HP.
  Qed.

  Lemma sa_cool_inv : forall (P : @sa F -> Prop) D N,
    (forall T s, P s -> P (fst (sa_step o rnd metro D N T s))) ->
    forall Te al fuel T total s s' total',
    sa_cool o rnd metro D N Te al fuel T total s = Some (s', total') -> P s -> P s'.
  Proof.
    intros P D N Hstep Te al fuel; induction fuel as [|fuel IH]; intros T total s s' total' HC HP;
      cbn [sa_cool] in HC.
    - destruct (ngtb o T Te); [discriminate|]. inversion HC; subst; exact HP.
    - destruct (ngtb o T Te).
      + destruct (sa_equil o rnd metro D N T (100 * N) 0 0 s) as [[s1 succ] its] eqn:HE.
        pose proof (sa_equil_inv P D N T (Hstep T) _ _ _ _ _ _ _ HE HP) as HP1.
        destruct (Nat.eqb succ 0).
        * inversion HC; subst; exact HP1.
        * eapply IH; [exact HC|exact HP1].
      + inversion HC; subst; exact HP.
  Qed.

  Lemma sa_step_perm : forall l D N T s,
    Permutation (sa_p s) l -> Permutation (sa_p (fst (sa_step o rnd metro D N T s))) l.
  Proof.
    intros l D N T s HP. unfold sa_step.
    destruct (ngtb o _ _); [|destruct (metro _ _ _)]; cbn [fst sa_p]; auto;
      (eapply Permutation_trans; [apply swap_adj_perm|exact HP]).
  Qed.

  Lemma sa_equil_its : forall D N T fuel succ its s s' succ' its',
    sa_equil o rnd metro D N T fuel succ its s = (s', succ', its') -> its' <= its + fuel.
  Proof.
    intros D N T fuel; induction fuel as [|fuel IH]; intros succ its s s' succ' its' HE;
      cbn [sa_equil] in HE.
    - inversion HE; subst; lia.
    - destruct (Nat.ltb succ (10 * N)).
      + destruct (sa_step o rnd metro D N T s) as [s1 ok].
        apply IH in HE. lia.
      + inversion HE; subst; lia.
  Qed.

  Lemma sa_cool_total : forall D N Te al fuel T total s s' total',
    sa_cool o rnd metro D N Te al fuel T total s = Some (s', total') ->
    total' <= total + fuel * (100 * N).
  Proof.
    intros D N Te al fuel; induction fuel as [|fuel IH]; intros T total s s' total' HC;
      cbn [sa_cool] in HC.
    - destruct (ngtb o T Te); [discriminate|]. inversion HC; subst; lia.
    - destruct (ngtb o T Te).
      + destruct (sa_equil o rnd metro D N T (100 * N) 0 0 s) as [[s1 succ] its] eqn:HE.
        apply sa_equil_its in HE.
        destruct (Nat.eqb succ 0).
        * inversion HC; subst. lia.
        * apply IH in HC. lia.
      + inversion HC; subst; lia.
  Qed.
End Generic.

Theorem sim_ann_perm : forall (F : Type) (o : NumOps F) rnd metro D Ts Te al fuel p A it,
   sim_ann o rnd metro D Ts Te al fuel = Some (p, A, it) -> Permutation p (seq 0 (length D)).
Proof.
  intros F o rnd metro D Ts Te al fuel p A it HS. unfold sim_ann in HS.
  destruct (sa_cool o rnd metro D (length D) Te al fuel Ts 0 _) as [[s total]|] eqn:HC;
    [|discriminate].
  inversion HS; subst.
  apply (sa_cool_inv o rnd metro (fun s => Permutation (sa_p s) (seq 0 (length D))) D (length D)
           (sa_step_perm o rnd metro _ D (length D)) _ _ _ _ _ _ _ _ HC).
  cbn [sa_p]. apply Permutation_refl.
Qed.
Print Assumptions sim_ann_perm.

Theorem sim_ann_iter_bound : forall (F : Type) (o : NumOps F) rnd metro D Ts Te al fuel p A it,
   sim_ann o rnd metro D Ts Te al fuel = Some (p, A, it) -> it <= fuel * (100 * length D).
Proof.
  intros F o rnd metro D Ts Te al fuel p A it HS. unfold sim_ann in HS.
  destruct (sa_cool o rnd metro D (length D) Te al fuel Ts 0 _) as [[s total]|] eqn:HC;
    [|discriminate].
  inversion HS; subst.
  apply sa_cool_total in HC. lia.
Qed.
Print Assumptions sim_ann_iter_bound.

(* ------------------------------------------------------------------ *)
(* 2. the running value A is the upper-triangle sum of the permuted matrix *)

Local Open Scope R_scope.

Definition square (D : list (list R)) : Prop := Forall (fun r => length r = length D) D.
Definition antisym (D : list (list R)) : Prop :=
   forall i j, (i < length D)%nat -> (j < length D)%nat -> mget ROps D i j = (- mget ROps D j i)%R.

(* sums *)
Lemma fold_Rplus_acc : forall l a, fold_left Rplus l a = a + fold_left Rplus l 0.
Proof.
  induction l as [|x l IH]; intros a; cbn [fold_left]; [lra|].
  rewrite (IH (a + x)), (IH (0 + x)). lra.
Qed.

Lemma nsum_nil : nsum ROps [] = 0.
Proof. reflexivity. Qed.

Lemma nsum_cons : forall x l, nsum ROps (x :: l) = x + nsum ROps l.
Proof.
  intros x l. unfold nsum. cbn [fold_left nadd n0 ROps]. rewrite fold_Rplus_acc. lra.
Qed.

Lemma nsum_app : forall l1 l2, nsum ROps (l1 ++ l2) = nsum ROps l1 + nsum ROps l2.
Proof.
  induction l1 as [|x l1 IH]; intros l2; cbn [app].
  - rewrite nsum_nil. lra.
  - rewrite !nsum_cons, IH. lra.
Qed.

Lemma nsum_perm : forall l l', Permutation l l' -> nsum ROps l = nsum ROps l'.
Proof.
  intros l l' HP. induction HP as [|x l l' HP IH|x y l|l l' l'' HP1 IH1 HP2 IH2];
    rewrite ?nsum_cons; lra.
Qed.

(* reading a row through its indices *)
Lemma map_nth_seq_skipn : forall (row : list R) N i, length row = N ->
  map (fun j => nth j row 0) (seq i (N - i)) = skipn i row.
Proof.
  induction row as [|x row IH]; intros N i HN; cbn [length] in HN; subst N.
  - cbn [Nat.sub seq map]. destruct i; reflexivity.
  - destruct i as [|i].
    + rewrite Nat.sub_0_r. cbn [seq map nth skipn]. f_equal.
      rewrite <- seq_shift, map_map. cbn [nth].
      rewrite <- (IH (length row) 0%nat eq_refl) at 2. now rewrite Nat.sub_0_r.
    + cbn [Nat.sub skipn]. rewrite <- seq_shift, map_map. cbn [nth].
      apply IH. reflexivity.
Qed.

Lemma square_row_length : forall M i, square M -> (i < length M)%nat -> length (nth i M []) = length M.
Proof.
  intros M i HM Hi. unfold square in HM. rewrite Forall_forall in HM.
  apply HM. apply nth_In. exact Hi.
Qed.

Lemma triu_sum_skipn : forall M, square M ->
  triu_sum ROps M = nsum ROps (map (fun i => nsum ROps (skipn i (nth i M []))) (seq 0 (length M))).
Proof.
  intros M HM. unfold triu_sum. cbv zeta. f_equal. apply map_ext_in. intros i Hi.
  apply in_seq in Hi. unfold triu_row. f_equal.
  apply (map_nth_seq_skipn (nth i M []) (length M) i).
  apply square_row_length; [exact HM|lia].
Qed.

Lemma permutate_square : forall D p, square (permutate_matrix ROps D p).
Proof.
  intros D p. unfold square, permutate_matrix. apply Forall_forall. intros r Hr.
  apply in_map_iff in Hr. destruct Hr as (n & Hn & _). subst r. now rewrite !map_length.
Qed.

Lemma permutate_row : forall D p i, (i < length p)%nat ->
  nth i (permutate_matrix ROps D p) [] = map (mget ROps D (nth i p 0%nat)) p.
Proof.
  intros D p i Hi. unfold permutate_matrix.
  rewrite (nth_indep _ [] ((fun n => map (fun m => mget ROps D n m) p) 0%nat))
    by (now rewrite map_length).
  rewrite (map_nth (fun n => map (fun m => mget ROps D n m) p)). reflexivity.
Qed.

(* the upper-triangle sum of the permuted matrix, by recursion on the permutation:
   row of the head against everything from the head on, then the tail *)
Fixpoint tsum (D : list (list R)) (p : list nat) : R :=
  match p with
  | [] => 0
  | x :: q => nsum ROps (map (mget ROps D x) (x :: q)) + tsum D q
  end.

Lemma tsum_rows : forall D p,
  nsum ROps (map (fun i => nsum ROps (map (mget ROps D (nth i p 0%nat)) (skipn i p))) (seq 0 (length p)))
  = tsum D p.
Proof.
  intros D p. induction p as [|x q IH].
  - reflexivity.
  - cbn [length seq map]. rewrite nsum_cons. cbn [nth skipn tsum]. f_equal.
    rewrite <- seq_shift, map_map. cbn [nth skipn]. exact IH.
Qed.

Lemma triu_perm_tsum : forall D p, triu_sum ROps (permutate_matrix ROps D p) = tsum D p.
Proof.
  intros D p. rewrite triu_sum_skipn by apply permutate_square.
  rewrite <- tsum_rows.
  replace (length (permutate_matrix ROps D p)) with (length p)
    by (unfold permutate_matrix; now rewrite map_length).
  f_equal. apply map_ext_in. intros i Hi. apply in_seq in Hi.
  rewrite permutate_row by lia. now rewrite skipn_map.
Qed.

Lemma tsum_swap : forall D p i,
  (forall x y, In x p -> In y p -> mget ROps D x y = - mget ROps D y x) ->
  (S i < length p)%nat ->
  tsum D (swap_adj p i) = tsum D p + (-2) * mget ROps D (nth i p 0%nat) (nth (S i) p 0%nat).
Proof.
  intros D p i; revert p. induction i as [|i IH]; intros p Hanti Hlt.
  - destruct p as [|a [|b r]]; cbn [length] in Hlt; try lia.
    change (swap_adj (a :: b :: r) 0) with (b :: a :: r).
    cbn [tsum map nth]. rewrite !nsum_cons.
    pose proof (Hanti a b (or_introl eq_refl) (or_intror (or_introl eq_refl))) as Hab.
    lra.
  - destruct p as [|x q]; cbn [length] in Hlt; try lia.
    rewrite swap_adj_cons. cbn [tsum nth].
    rewrite (IH q) by (try lia; intros u v Hu Hv; apply Hanti; right; assumption).
    rewrite (nsum_perm (map (mget ROps D x) (x :: swap_adj q i)) (map (mget ROps D x) (x :: q))).
    + lra.
    + apply Permutation_map. apply perm_skip. apply swap_adj_perm.
Qed.

Lemma permutate_id : forall D, square D -> permutate_matrix ROps D (seq 0 (length D)) = D.
Proof.
  intros D HD. apply (nth_ext _ _ [] []).
  - unfold permutate_matrix. now rewrite map_length, seq_length.
  - intros n Hn. unfold permutate_matrix in Hn. rewrite map_length, seq_length in Hn.
    rewrite permutate_row by (now rewrite seq_length).
    rewrite seq_nth by exact Hn. cbn [Nat.add].
    pose proof (map_nth_seq_skipn (nth n D []) (length D) 0 (square_row_length D n HD Hn)) as HR.
    rewrite Nat.sub_0_r in HR. cbn [skipn] in HR. exact HR.
Qed.

Lemma triu_swap : forall D p i, square D -> antisym D -> Permutation p (seq 0 (length D)) -> (S i < length p)%nat ->
   triu_sum ROps (permutate_matrix ROps D (swap_adj p i)) =
   (triu_sum ROps (permutate_matrix ROps D p) + (-2) * mget ROps D (nth i p 0%nat) (nth (S i) p 0%nat))%R.
Proof.
  intros D p i _ HA HP Hlt. rewrite !triu_perm_tsum. apply tsum_swap; [|exact Hlt].
  intros x y Hx Hy. apply HA.
  - apply (Permutation_in _ HP) in Hx. apply in_seq in Hx. lia.
  - apply (Permutation_in _ HP) in Hy. apply in_seq in Hy. lia.
Qed.

(* N <= 1: the proposal is a no-op with delta = 0 *)
Lemma small_case : forall D p i, antisym D -> (length D <= 1)%nat ->
  Permutation p (seq 0 (length D)) ->
  swap_adj p i = p /\ mget ROps D (nth i p 0%nat) (nth (S i) p 0%nat) = 0.
Proof.
  intros D p i HA Hle HP. split.
  - apply swap_adj_oob. apply Permutation_length in HP. rewrite seq_length in HP. lia.
  - destruct D as [|r [|r' D']]; cbn [length] in Hle; try lia.
    + unfold mget, mrow. cbn [n0 ROps].
      rewrite (nth_overflow []) by (cbn [length]; lia).
      apply nth_overflow. cbn [length]; lia.
    + cbn [length seq] in HP. apply Permutation_sym, Permutation_length_1_inv in HP. subst p.
      assert (E1 : nth i [0%nat] 0%nat = 0%nat) by (destruct i as [|[|i]]; reflexivity).
      assert (E2 : nth (S i) [0%nat] 0%nat = 0%nat) by (destruct i as [|i]; reflexivity).
      rewrite E1, E2.
      pose proof (HA 0%nat 0%nat) as H0. cbn [length] in H0.
      specialize (H0 (Nat.lt_0_succ 0) (Nat.lt_0_succ 0)). lra.
Qed.

Definition tracks (D : list (list R)) (s : @sa R) : Prop :=
  Permutation (sa_p s) (seq 0 (length D)) /\
  sa_A s = triu_sum ROps (permutate_matrix ROps D (sa_p s)).

Lemma sa_step_tracks : forall rnd metro D, square D -> antisym D ->
  forall T s, tracks D s -> tracks D (fst (sa_step ROps rnd metro D (length D) T s)).
Proof.
  intros rnd metro D HD HA T s [HP HT].
  assert (Hkey : forall i, i = Nat.modulo (rnd (sa_k s)) (length D - 1) ->
     triu_sum ROps (permutate_matrix ROps D (swap_adj (sa_p s) i)) =
     triu_sum ROps (permutate_matrix ROps D (sa_p s))
     + (-2) * mget ROps D (nth i (sa_p s) 0%nat) (nth (S i) (sa_p s) 0%nat)).
  { intros i Hi. destruct (le_lt_dec (length D) 1) as [Hle|Hgt].
    - destruct (small_case D (sa_p s) i HA Hle HP) as [E1 E2]. rewrite E1, E2. lra.
    - apply triu_swap; try assumption.
      pose proof (Permutation_length HP) as HL. rewrite seq_length in HL.
      pose proof (Nat.mod_upper_bound (rnd (sa_k s)) (length D - 1)) as HM.
      rewrite HL. subst i. lia. }
  unfold sa_step.
  set (ind1 := Nat.modulo (rnd (sa_k s)) (length D - 1)) in *.
  specialize (Hkey ind1 eq_refl).
  assert (HPs : Permutation (swap_adj (sa_p s) ind1) (seq 0 (length D)))
    by (eapply Permutation_trans; [apply swap_adj_perm|exact HP]).
  destruct (ngtb ROps _ _); [|destruct (metro _ _ _)]; cbn [fst]; split; cbn [sa_p sa_A];
    try assumption; cbn [nadd nmul nofZ ROps]; rewrite Hkey, HT; reflexivity.
Qed.

Theorem sim_ann_tracks : forall rnd metro D Ts Te al fuel p A it,
   square D -> antisym D ->
   sim_ann ROps rnd metro D Ts Te al fuel = Some (p, A, it) ->
   A = triu_sum ROps (permutate_matrix ROps D p).
Proof.
  intros rnd metro D Ts Te al fuel p A it HD HA HS. unfold sim_ann in HS.
  destruct (sa_cool ROps rnd metro D (length D) Te al fuel Ts 0 _) as [[s total]|] eqn:HC;
    [|discriminate].
  inversion HS; subst.
  apply (sa_cool_inv ROps rnd metro (tracks D) D (length D)
           (sa_step_tracks rnd metro D HD HA) _ _ _ _ _ _ _ _ HC).
  split; cbn [sa_p sa_A]; [apply Permutation_refl|].
  now rewrite permutate_id.
Qed.
Print Assumptions sim_ann_tracks.

(* ------------------------------------------------------------------ *)
(* 3. termination of the wrapper *)

Lemma sa_cool_some : forall rnd metro D N Te al fuel T total s,
  T * al ^ fuel <= Te -> sa_cool ROps rnd metro D N Te al fuel T total s <> None.
Proof.
  intros rnd metro D N Te al fuel; induction fuel as [|fuel IH]; intros T total s HT;
    cbn [sa_cool]; unfold ngtb; cbn [nltb ROps]; destruct (Rltb_spec Te T) as [Hgt|Hle];
    try discriminate.
  - cbn [pow] in HT. lra.
  - destruct (sa_equil ROps rnd metro D N T (100 * N) 0 0 s) as [[s1 succ] its].
    destruct (Nat.eqb succ 0); [discriminate|].
    apply IH. cbn [nmul ROps]. cbn [pow] in HT. rewrite Rmult_assoc. exact HT.
Qed.

Lemma pow_9_10_110 : (9/10) ^ 110 < 1/100000.
Proof. lra. Qed.

Lemma pow_9_10_le1 : forall k, 0 < (9/10) ^ k <= 1.
Proof.
  induction k as [|k IH]; cbn [pow]; [lra|]. nra.
Qed.

Lemma pow_9_10_ge110 : forall fuel, (110 <= fuel)%nat -> (9/10) ^ fuel < 1/100000.
Proof.
  intros fuel Hf. replace fuel with (110 + (fuel - 110))%nat by lia.
  rewrite pow_add. pose proof pow_9_10_110 as H1.
  pose proof (pow_9_10_le1 (fuel - 110)) as H2. pose proof (pow_9_10_le1 110) as H3.
  nra.
Qed.

Theorem sorting_terminates : forall rnd metro D fuel, (110 <= fuel)%nat ->
   sorting_from_matrix ROps rnd metro D fuel <> None.
Proof.
  intros rnd metro D fuel Hf. unfold sorting_from_matrix, sim_ann.
  set (Ts := nmul ROps (n2 ROps) (mat_max ROps D)).
  set (s0 := mkSa _ _ _).
  assert (HC : sa_cool ROps rnd metro D (length D)
                 (nmul ROps (ndiv ROps (n1 ROps) (nofZ ROps 100000)) Ts)
                 (ndiv ROps (nofZ ROps 9) (nofZ ROps 10)) fuel Ts 0 s0 <> None).
  { cbn [nmul ndiv n1 nofZ ROps]. destruct (Rle_lt_dec Ts 0) as [Hneg|Hpos].
    - destruct fuel; cbn [sa_cool]; unfold ngtb; cbn [nltb ROps];
        destruct (Rltb_spec (1 / 100000 * Ts) Ts); try discriminate; lra.
    - apply sa_cool_some. pose proof (pow_9_10_ge110 fuel Hf) as HP.
      rewrite (Rmult_comm (1/100000)). apply Rmult_le_compat_l; lra. }
  destruct (sa_cool _ _ _ _ _ _ _ _ _ _ _) as [[s total]|]; [discriminate|].
  exfalso; apply HC; reflexivity.
Qed.
Print Assumptions sorting_terminates.

(* ------------------------------------------------------------------ *)
(* 4. non-vacuity: an antisymmetric square 3x3 matrix *)

Definition D3 : list (list R) := [[0; 1; -2]; [-1; 0; 3]; [2; -3; 0]].

Lemma D3_square : square D3.
Proof. unfold square, D3. repeat constructor. Qed.

Lemma D3_antisym : antisym D3.
Proof.
  unfold antisym, D3. cbn [length]. intros i j Hi Hj.
  destruct i as [|[|[|i]]]; try lia; destruct j as [|[|[|j]]]; try lia;
    unfold mget, mrow; cbn [nth n0 ROps]; lra.
Qed.

(* the tracking theorem applies to it, whatever the random stream *)
Corollary D3_tracks : forall rnd metro fuel p A it,
  sorting_from_matrix ROps rnd metro D3 fuel = Some (p, A, it) ->
  A = triu_sum ROps (permutate_matrix ROps D3 p) /\ Permutation p [0; 1; 2]%nat.
Proof.
  intros rnd metro fuel p A it HS. unfold sorting_from_matrix in HS. split.
  - eapply sim_ann_tracks; [apply D3_square|apply D3_antisym|exact HS].
  - apply sim_ann_perm in HS. exact HS.
Qed.
Print Assumptions D3_tracks.
Print Assumptions triu_swap.
Print Assumptions permutate_id.
